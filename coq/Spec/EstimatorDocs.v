(* HAND-WRITTEN from the docstrings of skglm/estimators.py and skglm/experimental/sqrt_lasso.py: for each estimator,
   the (datafit, penalty, solver) constructions its documentation implies, with every documented constructor
   argument reaching the component it names.  Objectives (docstrings):
     Lasso            1/(2n) ||y - Xw||^2 + alpha ||w||_1                          (positive, fit_intercept)
     WeightedLasso    1/(2n) ||y - Xw||^2 + alpha sum_j weights_j |w_j|            (weights None -> L1)
     ElasticNet       1/(2n) ||y - Xw||^2 + alpha (l1_ratio ||w||_1 + (1 - l1_ratio)/2 ||w||^2)
     MCPRegression    1/(2n) ||y - Xw||^2 + sum_j MCP_{alpha, gamma}(w_j)          (weights optional)
     SparseLogisticRegression   1/n sum log(1 + exp(-y_i x_i^T w)) + alpha ||w||_1
     LinearSVC        dual: 1/2 ||(yX)^T w||^2 - sum w, 0 <= w <= C   (no intercept in the dual formulation)
     CoxEstimator     Cox NLL (Breslow / Efron by `method`) + alpha (l1_ratio ||w||_1 + (1 - l1_ratio)/2 ||w||^2); l1_ratio = 1 -> L1, 0 -> L2 (LBFGS)
     MultiTaskLasso   1/(2n) ||Y - XW||_F^2 + alpha sum_j ||W_j||_2
     GroupLasso       1/(2n) ||y - Xw||^2 + alpha sum_g weights_g ||w_g||_2
     GeneralizedLinearEstimator   identity on (datafit, penalty, solver); defaults Quadratic, L1(1.), AndersonCD()
     SqrtLasso        ||y - Xw||_2 + alpha ||w||_1   (alpha set along the path on L1(1.); p0, tol, max_iter, max_pn_iter reach ProxNewton) *)
From Coq Require Import String List.
Import ListNotations.
Open Scope string_scope.

Definition documented : list (string * list string) := [
  ("CoxEstimator", [
     "Cox(use_efron=self.method == 'efron')"; 
     "L1(alpha=self.alpha)"; 
     "L1_plus_L2(alpha=self.alpha, l1_ratio=self.l1_ratio)"; 
     "L2(alpha=self.alpha)"; 
     "LBFGS(max_iter=self.max_iter, tol=self.tol)"; 
     "ProxNewton(fit_intercept=False, max_iter=self.max_iter, tol=self.tol)"]);
  ("ElasticNet", [
     "AndersonCD(fit_intercept=self.fit_intercept, max_epochs=self.max_epochs, max_iter=self.max_iter, p0=self.p0, tol=self.tol, warm_start=self.warm_start, ws_strategy=self.ws_strategy)"; 
     "L1_plus_L2(alpha=self.alpha, l1_ratio=self.l1_ratio, positive=self.positive)"; 
     "Quadratic()"]);
  ("GeneralizedLinearEstimator", [
     "AndersonCD()"; 
     "L1(alpha=1.0)"; 
     "Quadratic()"]);
  ("GroupLasso", [
     "GroupBCD(fit_intercept=self.fit_intercept, max_epochs=self.max_epochs, max_iter=self.max_iter, p0=self.p0, tol=self.tol, warm_start=self.warm_start, ws_strategy=self.ws_strategy)"; 
     "QuadraticGroup(grp_indices=grp_indices, grp_ptr=grp_ptr)"; 
     "WeightedGroupL2(alpha=self.alpha, grp_indices=grp_indices, grp_ptr=grp_ptr, positive=self.positive, weights=weights)"]);
  ("Lasso", [
     "AndersonCD(fit_intercept=self.fit_intercept, max_epochs=self.max_epochs, max_iter=self.max_iter, p0=self.p0, tol=self.tol, warm_start=self.warm_start, ws_strategy=self.ws_strategy)"; 
     "L1(alpha=self.alpha, positive=self.positive)"; 
     "Quadratic()"]);
  ("LinearSVC", [
     "AndersonCD(fit_intercept=False, max_epochs=self.max_epochs, max_iter=self.max_iter, p0=self.p0, tol=self.tol, warm_start=self.warm_start, ws_strategy=self.ws_strategy)"; 
     "IndicatorBox(alpha=self.C)"; 
     "QuadraticSVC()"]);
  ("MCPRegression", [
     "AndersonCD(fit_intercept=self.fit_intercept, max_epochs=self.max_epochs, max_iter=self.max_iter, p0=self.p0, tol=self.tol, warm_start=self.warm_start, ws_strategy=self.ws_strategy)"; 
     "MCPenalty(alpha=self.alpha, gamma=self.gamma, positive=self.positive)"; 
     "Quadratic()"; 
     "WeightedMCPenalty(alpha=self.alpha, gamma=self.gamma, positive=self.positive, weights=self.weights)"]);
  ("MultiTaskLasso", [
     "L2_1(alpha=self.alpha)"; 
     "MultiTaskBCD(fit_intercept=self.fit_intercept, max_epochs=self.max_epochs, max_iter=self.max_iter, p0=self.p0, tol=self.tol, warm_start=self.warm_start, ws_strategy=self.ws_strategy)"; 
     "QuadraticMultiTask()"]);
  ("SparseLogisticRegression", [
     "L1(alpha=self.alpha)"; 
     "Logistic()"; 
     "ProxNewton(fit_intercept=self.fit_intercept, max_iter=self.max_iter, max_pn_iter=self.max_epochs, tol=self.tol, warm_start=self.warm_start)"]);
  ("SqrtLasso", [
     "L1(alpha=1.0)"; 
     "ProxNewton(fit_intercept=False, max_iter=self.max_iter, max_pn_iter=self.max_pn_iter, p0=self.p0, tol=self.tol)"; 
     "SqrtQuadratic()"]);
  ("WeightedLasso", [
     "AndersonCD(fit_intercept=self.fit_intercept, max_epochs=self.max_epochs, max_iter=self.max_iter, p0=self.p0, tol=self.tol, warm_start=self.warm_start, ws_strategy=self.ws_strategy)"; 
     "L1(alpha=self.alpha, positive=self.positive)"; 
     "Quadratic()"; 
     "WeightedL1(alpha=self.alpha, positive=self.positive, weights=self.weights)"])
].
