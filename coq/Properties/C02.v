(* C02 -- converged convex fits reach the reference optimum: first-order conditions are sufficient, with an
   explicit tolerance-proportional gap.  Any two points certified to eps for the same convex objective (whichever
   skglm solver or reference implementation produced them) have objective values within
   eps * (||w - w'||_1 + |b - b'|) of each other. *)
From Coq Require Import Reals ZArith List.
Require Import SK.Base.Res SK.Base.Num SK.Base.RInst SK.Lemmas.VecFacts SK.Lemmas.Subdiff SK.Lemmas.DfQuadratic SK.Lemmas.Descent SK.Lemmas.KKT.
Local Open Scope R_scope.

Theorem gap_bound : forall (n : nat) (X : list (list R)) (D : list R -> R) (pens : list (R -> R)),
  Forall (fun col => length col = n) X -> length pens = length X ->
  forall (w w' : list R) (b b' : R) (rg vs : list R) (eps : R),
  length w = length X -> length w' = length X -> length rg = n -> length vs = length X -> 0 <= eps ->
  (forall z', length z' = n -> D z' >= D (vadd (Xmul n X w) (repeat b n)) + dot rg (vmap2 Rminus z' (vadd (Xmul n X w) (repeat b n)))) ->
  Forall2 (fun f wv => forall u, f u >= f (fst wv) + snd wv * (u - fst wv)) pens (combine w vs) ->
  Forall2 (fun col v => Rabs (dot col rg + v) <= eps) X vs -> Rabs (rsum rg) <= eps ->
  Ftot n X D pens w b - Ftot n X D pens w' b' <= eps * (l1dist w w' + Rabs (b - b')).
Proof. exact kkt_gap_bound. Qed.
Print Assumptions gap_bound.

(* eps = 0: a point with zero score is a global minimiser *)
Corollary kkt_sufficient : forall (n : nat) (X : list (list R)) (D : list R -> R) (pens : list (R -> R)),
  Forall (fun col => length col = n) X -> length pens = length X ->
  forall (w w' : list R) (b b' : R) (rg vs : list R),
  length w = length X -> length w' = length X -> length rg = n -> length vs = length X ->
  (forall z', length z' = n -> D z' >= D (vadd (Xmul n X w) (repeat b n)) + dot rg (vmap2 Rminus z' (vadd (Xmul n X w) (repeat b n)))) ->
  Forall2 (fun f wv => forall u, f u >= f (fst wv) + snd wv * (u - fst wv)) pens (combine w vs) ->
  Forall2 (fun col v => Rabs (dot col rg + v) <= 0) X vs -> Rabs (rsum rg) <= 0 ->
  Ftot n X D pens w b <= Ftot n X D pens w' b'.
Proof. exact kkt_zero_score_is_global_min. Qed.
Print Assumptions kkt_sufficient.

(* the Quadratic datafit satisfies the hypothesis (gradient inequality, raw gradient (z - y) / n) *)
Theorem datafit_convex_quadratic : forall (y z z' : list R), length y = length z -> length z' = length z -> z <> nil ->
  quad_doc y z' >= quad_doc y z + dot (map (fun r => r / nR z) (vmap2 lq' y z)) (vmap2 Rminus z' z).
Proof. exact quad_gradient_inequality. Qed.
Print Assumptions datafit_convex_quadratic.

(* a score <= eps (C08: distance to the subdifferential) yields a subgradient within eps *)
Theorem score_gives_subgradient_within_eps : forall S g eps d, wf_sd S ->
  dist_sd (- g) S = Fin d -> d <= eps -> exists v, In_sd v S /\ Rabs (g + v) <= eps.
Proof. exact score_gives_subgradient. Qed.
Print Assumptions score_gives_subgradient_within_eps.
