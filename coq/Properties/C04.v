(* C04 -- constraints hold at every stopping point.  Kernel layer regenerated from /repo; solver layer:
   Skel/AndersonCD.v (tied by correspondence). *)
From Coq Require Import Reals ZArith List.
Require Import SK.Base.Res SK.Base.Num SK.Base.RInst SK.Lemmas.Feasible SK.Lemmas.Consistency.
Require Import SK.Gen.ProxFuncs SK.Gen.PenSeparable SK.Gen.KernACD.
Require Import SK.Skel.AndersonCD SK.Skel.AndersonCDFeasible.
Local Open Scope R_scope.

(* every prox with a positivity / box constraint returns a feasible value, for all inputs *)
Theorem prox_feasible_l1 : forall alpha s x j p, 0 <= alpha -> 0 <= s -> @L1_prox_1d R _ alpha true x s j = Ok p -> 0 <= p.
Proof. exact L1_prox_pos_feasible. Qed.
Print Assumptions prox_feasible_l1.
Theorem prox_feasible_wl1 : forall alpha weights s x j wj p, 0 <= alpha -> 0 <= s ->
  get_idx weights j = Ok wj -> 0 <= wj -> @WeightedL1_prox_1d R _ alpha weights true x s j = Ok p -> 0 <= p.
Proof. exact WeightedL1_prox_pos_feasible. Qed.
Print Assumptions prox_feasible_wl1.
Theorem prox_feasible_en : forall alpha rho s x j p, 0 <= alpha -> 0 <= rho <= 1 -> 0 <= s ->
  @L1_plus_L2_prox_1d R _ alpha rho true x s j = Ok p -> 0 <= p.
Proof. exact L1_plus_L2_prox_pos_feasible. Qed.
Print Assumptions prox_feasible_en.
Theorem prox_feasible_mcp : forall alpha gamma s x j p, 0 <= alpha -> 0 < gamma -> 0 <= s -> s < gamma ->
  @MCPenalty_prox_1d R _ alpha gamma true x s j = Ok p -> 0 <= p.
Proof. exact MCPenalty_prox_pos_feasible. Qed.
Print Assumptions prox_feasible_mcp.
Theorem prox_feasible_box : forall C s x j p, 0 <= C -> @IndicatorBox_prox_1d R _ C x s j = Ok p -> 0 <= p <= C.
Proof. exact IndicatorBox_prox_feasible. Qed.
Print Assumptions prox_feasible_box.
Theorem prox_feasible_posc : forall s x j p, @PositiveConstraint_prox_1d R _ x s j = Ok p -> 0 <= p.
Proof. exact PositiveConstraint_prox_feasible. Qed.
Print Assumptions prox_feasible_posc.

(* the penalty value is +inf outside the feasible set: an infeasible extrapolated point never wins the accept test *)
Theorem value_inf_outside_l1 : forall alpha w v, @L1_value R _ alpha true w = Ok (Fin v) -> Forall (fun x => 0 <= x) w.
Proof. exact L1_value_finite_feasible. Qed.
Print Assumptions value_inf_outside_l1.
Theorem value_inf_outside_wl1 : forall alpha weights w v,
  @WeightedL1_value R _ alpha weights true w = Ok (Fin v) -> Forall (fun x => 0 <= x) w.
Proof. exact WeightedL1_value_finite_feasible. Qed.
Print Assumptions value_inf_outside_wl1.
Theorem value_inf_outside_en : forall alpha rho w v,
  @L1_plus_L2_value R _ alpha rho true w = Ok (Fin v) -> Forall (fun x => 0 <= x) w.
Proof. exact L1_plus_L2_value_finite_feasible. Qed.
Print Assumptions value_inf_outside_en.
Theorem value_inf_outside_mcp : forall alpha gamma w v,
  @MCPenalty_value R _ alpha gamma true w = Ok (Fin v) -> Forall (fun x => 0 <= x) w.
Proof. exact MCPenalty_value_finite_feasible. Qed.
Print Assumptions value_inf_outside_mcp.
Theorem value_inf_outside_posc : forall w v, @PositiveConstraint_value R _ w = Ok (Fin v) -> Forall (fun x => 0 <= x) w.
Proof. exact PositiveConstraint_value_finite_feasible. Qed.
Print Assumptions value_inf_outside_posc.

(* the generated epoch keeps w feasible for ANY update rule with feasible outputs *)
Theorem epoch_preserves_feasible : forall (prox_1d : R -> R -> Z -> res R)
    (gradient_scalar : list (list R) -> list R -> list R -> list R -> Z -> res R) (P : R -> Prop),
  (forall x s j v, prox_1d x s j = Ok v -> P v) ->
  forall X y w Xw lc ws w' Xw', Forall (fun j => (0 <= j)%Z) ws -> Forall P w ->
  @_cd_epoch R _ prox_1d gradient_scalar X y w Xw lc ws = Ok (w', Xw') -> Forall P w'.
Proof. exact cd_epoch_preserves_feasible. Qed.
Print Assumptions epoch_preserves_feasible.

(* every point the AndersonCD skeleton returns is feasible: any budget, tolerance, working sets, feasible start *)
Theorem run_feasible_acd : forall {A} (cfg : @config R) (K : @kernels R A) X y prox_1d gradient_scalar (P : R -> Prop),
  (forall x s j v, prox_1d x s j = Ok v -> P v) ->
  (forall w Xw lip ws, k_epoch K w Xw lip ws = @_cd_epoch R _ prox_1d gradient_scalar X y w Xw lip ws) ->
  (forall w Xw lip ws w' Xw', k_epoch K w Xw lip ws = Ok (w', Xw') -> Forall (fun j => (0 <= j)%Z) ws) ->
  (forall w Xw lip ws w' Xw', k_epoch K w Xw lip ws = Ok (w', Xw') -> length w' = length w) ->
  (forall w v, k_pen_value K w = Ok (Fin v) -> Forall P w) ->
  forall w0 Xw0 out, feasI cfg P w0 Xw0 -> solve cfg K (Some w0) (Some Xw0) = Ok out ->
  feasI cfg P (o_w out) (o_Xw out).
Proof. intros A. exact (@andersoncd_returns_feasible A). Qed.
Print Assumptions run_feasible_acd.

(* IndicatorBox: every coefficient outside [0, C] is in the generalized support (regenerated kernel), so it is forced into
   the working set (C01: the working set holds the whole support) and projected back by the first epoch: a warm-started
   refit with a smaller C is feasible after one epoch, whatever the budget *)
Theorem box_infeasible_coefficients_are_in_the_support : forall C (w : list R) gs,
  @IndicatorBox_generalized_support R _ C w = Ok gs ->
  length gs = length w /\
  forall j, (j < length w)%nat -> (nth j w 0 < 0 \/ C < nth j w 0) -> 0 <= C -> nth j gs false = true.
Proof. exact IndicatorBox_gsupp_covers_infeasible. Qed.
Print Assumptions box_infeasible_coefficients_are_in_the_support.

(* the working-set score of IndicatorBox is +inf at a coefficient outside the box (regenerated method = the score of the
   true subdifferential, which is empty there): a run cannot report stop_crit <= tol while a coefficient it scores is infeasible *)
Require Import SK.Lemmas.Subdiff.
Theorem box_infeasible_coefficient_scores_infinity : forall C j w g,
  0 <= C -> (w < 0 \/ C < w) -> score (subdiff_box C) j w g = PInf.
Proof. exact box_score_infeasible. Qed.
Print Assumptions box_infeasible_coefficient_scores_infinity.
