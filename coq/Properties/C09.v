(* C09 -- step-size constants are valid curvature bounds. *)
From Coq Require Import Reals ZArith List.
Require Import SK.Base.Res SK.Base.Num SK.Base.RInst SK.Lemmas.VecFacts SK.Lemmas.DfQuadratic SK.Lemmas.Lipschitz.
Require Import SK.Gen.SparseOps SK.Gen.DfSingle.
Local Open Scope R_scope.

Theorem coord_constant_is_mean_square_quadratic : forall (X : list (list R)) (y : list R), y <> nil ->
  @Quadratic_get_lipschitz R _ X y = Ok (map (fun col => sqnorm col / nR y) X).
Proof. exact Quadratic_get_lipschitz_spec. Qed.
Print Assumptions coord_constant_is_mean_square_quadratic.

(* exactness: moving coordinate j by d changes the documented loss by  d * grad_j + d^2/2 * L_j  *)
Theorem coord_constant_valid_quadratic : forall (y z c : list R) (d : R),
  length y = length z -> length c = length z -> z <> nil ->
  quad_doc y (vmap2 Rplus z (map (fun e => d * e) c))
  = quad_doc y z + d * (rsum (vmap2 Rmult c (vmap2 lq' y z)) / nR z) + d ^ 2 / 2 * (sqnorm c / nR z).
Proof. exact quad_step_identity. Qed.
Print Assumptions coord_constant_valid_quadratic.

Theorem rawhessian_eq_quadratic : forall (y z : list R), y <> nil ->
  @Quadratic_raw_hessian R _ y z = Ok (repeat (1 / nR y) (length y)).
Proof. exact Quadratic_raw_hessian_spec. Qed.
Print Assumptions rawhessian_eq_quadratic.

Theorem loss_curvature_bound_logistic : forall t, 0 < t -> t / (1 + t) ^ 2 <= / 4.
Proof. exact logistic_curvature_bound. Qed.
Print Assumptions loss_curvature_bound_logistic.

(* Huber and Logistic coordinate constants as regenerated, and the logistic bound at every point *)
Require Import SK.Lemmas.LipschitzMore.
Theorem huber_lipschitz_is_mean_square : forall (X : list (list R)) (y : list R), y <> nil ->
  @Huber_get_lipschitz R _ X y = Ok (map (fun col => sqnorm col / nR y) X).
Proof. exact Huber_get_lipschitz_spec. Qed.
Print Assumptions huber_lipschitz_is_mean_square.
Theorem logistic_lipschitz_is_quarter_mean_square : forall (X : list (list R)) (y : list R), y <> nil ->
  @Logistic_get_lipschitz R _ X y = Ok (map (fun col => sqnorm col / (4 * nR y)) X).
Proof. exact Logistic_get_lipschitz_spec. Qed.
Print Assumptions logistic_lipschitz_is_quarter_mean_square.
(* 1/n sum_i x_ij^2 s_i (1 - s_i) <= ||X_j||^2 / (4 n) for every point: t_i = exp(y_i (Xw)_i) > 0 is arbitrary *)
Theorem logistic_constant_dominates_curvature_everywhere : forall (col ts : list R) (n : R), 0 < n -> length col = length ts ->
  Forall (fun t => 0 < t) ts ->
  rsum (vmap2 (fun x t => x * x * (t / (1 + t) ^ 2)) col ts) / n <= sqnorm col / (4 * n).
Proof. exact Logistic_constant_bounds_curvature. Qed.
Print Assumptions logistic_constant_dominates_curvature_everywhere.
