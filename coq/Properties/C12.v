(* C12 -- classifier outputs are consistent with the fitted linear model(s).  Subject: the hand-written glue
   model Skel/Classif.v, tied to skglm/estimators.py by executed correspondence on decision values. *)
From Coq Require Import Reals ZArith List.
Require Import SK.Base.Res SK.Base.Num SK.Base.RInst SK.Lemmas.VecFacts SK.Skel.Classif SK.Lemmas.ClassifFacts.
Local Open Scope R_scope.

Theorem proba_binary_sums_to_one : forall d, exists p0 p1, @proba_bin R _ d = Ok (p0, p1) /\ p0 + p1 = 1 /\ 0 < p0 /\ 0 < p1.
Proof. exact proba_bin_total_sum1. Qed.
Print Assumptions proba_binary_sums_to_one.

Theorem proba_binary_strictly_monotone : forall d d' p0 p1 q0 q1, d < d' ->
  @proba_bin R _ d = Ok (p0, p1) -> @proba_bin R _ d' = Ok (q0, q1) -> p1 < q1.
Proof. exact proba_bin_monotone. Qed.
Print Assumptions proba_binary_strictly_monotone.

Theorem predict_is_label_of_larger_probability : forall d p0 p1, @proba_bin R _ d = Ok (p0, p1) ->
  (@predict_bin R _ d = 1%Z <-> p0 < p1).
Proof. exact predict_bin_agrees_with_proba. Qed.
Print Assumptions predict_is_label_of_larger_probability.

Theorem proba_ovr_sums_to_one : forall ds, ds <> nil -> exists qs, @proba_ovr R _ ds = Ok qs /\ rsum qs = 1 /\ length qs = length ds.
Proof. exact proba_ovr_sum1. Qed.
Print Assumptions proba_ovr_sums_to_one.
