(* C05 -- warm starts and regularisation paths solve the problem they are asked. *)
From Coq Require Import Reals ZArith List.
Require Import SK.Base.Res SK.Base.Num SK.Base.RInst SK.Lemmas.Consistency SK.Gen.KernACD.
Require Import SK.Skel.AndersonCD SK.Skel.AndersonCDProofs SK.Skel.AndersonCDCons SK.Skel.Path.
Local Open Scope R_scope.

(* from ANY consistent user-supplied start the returned buffer is the model fit of the returned coefficients *)
Theorem buffers_hold_result :
  forall {A} (cfg : @config R) (K : @kernels R A) (X : list (list R)) (y : list R)
    (prox_1d : R -> R -> Z -> res R) (gradient_scalar : list (list R) -> list R -> list R -> list R -> Z -> res R),
  wf_X (n_samples cfg) X -> length X = n_features cfg ->
  (forall w Xw lip ws, k_epoch K w Xw lip ws = @_cd_epoch R _ prox_1d gradient_scalar X y w Xw lip ws) ->
  (forall w Xw lip ws w' Xw', k_epoch K w Xw lip ws = Ok (w', Xw') -> Forall (fun j => (0 <= j)%Z) ws) ->
  (forall w Xw w_acc Xw_acc p_obj p_obj_acc,
     consI cfg X w Xw -> objective cfg K w Xw = Ok p_obj -> objective cfg K w_acc Xw_acc = Ok p_obj_acc ->
     elt p_obj_acc p_obj = true -> length w_acc = length w -> consI cfg X w_acc Xw_acc) ->
  forall w0 Xw0 out, consI cfg X w0 Xw0 -> solve cfg K (Some w0) (Some Xw0) = Ok out ->
  consI cfg X (o_w out) (o_Xw out).
Proof. intros A. exact (@andersoncd_preserves_consistency A). Qed.
Print Assumptions buffers_hold_result.

(* a warm start meets the same certificate as a cold start: the criterion theorem quantifies over every start *)
Theorem warm_start_same_certificate :
  forall {F} `{Num F} {A} (cfg : @config F) (K : @kernels F A) w_init Xw_init out,
  solve cfg K w_init Xw_init = Ok out -> ele (o_stop out) (tol cfg) = true ->
  exists lip opt, k_lipschitz K = Ok lip /\ stop_criterion cfg K (o_w out) (o_Xw out) lip = Ok (opt, o_stop out).
Proof. intros F H A. exact (@solve_stop_is_criterion F H A). Qed.
Print Assumptions warm_start_same_certificate.

(* path(): grids of any length and order; every solve starts and ends in the invariant, with its own alpha *)
Theorem path_history_cons_acd :
  forall {F} `{Num F} {A} (cfg_of : Z -> @config F) (K_of : F -> @kernels F A) (supp_size : list F -> Z)
    (I : list F -> list F -> Prop),
  (forall p0 alpha w Xw o, I w Xw -> path_step cfg_of K_of p0 alpha w Xw = Ok o -> I (o_w o) (o_Xw o)) ->
  forall p0 alphas w Xw acc outs, I w Xw -> Forall (fun o => I (o_w o) (o_Xw o)) acc ->
  path_loop cfg_of K_of supp_size p0 alphas w Xw acc = Ok outs -> Forall (fun o => I (o_w o) (o_Xw o)) outs.
Proof. intros F H A. exact (@path_history_invariant F H A). Qed.
Print Assumptions path_history_cons_acd.

Theorem path_sets_alpha_in_grid_order :
  forall {F} `{Num F} {A} (cfg_of : Z -> @config F) (K_of : F -> @kernels F A) (supp_size : list F -> Z) p0 alphas w Xw l,
  path_alphas cfg_of K_of supp_size p0 alphas w Xw = Ok l -> l = alphas.
Proof. intros F H A. exact (@path_sets_alpha F H A). Qed.
Print Assumptions path_sets_alpha_in_grid_order.

(* estimator refits (_glm_fit): the start point handed to the solver is consistent -- Xw = X w[:p] + b 1 with b the
   intercept that is actually in w (0 when none is fitted) -- for cold starts and warm starts from ANY previous fit,
   also when fit_intercept was changed between the fits.  Model Skel/GlmFit.v tied by a spy on solver.solve. *)
Require Import SK.Lemmas.MatVec SK.Skel.GlmFit SK.Lemmas.GlmStart.
Theorem glm_fit_start_is_consistent :
  forall (fi warm : bool) (prev : option (list R * R)) (X : list (list R)) (n : nat) (w Xw : list R),
  wf_X n X -> match prev with Some (coef, _) => length coef = length X | None => True end ->
  glm_start fi warm prev X n = (w, Xw) ->
  let p := length X in
  length w = (p + (if fi then 1 else 0))%nat /\
  Cons n X (firstn p w) (repeat (if fi then last w 0 else 0) n) Xw.
Proof. exact glm_start_consistent. Qed.
Print Assumptions glm_fit_start_is_consistent.

(* GroupBCD: the regenerated block epoch keeps the model fit consistent, Xw = X w + c, for any prox, gradient accessor,
   Lipschitz vector and working set (the group structure lists distinct non-negative features) -- so warm starts and
   path steps hand a consistent pair to the next solve *)
Require Import SK.Gen.KernBCD SK.Lemmas.BcdCons.
Theorem bcd_epoch_keeps_model_fit_consistent : forall (prox_1group : list R -> R -> Z -> res (list R))
    (gg : list (list R) -> list R -> list R -> list R -> Z -> res (list R)) (n : nat) (X : list (list R)) (c : list R),
  wf_X n X -> forall (y lip : list R) (grp_ptr grp_indices : list Z),
  NoDup grp_indices -> Forall (fun j => (0 <= j)%Z) grp_indices ->
  forall ws w Xw w' Xw', length w = length X -> Cons n X w c Xw ->
  @_bcd_epoch R _ grp_ptr grp_indices gg prox_1group X y w Xw lip ws = Ok (w', Xw') ->
  Cons n X w' c Xw' /\ length w' = length w.
Proof. exact bcd_epoch_preserves_cons. Qed.
Print Assumptions bcd_epoch_keeps_model_fit_consistent.

(* ProxNewton (no intercept): the regenerated backtracking line search keeps the model fit consistent whatever step it ends
   on, for any penalty value and raw gradient, when the direction pair is consistent (X_delta_w = X_ws delta_w); and the
   gradient it hands back is the working-set gradient at the point it hands back *)
Require Import SK.Gen.KernPN SK.Lemmas.PnKernels.
Theorem prox_newton_line_search_keeps_model_fit_consistent :
  forall (pen_value : list R -> res R) (raw_grad : list R -> list R -> res (list R)) (n : nat) (X : list (list R)) (c y : list R),
  wf_X n X -> forall w Xw delta Xdelta ws w' Xw' g,
  length w = length X -> NoDup ws -> Forall (fun j => (0 <= j)%Z) ws ->
  length Xdelta = n -> (forall i, (i < n)%nat -> nth i Xdelta 0 = dir_lin X ws delta i) ->
  Cons n X w c Xw ->
  @_backtrack_line_search__fit_intercept_False R _ pen_value raw_grad X y w Xw delta Xdelta ws = Ok (w', Xw', g) ->
  Cons n X w' c Xw' /\ length w' = length w /\
  (g = nil \/ exists wp, slice w' 0%Z (zlen X) = Ok wp /\ @pn_construct_grad R _ raw_grad X y wp Xw' ws = Ok g).
Proof. exact line_search_keeps_consistency_and_returns_current_gradient. Qed.
Print Assumptions prox_newton_line_search_keeps_model_fit_consistent.

(* ProxNewton (no intercept), both working-set strategies: the REGENERATED descent-direction kernel returns a consistent pair
   (X_delta_w = X_ws delta_w) whatever the prox, the Hessian, the stopping rule and the number of sweeps; hence one whole
   prox-Newton iteration -- direction, then line search -- keeps Xw = X w + c *)
Require Import SK.Lemmas.PnDirection.
Theorem prox_newton_direction_pair_is_consistent_subdiff :
  forall (raw_hessian : list R -> list R -> res (list R)) (prox_1d : R -> R -> Z -> res R) (n : nat) (X : list (list R)) (y : list R),
  wf_X n X -> mrows X = Z.of_nat n -> forall (subdiff : list R -> list R -> list Z -> res (list (Ext R)))
    w_epoch Xw_epoch grad_ws ws tol delta Xdelta lipv,
  Forall (fun j => (0 <= j)%Z) ws ->
  @_descent_direction__fit_intercept_False__ws_strategy_subdiff R _ raw_hessian prox_1d subdiff X y w_epoch Xw_epoch grad_ws ws tol
    = Ok (delta, Xdelta, lipv) ->
  length Xdelta = n /\ forall i, (i < n)%nat -> nth i Xdelta 0 = dir_lin X ws delta i.
Proof. exact descent_direction_subdiff_consistent. Qed.
Print Assumptions prox_newton_direction_pair_is_consistent_subdiff.

Theorem prox_newton_direction_pair_is_consistent_fixpoint :
  forall (raw_hessian : list R -> list R -> res (list R)) (prox_1d : R -> R -> Z -> res R) (n : nat) (X : list (list R)) (y : list R),
  wf_X n X -> mrows X = Z.of_nat n -> forall w_epoch Xw_epoch grad_ws ws tol delta Xdelta lipv,
  Forall (fun j => (0 <= j)%Z) ws ->
  @_descent_direction__fit_intercept_False__ws_strategy_fixpoint R _ raw_hessian prox_1d X y w_epoch Xw_epoch grad_ws ws tol
    = Ok (delta, Xdelta, lipv) ->
  length Xdelta = n /\ forall i, (i < n)%nat -> nth i Xdelta 0 = dir_lin X ws delta i.
Proof. exact descent_direction_fixpoint_consistent. Qed.
Print Assumptions prox_newton_direction_pair_is_consistent_fixpoint.

Theorem prox_newton_iteration_keeps_model_fit_consistent_subdiff :
  forall (raw_hessian raw_grad : list R -> list R -> res (list R)) (prox_1d : R -> R -> Z -> res R) (pen_value : list R -> res R)
    (subdiff : list R -> list R -> list Z -> res (list (Ext R))) (n : nat) (X : list (list R)) (c y : list R),
  wf_X n X -> mrows X = Z.of_nat n -> forall w Xw grad_ws ws tol delta Xdelta lipv w' Xw' g,
  length w = length X -> NoDup ws -> Forall (fun j => (0 <= j)%Z) ws -> Cons n X w c Xw ->
  @_descent_direction__fit_intercept_False__ws_strategy_subdiff R _ raw_hessian prox_1d subdiff X y w Xw grad_ws ws tol = Ok (delta, Xdelta, lipv) ->
  @_backtrack_line_search__fit_intercept_False R _ pen_value raw_grad X y w Xw delta Xdelta ws = Ok (w', Xw', g) ->
  Cons n X w' c Xw' /\ length w' = length w.
Proof. exact pn_iteration_subdiff_keeps_consistency. Qed.
Print Assumptions prox_newton_iteration_keeps_model_fit_consistent_subdiff.

Theorem prox_newton_iteration_keeps_model_fit_consistent_fixpoint :
  forall (raw_hessian raw_grad : list R -> list R -> res (list R)) (prox_1d : R -> R -> Z -> res R) (pen_value : list R -> res R)
    (n : nat) (X : list (list R)) (c y : list R),
  wf_X n X -> mrows X = Z.of_nat n -> forall w Xw grad_ws ws tol delta Xdelta lipv w' Xw' g,
  length w = length X -> NoDup ws -> Forall (fun j => (0 <= j)%Z) ws -> Cons n X w c Xw ->
  @_descent_direction__fit_intercept_False__ws_strategy_fixpoint R _ raw_hessian prox_1d X y w Xw grad_ws ws tol = Ok (delta, Xdelta, lipv) ->
  @_backtrack_line_search__fit_intercept_False R _ pen_value raw_grad X y w Xw delta Xdelta ws = Ok (w', Xw', g) ->
  Cons n X w' c Xw' /\ length w' = length w.
Proof. exact pn_iteration_fixpoint_keeps_consistency. Qed.
Print Assumptions prox_newton_iteration_keeps_model_fit_consistent_fixpoint.

(* ProxNewton, closed over the regenerated kernels: the skeleton of ProxNewton._solve instantiated with the translated
   direction / line-search / gradient kernels (no intercept, either working-set strategy) returns Xw = X w + c from any
   consistent start -- any datafit, any penalty, any working-set selection returning distinct non-negative indices.  The same
   kernel record (Skel/ProxNewtonKernels.v) runs on Q against the real ProxNewton._solve in the correspondence. *)
Require Import SK.Skel.ProxNewton SK.Skel.ProxNewtonKernels SK.Skel.ProxNewtonGen SK.Skel.Generic.
Theorem prox_newton_solve_returns_consistent_fit :
  forall (raw_grad raw_hessian : list R -> list R -> res (list R)) (df_value : list R -> list R -> res R)
    (prox_1d : R -> R -> Z -> res R) (pen_value : list R -> res (Ext R)) (subdiff : list R -> list R -> list Z -> res (list (Ext R)))
    (gsupp : list R -> res (list bool)) (topk : list (Ext R) -> nat -> list Z) (n : nat) (X : list (list R)) (c y : list R) (fixp : bool),
  wf_X n X -> mrows X = Z.of_nat n ->
  (forall opt k, NoDup (topk opt k) /\ Forall (fun j => (0 <= j)%Z) (topk opt k)) ->
  forall (cfg : @pn_config R) w0 Xw0 out, length w0 = length X -> Cons n X w0 c Xw0 ->
  pn_solve cfg (pn_gen_kernels raw_grad raw_hessian df_value prox_1d pen_value subdiff gsupp topk X y false fixp) (Some w0) (Some Xw0) = Ok out ->
  Cons n X (pn_w (g_s out)) c (pn_Xw (g_s out)) /\ length (pn_w (g_s out)) = length X.
Proof. exact prox_newton_returns_consistent_fit. Qed.
Print Assumptions prox_newton_solve_returns_consistent_fit.

(* GroupBCD, closed over the regenerated block epoch: the skeleton of GroupBCD._solve whose epoch kernel is the translated
   `_bcd_epoch` (no intercept) returns Xw = X w + c from any consistent start; the only hypothesis left concerns the accelerator *)
Require Import SK.Skel.AndersonCD SK.Skel.GroupBCD SK.Skel.GroupBCDGen.
Theorem group_bcd_solve_returns_consistent_fit :
  forall {A : Type} (prox_1group : list R -> R -> Z -> res (list R)) (gg : list (list R) -> list R -> list R -> list R -> Z -> res (list R))
    (n : nat) (X : list (list R)) (c y : list R) (grp_ptr grp_indices : list Z) (cfg : @config R) (K : @kernels R A) (ng : nat),
  wf_X n X -> NoDup grp_indices -> Forall (fun j => (0 <= j)%Z) grp_indices ->
  n_features cfg = length X -> fit_intercept cfg = false ->
  (forall w Xw lip ws, k_epoch K w Xw lip ws = @_bcd_epoch R _ grp_ptr grp_indices gg prox_1group X y w Xw lip ws) ->
  (forall a w Xw w_acc Xw_acc a', Cons n X w c Xw /\ length w = length X -> k_acc_step K a w Xw = Ok (w_acc, Xw_acc, true, a') ->
     Cons n X w_acc c Xw_acc /\ length w_acc = length X) ->
  forall w0 Xw0 out, length w0 = length X -> Cons n X w0 c Xw0 ->
  bsolve cfg K ng (Some w0) (Some Xw0) = Ok out ->
  Cons n X (b_w (g_s out)) c (b_Xw (g_s out)) /\ length (b_w (g_s out)) = length X.
Proof. intros A. exact (@group_bcd_returns_consistent_fit A). Qed.
Print Assumptions group_bcd_solve_returns_consistent_fit.
