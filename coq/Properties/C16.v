(* C16 -- critical regularisation strength: null solution exactly from alpha_max. *)
From Coq Require Import Reals ZArith List.
Require Import SK.Base.Res SK.Base.Num SK.Base.RInst SK.Lemmas.Subdiff SK.Lemmas.AlphaMax.
Require Import SK.Gen.PenSeparable.
Local Open Scope R_scope.

Theorem alpha_max_is_max_abs_gradient_l1 : forall (g : list R) m, @L1_alpha_max R _ g = Ok m ->
  (forall x, In x g -> Rabs x <= m) /\ exists x, In x g /\ m = Rabs x.
Proof. exact L1_alpha_max_spec. Qed.
Print Assumptions alpha_max_is_max_abs_gradient_l1.

Theorem alpha_max_zero_score_l1 : forall alpha (g : list R) m, @L1_alpha_max R _ g = Ok m -> m <= alpha ->
  forall j x, In x g -> score (subdiff_l1 alpha false) j 0 x = Fin 0.
Proof. exact L1_null_score_zero. Qed.
Print Assumptions alpha_max_zero_score_l1.

Theorem below_alpha_max_nonzero_score_l1 : forall alpha (g : list R) m, @L1_alpha_max R _ g = Ok m -> 0 <= alpha < m ->
  exists x d, In x g /\ score (subdiff_l1 alpha false) 0%Z 0 x = Fin d /\ 0 < d.
Proof. exact L1_below_alpha_max_nonzero_score. Qed.
Print Assumptions below_alpha_max_nonzero_score_l1.

Theorem alpha_max_zero_score_en : forall alpha rho (g : list R) m, 0 < rho ->
  @L1_plus_L2_alpha_max R _ rho g = Ok m -> m <= alpha ->
  forall j x, In x g -> score (subdiff_en alpha rho false) j 0 x = Fin 0.
Proof. exact L1_plus_L2_null_score_zero. Qed.
Print Assumptions alpha_max_zero_score_en.

(* at alpha >= alpha_max the coordinate update from the null vector returns exactly 0 -- for EVERY step size
   (any curvature, also 1/L_j > gamma) and every gamma: regenerated L1 / WeightedL1 / MCP / weighted MCP prox kernels *)
Require Import SK.Gen.ProxFuncs SK.Lemmas.NullUpdate.
Theorem null_update_stays_zero_L1 : forall alpha s g : R, 0 <= s -> forall pos j,
  Rabs g <= alpha -> @L1_prox_1d R _ alpha pos (0 - s * g) s j = Ok 0.
Proof. exact L1_null_update. Qed.
Print Assumptions null_update_stays_zero_L1.
Theorem null_update_stays_zero_WeightedL1 : forall alpha s g : R, 0 <= s -> forall weights pos j wj,
  get_idx weights j = Ok wj -> Rabs g <= alpha * wj -> @WeightedL1_prox_1d R _ alpha weights pos (0 - s * g) s j = Ok 0.
Proof. exact WeightedL1_null_update. Qed.
Print Assumptions null_update_stays_zero_WeightedL1.
Theorem null_update_stays_zero_MCP : forall alpha s g : R, 0 <= s -> forall gamma pos j,
  Rabs g <= alpha -> @MCPenalty_prox_1d R _ alpha gamma pos (0 - s * g) s j = Ok 0.
Proof. exact MCP_null_update. Qed.
Print Assumptions null_update_stays_zero_MCP.
Theorem null_update_stays_zero_WeightedMCP : forall alpha s g : R, 0 <= s -> forall gamma weights pos j wj,
  get_idx weights j = Ok wj -> Rabs g <= alpha * wj ->
  @WeightedMCPenalty_prox_1d R _ alpha gamma weights pos (0 - s * g) s j = Ok 0.
Proof. exact WeightedMCP_null_update. Qed.
Print Assumptions null_update_stays_zero_WeightedMCP.
