(* C06 -- datafits are faithful.  Subjects: coq/Gen/DfSingle.v, regenerated from /repo each run. *)
From Coq Require Import Reals ZArith List.
From Coquelicot Require Import Coquelicot.
Require Import SK.Base.Res SK.Base.Num SK.Base.RInst SK.Lemmas.VecFacts SK.Lemmas.Deriv SK.Lemmas.Csc.
Require Import SK.Gen.SparseOps SK.Gen.DfSingle SK.Lemmas.DfQuadratic SK.Lemmas.DfQuadraticSparse.
Local Open Scope R_scope.

(* generic chain rule: for ANY scalar loss with derivative l', the derivative of the mean loss along any
   direction x of the linear predictor is mean_i x_i l'(y_i, z_i)  (x = X[:, j]: coordinate gradient;
   x = 1: intercept; x = e_i: raw gradient) *)
Theorem mean_loss_directional_derivative : forall (l l' : R -> R -> R) (y z x : list R) (n : R),
  length y = length z -> length x = length z ->
  Forall2 (fun yi zi => is_derive (l yi) zi (l' yi zi)) y z ->
  is_derive (fun t => rsum (vmap2 l y (zline z x t)) / n) 0 (rsum (vmap2 Rmult x (vmap2 l' y z)) / n).
Proof. exact is_derive_loss_mean. Qed.
Print Assumptions mean_loss_directional_derivative.

Theorem value_is_doc_quadratic : forall y w z, z <> nil -> @Quadratic_value R _ y w z = Ok (quad_doc y z).
Proof. exact Quadratic_value_doc. Qed.
Print Assumptions value_is_doc_quadratic.

Theorem directional_derivative_quadratic : forall y z x,
  length y = length z -> length x = length z -> z <> nil ->
  is_derive (fun t => quad_doc y (zline z x t)) 0 (rsum (vmap2 Rmult x (vmap2 lq' y z)) / nR z).
Proof. exact Quadratic_directional_derivative. Qed.
Print Assumptions directional_derivative_quadratic.

Theorem rawgrad_is_derivative_quadratic : forall y z, y <> nil ->
  @Quadratic_raw_grad R _ y z = Ok (map (fun r => r / nR y) (vmap2 lq' y z)).
Proof. exact Quadratic_raw_grad_spec. Qed.
Print Assumptions rawgrad_is_derivative_quadratic.

Theorem gradscalar_is_partial_quadratic : forall X y w z j Xj,
  length y = length z -> length Xj = length z -> z <> nil -> mcol X j = Ok Xj ->
  @Quadratic_gradient_scalar R _ (mTv X y) X y w z j = Ok (rsum (vmap2 Rmult Xj (vmap2 lq' y z)) / nR z).
Proof. exact Quadratic_gradient_scalar_spec. Qed.
Print Assumptions gradscalar_is_partial_quadratic.

Theorem initialize_caches_Xty_quadratic : forall X y, @Quadratic_initialize R _ X y = Ok (mTv X y).
Proof. exact Quadratic_initialize_spec. Qed.
Print Assumptions initialize_caches_Xty_quadratic.

Theorem intercept_step_is_grad_quadratic : forall y z, length y = length z -> z <> nil ->
  @Quadratic_intercept_update_step R _ y z
  = Ok (rsum (vmap2 Rmult (map (fun _ => 1) z) (vmap2 lq' y z)) / nR z).
Proof. exact Quadratic_intercept_step_spec. Qed.
Print Assumptions intercept_step_is_grad_quadratic.

(* dense = sparse *)
Theorem csc_column_dot_is_dense_dot : forall n M lo hi (u : list R), wf_col n M lo hi -> length u = n ->
  rsum (map (fun i => dat M i * nth (Z.to_nat (row M i)) u 0) (zrange lo hi))
  = rsum (vmap2 Rmult (dense_col n M lo hi) u).
Proof. exact csc_col_dot. Qed.
Print Assumptions csc_column_dot_is_dense_dot.

Theorem sparse_eq_dense_gradscalar_quadratic : forall n M (X : list (list R)) Xty y w Xw j lo hi,
  col_bounds M j lo hi -> wf_col n M lo hi -> length Xw = n ->
  mcol X j = Ok (dense_col n M lo hi) ->
  @Quadratic_gradient_scalar_sparse R _ Xty (cdata M) (cindptr M) (cindices M) y Xw j
  = @Quadratic_gradient_scalar R _ Xty X y w Xw j.
Proof. exact Quadratic_gradient_scalar_sparse_eq_dense. Qed.
Print Assumptions sparse_eq_dense_gradscalar_quadratic.

(* group datafit: the regenerated QuadraticGroup.gradient_g_sparse returns the same numbers as gradient_g on the dense
   columns the CSC denotes, for ANY group structure (non-contiguous, shuffled grp_indices included) *)
Require Import SK.Lemmas.Consistency SK.Gen.DfGroup SK.Lemmas.DfGroupSparse.
Theorem quadratic_group_gradient_sparse_eq_dense :
  forall n M (X : list (list R)) grp_ptr grp_indices y w Xw g, length Xw = n -> length y = n ->
  (forall j, In j grp_indices -> exists lo hi, col_bounds M j lo hi /\ wf_col n M lo hi /\ mcol X j = Ok (dense_col n M lo hi)) ->
  @QuadraticGroup_gradient_g_sparse R _ grp_ptr grp_indices (cdata M) (cindptr M) (cindices M) y w Xw g
  = @QuadraticGroup_gradient_g R _ grp_ptr grp_indices X y w Xw g.
Proof. exact QuadraticGroup_gradient_g_sparse_eq_dense. Qed.
Print Assumptions quadratic_group_gradient_sparse_eq_dense.

(* Logistic datafit (regenerated): value = documented mean of log(1 + exp(-y z)) and never fails; raw_grad = its exact
   derivative w.r.t. the linear predictor; derivative along any direction x of the linear predictor *)
Require Import SK.Lemmas.DfLogistic.
Theorem logistic_value_is_documented_loss : forall y w z, y <> nil -> length y = length z ->
  @Logistic_value R _ y w z = Ok (logistic_doc y z).
Proof. exact Logistic_value_doc. Qed.
Print Assumptions logistic_value_is_documented_loss.
Theorem logistic_raw_grad_is_derivative : forall y z, y <> nil -> length y = length z ->
  @Logistic_raw_grad R _ y z = Ok (map (fun r => r / nR y) (vmap2 llog' y z)).
Proof. exact Logistic_raw_grad_spec. Qed.
Print Assumptions logistic_raw_grad_is_derivative.
Theorem logistic_directional_derivative : forall y z x, length y = length z -> length x = length z -> y <> nil ->
  is_derive (fun t => logistic_doc y (zline z x t)) 0 (rsum (vmap2 Rmult x (vmap2 llog' y z)) / nR y).
Proof. exact Logistic_directional_derivative. Qed.
Print Assumptions logistic_directional_derivative.
