(* C11 -- each ready-made estimator minimises exactly its documented objective: the configuration extracted from
   every estimator's fit (coq/Gen/Configs.v, regenerated from the AST each run, positional arguments resolved
   against the constructors' signatures) equals the configuration its documentation implies
   (coq/Spec/EstimatorDocs.v, hand-written from the docstrings).  Finite table: 11 estimators (the bound is the
   statement).  With C06/C07/C08 (the components compute the documented formulas) and C01 (certificate), a
   returned stop_crit_ <= tol certifies stationarity for the DOCUMENTED objective. *)
From Coq Require Import String List.
Require Import SK.Gen.Configs SK.Spec.EstimatorDocs.
Import ListNotations.

Fixpoint list_eqb (a b : list string) : bool :=
  match a, b with
  | [], [] => true
  | x :: a', y :: b' => String.eqb x y && list_eqb a' b'
  | _, _ => false
  end.
Fixpoint cfg_eqb (a b : list (string * list string)) : bool :=
  match a, b with
  | [], [] => true
  | (n1, c1) :: a', (n2, c2) :: b' => String.eqb n1 n2 && list_eqb c1 c2 && cfg_eqb a' b'
  | _, _ => false
  end.

Theorem objective_of_config_is_documented : cfg_eqb configs documented = true.
Proof. vm_compute. reflexivity. Qed.
Print Assumptions objective_of_config_is_documented.

Theorem estimator_table_size : length configs = 11.
Proof. vm_compute. reflexivity. Qed.
Print Assumptions estimator_table_size.
