(* C18 -- fitting is pure: inputs untouched.  Finite call graph extracted from /repo's AST on every run
   (coq/Gen/Writes.v); closed by exhaustive computation over all functions of the modules listed in
   tools/extract.py:WRITE_FILES (the bound is the statement). *)
From Coq Require Import String List Bool.
Require Import SK.Gen.Writes SK.Lemmas.WriteSets.
Import ListNotations.

(* no function of the library may store into X, y, Y, weights, groups, sample weights, alpha grids or the CSC
   arrays of X -- neither directly, nor through a local alias / view, nor through a callee *)
Theorem inputs_not_in_write_sets : forallb (fun f => match writes_protected f with [] => true | _ => false end) functions = true.
Proof. vm_compute. reflexivity. Qed.
Print Assumptions inputs_not_in_write_sets.

(* the only attribute of a caller-owned penalty / datafit that is ever assigned is penalty.alpha (path) *)
Theorem hyperparam_writes_only_alpha :
  forallb (fun f => forallb (fun w => String.eqb w "penalty.alpha") (object_attr_writes f)) functions = true.
Proof. vm_compute. reflexivity. Qed.
Print Assumptions hyperparam_writes_only_alpha.

(* no instance is shared between fits: the only memoised function of the compilation helper is the one returning the
   compiled CLASS; compiled_clone instantiates that class anew on every call; the module keeps no other state *)
Theorem compiled_objects_are_fresh :
  cached_functions = ["jit_cached_compile"%string] /\ compiled_clone_builds_fresh_instance = true /\ jit_module_state = [].
Proof. vm_compute. repeat split; reflexivity. Qed.
Print Assumptions compiled_objects_are_fresh.
