(* C18 -- fitting is pure: inputs untouched.  Finite call graph extracted from /repo's AST on every run
   (coq/Gen/Writes.v); closed by exhaustive computation over all functions of the modules listed in
   tools/extract.py:WRITE_FILES (the bound is the statement). *)
From Coq Require Import String List Bool.
Require Import SK.Gen.Writes SK.Lemmas.WriteSets.
Import ListNotations.

(* no function of the library may store into X, y, Y, weights, groups, sample weights, alpha grids or the CSC
   arrays of X -- neither directly, nor through a local alias / view, nor through a callee *)
Theorem inputs_not_in_write_sets : forallb (fun f => match writes_protected f with [] => true | _ => false end) functions = true.
Proof. vm_compute. reflexivity. Qed.
Print Assumptions inputs_not_in_write_sets.

(* the only attribute of a caller-owned penalty / datafit that is ever assigned is penalty.alpha (path) *)
Theorem hyperparam_writes_only_alpha :
  forallb (fun f => forallb (fun w => String.eqb w "penalty.alpha") (object_attr_writes f)) functions = true.
Proof. vm_compute. reflexivity. Qed.
Print Assumptions hyperparam_writes_only_alpha.
