(* C01 -- reported convergence is a valid first-order optimality certificate.
   Kernel layer: coq/Gen (regenerated each run).  Solver layer: coq/Skel/AndersonCD.v (tied by correspondence). *)
From Coq Require Import Reals ZArith List.
Require Import SK.Base.Res SK.Base.Num SK.Base.RInst.
Require Import SK.Lemmas.Loops SK.Lemmas.Consistency SK.Gen.KernACD.
Require Import SK.Skel.AndersonCD SK.Skel.AndersonCDProofs SK.Skel.AndersonCDCons.
Local Open Scope R_scope.

(* (2) the generated dense epoch keeps Xw = X w + c for ANY coordinate update rule, any working set *)
Theorem cons_cd_epoch : forall (prox_1d : R -> R -> Z -> res R)
    (gradient_scalar : list (list R) -> list R -> list R -> list R -> Z -> res R) n X y w c Xw lc ws w' Xw',
  wf_X n X -> length w = length X -> Forall (fun j => (0 <= j)%Z) ws ->
  Cons n X w c Xw ->
  @_cd_epoch R _ prox_1d gradient_scalar X y w Xw lc ws = Ok (w', Xw') ->
  Cons n X w' c Xw' /\ length w' = length w.
Proof. exact cd_epoch_preserves_cons. Qed.
Print Assumptions cons_cd_epoch.

(* (3) skeleton: a returned stop_crit <= tol IS the criterion evaluated at the returned (w, Xw) -- every kernel
   record, every budget (max_iter = 0 returns +inf, never <= tol), every start *)
Theorem andersoncd_stop_is_criterion_of_returned_point :
  forall {F} `{Num F} {A} (cfg : @config F) (K : @kernels F A) w_init Xw_init out,
  solve cfg K w_init Xw_init = Ok out -> ele (o_stop out) (tol cfg) = true ->
  exists lip opt, k_lipschitz K = Ok lip /\ stop_criterion cfg K (o_w out) (o_Xw out) lip = Ok (opt, o_stop out).
Proof. intros F H A. exact (@solve_stop_is_criterion F H A). Qed.
Print Assumptions andersoncd_stop_is_criterion_of_returned_point.

(* (2)+(3) composed: with the generated epoch kernel, the returned buffer is the model fit of the returned w *)
Theorem andersoncd_returned_point_consistent :
  forall {A} (cfg : @config R) (K : @kernels R A) (X : list (list R)) (y : list R)
    (prox_1d : R -> R -> Z -> res R) (gradient_scalar : list (list R) -> list R -> list R -> list R -> Z -> res R),
  wf_X (n_samples cfg) X -> length X = n_features cfg ->
  (forall w Xw lip ws, k_epoch K w Xw lip ws = @_cd_epoch R _ prox_1d gradient_scalar X y w Xw lip ws) ->
  (forall w Xw lip ws w' Xw', k_epoch K w Xw lip ws = Ok (w', Xw') -> Forall (fun j => (0 <= j)%Z) ws) ->
  (forall w Xw w_acc Xw_acc p_obj p_obj_acc,
     consI cfg X w Xw -> objective cfg K w Xw = Ok p_obj -> objective cfg K w_acc Xw_acc = Ok p_obj_acc ->
     elt p_obj_acc p_obj = true -> length w_acc = length w -> consI cfg X w_acc Xw_acc) ->
  forall w0 Xw0 out, consI cfg X w0 Xw0 -> solve cfg K (Some w0) (Some Xw0) = Ok out ->
  consI cfg X (o_w out) (o_Xw out).
Proof. intros A. exact (@andersoncd_preserves_consistency A). Qed.
Print Assumptions andersoncd_returned_point_consistent.
