(* C01 -- reported convergence is a valid first-order optimality certificate.
   Kernel layer: coq/Gen (regenerated each run).  Solver layer: coq/Skel/AndersonCD.v (tied by correspondence). *)
From Coq Require Import Reals ZArith List.
Require Import SK.Base.Res SK.Base.Num SK.Base.RInst.
Require Import SK.Lemmas.Loops SK.Lemmas.Consistency SK.Gen.KernACD.
Require Import SK.Skel.AndersonCD SK.Skel.AndersonCDProofs SK.Skel.AndersonCDCons.
Local Open Scope R_scope.

(* (2) the generated dense epoch keeps Xw = X w + c for ANY coordinate update rule, any working set *)
Theorem cons_cd_epoch : forall (prox_1d : R -> R -> Z -> res R)
    (gradient_scalar : list (list R) -> list R -> list R -> list R -> Z -> res R) n X y w c Xw lc ws w' Xw',
  wf_X n X -> length w = length X -> Forall (fun j => (0 <= j)%Z) ws ->
  Cons n X w c Xw ->
  @_cd_epoch R _ prox_1d gradient_scalar X y w Xw lc ws = Ok (w', Xw') ->
  Cons n X w' c Xw' /\ length w' = length w.
Proof. exact cd_epoch_preserves_cons. Qed.
Print Assumptions cons_cd_epoch.

(* (3) skeleton: a returned stop_crit <= tol IS the criterion evaluated at the returned (w, Xw) -- every kernel
   record, every budget (max_iter = 0 returns +inf, never <= tol), every start *)
Theorem andersoncd_stop_is_criterion_of_returned_point :
  forall {F} `{Num F} {A} (cfg : @config F) (K : @kernels F A) w_init Xw_init out,
  solve cfg K w_init Xw_init = Ok out -> ele (o_stop out) (tol cfg) = true ->
  exists lip opt, k_lipschitz K = Ok lip /\ stop_criterion cfg K (o_w out) (o_Xw out) lip = Ok (opt, o_stop out).
Proof. intros F H A. exact (@solve_stop_is_criterion F H A). Qed.
Print Assumptions andersoncd_stop_is_criterion_of_returned_point.

(* (2)+(3) composed: with the generated epoch kernel, the returned buffer is the model fit of the returned w *)
Theorem andersoncd_returned_point_consistent :
  forall {A} (cfg : @config R) (K : @kernels R A) (X : list (list R)) (y : list R)
    (prox_1d : R -> R -> Z -> res R) (gradient_scalar : list (list R) -> list R -> list R -> list R -> Z -> res R),
  wf_X (n_samples cfg) X -> length X = n_features cfg ->
  (forall w Xw lip ws, k_epoch K w Xw lip ws = @_cd_epoch R _ prox_1d gradient_scalar X y w Xw lip ws) ->
  (forall w Xw lip ws w' Xw', k_epoch K w Xw lip ws = Ok (w', Xw') -> Forall (fun j => (0 <= j)%Z) ws) ->
  (forall w Xw w_acc Xw_acc p_obj p_obj_acc,
     consI cfg X w Xw -> objective cfg K w Xw = Ok p_obj -> objective cfg K w_acc Xw_acc = Ok p_obj_acc ->
     elt p_obj_acc p_obj = true -> length w_acc = length w -> consI cfg X w_acc Xw_acc) ->
  forall w0 Xw0 out, consI cfg X w0 Xw0 -> solve cfg K (Some w0) (Some Xw0) = Ok out ->
  consI cfg X (o_w out) (o_Xw out).
Proof. intros A. exact (@andersoncd_preserves_consistency A). Qed.
Print Assumptions andersoncd_returned_point_consistent.

(* ---------------------------------------------------------------- GramCD ---------------------------------- *)
Require Import SK.Lemmas.GramEpoch SK.Gen.KernGram SK.Skel.Generic SK.Skel.GramCD SK.Skel.GramCDProofs.

(* kernel: the regenerated _gram_cd_epoch keeps grad = Q w - q (Cons p Q w (-q) grad) for ANY prox and either
   selection strategy, never divides by a zero diagonal entry, and returns the score of the point it leaves *)
Theorem gram_epoch_keeps_gradient_and_returns_score :
  forall (score : list R -> list R -> list Z -> res (list (Ext R))) (prox_1d : R -> R -> Z -> res R)
         p Q c w grad greedy w' grad' opt,
  wf_X p Q -> length w = length Q -> Cons p Q w c grad ->
  @_gram_cd_epoch R _ score prox_1d Q w grad greedy = Ok (w', grad', opt) ->
  Cons p Q w' c grad' /\ length w' = length w /\ score w' grad' (zrange 0 (zlen w')) = Ok opt.
Proof. exact gram_epoch_spec. Qed.
Print Assumptions gram_epoch_keeps_gradient_and_returns_score.

(* solver: a stop_crit <= tol returned by the GramCD skeleton (with the regenerated kernel inside) is the maximum
   score of the RETURNED w against the TRUE gradient Q w - q -- every penalty, budget, strategy, start, with or
   without extrapolation (for any accelerator returning consistent pairs from consistent pairs) *)
Theorem gramcd_reported_convergence_is_certificate :
  forall {A} score prox value greedy (cfg : @gconfig R) (D : @gdata R) (acc_init : A) acc_step,
  let p := length (gd_q D) in let negq := map Ropp (gd_q D) in
  wf_X p (gd_Q D) -> length (gd_Q D) = p ->
  forall AI : A -> Prop, AI acc_init ->
  (forall a w g w' g' ext a', AI a -> Cons p (gd_Q D) w negq g -> length w = p ->
      acc_step a w g = Ok (w', g', ext, a') ->
      AI a' /\ (ext = true -> Cons p (gd_Q D) w' negq g' /\ length w' = p)) ->
  forall w_init out, match w_init with Some w => length w = p | None => True end ->
  gsolve cfg (gram_kernels score prox value greedy D acc_init acc_step) D w_init = Ok out ->
  ele (g_stop out) (gc_tol cfg) = true ->
  let w := gs_w (g_s out) in let g := gs_grad (g_s out) in
  Cons p (gd_Q D) w negq g /\ length w = p /\
  exists opt, score w g (zrange 0 (zlen w)) = Ok opt /\ emax_list opt = Ok (g_stop out).
Proof. intros A. exact (@gram_certificate A). Qed.
Print Assumptions gramcd_reported_convergence_is_certificate.

(* generic outer loop (GramCD, GroupBCD, MultiTaskBCD, ProxNewton, GroupProxNewton skeletons are instances):
   a returned value <= tol is the criterion of the returned state; a zero budget returns +inf *)
Theorem generic_stop_is_criterion_of_returned_state :
  forall {F} `{Num F} {St C} (tol : F) (crit : St -> res (C * Ext F)) (body : St -> C -> Ext F -> res St)
         (objective : St -> res (Ext F)) max_iter s0 out,
  grun tol crit body objective max_iter s0 = Ok out -> ele (g_stop out) tol = true ->
  exists c, crit (g_s out) = Ok (c, g_stop out).
Proof. intros F H St C. exact (@grun_stop_is_criterion F H St C). Qed.
Print Assumptions generic_stop_is_criterion_of_returned_state.

Theorem generic_zero_budget_reports_infinity :
  forall {F} `{Num F} {St C} (tol : F) (crit : St -> res (C * Ext F)) (body : St -> C -> Ext F -> res St)
         (objective : St -> res (Ext F)) s0 out,
  grun tol crit body objective 0 s0 = Ok out -> g_stop out = PInf /\ g_obj out = nil /\ g_s out = s0.
Proof. intros F H St C. exact (@grun_zero_budget F H St C). Qed.
Print Assumptions generic_zero_budget_reports_infinity.

(* ---------------------------------------------------------------- GroupBCD --------------------------------- *)
Require Import SK.Skel.GroupBCD SK.Skel.GroupBCDProofs.
(* skeleton of GroupBCD._solve (tied by mock-kernel trace correspondence): a returned stop_crit <= tol is the criterion --
   score of every group and the intercept term -- evaluated at the returned (w, Xw); budget 0 returns +inf *)
Theorem groupbcd_stop_is_criterion_of_returned_point :
  forall {F} `{Num F} {A} (cfg : @config F) (K : @kernels F A) (ng : nat) w_init Xw_init out,
  bsolve cfg K ng w_init Xw_init = Ok out -> ele (g_stop out) (tol cfg) = true ->
  exists lip opt, k_lipschitz K = Ok lip /\ bcrit cfg K lip ng (g_s out) = Ok (opt, g_stop out).
Proof. intros F H A. exact (@bsolve_stop_is_criterion F H A). Qed.
Print Assumptions groupbcd_stop_is_criterion_of_returned_point.

(* any relation between w and Xw kept by the block epoch, the intercept update and the accelerator's output (e.g.
   Xw = X w + b 1) holds for the returned pair *)
Theorem groupbcd_invariant_transport :
  forall {F} `{Num F} {A} (cfg : @config F) (K : @kernels F A) (ng : nat) (I : list F -> list F -> Prop) w0 Xw0 out,
  (forall lip w Xw ws w' Xw', I w Xw -> k_epoch K (wp cfg w) Xw lip ws = Ok (w', Xw') -> I (with_wp cfg w w') Xw') ->
  (forall w Xw w' Xw', I w Xw -> b_intercept_update cfg K w Xw = Ok (w', Xw') -> I w' Xw') ->
  (forall a w Xw w_acc Xw_acc a', I w Xw -> k_acc_step K a w Xw = Ok (w_acc, Xw_acc, true, a') -> I w_acc Xw_acc) ->
  I w0 Xw0 -> bsolve cfg K ng (Some w0) (Some Xw0) = Ok out -> I (b_w (g_s out)) (b_Xw (g_s out)).
Proof. intros F H A. exact (@bsolve_preserves F H A). Qed.
Print Assumptions groupbcd_invariant_transport.

(* ---------------------------------------------------------------- ProxNewton ------------------------------- *)
Require Import SK.Skel.ProxNewton SK.Skel.ProxNewtonProofs.
Theorem proxnewton_stop_is_criterion_of_returned_point :
  forall {F} `{Num F} (cfg : @pn_config F) (K : @pn_kernels F) w_init Xw_init out,
  pn_solve cfg K w_init Xw_init = Ok out -> ele (g_stop out) (pn_tol cfg) = true ->
  exists c, pn_crit cfg K (g_s out) = Ok (c, g_stop out).
Proof. intros F H. exact (@pn_solve_stop_is_criterion F H). Qed.
Print Assumptions proxnewton_stop_is_criterion_of_returned_point.

(* (w, Xw) only changes through the line search: any relation it preserves (e.g. Xw = X w + b 1, which holds when
   X_delta_w = X delta_w) holds for the returned pair *)
Theorem proxnewton_invariant_transport :
  forall {F} `{Num F} (cfg : @pn_config F) (K : @pn_kernels F) (I : list F -> list F -> Prop),
  (forall w Xw delta Xdelta ws w' Xw' g, I w Xw -> pk_linesearch K w Xw delta Xdelta ws = Ok (w', Xw', g) -> I w' Xw') ->
  forall w0 Xw0 out, I w0 Xw0 -> pn_solve cfg K (Some w0) (Some Xw0) = Ok out -> I (pn_w (g_s out)) (pn_Xw (g_s out)).
Proof. intros F H. exact (@pn_solve_preserves F H). Qed.
Print Assumptions proxnewton_invariant_transport.

(* the working set of AndersonCD is large enough to hold every feature forced into it (unpenalised features and the
   generalized support): with a top-k selection no non-zero coefficient is left outside, which is the side condition under
   which an accepted extrapolation (zero outside the working set) is consistent with its model fit *)
Require Import SK.Lemmas.WorkingSet.
Theorem andersoncd_working_set_covers_support_and_unpenalised :
  forall (p0 : Z) (gs pen : list bool), length gs = length pen -> (0 <= p0)%Z ->
  let p := Z.of_nat (length pen) in
  let n_unpen := count_true (map negb pen) in
  let n_gsupp_pen := count_true (map2b andb gs pen) in
  let ws_size := Z.max (Z.min (p0 + n_unpen) p) (Z.min (2 * n_gsupp_pen + n_unpen) p) in
  (count_true (map2b orb (map negb pen) gs) <= ws_size)%Z /\ (ws_size <= p)%Z.
Proof. exact ws_size_covers_forced. Qed.
Print Assumptions andersoncd_working_set_covers_support_and_unpenalised.

(* ---------------------------------------------------------------- Anderson extrapolation ------------------- *)
Require Import SK.Skel.Anderson SK.Lemmas.Affine SK.Skel.GramCDAnderson.
(* model of AndersonAcceleration.extrapolate (tied to the real class by executed correspondence): when the stored pairs and
   the pair handed in satisfy Xw = X w + c, so does the extrapolated pair -- WHATEVER np.linalg.solve returns (the
   coefficients are normalised to sum to one) *)
Theorem anderson_extrapolation_keeps_consistency :
  forall (K : nat) (solve_z : list (list R) -> option (list R)) (n : nat) (X : list (list R)) (c : list R),
  wf_X n X -> length c = n ->
  (forall U z, solve_z U = Some z -> length z = length U /\ z <> nil) ->
  forall st w Xw w' Xw' ext st',
  AAI n X c st -> Cons n X w c Xw -> length w = length X ->
  aa_step K solve_z st w Xw = Ok (w', Xw', ext, st') ->
  AAI n X c st' /\ (ext = true -> Cons n X w' c Xw' /\ length w' = length X).
Proof. exact aa_step_consistent. Qed.
Print Assumptions anderson_extrapolation_keeps_consistency.

(* GramCD with the modelled accelerator inside: the certificate holds with NO hypothesis on the accelerator *)
Theorem gramcd_certificate_with_modelled_anderson :
  forall (score : list R -> list R -> list Z -> res (list (Ext R))) (prox : R -> R -> Z -> res R) (value : list R -> res (Ext R))
    (greedy : bool) (cfg : @gconfig R) (D : @gdata R) (K : nat) (solve_z : list (list R) -> option (list R)),
  let p := length (gd_q D) in let negq := map Ropp (gd_q D) in
  wf_X p (gd_Q D) -> length (gd_Q D) = p ->
  (forall U z, solve_z U = Some z -> length z = length U /\ z <> nil) ->
  forall w_init out, match w_init with Some w => length w = p | None => True end ->
  gsolve cfg (gram_kernels score prox value greedy D (@aa_init R) (aa_step K solve_z)) D w_init = Ok out ->
  ele (g_stop out) (gc_tol cfg) = true ->
  let w := gs_w (g_s out) in let g := gs_grad (g_s out) in
  Cons p (gd_Q D) w negq g /\ length w = p /\
  exists opt, score w g (zrange 0 (zlen w)) = Ok opt /\ emax_list opt = Ok (g_stop out).
Proof. exact gram_certificate_with_anderson. Qed.
Print Assumptions gramcd_certificate_with_modelled_anderson.

(* ---------------------------------------------------------------- MultiTaskBCD ----------------------------- *)
Require Import SK.Skel.MultiTaskBCD SK.Skel.MultiTaskBCDProofs.
Theorem multitaskbcd_stop_is_criterion_of_returned_point :
  forall {F} `{Num F} (cfg : @mt_config F) (K : @mt_kernels F) W_init XW_init out,
  mt_solve cfg K W_init XW_init = Ok out -> ele (g_stop out) (mt_tol cfg) = true ->
  exists lip opt, mtk_lipschitz K = Ok lip /\ mt_crit cfg K lip (g_s out) = Ok (opt, g_stop out).
Proof. intros F H. exact (@mt_solve_stop_is_criterion F H). Qed.
Print Assumptions multitaskbcd_stop_is_criterion_of_returned_point.

(* ---------------------------------------------------------------- GroupProxNewton -------------------------- *)
Require Import SK.Skel.GroupProxNewton.
Theorem groupproxnewton_stop_is_criterion_of_returned_point :
  forall {F} `{Num F} (cfg : @pn_config F) (K : @pn_kernels F) w_init Xw_init out,
  gpn_solve cfg K w_init Xw_init = Ok out -> ele (g_stop out) (pn_tol cfg) = true ->
  exists c, gpn_crit cfg K (g_s out) = Ok (c, g_stop out).
Proof. intros F H. exact (@gpn_solve_stop_is_criterion F H). Qed.
Print Assumptions groupproxnewton_stop_is_criterion_of_returned_point.
