(* C14 -- general components reduce to the simpler ones they generalise (equalities between regenerated functions). *)
From Coq Require Import Reals ZArith List.
Require Import SK.Base.Res SK.Base.Num SK.Base.RInst SK.Lemmas.Reductions.
Require Import SK.Gen.ProxFuncs SK.Gen.PenSeparable SK.Gen.SparseOps SK.Gen.DfSingle.
Import ListNotations.
Local Open Scope R_scope.

Theorem unit_weights_wl1_prox : forall alpha weights pos x s j, get_idx weights j = Ok 1 ->
  @WeightedL1_prox_1d R _ alpha weights pos x s j = @L1_prox_1d R _ alpha pos x s j.
Proof. exact WeightedL1_unit_prox. Qed.
Print Assumptions unit_weights_wl1_prox.
Theorem unit_weights_wl1_value : forall alpha pos (w : list R),
  @WeightedL1_value R _ alpha (repeat 1 (length w)) pos w = @L1_value R _ alpha pos w.
Proof. exact WeightedL1_unit_value. Qed.
Print Assumptions unit_weights_wl1_value.
Theorem l1_ratio_one_prox : forall alpha pos x s j,
  @L1_plus_L2_prox_1d R _ alpha 1 pos x s j = @L1_prox_1d R _ alpha pos x s j.
Proof. exact L1_plus_L2_ratio1_prox. Qed.
Print Assumptions l1_ratio_one_prox.
Theorem l1_ratio_one_value : forall alpha pos (w : list R),
  @L1_plus_L2_value R _ alpha 1 pos w = @L1_value R _ alpha pos w.
Proof. exact L1_plus_L2_ratio1_value. Qed.
Print Assumptions l1_ratio_one_value.
Theorem unit_weights_wmcp_prox : forall alpha gamma weights pos x s j, get_idx weights j = Ok 1 ->
  @WeightedMCPenalty_prox_1d R _ alpha gamma weights pos x s j = @MCPenalty_prox_1d R _ alpha gamma pos x s j.
Proof. exact WeightedMCP_unit_prox. Qed.
Print Assumptions unit_weights_wmcp_prox.
Theorem singleton_group_bst_is_st : forall x u, 0 <= u ->
  @BST R _ [x] u false = bind (@ST R _ x u false) (fun p => Ok [p]).
Proof. exact BST_singleton. Qed.
Print Assumptions singleton_group_bst_is_st.
Theorem unit_sample_weights_value : forall (y w z : list R), length y = length z ->
  @WeightedQuadratic_value R _ (repeat 1 (length z)) y w z = @Quadratic_value R _ y w z.
Proof. exact WeightedQuadratic_unit_value. Qed.
Print Assumptions unit_sample_weights_value.
