(* C19 -- degenerate data is handled: the regenerated epoch never fails on well-formed inputs (an all-zero
   column takes the step-1000 branch, no division), a null coefficient on a null column stays null. *)
From Coq Require Import Reals ZArith List.
Require Import SK.Base.Res SK.Base.Num SK.Base.RInst SK.Lemmas.Consistency SK.Lemmas.Totality SK.Lemmas.Descent SK.Lemmas.Lipschitz.
Require Import SK.Gen.PenSeparable SK.Gen.DfSingle SK.Gen.KernACD.
Local Open Scope R_scope.

Theorem epoch_total_on_degenerate_data : forall (prox_1d : R -> R -> Z -> res R)
    (gradient_scalar : list (list R) -> list R -> list R -> list R -> Z -> res R) (X : list (list R)) (y lc : list R) (n : nat),
  wf_X n X -> length lc = length X ->
  (forall x s j, exists v, prox_1d x s j = Ok v) ->
  (forall w Xw j, length w = length X -> length Xw = n -> (0 <= j < Z.of_nat (length X))%Z ->
     exists g, gradient_scalar X y w Xw j = Ok g) ->
  forall ws w Xw, Forall (fun j => (0 <= j < Z.of_nat (length X))%Z) ws -> length w = length X -> length Xw = n ->
  exists w' Xw', @_cd_epoch R _ prox_1d gradient_scalar X y w Xw lc ws = Ok (w', Xw') /\ length w' = length X /\ length Xw' = n.
Proof. exact cd_epoch_total. Qed.
Print Assumptions epoch_total_on_degenerate_data.

Theorem quadratic_gradient_total : forall (X : list (list R)) (y w Xw : list R) j (n : nat),
  (0 < n)%nat -> length Xw = n -> (0 <= j < Z.of_nat (length X))%Z ->
  exists g, @Quadratic_gradient_scalar R _ (mTv X y) X y w Xw j = Ok g.
Proof. exact Quadratic_gradient_scalar_total. Qed.
Print Assumptions quadratic_gradient_total.

Theorem null_coefficient_stays_null_l1 : forall alpha pos s j, 0 <= alpha -> 0 <= s -> @L1_prox_1d R _ alpha pos 0 s j = Ok 0.
Proof. exact L1_prox_zero. Qed.
Print Assumptions null_coefficient_stays_null_l1.

(* a zero Lipschitz constant means the column is null (so the datafit cannot move along it) *)
Theorem zero_constant_iff_null_column : forall c, sqnorm c = 0 -> Forall (fun x => x = 0) c.
Proof. exact sqnorm_zero_all. Qed.
Print Assumptions zero_constant_iff_null_column.

(* all-zero columns in CSC storage are treated exactly as in dense storage (step 1000, coefficient pushed through the prox):
   the regenerated sparse epoch equals the dense epoch, for which the totality / null-coefficient theorems above are stated *)
Require Import SK.Lemmas.Csc SK.Lemmas.SparseEpoch SK.Gen.SparseOps.
Theorem sparse_epoch_treats_null_columns_like_dense : forall (prox_1d : R -> R -> Z -> res R)
    (g_dense : list (list R) -> list R -> list R -> list R -> Z -> res R)
    (g_sparse : list R -> list Z -> list Z -> list R -> list R -> Z -> res R) (n : nat) (M : csc) (X : list (list R)) (y lc : list R),
  (forall j, (0 <= j < Z.of_nat (length X))%Z ->
     exists lo hi, col_bounds M j lo hi /\ wf_col n M lo hi /\ mcol X j = Ok (dense_col n M lo hi)) ->
  (forall w Xw j, (0 <= j < Z.of_nat (length X))%Z -> length Xw = n ->
     g_sparse (cdata M) (cindptr M) (cindices M) y Xw j = g_dense X y w Xw j) ->
  forall ws w Xw, Forall (fun j => (0 <= j < Z.of_nat (length X))%Z) ws -> length Xw = n ->
  @_cd_epoch_sparse R _ g_sparse prox_1d (cdata M) (cindptr M) (cindices M) y w Xw lc ws
  = @_cd_epoch R _ prox_1d g_dense X y w Xw lc ws.
Proof. exact cd_epoch_sparse_eq_dense. Qed.
Print Assumptions sparse_epoch_treats_null_columns_like_dense.

(* GroupBCD: an all-zero group (zero Lipschitz constant) is skipped by the regenerated block epoch -- the gradient accessor and
   the prox are not even called, so nothing is divided by zero and (w, Xw) come back unchanged *)
Require Import SK.Gen.KernBCD SK.Lemmas.BcdNull.
Theorem bcd_epoch_skips_null_groups : forall (prox_1group : list R -> R -> Z -> res (list R))
    (gg_dense : list (list R) -> list R -> list R -> list R -> Z -> res (list R))
    (X : list (list R)) (y lip : list R) (grp_ptr grp_indices : list Z) ws w Xw,
  Forall (fun g => get_idx lip g = Ok 0) ws ->
  Forall (fun g => exists a b s old, get_idx grp_ptr g = Ok a /\ get_idx grp_ptr (g + 1) = Ok b /\ slice grp_indices a b = Ok s
                                 /\ gather w s = Ok old) ws ->
  @_bcd_epoch R _ grp_ptr grp_indices gg_dense prox_1group X y w Xw lip ws = Ok (w, Xw).
Proof. exact bcd_epoch_zero_lipschitz_untouched. Qed.
Print Assumptions bcd_epoch_skips_null_groups.
