(* C08 -- the optimality measure is sound.  Subjects: coq/Gen (regenerated from /repo each run). *)
From Coq Require Import Reals ZArith List.
Require Import SK.Base.Res SK.Base.Num SK.Base.RInst.
Require Import SK.Gen.ProxFuncs SK.Gen.PenSeparable.
Require Import SK.Lemmas.ProxScalar SK.Lemmas.ProxMCP SK.Lemmas.Loops SK.Lemmas.Subdiff SK.Lemmas.SubdiffJust SK.Lemmas.VecFacts.
Local Open Scope R_scope.

(* dist_sd is the Euclidean distance to the set, zero exactly on it, infinite exactly for the empty set *)
Theorem dist_is_lower_bound : forall x S v d, dist_sd x S = Fin d -> In_sd v S -> d <= Rabs (x - v).
Proof. exact dist_sd_lower. Qed.
Print Assumptions dist_is_lower_bound.
Theorem dist_is_attained : forall x S d, wf_sd S -> dist_sd x S = Fin d -> exists v, In_sd v S /\ Rabs (x - v) = d.
Proof. exact dist_sd_attained. Qed.
Print Assumptions dist_is_attained.
Theorem dist_zero_iff_member : forall x S, wf_sd S -> (dist_sd x S = Fin 0 <-> In_sd x S).
Proof. exact dist_sd_zero_iff. Qed.
Print Assumptions dist_zero_iff_member.

(* the generated loops compute, for every (idx, j) of the working set, dist(-grad[idx], subdiff(w[j])) *)
Theorem score_eq_distance_l1 : forall alpha pos w grad ws wvals,
  valid_ws (length w) ws -> gather w ws = Ok wvals -> length grad = length ws ->
  @L1_subdiff_distance R _ alpha pos w grad ws = Ok (fill_vals (score (subdiff_l1 alpha pos)) ws wvals grad).
Proof. exact L1_subdiff_distance_spec. Qed.
Print Assumptions score_eq_distance_l1.
Theorem score_eq_distance_en : forall alpha rho pos w grad ws wvals,
  valid_ws (length w) ws -> gather w ws = Ok wvals -> length grad = length ws ->
  @L1_plus_L2_subdiff_distance R _ alpha rho pos w grad ws
  = Ok (fill_vals (score (subdiff_en alpha rho pos)) ws wvals grad).
Proof. exact L1_plus_L2_subdiff_distance_spec. Qed.
Print Assumptions score_eq_distance_en.
Theorem score_eq_distance_wl1 : forall alpha weights pos w grad ws wvals,
  length weights = length w ->
  valid_ws (length w) ws -> gather w ws = Ok wvals -> length grad = length ws ->
  @WeightedL1_subdiff_distance R _ alpha weights pos w grad ws
  = Ok (fill_vals (fun j => score (subdiff_l1 (alpha * wt weights j) pos) j) ws wvals grad).
Proof. exact WeightedL1_subdiff_distance_spec. Qed.
Print Assumptions score_eq_distance_wl1.
Theorem score_eq_distance_mcp : forall alpha gamma pos, gamma <> 0 -> forall w grad ws wvals,
  valid_ws (length w) ws -> gather w ws = Ok wvals -> length grad = length ws ->
  @MCPenalty_subdiff_distance R _ alpha gamma pos w grad ws
  = Ok (fill_vals (score (subdiff_mcp alpha gamma 1 pos)) ws wvals grad).
Proof. exact MCPenalty_subdiff_distance_spec. Qed.
Print Assumptions score_eq_distance_mcp.
Theorem score_eq_distance_wmcp : forall alpha gamma weights pos, gamma <> 0 -> forall w grad ws wvals,
  length weights = length w ->
  valid_ws (length w) ws -> gather w ws = Ok wvals -> length grad = length ws ->
  @WeightedMCPenalty_subdiff_distance R _ alpha gamma weights pos w grad ws
  = Ok (fill_vals (fun j => score (subdiff_mcp alpha gamma (wt weights j) pos) j) ws wvals grad).
Proof. exact WeightedMCPenalty_subdiff_distance_spec. Qed.
Print Assumptions score_eq_distance_wmcp.
Theorem score_eq_distance_scad : forall alpha gamma, gamma - 1 <> 0 -> forall w grad ws wvals,
  valid_ws (length w) ws -> gather w ws = Ok wvals -> length grad = length ws ->
  @SCAD_subdiff_distance R _ alpha gamma w grad ws
  = Ok (fill_vals (score (subdiff_scad alpha gamma)) ws wvals grad).
Proof. exact SCAD_subdiff_distance_spec. Qed.
Print Assumptions score_eq_distance_scad.
Theorem score_eq_distance_box : forall C w grad ws wvals,
  valid_ws (length w) ws -> gather w ws = Ok wvals -> length grad = length ws ->
  @IndicatorBox_subdiff_distance R _ C w grad ws = Ok (fill_vals (score (subdiff_box C)) ws wvals grad).
Proof. exact IndicatorBox_subdiff_distance_spec. Qed.
Print Assumptions score_eq_distance_box.
Theorem score_eq_distance_posc : forall w grad ws wvals,
  valid_ws (length w) ws -> gather w ws = Ok wvals -> length grad = length ws ->
  @PositiveConstraint_subdiff_distance R _ w grad ws = Ok (fill_vals (score subdiff_posc) ws wvals grad).
Proof. exact PositiveConstraint_subdiff_distance_spec. Qed.
Print Assumptions score_eq_distance_posc.
Theorem score_eq_distance_logsum : forall alpha eps, 0 < eps -> forall w grad ws wvals,
  valid_ws (length w) ws -> gather w ws = Ok wvals -> length grad = length ws ->
  @LogSumPenalty_subdiff_distance R _ alpha eps w grad ws
  = Ok (fill_vals (score (subdiff_logsum alpha eps)) ws wvals grad).
Proof. exact LogSumPenalty_subdiff_distance_spec. Qed.
Print Assumptions score_eq_distance_logsum.

(* the tables ARE the subdifferentials of the documented value functions (convex family) *)
Theorem subdiff_spec_justified_l1 : forall thr wj v, 0 <= thr ->
  In_sd v (subdiff_l1 thr false wj) <-> subgrad allR (l1pen thr) wj v.
Proof. exact subdiff_l1_just. Qed.
Print Assumptions subdiff_spec_justified_l1.
Theorem subdiff_spec_justified_l1pos : forall thr wj v, 0 <= thr -> 0 <= wj ->
  In_sd v (subdiff_l1 thr true wj) <-> subgrad nonneg (l1pen thr) wj v.
Proof. exact subdiff_l1_pos_just. Qed.
Print Assumptions subdiff_spec_justified_l1pos.
Theorem subdiff_spec_justified_en : forall alpha rho wj v, 0 <= alpha -> 0 <= rho <= 1 ->
  In_sd v (subdiff_en alpha rho false wj) <-> subgrad allR (enpen alpha rho) wj v.
Proof. exact subdiff_en_just. Qed.
Print Assumptions subdiff_spec_justified_en.
Theorem subdiff_spec_justified_enpos : forall alpha rho wj v, 0 <= alpha -> 0 <= rho <= 1 -> 0 <= wj ->
  In_sd v (subdiff_en alpha rho true wj) <-> subgrad nonneg (enpen alpha rho) wj v.
Proof. exact subdiff_en_pos_just. Qed.
Print Assumptions subdiff_spec_justified_enpos.

(* infinite exactly where a configured positivity constraint is violated *)
Theorem score_inf_iff_infeasible_l1 : forall thr pos j wj g,
  score (subdiff_l1 thr pos) j wj g = PInf <-> (pos = true /\ wj < 0).
Proof. exact score_l1_inf_iff. Qed.
Print Assumptions score_inf_iff_infeasible_l1.
Theorem score_inf_iff_infeasible_en : forall alpha rho pos j wj g,
  score (subdiff_en alpha rho pos) j wj g = PInf <-> (pos = true /\ wj < 0).
Proof. exact score_en_inf_iff. Qed.
Print Assumptions score_inf_iff_infeasible_en.
Theorem score_inf_iff_infeasible_mcp : forall alpha gamma w8 pos j wj g,
  score (subdiff_mcp alpha gamma w8 pos) j wj g = PInf <-> (pos = true /\ wj < 0).
Proof. exact score_mcp_inf_iff. Qed.
Print Assumptions score_inf_iff_infeasible_mcp.

(* agreement with the prox: fixed points of the prox-gradient map have score zero (iff for convex) *)
Theorem proxfix_iff_zero_l1 : forall alpha pos s w g j, 0 < s -> 0 <= alpha ->
  (@L1_prox_1d R _ alpha pos (w - s * g) s j = Ok w <-> score (subdiff_l1 alpha pos) j w g = Fin 0).
Proof. exact L1_prox_fix_iff. Qed.
Print Assumptions proxfix_iff_zero_l1.
Theorem proxfix_iff_zero_wl1 : forall alpha weights pos s w g j, 0 < s -> 0 <= alpha ->
  (0 <= j < Z.of_nat (length weights))%Z -> 0 <= wt weights j ->
  (@WeightedL1_prox_1d R _ alpha weights pos (w - s * g) s j = Ok w
   <-> score (subdiff_l1 (alpha * wt weights j) pos) j w g = Fin 0).
Proof. exact WeightedL1_prox_fix_iff. Qed.
Print Assumptions proxfix_iff_zero_wl1.
Theorem proxfix_iff_zero_en : forall alpha rho pos s w g j, 0 < s -> 0 <= alpha -> 0 <= rho <= 1 ->
  (@L1_plus_L2_prox_1d R _ alpha rho pos (w - s * g) s j = Ok w
   <-> score (subdiff_en alpha rho pos) j w g = Fin 0).
Proof. exact L1_plus_L2_prox_fix_iff. Qed.
Print Assumptions proxfix_iff_zero_en.
Theorem proxfix_implies_zero_mcp : forall alpha gamma w8 pos s w g j,
  0 < s -> 0 <= alpha -> 0 < gamma -> 0 <= w8 -> w8 * s < gamma ->
  @prox_MCP R _ (w - s * g) s alpha gamma pos w8 = Ok w ->
  score (subdiff_mcp alpha gamma w8 pos) j w g = Fin 0.
Proof. exact prox_MCP_fix_score_zero. Qed.
Print Assumptions proxfix_implies_zero_mcp.
Theorem proxfix_iff_zero_box : forall C s w g j, 0 < s -> 0 < C -> 0 <= w <= C ->
  (@IndicatorBox_prox_1d R _ C (w - s * g) s j = Ok w <-> score (subdiff_box C) j w g = Fin 0).
Proof. exact box_fix_iff. Qed.
Print Assumptions proxfix_iff_zero_box.
Theorem proxfix_iff_zero_posc : forall s w g j, 0 < s ->
  (@PositiveConstraint_prox_1d R _ (w - s * g) s j = Ok w <-> score subdiff_posc j w g = Fin 0).
Proof. exact posc_fix_iff. Qed.
Print Assumptions proxfix_iff_zero_posc.

(* features flagged as unpenalised contribute nothing to the value *)
Theorem unpenalised_flag_is_zero_weight : forall (weights : list R) n,
  @WeightedL1_is_penalized R _ weights n = Ok (map (fun x => negb (Reqb x 0)) weights).
Proof. exact WeightedL1_is_penalized_spec. Qed.
Print Assumptions unpenalised_flag_is_zero_weight.
Theorem unpenalised_contribute_zero : forall alpha (weights w : list R) (j : nat) x,
  (j < length w)%nat -> length w = length weights -> nth j weights 0 = 0 ->
  @WeightedL1_value R _ alpha weights false (set_nth w j x) = @WeightedL1_value R _ alpha weights false w.
Proof. exact WeightedL1_unpenalized_contributes_zero. Qed.
Print Assumptions unpenalised_contribute_zero.

(* fix-point strategy (AndersonCD / ProxNewton): the regenerated dist_fix_point_cd returns, position by position,
   |w_j - prox(w_j - step_j grad_j, step_j)| with step_j = 1 / L_j, or 1000 when L_j = 0 -- the step rule of the CD epoch --
   hence it is zero exactly when the epoch update leaves the coefficient unchanged, zero-curvature features included *)
Require Import SK.Lemmas.Loops SK.Gen.KernCD SK.Lemmas.FixPoint.
Theorem fixpoint_score_is_residual_of_the_epoch_update :
  forall (P : R -> R -> Z -> R) (w grad lip : list R) (ws : list Z) wvals,
  valid_ws (length w) ws -> gather w ws = Ok wvals -> length grad = length ws -> length lip = length ws ->
  @dist_fix_point_cd R _ (fun x s j => Ok (P x s j)) w grad lip ws = Ok (fill_vals (fp_val P) ws wvals (combine lip grad)).
Proof. exact dist_fix_point_cd_spec. Qed.
Print Assumptions fixpoint_score_is_residual_of_the_epoch_update.
Theorem fixpoint_score_zero_iff_fixed_point : forall (P : R -> R -> Z -> R) j wj l g,
  fp_val P j wj (l, g) = 0 <-> P (wj - fp_step l * g) (fp_step l) j = wj.
Proof. exact fp_val_zero_iff. Qed.
Print Assumptions fixpoint_score_zero_iff_fixed_point.
