(* C13 -- every composition is either refused with an explanation or solved.
   Finite tables extracted from /repo's AST on every run (coq/Gen/Tables.v); the theorems are closed by
   exhaustive computation over the WHOLE matrix 9 solvers x 13 datafits x 19 penalties x {dense, CSC} x
   {intercept} x {subdiff, fixpoint} = 17784 cells (the bound is the statement). *)
From Coq Require Import String List Bool.
Require Import SK.Gen.Tables SK.Lemmas.Matrix.
Import ListNotations.

(* size of the enumerated space *)
Theorem matrix_size : length all_cells = 17784.
Proof. vm_compute. reflexivity. Qed.
Print Assumptions matrix_size.

(* every cell is refused by the model of _validate (custom_checks + check_attrs with the sparse suffix), or every
   datafit.m / penalty.m that a compiled kernel of the solver can reach on the selected path exists on the class *)
Theorem matrix_refused_or_callable : forallb cell_ok all_cells = true.
Proof. vm_compute. reflexivity. Qed.
Print Assumptions matrix_refused_or_callable.

(* every attribute a datafit / penalty method reads or writes on self is a method, a constructor field or is
   declared in get_spec (an undeclared one is a numba TypingError at the first call) *)
Theorem attrs_declared : forallb (fun c => forallb (has c) (c_uses c)) (datafits ++ penalties) = true.
Proof. vm_compute. reflexivity. Qed.
Print Assumptions attrs_declared.

(* refusals name what is missing: the model returns a message for every refused cell (non-empty) *)
Theorem refusal_names_missing : forallb (fun x => match validate x with Some m => negb (String.eqb m "") | None => true end) all_cells = true.
Proof. vm_compute. reflexivity. Qed.
Print Assumptions refusal_names_missing.

(* the public entry point BaseSolver.solve validates on EVERY call (only the keyword run_checks=False skips it), keeps
   no state on the solver between calls, always ends in self._solve(...), and no solver class overrides solve or
   _validate: so the matrix theorems above apply to every call, whatever was solved before with the same object *)
Theorem solve_validates_every_call :
  solve_validate_guards = ["run_checks"%string] /\ solve_self_stores = [] /\ solve_returns_solve = true /\ solve_overrides = [].
Proof. vm_compute. repeat split; reflexivity. Qed.
Print Assumptions solve_validates_every_call.
