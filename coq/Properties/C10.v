(* C10 -- results do not depend on how X is stored: the regenerated sparse kernels equal the dense ones on the
   dense columns the CSC arrays denote, so trajectories coincide in exact arithmetic. *)
From Coq Require Import Reals ZArith List.
Require Import SK.Base.Res SK.Base.Num SK.Base.RInst SK.Lemmas.VecFacts SK.Lemmas.Csc SK.Lemmas.DfQuadraticSparse SK.Lemmas.SparseEpoch.
Require Import SK.Gen.SparseOps SK.Gen.DfSingle SK.Gen.KernACD.
Local Open Scope R_scope.

Theorem csc_column_dot_is_dense_dot : forall n M lo hi (u : list R), wf_col n M lo hi -> length u = n ->
  rsum (map (fun i => dat M i * nth (Z.to_nat (row M i)) u 0) (zrange lo hi)) = rsum (vmap2 Rmult (dense_col n M lo hi) u).
Proof. exact csc_col_dot. Qed.
Print Assumptions csc_column_dot_is_dense_dot.

Theorem kernel_sparse_eq_dense_gradient_scalar_quadratic : forall n M (X : list (list R)) Xty y w Xw j lo hi,
  col_bounds M j lo hi -> wf_col n M lo hi -> length Xw = n -> mcol X j = Ok (dense_col n M lo hi) ->
  @Quadratic_gradient_scalar_sparse R _ Xty (cdata M) (cindptr M) (cindices M) y Xw j
  = @Quadratic_gradient_scalar R _ Xty X y w Xw j.
Proof. exact Quadratic_gradient_scalar_sparse_eq_dense. Qed.
Print Assumptions kernel_sparse_eq_dense_gradient_scalar_quadratic.

Theorem kernel_sparse_axpy_is_dense_axpy : forall n M lo hi (Xw : list R) (diff : R), wf_col n M lo hi -> length Xw = n ->
  for_each (zrange lo hi) (fun i Xw =>
    bind (get_idx (cindices M) i) (fun t11 => bind (get_idx Xw t11) (fun t12 => bind (get_idx (cdata M) i) (fun t13 =>
      bind (set_idx Xw t11 (fadd t12 (fmul diff t13))) (fun Xw => ret Xw))))) Xw
  = Ok (vmap2 Rplus Xw (map (fun e => diff * e) (dense_col n M lo hi))).
Proof. exact sparse_axpy_loop. Qed.
Print Assumptions kernel_sparse_axpy_is_dense_axpy.

(* the whole epoch: same (w, Xw) after any working set, for any prox and any pair of agreeing gradient accessors *)
Theorem trajectory_sparse_eq_dense_cd_epoch : forall (prox_1d : R -> R -> Z -> res R)
    (g_dense : list (list R) -> list R -> list R -> list R -> Z -> res R)
    (g_sparse : list R -> list Z -> list Z -> list R -> list R -> Z -> res R) (n : nat) (M : csc) (X : list (list R)) (y lc : list R),
  (forall j, (0 <= j < Z.of_nat (length X))%Z ->
     exists lo hi, col_bounds M j lo hi /\ wf_col n M lo hi /\ mcol X j = Ok (dense_col n M lo hi)) ->
  (forall w Xw j, (0 <= j < Z.of_nat (length X))%Z -> length Xw = n ->
     g_sparse (cdata M) (cindptr M) (cindices M) y Xw j = g_dense X y w Xw j) ->
  forall ws w Xw, Forall (fun j => (0 <= j < Z.of_nat (length X))%Z) ws -> length Xw = n ->
  @_cd_epoch_sparse R _ g_sparse prox_1d (cdata M) (cindptr M) (cindices M) y w Xw lc ws
  = @_cd_epoch R _ prox_1d g_dense X y w Xw lc ws.
Proof. exact cd_epoch_sparse_eq_dense. Qed.
Print Assumptions trajectory_sparse_eq_dense_cd_epoch.

(* group datafit: sparse per-group gradient = dense per-group gradient, any group structure *)
Require Import SK.Gen.DfGroup SK.Lemmas.DfGroupSparse.
Theorem group_gradient_sparse_eq_dense :
  forall n M (X : list (list R)) grp_ptr grp_indices y w Xw g, length Xw = n -> length y = n ->
  (forall j, In j grp_indices -> exists lo hi, col_bounds M j lo hi /\ wf_col n M lo hi /\ mcol X j = Ok (dense_col n M lo hi)) ->
  @QuadraticGroup_gradient_g_sparse R _ grp_ptr grp_indices (cdata M) (cindptr M) (cindices M) y w Xw g
  = @QuadraticGroup_gradient_g R _ grp_ptr grp_indices X y w Xw g.
Proof. exact QuadraticGroup_gradient_g_sparse_eq_dense. Qed.
Print Assumptions group_gradient_sparse_eq_dense.

(* GroupBCD: the whole regenerated block epoch, sparse = dense, for any prox and any pair of agreeing group-gradient accessors;
   closed for the regenerated QuadraticGroup datafit; and the stacked working-set gradient *)
Require Import SK.Gen.KernBCD SK.Lemmas.BcdEpoch.
Theorem trajectory_sparse_eq_dense_bcd_epoch : forall (prox_1group : list R -> R -> Z -> res (list R))
    (gg_dense : list (list R) -> list R -> list R -> list R -> Z -> res (list R))
    (gg_sparse : list R -> list Z -> list Z -> list R -> list R -> list R -> Z -> res (list R))
    (n : nat) (M : csc) (X : list (list R)) (y lip : list R) (grp_ptr grp_indices : list Z),
  (forall j, In j grp_indices -> exists lo hi, col_bounds M j lo hi /\ wf_col n M lo hi /\ mcol X j = Ok (dense_col n M lo hi)) ->
  (forall w Xw g, length Xw = n -> gg_sparse (cdata M) (cindptr M) (cindices M) y w Xw g = gg_dense X y w Xw g) ->
  forall ws w Xw, length Xw = n ->
  @_bcd_epoch_sparse R _ grp_ptr grp_indices gg_sparse prox_1group (cdata M) (cindptr M) (cindices M) y w Xw lip ws
  = @_bcd_epoch R _ grp_ptr grp_indices gg_dense prox_1group X y w Xw lip ws.
Proof. exact bcd_epoch_sparse_eq_dense. Qed.
Print Assumptions trajectory_sparse_eq_dense_bcd_epoch.

Theorem trajectory_sparse_eq_dense_bcd_epoch_quadratic_group : forall prox n M (X : list (list R)) y lip grp_ptr grp_indices ws w Xw,
  length Xw = n -> length y = n ->
  (forall j, In j grp_indices -> exists lo hi, col_bounds M j lo hi /\ wf_col n M lo hi /\ mcol X j = Ok (dense_col n M lo hi)) ->
  @_bcd_epoch_sparse R _ grp_ptr grp_indices (@QuadraticGroup_gradient_g_sparse R _ grp_ptr grp_indices) prox
      (cdata M) (cindptr M) (cindices M) y w Xw lip ws
  = @_bcd_epoch R _ grp_ptr grp_indices (@QuadraticGroup_gradient_g R _ grp_ptr grp_indices) prox X y w Xw lip ws.
Proof. exact QuadraticGroup_bcd_epoch_sparse_eq_dense. Qed.
Print Assumptions trajectory_sparse_eq_dense_bcd_epoch_quadratic_group.

Theorem group_working_set_gradient_sparse_eq_dense :
  forall (gg_dense : list (list R) -> list R -> list R -> list R -> Z -> res (list R))
    (gg_sparse : list R -> list Z -> list Z -> list R -> list R -> list R -> Z -> res (list R))
    (n : nat) (M : csc) (X : list (list R)) (y : list R),
  (forall w Xw g, length Xw = n -> gg_sparse (cdata M) (cindptr M) (cindices M) y w Xw g = gg_dense X y w Xw g) ->
  forall dgp ws w Xw, length Xw = n ->
  @bcd_construct_grad_sparse R _ dgp gg_sparse (cdata M) (cindptr M) (cindices M) y w Xw ws
  = @bcd_construct_grad R _ dgp gg_dense X y w Xw ws.
Proof. exact bcd_construct_grad_sparse_eq_dense. Qed.
Print Assumptions group_working_set_gradient_sparse_eq_dense.

(* ProxNewton: the working-set gradient of the regenerated sparse kernel equals the dense one (any raw gradient) *)
Require Import SK.Gen.KernPN SK.Lemmas.PnSparse.
Theorem prox_newton_gradient_sparse_eq_dense : forall (raw_grad : list R -> list R -> res (list R))
    (n : nat) (M : csc) (X : list (list R)) (y : list R),
  (forall j, (0 <= j < Z.of_nat (length X))%Z ->
     exists lo hi, col_bounds M j lo hi /\ wf_col n M lo hi /\ mcol X j = Ok (dense_col n M lo hi)) ->
  (forall Xw g, length Xw = n -> raw_grad y Xw = Ok g -> length g = n) ->
  forall ws w Xw, Forall (fun j => (0 <= j < Z.of_nat (length X))%Z) ws -> length Xw = n ->
  @pn_construct_grad_sparse R _ raw_grad (cdata M) (cindptr M) (cindices M) y w Xw ws
  = @pn_construct_grad R _ raw_grad X y w Xw ws.
Proof. exact pn_construct_grad_sparse_eq_dense. Qed.
Print Assumptions prox_newton_gradient_sparse_eq_dense.

(* ProxNewton: the three sparse helper kernels of the direction kernel compute what the dense kernel computes with the dense
   column the CSC arrays denote (the squared norm needs distinct stored rows: (a + b)^2 <> a^2 + b^2) *)
Require Import SK.Lemmas.PnSparseHelpers.
Theorem prox_newton_sparse_axpy_is_dense : forall n M j lo hi (Xd : list R) (diff : R),
  col_bounds M j lo hi -> wf_col n M lo hi -> length Xd = n ->
  @_update_X_delta_w R _ (cdata M) (cindptr M) (cindices M) Xd diff j
  = Ok (vmap2 Rplus Xd (map (fun e => diff * e) (dense_col n M lo hi))).
Proof. exact update_X_delta_w_is_dense_axpy. Qed.
Print Assumptions prox_newton_sparse_axpy_is_dense.

Theorem prox_newton_sparse_weighted_dot_is_dense : forall n M j lo hi (other weights : list R),
  col_bounds M j lo hi -> wf_col n M lo hi -> length other = n -> length weights = n ->
  @_sparse_weighted_dot R _ (cdata M) (cindptr M) (cindices M) j other weights
  = Ok (vdot (dense_col n M lo hi) (vmap2 fmul weights other)).
Proof. exact sparse_weighted_dot_is_dense. Qed.
Print Assumptions prox_newton_sparse_weighted_dot_is_dense.

Theorem prox_newton_sparse_squared_weighted_norm_is_dense : forall n M j lo hi (weights : list R),
  col_bounds M j lo hi -> wf_col n M lo hi -> rows_distinct M lo hi -> length weights = n ->
  @_sparse_squared_weighted_norm R _ (cdata M) (cindptr M) (cindices M) j weights
  = Ok (vdot weights (vmap fsq (dense_col n M lo hi))).
Proof. exact sparse_squared_weighted_norm_is_dense. Qed.
Print Assumptions prox_newton_sparse_squared_weighted_norm_is_dense.

(* ProxNewton: the WHOLE regenerated sparse descent-direction kernel (no intercept, subdiff strategy) equals the dense one on the
   dense columns the CSC arrays denote (stored rows distinct), for any prox, Hessian and subdifferential score *)
Require Import SK.Lemmas.PnSparseDirection.
Theorem trajectory_sparse_eq_dense_prox_newton_direction :
  forall (raw_hessian : list R -> list R -> res (list R)) (prox_1d : R -> R -> Z -> res R)
    (subdiff : list R -> list R -> list Z -> res (list (Ext R))) (n : nat) (M : csc) (X : list (list R)) (y : list R),
  (forall j, (0 <= j < Z.of_nat (length X))%Z ->
     exists lo hi, col_bounds M j lo hi /\ wf_col n M lo hi /\ rows_distinct M lo hi /\ mcol X j = Ok (dense_col n M lo hi)) ->
  (forall Xw h, length Xw = n -> raw_hessian y Xw = Ok h -> length h = n) -> mrows X = Z.of_nat n ->
  forall w_epoch Xw_epoch grad_ws ws tol,
  Forall (fun j => (0 <= j < Z.of_nat (length X))%Z) ws -> length Xw_epoch = n ->
  @_descent_direction_s__fit_intercept_False__ws_strategy_subdiff R _ raw_hessian prox_1d subdiff
      (cdata M) (cindptr M) (cindices M) y w_epoch Xw_epoch grad_ws ws tol
  = @_descent_direction__fit_intercept_False__ws_strategy_subdiff R _ raw_hessian prox_1d subdiff X y w_epoch Xw_epoch grad_ws ws tol.
Proof. exact descent_direction_sparse_eq_dense_subdiff. Qed.
Print Assumptions trajectory_sparse_eq_dense_prox_newton_direction.

Theorem trajectory_sparse_eq_dense_prox_newton_direction_fixpoint :
  forall (raw_hessian : list R -> list R -> res (list R)) (prox_1d : R -> R -> Z -> res R)
    (n : nat) (M : csc) (X : list (list R)) (y : list R),
  (forall j, (0 <= j < Z.of_nat (length X))%Z ->
     exists lo hi, col_bounds M j lo hi /\ wf_col n M lo hi /\ rows_distinct M lo hi /\ mcol X j = Ok (dense_col n M lo hi)) ->
  (forall Xw h, length Xw = n -> raw_hessian y Xw = Ok h -> length h = n) -> mrows X = Z.of_nat n ->
  forall w_epoch Xw_epoch grad_ws ws tol,
  Forall (fun j => (0 <= j < Z.of_nat (length X))%Z) ws -> length Xw_epoch = n ->
  @_descent_direction_s__fit_intercept_False__ws_strategy_fixpoint R _ raw_hessian prox_1d
      (cdata M) (cindptr M) (cindices M) y w_epoch Xw_epoch grad_ws ws tol
  = @_descent_direction__fit_intercept_False__ws_strategy_fixpoint R _ raw_hessian prox_1d X y w_epoch Xw_epoch grad_ws ws tol.
Proof. exact descent_direction_sparse_eq_dense_fixpoint. Qed.
Print Assumptions trajectory_sparse_eq_dense_prox_newton_direction_fixpoint.

(* ProxNewton: the regenerated sparse backtracking line search (no intercept) equals the dense one *)
Require Import SK.Lemmas.PnSparseLineSearch.
Theorem trajectory_sparse_eq_dense_prox_newton_line_search :
  forall (pen_value : list R -> res R) (raw_grad : list R -> list R -> res (list R)) (n : nat) (M : csc) (X : list (list R)) (y : list R),
  (forall j, (0 <= j < Z.of_nat (length X))%Z ->
     exists lo hi, col_bounds M j lo hi /\ wf_col n M lo hi /\ mcol X j = Ok (dense_col n M lo hi)) ->
  (forall Xw g, length Xw = n -> raw_grad y Xw = Ok g -> length g = n) ->
  (zlen (cindptr M) - 1)%Z = zlen X ->
  forall w Xw delta Xdelta ws,
  Forall (fun j => (0 <= j < Z.of_nat (length X))%Z) ws -> length Xw = n -> length Xdelta = n ->
  @_backtrack_line_search_s__fit_intercept_False R _ pen_value raw_grad (cdata M) (cindptr M) (cindices M) y w Xw delta Xdelta ws
  = @_backtrack_line_search__fit_intercept_False R _ pen_value raw_grad X y w Xw delta Xdelta ws.
Proof. exact line_search_sparse_eq_dense. Qed.
Print Assumptions trajectory_sparse_eq_dense_prox_newton_line_search.
