(* C07 -- proximal operators return a global minimiser of the prox objective.
   Subjects are the definitions in coq/Gen, regenerated from /repo on every run. *)
From Coq Require Import Reals ZArith List.
Require Import SK.Base.Res SK.Base.Num SK.Base.RInst.
Require Import SK.Gen.ProxFuncs SK.Gen.PenSeparable SK.Lemmas.ProxScalar SK.Lemmas.ProxMCP.
Local Open Scope R_scope.

Theorem prox_opt_l1 : forall alpha s x j p, 0 <= alpha -> 0 <= s ->
  @L1_prox_1d R _ alpha false x s j = Ok p ->
  forall v, pobj (l1pen alpha) s x p <= pobj (l1pen alpha) s x v.
Proof. exact L1_prox_opt. Qed.
Print Assumptions prox_opt_l1.

Theorem prox_opt_l1pos : forall alpha s x j p, 0 <= alpha -> 0 <= s ->
  @L1_prox_1d R _ alpha true x s j = Ok p ->
  0 <= p /\ forall v, 0 <= v -> pobj (l1pen alpha) s x p <= pobj (l1pen alpha) s x v.
Proof. exact L1_prox_pos_opt. Qed.
Print Assumptions prox_opt_l1pos.

Theorem prox_total_l1 : forall alpha pos s x j, exists p, @L1_prox_1d R _ alpha pos x s j = Ok p.
Proof. exact L1_prox_total. Qed.
Print Assumptions prox_total_l1.

Theorem prox_opt_wl1 : forall alpha weights s x j wj p, 0 <= alpha -> 0 <= s ->
  get_idx weights j = Ok wj -> 0 <= wj ->
  @WeightedL1_prox_1d R _ alpha weights false x s j = Ok p ->
  forall v, pobj (l1pen (alpha * wj)) s x p <= pobj (l1pen (alpha * wj)) s x v.
Proof. exact WeightedL1_prox_opt. Qed.
Print Assumptions prox_opt_wl1.

Theorem prox_opt_wl1pos : forall alpha weights s x j wj p, 0 <= alpha -> 0 <= s ->
  get_idx weights j = Ok wj -> 0 <= wj ->
  @WeightedL1_prox_1d R _ alpha weights true x s j = Ok p ->
  0 <= p /\ forall v, 0 <= v -> pobj (l1pen (alpha * wj)) s x p <= pobj (l1pen (alpha * wj)) s x v.
Proof. exact WeightedL1_prox_pos_opt. Qed.
Print Assumptions prox_opt_wl1pos.

Theorem prox_total_wl1 : forall alpha weights pos s x j wj,
  get_idx weights j = Ok wj -> exists p, @WeightedL1_prox_1d R _ alpha weights pos x s j = Ok p.
Proof. exact WeightedL1_prox_total. Qed.
Print Assumptions prox_total_wl1.

Theorem prox_opt_en : forall alpha rho s x j p, 0 <= alpha -> 0 <= rho <= 1 -> 0 <= s ->
  @L1_plus_L2_prox_1d R _ alpha rho false x s j = Ok p ->
  forall v, pobj (enpen alpha rho) s x p <= pobj (enpen alpha rho) s x v.
Proof. exact L1_plus_L2_prox_opt. Qed.
Print Assumptions prox_opt_en.

Theorem prox_opt_enpos : forall alpha rho s x j p, 0 <= alpha -> 0 <= rho <= 1 -> 0 <= s ->
  @L1_plus_L2_prox_1d R _ alpha rho true x s j = Ok p ->
  0 <= p /\ forall v, 0 <= v -> pobj (enpen alpha rho) s x p <= pobj (enpen alpha rho) s x v.
Proof. exact L1_plus_L2_prox_pos_opt. Qed.
Print Assumptions prox_opt_enpos.

Theorem prox_total_en : forall alpha rho pos s x j, 0 <= alpha -> 0 <= rho <= 1 -> 0 <= s ->
  exists p, @L1_plus_L2_prox_1d R _ alpha rho pos x s j = Ok p.
Proof. exact L1_plus_L2_prox_total. Qed.
Print Assumptions prox_total_en.

Theorem prox_opt_box : forall C s x j p, 0 <= C ->
  @IndicatorBox_prox_1d R _ C x s j = Ok p ->
  0 <= p <= C /\ forall v, 0 <= v <= C -> (p - x) ^ 2 / 2 <= (v - x) ^ 2 / 2.
Proof. exact IndicatorBox_prox_opt. Qed.
Print Assumptions prox_opt_box.

Theorem prox_opt_pos : forall s x j p,
  @PositiveConstraint_prox_1d R _ x s j = Ok p ->
  0 <= p /\ forall v, 0 <= v -> (p - x) ^ 2 / 2 <= (v - x) ^ 2 / 2.
Proof. exact PositiveConstraint_prox_opt. Qed.
Print Assumptions prox_opt_pos.

Theorem prox_opt_mcp : forall x s alpha gamma weight p,
  0 <= alpha -> 0 < gamma -> 0 <= weight * s -> weight * s < gamma ->
  @prox_MCP R _ x s alpha gamma false weight = Ok p ->
  forall v, pobj (mcp1 alpha gamma) (weight * s) x p <= pobj (mcp1 alpha gamma) (weight * s) x v.
Proof. exact prox_MCP_opt. Qed.
Print Assumptions prox_opt_mcp.

(* block soft-thresholding (prox of the group / row penalties) never fails for a threshold u >= 0 -- no division by a zero
   norm, the zero vector with a zero threshold (unpenalised group at a zero point) included -- and keeps the shape *)
Require Import SK.Lemmas.Reductions.
Theorem block_soft_thresholding_total : forall (x : list R) u, 0 <= u ->
  exists r, @BST__positive_False R _ x u = Ok r /\ length r = length x.
Proof. exact BST_plain_total. Qed.
Print Assumptions block_soft_thresholding_total.

(* block soft-thresholding is a GLOBAL minimiser of v -> 1/2 ||v - x||^2 + u ||v||_2, for every x (any length, the zero
   vector included) and every u >= 0: the prox of the multitask row penalty (L2_1) and of the group-lasso penalty
   (WeightedGroupL2 without positivity) as regenerated from the source *)
Require Import SK.Gen.PenBlock SK.Lemmas.ProxBlock.
Theorem bst_is_global_prox_minimiser : forall (x : list R) u r, 0 <= u -> @BST__positive_False R _ x u = Ok r ->
  length r = length x /\ forall v, length v = length x -> bobj x u r <= bobj x u v.
Proof. exact BST_plain_optimal. Qed.
Print Assumptions bst_is_global_prox_minimiser.
Theorem l21_prox_is_global_minimiser : forall alpha (x : list R) s j r, 0 <= alpha * s ->
  @L2_1_prox_1feat R _ alpha x s j = Ok r ->
  length r = length x /\ forall v, length v = length x -> bobj x (alpha * s) r <= bobj x (alpha * s) v.
Proof. exact L2_1_prox_optimal. Qed.
Print Assumptions l21_prox_is_global_minimiser.
Theorem group_lasso_prox_is_global_minimiser : forall alpha weights (x : list R) s g wg r,
  get_idx weights g = Ok wg -> 0 <= alpha * s * wg ->
  @WeightedGroupL2_prox_1group R _ alpha weights false x s g = Ok r ->
  length r = length x /\ forall v, length v = length x -> bobj x (alpha * s * wg) r <= bobj x (alpha * s * wg) v.
Proof. exact WeightedGroupL2_prox_optimal. Qed.
Print Assumptions group_lasso_prox_is_global_minimiser.
