(* C03 -- monotone descent under every iteration budget; extrapolation never hurts. *)
From Coq Require Import Reals ZArith List.
Require Import SK.Base.Res SK.Base.Num SK.Base.RInst SK.Lemmas.VecFacts SK.Lemmas.DfQuadratic SK.Lemmas.Lipschitz.
Require Import SK.Lemmas.Consistency SK.Lemmas.ProxScalar SK.Lemmas.Descent.
Require Import SK.Gen.SparseOps SK.Gen.DfSingle SK.Gen.KernACD.
Require Import SK.Skel.AndersonCD SK.Skel.AndersonCDDescent.
Local Open Scope R_scope.

(* kernel level: one regenerated CD epoch with the regenerated Quadratic gradient (cached X^T y) and the
   documented Lipschitz constants never increases F(w) = 1/(2n)||y - Xw||^2 + sum_j pen_j(w_j), for any prox
   that is no worse than staying put (every prox proved optimal in C07), any working set, zero columns included *)
Theorem epoch_descends : forall (X : list (list R)) (y : list R) (n : nat) (pens : list (R -> R))
    (prox_1d : R -> R -> Z -> res R),
  wf_X n X -> length y = n -> (0 < n)%nat -> length pens = length X ->
  (forall x s j v, 0 < s -> prox_1d x s j = Ok v ->
     forall u, pobj (nth (Z.to_nat j) pens (fun _ => 0)) s x v <= pobj (nth (Z.to_nat j) pens (fun _ => 0)) s x u) ->
  forall ws w Xw w' Xw', Forall (fun j => (0 <= j)%Z) ws -> length w = length X -> length Xw = n ->
  @_cd_epoch R _ prox_1d (@Quadratic_gradient_scalar R _ (mTv X y)) X y w Xw
     (map (fun col => sqnorm col / INR n) X) ws = Ok (w', Xw') ->
  Fobj y pens w' Xw' <= Fobj y pens w Xw.
Proof. exact cd_epoch_descends. Qed.
Print Assumptions epoch_descends.

(* solver level (skeleton): descent of the kernels lifts to every inner epoch (accepted extrapolations strictly
   decrease), to the returned point for every budget, and to monotonicity in max_iter *)
Theorem accepted_extrapolation_and_epochs_descend :
  forall {A} (cfg : @config R) (K : @kernels R A) (E : list R -> list R -> Ext R),
  (forall w Xw, objective cfg K w Xw = Ok (E w Xw)) ->
  (forall w Xw lip ws w' Xw', k_epoch K (wp cfg w) Xw lip ws = Ok (w', Xw') -> ext_le (E (with_wp cfg w w') Xw') (E w Xw)) ->
  (forall w Xw w' Xw', intercept_update cfg K w Xw = Ok (w', Xw') -> ext_le (E w' Xw') (E w Xw)) ->
  forall lip ws ws_size sc epoch w Xw a w' Xw' a' acc brk,
  inner_step cfg K lip ws ws_size sc epoch w Xw a = Ok (w', Xw', a', acc, brk) -> ext_le (E w' Xw') (E w Xw).
Proof. intros A. exact (@inner_step_descends A). Qed.
Print Assumptions accepted_extrapolation_and_epochs_descend.

Theorem run_never_worse_than_start_acd :
  forall {A} (cfg : @config R) (K : @kernels R A) (E : list R -> list R -> Ext R),
  (forall w Xw, objective cfg K w Xw = Ok (E w Xw)) ->
  (forall w Xw lip ws w' Xw', k_epoch K (wp cfg w) Xw lip ws = Ok (w', Xw') -> ext_le (E (with_wp cfg w w') Xw') (E w Xw)) ->
  (forall w Xw w' Xw', intercept_update cfg K w Xw = Ok (w', Xw') -> ext_le (E w' Xw') (E w Xw)) ->
  forall w0 Xw0 out, solve cfg K (Some w0) (Some Xw0) = Ok out -> ext_le (E (o_w out) (o_Xw out)) (E w0 Xw0).
Proof. intros A. exact (@solve_descends A). Qed.
Print Assumptions run_never_worse_than_start_acd.

Theorem run_monotone_in_budget_acd :
  forall {A} (cfg : @config R) (K : @kernels R A) (E : list R -> list R -> Ext R),
  (forall w Xw, objective cfg K w Xw = Ok (E w Xw)) ->
  (forall w Xw lip ws w' Xw', k_epoch K (wp cfg w) Xw lip ws = Ok (w', Xw') -> ext_le (E (with_wp cfg w w') Xw') (E w Xw)) ->
  (forall w Xw w' Xw', intercept_update cfg K w Xw = Ok (w', Xw') -> ext_le (E w' Xw') (E w Xw)) ->
  forall fuel lip w Xw obj stop n_it n_ep n_acc obj' stop' n_it' n_ep' n_acc' out1 out2,
  outer_loop cfg K fuel lip w Xw obj stop n_it n_ep n_acc = Ok out1 ->
  outer_loop cfg K (S fuel) lip w Xw obj' stop' n_it' n_ep' n_acc' = Ok out2 ->
  ext_le (E (o_w out2) (o_Xw out2)) (E (o_w out1) (o_Xw out1)).
Proof. intros A. exact (@outer_loop_budget_monotone A). Qed.
Print Assumptions run_monotone_in_budget_acd.

(* ---------------------------------------------------------------- GramCD ---------------------------------- *)
Require Import SK.Gen.KernGram SK.Skel.Generic SK.Skel.GramCD SK.Skel.GramCDProofs.
(* if one regenerated Gram epoch does not increase the objective, then no iteration of the GramCD skeleton does
   (an extrapolated point is accepted only when strictly better), for every budget and start *)
Theorem gramcd_never_worse_than_start :
  forall {A} score prox value greedy (cfg : @gconfig R) (D : @gdata R) (acc_init : A) acc_step,
  let p := length (gd_q D) in let negq := map Ropp (gd_q D) in
  wf_X p (gd_Q D) -> length (gd_Q D) = p ->
  forall AI : A -> Prop, AI acc_init ->
  (forall a w g w' g' ext a', AI a -> Cons p (gd_Q D) w negq g -> length w = p ->
      acc_step a w g = Ok (w', g', ext, a') ->
      AI a' /\ (ext = true -> Cons p (gd_Q D) w' negq g' /\ length w' = p)) ->
  (forall w g w' g' opt, Cons p (gd_Q D) w negq g -> length w = p ->
      @_gram_cd_epoch R _ score prox (gd_Q D) w g greedy = Ok (w', g', opt) ->
      ext_le (genergy value D w') (genergy value D w)) ->
  forall w0 out, length w0 = p ->
  gsolve cfg (gram_kernels score prox value greedy D acc_init acc_step) D (Some w0) = Ok out ->
  ext_le (genergy value D (gs_w (g_s out))) (genergy value D w0).
Proof. intros A. exact (@gram_never_worse_than_start A). Qed.
Print Assumptions gramcd_never_worse_than_start.

(* generic: a body that never increases an energy gives a result no worse than the start and monotone in max_iter *)
Theorem generic_budget_monotone :
  forall {F} `{Num F} {St C} (tol : F) (crit : St -> res (C * Ext F)) (body : St -> C -> Ext F -> res St)
         (objective : St -> res (Ext F)) {V} (E : St -> V) (le : V -> V -> Prop),
  (forall a, le a a) -> (forall a b c, le a b -> le b c -> le a c) ->
  forall I : St -> Prop,
  (forall s c sc s', I s -> crit s = Ok (c, sc) -> body s c sc = Ok s' -> I s') ->
  (forall s c sc s', I s -> crit s = Ok (c, sc) -> body s c sc = Ok s' -> le (E s') (E s)) ->
  forall k s0 out1 out2, I s0 ->
  grun tol crit body objective k s0 = Ok out1 -> grun tol crit body objective (S k) s0 = Ok out2 ->
  le (E (g_s out2)) (E (g_s out1)).
Proof. intros F H St C tol crit body objective V. exact (@grun_budget_monotone F H St C tol crit body objective V). Qed.
Print Assumptions generic_budget_monotone.

(* ---------------------------------------------------------------- GroupBCD --------------------------------- *)
Require Import SK.Skel.GroupBCD SK.Skel.GroupBCDProofs.
Theorem groupbcd_never_worse_than_start :
  forall {A} (cfg : @config R) (K : @kernels R A) (ng : nat) (E : list R -> list R -> Ext R),
  (forall w Xw, bind (k_df_value K w Xw) (fun d => bind (k_pen_value K (wp cfg w)) (fun pv => Ok (eadd (Fin d) pv))) = Ok (E w Xw)) ->
  (forall lip w Xw ws w' Xw', k_epoch K (wp cfg w) Xw lip ws = Ok (w', Xw') -> ext_le (E (with_wp cfg w w') Xw') (E w Xw)) ->
  (forall w Xw w' Xw', b_intercept_update cfg K w Xw = Ok (w', Xw') -> ext_le (E w' Xw') (E w Xw)) ->
  forall w0 Xw0 out, bsolve cfg K ng (Some w0) (Some Xw0) = Ok out -> ext_le (E (b_w (g_s out)) (b_Xw (g_s out))) (E w0 Xw0).
Proof. intros A. exact (@bsolve_descends A). Qed.
Print Assumptions groupbcd_never_worse_than_start.

Theorem groupbcd_monotone_in_budget :
  forall {A} (cfg : @config R) (K : @kernels R A) (ng : nat) (E : list R -> list R -> Ext R),
  (forall w Xw, bind (k_df_value K w Xw) (fun d => bind (k_pen_value K (wp cfg w)) (fun pv => Ok (eadd (Fin d) pv))) = Ok (E w Xw)) ->
  (forall lip w Xw ws w' Xw', k_epoch K (wp cfg w) Xw lip ws = Ok (w', Xw') -> ext_le (E (with_wp cfg w w') Xw') (E w Xw)) ->
  (forall w Xw w' Xw', b_intercept_update cfg K w Xw = Ok (w', Xw') -> ext_le (E w' Xw') (E w Xw)) ->
  forall lip k s0 out1 out2,
  grun (tol cfg) (bcrit cfg K lip ng) (bbody cfg K lip ng) (bobjective cfg K) k s0 = Ok out1 ->
  grun (tol cfg) (bcrit cfg K lip ng) (bbody cfg K lip ng) (bobjective cfg K) (S k) s0 = Ok out2 ->
  ext_le (E (b_w (g_s out2)) (b_Xw (g_s out2))) (E (b_w (g_s out1)) (b_Xw (g_s out1))).
Proof. intros A. exact (@brun_budget_monotone A). Qed.
Print Assumptions groupbcd_monotone_in_budget.
