(* C20 -- compiled kernels stay inside their arrays: the model's indexing IS the bounds-checked semantics
   (get_idx / set_idx / slice / gather return Err OOB out of range), so "the kernel returns Ok" on well-formed
   inputs is the statement that no access leaves the arrays passed in. *)
From Coq Require Import Reals ZArith List.
Require Import SK.Base.Res SK.Base.Num SK.Base.RInst SK.Lemmas.Loops SK.Lemmas.Consistency SK.Lemmas.Totality SK.Lemmas.Subdiff.
Require Import SK.Gen.PenSeparable SK.Gen.DfSingle SK.Gen.KernACD.
Local Open Scope R_scope.

Theorem kernel_in_bounds_cd_epoch : forall (prox_1d : R -> R -> Z -> res R)
    (gradient_scalar : list (list R) -> list R -> list R -> list R -> Z -> res R) (X : list (list R)) (y lc : list R) (n : nat),
  wf_X n X -> length lc = length X ->
  (forall x s j, exists v, prox_1d x s j = Ok v) ->
  (forall w Xw j, length w = length X -> length Xw = n -> (0 <= j < Z.of_nat (length X))%Z ->
     exists g, gradient_scalar X y w Xw j = Ok g) ->
  forall ws w Xw, Forall (fun j => (0 <= j < Z.of_nat (length X))%Z) ws -> length w = length X -> length Xw = n ->
  exists w' Xw', @_cd_epoch R _ prox_1d gradient_scalar X y w Xw lc ws = Ok (w', Xw') /\ length w' = length X /\ length Xw' = n.
Proof. exact cd_epoch_total. Qed.
Print Assumptions kernel_in_bounds_cd_epoch.

Theorem kernel_in_bounds_quadratic_gradient : forall (X : list (list R)) (y w Xw : list R) j (n : nat),
  (0 < n)%nat -> length Xw = n -> (0 <= j < Z.of_nat (length X))%Z ->
  exists g, @Quadratic_gradient_scalar R _ (mTv X y) X y w Xw j = Ok g.
Proof. exact Quadratic_gradient_scalar_total. Qed.
Print Assumptions kernel_in_bounds_quadratic_gradient.

(* the score kernels read exactly w[ws] and grad[0..len ws): Ok for every valid working set *)
Theorem kernel_in_bounds_subdiff_l1 : forall alpha pos w grad ws wvals,
  valid_ws (length w) ws -> gather w ws = Ok wvals -> length grad = length ws ->
  @L1_subdiff_distance R _ alpha pos w grad ws = Ok (fill_vals (score (subdiff_l1 alpha pos)) ws wvals grad).
Proof. exact L1_subdiff_distance_spec. Qed.
Print Assumptions kernel_in_bounds_subdiff_l1.
Theorem kernel_in_bounds_subdiff_wl1 : forall alpha weights pos w grad ws wvals,
  length weights = length w -> valid_ws (length w) ws -> gather w ws = Ok wvals -> length grad = length ws ->
  @WeightedL1_subdiff_distance R _ alpha weights pos w grad ws
  = Ok (fill_vals (fun j => score (subdiff_l1 (alpha * wt weights j) pos) j) ws wvals grad).
Proof. exact WeightedL1_subdiff_distance_spec. Qed.
Print Assumptions kernel_in_bounds_subdiff_wl1.
