(* C15 -- solutions transform correctly under symmetries of the problem (objective identities). *)
From Coq Require Import Reals ZArith List Permutation.
Require Import SK.Base.Res SK.Base.Num SK.Base.RInst SK.Lemmas.VecFacts SK.Lemmas.DfQuadratic SK.Lemmas.ProxScalar SK.Lemmas.Symmetry.
Local Open Scope R_scope.

Theorem objective_perm_samples : forall y z y' z', length y = length z -> length y' = length z' ->
  Permutation (combine y z) (combine y' z') -> quad_doc y z = quad_doc y' z'.
Proof. exact quad_doc_sample_permutation. Qed.
Print Assumptions objective_perm_samples.

Theorem objective_stack_k : forall y z k, length y = length z -> (0 < k)%nat -> z <> nil ->
  quad_doc (stack k y) (stack k z) = quad_doc y z.
Proof. exact quad_doc_stacking. Qed.
Print Assumptions objective_stack_k.

Theorem objective_scale_y : forall c y z, quad_doc (map (fun t => c * t) y) (map (fun t => c * t) z) = c ^ 2 * quad_doc y z.
Proof. exact quad_doc_scaling. Qed.
Print Assumptions objective_scale_y.

Theorem penalty_scale_alpha : forall c alpha v, 0 <= c -> l1pen (c * alpha) (c * v) = c ^ 2 * l1pen alpha v.
Proof. exact l1_scaling. Qed.
Print Assumptions penalty_scale_alpha.
