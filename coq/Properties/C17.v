(* C17 -- reported diagnostics describe the run that happened (AndersonCD skeleton: every kernel record,
   every budget, every start).  Tie: mock-kernel correspondence with the real _solve (history entries,
   stop_crit and iteration counts are compared value by value). *)
From Coq Require Import ZArith List.
Require Import SK.Base.Res SK.Base.Num SK.Skel.AndersonCD SK.Skel.AndersonCDProofs.

Theorem history_one_entry_per_iteration :
  forall {F} `{Num F} {A} (cfg : @config F) (K : @kernels F A) w_init Xw_init out,
  solve cfg K w_init Xw_init = Ok out ->
  length (o_obj out) = o_iters out /\ (o_iters out <= max_iter cfg)%nat /\
  (o_obj out = nil \/ objective cfg K (o_w out) (o_Xw out) = Ok (last (o_obj out) PInf)).
Proof. intros F H A. exact (@solve_history F H A). Qed.
Print Assumptions history_one_entry_per_iteration.

Theorem tol_stop_value_is_score_of_returned_point :
  forall {F} `{Num F} {A} (cfg : @config F) (K : @kernels F A) w_init Xw_init out,
  solve cfg K w_init Xw_init = Ok out -> ele (o_stop out) (tol cfg) = true ->
  exists lip opt, k_lipschitz K = Ok lip /\ stop_criterion cfg K (o_w out) (o_Xw out) lip = Ok (opt, o_stop out).
Proof. intros F H A. exact (@solve_stop_is_criterion F H A). Qed.
Print Assumptions tol_stop_value_is_score_of_returned_point.

(* ---- generic outer loop (GramCD / GroupBCD / MultiTaskBCD / ProxNewton / GroupProxNewton skeletons) ---- *)
Require Import SK.Skel.Generic SK.Skel.GramCD.
Theorem generic_history_one_entry_per_iteration :
  forall {F} `{Num F} {St C} (tol : F) (crit : St -> res (C * Ext F)) (body : St -> C -> Ext F -> res St)
         (objective : St -> res (Ext F)) max_iter s0 out,
  grun tol crit body objective max_iter s0 = Ok out ->
  length (g_obj out) = g_iters out /\ (g_iters out <= max_iter)%nat /\
  (g_obj out = nil \/ objective (g_s out) = Ok (last (g_obj out) PInf)).
Proof. intros F H St C. exact (@grun_history F H St C). Qed.
Print Assumptions generic_history_one_entry_per_iteration.

(* every entry is the objective of the state at the end of its own iteration *)
Theorem generic_history_entries_are_objectives_of_iterates :
  forall {F} `{Num F} {St C} (tol : F) (crit : St -> res (C * Ext F)) (body : St -> C -> Ext F -> res St)
         (objective : St -> res (Ext F)) max_iter s0 out,
  grun tol crit body objective max_iter s0 = Ok out ->
  exists states, gtrace tol crit body s0 states (g_s out) /\ length states = g_iters out /\
                 Forall2 (fun st o => objective st = Ok o) states (g_obj out).
Proof. intros F H St C. exact (@grun_history_entries F H St C). Qed.
Print Assumptions generic_history_entries_are_objectives_of_iterates.

(* GramCD: the appended value is 0.5 w'Qw - q'w + ||y||^2/(2n) + penalty(w) of the current w (skeleton tied by
   end-to-end correspondence with the real _solve) *)
Theorem gramcd_history :
  forall {F} `{Num F} {A} (cfg : @gconfig F) (K : @gkernels F A) (D : @gdata F) w_init out,
  gsolve cfg K D w_init = Ok out ->
  length (g_obj out) = g_iters out /\ (g_iters out <= gc_max_iter cfg)%nat /\
  (g_obj out = nil \/ gobjective K D (g_s out) = Ok (last (g_obj out) PInf)).
Proof.
  intros F H A cfg K D w_init out Hrun. unfold gsolve in Hrun. apply bind_ok in Hrun as (s0 & _ & Hrun).
  exact (grun_history _ _ _ _ _ _ _ Hrun).
Qed.
Print Assumptions gramcd_history.

Require Import SK.Skel.AndersonCD SK.Skel.GroupBCD SK.Skel.GroupBCDProofs.
Theorem groupbcd_history :
  forall {F} `{Num F} {A} (cfg : @config F) (K : @kernels F A) (ng : nat) w_init Xw_init out,
  bsolve cfg K ng w_init Xw_init = Ok out ->
  length (g_obj out) = g_iters out /\ (g_iters out <= max_iter cfg)%nat /\
  (g_obj out = nil \/ bobjective cfg K (g_s out) = Ok (last (g_obj out) PInf)).
Proof. intros F H A. exact (@bsolve_history F H A). Qed.
Print Assumptions groupbcd_history.

Require Import SK.Skel.ProxNewton SK.Skel.ProxNewtonProofs.
Theorem proxnewton_history :
  forall {F} `{Num F} (cfg : @pn_config F) (K : @pn_kernels F) w_init Xw_init out,
  pn_solve cfg K w_init Xw_init = Ok out ->
  length (g_obj out) = g_iters out /\ (g_iters out <= pn_max_iter cfg)%nat /\
  (g_obj out = nil \/ pn_objective cfg K (g_s out) = Ok (last (g_obj out) PInf)).
Proof. intros F H. exact (@pn_solve_history F H). Qed.
Print Assumptions proxnewton_history.

(* FISTA (skeleton tied end to end): one entry per iteration, at least one iteration when anything is returned, the last
   entry is the objective of the returned w; the returned stop_crit is the score of the returned w against the gradient
   kept in the state, i.e. taken at the PREVIOUS extrapolated point (this is the known finding of this property,
   stated as what the code does) *)
Require Import SK.Skel.Fista SK.Skel.FistaProofs.
Theorem fista_history_and_stop_value :
  forall {F} `{Num F} (K : @fkernels F) (L : F) max_iter tol p w_init s obj stop n,
  fsolve K L max_iter tol p w_init = Ok (s, obj, stop, n) ->
  length obj = n /\ (n <= max_iter)%nat /\ (0 < n)%nat /\
  fobjective K s = Ok (last obj PInf) /\ fcrit K s = Ok stop.
Proof. intros F H. exact (@fsolve_history F H). Qed.
Print Assumptions fista_history_and_stop_value.

Require Import SK.Skel.MultiTaskBCD SK.Skel.MultiTaskBCDProofs.
Theorem multitaskbcd_history :
  forall {F} `{Num F} (cfg : @mt_config F) (K : @mt_kernels F) W_init XW_init out,
  mt_solve cfg K W_init XW_init = Ok out ->
  length (g_obj out) = g_iters out /\ (g_iters out <= mt_max_iter cfg)%nat /\
  (g_obj out = nil \/ mt_objective cfg K (g_s out) = Ok (last (g_obj out) PInf)).
Proof. intros F H. exact (@mt_solve_history F H). Qed.
Print Assumptions multitaskbcd_history.

Require Import SK.Skel.GroupProxNewton.
Theorem groupproxnewton_history :
  forall {F} `{Num F} (cfg : @pn_config F) (K : @pn_kernels F) w_init Xw_init out,
  gpn_solve cfg K w_init Xw_init = Ok out ->
  length (g_obj out) = g_iters out /\ (g_iters out <= pn_max_iter cfg)%nat /\
  (g_obj out = nil \/ gpn_objective cfg K (g_s out) = Ok (last (g_obj out) PInf)).
Proof. intros F H. exact (@gpn_solve_history F H). Qed.
Print Assumptions groupproxnewton_history.
