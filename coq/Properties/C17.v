(* C17 -- reported diagnostics describe the run that happened (AndersonCD skeleton: every kernel record,
   every budget, every start).  Tie: mock-kernel correspondence with the real _solve (history entries,
   stop_crit and iteration counts are compared value by value). *)
From Coq Require Import ZArith List.
Require Import SK.Base.Res SK.Base.Num SK.Skel.AndersonCD SK.Skel.AndersonCDProofs.

Theorem history_one_entry_per_iteration :
  forall {F} `{Num F} {A} (cfg : @config F) (K : @kernels F A) w_init Xw_init out,
  solve cfg K w_init Xw_init = Ok out ->
  length (o_obj out) = o_iters out /\ (o_iters out <= max_iter cfg)%nat /\
  (o_obj out = nil \/ objective cfg K (o_w out) (o_Xw out) = Ok (last (o_obj out) PInf)).
Proof. intros F H A. exact (@solve_history F H A). Qed.
Print Assumptions history_one_entry_per_iteration.

Theorem tol_stop_value_is_score_of_returned_point :
  forall {F} `{Num F} {A} (cfg : @config F) (K : @kernels F A) w_init Xw_init out,
  solve cfg K w_init Xw_init = Ok out -> ele (o_stop out) (tol cfg) = true ->
  exists lip opt, k_lipschitz K = Ok lip /\ stop_criterion cfg K (o_w out) (o_Xw out) lip = Ok (opt, o_stop out).
Proof. intros F H A. exact (@solve_stop_is_criterion F H A). Qed.
Print Assumptions tol_stop_value_is_score_of_returned_point.
