(* C10 for ProxNewton: the REGENERATED sparse backtracking line search (no intercept) equals the dense one on the dense columns
   the CSC arrays denote -- any penalty value, any raw gradient. *)
From Coq Require Import Reals Lra Lia ZArith List Bool.
Require Import SK.Base.Res SK.Base.Num SK.Base.RInst SK.Lemmas.VecFacts SK.Lemmas.Loops SK.Lemmas.Csc SK.Lemmas.Consistency
               SK.Lemmas.BcdBase SK.Lemmas.PnSparse.
Require Import SK.Gen.KernPN.
Import ListNotations.
Local Open Scope R_scope.

Section LS.
Variable pen_value : list R -> res R.
Variable raw_grad : list R -> list R -> res (list R).
Variables (n : nat) (M : csc) (X : list (list R)) (y : list R).
Hypothesis Hcols : forall j, (0 <= j < Z.of_nat (length X))%Z ->
  exists lo hi, col_bounds M j lo hi /\ wf_col n M lo hi /\ mcol X j = Ok (dense_col n M lo hi).
Hypothesis Hraw : forall Xw g, length Xw = n -> raw_grad y Xw = Ok g -> length g = n.
Hypothesis Hptr : (zlen (cindptr M) - 1)%Z = zlen X.

Theorem line_search_sparse_eq_dense w Xw delta Xdelta ws :
  Forall (fun j => (0 <= j < Z.of_nat (length X))%Z) ws -> length Xw = n -> length Xdelta = n ->
  @_backtrack_line_search_s__fit_intercept_False R _ pen_value raw_grad (cdata M) (cindptr M) (cindices M) y w Xw delta Xdelta ws
  = @_backtrack_line_search__fit_intercept_False R _ pen_value raw_grad X y w Xw delta Xdelta ws.
Proof.
  intros Hws HXw HXd.
  unfold _backtrack_line_search_s__fit_intercept_False, _backtrack_line_search__fit_intercept_False. cbv zeta. rewrite Hptr.
  destruct (slice w 0 (zlen X)) as [t1|]; cbn [bind]; [|reflexivity].
  destruct (pen_value t1) as [op|]; cbn [bind]; [|reflexivity].
  match goal with |- bind ?a _ = bind ?b _ => assert (E : a = b); [|rewrite E; reflexivity] end.
  apply (for_each_ext_inv (fun s : list R * list R * list R * R * R * bool => let '(_, Xa, _, _, _, _) := s in length Xa = n)); [exact HXw| |].
  - intros k [[[[[wa Xa] ga] pa] sa] ba] _ HXa. destruct ba; [reflexivity|].
    destruct (gather wa ws) as [t3|]; cbn [bind]; [|reflexivity].
    destruct (scatter wa ws _) as [w1|]; cbn [bind]; [|reflexivity].
    destruct (slice w1 0 (zlen X)) as [t4|]; cbn [bind]; [|reflexivity].
    rewrite (pn_construct_grad_sparse_eq_dense raw_grad n M X y Hcols Hraw ws t4 _ Hws); [reflexivity|].
    cbn [fadd fmul fsub RNum]. unfold vmap. rewrite vmap2_length; rewrite ?map_length; lia.
  - intros k [[[[[wa Xa] ga] pa] sa] ba] [[[[[wb Xb] gb] pb] sb] bb] _ HXa Hrun.
    destruct ba; [unfold ret in Hrun; injection Hrun as _ E2 _ _ _ _; rewrite <- E2; exact HXa|].
    assert (Hl : length (vmap2 fadd Xa (vmap (fun e__ : R => fmul (fsub sa pa) e__) Xdelta)) = n).
    { cbn [fadd fmul fsub RNum]. unfold vmap. rewrite vmap2_length; rewrite ?map_length; lia. }
    destruct (gather wa ws) as [t3|]; cbn [bind] in Hrun; [|discriminate].
    destruct (scatter wa ws _) as [w1|]; cbn [bind] in Hrun; [|discriminate].
    destruct (slice w1 0 (zlen X)) as [t4|]; cbn [bind] in Hrun; [|discriminate].
    destruct (pn_construct_grad raw_grad X y t4 _ ws) as [t5|]; cbn [bind] in Hrun; [|discriminate].
    destruct (pen_value t4) as [t7|]; cbn [bind] in Hrun; [|discriminate].
    destruct (slice delta 0 (zlen ws)) as [t8|]; cbn [bind] in Hrun; [|discriminate].
    destruct (fltb _ _).
    + unfold ret in Hrun. injection Hrun as _ E2 _ _ _ _. rewrite <- E2. exact Hl.
    + destruct (fdiv sa (fofZ 2)) as [t9|]; cbn [bind] in Hrun; [|discriminate]. unfold ret in Hrun.
      injection Hrun as _ E2 _ _ _ _. rewrite <- E2. exact Hl.
Qed.
End LS.
