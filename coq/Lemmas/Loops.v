(* Generic facts about the loop combinators the generated code uses. *)
From Coq Require Import ZArith List Bool Lia.
Require Import SK.Base.Res.
Import ListNotations.

Lemma set_idx_mid {A} (pre post : list A) p0 v :
  set_idx (pre ++ p0 :: post) (Z.of_nat (length pre)) v = Ok ((pre ++ [v]) ++ post).
Proof.
  unfold set_idx. rewrite norm_idx_in_range by (rewrite app_length; cbn [length]; lia).
  rewrite Nat2Z.id. f_equal. induction pre; simpl; [reflexivity|f_equal; auto].
Qed.

Lemma get_idx_mid {A} (pre post : list A) p0 :
  get_idx (pre ++ p0 :: post) (Z.of_nat (length pre)) = Ok p0.
Proof.
  apply get_idx_nat. rewrite nth_error_app2 by lia. rewrite Nat.sub_diag. reflexivity.
Qed.

(* ---- "fill" loops:  for idx, j in enumerate(ws): out[idx] = f(a[j], b[idx]) ---- *)
Fixpoint map2 {A B C} (f : A -> B -> C) (l1 : list A) (l2 : list B) : list C :=
  match l1, l2 with
  | x :: t1, y :: t2 => f x y :: map2 f t1 t2
  | _, _ => []
  end.

Lemma map2_length {A B C} (f : A -> B -> C) l1 l2 : length l1 = length l2 -> length (map2 f l1 l2) = length l1.
Proof. revert l2; induction l1; destruct l2; simpl; intros; try lia. f_equal. apply IHl1. lia. Qed.

Section Fill.
Context {A B C : Type}.
Variables (a : list A) (f : Z -> A -> B -> C).
Variable body : Z -> Z -> list C -> res (list C).

(* valid index lists *)
Definition valid_ws (n : nat) (ws : list Z) : Prop := Forall (fun j => (0 <= j < Z.of_nat n)%Z) ws.

Lemma gather_valid (ws : list Z) : valid_ws (length a) ws -> exists vals, gather a ws = Ok vals /\ length vals = length ws.
Proof.
  induction ws as [|j ws IH]; intros Hv; [exists []; auto|].
  inversion Hv as [|? ? Hj Hrest]; subst.
  destruct (get_idx_in_range a j Hj) as (aj & Hg & _).
  destruct (IH Hrest) as (vals & Hvals & Hlen).
  exists (aj :: vals). cbn [gather]. rewrite Hg. cbn [bind]. rewrite Hvals. cbn. split; [reflexivity|lia].
Qed.

Definition fill_vals (ws : list Z) (avals : list A) (b : list B) : list C :=
  map2 (fun ja bi => f (fst ja) (snd ja) bi) (combine ws avals) b.

Lemma for_enum_fill (b : list B) :
  (forall idx j acc aj bi, (0 <= j < Z.of_nat (length a))%Z -> get_idx a j = Ok aj -> get_idx b idx = Ok bi ->
     body idx j acc = set_idx acc idx (f j aj bi)) ->
  forall ws avals (bpre bpost : list B) (pre post : list C),
    valid_ws (length a) ws ->
    b = bpre ++ bpost -> length bpre = length pre ->
    gather a ws = Ok avals -> length bpost = length ws -> length post = length ws ->
    for_enum_from (Z.of_nat (length pre)) ws body (pre ++ post) = Ok (pre ++ fill_vals ws avals bpost).
Proof.
  intros Hb ws. induction ws as [|j ws IH]; intros avals bpre bpost pre post Hv Hbe Hlp Hga Hlb Hlpost.
  - destruct post; [|discriminate]. destruct bpost; [|discriminate]. cbn in Hga. inversion Hga. reflexivity.
  - destruct post as [|c0 post]; [discriminate|]. destruct bpost as [|b0 bpost]; [discriminate|].
    inversion Hv as [|? ? Hj Hrest]; subst.
    cbn [gather] in Hga. destruct (get_idx a j) as [aj|] eqn:Haj; [|discriminate]. cbn [bind] in Hga.
    destruct (gather a ws) as [avals'|] eqn:Hga'; [|discriminate]. cbn in Hga. inversion Hga; subst avals.
    cbn [for_enum_from].
    assert (Hgb : get_idx (bpre ++ b0 :: bpost) (Z.of_nat (length pre)) = Ok b0).
    { rewrite <- Hlp. apply get_idx_mid. }
    rewrite (Hb _ _ _ _ _ Hj Haj Hgb). rewrite set_idx_mid. cbn [bind].
    replace (Z.of_nat (length pre) + 1)%Z with (Z.of_nat (length (pre ++ [f j aj b0]))) by (rewrite app_length; simpl; lia).
    rewrite (IH avals' (bpre ++ [b0]) bpost (pre ++ [f j aj b0]) post).
    + rewrite <- app_assoc. reflexivity.
    + exact Hrest.
    + rewrite <- app_assoc. reflexivity.
    + rewrite !app_length; simpl; lia.
    + reflexivity.
    + simpl in Hlb; lia.
    + simpl in Hlpost; lia.
Qed.

Lemma for_enum_fill0 (b : list B) (init : list C) ws avals :
  (forall idx j acc aj bi, (0 <= j < Z.of_nat (length a))%Z -> get_idx a j = Ok aj -> get_idx b idx = Ok bi ->
     body idx j acc = set_idx acc idx (f j aj bi)) ->
  valid_ws (length a) ws ->
  gather a ws = Ok avals -> length b = length ws -> length init = length ws ->
  for_enum ws body init = Ok (fill_vals ws avals b).
Proof.
  intros Hb Hv Hga Hlb Hli. unfold for_enum.
  apply (for_enum_fill b Hb ws avals [] b [] init); auto.
Qed.
End Fill.

(* ---- invariants through for_each ---- *)
Lemma for_each_inv {S} (Inv : S -> Prop) (body : Z -> S -> res S) ws s0 s' :
  Inv s0 -> (forall j s s1, In j ws -> Inv s -> body j s = Ok s1 -> Inv s1) ->
  for_each ws body s0 = Ok s' -> Inv s'.
Proof.
  revert s0. induction ws as [|j ws IH]; intros s0 H0 Hstep Hrun; simpl in Hrun.
  - inversion Hrun; subst; assumption.
  - apply bind_ok in Hrun as (s1 & Hb & Hrest).
    apply (IH s1); [eapply Hstep; eauto; left; reflexivity| |assumption].
    intros; eapply Hstep; eauto. right; assumption.
Qed.

(* totality: if every step from an invariant state succeeds and preserves it, the loop succeeds *)
Lemma for_each_total {S} (Inv : S -> Prop) (body : Z -> S -> res S) ws s0 :
  Inv s0 -> (forall j s, In j ws -> Inv s -> exists s1, body j s = Ok s1 /\ Inv s1) ->
  exists s', for_each ws body s0 = Ok s' /\ Inv s'.
Proof.
  revert s0. induction ws as [|j ws IH]; intros s0 H0 Hstep; simpl.
  - eauto.
  - destruct (Hstep j s0 (or_introl eq_refl) H0) as (s1 & Hb & H1). rewrite Hb. cbn [bind].
    apply IH; [assumption|]. intros; apply Hstep; [right|]; assumption.
Qed.

Ltac inv_binds :=
  repeat match goal with
  | H : bind ?x ?f = Ok _ |- _ => let a := fresh "v" in let Ha := fresh "Hv" in
      apply bind_ok in H as (a & Ha & H)
  | H : ret _ = Ok _ |- _ => unfold ret in H
  | H : Ok _ = Ok _ |- _ => inversion H; subst; clear H
  end.

Lemma for_each_inv' {S} (Inv : S -> Prop) (body : Z -> S -> res S) ws s0 s' :
  for_each ws body s0 = Ok s' ->
  Inv s0 -> (forall j s s1, In j ws -> Inv s -> body j s = Ok s1 -> Inv s1) -> Inv s'.
Proof. intros; eapply for_each_inv; eauto. Qed.

(* ---- "range fill" loops:  for j in range(n): out[j] = g(j) ---- *)
Lemma for_range_fill_from {C} (g : Z -> res C) (f : Z -> C) (body : Z -> list C -> res (list C)) :
  (forall j acc, body j acc = bind (g j) (fun v => set_idx acc j v)) ->
  forall m (pre post : list C),
    length post = m ->
    (forall i, (i < m)%nat -> g (Z.of_nat (length pre + i)) = Ok (f (Z.of_nat (length pre + i)))) ->
    for_each (zrange_from (Z.of_nat (length pre)) m) body (pre ++ post)
    = Ok (pre ++ map f (zrange_from (Z.of_nat (length pre)) m)).
Proof.
  intros Hb m. induction m as [|m IH]; intros pre post Hl Hg.
  - destruct post; [|discriminate]. reflexivity.
  - destruct post as [|c0 post]; [discriminate|]. cbn [zrange_from for_each map].
    rewrite Hb. specialize (Hg O ltac:(lia)) as Hg0. rewrite Nat.add_0_r in Hg0. rewrite Hg0. cbn [bind].
    rewrite set_idx_mid. cbn [bind].
    replace (Z.of_nat (length pre) + 1)%Z with (Z.of_nat (length (pre ++ [f (Z.of_nat (length pre))]))) by (rewrite app_length; simpl; lia).
    rewrite (IH (pre ++ [f (Z.of_nat (length pre))]) post).
    + rewrite <- app_assoc. reflexivity.
    + simpl in Hl; lia.
    + intros i Hi. rewrite app_length. simpl. replace (length pre + 1 + i)%nat with (length pre + S i)%nat by lia. apply Hg. lia.
Qed.

Lemma for_range_fill {C} (g : Z -> res C) (f : Z -> C) (body : Z -> list C -> res (list C)) (n : Z) (init : list C) :
  (forall j acc, body j acc = bind (g j) (fun v => set_idx acc j v)) ->
  length init = Z.to_nat n ->
  (forall j, (0 <= j < n)%Z -> g j = Ok (f j)) ->
  for_each (zrange 0 n) body init = Ok (map f (zrange 0 n)).
Proof.
  intros Hb Hl Hg. unfold zrange. rewrite Z.sub_0_r.
  apply (for_range_fill_from g f body Hb (Z.to_nat n) [] init Hl).
  intros i Hi. simpl. apply Hg. lia.
Qed.

Lemma for_each_ext_inv {S} (Inv : S -> Prop) (b1 b2 : Z -> S -> res S) ws s0 :
  Inv s0 -> (forall j s, In j ws -> Inv s -> b1 j s = b2 j s) ->
  (forall j s s', In j ws -> Inv s -> b2 j s = Ok s' -> Inv s') ->
  for_each ws b1 s0 = for_each ws b2 s0.
Proof.
  revert s0. induction ws as [|j ws IH]; intros s0 H0 He Hp; simpl; [reflexivity|].
  rewrite (He j s0 (or_introl eq_refl) H0). destruct (b2 j s0) as [s1|e] eqn:E; cbn [bind]; [|reflexivity].
  apply IH; [eapply Hp; eauto; left; reflexivity| |]; intros; [apply He|eapply Hp]; eauto; right; assumption.
Qed.
