(* C18: effect abstraction over the call graph extracted from /repo's AST (coq/Gen/Writes.v): for every function
   the set of its parameters it may store into (subscript / slice / augmented / attribute stores, through local
   aliases and views, closed under calls resolved by name). *)
From Coq Require Import String Ascii List Bool.
Require Import SK.Gen.Writes.
Import ListNotations.
Open Scope string_scope.

Definition mem (s : string) (l : list string) : bool := existsb (String.eqb s) l.

(* root of "name.attr" *)
Fixpoint root (s : string) : string :=
  match s with
  | EmptyString => EmptyString
  | String c r => if Ascii.eqb c "."%char then EmptyString else String c (root r)
  end.

(* user data and user-supplied hyper-parameter arrays *)
Definition protected : list string :=
  ["X"; "y"; "Y"; "weights"; "groups"; "grp_ptr"; "grp_indices"; "sample_weights"; "alphas"; "X_data"; "X_indptr"; "X_indices";
   "data"; "indptr"; "indices"; "weights_groups"; "weights_features"; "yXT"; "yXT_data"; "yXT_indptr"; "yXT_indices"].

Definition writes_protected (f : fn) : list string := filter (fun w => mem (root w) protected) (f_writes f).

(* attribute stores on a datafit / penalty PARAMETER (i.e. on an object owned by the caller) *)
Definition object_attr_writes (f : fn) : list string :=
  filter (fun w => (String.eqb (root w) "penalty" || String.eqb (root w) "datafit") && negb (String.eqb (root w) w)) (f_writes f).
