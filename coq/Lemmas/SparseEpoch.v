(* C10: the regenerated sparse CD epoch computes, step for step, what the dense epoch computes on the dense
   columns the CSC matrix denotes -- so whole trajectories coincide in exact arithmetic. *)
From Coq Require Import Reals Lra Lia ZArith List Bool.
Require Import SK.Base.Res SK.Base.Num SK.Base.RInst SK.Lemmas.VecFacts SK.Lemmas.Loops SK.Lemmas.Csc SK.Lemmas.Consistency.
Require Import SK.Gen.KernACD.
Import ListNotations.
Local Open Scope R_scope.

(* scatter-add of a CSC column: Xw[rows[i]] += diff * data[i]  ==  Xw + diff * dense_col *)
Lemma add_at_comm_nth c r d i : nth i (add_at c r d) 0 = nth i c 0 + (if Nat.eqb i r then (if Nat.ltb r (length c) then d else 0) else 0).
Proof.
  revert r i; induction c as [|x c IH]; intros r i.
  - simpl. destruct i, r; simpl; try lra; destruct (Nat.eqb i r); lra.
  - destruct r, i; simpl; try lra.
    + rewrite IH. destruct (Nat.eqb i r); [|lra]. change (S r <? S (length c))%nat with (r <? length c)%nat. lra.
Qed.

Definition upd_add (Xw : list R) (r : Z) (v : R) : res (list R) :=
  bind (get_idx Xw r) (fun t => set_idx Xw r (t + v)).

Lemma upd_add_spec Xw r v : (0 <= r < Z.of_nat (length Xw))%Z -> upd_add Xw r v = Ok (add_at Xw (Z.to_nat r) v).
Proof.
  intros Hr. unfold upd_add. rewrite (get_idx_nthZ Xw r 0 Hr). cbn [bind]. unfold set_idx. rewrite norm_idx_in_range by exact Hr.
  f_equal. assert (Hk : (Z.to_nat r < length Xw)%nat) by lia. revert Hk. generalize (Z.to_nat r) as k. clear.
  intros k. revert k. induction Xw as [|x Xw IH]; intros k Hk; [simpl in Hk; lia|]. destruct k; simpl; [reflexivity|].
  f_equal. apply IH. simpl in Hk; lia.
Qed.

Lemma add_at_vmap2 (Xw c : list R) r d k : length c = length Xw -> (r < length Xw)%nat ->
  add_at (vmap2 Rplus Xw (map (fun e => k * e) c)) r (k * d) = vmap2 Rplus Xw (map (fun e => k * e) (add_at c r d)).
Proof.
  revert c r; induction Xw as [|x Xw IH]; intros c r Hl Hr; [simpl in Hr; lia|].
  destruct c as [|c0 c]; [discriminate|]. destruct r; simpl.
  - f_equal. lra.
  - f_equal. apply IH; simpl in *; lia.
Qed.

Lemma vmap2_plus_zero (Xw : list R) k : vmap2 Rplus Xw (map (fun e => k * e) (repeat 0 (length Xw))) = Xw.
Proof. induction Xw; simpl; [reflexivity|]. f_equal; [lra|assumption]. Qed.

(* the inner loop of _cd_epoch_sparse *)
Lemma sparse_axpy_loop n M lo hi (Xw : list R) (diff : R) :
  wf_col n M lo hi -> length Xw = n ->
  for_each (zrange lo hi) (fun i Xw =>
    bind (get_idx (cindices M) i) (fun t11 => bind (get_idx Xw t11) (fun t12 => bind (get_idx (cdata M) i) (fun t13 =>
      bind (set_idx Xw t11 (fadd t12 (fmul diff t13))) (fun Xw => ret Xw))))) Xw
  = Ok (vmap2 Rplus Xw (map (fun e => diff * e) (dense_col n M lo hi))).
Proof.
  intros Hwf Hn. unfold dense_col.
  assert (Hin : forall i, In i (zrange lo hi) -> (lo <= i < hi)%Z) by (intros; apply in_zrange; assumption).
  (* generalise over the processed suffix: fold_right order vs loop order -- additions commute, so work with the
     multiset through a stronger invariant on an accumulator column *)
  assert (Hgen : forall l acc, (forall i, In i l -> (lo <= i < hi)%Z) -> length acc = n ->
    for_each l (fun i Xw =>
      bind (get_idx (cindices M) i) (fun t11 => bind (get_idx Xw t11) (fun t12 => bind (get_idx (cdata M) i) (fun t13 =>
        bind (set_idx Xw t11 (fadd t12 (fmul diff t13))) (fun Xw => ret Xw)))))
      (vmap2 Rplus Xw (map (fun e => diff * e) acc))
    = Ok (vmap2 Rplus Xw (map (fun e => diff * e) (fold_left (fun c i => add_at c (Z.to_nat (row M i)) (dat M i)) l acc)))).
  { induction l as [|i l IH]; intros acc Hl Hacc; [reflexivity|]. cbn [for_each fold_left].
    destruct (wf_col_reads _ _ _ _ _ Hwf (Hl i (or_introl eq_refl))) as (H1 & H2 & H3).
    rewrite H2. cbn [bind].
    assert (Hlen : length (vmap2 Rplus Xw (map (fun e => diff * e) acc)) = n) by (rewrite vmap2_length; rewrite ?map_length; lia).
    pose proof (upd_add_spec (vmap2 Rplus Xw (map (fun e => diff * e) acc)) (row M i) (diff * dat M i) ltac:(lia)) as Hu.
    unfold upd_add in Hu. rewrite (get_idx_nthZ _ (row M i) 0) by lia. cbn [bind]. rewrite H1. cbn [bind fadd fmul RNum].
    rewrite (get_idx_nthZ _ (row M i) 0) in Hu by lia. cbn [bind] in Hu. rewrite Hu. cbn [bind]. unfold ret.
    rewrite add_at_vmap2 by lia. apply IH; [intros; apply Hl; right; assumption|rewrite add_at_length; assumption]. }
  specialize (Hgen (zrange lo hi) (repeat 0 n) Hin (repeat_length 0 n)).
  rewrite <- Hn in Hgen at 1. rewrite vmap2_plus_zero in Hgen. rewrite Hgen. do 3 f_equal.
  (* fold_left vs fold_right: add_at commutes *)
  assert (Hcomm : forall l acc, fold_left (fun c i => add_at c (Z.to_nat (row M i)) (dat M i)) l acc
                               = fold_right (fun i c => add_at c (Z.to_nat (row M i)) (dat M i)) acc (rev l)).
  { intros l acc. rewrite <- fold_left_rev_right. reflexivity. }
  rewrite Hcomm.
  (* order independence of repeated add_at: compare pointwise *)
  assert (Hnth : forall l acc i, nth i (fold_right (fun j c => add_at c (Z.to_nat (row M j)) (dat M j)) acc l) 0
                               = nth i acc 0 + rsum (map (fun j => if Nat.eqb i (Z.to_nat (row M j)) then (if Nat.ltb (Z.to_nat (row M j)) (length acc) then dat M j else 0) else 0) l)).
  { induction l as [|j l IH]; intros acc i; simpl; [lra|]. rewrite add_at_comm_nth, IH.
    assert (Hl : length (fold_right (fun j c => add_at c (Z.to_nat (row M j)) (dat M j)) acc l) = length acc).
    { clear. induction l; simpl; [reflexivity|rewrite add_at_length; assumption]. }
    rewrite Hl. lra. }
  assert (Hlen : forall l acc, length (fold_right (fun j c => add_at c (Z.to_nat (row M j)) (dat M j)) acc l) = length acc).
  { clear. induction l; intros; simpl; [reflexivity|rewrite add_at_length; auto]. }
  apply nth_ext with (d := 0) (d' := 0); [rewrite !Hlen; reflexivity|].
  intros i Hi. rewrite !Hnth. f_equal. rewrite map_rev.
  generalize (map (fun j => if Nat.eqb i (Z.to_nat (row M j)) then (if Nat.ltb (Z.to_nat (row M j)) (length (repeat 0 n)) then dat M j else 0) else 0) (zrange lo hi)).
  intros l. induction l; simpl; [reflexivity|]. rewrite rsum_app. simpl. lra.
Qed.

Section Epochs.
Variable prox_1d : R -> R -> Z -> res R.
Variable g_dense : list (list R) -> list R -> list R -> list R -> Z -> res R.
Variable g_sparse : list R -> list Z -> list Z -> list R -> list R -> Z -> res R.
Variables (n : nat) (M : csc) (X : list (list R)) (y lc : list R).
(* the CSC matrix denotes X column by column *)
Hypothesis Hcols : forall j, (0 <= j < Z.of_nat (length X))%Z ->
  exists lo hi, col_bounds M j lo hi /\ wf_col n M lo hi /\ mcol X j = Ok (dense_col n M lo hi).
(* the two gradient accessors agree (C06: e.g. Quadratic_gradient_scalar_sparse_eq_dense) *)
Hypothesis Hgrad : forall w Xw j, (0 <= j < Z.of_nat (length X))%Z -> length Xw = n ->
  g_sparse (cdata M) (cindptr M) (cindices M) y Xw j = g_dense X y w Xw j.

Theorem cd_epoch_sparse_eq_dense ws w Xw :
  Forall (fun j => (0 <= j < Z.of_nat (length X))%Z) ws -> length Xw = n ->
  @_cd_epoch_sparse R _ g_sparse prox_1d (cdata M) (cindptr M) (cindices M) y w Xw lc ws
  = @_cd_epoch R _ prox_1d g_dense X y w Xw lc ws.
Proof.
  intros Hws HlX. unfold _cd_epoch_sparse, _cd_epoch. f_equal.
  apply (for_each_ext_inv (fun s : list R * list R => length (snd s) = n)); [exact HlX| |].
  - intros j [wa Xwa] Hin Hinv. simpl in Hinv. rewrite Forall_forall in Hws. pose proof (Hws j Hin) as Hj.
    destruct (Hcols j Hj) as (lo & hi & [Hlo Hhi] & Hwf & Hcol).
    Ltac same_head := match goal with |- bind ?x _ = bind ?x _ => let v := fresh "v" in destruct x as [v|]; cbn [bind]; [|reflexivity] end.
    same_head. same_head.
    rewrite Hcol. cbn [bind].
    same_head. rewrite (Hgrad wa Xwa j Hj Hinv). same_head. same_head. same_head. same_head.
    rename v1 into old. rename v5 into t8.
    cbn [feqb fsub fofZ RNum]. unfold Reqb.
    destruct (Req_EM_T (t8 - old) 0) as [e|ne]; destruct (Req_EM_T t8 old) as [e2|ne2]; try lra; cbn [negb]; [reflexivity|].
    rewrite Hlo, Hhi. cbn [bind].
    rewrite (sparse_axpy_loop n M lo hi Xwa (t8 - old) Hwf Hinv). cbn [bind]. unfold ret. do 2 f_equal.
  - intros j [wa Xwa] [wb Xwb] Hin Hinv Hb. simpl in *. rewrite Forall_forall in Hws. pose proof (Hws j Hin) as Hj.
    destruct (Hcols j Hj) as (lo & hi & _ & Hwf & Hcol).
    change (cd_body prox_1d g_dense X y lc j (wa, Xwa) = Ok (wb, Xwb)) in Hb.
    destruct (cd_body_spec _ _ _ _ _ _ _ _ _ _ (proj1 Hj) Hb) as (Xj & old & step & g & v & lcj & _ & _ & Hc & _ & _ & _ & _ & _ & Hx).
    rewrite Hcol in Hc. inversion Hc; subst Xj.
    destruct Hx as [->|[_ ->]]; [|assumption]. rewrite vmap2_length; rewrite ?map_length, ?dense_col_length; lia.
Qed.
End Epochs.
