(* C08 / C01, fix-point strategy: the regenerated dist_fix_point_cd returns, position by position,
       | w_j - prox( w_j - step_j * grad_j , step_j ) |      with  step_j = 1 / L_j  (L_j <> 0)  or  1000  (L_j = 0)
   i.e. exactly the distance between w_j and the value the CD epoch (same step rule, Lemmas/Consistency.v: cd_body_spec)
   would write: the score is zero exactly when the epoch update leaves the coefficient unchanged -- zero-curvature
   features included. *)
From Coq Require Import Reals Lra Lia ZArith List Bool.
Require Import SK.Base.Res SK.Base.Num SK.Base.RInst SK.Lemmas.VecFacts SK.Lemmas.Loops SK.Gen.KernCD.
Import ListNotations.
Local Open Scope R_scope.

Definition fp_step (l : R) : R := if Req_EM_T l 0 then 1000 else 1 / l.

Lemma get_idx_combine {A B} (a : list A) (b : list B) i x y : length a = length b ->
  get_idx (combine a b) i = Ok (x, y) -> get_idx a i = Ok x /\ get_idx b i = Ok y.
Proof.
  intros Hl Hg. unfold get_idx in *. rewrite combine_length, <- Hl, Nat.min_id in Hg.
  rewrite <- Hl. destruct (norm_idx (length a) i) as [k|]; [|discriminate].
  destruct (nth_error (combine a b) k) as [[x' y']|] eqn:Hn; [|discriminate]. inversion Hg; subst x' y'. clear Hg.
  revert b k Hl Hn. induction a as [|a0 a IH]; intros [|b0 b] k Hl Hn; simpl in Hl; try discriminate; destruct k; simpl in *; try discriminate.
  - inversion Hn; subst. auto.
  - apply IH; [lia|exact Hn].
Qed.

Section FP.
Variable P : R -> R -> Z -> R.                      (* a total prox *)
Let prox := fun x s j => Ok (P x s j).

Definition fp_val (j : Z) (wj : R) (lg : R * R) : R :=
  let s := fp_step (fst lg) in Rabs (wj - P (wj - s * snd lg) s j).

Theorem dist_fix_point_cd_spec (w grad lip : list R) (ws : list Z) wvals :
  valid_ws (length w) ws -> gather w ws = Ok wvals -> length grad = length ws -> length lip = length ws ->
  @dist_fix_point_cd R _ prox w grad lip ws = Ok (fill_vals fp_val ws wvals (combine lip grad)).
Proof.
  intros Hv Hga Hlg Hll. unfold dist_fix_point_cd. unfold ret. rewrite bind_ret_r.
  apply (for_enum_fill0 w fp_val _ (combine lip grad)); auto.
  - intros idx j acc wj [l g] Hj Hw Hb.
    destruct (get_idx_combine lip grad idx l g ltac:(lia) Hb) as [Hl' Hg']. rewrite Hl'. cbn [bind].
    unfold fp_val, fp_step. cbn [fst snd feqb fofZ fdiv RNum]. unfold Reqb.
    destruct (Req_EM_T l 0) as [e|e]; cbn [negb bind].
    + rewrite Hw, Hg'. cbn [bind]. unfold prox. cbn [bind fabs fsub fmul RNum]. rewrite bind_ret_r. reflexivity.
    + cbn [bind]. destruct (Req_EM_T l 0); [contradiction|]. cbn [bind].
      rewrite Hw, Hg'. cbn [bind]. unfold prox. cbn [bind fabs fsub fmul RNum]. rewrite bind_ret_r. reflexivity.
  - rewrite combine_length. lia.
  - unfold vzeros, zlen. rewrite repeat_length, Nat2Z.id. reflexivity.
Qed.

(* zero exactly at fixed points of the epoch update *)
Corollary fp_val_zero_iff j wj l g : fp_val j wj (l, g) = 0 <-> P (wj - fp_step l * g) (fp_step l) j = wj.
Proof.
  unfold fp_val. cbn [fst snd]. split; intros H0.
  - apply Rminus_diag_uniq_sym. destruct (Req_dec (wj - P (wj - fp_step l * g) (fp_step l) j) 0) as [e|e]; [lra|].
    exfalso. apply Rabs_no_R0 in e. contradiction.
  - rewrite H0. rewrite Rminus_diag_eq by reflexivity. apply Rabs_R0.
Qed.
End FP.
