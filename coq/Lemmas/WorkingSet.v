(* The working-set size formula of AndersonCD._solve (after the fix of the `2 * gsupp - n_unpen` count):
   ws_size = max(min(p0 + n_unpen, p), min(2 * #(support and penalised) + n_unpen, p))
   is at least the number of features whose score is forced to +inf (unpenalised features and the generalized support),
   so that a top-k selection contains all of them: no coefficient outside the working set is non-zero, which is what makes
   w_acc (zero outside the working set) consistent with the extrapolated model fit. *)
From Coq Require Import ZArith List Bool Lia.
Require Import SK.Base.Res SK.Base.Num SK.Skel.AndersonCD.
Import ListNotations.

Lemma count_true_cons b l : count_true (b :: l) = ((if b then 1 else 0) + count_true l)%Z.
Proof. unfold count_true. destruct b; cbn [filter length]; lia. Qed.
Lemma count_true_nonneg l : (0 <= count_true l)%Z.
Proof. unfold count_true. lia. Qed.
Lemma count_true_le_length l : (count_true l <= Z.of_nat (length l))%Z.
Proof. induction l as [|b l IH]; [unfold count_true; simpl; lia|]. rewrite count_true_cons. simpl length. destruct b; lia. Qed.

(* forced = unpenalised or in the generalized support *)
Lemma forced_count (gs pen : list bool) : length gs = length pen ->
  count_true (map2b orb (map negb pen) gs) = (count_true (map negb pen) + count_true (map2b andb gs pen))%Z.
Proof.
  revert pen. induction gs as [|g gs IH]; intros [|q pen] Hl; simpl in Hl; try discriminate.
  - reflexivity.
  - cbn [map map2b]. rewrite !count_true_cons. rewrite IH by lia. destruct g, q; cbn [negb orb andb]; lia.
Qed.

Lemma map2b_length f a b : length a = length b -> length (map2b f a b) = length a.
Proof. revert b. induction a as [|x a IH]; intros [|y b] Hl; simpl in *; try discriminate; auto. Qed.

Theorem ws_size_covers_forced (p0 : Z) (gs pen : list bool) :
  length gs = length pen -> (0 <= p0)%Z ->
  let p := Z.of_nat (length pen) in
  let n_unpen := count_true (map negb pen) in
  let n_gsupp_pen := count_true (map2b andb gs pen) in
  let ws_size := Z.max (Z.min (p0 + n_unpen) p) (Z.min (2 * n_gsupp_pen + n_unpen) p) in
  (count_true (map2b orb (map negb pen) gs) <= ws_size)%Z /\ (ws_size <= p)%Z.
Proof.
  intros Hl Hp0. cbn zeta. rewrite forced_count by exact Hl.
  pose proof (count_true_nonneg (map negb pen)) as H1. pose proof (count_true_nonneg (map2b andb gs pen)) as H2.
  assert (H3 : (count_true (map negb pen) + count_true (map2b andb gs pen) <= Z.of_nat (length pen))%Z).
  { rewrite <- forced_count by exact Hl. pose proof (count_true_le_length (map2b orb (map negb pen) gs)) as H.
    rewrite map2b_length in H by (rewrite map_length; lia). rewrite map_length in H. exact H. }
  lia.
Qed.

(* the OLD formula (2 * #support - n_unpen) does not have this property: 5 non-zero penalised coefficients, 4 unpenalised
   features at zero, p0 = 1 give ws_size = 6 < 9 forced entries *)
Example old_formula_too_small :
  let gs := [true; true; true; true; true; false; false; false; false; false] in
  let pen := [true; true; true; true; true; false; false; false; false; true] in
  let n_unpen := count_true (map negb pen) in
  (Z.max (Z.min (1 + n_unpen) 10) (Z.min (2 * count_true gs - n_unpen) 10) < count_true (map2b orb (map negb pen) gs))%Z.
Proof. vm_compute. reflexivity. Qed.
