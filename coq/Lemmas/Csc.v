(* CSC matrices: well-formedness, the dense column they denote, and the generic accumulation-loop
   lemma behind every *_sparse accessor (C06 / C09 / C10: dense = sparse). *)
From Coq Require Import Reals Lra Lia ZArith List Bool.
Require Import SK.Base.Res SK.Base.Num SK.Base.RInst SK.Lemmas.VecFacts SK.Lemmas.Loops.
Import ListNotations.
Local Open Scope R_scope.

(* ---- generic accumulation over an index list ---- *)
Lemma for_each_accum (idxs : list Z) (body : Z -> R -> res R) (term : Z -> R) acc0 :
  (forall i acc, In i idxs -> body i acc = Ok (acc + term i)) ->
  for_each idxs body acc0 = Ok (acc0 + rsum (map term idxs)).
Proof.
  revert acc0. induction idxs as [|i idxs IH]; intros acc0 Hb; simpl; [f_equal; lra|].
  rewrite Hb by (left; reflexivity). cbn [bind]. rewrite IH by (intros; apply Hb; right; assumption).
  f_equal. lra.
Qed.

Lemma in_zrange_from lo n i : In i (zrange_from lo n) <-> (lo <= i < lo + Z.of_nat n)%Z.
Proof.
  revert lo; induction n as [|n IH]; intros lo; simpl; [lia|].
  rewrite IH. lia.
Qed.
Lemma in_zrange lo hi i : In i (zrange lo hi) <-> (lo <= i < hi)%Z.
Proof. unfold zrange. rewrite in_zrange_from. lia. Qed.

(* ---- CSC ---- *)
Record csc := { cdata : list R; cindptr : list Z; cindices : list Z }.

(* column j occupies positions [indptr[j], indptr[j+1]) *)
Definition col_bounds (M : csc) (j : Z) (lo hi : Z) : Prop :=
  get_idx (cindptr M) j = Ok lo /\ get_idx (cindptr M) (j + 1) = Ok hi.

Definition wf_col (n : nat) (M : csc) (lo hi : Z) : Prop :=
  length (cdata M) = length (cindices M) /\ (0 <= lo <= hi)%Z /\ (hi <= Z.of_nat (length (cdata M)))%Z /\
  forall i, (lo <= i < hi)%Z -> (0 <= nth (Z.to_nat i) (cindices M) 0%Z < Z.of_nat n)%Z.

Definition dat (M : csc) (i : Z) : R := nth (Z.to_nat i) (cdata M) 0.
Definition row (M : csc) (i : Z) : Z := nth (Z.to_nat i) (cindices M) 0%Z.

Lemma get_idx_nthZ {A} (l : list A) i d : (0 <= i < Z.of_nat (length l))%Z -> get_idx l i = Ok (nth (Z.to_nat i) l d).
Proof.
  intros Hi. destruct (get_idx_in_range l i Hi) as (a & Hg & Hn). rewrite Hg. f_equal.
  symmetry. apply nth_error_nth. exact Hn.
Qed.

Lemma wf_col_reads n M lo hi i : wf_col n M lo hi -> (lo <= i < hi)%Z ->
  get_idx (cdata M) i = Ok (dat M i) /\ get_idx (cindices M) i = Ok (row M i) /\ (0 <= row M i < Z.of_nat n)%Z.
Proof.
  intros (Hl & Hlo & Hhi & Hr) Hi. repeat split.
  - apply get_idx_nthZ. lia.
  - apply get_idx_nthZ. lia.
  - apply Hr; lia.
  - apply Hr; lia.
Qed.

(* the dense column denoted by positions [lo, hi): duplicates add up *)
Fixpoint add_at (c : list R) (r : nat) (d : R) : list R :=
  match c, r with
  | [], _ => []
  | x :: t, O => (x + d) :: t
  | x :: t, S r' => x :: add_at t r' d
  end.
Definition dense_col (n : nat) (M : csc) (lo hi : Z) : list R :=
  fold_right (fun i c => add_at c (Z.to_nat (row M i)) (dat M i)) (repeat 0 n) (zrange lo hi).

Lemma add_at_length c r d : length (add_at c r d) = length c.
Proof. revert r; induction c; destruct r; simpl; auto. Qed.
Lemma dense_col_length n M lo hi : length (dense_col n M lo hi) = n.
Proof.
  unfold dense_col. induction (zrange lo hi); simpl; [apply repeat_length|]. rewrite add_at_length. assumption.
Qed.

Lemma dot_add_at c r d u : (r < length c)%nat -> length c = length u ->
  rsum (vmap2 Rmult (add_at c r d) u) = rsum (vmap2 Rmult c u) + d * nth r u 0.
Proof.
  revert r u; induction c as [|x c IH]; intros r u Hr Hl; [simpl in Hr; lia|].
  destruct u as [|u0 u]; [discriminate|]. destruct r; simpl.
  - lra.
  - rewrite IH by (simpl in *; lia). lra.
Qed.
Lemma dot_zeros n u : rsum (vmap2 Rmult (repeat 0 n) u) = 0.
Proof. revert u; induction n; destruct u; simpl; auto. rewrite IHn. lra. Qed.

(* sum over the stored entries = dense dot product *)
Theorem csc_col_dot n M lo hi (u : list R) : wf_col n M lo hi -> length u = n ->
  rsum (map (fun i => dat M i * nth (Z.to_nat (row M i)) u 0) (zrange lo hi)) = rsum (vmap2 Rmult (dense_col n M lo hi) u).
Proof.
  intros Hwf Hu. unfold dense_col.
  assert (Hin : forall i, In i (zrange lo hi) -> (lo <= i < hi)%Z) by (intros; apply in_zrange; assumption).
  induction (zrange lo hi) as [|i l IH]; simpl; [rewrite dot_zeros; reflexivity|].
  rewrite dot_add_at.
  - rewrite IH by (intros; apply Hin; right; assumption). lra.
  - fold (dense_col n M lo hi). destruct Hwf as (_ & _ & _ & Hr).
    assert (Hl : length (fold_right (fun i c => add_at c (Z.to_nat (row M i)) (dat M i)) (repeat 0 n) l) = n).
    { clear. induction l; simpl; [apply repeat_length|rewrite add_at_length; assumption]. }
    rewrite Hl. specialize (Hr i (Hin i (or_introl eq_refl))). unfold row. lia.
  - assert (Hl : length (fold_right (fun i c => add_at c (Z.to_nat (row M i)) (dat M i)) (repeat 0 n) l) = n).
    { clear. induction l; simpl; [apply repeat_length|rewrite add_at_length; assumption]. }
    rewrite Hl. auto.
Qed.

(* sum of squares of the stored entries vs the dense column: needs distinct rows (canonical CSC) *)
Definition distinct_rows (M : csc) (lo hi : Z) : Prop := NoDup (map (row M) (zrange lo hi)).
