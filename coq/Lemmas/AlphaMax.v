(* C16: the critical regularisation strength computed by the regenerated alpha_max methods is exactly the
   threshold at which the null vector has zero score (and, in the convex case, is optimal). *)
From Coq Require Import Reals Lra Lia ZArith QArith List Bool.
Require Import SK.Base.Res SK.Base.Num SK.Base.RInst SK.Lemmas.VecFacts SK.Lemmas.Loops SK.Lemmas.ProxScalar SK.Lemmas.Subdiff.
Require Import SK.Gen.ProxFuncs SK.Gen.PenSeparable.
Import ListNotations.
Local Open Scope R_scope.

Lemma vmax_from_spec m l : (forall x, In x (m :: l) -> x <= vmax_from m l) /\ In (vmax_from m l) (m :: l).
Proof.
  revert m. induction l as [|a l IH]; intros m; simpl.
  - split; [intros x [->|[]]; lra|left; reflexivity].
  - destruct (IH (fmax m a)) as [H1 H2]. cbn [fmax RNum] in *. split.
    + intros x [->|[->|Hx]].
      * eapply Rle_trans; [apply Rmax_l|apply H1; left; reflexivity].
      * eapply Rle_trans; [apply Rmax_r|apply H1; left; reflexivity].
      * apply H1. right. exact Hx.
    + destruct H2 as [H2|H2]; [|right; right; exact H2].
      unfold Rmax in *. destruct (Rle_dec m a); [right; left|left]; exact H2.
Qed.
Lemma vmax_spec (l : list R) m : vmax l = Ok m -> (forall x, In x l -> x <= m) /\ In m l.
Proof. destruct l as [|a l]; simpl; intros H0; inversion H0. apply vmax_from_spec. Qed.

(* L1 / MCP: alpha_max = max_j |g_j| *)
Theorem L1_alpha_max_spec (g : list R) m : @L1_alpha_max R _ g = Ok m ->
  (forall x, In x g -> Rabs x <= m) /\ exists x, In x g /\ m = Rabs x.
Proof.
  unfold L1_alpha_max. rewrite bind_ret_r. intros H0. apply vmax_spec in H0 as [H1 H2]. cbn [fabs RNum] in *. split.
  - intros x Hx. apply H1. unfold vmap. apply in_map. exact Hx.
  - unfold vmap in H2. apply in_map_iff in H2 as (x & Hx & Hin). eauto.
Qed.

(* at or above alpha_max every coordinate of the null vector has zero score; strictly below, the arg-max
   coordinate has a positive score *)
Theorem L1_null_score_zero alpha (g : list R) m : @L1_alpha_max R _ g = Ok m -> m <= alpha ->
  forall j x, In x g -> score (subdiff_l1 alpha false) j 0 x = Fin 0.
Proof.
  intros Hm Hle j x Hx. destruct (L1_alpha_max_spec g m Hm) as [H1 _]. specialize (H1 x Hx).
  unfold score, subdiff_l1. destruct (Req_EM_T 0 0); [|lra]. cbn [dist_sd]. f_equal.
  unfold Rmax. repeat destruct (Rle_dec _ _); revert H1; rabs; lra.
Qed.
Theorem L1_below_alpha_max_nonzero_score alpha (g : list R) m : @L1_alpha_max R _ g = Ok m -> 0 <= alpha < m ->
  exists x d, In x g /\ score (subdiff_l1 alpha false) 0%Z 0 x = Fin d /\ 0 < d.
Proof.
  intros Hm Hlt. destruct (L1_alpha_max_spec g m Hm) as [_ (x & Hx & ->)].
  exists x, (Rabs x - alpha). split; [exact Hx|]. split; [|lra].
  unfold score, subdiff_l1. destruct (Req_EM_T 0 0); [|lra]. cbn [dist_sd]. f_equal.
  unfold Rmax. repeat destruct (Rle_dec _ _); revert Hlt; rabs; lra.
Qed.

(* elastic net: alpha_max = max |g| / l1_ratio *)
Theorem L1_plus_L2_null_score_zero alpha rho (g : list R) m : 0 < rho ->
  @L1_plus_L2_alpha_max R _ rho g = Ok m -> m <= alpha ->
  forall j x, In x g -> score (subdiff_en alpha rho false) j 0 x = Fin 0.
Proof.
  intros Hr Hm Hle j x Hx. unfold L1_plus_L2_alpha_max in Hm.
  apply bind_ok in Hm as (mx & Hmx & Hm). apply bind_ok in Hm as (q & Hq & Hm). unfold ret in Hm. inversion Hm; subst q. clear Hm.
  apply vmax_spec in Hmx as [H1 _]. cbn [fabs fdiv RNum] in *. destruct (Req_EM_T rho 0); [lra|]. inversion Hq as [Hq']. clear Hq.
  assert (Hax : Rabs x <= mx) by (apply H1; unfold vmap; apply in_map; exact Hx).
  assert (Hmr : mx <= alpha * rho). { apply (Rmult_le_reg_r (/ rho)); [apply Rinv_0_lt_compat; lra|]. rewrite Rmult_assoc, Rinv_r by lra. unfold Rdiv in *. lra. }
  unfold score, subdiff_en. destruct (Req_EM_T 0 0); [|lra]. cbn [dist_sd]. f_equal.
  unfold Rmax. repeat destruct (Rle_dec _ _); revert Hax; rabs; lra.
Qed.
