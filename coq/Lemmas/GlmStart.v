(* C05: the start point _glm_fit hands to the solver is consistent (Xw = X w[:p] + b 1 with b the intercept that is
   actually part of w, 0 when no intercept is fitted), for cold starts and for warm starts from ANY previous fit --
   also when fit_intercept was switched between the two fits. *)
From Coq Require Import Reals Lra Lia ZArith List Bool.
Require Import SK.Base.Res SK.Base.Num SK.Base.RInst SK.Lemmas.VecFacts SK.Lemmas.Consistency SK.Lemmas.MatVec.
Require Import SK.Skel.GlmFit.
Import ListNotations.
Local Open Scope R_scope.

Lemma firstn_app_exact {A} (l : list A) (x : A) : firstn (length (l ++ [x]) - 1) (l ++ [x]) = l.
Proof. rewrite app_length; simpl. replace (length l + 1 - 1)%nat with (length l) by lia. rewrite firstn_app, Nat.sub_diag; simpl. rewrite firstn_all. apply app_nil_r. Qed.

Lemma nth_repeat_lt (c : R) n i : (i < n)%nat -> nth i (repeat c n) 0 = c.
Proof. revert i; induction n; intros i Hi; [lia|]. destruct i; simpl; auto. apply IHn. lia. Qed.
Lemma firstn_repeat0 p k : firstn p (repeat 0 k) = repeat 0 (Nat.min p k).
Proof. revert k; induction p; intros k; simpl; auto. destruct k; simpl; auto. f_equal. apply IHp. Qed.
Lemma last_repeat0 k : last (repeat 0 k) 0 = 0.
Proof. induction k; simpl; auto. destruct k; auto. Qed.

Lemma cold_start (fi : bool) (X : list (list R)) (n : nat) :
  let p := length X in
  let w := @vzeros R _ (Z.of_nat p + (if fi then 1 else 0))%Z in
  length w = (p + (if fi then 1 else 0))%nat /\
  Cons n X (firstn p w) (repeat (if fi then last w 0 else 0) n) (@vzeros R _ (Z.of_nat n)).
Proof.
  cbn zeta. unfold vzeros. change (@f0 R _) with 0. split.
  - rewrite repeat_length. destruct fi; lia.
  - rewrite firstn_repeat0. rewrite Nat2Z.id.
    assert (Hc : (if fi then last (repeat 0 (Z.to_nat (Z.of_nat (length X) + (if fi then 1 else 0))%Z)) 0 else 0) = 0).
    { destruct fi; [apply last_repeat0|reflexivity]. }
    rewrite Hc. apply cons_zero. apply repeat_length.
Qed.

Theorem glm_start_consistent (fi warm : bool) (prev : option (list R * R)) (X : list (list R)) (n : nat) (w Xw : list R) :
  wf_X n X -> match prev with Some (coef, _) => length coef = length X | None => True end ->
  glm_start fi warm prev X n = (w, Xw) ->
  let p := length X in
  length w = (p + (if fi then 1 else 0))%nat /\
  Cons n X (firstn p w) (repeat (if fi then last w 0 else 0) n) Xw.
Proof.
  intros HX Hprev Hs. cbn zeta. unfold glm_start in Hs.
  destruct warm; [destruct prev as [[coef b]|]|].
  - inversion Hs; subst w Xw; clear Hs.
    destruct fi.
    + rewrite firstn_app_exact. rewrite app_length; simpl. split; [lia|].
      rewrite <- Hprev. rewrite firstn_app, Nat.sub_diag, firstn_all; simpl. rewrite app_nil_r.
      rewrite last_last. destruct (mv_spec n X coef HX) as [H1 H2]. split.
      * unfold vmap. rewrite map_length. exact H1.
      * intros i Hi. unfold vmap. rewrite nth_map_R by lia. rewrite H2 by assumption.
        rewrite nth_repeat_lt by assumption. cbn [fadd RNum]. reflexivity.
    + rewrite Nat.sub_0_r, firstn_all. split; [lia|]. rewrite <- Hprev, firstn_all.
      destruct (mv_spec n X coef HX) as [H1 H2]. split.
      * unfold vmap. rewrite map_length. exact H1.
      * intros i Hi. unfold vmap. rewrite nth_map_R by lia. rewrite H2 by assumption.
        rewrite nth_repeat_lt by assumption. cbn [fadd RNum f0 fofZ]. simpl. ring.
  - inversion Hs; subst w Xw; clear Hs. apply cold_start.
  - inversion Hs; subst w Xw; clear Hs. apply cold_start.
Qed.
