(* C07 (and C04 feasibility facts): the generated scalar prox kernels return global minimisers of
   u -> (u - x)^2 / 2 + s * pen(u), for all real x and all admissible parameters. *)
From Coq Require Import Reals Lra Lia ZArith QArith List Bool Psatz.
Require Import SK.Base.Res SK.Base.Num SK.Base.RInst.
Require Import SK.Gen.ProxFuncs SK.Gen.PenSeparable.
Import ListNotations.
Local Open Scope R_scope.

Ltac rsimp := unfold ret in *; cbn [fltb fleb feqb fadd fsub fmul fopp fabs fsign fmax fmin fofZ fofQ fdiv RNum
                                       bind andb orb negb] in *;
              unfold Rltb, Rleb, Reqb in *.

Ltac rabs := unfold Rabs in *; repeat match goal with
  | |- context [Rcase_abs ?a] => destruct (Rcase_abs a)
  | H : context [Rcase_abs ?a] |- _ => destruct (Rcase_abs a) end.

(* the prox objective *)
Definition pobj (pen : R -> R) (s x u : R) : R := (u - x) ^ 2 / 2 + s * pen u.

(* ---------------- ST ---------------- *)
Lemma ST_total x u pos : exists p, @ST R _ x u pos = Ok p.
Proof. unfold ST; rsimp. rcases; destruct pos; cbn; eauto. Qed.

Lemma ST_cases x u pos p : @ST R _ x u pos = Ok p ->
  (u < x /\ p = x - u) \/ (~ u < x /\ x < - u /\ pos = false /\ p = x + u) \/
  (~ u < x /\ (~ x < - u \/ pos = true) /\ p = 0).
Proof.
  unfold ST; rsimp. intros H0.
  destruct (Rlt_dec u x); [left; inversion H0; auto|].
  destruct (Rlt_dec x (- u)); destruct pos; cbn in H0; inversion H0; auto 10.
Qed.

Lemma ST_opt x u p : 0 <= u -> @ST R _ x u false = Ok p ->
  forall v, pobj Rabs u x p <= pobj Rabs u x v.
Proof.
  intros Hu HST v. unfold pobj.
  pose proof (pow2_ge_0 (v - x + u)). pose proof (pow2_ge_0 (v - x - u)). pose proof (pow2_ge_0 (v - x)).
  apply ST_cases in HST as [[? ->]|[(?&?&?&->)|(?&[?|?]&->)]]; try discriminate;
    rabs; nra.
Qed.

Lemma ST_pos_nonneg x u p : 0 <= u -> @ST R _ x u true = Ok p -> 0 <= p.
Proof. intros Hu H0. apply ST_cases in H0 as [[? ->]|[(?&?&?&->)|(?&?&->)]]; try discriminate; lra. Qed.

Lemma ST_pos_opt x u p : 0 <= u -> @ST R _ x u true = Ok p ->
  forall v, 0 <= v -> pobj Rabs u x p <= pobj Rabs u x v.
Proof.
  intros Hu HST v Hv. unfold pobj.
  pose proof (pow2_ge_0 (v - x + u)). pose proof (pow2_ge_0 (v - x)).
  apply ST_cases in HST as [[? ->]|[(?&?&?&->)|(?&?&->)]]; try discriminate;
    rabs; nra.
Qed.

(* ---------------- L1 ---------------- *)
Definition l1pen (alpha : R) (v : R) : R := alpha * Rabs v.

Theorem L1_prox_opt alpha s x j p : 0 <= alpha -> 0 <= s ->
  @L1_prox_1d R _ alpha false x s j = Ok p ->
  forall v, pobj (l1pen alpha) s x p <= pobj (l1pen alpha) s x v.
Proof.
  unfold L1_prox_1d; rsimp. intros Ha Hs H0 v. rewrite bind_ret_r in H0.
  assert (Hu : 0 <= alpha * s) by nra.
  pose proof (ST_opt _ _ _ Hu H0 v) as Hopt. unfold pobj, l1pen in *. lra.
Qed.

Theorem L1_prox_pos_opt alpha s x j p : 0 <= alpha -> 0 <= s ->
  @L1_prox_1d R _ alpha true x s j = Ok p ->
  0 <= p /\ forall v, 0 <= v -> pobj (l1pen alpha) s x p <= pobj (l1pen alpha) s x v.
Proof.
  unfold L1_prox_1d; rsimp. intros Ha Hs H0. rewrite bind_ret_r in H0.
  assert (Hu : 0 <= alpha * s) by nra. split; [eapply ST_pos_nonneg; eauto|].
  intros v Hv. pose proof (ST_pos_opt _ _ _ Hu H0 v Hv) as Hopt. unfold pobj, l1pen in *. lra.
Qed.

Theorem L1_prox_total alpha pos s x j : exists p, @L1_prox_1d R _ alpha pos x s j = Ok p.
Proof. unfold L1_prox_1d. destruct (ST_total x (fmul alpha s) pos) as [p Hp]. rewrite Hp. cbn. eauto. Qed.

(* ---------------- WeightedL1 ---------------- *)
Theorem WeightedL1_prox_opt alpha weights s x j wj p : 0 <= alpha -> 0 <= s ->
  get_idx weights j = Ok wj -> 0 <= wj ->
  @WeightedL1_prox_1d R _ alpha weights false x s j = Ok p ->
  forall v, pobj (l1pen (alpha * wj)) s x p <= pobj (l1pen (alpha * wj)) s x v.
Proof.
  unfold WeightedL1_prox_1d; rsimp. intros Ha Hs Hw Hwj H0 v. rewrite Hw in H0. cbn in H0.
  rewrite bind_ret_r in H0.
  assert (Hu : 0 <= alpha * s * wj) by (apply Rmult_le_pos; nra).
  pose proof (ST_opt _ _ _ Hu H0 v) as Hopt. unfold pobj, l1pen in *. nra.
Qed.

Theorem WeightedL1_prox_pos_opt alpha weights s x j wj p : 0 <= alpha -> 0 <= s ->
  get_idx weights j = Ok wj -> 0 <= wj ->
  @WeightedL1_prox_1d R _ alpha weights true x s j = Ok p ->
  0 <= p /\ forall v, 0 <= v -> pobj (l1pen (alpha * wj)) s x p <= pobj (l1pen (alpha * wj)) s x v.
Proof.
  unfold WeightedL1_prox_1d; rsimp. intros Ha Hs Hw Hwj H0. rewrite Hw in H0. cbn in H0.
  rewrite bind_ret_r in H0.
  assert (Hu : 0 <= alpha * s * wj) by (apply Rmult_le_pos; nra).
  split; [eapply ST_pos_nonneg; eauto|]. intros v Hv.
  pose proof (ST_pos_opt _ _ _ Hu H0 v Hv) as Hopt. unfold pobj, l1pen in *. nra.
Qed.

Theorem WeightedL1_prox_total alpha weights pos s x j wj :
  get_idx weights j = Ok wj -> exists p, @WeightedL1_prox_1d R _ alpha weights pos x s j = Ok p.
Proof.
  intros Hw. unfold WeightedL1_prox_1d. rewrite Hw. cbn [bind].
  destruct (ST_total x (fmul (fmul alpha s) wj) pos) as [p Hp]. rewrite Hp. cbn. eauto.
Qed.

(* ---------------- elastic net ---------------- *)
Definition enpen (alpha rho : R) (v : R) : R := alpha * (rho * Rabs v + (1 - rho) / 2 * v ^ 2).

(* first-order characterisation of ST, stronger than optimality: variational inequality *)
Lemma ST_vi x u p : 0 <= u -> @ST R _ x u false = Ok p ->
  forall v, (p - x) * (v - p) + u * (Rabs v - Rabs p) >= 0.
Proof.
  intros Hu HST v.
  apply ST_cases in HST as [[? ->]|[(?&?&?&->)|(?&[?|?]&->)]]; try discriminate;
    rabs; nra.
Qed.
Lemma ST_pos_vi x u p : 0 <= u -> @ST R _ x u true = Ok p ->
  forall v, 0 <= v -> (p - x) * (v - p) + u * (Rabs v - Rabs p) >= 0.
Proof.
  intros Hu HST v Hv.
  apply ST_cases in HST as [[? ->]|[(?&?&?&->)|(?&?&->)]]; try discriminate;
    rabs; nra.
Qed.

Theorem L1_plus_L2_prox_opt alpha rho s x j p : 0 <= alpha -> 0 <= rho <= 1 -> 0 <= s ->
  @L1_plus_L2_prox_1d R _ alpha rho false x s j = Ok p ->
  forall v, pobj (enpen alpha rho) s x p <= pobj (enpen alpha rho) s x v.
Proof.
  unfold L1_plus_L2_prox_1d; rsimp. intros Ha Hr Hs H0 v.
  destruct (ST x (rho * alpha * s) false) as [p0|] eqn:E; cbn in H0; [|discriminate].
  assert (Hc : 0 <= s * (1 - rho) * alpha) by (apply Rmult_le_pos; nra).
  destruct (Req_EM_T (1 + s * (1 - rho) * alpha) 0); [lra|]. cbn in H0. inversion H0 as [Hp]. clear H0.
  assert (Hu : 0 <= rho * alpha * s) by (apply Rmult_le_pos; nra).
  set (c := s * (1 - rho) * alpha) in *.
  assert (Hp0 : p0 = p * (1 + c)) by (subst p; field; lra).
  pose proof (ST_vi _ _ _ Hu E (v * (1 + c))) as Hvi.
  rewrite Hp0 in Hvi.
  assert (Habs : forall t, Rabs (t * (1 + c)) = Rabs t * (1 + c)) by (intros; rewrite Rabs_mult, (Rabs_right (1 + c)); lra).
  rewrite !Habs in Hvi.
  unfold pobj, enpen. rewrite ?Hp.
  (* Hvi: ((p(1+c) - x) (v - p) (1+c) + u (|v| - |p|)(1+c) >= 0 *)
  assert (Hvi' : (p * (1 + c) - x) * (v - p) + rho * alpha * s * (Rabs v - Rabs p) >= 0) by nra.
  pose proof (pow2_ge_0 (v - p)) as Hsq. pose proof (Rmult_le_pos _ _ Hc Hsq) as Hcsq.
  replace (s * (alpha * (rho * Rabs p + (1 - rho) / 2 * p ^ 2))) with (rho * alpha * s * Rabs p + c / 2 * p ^ 2) by (unfold c; field).
  replace (s * (alpha * (rho * Rabs v + (1 - rho) / 2 * v ^ 2))) with (rho * alpha * s * Rabs v + c / 2 * v ^ 2) by (unfold c; field).
  nra.
Qed.

Theorem L1_plus_L2_prox_pos_opt alpha rho s x j p : 0 <= alpha -> 0 <= rho <= 1 -> 0 <= s ->
  @L1_plus_L2_prox_1d R _ alpha rho true x s j = Ok p ->
  0 <= p /\ forall v, 0 <= v -> pobj (enpen alpha rho) s x p <= pobj (enpen alpha rho) s x v.
Proof.
  unfold L1_plus_L2_prox_1d; rsimp. intros Ha Hr Hs H0.
  destruct (ST x (rho * alpha * s) true) as [p0|] eqn:E; cbn in H0; [|discriminate].
  assert (Hc : 0 <= s * (1 - rho) * alpha) by (apply Rmult_le_pos; nra).
  destruct (Req_EM_T (1 + s * (1 - rho) * alpha) 0); [lra|]. cbn in H0. inversion H0 as [Hp]. clear H0.
  assert (Hu : 0 <= rho * alpha * s) by (apply Rmult_le_pos; nra).
  set (c := s * (1 - rho) * alpha) in *.
  pose proof (ST_pos_nonneg _ _ _ Hu E) as Hp0nn.
  assert (Hpnn : 0 <= p0 / (1 + c)) by (apply Rmult_le_pos; [lra|left; apply Rinv_0_lt_compat; lra]).
  split; [exact Hpnn|]. intros v Hv.
  assert (Hp0 : p0 = p * (1 + c)) by (subst p; field; lra).
  assert (Hv' : 0 <= v * (1 + c)) by nra.
  pose proof (ST_pos_vi _ _ _ Hu E (v * (1 + c)) Hv') as Hvi.
  rewrite Hp0 in Hvi.
  assert (Habs : forall t, Rabs (t * (1 + c)) = Rabs t * (1 + c)) by (intros; rewrite Rabs_mult, (Rabs_right (1 + c)); lra).
  rewrite !Habs in Hvi.
  unfold pobj, enpen. rewrite Hp in *.
  assert (Hvi' : (p * (1 + c) - x) * (v - p) + rho * alpha * s * (Rabs v - Rabs p) >= 0) by nra.
  pose proof (pow2_ge_0 (v - p)) as Hsq. pose proof (Rmult_le_pos _ _ Hc Hsq) as Hcsq.
  replace (s * (alpha * (rho * Rabs p + (1 - rho) / 2 * p ^ 2))) with (rho * alpha * s * Rabs p + c / 2 * p ^ 2) by (unfold c; field).
  replace (s * (alpha * (rho * Rabs v + (1 - rho) / 2 * v ^ 2))) with (rho * alpha * s * Rabs v + c / 2 * v ^ 2) by (unfold c; field).
  nra.
Qed.

Theorem L1_plus_L2_prox_total alpha rho pos s x j : 0 <= alpha -> 0 <= rho <= 1 -> 0 <= s ->
  exists p, @L1_plus_L2_prox_1d R _ alpha rho pos x s j = Ok p.
Proof.
  intros Ha Hr Hs. unfold L1_plus_L2_prox_1d; rsimp.
  destruct (ST_total x (rho * alpha * s) pos) as [p0 Hp0]. rewrite Hp0. cbn.
  assert (Hc : 0 <= s * (1 - rho) * alpha) by (apply Rmult_le_pos; nra).
  destruct (Req_EM_T (1 + s * (1 - rho) * alpha) 0); [lra|]. cbn. eauto.
Qed.

(* ---------------- box projection / indicator penalties ---------------- *)
Lemma box_proj_spec x lo hi p : lo <= hi -> @box_proj R _ x lo hi = Ok p ->
  lo <= p <= hi /\ forall v, lo <= v <= hi -> (p - x) ^ 2 <= (v - x) ^ 2.
Proof.
  unfold box_proj; rsimp. intros Hlh H0.
  destruct (Rlt_dec hi x); [|destruct (Rlt_dec x lo)]; inversion H0; subst; split; try lra; intros v Hv.
  - assert (0 <= (p - v) * (2 * x - v - p)) by (apply Rmult_le_pos; lra). nra.
  - assert (0 <= (v - p) * (v + p - 2 * x)) by (apply Rmult_le_pos; lra). nra.
  - match goal with |- ?a <= ?b => assert (0 <= b) by apply pow2_ge_0; assert (a = 0) by ring; lra end.
Qed.

Theorem IndicatorBox_prox_opt C s x j p : 0 <= C ->
  @IndicatorBox_prox_1d R _ C x s j = Ok p ->
  0 <= p <= C /\ forall v, 0 <= v <= C -> (p - x) ^ 2 / 2 <= (v - x) ^ 2 / 2.
Proof.
  unfold IndicatorBox_prox_1d. rsimp. intros HC H0. rewrite bind_ret_r in H0.
  apply box_proj_spec in H0 as [H1 H2]; [|lra]. split; [lra|]. intros v Hv. specialize (H2 v Hv). lra.
Qed.

Theorem PositiveConstraint_prox_opt s x j p :
  @PositiveConstraint_prox_1d R _ x s j = Ok p ->
  0 <= p /\ forall v, 0 <= v -> (p - x) ^ 2 / 2 <= (v - x) ^ 2 / 2.
Proof.
  unfold PositiveConstraint_prox_1d. rsimp. intros H0. inversion H0. subst.
  unfold Rmax. destruct (Rle_dec 0 x); split; try lra; intros v Hv; [pose proof (pow2_ge_0 (v - x)); nra|].
  assert (0 <= v * (v - 2 * x)) by (apply Rmult_le_pos; lra). nra.
Qed.
