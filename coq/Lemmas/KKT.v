(* C02: first-order conditions are sufficient for global optimality of convex compositions, quantitatively:
   if every coordinate score and the intercept gradient are at most eps at (w, b), then for every (w', b')
       F(w, b) - F(w', b') <= eps * (||w - w'||_1 + |b - b'|),
   where F = D(X w + b 1) + sum_j pen_j(w_j), D convex with (raw) gradient rg at X w + b 1 and pen_j convex.
   Instantiated for the Quadratic datafit (gradient inequality proved) and for the L1 / elastic-net penalties
   (score <= eps yields a subgradient within eps, by the attained-distance lemma of C08). *)
From Coq Require Import Reals Lra Lia ZArith List Bool Psatz.
Require Import SK.Base.Res SK.Base.Num SK.Base.RInst SK.Lemmas.VecFacts SK.Lemmas.ProxScalar SK.Lemmas.Loops SK.Lemmas.Subdiff SK.Lemmas.SubdiffJust.
Require Import SK.Lemmas.DfQuadratic SK.Lemmas.Descent.
Import ListNotations.
Local Open Scope R_scope.

Definition dot (a b : list R) : R := rsum (vmap2 Rmult a b).
Definition vadd (a b : list R) : list R := vmap2 Rplus a b.
Definition vscal (c : R) (a : list R) : list R := map (fun x => c * x) a.

Lemma dot_vadd a b c : length b = length c -> dot a (vadd b c) = dot a b + dot a c.
Proof.
  unfold dot, vadd. revert b c; induction a as [|a0 a IH]; intros b c Hl; [simpl; lra|].
  destruct b, c; simpl in *; try discriminate; try lra. rewrite IH by lia. lra.
Qed.
Lemma dot_vscal a c b : dot a (vscal c b) = c * dot a b.
Proof. unfold dot, vscal. revert b; induction a; destruct b; simpl; try lra. rewrite IHa. lra. Qed.
Lemma dot_repeat0 a n : dot a (repeat 0 n) = 0.
Proof. unfold dot. revert n; induction a; destruct n; simpl; auto. rewrite IHa. lra. Qed.
Lemma dot_repeat_c a c n : length a = n -> dot a (repeat c n) = c * rsum a.
Proof. unfold dot. revert n; induction a; intros n Hl; destruct n; simpl in *; try discriminate; try lra. rewrite IHa by lia. lra. Qed.
Lemma vadd_length a b : length a = length b -> length (vadd a b) = length a.
Proof. unfold vadd. apply vmap2_length. Qed.
Lemma vscal_length c a : length (vscal c a) = length a. Proof. unfold vscal. apply map_length. Qed.

(* X d for X a list of columns of length n *)
Fixpoint Xmul (n : nat) (X : list (list R)) (d : list R) : list R :=
  match X, d with
  | col :: X', dj :: d' => vadd (vscal dj col) (Xmul n X' d')
  | _, _ => repeat 0 n
  end.
Lemma Xmul_length n X d : Forall (fun col => length col = n) X -> length (Xmul n X d) = n.
Proof.
  revert d; induction X as [|col X IH]; intros d HX; [apply repeat_length|]. destruct d; [apply repeat_length|].
  inversion HX; subst. simpl. rewrite vadd_length; rewrite vscal_length; [reflexivity|]. rewrite IH by assumption. reflexivity.
Qed.
(* <rg, X d> = sum_j d_j <X_j, rg> *)
Lemma dot_Xmul n X d rg : Forall (fun col => length col = n) X -> length X = length d ->
  dot rg (Xmul n X d) = rsum (vmap2 Rmult d (map (fun col => dot col rg) X)).
Proof.
  revert d; induction X as [|col X IH]; intros d HX Hl; destruct d; simpl in *; try discriminate.
  - apply dot_repeat0.
  - inversion HX; subst. rewrite dot_vadd by (rewrite vscal_length, Xmul_length by assumption; reflexivity).
    rewrite dot_vscal, IH by (assumption || lia). f_equal. f_equal. unfold dot. clear. revert col. induction rg; destruct col; simpl; try lra. rewrite IHrg. lra.
Qed.

Lemma dot_vsub rg a c : length a = length c -> dot rg (vmap2 Rminus a c) = dot rg a - dot rg c.
Proof.
  unfold dot. revert a c. induction rg as [|r0 r IH]; intros a c Hl; [simpl; lra|].
  destruct a, c; simpl in *; try discriminate; try lra. rewrite IH by lia. ring.
Qed.
Lemma rsum_sub_mul a c g : length a = length c ->
  rsum (vmap2 Rmult (vmap2 Rminus a c) g) = rsum (vmap2 Rmult a g) - rsum (vmap2 Rmult c g).
Proof.
  revert c g. induction a as [|a0 a IH]; intros c g Hl; destruct c; simpl in *; try discriminate; [lra|].
  destruct g; simpl; [lra|]. rewrite IH by lia. lra.
Qed.

Definition l1dist (a b : list R) : R := rsum (vmap2 (fun x y => Rabs (x - y)) a b).

Lemma psum_subgrad (pens : list (R -> R)) w w' vs :
  length pens = length w -> length w' = length w -> length vs = length w ->
  Forall2 (fun f wv => forall u, f u >= f (fst wv) + snd wv * (u - fst wv)) pens (combine w vs) ->
  psum pens w' >= psum pens w + rsum (vmap2 Rmult (vmap2 Rminus w' w) vs).
Proof.
  revert w w' vs. induction pens as [|f ps IH]; intros w w' vs Hp Hw' Hvs Hpen.
  - destruct w; [|discriminate]. destruct w'; [|discriminate]. simpl. lra.
  - destruct w as [|w0 w]; [discriminate|]. destruct w' as [|u0 w']; [discriminate|]. destruct vs as [|v0 vs]; [discriminate|].
    simpl in *. inversion Hpen as [|? ? ? ? H1 H2]; subst. simpl in H1. specialize (H1 u0).
    specialize (IH w w' vs ltac:(lia) ltac:(lia) ltac:(lia) H2). lra.
Qed.

Lemma residual_bound (X : list (list R)) rg w w' vs eps : 0 <= eps ->
  length w = length X -> length w' = length X -> length vs = length X ->
  Forall2 (fun col v => Rabs (dot col rg + v) <= eps) X vs ->
  rsum (vmap2 Rmult (vmap2 Rminus w' w) (map (fun col => dot col rg) X)) + rsum (vmap2 Rmult (vmap2 Rminus w' w) vs)
  >= - eps * rsum (vmap2 (fun x y => Rabs (x - y)) w w').
Proof.
  intros He. revert w w' vs. induction X as [|c X IH]; intros w w' vs Hw Hw' Hvs Hres.
  - destruct w; [|discriminate]. destruct w'; [|discriminate]. simpl. lra.
  - destruct w as [|w0 w]; [discriminate|]. destruct w' as [|u0 w']; [discriminate|]. destruct vs as [|v0 vs]; [discriminate|].
    simpl in *. inversion Hres as [|? ? ? ? H1 H2]; subst.
    specialize (IH w w' vs ltac:(lia) ltac:(lia) ltac:(lia) H2).
    assert (Hterm : (u0 - w0) * dot c rg + (u0 - w0) * v0 >= - eps * Rabs (w0 - u0)).
    { replace ((u0 - w0) * dot c rg + (u0 - w0) * v0) with ((u0 - w0) * (dot c rg + v0)) by ring.
      revert H1. rabs; intros; nra. }
    lra.
Qed.

Section Gap.
Variables (n : nat) (X : list (list R)) (D : list R -> R) (pens : list (R -> R)).
Hypothesis HX : Forall (fun col => length col = n) X.
Hypothesis Hpens : length pens = length X.

Definition Ftot (w : list R) (b : R) : R := D (vadd (Xmul n X w) (repeat b n)) + psum pens w.

Theorem kkt_gap_bound (w w' : list R) (b b' : R) (rg vs : list R) (eps : R) :
  length w = length X -> length w' = length X -> length rg = n -> length vs = length X -> 0 <= eps ->
  (* convexity of the datafit: gradient inequality at z = X w + b 1 with raw gradient rg *)
  (forall z', length z' = n -> D z' >= D (vadd (Xmul n X w) (repeat b n)) + dot rg (vmap2 Rminus z' (vadd (Xmul n X w) (repeat b n)))) ->
  (* v_j is a subgradient of pen_j at w_j *)
  Forall2 (fun f wv => forall u, f u >= f (fst wv) + snd wv * (u - fst wv)) pens (combine w vs) ->
  (* every coordinate residual grad_j + v_j and the intercept gradient are at most eps *)
  Forall2 (fun col v => Rabs (dot col rg + v) <= eps) X vs -> Rabs (rsum rg) <= eps ->
  Ftot w b - Ftot w' b' <= eps * (l1dist w w' + Rabs (b - b')).
Proof.
  intros Hw Hw' Hrg Hvs He HD Hpen Hres Hint. unfold Ftot.
  set (z := vadd (Xmul n X w) (repeat b n)). set (z' := vadd (Xmul n X w') (repeat b' n)).
  assert (Hlz : length z = n) by (unfold z; rewrite vadd_length; rewrite Xmul_length by assumption; [reflexivity|rewrite repeat_length; reflexivity]).
  assert (Hlz' : length z' = n) by (unfold z'; rewrite vadd_length; rewrite Xmul_length by assumption; [reflexivity|rewrite repeat_length; reflexivity]).
  specialize (HD z' Hlz'). fold z in HD.
  (* <rg, z' - z> = sum_j (w'_j - w_j) g_j + (b' - b) sum rg *)
  assert (Hlin : dot rg (vmap2 Rminus z' z) = rsum (vmap2 Rmult (vmap2 Rminus w' w) (map (fun col => dot col rg) X)) + (b' - b) * rsum rg).
  { rewrite dot_vsub by lia. unfold z, z'. rewrite !dot_vadd by (rewrite Xmul_length, repeat_length by assumption; reflexivity).
    rewrite !dot_Xmul by (assumption || lia). rewrite !dot_repeat_c by assumption.
    rewrite rsum_sub_mul by lia. lra. }
  (* penalties *)
  assert (Hp : psum pens w' >= psum pens w + rsum (vmap2 Rmult (vmap2 Rminus w' w) vs)) by (apply psum_subgrad; try lia; assumption).
  pose proof (residual_bound X rg w w' vs eps He Hw Hw' Hvs Hres) as Hbound. fold (l1dist w w') in Hbound.
  assert (Hb : (b' - b) * rsum rg >= - eps * Rabs (b - b')) by (revert Hint; rabs; intros; nra).
  fold z z'. nra.
Qed.
Corollary kkt_zero_score_is_global_min (w w' : list R) (b b' : R) (rg vs : list R) :
  length w = length X -> length w' = length X -> length rg = n -> length vs = length X ->
  (forall z', length z' = n -> D z' >= D (vadd (Xmul n X w) (repeat b n)) + dot rg (vmap2 Rminus z' (vadd (Xmul n X w) (repeat b n)))) ->
  Forall2 (fun f wv => forall u, f u >= f (fst wv) + snd wv * (u - fst wv)) pens (combine w vs) ->
  Forall2 (fun col v => Rabs (dot col rg + v) <= 0) X vs -> Rabs (rsum rg) <= 0 ->
  Ftot w b <= Ftot w' b'.
Proof.
  intros H1 H2 H3 H4 HD Hpen Hres Hint.
  pose proof (kkt_gap_bound w w' b b' rg vs 0 H1 H2 H3 H4 (Rle_refl 0) HD Hpen Hres Hint) as Hg. lra.
Qed.
End Gap.

(* the Quadratic datafit satisfies the gradient inequality with raw gradient (z - y)/n *)
Lemma quad_gradient_inequality (y z z' : list R) : length y = length z -> length z' = length z -> z <> [] ->
  quad_doc y z' >= quad_doc y z + dot (map (fun r => r / nR z) (vmap2 lq' y z)) (vmap2 Rminus z' z).
Proof.
  intros Hy Hz' Hz. rewrite !quad_doc_mean. pose proof (nR_pos z Hz) as Hn.
  assert (HnR : nR z' = nR z) by (unfold nR, zlen; rewrite Hz'; reflexivity). rewrite HnR.
  assert (Hs : rsum (vmap2 lq y z') >= rsum (vmap2 lq y z) + rsum (vmap2 Rmult (vmap2 lq' y z) (vmap2 Rminus z' z))).
  { clear Hz Hn HnR. revert z z' Hy Hz'. induction y as [|y0 y IH]; intros z z' Hy Hz'; destruct z, z'; simpl in *; try discriminate; [lra|].
    specialize (IH z z' ltac:(lia) ltac:(lia)). unfold lq, lq' in *. pose proof (pow2_ge_0 (r0 - r)). nra. }
  unfold dot. rewrite vmap2_map_l.
  replace (rsum (vmap2 (fun x y0 => x / nR z * y0) (vmap2 lq' y z) (vmap2 Rminus z' z)))
    with (rsum (vmap2 Rmult (vmap2 lq' y z) (vmap2 Rminus z' z)) / nR z).
  - unfold Rdiv in *. assert (0 < / nR z) by (apply Rinv_0_lt_compat; assumption). nra.
  - generalize (vmap2 lq' y z) (vmap2 Rminus z' z). intros a b. revert b. induction a; destruct b; simpl; try (unfold Rdiv; lra).
    rewrite <- IHa. unfold Rdiv. lra.
Qed.

(* score <= eps gives a subgradient within eps (attained distance), for the convex tables *)
Lemma score_gives_subgradient S g eps d : wf_sd S ->
  dist_sd (- g) S = Fin d -> d <= eps -> exists v, In_sd v S /\ Rabs (g + v) <= eps.
Proof.
  intros Hwf Hd Hle. destruct (dist_sd_attained _ _ _ Hwf Hd) as (v & Hin & Hv). exists v. split; [exact Hin|].
  replace (g + v) with (- (- g - v)) by ring. rewrite Rabs_Ropp. lra.
Qed.
