(* C08: justification of the subdifferential tables from the penalty value functions, infinity at
   infeasible points, and agreement with the prox fixed points. *)
From Coq Require Import Reals Lra Lia ZArith QArith List Bool Psatz.
Require Import SK.Base.Res SK.Base.Num SK.Base.RInst.
Require Import SK.Gen.ProxFuncs SK.Gen.PenSeparable SK.Lemmas.ProxScalar SK.Lemmas.ProxMCP SK.Lemmas.Loops SK.Lemmas.Subdiff.
Import ListNotations.
Local Open Scope R_scope.

(* global subgradient of a convex function with domain dom *)
Definition subgrad (dom : R -> Prop) (f : R -> R) (w v : R) : Prop :=
  forall u, dom u -> f u >= f w + v * (u - w).

Definition allR (u : R) := True.
Definition nonneg (u : R) := 0 <= u.

Lemma Rsign_cases x : (0 < x /\ Rsign x = 1) \/ (x < 0 /\ Rsign x = -1) \/ (x = 0 /\ Rsign x = 0).
Proof.
  destruct (Rtotal_order x 0) as [H|[H|H]].
  - right; left; split; [lra|apply Rsign_neg; lra].
  - right; right; split; [lra|subst; apply Rsign_0].
  - left; split; [lra|apply Rsign_pos; lra].
Qed.

(* x <= k t for all small t > 0 forces x <= 0 *)
Lemma le_all_small x k delta : 0 <= k -> 0 < delta -> (forall t, 0 < t < delta -> x <= k * t) -> x <= 0.
Proof.
  intros Hk Hd H0. destruct (Rle_dec x 0); [assumption|exfalso]. assert (Hx : 0 < x) by lra.
  destruct (Req_EM_T k 0) as [->|Hk0].
  - specialize (H0 (delta / 2) ltac:(lra)). lra.
  - assert (Hkp : 0 < k) by lra.
    set (t := Rmin (delta / 2) (x / (2 * k))).
    assert (Hx2 : 0 < x / (2 * k)) by (apply Rdiv_lt_0_compat; lra).
    assert (Ht : 0 < t < delta) by (unfold t, Rmin; destruct (Rle_dec _ _); lra).
    specialize (H0 t Ht).
    assert (Hkt : k * t <= x / 2).
    { assert (Hle : t <= x / (2 * k)) by (unfold t; apply Rmin_r).
      replace (x / 2) with (k * (x / (2 * k))) by (field; lra). apply Rmult_le_compat_l; lra. }
    lra.
Qed.

(* a|u| + (c/2) u^2 : covers L1 (c = 0) and the elastic net *)
Definition aq (a c u : R) : R := a * Rabs u + c / 2 * u ^ 2.

Lemma aq_diff a c w u : aq a c u - aq a c w - c * w * (u - w) = a * (Rabs u - Rabs w) + c / 2 * (u - w) ^ 2.
Proof. unfold aq. field. Qed.

Theorem subdiff_aq_just a c wj v : 0 <= a -> 0 <= c ->
  In_sd (v - c * wj) (subdiff_l1 a false wj) <-> subgrad allR (aq a c) wj v.
Proof.
  intros Ha Hc. unfold subgrad, allR. split.
  - intros Hin u _. pose proof (aq_diff a c wj u) as Hd.
    assert (Hsq : 0 <= c / 2 * (u - wj) ^ 2) by (apply Rmult_le_pos; [lra|apply pow2_ge_0]).
    assert (Habs : a * (Rabs u - Rabs wj) >= (v - c * wj) * (u - wj)).
    { unfold subdiff_l1, SPt in Hin. destruct (Req_EM_T wj 0) as [->|Hn]; simpl in Hin.
      - rewrite Rabs_R0. rabs; nra.
      - destruct (Rsign_cases wj) as [[Hp Hs]|[[Hp Hs]|[Hp Hs]]]; [| |contradiction]; rewrite Hs in Hin;
          assert (Hz : v - c * wj = a * Rsign wj) by (rewrite Hs; lra); rewrite Hz, Hs; rabs; nra. }
    nra.
  - intros H0.
    assert (Hup : forall t, 0 < t -> v - c * wj <= a * ((Rabs (wj + t) - Rabs wj) / t) + c / 2 * t).
    { intros t Ht. pose proof (H0 (wj + t) I) as Hb. pose proof (aq_diff a c wj (wj + t)) as Hd.
      replace (wj + t - wj) with t in * by ring.
      assert (Hm : (v - c * wj) * t <= a * (Rabs (wj + t) - Rabs wj) + c / 2 * t ^ 2) by nra.
      apply (Rmult_le_reg_r t); [lra|]. replace ((a * ((Rabs (wj + t) - Rabs wj) / t) + c / 2 * t) * t)
        with (a * (Rabs (wj + t) - Rabs wj) + c / 2 * t ^ 2) by (field; lra). exact Hm. }
    assert (Hlo : forall t, 0 < t -> a * ((Rabs wj - Rabs (wj - t)) / t) - c / 2 * t <= v - c * wj).
    { intros t Ht. pose proof (H0 (wj - t) I) as Hb. pose proof (aq_diff a c wj (wj - t)) as Hd.
      replace (wj - t - wj) with (- t) in * by ring.
      assert (Hm : a * (Rabs wj - Rabs (wj - t)) - c / 2 * t ^ 2 <= (v - c * wj) * t) by nra.
      apply (Rmult_le_reg_r t); [lra|]. replace ((a * ((Rabs wj - Rabs (wj - t)) / t) - c / 2 * t) * t)
        with (a * (Rabs wj - Rabs (wj - t)) - c / 2 * t ^ 2) by (field; lra). exact Hm. }
    unfold subdiff_l1, SPt. destruct (Req_EM_T wj 0) as [->|Hn]; simpl.
    + split.
      * assert (- a - (v - c * 0) <= 0); [|lra]. apply (le_all_small _ (c / 2) 1); [lra|lra|].
        intros t Ht. specialize (Hlo t ltac:(lra)). rewrite Rabs_R0 in Hlo.
        replace (0 - t) with (- t) in Hlo by ring. rewrite Rabs_Ropp, (Rabs_right t) in Hlo by lra.
        replace ((0 - t) / t) with (-1) in Hlo by (field; lra). lra.
      * assert (v - c * 0 - a <= 0); [|lra]. apply (le_all_small _ (c / 2) 1); [lra|lra|].
        intros t Ht. specialize (Hup t ltac:(lra)). rewrite Rabs_R0 in Hup.
        replace (0 + t) with t in Hup by ring. rewrite (Rabs_right t) in Hup by lra.
        replace ((t - 0) / t) with 1 in Hup by (field; lra). lra.
    + destruct (Rsign_cases wj) as [[Hp Hs]|[[Hp Hs]|[Hp Hs]]]; [| |contradiction]; rewrite Hs.
      * assert (v - c * wj - a <= 0 /\ a - (v - c * wj) <= 0); [|lra]. split.
        -- apply (le_all_small _ (c / 2) 1); [lra|lra|]. intros t Ht. specialize (Hup t ltac:(lra)).
           rewrite (Rabs_right wj), (Rabs_right (wj + t)) in Hup by lra.
           replace ((wj + t - wj) / t) with 1 in Hup by (field; lra). lra.
        -- apply (le_all_small _ (c / 2) wj); [lra|lra|]. intros t Ht. specialize (Hlo t ltac:(lra)).
           rewrite (Rabs_right wj), (Rabs_right (wj - t)) in Hlo by lra.
           replace ((wj - (wj - t)) / t) with 1 in Hlo by (field; lra). lra.
      * assert (v - c * wj + a <= 0 /\ - a - (v - c * wj) <= 0); [|lra]. split.
        -- apply (le_all_small _ (c / 2) (- wj)); [lra|lra|]. intros t Ht. specialize (Hup t ltac:(lra)).
           rewrite (Rabs_left wj), (Rabs_left (wj + t)) in Hup by lra.
           replace ((- (wj + t) - - wj) / t) with (-1) in Hup by (field; lra). lra.
        -- apply (le_all_small _ (c / 2) 1); [lra|lra|]. intros t Ht. specialize (Hlo t ltac:(lra)).
           rewrite (Rabs_left wj), (Rabs_left (wj - t)) in Hlo by lra.
           replace ((- wj - - (wj - t)) / t) with (-1) in Hlo by (field; lra). lra.
Qed.

Theorem subdiff_aq_pos_just a c wj v : 0 <= a -> 0 <= c -> 0 <= wj ->
  In_sd (v - c * wj) (subdiff_l1 a true wj) <-> subgrad nonneg (aq a c) wj v.
Proof.
  intros Ha Hc Hw. unfold subgrad, nonneg. split.
  - intros Hin u Hu. pose proof (aq_diff a c wj u) as Hd.
    assert (Hsq : 0 <= c / 2 * (u - wj) ^ 2) by (apply Rmult_le_pos; [lra|apply pow2_ge_0]).
    assert (Habs : a * (Rabs u - Rabs wj) >= (v - c * wj) * (u - wj)).
    { unfold subdiff_l1, SPt in Hin. destruct (Rlt_dec wj 0); [lra|].
      rewrite (Rabs_right u), (Rabs_right wj) by lra.
      destruct (Req_EM_T wj 0) as [->|Hn]; simpl in Hin; nra. }
    nra.
  - intros H0. unfold subdiff_l1, SPt. destruct (Rlt_dec wj 0); [lra|].
    assert (Hup : forall t, 0 < t -> v - c * wj <= a + c / 2 * t).
    { intros t Ht. pose proof (H0 (wj + t) ltac:(lra)) as Hb. pose proof (aq_diff a c wj (wj + t)) as Hd.
      rewrite (Rabs_right wj), (Rabs_right (wj + t)) in Hd by lra.
      replace (wj + t - wj) with t in * by ring.
      assert (Hm : (v - c * wj) * t <= (a + c / 2 * t) * t) by nra.
      apply (Rmult_le_reg_r t); [lra|exact Hm]. }
    destruct (Req_EM_T wj 0) as [->|Hn]; simpl.
    + assert (v - c * 0 - a <= 0); [|lra]. apply (le_all_small _ (c / 2) 1); [lra|lra|].
      intros t Ht. specialize (Hup t ltac:(lra)). lra.
    + assert (v - c * wj - a <= 0 /\ a - (v - c * wj) <= 0); [|lra]. split.
      * apply (le_all_small _ (c / 2) 1); [lra|lra|]. intros t Ht. specialize (Hup t ltac:(lra)). lra.
      * apply (le_all_small _ (c / 2) wj); [lra|lra|]. intros t Ht.
        pose proof (H0 (wj - t) ltac:(lra)) as Hb. pose proof (aq_diff a c wj (wj - t)) as Hd.
        rewrite (Rabs_right wj), (Rabs_right (wj - t)) in Hd by lra.
        replace (wj - t - wj) with (- t) in * by ring.
        assert (Hm : (a - (v - c * wj)) * t <= c / 2 * t * t) by nra.
        apply (Rmult_le_reg_r t); [lra|exact Hm].
Qed.

(* instances: the documented penalties *)
Lemma l1pen_aq thr u : l1pen thr u = aq thr 0 u.
Proof. unfold l1pen, aq. lra. Qed.
Lemma enpen_aq alpha rho u : enpen alpha rho u = aq (alpha * rho) (alpha * (1 - rho)) u.
Proof. unfold enpen, aq. lra. Qed.

Lemma subgrad_ext dom f g w v : (forall u, f u = g u) -> (subgrad dom f w v <-> subgrad dom g w v).
Proof. intros He. unfold subgrad. split; intros H0 u Hu; [rewrite <- !He|rewrite !He]; auto. Qed.

Theorem subdiff_l1_just thr wj v : 0 <= thr ->
  In_sd v (subdiff_l1 thr false wj) <-> subgrad allR (l1pen thr) wj v.
Proof.
  intros Ht. rewrite (subgrad_ext _ _ _ _ _ (l1pen_aq thr)). rewrite <- subdiff_aq_just by lra.
  replace (v - 0 * wj) with v by ring. reflexivity.
Qed.
Theorem subdiff_l1_pos_just thr wj v : 0 <= thr -> 0 <= wj ->
  In_sd v (subdiff_l1 thr true wj) <-> subgrad nonneg (l1pen thr) wj v.
Proof.
  intros Ht Hw. rewrite (subgrad_ext _ _ _ _ _ (l1pen_aq thr)). rewrite <- subdiff_aq_pos_just by lra.
  replace (v - 0 * wj) with v by ring. reflexivity.
Qed.
Theorem subdiff_l1_pos_infeasible thr wj : wj < 0 -> subdiff_l1 thr true wj = SEmpty.
Proof. intros. unfold subdiff_l1. destruct (Rlt_dec wj 0); [reflexivity|lra]. Qed.

Lemma subdiff_en_shift alpha rho pos wj v :
  In_sd v (subdiff_en alpha rho pos wj) <-> In_sd (v - alpha * (1 - rho) * wj) (subdiff_l1 (alpha * rho) pos wj).
Proof.
  unfold subdiff_en, subdiff_l1, SPt. destruct pos; rcases; simpl; try tauto; subst; split; intros; lra.
Qed.
Theorem subdiff_en_just alpha rho wj v : 0 <= alpha -> 0 <= rho <= 1 ->
  In_sd v (subdiff_en alpha rho false wj) <-> subgrad allR (enpen alpha rho) wj v.
Proof.
  intros Ha Hr. rewrite (subgrad_ext _ _ _ _ _ (enpen_aq alpha rho)), subdiff_en_shift.
  apply subdiff_aq_just; [apply Rmult_le_pos|apply Rmult_le_pos]; lra.
Qed.
Theorem subdiff_en_pos_just alpha rho wj v : 0 <= alpha -> 0 <= rho <= 1 -> 0 <= wj ->
  In_sd v (subdiff_en alpha rho true wj) <-> subgrad nonneg (enpen alpha rho) wj v.
Proof.
  intros Ha Hr Hw. rewrite (subgrad_ext _ _ _ _ _ (enpen_aq alpha rho)), subdiff_en_shift.
  apply subdiff_aq_pos_just; [apply Rmult_le_pos|apply Rmult_le_pos|]; lra.
Qed.

(* the score is +inf exactly where the positivity constraint is violated *)
Theorem score_l1_inf_iff thr pos j wj g : score (subdiff_l1 thr pos) j wj g = PInf <-> (pos = true /\ wj < 0).
Proof.
  unfold score. rewrite dist_sd_inf_iff. unfold subdiff_l1, SPt.
  destruct pos; rcases; split; intros H0; try discriminate; try (destruct H0; lra || discriminate); auto.
Qed.
Theorem score_en_inf_iff alpha rho pos j wj g : score (subdiff_en alpha rho pos) j wj g = PInf <-> (pos = true /\ wj < 0).
Proof.
  unfold score. rewrite dist_sd_inf_iff. unfold subdiff_en, SPt.
  destruct pos; rcases; split; intros H0; try discriminate; try (destruct H0; lra || discriminate); auto.
Qed.
Theorem score_mcp_inf_iff alpha gamma w8 pos j wj g :
  score (subdiff_mcp alpha gamma w8 pos) j wj g = PInf <-> (pos = true /\ wj < 0).
Proof.
  unfold score. rewrite dist_sd_inf_iff. unfold subdiff_mcp, SPt.
  destruct pos; cbn [andb]; rcases; split; intros H0; try discriminate; try (destruct H0; lra || discriminate); auto.
Qed.

(* ---------------- agreement with the prox: fixed points of the prox-gradient map ---------------- *)
Lemma ST_fix_iff thr s w g pos : 0 < s -> 0 <= thr ->
  (@ST R _ (w - s * g) (thr * s) pos = Ok w <-> In_sd (- g) (subdiff_l1 thr pos w)).
Proof.
  intros Hs Ht. assert (Hu : 0 <= thr * s) by (apply Rmult_le_pos; lra). split.
  - intros H0. apply ST_cases in H0. unfold subdiff_l1, SPt.
    destruct H0 as [[H1 H2]|[(H1&H2&H3&H4)|(H1&H2&H3)]].
    + assert (g = - thr) by nra. assert (0 < w) by nra.
      destruct pos; rcases; simpl; try lra; rewrite ?Rsign_pos by lra; lra.
    + subst pos. assert (g = thr) by nra. assert (w < 0) by nra.
      rcases; simpl; try lra; rewrite ?Rsign_neg by lra; lra.
    + subst w. destruct pos; rcases; simpl; try lra.
      * destruct H2 as [H2|H2]; [|nra]. nra.
      * destruct H2 as [H2|H2]; [|discriminate]. split; nra.
  - intros Hin. unfold subdiff_l1, SPt in Hin. unfold ST; rsimp.
    destruct pos; rcases; simpl in Hin; try contradiction; cbn; try (f_equal; nra); try (exfalso; nra).
    all: try (destruct (Rsign_cases w) as [[Hp Hs']|[[Hp Hs']|[Hp Hs']]]; rewrite Hs' in *; try (exfalso; nra); f_equal; nra).
Qed.

Theorem L1_prox_fix_iff alpha pos s w g j : 0 < s -> 0 <= alpha ->
  (@L1_prox_1d R _ alpha pos (w - s * g) s j = Ok w <-> score (subdiff_l1 alpha pos) j w g = Fin 0).
Proof.
  intros Hs Ha. unfold L1_prox_1d, score. rsimp. rewrite bind_ret_r.
  rewrite (ST_fix_iff alpha s w g pos Hs Ha). symmetry. apply dist_sd_zero_iff.
  unfold subdiff_l1, SPt. destruct pos; rcases; simpl; lra.
Qed.

Theorem WeightedL1_prox_fix_iff alpha weights pos s w g j : 0 < s -> 0 <= alpha ->
  (0 <= j < Z.of_nat (length weights))%Z -> 0 <= wt weights j ->
  (@WeightedL1_prox_1d R _ alpha weights pos (w - s * g) s j = Ok w
   <-> score (subdiff_l1 (alpha * wt weights j) pos) j w g = Fin 0).
Proof.
  intros Hs Ha Hj Hw. unfold WeightedL1_prox_1d, score. rewrite (get_idx_nth weights j 0 Hj). fold (wt weights j).
  rsimp. rewrite bind_ret_r.
  replace (alpha * s * wt weights j) with (alpha * wt weights j * s) by ring.
  assert (Ht : 0 <= alpha * wt weights j) by (apply Rmult_le_pos; lra).
  rewrite (ST_fix_iff _ s w g pos Hs Ht). symmetry. apply dist_sd_zero_iff.
  unfold subdiff_l1, SPt. destruct pos; rcases; simpl; lra.
Qed.

Theorem L1_plus_L2_prox_fix_iff alpha rho pos s w g j : 0 < s -> 0 <= alpha -> 0 <= rho <= 1 ->
  (@L1_plus_L2_prox_1d R _ alpha rho pos (w - s * g) s j = Ok w
   <-> score (subdiff_en alpha rho pos) j w g = Fin 0).
Proof.
  intros Hs Ha Hr. unfold L1_plus_L2_prox_1d, score. rsimp.
  assert (Hc : 0 <= s * (1 - rho) * alpha) by (apply Rmult_le_pos; [apply Rmult_le_pos|]; lra).
  set (c := s * (1 - rho) * alpha) in *.
  assert (Hwf : wf_sd (subdiff_en alpha rho pos w)) by (unfold subdiff_en, SPt; destruct pos; rcases; simpl; nra).
  rewrite (dist_sd_zero_iff _ _ Hwf), subdiff_en_shift.
  assert (Ht : 0 <= alpha * rho) by (apply Rmult_le_pos; lra).
  (* W = w (1 + c) has the sign of w *)
  assert (Hsd : subdiff_l1 (alpha * rho) pos (w * (1 + c)) = subdiff_l1 (alpha * rho) pos w).
  { unfold subdiff_l1, SPt. destruct (Rsign_cases w) as [[Hp Hs']|[[Hp Hs']|[Hp Hs']]].
    - assert (0 < w * (1 + c)) by nra. rewrite Hs', (Rsign_pos (w * (1 + c))) by lra. destruct pos; rcases; try lra; reflexivity.
    - assert (w * (1 + c) < 0) by nra. rewrite Hs', (Rsign_neg (w * (1 + c))) by lra. destruct pos; rcases; try lra; reflexivity.
    - subst w. replace (0 * (1 + c)) with 0 by ring. reflexivity. }
  pose proof (ST_fix_iff (alpha * rho) s (w * (1 + c)) (g + alpha * (1 - rho) * w) pos Hs Ht) as Hfix.
  rewrite Hsd in Hfix.
  replace (w * (1 + c) - s * (g + alpha * (1 - rho) * w)) with (w - s * g) in Hfix by (unfold c; ring).
  replace (alpha * rho * s) with (rho * alpha * s) in Hfix by ring.
  replace (- (g + alpha * (1 - rho) * w)) with (- g - alpha * (1 - rho) * w) in Hfix by ring.
  rewrite <- Hfix. clear Hfix Hsd.
  destruct (ST (w - s * g) (rho * alpha * s) pos) as [p0|] eqn:E; cbn [bind].
  - destruct (Req_EM_T (1 + c) 0); [lra|]. cbn. split; intros H0; inversion H0 as [H1]; f_equal.
    + try rewrite <- H1; field; lra.
    + try rewrite H1; field; lra.
  - split; intros; discriminate.
Qed.

Theorem prox_MCP_fix_score_zero alpha gamma w8 pos s w g j :
  0 < s -> 0 <= alpha -> 0 < gamma -> 0 <= w8 -> w8 * s < gamma ->
  @prox_MCP R _ (w - s * g) s alpha gamma pos w8 = Ok w ->
  score (subdiff_mcp alpha gamma w8 pos) j w g = Fin 0.
Proof.
  intros Hs Ha Hg Hw8 Hws H0. apply prox_MCP_cases in H0; [|lra|lra].
  assert (Hwf : wf_sd (subdiff_mcp alpha gamma w8 pos w)).
  { unfold subdiff_mcp, SPt. destruct pos; cbn [andb]; rcases; simpl; try lra; nra. }
  unfold score. apply dist_sd_zero_iff; [exact Hwf|]. clear Hwf.
  assert (Hig : 0 < / gamma) by (apply Rinv_0_lt_compat; lra).
  assert (Hq : 0 < 1 - w8 * s / gamma).
  { assert (w8 * s / gamma < 1); [|lra]. apply (Rmult_lt_reg_r gamma); [lra|]. unfold Rdiv. rewrite Rmult_assoc, Rinv_l; lra. }
  unfold subdiff_mcp, SPt.
  destruct H0 as [[H1 Hw0]|[(H1&Hp&H2&Hx)|(H1&Hp&H2&Hx)]].
  - subst w. replace (0 - s * g) with (- (s * g)) in H1 by ring. rewrite Rabs_Ropp in H1.
    destruct pos; cbn [andb]; rcases; simpl; try lra.
    all: assert (Habs : Rabs (s * g) = s * Rabs g) by (rewrite Rabs_mult, (Rabs_right s); lra).
    all: assert (Hw8a : 0 <= alpha * w8) by (apply Rmult_le_pos; lra).
    all: destruct H1 as [H1|[Hp1 H1]]; [assert (Hgb : Rabs g <= alpha * w8) by nra; revert Hgb; rabs; intros; lra|].
    all: try discriminate; nra.
  - assert (g = 0) by nra. subst g. replace (w - s * 0) with w in * by ring.
    assert (w <> 0). { intros ->. rewrite Rabs_R0 in H2. nra. }
    assert (Hpos : pos = true -> 0 < w) by (intros ->; destruct Hp; [discriminate|assumption]).
    destruct pos; cbn [andb]; rcases; simpl; try lra; try (specialize (Hpos eq_refl); lra).
  - set (x := w - s * g) in *. set (t := w8 * s) in *.
    assert (Hx0 : x <> 0). { intros Hz. rewrite Hz, Rabs_R0 in H1. apply H1. apply Rmult_le_pos; [lra|]. unfold t. nra. }
    assert (HPpos : 0 < Rabs x - alpha * t) by lra.
    assert (Hweq : w * (1 - t / gamma) = Rsign x * (Rabs x - alpha * t)).
    { rewrite Hx at 1. field. split; [lra|]. unfold Rdiv in Hq. lra. }
    destruct (Rsign_cases x) as [[Hxp Hsx]|[[Hxp Hsx]|[Hxp Hsx]]]; [| |contradiction]; rewrite Hsx in Hweq.
    + rewrite (Rabs_right x) in * by lra. assert (Hwp : 0 < w) by nra.
      assert (Hgeq : - g = alpha * w8 - w8 * w / gamma).
      { unfold x, t in Hweq. assert (Hm : w * (w8 * s / gamma) = s * g + alpha * (w8 * s)) by lra.
        assert (Hm' : s * (w8 * w / gamma) = s * (g + alpha * w8)) by (unfold Rdiv in *; lra).
        apply Rmult_eq_reg_l in Hm'; lra. }
      assert (Hwle : w <= alpha * gamma).
      { assert (w * (1 - t / gamma) <= alpha * gamma * (1 - t / gamma)).
        { rewrite Hweq. replace (alpha * gamma * (1 - t / gamma)) with (alpha * gamma - alpha * t) by (field; lra). lra. }
        apply Rmult_le_reg_r in H; lra. }
      rewrite (Rabs_right w) by lra. rewrite (Rsign_pos w) by lra.
      destruct pos; cbn [andb]; rcases; simpl; try lra.
      all: assert (Hwe : w = alpha * gamma) by lra; rewrite Hgeq, Hwe; split; right; field; lra.
    + rewrite (Rabs_left x) in * by lra. assert (Hwp : w < 0) by nra.
      destruct Hp as [Hp|Hp]; [|lra]. subst pos.
      assert (Hgeq : - g = - alpha * w8 - w8 * w / gamma).
      { unfold x, t in Hweq. assert (Hm : w * (w8 * s / gamma) = s * g - alpha * (w8 * s)) by lra.
        assert (Hm' : s * (w8 * w / gamma) = s * (g - alpha * w8)) by (unfold Rdiv in *; lra).
        apply Rmult_eq_reg_l in Hm'; lra. }
      assert (Hwle : - (alpha * gamma) <= w).
      { assert (- (alpha * gamma) * (1 - t / gamma) <= w * (1 - t / gamma)).
        { rewrite Hweq. replace (- (alpha * gamma) * (1 - t / gamma)) with (- (alpha * gamma - alpha * t)) by (field; lra). lra. }
        apply Rmult_le_reg_r in H; lra. }
      rewrite (Rabs_left w) by lra. rewrite (Rsign_neg w) by lra.
      cbn [andb]; rcases; simpl; try lra.
      assert (Hwe : w = - (alpha * gamma)) by lra; rewrite Hgeq, Hwe; split; right; field; lra.
Qed.

Theorem box_fix_iff C s w g j : 0 < s -> 0 < C -> 0 <= w <= C ->
  (@IndicatorBox_prox_1d R _ C (w - s * g) s j = Ok w <-> score (subdiff_box C) j w g = Fin 0).
Proof.
  intros Hs HC Hw. unfold IndicatorBox_prox_1d, box_proj, score, subdiff_box, SPt. rsimp.
  rcases; cbn; split; intros H0; try (inversion H0 as [H1]); try (f_equal; rmax; nra); try (exfalso; rmax; nra).
Qed.

Theorem posc_fix_iff s w g j : 0 < s ->
  (@PositiveConstraint_prox_1d R _ (w - s * g) s j = Ok w <-> score subdiff_posc j w g = Fin 0).
Proof.
  intros Hs. unfold PositiveConstraint_prox_1d, score, subdiff_posc, SPt. rsimp.
  rcases; cbn; split; intros H0; try discriminate; try (inversion H0 as [H1]); try (f_equal; rmax; nra); try (exfalso; rmax; nra).
Qed.

(* ---------------- unpenalised features contribute nothing to the value ---------------- *)
Require Import SK.Lemmas.VecFacts.

Theorem WeightedL1_is_penalized_spec (weights : list R) n :
  @WeightedL1_is_penalized R _ weights n = Ok (map (fun x => negb (Reqb x 0)) weights).
Proof. reflexivity. Qed.

Theorem WeightedL1_value_spec alpha (weights w : list R) :
  @WeightedL1_value R _ alpha weights false w = Ok (Fin (alpha * rsum (vmap2 (fun x y => Rabs x * y) w weights))).
Proof.
  unfold WeightedL1_value, ret. cbn [andb]. f_equal. f_equal. rsimp. rewrite vsum_rsum. f_equal. f_equal.
  unfold vmap. revert weights. induction w; destruct weights; simpl; auto. f_equal. apply IHw.
Qed.

Theorem WeightedL1_unpenalized_contributes_zero alpha (weights w : list R) (j : nat) x :
  (j < length w)%nat -> length w = length weights -> nth j weights 0 = 0 ->
  @WeightedL1_value R _ alpha weights false (set_nth w j x) = @WeightedL1_value R _ alpha weights false w.
Proof.
  intros Hj Hl Hz. rewrite !WeightedL1_value_spec. f_equal. f_equal. f_equal.
  rewrite (rsum_vmap2_set_nth (fun x y => Rabs x * y)) by assumption. rewrite Hz. lra.
Qed.
