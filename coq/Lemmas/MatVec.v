(* X @ w as the code computes it (mv: accumulation of w_j * column_j) equals the coordinate-wise linear form
   lin_at used by the consistency invariants; consistent starting points of the solvers. *)
From Coq Require Import Reals Lra Lia ZArith List Bool.
Require Import SK.Base.Res SK.Base.Num SK.Base.RInst SK.Lemmas.VecFacts SK.Lemmas.Consistency.
Import ListNotations.
Local Open Scope R_scope.

Lemma vaxpy_length c (x y : list R) : length x = length y -> length (vaxpy c x y) = length y.
Proof. intros Hl. unfold vaxpy. rewrite vmap2_length; [|exact Hl]. exact Hl. Qed.

Lemma nth_vaxpy c (x y : list R) i : (i < length x)%nat -> (i < length y)%nat ->
  nth i (vaxpy c x y) 0 = nth i y 0 + c * nth i x 0.
Proof. intros Hx Hy. unfold vaxpy. rewrite nth_vmap2 by assumption. reflexivity. Qed.

Lemma lin_at_cons c X wj w i : lin_at (c :: X) (wj :: w) i = wj * nth i c 0 + lin_at X w i.
Proof. unfold lin_at. simpl. reflexivity. Qed.
Lemma lin_at_nil_l X i : lin_at X [] i = 0.
Proof. unfold lin_at. destruct X; reflexivity. Qed.
Lemma lin_at_nil_X w i : lin_at [] w i = 0.
Proof. unfold lin_at. destruct w; reflexivity. Qed.

Lemma mv_from_spec n X : forall acc w, wf_X n X -> length acc = n ->
  length (mv_from acc X w) = n /\ forall i, (i < n)%nat -> nth i (mv_from acc X w) 0 = nth i acc 0 + lin_at X w i.
Proof.
  induction X as [|c X IH]; intros acc w HX Hacc.
  - simpl. split; [assumption|]. intros i Hi. rewrite lin_at_nil_X. ring.
  - destruct w as [|wj w].
    + simpl. split; [assumption|]. intros i Hi. rewrite lin_at_nil_l. ring.
    + simpl. inversion HX as [|c' X' Hc HX']; subst.
      destruct (IH (vaxpy wj c acc) w HX') as [H1 H2]; [rewrite vaxpy_length; lia|].
      split; [assumption|]. intros i Hi. rewrite H2 by assumption. rewrite nth_vaxpy by lia. rewrite lin_at_cons. ring.
Qed.

Lemma nth_repeat0 n i : nth i (repeat 0 n) 0 = 0.
Proof. revert i; induction n; destruct i; simpl; auto. Qed.

Theorem mv_spec n X w : wf_X n X ->
  length (mv n X w) = n /\ forall i, (i < n)%nat -> nth i (mv n X w) 0 = lin_at X w i.
Proof.
  intros HX. unfold mv. destruct (mv_from_spec n X (repeat f0 n) w HX) as [H1 H2]; [apply repeat_length|].
  split; [assumption|]. intros i Hi. rewrite H2 by assumption.
  change f0 with 0. rewrite nth_repeat0. ring.
Qed.

Lemma lin_at_zeros X k i : lin_at X (repeat 0 k) i = 0.
Proof.
  unfold lin_at. revert k. induction (map (fun col : list R => nth i col 0) X) as [|a l IH]; intros k.
  - destruct k; reflexivity.
  - destruct k; [reflexivity|]. simpl. rewrite IH. ring.
Qed.

(* starting points: Xw = X w + c *)
Lemma cons_from_mv n X w c : wf_X n X -> length c = n -> Cons n X w c (vmap2 Rplus (mv n X w) c).
Proof.
  intros HX Hc. destruct (mv_spec n X w HX) as [H1 H2]. split.
  - rewrite vmap2_length; lia.
  - intros i Hi. rewrite nth_vmap2 by lia. rewrite H2 by assumption. reflexivity.
Qed.
Lemma cons_zero n X k c : length c = n -> Cons n X (repeat 0 k) c c.
Proof. intros Hc. split; [assumption|]. intros i Hi. rewrite lin_at_zeros. ring. Qed.
