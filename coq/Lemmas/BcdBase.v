(* Helper lemmas shared by the facts about the regenerated group-BCD / prox-Newton kernels. *)
From Coq Require Import Reals Lra Lia ZArith List Bool.
Require Import SK.Base.Res SK.Base.Num SK.Base.RInst SK.Lemmas.VecFacts SK.Lemmas.Loops.
Import ListNotations.
Local Open Scope R_scope.

Lemma for_enum_from_ext_inv {S} (Inv : S -> Prop) (b1 b2 : Z -> Z -> S -> res S) ws : forall idx s0,
  Inv s0 -> (forall i j s, In j ws -> Inv s -> b1 i j s = b2 i j s) ->
  (forall i j s s', In j ws -> Inv s -> b2 i j s = Ok s' -> Inv s') ->
  for_enum_from idx ws b1 s0 = for_enum_from idx ws b2 s0.
Proof.
  induction ws as [|j ws IH]; intros idx s0 H0 He Hp; simpl; [reflexivity|].
  rewrite (He idx j s0 (or_introl eq_refl) H0). destruct (b2 idx j s0) as [s1|e] eqn:E; cbn [bind]; [|reflexivity].
  apply IH; [eapply Hp; eauto; left; reflexivity| |]; intros; [apply He|eapply Hp]; eauto; right; assumption.
Qed.

Lemma in_slice {A} (l s : list A) lo hi x : slice l lo hi = Ok s -> In x s -> In x l.
Proof.
  unfold slice. destruct (_ && _ && _)%bool; [|discriminate]. intros E Hin. inversion E; subst s.
  assert (H1 : forall k (l : list A) x, In x (firstn k l) -> In x l).
  { intros k. induction k; intros l0 x0 Hx; simpl in Hx; [contradiction|]. destruct l0; simpl in Hx; [contradiction|].
    destruct Hx as [->|Hx]; [left; reflexivity|right; apply IHk; exact Hx]. }
  assert (H2 : forall k (l : list A) x, In x (skipn k l) -> In x l).
  { intros k. induction k; intros l0 x0 Hx; simpl in Hx; [exact Hx|]. destruct l0; simpl in Hx; [contradiction|]. right. apply IHk. exact Hx. }
  eapply H2. eapply H1. exact Hin.
Qed.

