(* C07: generated prox_MCP is a global minimiser of the MCP prox objective on its admissible range. *)
From Coq Require Import Reals Lra Lia ZArith QArith List Bool Psatz.
Require Import SK.Base.Res SK.Base.Num SK.Base.RInst.
Require Import SK.Gen.ProxFuncs SK.Gen.PenSeparable SK.Lemmas.ProxScalar.
Import ListNotations.
Local Open Scope R_scope.

(* scalar MCP, as in the docstring of MCPenalty *)
Definition mcp1 (alpha gamma v : R) : R :=
  if Rlt_dec (Rabs v) (gamma * alpha) then alpha * Rabs v - v ^ 2 / (2 * gamma) else gamma * alpha ^ 2 / 2.

Lemma prox_MCP_cases x s alpha gamma pos weight p :
  0 < gamma -> weight * s < gamma ->
  @prox_MCP R _ x s alpha gamma pos weight = Ok p ->
  ((Rabs x <= alpha * (weight * s) \/ (pos = true /\ x <= 0)) /\ p = 0) \/
  (~ (Rabs x <= alpha * (weight * s)) /\ (pos = false \/ 0 < x) /\ alpha * gamma < Rabs x /\ p = x) \/
  (~ (Rabs x <= alpha * (weight * s)) /\ (pos = false \/ 0 < x) /\ ~ alpha * gamma < Rabs x /\
     p = Rsign x * (Rabs x - alpha * (weight * s)) / (1 - weight * s / gamma)).
Proof.
  intros Hg Hws. unfold prox_MCP; rsimp. intros H0.
  destruct (Rle_dec (Rabs x) (alpha * (weight * s))) as [H1|H1]; cbn in H0.
  { inversion H0; subst. left. split; [left; exact H1|reflexivity]. }
  destruct (pos && (if Rle_dec x 0 then true else false)) eqn:E; cbn in H0.
  { inversion H0; subst. left. split; [right|reflexivity].
    apply andb_true_iff in E as [-> E]. destruct (Rle_dec x 0); [auto|discriminate]. }
  assert (Hpos' : pos = false \/ 0 < x).
  { destruct pos; auto. cbn in E. destruct (Rle_dec x 0); [discriminate|]. right; lra. }
  destruct (Rlt_dec (alpha * gamma) (Rabs x)) as [H2|H2].
  { inversion H0. subst. right; left. repeat split; assumption. }
  destruct (Req_EM_T gamma 0); [lra|]. cbn in H0.
  destruct (Req_EM_T (1 - weight * s / gamma) 0) as [e|e]; cbn in H0.
  { exfalso. assert (weight * s / gamma < 1). { apply (Rmult_lt_reg_r gamma); [lra|]. field_simplify; lra. } lra. }
  inversion H0; subst. right; right. repeat split; assumption.
Qed.

(* the problem on non-negative reals: a = |x|, m = |v| *)
Definition mcpN (alpha gamma ig m : R) : R :=
  if Rlt_dec m (gamma * alpha) then alpha * m - m ^ 2 * ig / 2 else gamma * alpha ^ 2 / 2.

Lemma mcp1_abs alpha gamma v : 0 < gamma -> mcp1 alpha gamma v = mcpN alpha gamma (/ gamma) (Rabs v).
Proof.
  intros Hg. unfold mcp1, mcpN. destruct (Rlt_dec (Rabs v) (gamma * alpha)); [|reflexivity].
  rewrite pow2_abs. field. lra.
Qed.

Section NonNeg.
Variables (alpha gamma ig t a : R).
Hypotheses (Ha : 0 <= alpha) (Hg : 0 < gamma) (Hig : gamma * ig = 1) (Ht0 : 0 <= t) (Ht : t < gamma) (Haa : 0 <= a).
Let HN (m : R) := (m - a) ^ 2 / 2 + t * mcpN alpha gamma ig m.

Lemma ig_pos : 0 < ig.
Proof. destruct (Rlt_dec 0 ig); [assumption|]. exfalso. assert (gamma * ig <= 0) by nra. lra. Qed.
Lemma q_pos : 0 < 1 - t * ig.
Proof. pose proof ig_pos. assert (t * ig < gamma * ig) by (apply Rmult_lt_compat_r; lra). lra. Qed.

Lemma mcpN_zero_case m : 0 <= m -> a <= alpha * t -> HN 0 <= HN m.
Proof.
  intros Hm H1. unfold HN, mcpN. pose proof ig_pos as Hi. pose proof q_pos as Hq.
  destruct (Rlt_dec 0 (gamma * alpha)) as [H0|H0]; destruct (Rlt_dec m (gamma * alpha)) as [H2|H2].
  - assert (0 <= m * (alpha * t - a)) by (apply Rmult_le_pos; lra).
    assert (0 <= (1 - t * ig) * m ^ 2) by (apply Rmult_le_pos; [lra|apply pow2_ge_0]). nra.
  - set (d := m - gamma * alpha). assert (Hd : 0 <= d) by (unfold d; lra).
    assert (0 <= alpha * d * (gamma - t)) by (apply Rmult_le_pos; [apply Rmult_le_pos|]; lra).
    assert (0 <= gamma * alpha ^ 2 * (gamma - t)) by (apply Rmult_le_pos; [apply Rmult_le_pos; [lra|apply pow2_ge_0]|lra]).
    assert (0 <= d ^ 2) by apply pow2_ge_0.
    assert (0 <= m * (alpha * t - a)) by (apply Rmult_le_pos; lra).
    replace m with (gamma * alpha + d) in * by (unfold d; ring). nra.
  - exfalso; lra.
  - assert (alpha = 0) by nra. subst alpha. assert (a = 0) by lra. subst a. pose proof (pow2_ge_0 m). nra.
Qed.

Lemma mcpN_id_case m : 0 <= m -> alpha * gamma < a -> HN a <= HN m.
Proof.
  intros Hm H1. unfold HN, mcpN. pose proof ig_pos as Hi. pose proof q_pos as Hq.
  destruct (Rlt_dec a (gamma * alpha)) as [H0|H0]; [exfalso; lra|].
  destruct (Rlt_dec m (gamma * alpha)) as [H2|H2].
  - (* (m-a)^2/2 + t(alpha m - m^2 ig/2) >= t gamma alpha^2/2 *)
    set (d := gamma * alpha - m). assert (Hd : 0 < d) by (unfold d; lra).
    assert (He : 0 < a - gamma * alpha) by lra.
    (* (m - a)^2 >= d^2 ; t(alpha m - m^2 ig/2) - t gamma alpha^2/2 = - t ig d^2 /2 *)
    assert (Hid : alpha * m - m ^ 2 * ig / 2 - gamma * alpha ^ 2 / 2 = - ig * d ^ 2 / 2).
    { transitivity (- (gamma * ig) * gamma * alpha ^ 2 / 2 + (gamma * ig) * alpha * m - ig * m ^ 2 / 2);
        [rewrite Hig; field|unfold d; field]. }
    assert (Hsq : d ^ 2 <= (m - a) ^ 2) by nra.
    assert (0 <= (1 - t * ig) * d ^ 2) by (apply Rmult_le_pos; [lra|apply pow2_ge_0]).
    nra.
  - pose proof (pow2_ge_0 (m - a)). nra.
Qed.

Lemma mcpN_mid_case m P : 0 <= m -> alpha * t < a -> a <= alpha * gamma ->
  P * (1 - t * ig) = a - alpha * t -> HN P <= HN m.
Proof.
  intros Hm H1 H2 HP. unfold HN, mcpN. pose proof ig_pos as Hi. pose proof q_pos as Hq.
  set (q := 1 - t * ig) in *.
  assert (HP0 : 0 < P) by nra.
  assert (HPle : P <= gamma * alpha).
  { assert (a - alpha * t <= gamma * alpha * q). { unfold q. replace (gamma * alpha * (1 - t * ig)) with (gamma * alpha - alpha * t * (gamma * ig)) by ring. rewrite Hig. lra. }
    nra. }
  (* value at P, both formulas agree at the boundary *)
  assert (HvalP : (P - a) ^ 2 / 2 + t * (alpha * P - P ^ 2 * ig / 2) = a ^ 2 / 2 - q * P ^ 2 / 2).
  { unfold q in *. nra. }
  assert (Hbd : gamma * alpha ^ 2 / 2 = alpha * (gamma * alpha) - (gamma * alpha) ^ 2 * ig / 2).
  { replace ((gamma * alpha) ^ 2 * ig) with (gamma * alpha ^ 2 * (gamma * ig)) by ring. rewrite Hig. field. }
  assert (HinP : (if Rlt_dec P (gamma * alpha) then alpha * P - P ^ 2 * ig / 2 else gamma * alpha ^ 2 / 2)
                 = alpha * P - P ^ 2 * ig / 2).
  { destruct (Rlt_dec P (gamma * alpha)); [reflexivity|]. assert (P = gamma * alpha) by lra. subst P. exact Hbd. }
  rewrite HinP, HvalP.
  (* inside formula at any m: a^2/2 - q P^2/2 + q (m-P)^2/2 *)
  assert (Hin : forall m', (m' - a) ^ 2 / 2 + t * (alpha * m' - m' ^ 2 * ig / 2)
                          = a ^ 2 / 2 - q * P ^ 2 / 2 + q * (m' - P) ^ 2 / 2).
  { intros m'. unfold q in *. nra. }
  destruct (Rlt_dec m (gamma * alpha)) as [H3|H3].
  - rewrite Hin. assert (0 <= q * (m - P) ^ 2) by (apply Rmult_le_pos; [lra|apply pow2_ge_0]). lra.
  - (* outside: (m-a)^2 >= (gamma alpha - a)^2 *)
    pose proof (Hin (gamma * alpha)) as Hb. rewrite <- Hbd in Hb.
    assert (0 <= q * (gamma * alpha - P) ^ 2) by (apply Rmult_le_pos; [lra|apply pow2_ge_0]).
    assert ((gamma * alpha - a) ^ 2 <= (m - a) ^ 2) by nra.
    lra.
Qed.
End NonNeg.

Lemma sq_abs_diff v x : (Rabs v - Rabs x) ^ 2 <= (v - x) ^ 2.
Proof. rabs; nra. Qed.

Theorem prox_MCP_opt x s alpha gamma weight p :
  0 <= alpha -> 0 < gamma -> 0 <= weight * s -> weight * s < gamma ->
  @prox_MCP R _ x s alpha gamma false weight = Ok p ->
  forall v, pobj (mcp1 alpha gamma) (weight * s) x p <= pobj (mcp1 alpha gamma) (weight * s) x v.
Proof.
  intros Ha Hg Hws0 Hws H0 v. apply prox_MCP_cases in H0; [|lra|lra].
  set (t := weight * s) in *.
  assert (Hig : gamma * / gamma = 1) by (apply Rinv_r; lra).
  unfold pobj. rewrite !mcp1_abs by lra.
  pose proof (sq_abs_diff v x) as Hvx.
  assert (Hred : forall P, (P - Rabs x) ^ 2 / 2 + t * mcpN alpha gamma (/ gamma) P <=
                           (Rabs v - Rabs x) ^ 2 / 2 + t * mcpN alpha gamma (/ gamma) (Rabs v) ->
                 (P - Rabs x) ^ 2 / 2 + t * mcpN alpha gamma (/ gamma) P <=
                 (v - x) ^ 2 / 2 + t * mcpN alpha gamma (/ gamma) (Rabs v)) by (intros; lra).
  pose proof (Rabs_pos x) as Hax. pose proof (Rabs_pos v) as Hav.
  destruct H0 as [[[H1|[H1 _]] ->]|[(H1&_&H2&->)|(H1&_&H2&->)]]; try discriminate.
  - rewrite Rabs_R0. replace ((0 - x) ^ 2) with ((0 - Rabs x) ^ 2) by (rabs; nra).
    apply Hred. apply mcpN_zero_case; auto.
  - replace ((x - x) ^ 2) with ((Rabs x - Rabs x) ^ 2) by ring.
    apply Hred. apply mcpN_id_case; auto; lra.
  - set (q := 1 - t / gamma) in *.
    assert (Hq : 0 < q). { unfold q, Rdiv. eapply q_pos; eauto. }
    set (P := (Rabs x - alpha * t) / q).
    assert (Hx0 : x <> 0). { intros ->. rewrite Rabs_R0 in H1. apply H1. apply Rmult_le_pos; lra. }
    assert (HP : 0 < P). { unfold P. apply Rmult_lt_0_compat; [lra|apply Rinv_0_lt_compat; lra]. }
    assert (Hp : Rsign x * (Rabs x - alpha * t) / q = Rsign x * P) by (unfold P; field; lra).
    rewrite Hp.
    assert (Hs1 : Rsign x * Rsign x = 1).
    { destruct (Rtotal_order x 0) as [H|[H|H]]; [rewrite Rsign_neg by lra; ring|contradiction|rewrite Rsign_pos by lra; ring]. }
    assert (HabsP : Rabs (Rsign x * P) = P).
    { destruct (Rtotal_order x 0) as [H|[H|H]]; [rewrite Rsign_neg by lra|contradiction|rewrite Rsign_pos by lra]; rabs; lra. }
    rewrite HabsP.
    replace ((Rsign x * P - x) ^ 2) with ((P - Rabs x) ^ 2).
    2:{ rewrite <- (Rsign_mul_abs x) at 3. transitivity ((Rsign x * Rsign x) * (P - Rabs x) ^ 2); [rewrite Hs1|]; ring. }
    apply Hred. apply mcpN_mid_case; auto; try lra.
    unfold P, q. unfold Rdiv. field. split; [lra|]. fold (t / gamma). unfold q in Hq. unfold Rdiv in *. lra.
Qed.
