(* Anderson extrapolation keeps the model fit consistent: an affine combination (coefficients summing to one) of pairs
   (w_k, Xw_k) with Xw_k = X w_k + c again satisfies Xw = X w + c.  Instantiated on the model of AndersonAcceleration
   (Skel/Anderson.v): whatever np.linalg.solve returns, the extrapolated pair is consistent when the stored pairs are. *)
From Coq Require Import Reals Lra Lia ZArith List Bool.
Require Import SK.Base.Res SK.Base.Num SK.Base.RInst SK.Lemmas.VecFacts SK.Lemmas.Consistency SK.Lemmas.MatVec SK.Skel.Anderson.
Import ListNotations.
Local Open Scope R_scope.

Lemma lin_at_add X a b i : length a = length X -> length b = length X ->
  lin_at X (vmap2 Rplus a b) i = lin_at X a i + lin_at X b i.
Proof.
  unfold lin_at. generalize (map (fun col : list R => nth i col 0) X) as xs. intros xs.
  intros Ha Hb. assert (Hl : length a = length b) by lia. clear Ha Hb. revert b xs Hl.
  induction a as [|x a IH]; intros [|y b] xs Hl; simpl in Hl; try discriminate.
  - simpl. destruct xs; simpl; lra.
  - destruct xs as [|z xs]; simpl; [lra|]. rewrite IH by lia. ring.
Qed.
Lemma lin_at_scale X c a i : lin_at X (map (fun e => c * e) a) i = c * lin_at X a i.
Proof.
  unfold lin_at. generalize (map (fun col : list R => nth i col 0) X) as xs. intros xs. revert xs.
  induction a as [|x a IH]; intros xs; simpl; [destruct xs; simpl; ring|].
  destruct xs as [|z xs]; simpl; [ring|]. rewrite IH. ring.
Qed.

Lemma comb_length n (C : list R) vs : Forall (fun v => length v = n) vs -> length (@comb R _ n C vs) = n.
Proof.
  revert vs. induction C as [|c C IH]; intros vs Hv; simpl; [apply repeat_length|].
  destruct vs as [|v vs]; [apply repeat_length|]. inversion Hv; subst.
  rewrite vmap2_length; unfold vmap; rewrite map_length; [reflexivity|]. rewrite IH by assumption. reflexivity.
Qed.

(* the combination is consistent, with the constant part scaled by the sum of the coefficients *)
Lemma comb_cons n X c (C : list R) : forall pairs,
  wf_X n X -> length c = n -> length C = length pairs ->
  Forall (fun p => Cons n X (fst p) c (snd p) /\ length (fst p) = length X) pairs ->
  let w := @comb R _ (length X) C (map fst pairs) in
  let Xw := @comb R _ n C (map snd pairs) in
  length w = length X /\ length Xw = n /\
  forall i, (i < n)%nat -> nth i Xw 0 = lin_at X w i + rsum C * nth i c 0.
Proof.
  induction C as [|ck C IH]; intros pairs HX Hc Hl Hp; cbn zeta.
  - destruct pairs; [|discriminate]. simpl. change (@fofZ R _ 0) with 0.
    split; [apply repeat_length|]. split; [apply repeat_length|]. intros i Hi.
    rewrite nth_repeat0. rewrite lin_at_zeros. ring.
  - destruct pairs as [|[wk Xk] pairs]; [discriminate|]. simpl in Hl. apply Forall_cons_iff in Hp as [[HCk Hlk] Hrest].
    simpl in HCk, Hlk. destruct (IH pairs HX Hc ltac:(lia) Hrest) as (H1 & H2 & H3).
    cbn [map comb fst snd]. cbn [fadd fmul RNum]. destruct HCk as [HlenXk HCk].
    split; [rewrite vmap2_length; unfold vmap; rewrite map_length; lia|].
    split; [rewrite vmap2_length; unfold vmap; rewrite map_length; lia|].
    intros i Hi. unfold vmap. rewrite nth_vmap2 by (rewrite ?map_length; lia). rewrite nth_map_R by lia.
    rewrite H3 by assumption. rewrite HCk by assumption.
    rewrite lin_at_add by (rewrite ?map_length; lia). rewrite lin_at_scale. cbn [rsum]. ring.
Qed.

Theorem affine_combination_consistent n X c (C : list R) pairs :
  wf_X n X -> length c = n -> length C = length pairs -> rsum C = 1 ->
  Forall (fun p => Cons n X (fst p) c (snd p) /\ length (fst p) = length X) pairs ->
  Cons n X (@comb R _ (length X) C (map fst pairs)) c (@comb R _ n C (map snd pairs)) /\
  length (@comb R _ (length X) C (map fst pairs)) = length X.
Proof.
  intros HX Hc Hl Hs Hp. destruct (comb_cons n X c C pairs HX Hc Hl Hp) as (H1 & H2 & H3).
  split; [|exact H1]. split; [exact H2|]. intros i Hi. rewrite H3 by assumption. rewrite Hs. ring.
Qed.

(* z / sum z sums to one *)
Lemma normalised_sums_to_one (z C : list R) : mapM (fun zk => fdiv zk (vsum z)) z = Ok C -> z <> [] -> rsum C = 1 /\ length C = length z.
Proof.
  intros Hm Hz. rewrite vsum_rsum in Hm.
  assert (Hs : rsum z <> 0).
  { destruct z as [|z0 z]; [congruence|]. cbn [mapM] in Hm. apply bind_ok in Hm as (b & Hb & _).
    cbn [fdiv RNum] in Hb. destruct (Req_EM_T (rsum (z0 :: z)) 0); [discriminate|assumption]. }
  assert (HC : C = map (fun x => x / rsum z) z).
  { rewrite (mapM_ok (fun zk => fdiv zk (rsum z)) (fun x => x / rsum z)) in Hm; [inversion Hm; reflexivity|].
    intros a. cbn [fdiv RNum]. destruct (Req_EM_T (rsum z) 0); [contradiction|reflexivity]. }
  subst C. split; [|apply map_length]. rewrite rsum_div. field. exact Hs.
Qed.

(* the model of AndersonAcceleration: stored pairs consistent => extrapolated pair consistent, for ANY solve_z *)
Section AA.
Variables (K : nat) (solve_z : list (list R) -> option (list R)).
Variables (n : nat) (X : list (list R)) (c : list R).
Hypothesis HX : wf_X n X.
Hypothesis Hc : length c = n.
(* the solver returns one coefficient per difference vector, i.e. K of them *)
Hypothesis solve_len : forall U z, solve_z U = Some z -> length z = length U /\ z <> [].

Definition AAI (st : @aa_state R) : Prop :=
  Forall (fun p => Cons n X (fst p) c (snd p) /\ length (fst p) = length X) st.

Lemma diffs_length (ws : list (list R)) : length (@diffs R _ ws) = (length ws - 1)%nat.
Proof.
  induction ws as [|a ws IH]; [reflexivity|]. destruct ws as [|b ws]; [reflexivity|].
  change (diffs (a :: b :: ws)) with (vmap2 fsub b a :: diffs (b :: ws)). simpl length in *. rewrite IH. lia.
Qed.

Theorem aa_step_consistent st w Xw w' Xw' ext st' :
  AAI st -> Cons n X w c Xw -> length w = length X ->
  aa_step K solve_z st w Xw = Ok (w', Xw', ext, st') ->
  AAI st' /\ (ext = true -> Cons n X w' c Xw' /\ length w' = length X).
Proof.
  intros HI HC Hlw Hs. unfold aa_step in Hs. destruct (length st <=? K)%nat.
  - inversion Hs; subst. split; [|discriminate]. unfold AAI. apply Forall_app. split; [exact HI|]. constructor; [|constructor]. simpl. auto.
  - destruct (solve_z (diffs (map fst st))) as [z|] eqn:Hz.
    + apply bind_ok in Hs as (C & HCm & Hs). inversion Hs; subst. split; [constructor|]. intros _.
      destruct (solve_len _ _ Hz) as [Hzl Hzn]. destruct (normalised_sums_to_one z C HCm Hzn) as [Hsum HlC].
      rewrite diffs_length, map_length in Hzl.
      assert (Htl : Forall (fun p => Cons n X (fst p) c (snd p) /\ length (fst p) = length X) (tl st)).
      { destruct st; [constructor|]. inversion HI; assumption. }
      assert (Hlen : length C = length (tl st)) by (destruct st; simpl in *; lia).
      rewrite Hlw. destruct HC as [HlXw _]. rewrite HlXw.
      exact (affine_combination_consistent n X c C (tl st) HX Hc Hlen Hsum Htl).
    + inversion Hs; subst. split; [constructor|discriminate].
Qed.
End AA.
