(* C06: generic chain rule for sums of scalar losses over the linear predictor, in Coquelicot. *)
From Coq Require Import Reals Lra Lia List.
From Coquelicot Require Import Coquelicot.
Require Import SK.Base.Res SK.Base.Num SK.Base.RInst SK.Lemmas.VecFacts.
Import ListNotations.
Local Open Scope R_scope.

(* the point z + t x of the linear predictor *)
Definition zline (z x : list R) (t : R) : list R := vmap2 (fun zi xi => zi + t * xi) z x.

Lemma zline_0 z x : length x = length z -> zline z x 0 = z.
Proof.
  revert x; induction z as [|z0 z IH]; destruct x; simpl; intros; try discriminate; auto.
  unfold zline in *. simpl. f_equal; [lra|apply IH; lia].
Qed.

(* sum_i l(y_i, z_i): derivative along the line z + t x is sum_i x_i l'(y_i, z_i) *)
Lemma is_derive_loss_sum (l l' : R -> R -> R) (y z x : list R) :
  length y = length z -> length x = length z ->
  Forall2 (fun yi zi => is_derive (l yi) zi (l' yi zi)) y z ->
  is_derive (fun t => rsum (vmap2 l y (zline z x t))) 0 (rsum (vmap2 Rmult x (vmap2 l' y z))).
Proof.
  revert z x. induction y as [|y0 y IH]; intros z x Hyz Hxz HF.
  - destruct z; [|discriminate]. simpl. apply (is_derive_ext (fun _ => 0)); [reflexivity|].
    replace (rsum (vmap2 Rmult x [])) with 0 by (destruct x; reflexivity). apply @is_derive_const.
  - destruct z as [|z0 z]; [discriminate|]. destruct x as [|x0 x]; [discriminate|].
    inversion HF as [|? ? ? ? Hd HF']; subst. simpl.
    apply (is_derive_plus (fun t => l y0 (z0 + t * x0)) (fun t => rsum (vmap2 l y (zline z x t))) 0
                          (x0 * l' y0 z0) (rsum (vmap2 Rmult x (vmap2 l' y z)))).
    + replace (x0 * l' y0 z0) with (x0 * l' y0 (z0 + 0 * x0)) by (f_equal; f_equal; lra).
      apply (is_derive_comp (l y0) (fun t => z0 + t * x0) 0 (l' y0 (z0 + 0 * x0)) x0).
      * replace (z0 + 0 * x0) with z0 by lra. exact Hd.
      * auto_derive; [exact I|ring].
    + apply IH; simpl in *; try lia; assumption.
Qed.

(* scaling by 1/n *)
Lemma is_derive_loss_mean (l l' : R -> R -> R) (y z x : list R) (n : R) :
  length y = length z -> length x = length z ->
  Forall2 (fun yi zi => is_derive (l yi) zi (l' yi zi)) y z ->
  is_derive (fun t => rsum (vmap2 l y (zline z x t)) / n) 0 (rsum (vmap2 Rmult x (vmap2 l' y z)) / n).
Proof.
  intros. unfold Rdiv.
  apply (is_derive_ext (fun t => / n * rsum (vmap2 l y (zline z x t)))); [intros; apply Rmult_comm|].
  replace (rsum (vmap2 Rmult x (vmap2 l' y z)) * / n) with (/ n * rsum (vmap2 Rmult x (vmap2 l' y z))) by ring.
  apply is_derive_scal. apply is_derive_loss_sum; assumption.
Qed.

Lemma Forall2_all {A B} (P : A -> B -> Prop) (a : list A) (b : list B) :
  length a = length b -> (forall x y, P x y) -> Forall2 P a b.
Proof. revert b; induction a; destruct b; simpl; intros; try discriminate; constructor; auto. Qed.
