(* C10 for ProxNewton: the sparse helper kernels of prox_newton.py (regenerated in Gen/KernPN.v) compute what the dense
   kernels compute with the dense column the CSC arrays denote. *)
From Coq Require Import Reals Lra Lia ZArith List Bool.
Require Import SK.Base.Res SK.Base.Num SK.Base.RInst SK.Lemmas.VecFacts SK.Lemmas.Loops SK.Lemmas.Csc SK.Lemmas.Consistency
               SK.Lemmas.SparseEpoch.
Require Import SK.Gen.KernPN.
Import ListNotations.
Local Open Scope R_scope.

(* X_delta_w += diff * X[:, j] *)
Theorem update_X_delta_w_is_dense_axpy n M j lo hi (Xd : list R) (diff : R) :
  col_bounds M j lo hi -> wf_col n M lo hi -> length Xd = n ->
  @_update_X_delta_w R _ (cdata M) (cindptr M) (cindices M) Xd diff j
  = Ok (vmap2 Rplus Xd (map (fun e => diff * e) (dense_col n M lo hi))).
Proof.
  intros [Hlo Hhi] Hwf Hn. unfold _update_X_delta_w. rewrite Hlo, Hhi. cbn [bind].
  rewrite (sparse_axpy_loop n M lo hi Xd diff Hwf Hn). reflexivity.
Qed.

(* X[:, j] @ (weights * other) *)
Theorem sparse_weighted_dot_is_dense n M j lo hi (other weights : list R) :
  col_bounds M j lo hi -> wf_col n M lo hi -> length other = n -> length weights = n ->
  @_sparse_weighted_dot R _ (cdata M) (cindptr M) (cindices M) j other weights
  = Ok (vdot (dense_col n M lo hi) (vmap2 fmul weights other)).
Proof.
  intros [Hlo Hhi] Hwf Ho Hw. unfold _sparse_weighted_dot. rewrite Hlo, Hhi. cbn [bind].
  assert (Hlu : length (vmap2 Rmult weights other) = n) by (rewrite vmap2_length; lia).
  rewrite vdot_rsum. cbn [fmul RNum]. rewrite <- (csc_col_dot n M lo hi (vmap2 Rmult weights other) Hwf Hlu).
  rewrite (for_each_accum (zrange lo hi) _ (fun i => dat M i * nth (Z.to_nat (row M i)) (vmap2 Rmult weights other) 0)).
  - cbn [bind fofZ RNum]. unfold ret. f_equal. lra.
  - intros i acc Hin. apply in_zrange in Hin. destruct (wf_col_reads _ _ _ _ _ Hwf Hin) as (H1 & H2 & H3).
    rewrite H1, H2. cbn [bind]. rewrite (get_idx_nthZ other (row M i) 0) by lia. cbn [bind].
    rewrite (get_idx_nthZ weights (row M i) 0) by lia. cbn [bind fadd fmul RNum]. unfold ret. f_equal.
    rewrite nth_vmap2 by lia. lra.
Qed.

(* weights @ X[:, j] ** 2 -- here duplicates would NOT add up the same way ((a + b)^2 <> a^2 + b^2): the stored rows of
   the column must be distinct (canonical CSC, what scipy builds) *)
Definition rows_distinct (M : csc) (lo hi : Z) : Prop := NoDup (map (fun i => Z.to_nat (row M i)) (zrange lo hi)).

Lemma sq_add_at (c : list R) r d : nth r c 0 = 0 -> map (fun x => x * x) (add_at c r d) = add_at (map (fun x => x * x) c) r (d * d).
Proof.
  revert r; induction c as [|x c IH]; intros r Hr; [destruct r; reflexivity|]. destruct r; simpl in *.
  - subst x. f_equal. lra.
  - f_equal. apply IH. exact Hr.
Qed.

Lemma nth_add_at_other (c : list R) r d k : k <> r -> nth k (add_at c r d) 0 = nth k c 0.
Proof.
  revert r k; induction c as [|x c IH]; intros r k Hk; [destruct r; reflexivity|]. destruct r, k; simpl; try reflexivity; try lia.
  apply IH. lia.
Qed.

Lemma dense_fold_sq n M (l : list Z) :
  NoDup (map (fun i => Z.to_nat (row M i)) l) ->
  let D := fold_right (fun i c => add_at c (Z.to_nat (row M i)) (dat M i)) (repeat 0 n) l in
  (forall r, ~ In r (map (fun i => Z.to_nat (row M i)) l) -> nth r D 0 = 0) /\
  map (fun x => x * x) D = fold_right (fun i c => add_at c (Z.to_nat (row M i)) (dat M i * dat M i)) (repeat 0 n) l.
Proof.
  induction l as [|i l IH]; intros Hnd; simpl.
  - split; [intros r _; destruct (Nat.lt_ge_cases r n); [apply nth_repeat|apply nth_overflow; rewrite repeat_length; lia]|].
    clear. induction n; simpl; [reflexivity|]. f_equal; [lra|assumption].
  - inversion Hnd as [|? ? Hnotin Hnd']; subst. destruct (IH Hnd') as [Hz Hsq]. split.
    + intros r Hr. rewrite nth_add_at_other by (intro; apply Hr; left; congruence). apply Hz. intro; apply Hr; right; assumption.
    + rewrite sq_add_at by (apply Hz; exact Hnotin). rewrite Hsq. reflexivity.
Qed.

Theorem sparse_squared_weighted_norm_is_dense n M j lo hi (weights : list R) :
  col_bounds M j lo hi -> wf_col n M lo hi -> rows_distinct M lo hi -> length weights = n ->
  @_sparse_squared_weighted_norm R _ (cdata M) (cindptr M) (cindices M) j weights
  = Ok (vdot weights (vmap fsq (dense_col n M lo hi))).
Proof.
  intros [Hlo Hhi] Hwf Hnd Hw. unfold _sparse_squared_weighted_norm. rewrite Hlo, Hhi. cbn [bind].
  rewrite (for_each_accum (zrange lo hi) _ (fun i => (dat M i * dat M i) * nth (Z.to_nat (row M i)) weights 0)).
  2:{ intros i acc Hin. apply in_zrange in Hin. destruct (wf_col_reads _ _ _ _ _ Hwf Hin) as (H1 & H2 & H3).
      rewrite H2. cbn [bind]. rewrite (get_idx_nthZ weights (row M i) 0) by lia. cbn [bind]. rewrite H1. cbn [bind fadd fmul RNum].
      unfold ret. f_equal. lra. }
  cbn [bind fofZ RNum]. unfold ret. f_equal. rewrite vdot_rsum. unfold vmap, fsq. cbn [fmul RNum].
  destruct (dense_fold_sq n M (zrange lo hi) Hnd) as [_ Hsq]. unfold dense_col. rewrite Hsq.
  (* the squared column is the dense column of the CSC matrix with squared data *)
  assert (Hin : forall i, In i (zrange lo hi) -> (lo <= i < hi)%Z) by (intros; apply in_zrange; assumption).
  assert (Hgen : forall l, (forall i, In i l -> (lo <= i < hi)%Z) ->
     rsum (map (fun i => dat M i * dat M i * nth (Z.to_nat (row M i)) weights 0) l)
     = rsum (vmap2 Rmult weights (fold_right (fun i c => add_at c (Z.to_nat (row M i)) (dat M i * dat M i)) (repeat 0 n) l))).
  { induction l as [|i l IH]; intros Hl; simpl.
    - clear - Hw. revert weights Hw. induction n; intros [|w ws] Hw; simpl in *; try lia; try reflexivity.
      rewrite <- IHn by lia. lra.
    - assert (Hlen : length (fold_right (fun i c => add_at c (Z.to_nat (row M i)) (dat M i * dat M i)) (repeat 0 n) l) = n).
      { clear. induction l; simpl; [apply repeat_length|rewrite add_at_length; assumption]. }
      rewrite IH by (intros; apply Hl; right; assumption).
      destruct Hwf as (_ & _ & _ & Hr). specialize (Hr i (Hl i (or_introl eq_refl))).
      set (c0 := fold_right _ _ l) in *.
      assert (Hcomm : forall (a b : list R), rsum (vmap2 Rmult a b) = rsum (vmap2 Rmult b a)).
      { clear. induction a as [|x a IHa]; destruct b as [|y b]; simpl; try reflexivity. rewrite IHa. lra. }
      rewrite (Hcomm weights (add_at c0 _ _)), dot_add_at by (unfold row in *; lia). rewrite (Hcomm c0 weights). lra. }
  rewrite (Hgen (zrange lo hi) Hin). lra.
Qed.
