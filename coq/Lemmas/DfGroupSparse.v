(* C06 / C10, group datafit: the regenerated QuadraticGroup.gradient_g_sparse equals gradient_g on the dense columns the
   CSC denotes, for ANY group structure (grp_ptr / grp_indices: non-contiguous, shuffled, overlapping, ...): both walk the
   same slice of grp_indices and the per-feature accessors agree. *)
From Coq Require Import Reals Lra Lia ZArith List.
Require Import SK.Base.Res SK.Base.Num SK.Base.RInst SK.Lemmas.VecFacts SK.Lemmas.Loops SK.Lemmas.Csc SK.Lemmas.Consistency.
Require Import SK.Gen.SparseOps SK.Gen.DfGroup.
Import ListNotations.
Local Open Scope R_scope.

Lemma for_enum_from_ext {S} (b1 b2 : Z -> Z -> S -> res S) ws : forall idx s,
  (forall i j s', In j ws -> b1 i j s' = b2 i j s') -> for_enum_from idx ws b1 s = for_enum_from idx ws b2 s.
Proof.
  induction ws as [|j ws IH]; intros idx s Hb; simpl; [reflexivity|].
  rewrite (Hb idx j s (or_introl eq_refl)). destruct (b2 idx j s); simpl; [|reflexivity].
  apply IH. intros i j' s' Hin. apply Hb. right. exact Hin.
Qed.

(* acc += data[i] * (Xw[indices[i]] - y[indices[i]]) *)
Lemma sparse_resid_loop n M lo hi (Xw y : list R) acc0 :
  wf_col n M lo hi -> length Xw = n -> length y = n ->
  for_each (zrange lo hi) (fun i acc =>
    bind (get_idx (cdata M) i) (fun t3 => bind (get_idx (cindices M) i) (fun t4 => bind (get_idx Xw t4) (fun t5 =>
    bind (get_idx (cindices M) i) (fun t6 => bind (get_idx y t6) (fun t7 =>
      let acc := fadd acc (fmul t3 (fsub t5 t7)) in ret acc)))))) acc0
  = Ok (acc0 + rsum (vmap2 Rmult (dense_col n M lo hi) (vmap2 Rminus Xw y))).
Proof.
  intros Hwf HXw Hy.
  assert (Hlen : length (vmap2 Rminus Xw y) = n) by (rewrite vmap2_length; lia).
  rewrite <- (csc_col_dot n M lo hi (vmap2 Rminus Xw y) Hwf Hlen).
  apply for_each_accum. intros i acc Hin. apply in_zrange in Hin.
  destruct (wf_col_reads _ _ _ _ _ Hwf Hin) as (H1 & H2 & H3). rewrite H1, H2. cbn [bind].
  rewrite (get_idx_nthZ Xw (row M i) 0) by lia. cbn [bind].
  rewrite (get_idx_nthZ y (row M i) 0) by lia. cbn [bind]. unfold ret. cbn [fadd fmul fsub RNum].
  rewrite nth_vmap2 by lia. reflexivity.
Qed.

Theorem QuadraticGroup_gradient_scalar_sparse_eq_dense n M (X : list (list R)) y w Xw j lo hi :
  col_bounds M j lo hi -> wf_col n M lo hi -> length Xw = n -> length y = n ->
  mcol X j = Ok (dense_col n M lo hi) ->
  @QuadraticGroup_gradient_scalar_sparse R _ (cdata M) (cindptr M) (cindices M) y w Xw j
  = @QuadraticGroup_gradient_scalar R _ X y w Xw j.
Proof.
  intros [Hlo Hhi] Hwf HXw Hy Hc. unfold QuadraticGroup_gradient_scalar_sparse, QuadraticGroup_gradient_scalar.
  rewrite Hlo, Hhi, Hc. cbn [bind]. rewrite (sparse_resid_loop n M lo hi Xw y _ Hwf HXw Hy). cbn [bind].
  rewrite vdot_rsum. cbn [fofZ fsub RNum].
  replace (0 + rsum (vmap2 Rmult (dense_col n M lo hi) (vmap2 Rminus Xw y))) with
    (rsum (vmap2 Rmult (dense_col n M lo hi) (vmap2 Rminus Xw y))) by lra. reflexivity.
Qed.

Theorem QuadraticGroup_gradient_g_sparse_eq_dense n M (X : list (list R)) grp_ptr grp_indices y w Xw g :
  length Xw = n -> length y = n ->
  (forall j, In j grp_indices -> exists lo hi, col_bounds M j lo hi /\ wf_col n M lo hi /\ mcol X j = Ok (dense_col n M lo hi)) ->
  @QuadraticGroup_gradient_g_sparse R _ grp_ptr grp_indices (cdata M) (cindptr M) (cindices M) y w Xw g
  = @QuadraticGroup_gradient_g R _ grp_ptr grp_indices X y w Xw g.
Proof.
  intros HXw Hy Hcols. unfold QuadraticGroup_gradient_g_sparse, QuadraticGroup_gradient_g.
  destruct (get_idx grp_ptr g) as [t1|]; [|reflexivity]. cbn [bind].
  destruct (get_idx grp_ptr (g + 1)) as [t2|]; [|reflexivity]. cbn [bind].
  destruct (slice grp_indices t1 t2) as [grp|] eqn:Hsl; [|reflexivity]. cbn [bind].
  assert (Hsub : forall j, In j grp -> In j grp_indices).
  { unfold slice in Hsl. destruct (_ && _ && _)%bool; [|discriminate]. inversion Hsl; subst grp.
    intros j Hin.
    assert (H1 : forall {A} k (l : list A) x, In x (firstn k l) -> In x l).
    { intros A k. induction k; intros l x Hx; simpl in Hx; [contradiction|]. destruct l; simpl in Hx; [contradiction|].
      destruct Hx as [->|Hx]; [left; reflexivity|right; apply IHk; exact Hx]. }
    assert (H2 : forall {A} k (l : list A) x, In x (skipn k l) -> In x l).
    { intros A k. induction k; intros l x Hx; simpl in Hx; [exact Hx|]. destruct l; simpl in Hx; [contradiction|]. right. apply IHk. exact Hx. }
    eapply H2. eapply H1. exact Hin. }
  unfold for_enum. erewrite for_enum_from_ext; [reflexivity|].
  intros i j s' Hin. destruct (Hcols j (Hsub j Hin)) as (lo & hi & Hb & Hwf & Hc).
  rewrite (QuadraticGroup_gradient_scalar_sparse_eq_dense n M X y w Xw j lo hi Hb Hwf HXw Hy Hc). reflexivity.
Qed.
