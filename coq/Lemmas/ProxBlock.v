(* C07, block penalties: the regenerated block soft-thresholding BST(x, u) (positive = False) is a GLOBAL minimiser of
       v  |->  1/2 ||v - x||^2 + u ||v||_2
   for every x (any length, the zero vector included) and every threshold u >= 0.  This is the prox of the group-lasso /
   multitask row penalties (L2_1.prox_1feat, WeightedGroupL2.prox_1group with u = alpha * step * weight).
   Ingredients: Cauchy-Schwarz for lists, and the one-dimensional inequality in t = ||v||. *)
From Coq Require Import Reals Lra Lia ZArith List Bool Psatz.
Require Import SK.Base.Res SK.Base.Num SK.Base.RInst SK.Lemmas.VecFacts SK.Gen.ProxFuncs.
Import ListNotations.
Local Open Scope R_scope.

Definition sq (x : list R) : R := rsum (map (fun v => v * v) x).
Definition dot (a b : list R) : R := rsum (vmap2 Rmult a b).
Definition nrm (x : list R) : R := sqrt (sq x).

Lemma sq_nonneg x : 0 <= sq x.
Proof. unfold sq. induction x as [|a x IH]; simpl; [lra|]. nra. Qed.
Lemma nrm_nonneg x : 0 <= nrm x. Proof. apply sqrt_pos. Qed.
Lemma nrm_sq x : nrm x * nrm x = sq x. Proof. unfold nrm. apply sqrt_sqrt. apply sq_nonneg. Qed.

(* Cauchy-Schwarz *)
Lemma cauchy_schwarz_sq a : forall b, length a = length b -> dot a b * dot a b <= sq a * sq b.
Proof.
  induction a as [|x a IH]; intros [|y b] Hl; simpl in Hl; try discriminate.
  - unfold dot, sq; simpl. lra.
  - specialize (IH b ltac:(lia)). unfold dot, sq in *. cbn [vmap2 map rsum].
    set (Sab := rsum (vmap2 Rmult a b)) in *. set (Saa := rsum (map (fun v => v * v) a)) in *.
    set (Sbb := rsum (map (fun v => v * v) b)) in *.
    assert (Ha : 0 <= Saa) by apply sq_nonneg. assert (Hb : 0 <= Sbb) by apply sq_nonneg.
    assert (Hk : 2 * Sab * x * y <= Saa * y * y + Sbb * x * x).
    { destruct (Req_dec Saa 0) as [H0|H0].
      - assert (Hs0 : Sab = 0) by (rewrite H0 in IH; nra). rewrite Hs0, H0. nra.
      - assert (Hpos : 0 < Saa) by lra.
        assert (Hq : 0 <= Saa * (Saa * y * y - 2 * Sab * x * y + Sbb * x * x)).
        { replace (Saa * (Saa * y * y - 2 * Sab * x * y + Sbb * x * x))
            with ((Saa * y - Sab * x) * (Saa * y - Sab * x) + (Saa * Sbb - Sab * Sab) * (x * x)) by ring.
          assert (0 <= (Saa * y - Sab * x) * (Saa * y - Sab * x)) by (apply Rle_0_sqr).
          assert (0 <= (Saa * Sbb - Sab * Sab) * (x * x)) by (apply Rmult_le_pos; [lra|apply Rle_0_sqr]). lra. }
        assert (0 <= Saa * y * y - 2 * Sab * x * y + Sbb * x * x).
        { apply Rmult_le_reg_l with Saa; [exact Hpos|]. lra. }
        lra. }
    nra.
Qed.

Lemma dot_le_norms a b : length a = length b -> dot a b <= nrm a * nrm b.
Proof.
  intros Hl. pose proof (cauchy_schwarz_sq a b Hl) as H.
  pose proof (nrm_nonneg a) as Ha. pose proof (nrm_nonneg b) as Hb.
  assert (Hn : (nrm a * nrm b) * (nrm a * nrm b) = sq a * sq b).
  { replace ((nrm a * nrm b) * (nrm a * nrm b)) with ((nrm a * nrm a) * (nrm b * nrm b)) by ring. rewrite !nrm_sq. reflexivity. }
  destruct (Rle_or_lt (dot a b) 0) as [Hd|Hd]; [nra|].
  apply Rnot_lt_le. intros Hc. assert (0 <= nrm a * nrm b) by nra. nra.
Qed.

(* ||v - x||^2 = ||v||^2 - 2 <v, x> + ||x||^2 *)
Lemma sq_diff v : forall x, length v = length x -> sq (vmap2 Rminus v x) = sq v - 2 * dot v x + sq x.
Proof.
  induction v as [|a v IH]; intros [|b x] Hl; simpl in Hl; try discriminate.
  - unfold sq, dot; simpl. lra.
  - specialize (IH x ltac:(lia)). unfold sq, dot in *. cbn [vmap2 map rsum]. rewrite IH. ring.
Qed.
Lemma sq_scale s x : sq (map (fun e => s * e) x) = s * s * sq x.
Proof. unfold sq. induction x as [|a x IH]; simpl; [ring|]. rewrite IH. ring. Qed.
Lemma dot_scale_l s x y : dot (map (fun e => s * e) x) y = s * dot x y.
Proof. unfold dot. revert y. induction x as [|a x IH]; intros [|b y]; simpl; try ring. rewrite IH. ring. Qed.
Lemma dot_self x : dot x x = sq x.
Proof. unfold dot, sq. induction x as [|a x IH]; simpl; [reflexivity|]. rewrite IH. reflexivity. Qed.
Lemma sq_zeros {A} (x : list A) : sq (map (fun _ => 0) x) = 0.
Proof. unfold sq. induction x; simpl; [reflexivity|]. rewrite IHx. ring. Qed.
Lemma dot_zeros_l {A} (x : list A) y : dot (map (fun _ => 0) x) y = 0.
Proof. unfold dot. revert y. induction x; intros [|b y]; simpl; try reflexivity. rewrite IHx. ring. Qed.

(* the prox objective *)
Definition bobj (x : list R) (u : R) (v : list R) : R := / 2 * sq (vmap2 Rminus v x) + u * nrm v.

(* lower bound valid for every candidate v *)
Lemma bobj_lower x u v : 0 <= u -> length v = length x ->
  / 2 * (nrm v * nrm v) - nrm v * nrm x + / 2 * (nrm x * nrm x) + u * nrm v <= bobj x u v.
Proof.
  intros Hu Hl. unfold bobj. rewrite sq_diff by exact Hl. rewrite !nrm_sq.
  pose proof (dot_le_norms v x Hl). lra.
Qed.

Lemma vnorm_nrm (x : list R) : @vnorm R _ x = nrm x.
Proof.
  unfold vnorm, nrm, sq. cbn [fsqrt0 RNum]. f_equal. rewrite vsum_rsum. unfold vmap, fsq. cbn [fmul RNum]. reflexivity.
Qed.

Theorem BST_plain_optimal (x : list R) u r : 0 <= u -> @BST__positive_False R _ x u = Ok r ->
  length r = length x /\ forall v, length v = length x -> bobj x u r <= bobj x u v.
Proof.
  intros Hu Hr. unfold BST__positive_False in Hr. rewrite vnorm_nrm in Hr. cbn [fleb RNum] in Hr. unfold Rleb in Hr.
  pose proof (nrm_nonneg x) as Hn.
  destruct (Rle_dec (nrm x) u) as [H1|H1].
  - (* threshold to zero *)
    unfold ret in Hr. inversion Hr; subst r. clear Hr. unfold vzeros_like. split; [apply map_length|].
    intros v Hl. pose proof (bobj_lower x u v Hu Hl) as Hlow. pose proof (nrm_nonneg v) as Hv.
    assert (Hz : bobj x u (map (fun _ => 0) x) = / 2 * (nrm x * nrm x)).
    { unfold bobj. rewrite sq_diff by (rewrite map_length; reflexivity). rewrite sq_zeros, dot_zeros_l.
      assert (Hnz : nrm (map (fun _ : R => 0) x) = 0) by (unfold nrm; rewrite sq_zeros; apply sqrt_0).
      rewrite Hnz. rewrite <- (nrm_sq x). ring. }
    change (@f0 R _) with 0. rewrite Hz. nra.
  - (* shrink: r = (1 - u / ||x||) x *)
    cbn [fdiv RNum] in Hr. destruct (Req_EM_T (nrm x) 0) as [e|e]; [exfalso; lra|]. cbn [bind] in Hr. unfold ret in Hr.
    inversion Hr; subst r. clear Hr. unfold vmap. cbn [fmul fsub fofZ RNum]. split; [apply map_length|].
    intros v Hl. pose proof (bobj_lower x u v Hu Hl) as Hlow. pose proof (nrm_nonneg v) as Hv.
    set (n := nrm x) in *. assert (Hnu : u < n) by lra.
    set (s := 1 - u / n). assert (Hs : 0 < s).
    { unfold s. assert (u / n < 1) by (apply Rmult_lt_reg_r with n; [lra|]; unfold Rdiv; rewrite Rmult_assoc, Rinv_l by lra; lra). lra. }
    assert (Hsn : s * n = n - u) by (unfold s; field; lra).
    assert (Hp : bobj x u (map (fun e => s * e) x) = u * n - / 2 * (u * u)).
    { unfold bobj. rewrite sq_diff by (rewrite map_length; reflexivity). rewrite sq_scale, dot_scale_l, dot_self.
      assert (Hnrm : nrm (map (fun e => s * e) x) = s * n).
      { unfold nrm. rewrite sq_scale. replace (s * s * sq x) with ((s * n) * (s * n)) by (unfold n; rewrite <- (nrm_sq x); ring).
        apply sqrt_square. nra. }
      rewrite Hnrm. replace (sq x) with (n * n) by (unfold n; apply nrm_sq). rewrite Hsn.
      replace (s * s * (n * n)) with ((s * n) * (s * n)) by ring. replace (s * (n * n)) with ((s * n) * n) by ring. rewrite Hsn. field. }
    change (IZR 1) with 1. fold s. rewrite Hp.
    (* 1/2 t^2 - t n + 1/2 n^2 + u t - (u n - 1/2 u^2) = 1/2 (t - (n - u))^2 >= 0 *)
    pose proof (Rle_0_sqr (nrm v - (n - u))) as Hsq. unfold Rsqr in Hsq.
    assert (Hexp : (nrm v - (n - u)) * (nrm v - (n - u)) =
                   nrm v * nrm v - 2 * (nrm v * n) + 2 * (u * nrm v) + n * n - 2 * (u * n) + u * u) by ring.
    rewrite Hexp in Hsq. lra.
Qed.

(* BST with positive = False is the specialised copy *)
Lemma BST_false (x : list R) u : @BST R _ x u false = @BST__positive_False R _ x u.
Proof. reflexivity. Qed.

Require Import SK.Gen.PenBlock.
(* the multitask row penalty alpha ||W_j||_2 and the group-lasso penalty alpha * weight_g * ||w_g||_2 *)
Theorem L2_1_prox_optimal alpha (x : list R) s j r : 0 <= alpha * s ->
  @L2_1_prox_1feat R _ alpha x s j = Ok r ->
  length r = length x /\ forall v, length v = length x -> bobj x (alpha * s) r <= bobj x (alpha * s) v.
Proof.
  intros Hu Hr. unfold L2_1_prox_1feat in Hr. rewrite BST_false in Hr. cbn [fmul RNum] in Hr.
  apply bind_ok in Hr as (t & Ht & Hr). unfold ret in Hr. inversion Hr; subst t. exact (BST_plain_optimal x _ r Hu Ht).
Qed.

Theorem WeightedGroupL2_prox_optimal alpha weights (x : list R) s g wg r : get_idx weights g = Ok wg -> 0 <= alpha * s * wg ->
  @WeightedGroupL2_prox_1group R _ alpha weights false x s g = Ok r ->
  length r = length x /\ forall v, length v = length x -> bobj x (alpha * s * wg) r <= bobj x (alpha * s * wg) v.
Proof.
  intros Hw Hu Hr. unfold WeightedGroupL2_prox_1group in Hr. rewrite Hw in Hr. cbn [bind] in Hr. rewrite BST_false in Hr.
  cbn [fmul RNum] in Hr. apply bind_ok in Hr as (t & Ht & Hr). unfold ret in Hr. inversion Hr; subst t.
  exact (BST_plain_optimal x _ r Hu Ht).
Qed.
