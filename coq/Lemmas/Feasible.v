(* C04: feasibility (non-negativity / box) of every prox output, preserved by the generated CD epoch for
   any update rule whose outputs are feasible; penalty values are +inf outside the feasible set. *)
From Coq Require Import Reals Lra Lia ZArith List Bool.
Require Import SK.Base.Res SK.Base.Num SK.Base.RInst SK.Lemmas.VecFacts SK.Lemmas.Loops SK.Lemmas.Consistency.
Require Import SK.Gen.ProxFuncs SK.Gen.PenSeparable SK.Gen.KernACD SK.Lemmas.ProxScalar SK.Lemmas.ProxMCP.
Import ListNotations.
Local Open Scope R_scope.

(* ---- prox outputs ---- *)
Lemma prox_MCP_pos_nonneg x s alpha gamma weight p :
  0 <= alpha -> 0 < gamma -> 0 <= weight * s -> weight * s < gamma ->
  @prox_MCP R _ x s alpha gamma true weight = Ok p -> 0 <= p.
Proof.
  intros Ha Hg Hws0 Hws H0. apply prox_MCP_cases in H0; [|lra|lra].
  destruct H0 as [[_ ->]|[(H1&Hp&H2&->)|(H1&Hp&H2&->)]]; try lra.
  destruct Hp as [Hp|Hp]; [discriminate|]. rewrite Rsign_pos, (Rabs_right x) in * by lra.
  assert (Hq : 0 < 1 - weight * s / gamma).
  { assert (weight * s / gamma < 1); [|lra]. apply (Rmult_lt_reg_r gamma); [lra|]. unfold Rdiv. rewrite Rmult_assoc, Rinv_l; lra. }
  apply Rmult_le_pos; [nra|left; apply Rinv_0_lt_compat; assumption].
Qed.

Theorem MCPenalty_prox_pos_feasible alpha gamma s x j p :
  0 <= alpha -> 0 < gamma -> 0 <= s -> s < gamma ->
  @MCPenalty_prox_1d R _ alpha gamma true x s j = Ok p -> 0 <= p.
Proof.
  intros Ha Hg Hs0 Hs H0. unfold MCPenalty_prox_1d in H0. cbn [fofZ RNum] in H0. rewrite bind_ret_r in H0.
  apply (prox_MCP_pos_nonneg x s alpha gamma 1 p); try lra. exact H0.
Qed.

Theorem L1_prox_pos_feasible alpha s x j p : 0 <= alpha -> 0 <= s ->
  @L1_prox_1d R _ alpha true x s j = Ok p -> 0 <= p.
Proof. intros Ha Hs H0. apply (L1_prox_pos_opt alpha s x j p Ha Hs H0). Qed.
Theorem WeightedL1_prox_pos_feasible alpha weights s x j wj p : 0 <= alpha -> 0 <= s ->
  get_idx weights j = Ok wj -> 0 <= wj ->
  @WeightedL1_prox_1d R _ alpha weights true x s j = Ok p -> 0 <= p.
Proof. intros Ha Hs Hw Hwj H0. apply (WeightedL1_prox_pos_opt alpha weights s x j wj p Ha Hs Hw Hwj H0). Qed.
Theorem L1_plus_L2_prox_pos_feasible alpha rho s x j p : 0 <= alpha -> 0 <= rho <= 1 -> 0 <= s ->
  @L1_plus_L2_prox_1d R _ alpha rho true x s j = Ok p -> 0 <= p.
Proof. intros Ha Hr Hs H0. apply (L1_plus_L2_prox_pos_opt alpha rho s x j p Ha Hr Hs H0). Qed.
Theorem IndicatorBox_prox_feasible C s x j p : 0 <= C ->
  @IndicatorBox_prox_1d R _ C x s j = Ok p -> 0 <= p <= C.
Proof. intros HC H0. apply (IndicatorBox_prox_opt C s x j p HC H0). Qed.
Theorem PositiveConstraint_prox_feasible s x j p :
  @PositiveConstraint_prox_1d R _ x s j = Ok p -> 0 <= p.
Proof. intros H0. apply (PositiveConstraint_prox_opt s x j p H0). Qed.

(* ---- the epoch ---- *)
Lemma Forall_set_nth {A} (P : A -> Prop) l j v : Forall P l -> P v -> Forall P (set_nth l j v).
Proof.
  revert j; induction l as [|a l IH]; intros j Hl Hv; destruct j; simpl; auto; inversion Hl; subst; constructor; auto.
Qed.

Section Epoch.
Variable prox_1d : R -> R -> Z -> res R.
Variable gradient_scalar : list (list R) -> list R -> list R -> list R -> Z -> res R.
Variable P : R -> Prop.
Hypothesis prox_feasible : forall x s j v, prox_1d x s j = Ok v -> P v.

Theorem cd_epoch_preserves_feasible X y w Xw lc ws w' Xw' :
  Forall (fun j => (0 <= j)%Z) ws -> Forall P w ->
  @_cd_epoch R _ prox_1d gradient_scalar X y w Xw lc ws = Ok (w', Xw') -> Forall P w'.
Proof.
  intros Hws H0 Hrun. rewrite cd_epoch_unfold in Hrun.
  pose (Inv := fun s : list R * list R => Forall P (fst s)).
  apply (for_each_inv' Inv _ _ _ _ Hrun); [exact H0|].
  intros j [wa Xwa] [wb Xwb] Hin HI Hb. unfold Inv in *; simpl in *.
  rewrite Forall_forall in Hws. specialize (Hws j Hin).
  destruct (cd_body_spec _ _ _ _ _ _ _ _ _ _ Hws Hb) as (Xj & old & step & g & v & lcj & _ & _ & _ & _ & _ & _ & Hp & -> & _).
  apply Forall_set_nth; [assumption|]. eapply prox_feasible; eauto.
Qed.
End Epoch.

(* ---- penalty values are +inf outside the feasible set (so an infeasible extrapolated point can never
        have a smaller objective) ---- *)
Lemma existsb_neg_false (w : list R) :
  existsb (fun b => b) (map (fun e => Rltb e 0) w) = false -> Forall (fun x => 0 <= x) w.
Proof.
  induction w as [|a w IH]; simpl; intros H0; constructor.
  - apply orb_false_iff in H0 as [H1 _]. apply Rltb_false in H1. lra.
  - apply IH. apply orb_false_iff in H0 as [_ H2]. exact H2.
Qed.

Theorem L1_value_finite_feasible alpha w v : @L1_value R _ alpha true w = Ok (Fin v) -> Forall (fun x => 0 <= x) w.
Proof.
  unfold L1_value. cbn [andb fltb fofZ RNum]. destruct (existsb _ _) eqn:E; [discriminate|]. intros _.
  apply existsb_neg_false. exact E.
Qed.
Theorem WeightedL1_value_finite_feasible alpha weights w v :
  @WeightedL1_value R _ alpha weights true w = Ok (Fin v) -> Forall (fun x => 0 <= x) w.
Proof.
  unfold WeightedL1_value. cbn [andb fltb fofZ RNum]. destruct (existsb _ _) eqn:E; [discriminate|]. intros _.
  apply existsb_neg_false. exact E.
Qed.
Theorem L1_plus_L2_value_finite_feasible alpha rho w v :
  @L1_plus_L2_value R _ alpha rho true w = Ok (Fin v) -> Forall (fun x => 0 <= x) w.
Proof.
  unfold L1_plus_L2_value. cbn [andb fltb fofZ RNum]. destruct (existsb _ _) eqn:E; [discriminate|]. intros _.
  apply existsb_neg_false. exact E.
Qed.
Theorem MCPenalty_value_finite_feasible alpha gamma w v :
  @MCPenalty_value R _ alpha gamma true w = Ok (Fin v) -> Forall (fun x => 0 <= x) w.
Proof.
  unfold MCPenalty_value. cbn [andb fltb fofZ RNum]. destruct (existsb _ _) eqn:E; [discriminate|]. intros _.
  apply existsb_neg_false. exact E.
Qed.
Theorem PositiveConstraint_value_finite_feasible w v :
  @PositiveConstraint_value R _ w = Ok (Fin v) -> Forall (fun x => 0 <= x) w.
Proof.
  unfold PositiveConstraint_value. cbn [fltb fofZ RNum]. destruct (existsb _ _) eqn:E; [discriminate|]. intros _.
  apply existsb_neg_false. exact E.
Qed.

(* IndicatorBox: every coefficient outside [0, C] belongs to the generalized support (regenerated kernel), hence is forced
   into AndersonCD's working set and projected back by the first epoch -- this is what makes a refit with a smaller C
   from a warm start (old dual coefficients above the new C) feasible after ONE epoch, whatever the budget *)
Theorem IndicatorBox_gsupp_covers_infeasible C (w : list R) gs :
  @IndicatorBox_generalized_support R _ C w = Ok gs ->
  length gs = length w /\
  forall j, (j < length w)%nat -> (nth j w 0 < 0 \/ C < nth j w 0) -> 0 <= C -> nth j gs false = true.
Proof.
  unfold IndicatorBox_generalized_support, ret. intros Hg. inversion Hg; subst gs; clear Hg. split.
  - rewrite map_length, combine_length, !map_length. apply Nat.min_id.
  - intros j Hj Hout HC. cbn [feqb fofZ RNum].
    revert j Hj Hout. induction w as [|a w IH]; intros j Hj Hout; [simpl in Hj; lia|].
    destruct j as [|j]; simpl.
    + simpl in Hout. unfold Reqb. destruct (Req_EM_T a 0) as [e|e]; [exfalso; lra|]. destruct (Req_EM_T a C) as [e2|e2]; [exfalso; lra|]. reflexivity.
    + apply IH; [simpl in Hj; lia|exact Hout].
Qed.
