(* C10 / C19 / C05 for GroupBCD: facts about the REGENERATED block coordinate descent epoch (Gen/KernBCD.v, translated from
   skglm/solvers/group_bcd.py on every run):
   - the sparse epoch computes, step for step, what the dense epoch computes on the dense columns the CSC matrix denotes;
   - a group with zero Lipschitz constant is left untouched, whatever its gradient;
   - the stacked working-set gradient of the sparse kernel equals the dense one. *)
From Coq Require Import Reals Lra Lia ZArith List Bool.
Require Import SK.Base.Res SK.Base.Num SK.Base.RInst SK.Lemmas.VecFacts SK.Lemmas.Loops SK.Lemmas.Csc SK.Lemmas.Consistency
               SK.Lemmas.SparseEpoch.
Require Import SK.Gen.KernBCD.
Import ListNotations.
Local Open Scope R_scope.

Lemma for_enum_from_ext_inv {S} (Inv : S -> Prop) (b1 b2 : Z -> Z -> S -> res S) ws : forall idx s0,
  Inv s0 -> (forall i j s, In j ws -> Inv s -> b1 i j s = b2 i j s) ->
  (forall i j s s', In j ws -> Inv s -> b2 i j s = Ok s' -> Inv s') ->
  for_enum_from idx ws b1 s0 = for_enum_from idx ws b2 s0.
Proof.
  induction ws as [|j ws IH]; intros idx s0 H0 He Hp; simpl; [reflexivity|].
  rewrite (He idx j s0 (or_introl eq_refl) H0). destruct (b2 idx j s0) as [s1|e] eqn:E; cbn [bind]; [|reflexivity].
  apply IH; [eapply Hp; eauto; left; reflexivity| |]; intros; [apply He|eapply Hp]; eauto; right; assumption.
Qed.

Lemma in_slice {A} (l s : list A) lo hi x : slice l lo hi = Ok s -> In x s -> In x l.
Proof.
  unfold slice. destruct (_ && _ && _)%bool; [|discriminate]. intros E Hin. inversion E; subst s.
  assert (H1 : forall k (l : list A) x, In x (firstn k l) -> In x l).
  { intros k. induction k; intros l0 x0 Hx; simpl in Hx; [contradiction|]. destruct l0; simpl in Hx; [contradiction|].
    destruct Hx as [->|Hx]; [left; reflexivity|right; apply IHk; exact Hx]. }
  assert (H2 : forall k (l : list A) x, In x (skipn k l) -> In x l).
  { intros k. induction k; intros l0 x0 Hx; simpl in Hx; [exact Hx|]. destruct l0; simpl in Hx; [contradiction|]. right. apply IHk. exact Hx. }
  eapply H2. eapply H1. exact Hin.
Qed.

Section Epochs.
Variable prox_1group : list R -> R -> Z -> res (list R).
Variable gg_dense : list (list R) -> list R -> list R -> list R -> Z -> res (list R).
Variable gg_sparse : list R -> list Z -> list Z -> list R -> list R -> list R -> Z -> res (list R).
Variables (n : nat) (M : csc) (X : list (list R)) (y lip : list R) (grp_ptr grp_indices : list Z).
(* the CSC matrix denotes X on every column a group mentions *)
Hypothesis Hcols : forall j, In j grp_indices ->
  exists lo hi, col_bounds M j lo hi /\ wf_col n M lo hi /\ mcol X j = Ok (dense_col n M lo hi).
(* the two group-gradient accessors agree (DfGroupSparse.QuadraticGroup_gradient_g_sparse_eq_dense) *)
Hypothesis Hgrad : forall w Xw g, length Xw = n ->
  gg_sparse (cdata M) (cindptr M) (cindices M) y w Xw g = gg_dense X y w Xw g.

Ltac same_head := match goal with |- bind ?x _ = bind ?x _ => let v := fresh "v" in destruct x as [v|] eqn:?; cbn [bind]; [|reflexivity] end.

Theorem bcd_epoch_sparse_eq_dense ws w Xw :
  length Xw = n ->
  @_bcd_epoch_sparse R _ grp_ptr grp_indices gg_sparse prox_1group (cdata M) (cindptr M) (cindices M) y w Xw lip ws
  = @_bcd_epoch R _ grp_ptr grp_indices gg_dense prox_1group X y w Xw lip ws.
Proof.
  intros HlX. unfold _bcd_epoch_sparse, _bcd_epoch. f_equal.
  apply (for_each_ext_inv (fun s : list R * list R => length (snd s) = n)); [exact HlX| |].
  - intros g [wa Xwa] _ Hinv. simpl in Hinv.
    same_head. same_head. same_head. same_head. same_head.
    destruct (feqb v3 (fofZ 0)); [reflexivity|].
    rewrite (Hgrad wa Xwa g Hinv). same_head. same_head. same_head. same_head. same_head.
    f_equal. unfold for_enum.
    apply (for_enum_from_ext_inv (fun s : list R => length s = n)); [exact Hinv| |].
    + intros idx j Xwb Hin Hb.
      destruct (Hcols j (in_slice _ _ _ _ _ Heqr1 Hin)) as (lo & hi & [Hlo Hhi] & Hwf & Hcol).
      destruct (get_idx v2 idx) as [o|] eqn:Ho; cbn [bind]; [|reflexivity].
      destruct (get_idx v8 j) as [nw|] eqn:Hn; cbn [bind]; [|reflexivity].
      destruct (negb (feqb o nw)); [|reflexivity].
      rewrite Hlo, Hhi, Hcol. cbn [bind].
      pose proof (sparse_axpy_loop n M lo hi Xwb (nw - o) Hwf Hb) as Hax. cbn [fadd fmul fsub RNum] in *.
      rewrite Hax. reflexivity.
    + intros idx j Xwb Xwc Hin Hb Hrun.
      destruct (Hcols j (in_slice _ _ _ _ _ Heqr1 Hin)) as (lo & hi & _ & Hwf & Hcol).
      destruct (get_idx v2 idx) as [o|]; cbn [bind] in Hrun; [|discriminate].
      destruct (get_idx v8 j) as [nw|]; cbn [bind] in Hrun; [|discriminate].
      destruct (negb (feqb o nw)); [|inversion Hrun; subst; assumption].
      rewrite Hcol in Hrun. cbn [bind] in Hrun. inversion Hrun; subst Xwc.
      unfold vmap; rewrite vmap2_length; rewrite ?map_length, ?dense_col_length; lia.
  - intros g [wa Xwa] [wb Xwb] _ Hinv Hrun. cbn [fst snd] in *.
    destruct (get_idx grp_ptr g) as [t1|]; cbn [bind] in Hrun; [|discriminate].
    destruct (get_idx grp_ptr (g + 1)) as [t2|]; cbn [bind] in Hrun; [|discriminate].
    destruct (slice grp_indices t1 t2) as [gi|] eqn:Hsl; cbn [bind] in Hrun; [|discriminate].
    destruct (gather wa gi) as [old|]; cbn [bind] in Hrun; [|discriminate].
    destruct (get_idx lip g) as [lg|]; cbn [bind] in Hrun; [|discriminate].
    destruct (feqb lg (fofZ 0)); [unfold ret in Hrun; inversion Hrun; subst; assumption|].
    destruct (gg_dense X y wa Xwa g) as [gr|]; cbn [bind] in Hrun; [|discriminate].
    destruct (vdivs gr lg) as [q|]; cbn [bind] in Hrun; [|discriminate].
    destruct (fdiv (fofZ 1) lg) as [st|]; cbn [bind] in Hrun; [|discriminate].
    destruct (prox_1group _ st g) as [pv|]; cbn [bind] in Hrun; [|discriminate].
    destruct (scatter wa gi pv) as [w2|]; cbn [bind] in Hrun; [|discriminate].
    destruct (for_enum gi _ Xwa) as [Xw2|] eqn:Hloop; cbn [bind] in Hrun; [|discriminate].
    inversion Hrun; subst wb Xwb. clear Hrun.
    assert (Hgi : forall j, In j gi -> In j grp_indices) by (intros j Hj; eapply in_slice; eauto).
    unfold for_enum in Hloop.
    match type of Hloop with for_enum_from _ _ ?b _ = _ => set (body := b) in Hloop end.
    assert (Hbody : forall idx j Xs Xs', In j gi -> length Xs = n -> body idx j Xs = Ok Xs' -> length Xs' = n).
    { intros idx j Xs Xs' Hj HXs Hb. unfold body in Hb.
      destruct (get_idx old idx) as [o|]; cbn [bind] in Hb; [|discriminate].
      destruct (get_idx w2 j) as [nw|]; cbn [bind] in Hb; [|discriminate].
      destruct (Hcols j (Hgi j Hj)) as (lo & hi & _ & Hwf & Hcol).
      destruct (negb (feqb o nw)); [|unfold ret in Hb; inversion Hb; subst; assumption].
      rewrite Hcol in Hb. cbn [bind] in Hb. unfold ret in Hb. inversion Hb; subst Xs'.
      unfold vmap; rewrite vmap2_length; rewrite ?map_length, ?dense_col_length; lia. }
    clearbody body. clear Hsl Hgi. revert Hloop. generalize 0%Z as idx0. revert Hinv. generalize Xwa as Xs.
    induction gi as [|j gi IH]; intros Xs HXs idx0 Hloop; simpl in Hloop; [inversion Hloop; subst; assumption|].
    destruct (body idx0 j Xs) as [Xs1|] eqn:E; cbn [bind] in Hloop; [|discriminate].
    eapply IH; [| |exact Hloop].
    + intros idx j' Xa Xb Hj'. apply Hbody. right. exact Hj'.
    + eapply Hbody; [left; reflexivity|exact HXs|exact E].
Qed.

(* a group whose Lipschitz constant is zero (an all-zero block of columns) is skipped: the epoch restricted to such groups
   returns its input, whatever the gradient accessor answers (it is not even called) *)
Theorem bcd_epoch_zero_lipschitz_untouched ws w Xw :
  Forall (fun g => get_idx lip g = Ok 0) ws ->
  Forall (fun g => exists a b s old, get_idx grp_ptr g = Ok a /\ get_idx grp_ptr (g + 1) = Ok b /\ slice grp_indices a b = Ok s
                                 /\ gather w s = Ok old) ws ->
  @_bcd_epoch R _ grp_ptr grp_indices gg_dense prox_1group X y w Xw lip ws = Ok (w, Xw).
Proof.
  intros Hz Hok. unfold _bcd_epoch.
  assert (H : for_each ws (fun g '(w, Xw) =>
     bind (get_idx grp_ptr g) (fun t1 => bind (get_idx grp_ptr (g + 1)) (fun t2 => bind (slice grp_indices t1 t2) (fun t3 =>
     bind (gather w t3) (fun t4 => bind (get_idx lip g) (fun t5 =>
     if feqb t5 (fofZ 0) then ret (w, Xw) else
     bind (gg_dense X y w Xw g) (fun t6 => bind (vdivs t6 t5) (fun t7 => bind (fdiv (fofZ 1) t5) (fun t8 =>
     bind (prox_1group (vmap2 fsub t4 t7) t8 g) (fun t9 => bind (scatter w t3 t9) (fun w =>
     bind (for_enum t3 (fun idx j Xw => bind (get_idx t4 idx) (fun t10 => bind (get_idx w j) (fun t11 =>
       if negb (feqb t10 t11) then bind (get_idx w j) (fun t12 => bind (get_idx t4 idx) (fun t13 => bind (mcol X j) (fun t14 =>
         ret (vmap2 fadd Xw (vmap (fun e__ => fmul (fsub t12 t13) e__) t14))))) else ret Xw))) Xw) (fun Xw => ret (w, Xw))))))))))))) (w, Xw)
     = Ok (w, Xw)).
  { induction ws as [|g ws IH]; [reflexivity|]. inversion Hz as [|? ? Hg Hz']; subst. inversion Hok as [|? ? Hg2 Hok']; subst.
    cbn [for_each]. destruct Hg2 as (a & b & s & old & H1 & H2 & H3 & H4).
    rewrite H1. cbn [bind]. rewrite H2. cbn [bind]. rewrite H3. cbn [bind]. rewrite H4. cbn [bind]. rewrite Hg. cbn [bind].
    cbn [feqb fofZ RNum]. unfold Reqb. destruct (Req_EM_T 0 (IZR 0)) as [_|ne]; [|exfalso; apply ne; reflexivity].
    unfold ret. cbn [bind]. apply IH; assumption. }
  unfold ret in *. rewrite H. reflexivity.
Qed.

(* the stacked working-set gradient: sparse kernel = dense kernel *)
Theorem bcd_construct_grad_sparse_eq_dense dgp ws w Xw :
  length Xw = n ->
  @bcd_construct_grad_sparse R _ dgp gg_sparse (cdata M) (cindptr M) (cindices M) y w Xw ws
  = @bcd_construct_grad R _ dgp gg_dense X y w Xw ws.
Proof.
  intros HXw. unfold bcd_construct_grad_sparse, bcd_construct_grad.
  same_head. f_equal. apply (for_each_ext_inv (fun _ => True)); [exact I| |trivial].
  intros g [gr ptr] _ _. rewrite (Hgrad w Xw g HXw). reflexivity.
Qed.
End Epochs.

(* closed instance: the regenerated QuadraticGroup datafit (any prox, any group structure whose columns the CSC matrix denotes) *)
Require Import SK.Gen.DfGroup SK.Lemmas.DfGroupSparse.
Theorem QuadraticGroup_bcd_epoch_sparse_eq_dense prox n M (X : list (list R)) y lip grp_ptr grp_indices ws w Xw :
  length Xw = n -> length y = n ->
  (forall j, In j grp_indices -> exists lo hi, col_bounds M j lo hi /\ wf_col n M lo hi /\ mcol X j = Ok (dense_col n M lo hi)) ->
  @_bcd_epoch_sparse R _ grp_ptr grp_indices (@QuadraticGroup_gradient_g_sparse R _ grp_ptr grp_indices) prox
      (cdata M) (cindptr M) (cindices M) y w Xw lip ws
  = @_bcd_epoch R _ grp_ptr grp_indices (@QuadraticGroup_gradient_g R _ grp_ptr grp_indices) prox X y w Xw lip ws.
Proof.
  intros HXw Hy Hcols. apply (bcd_epoch_sparse_eq_dense prox _ _ n M X y lip grp_ptr grp_indices Hcols); [|exact HXw].
  intros w0 Xw0 g HX0. apply (QuadraticGroup_gradient_g_sparse_eq_dense n); assumption.
Qed.
