(* C10 / C19 / C05 for GroupBCD: facts about the REGENERATED block coordinate descent epoch (Gen/KernBCD.v, translated from
   skglm/solvers/group_bcd.py on every run):
   - the sparse epoch computes, step for step, what the dense epoch computes on the dense columns the CSC matrix denotes;
   - the stacked working-set gradient of the sparse kernel equals the dense one. *)
From Coq Require Import Reals Lra Lia ZArith List Bool.
Require Import SK.Base.Res SK.Base.Num SK.Base.RInst SK.Lemmas.VecFacts SK.Lemmas.Loops SK.Lemmas.Csc SK.Lemmas.Consistency
               SK.Lemmas.SparseEpoch SK.Lemmas.BcdBase.
Require Import SK.Gen.KernBCD.
Import ListNotations.
Local Open Scope R_scope.

Section Epochs.
Variable prox_1group : list R -> R -> Z -> res (list R).
Variable gg_dense : list (list R) -> list R -> list R -> list R -> Z -> res (list R).
Variable gg_sparse : list R -> list Z -> list Z -> list R -> list R -> list R -> Z -> res (list R).
Variables (n : nat) (M : csc) (X : list (list R)) (y lip : list R) (grp_ptr grp_indices : list Z).
(* the CSC matrix denotes X on every column a group mentions *)
Hypothesis Hcols : forall j, In j grp_indices ->
  exists lo hi, col_bounds M j lo hi /\ wf_col n M lo hi /\ mcol X j = Ok (dense_col n M lo hi).
(* the two group-gradient accessors agree (DfGroupSparse.QuadraticGroup_gradient_g_sparse_eq_dense) *)
Hypothesis Hgrad : forall w Xw g, length Xw = n ->
  gg_sparse (cdata M) (cindptr M) (cindices M) y w Xw g = gg_dense X y w Xw g.

Ltac same_head := match goal with |- bind ?x _ = bind ?x _ => let v := fresh "v" in destruct x as [v|] eqn:?; cbn [bind]; [|reflexivity] end.

Theorem bcd_epoch_sparse_eq_dense ws w Xw :
  length Xw = n ->
  @_bcd_epoch_sparse R _ grp_ptr grp_indices gg_sparse prox_1group (cdata M) (cindptr M) (cindices M) y w Xw lip ws
  = @_bcd_epoch R _ grp_ptr grp_indices gg_dense prox_1group X y w Xw lip ws.
Proof.
  intros HlX. unfold _bcd_epoch_sparse, _bcd_epoch. f_equal.
  apply (for_each_ext_inv (fun s : list R * list R => length (snd s) = n)); [exact HlX| |].
  - intros g [wa Xwa] _ Hinv. simpl in Hinv.
    same_head. same_head. same_head. same_head. same_head.
    destruct (feqb v3 (fofZ 0)); [reflexivity|].
    rewrite (Hgrad wa Xwa g Hinv). same_head. same_head. same_head. same_head. same_head.
    f_equal. unfold for_enum.
    apply (for_enum_from_ext_inv (fun s : list R => length s = n)); [exact Hinv| |].
    + intros idx j Xwb Hin Hb.
      destruct (Hcols j (in_slice _ _ _ _ _ Heqr1 Hin)) as (lo & hi & [Hlo Hhi] & Hwf & Hcol).
      destruct (get_idx v2 idx) as [o|] eqn:Ho; cbn [bind]; [|reflexivity].
      destruct (get_idx v8 j) as [nw|] eqn:Hn; cbn [bind]; [|reflexivity].
      destruct (negb (feqb o nw)); [|reflexivity].
      rewrite Hlo, Hhi, Hcol. cbn [bind].
      pose proof (sparse_axpy_loop n M lo hi Xwb (nw - o) Hwf Hb) as Hax. cbn [fadd fmul fsub RNum] in *.
      rewrite Hax. reflexivity.
    + intros idx j Xwb Xwc Hin Hb Hrun.
      destruct (Hcols j (in_slice _ _ _ _ _ Heqr1 Hin)) as (lo & hi & _ & Hwf & Hcol).
      destruct (get_idx v2 idx) as [o|]; cbn [bind] in Hrun; [|discriminate].
      destruct (get_idx v8 j) as [nw|]; cbn [bind] in Hrun; [|discriminate].
      destruct (negb (feqb o nw)); [|inversion Hrun; subst; assumption].
      rewrite Hcol in Hrun. cbn [bind] in Hrun. inversion Hrun; subst Xwc.
      unfold vmap; rewrite vmap2_length; rewrite ?map_length, ?dense_col_length; lia.
  - intros g [wa Xwa] [wb Xwb] _ Hinv Hrun. cbn [fst snd] in *.
    destruct (get_idx grp_ptr g) as [t1|]; cbn [bind] in Hrun; [|discriminate].
    destruct (get_idx grp_ptr (g + 1)) as [t2|]; cbn [bind] in Hrun; [|discriminate].
    destruct (slice grp_indices t1 t2) as [gi|] eqn:Hsl; cbn [bind] in Hrun; [|discriminate].
    destruct (gather wa gi) as [old|]; cbn [bind] in Hrun; [|discriminate].
    destruct (get_idx lip g) as [lg|]; cbn [bind] in Hrun; [|discriminate].
    destruct (feqb lg (fofZ 0)); [unfold ret in Hrun; inversion Hrun; subst; assumption|].
    destruct (gg_dense X y wa Xwa g) as [gr|]; cbn [bind] in Hrun; [|discriminate].
    destruct (vdivs gr lg) as [q|]; cbn [bind] in Hrun; [|discriminate].
    destruct (fdiv (fofZ 1) lg) as [st|]; cbn [bind] in Hrun; [|discriminate].
    destruct (prox_1group _ st g) as [pv|]; cbn [bind] in Hrun; [|discriminate].
    destruct (scatter wa gi pv) as [w2|]; cbn [bind] in Hrun; [|discriminate].
    destruct (for_enum gi _ Xwa) as [Xw2|] eqn:Hloop; cbn [bind] in Hrun; [|discriminate].
    inversion Hrun; subst wb Xwb. clear Hrun.
    assert (Hgi : forall j, In j gi -> In j grp_indices) by (intros j Hj; eapply in_slice; eauto).
    unfold for_enum in Hloop.
    match type of Hloop with for_enum_from _ _ ?b _ = _ => set (body := b) in Hloop end.
    assert (Hbody : forall idx j Xs Xs', In j gi -> length Xs = n -> body idx j Xs = Ok Xs' -> length Xs' = n).
    { intros idx j Xs Xs' Hj HXs Hb. unfold body in Hb.
      destruct (get_idx old idx) as [o|]; cbn [bind] in Hb; [|discriminate].
      destruct (get_idx w2 j) as [nw|]; cbn [bind] in Hb; [|discriminate].
      destruct (Hcols j (Hgi j Hj)) as (lo & hi & _ & Hwf & Hcol).
      destruct (negb (feqb o nw)); [|unfold ret in Hb; inversion Hb; subst; assumption].
      rewrite Hcol in Hb. cbn [bind] in Hb. unfold ret in Hb. inversion Hb; subst Xs'.
      unfold vmap; rewrite vmap2_length; rewrite ?map_length, ?dense_col_length; lia. }
    clearbody body. clear Hsl Hgi. revert Hloop. generalize 0%Z as idx0. revert Hinv. generalize Xwa as Xs.
    induction gi as [|j gi IH]; intros Xs HXs idx0 Hloop; simpl in Hloop; [inversion Hloop; subst; assumption|].
    destruct (body idx0 j Xs) as [Xs1|] eqn:E; cbn [bind] in Hloop; [|discriminate].
    eapply IH; [| |exact Hloop].
    + intros idx j' Xa Xb Hj'. apply Hbody. right. exact Hj'.
    + eapply Hbody; [left; reflexivity|exact HXs|exact E].
Qed.

(* the stacked working-set gradient: sparse kernel = dense kernel *)
Theorem bcd_construct_grad_sparse_eq_dense dgp ws w Xw :
  length Xw = n ->
  @bcd_construct_grad_sparse R _ dgp gg_sparse (cdata M) (cindptr M) (cindices M) y w Xw ws
  = @bcd_construct_grad R _ dgp gg_dense X y w Xw ws.
Proof.
  intros HXw. unfold bcd_construct_grad_sparse, bcd_construct_grad.
  same_head. f_equal. apply (for_each_ext_inv (fun _ => True)); [exact I| |trivial].
  intros g [gr ptr] _ _. rewrite (Hgrad w Xw g HXw). reflexivity.
Qed.
End Epochs.

(* closed instance: the regenerated QuadraticGroup datafit (any prox, any group structure whose columns the CSC matrix denotes) *)
Require Import SK.Gen.DfGroup SK.Lemmas.DfGroupSparse.
Theorem QuadraticGroup_bcd_epoch_sparse_eq_dense prox n M (X : list (list R)) y lip grp_ptr grp_indices ws w Xw :
  length Xw = n -> length y = n ->
  (forall j, In j grp_indices -> exists lo hi, col_bounds M j lo hi /\ wf_col n M lo hi /\ mcol X j = Ok (dense_col n M lo hi)) ->
  @_bcd_epoch_sparse R _ grp_ptr grp_indices (@QuadraticGroup_gradient_g_sparse R _ grp_ptr grp_indices) prox
      (cdata M) (cindptr M) (cindices M) y w Xw lip ws
  = @_bcd_epoch R _ grp_ptr grp_indices (@QuadraticGroup_gradient_g R _ grp_ptr grp_indices) prox X y w Xw lip ws.
Proof.
  intros HXw Hy Hcols. apply (bcd_epoch_sparse_eq_dense prox _ _ n M X y lip grp_ptr grp_indices Hcols); [|exact HXw].
  intros w0 Xw0 g HX0. apply (QuadraticGroup_gradient_g_sparse_eq_dense n); assumption.
Qed.
