(* C19 for GroupBCD: the REGENERATED dense block epoch (Gen/KernBCD.v) skips a group whose Lipschitz constant is zero. *)
From Coq Require Import Reals Lra Lia ZArith List Bool.
Require Import SK.Base.Res SK.Base.Num SK.Base.RInst SK.Lemmas.VecFacts SK.Lemmas.Loops.
Require Import SK.Gen.KernBCD.
Import ListNotations.
Local Open Scope R_scope.

Section Null.
Variable prox_1group : list R -> R -> Z -> res (list R).
Variable gg_dense : list (list R) -> list R -> list R -> list R -> Z -> res (list R).
Variables (X : list (list R)) (y lip : list R) (grp_ptr grp_indices : list Z).

(* a group whose Lipschitz constant is zero (an all-zero block of columns) is skipped: the epoch restricted to such groups
   returns its input, whatever the gradient accessor answers (it is not even called) *)
Theorem bcd_epoch_zero_lipschitz_untouched ws w Xw :
  Forall (fun g => get_idx lip g = Ok 0) ws ->
  Forall (fun g => exists a b s old, get_idx grp_ptr g = Ok a /\ get_idx grp_ptr (g + 1) = Ok b /\ slice grp_indices a b = Ok s
                                 /\ gather w s = Ok old) ws ->
  @_bcd_epoch R _ grp_ptr grp_indices gg_dense prox_1group X y w Xw lip ws = Ok (w, Xw).
Proof.
  intros Hz Hok. unfold _bcd_epoch.
  assert (H : for_each ws (fun g '(w, Xw) =>
     bind (get_idx grp_ptr g) (fun t1 => bind (get_idx grp_ptr (g + 1)) (fun t2 => bind (slice grp_indices t1 t2) (fun t3 =>
     bind (gather w t3) (fun t4 => bind (get_idx lip g) (fun t5 =>
     if feqb t5 (fofZ 0) then ret (w, Xw) else
     bind (gg_dense X y w Xw g) (fun t6 => bind (vdivs t6 t5) (fun t7 => bind (fdiv (fofZ 1) t5) (fun t8 =>
     bind (prox_1group (vmap2 fsub t4 t7) t8 g) (fun t9 => bind (scatter w t3 t9) (fun w =>
     bind (for_enum t3 (fun idx j Xw => bind (get_idx t4 idx) (fun t10 => bind (get_idx w j) (fun t11 =>
       if negb (feqb t10 t11) then bind (get_idx w j) (fun t12 => bind (get_idx t4 idx) (fun t13 => bind (mcol X j) (fun t14 =>
         ret (vmap2 fadd Xw (vmap (fun e__ => fmul (fsub t12 t13) e__) t14))))) else ret Xw))) Xw) (fun Xw => ret (w, Xw))))))))))))) (w, Xw)
     = Ok (w, Xw)).
  { induction ws as [|g ws IH]; [reflexivity|]. inversion Hz as [|? ? Hg Hz']; subst. inversion Hok as [|? ? Hg2 Hok']; subst.
    cbn [for_each]. destruct Hg2 as (a & b & s & old & H1 & H2 & H3 & H4).
    rewrite H1. cbn [bind]. rewrite H2. cbn [bind]. rewrite H3. cbn [bind]. rewrite H4. cbn [bind]. rewrite Hg. cbn [bind].
    cbn [feqb fofZ RNum]. unfold Reqb. destruct (Req_EM_T 0 (IZR 0)) as [_|ne]; [|exfalso; apply ne; reflexivity].
    unfold ret. cbn [bind]. apply IH; assumption. }
  unfold ret in *. rewrite H. reflexivity.
Qed.
End Null.
