(* C05 / C19 for GroupBCD: the REGENERATED dense block epoch (Gen/KernBCD.v) keeps the model fit consistent,
   Xw = X w + c, for any prox, any gradient accessor, any Lipschitz vector and any working set, as long as the group
   structure lists distinct non-negative features (what `grp_indices` is by construction). *)
From Coq Require Import Reals Lra Lia ZArith List Bool.
Require Import SK.Base.Res SK.Base.Num SK.Base.RInst SK.Lemmas.VecFacts SK.Lemmas.Loops SK.Lemmas.Csc SK.Lemmas.Consistency
               SK.Lemmas.BcdBase.
Require Import SK.Gen.KernBCD.
Import ListNotations.
Local Open Scope R_scope.

Lemma set_nth_same {A} (l : list A) j v : nth_error l j = Some v -> set_nth l j v = l.
Proof. revert j; induction l as [|x l IH]; intros [|j] Hn; simpl in *; try discriminate; [inversion Hn; reflexivity|f_equal; apply IH; exact Hn]. Qed.

Lemma nth_set_nth_eq (l : list R) j v : (j < length l)%nat -> nth j (set_nth l j v) 0 = v.
Proof. intros Hj. apply nth_error_nth. apply nth_error_set_nth_eq. exact Hj. Qed.
Lemma nth_set_nth_neq (l : list R) j k v : j <> k -> nth k (set_nth l j v) 0 = nth k l 0.
Proof.
  intros Hjk. pose proof (nth_error_set_nth_neq l j k v Hjk) as He.
  destruct (nth_error l k) as [x|] eqn:E.
  - rewrite (nth_error_nth _ _ 0 He), (nth_error_nth _ _ 0 E). reflexivity.
  - rewrite !nth_overflow; [reflexivity|apply nth_error_None; exact E|apply nth_error_None; exact He].
Qed.

Lemma get_idx_nonneg_nth (l : list R) j v : (0 <= j)%Z -> get_idx l j = Ok v -> (Z.to_nat j < length l)%nat /\ nth_error l (Z.to_nat j) = Some v.
Proof.
  intros Hj H0. unfold get_idx in H0. destruct (norm_idx (length l) j) as [k|] eqn:Hk; [|discriminate].
  destruct (norm_idx_nonneg _ _ _ Hk Hj) as [-> Hlt]. split; [exact Hlt|].
  destruct (nth_error l (Z.to_nat j)); inversion H0; reflexivity.
Qed.

Lemma get_idx_set_nth_other (l : list R) i j v : (0 <= i)%Z -> (0 <= j)%Z -> i <> j ->
  get_idx (set_nth l (Z.to_nat i) v) j = get_idx l j.
Proof.
  intros Hi Hj Hne. unfold get_idx. rewrite set_nth_length. destruct (norm_idx (length l) j) as [k|] eqn:Hk; [|reflexivity].
  destruct (norm_idx_nonneg _ _ _ Hk Hj) as [-> _]. rewrite nth_error_set_nth_neq by lia. reflexivity.
Qed.

Lemma scatter_spec (l : list R) idxs : forall vals l', Forall (fun j => (0 <= j)%Z) idxs ->
  scatter l idxs vals = Ok l' -> length l' = length l /\ forall i, ~ In (Z.of_nat i) idxs -> nth i l' 0 = nth i l 0.
Proof.
  revert l. induction idxs as [|j r IH]; intros l vals l' Hnn Hs; destruct vals as [|v vs]; simpl in Hs; try discriminate.
  - inversion Hs; subst. split; [reflexivity|intros; reflexivity].
  - inversion Hnn as [|? ? Hj Hr]; subst. destruct (set_idx l j v) as [l1|] eqn:E; cbn [bind] in Hs; [|discriminate].
    destruct (set_idx_nonneg _ _ _ _ Hj E) as [-> Hlt]. destruct (IH _ _ _ Hr Hs) as [Hl Hn]. split.
    + rewrite Hl, set_nth_length. reflexivity.
    + intros i Hi. rewrite Hn by (intro; apply Hi; right; assumption). apply nth_set_nth_neq.
      intro Heq. apply Hi. left. lia.
Qed.

Lemma gather_nth (l : list R) js : forall vals, gather l js = Ok vals ->
  forall k j, nth_error js k = Some j -> get_idx vals (Z.of_nat k) = get_idx l j.
Proof.
  induction js as [|j0 js IH]; intros vals Hg k j Hk; [destruct k; discriminate|]. simpl in Hg.
  destruct (get_idx l j0) as [a|] eqn:Ea; cbn [bind] in Hg; [|discriminate].
  destruct (gather l js) as [t|] eqn:Et; cbn [bind] in Hg; [|discriminate]. inversion Hg; subst vals.
  destruct k as [|k]; simpl in Hk.
  - inversion Hk; subst j. rewrite Ea. reflexivity.
  - rewrite <- (IH t eq_refl k j Hk). unfold get_idx. simpl length.
    assert (Hlt : (k < length t)%nat).
    { clear - Et Hk. revert t k Et Hk. induction js as [|x js IH2]; intros t k Et Hk; [destruct k; discriminate|]. simpl in Et.
      destruct (get_idx l x); cbn [bind] in Et; [|discriminate]. destruct (gather l js) eqn:E2; cbn [bind] in Et; [|discriminate].
      inversion Et; subst. destruct k; simpl; [lia|]. simpl in Hk. specialize (IH2 _ _ eq_refl Hk). lia. }
    rewrite !norm_idx_in_range by (simpl; lia). replace (Z.to_nat (Z.of_nat (S k))) with (S k) by lia.
    rewrite Nat2Z.id. reflexivity.
Qed.

Lemma NoDup_app_l' {A} (a b : list A) : NoDup (a ++ b) -> NoDup a.
Proof.
  induction a as [|x a IH]; intros H0; [constructor|]. simpl in H0. inversion H0 as [|? ? Hn Hd]; subst. constructor.
  - intro Hin. apply Hn. apply in_or_app. left. exact Hin.
  - apply IH. exact Hd.
Qed.
Lemma NoDup_app_r' {A} (a b : list A) : NoDup (a ++ b) -> NoDup b.
Proof. induction a as [|x a IH]; intros H0; [exact H0|]. simpl in H0. inversion H0; subst. apply IH. assumption. Qed.

Lemma NoDup_slice {A} (l s : list A) lo hi : NoDup l -> slice l lo hi = Ok s -> NoDup s.
Proof.
  intros Hn. unfold slice. destruct (_ && _ && _)%bool; [|discriminate]. intros E; inversion E; subst s.
  assert (H2 : NoDup (skipn (Z.to_nat lo) l)).
  { rewrite <- (firstn_skipn (Z.to_nat lo) l) in Hn. eapply NoDup_app_r'. exact Hn. }
  rewrite <- (firstn_skipn (Z.to_nat (hi - lo)) (skipn (Z.to_nat lo) l)) in H2. eapply NoDup_app_l'. exact H2.
Qed.

Section Cons.
Variable prox_1group : list R -> R -> Z -> res (list R).
Variable gg : list (list R) -> list R -> list R -> list R -> Z -> res (list R).
Variables (n : nat) (X : list (list R)) (c : list R).
Hypothesis HX : wf_X n X.

Definition inner_body (old w2 : list R) (idx j : Z) (Xw : list R) : res (list R) :=
  bind (get_idx old idx) (fun t10 => bind (get_idx w2 j) (fun t11 =>
  if negb (feqb t10 t11) then bind (get_idx w2 j) (fun t12 => bind (get_idx old idx) (fun t13 => bind (mcol X j) (fun t14 =>
    ret (vmap2 fadd Xw (vmap (fun e__ => fmul (fsub t12 t13) e__) t14))))) else ret Xw)).

Definition settle (w2 : list R) (js : list Z) (h : list R) : list R :=
  fold_left (fun h j => set_nth h (Z.to_nat j) (nth (Z.to_nat j) w2 0)) js h.

Lemma inner_cons old w2 : length w2 = length X ->
  forall js idx0 h Xs Xs', NoDup js -> Forall (fun j => (0 <= j)%Z) js -> (0 <= idx0)%Z ->
  length h = length w2 -> Cons n X h c Xs ->
  (forall k j, nth_error js k = Some j -> get_idx old (idx0 + Z.of_nat k) = get_idx h j) ->
  for_enum_from idx0 js (inner_body old w2) Xs = Ok Xs' ->
  Cons n X (settle w2 js h) c Xs'.
Proof.
  intros Hl2. induction js as [|j js IH]; intros idx0 h Xs Xs' Hnd Hnn Hi0 Hlh HC Hold Hrun; simpl in Hrun.
  - inversion Hrun; subst. exact HC.
  - inversion Hnd as [|? ? Hnotin Hnd']; subst. inversion Hnn as [|? ? Hj Hnn']; subst.
    destruct (inner_body old w2 idx0 j Xs) as [Xs1|] eqn:Eb; cbn [bind] in Hrun; [|discriminate].
    unfold inner_body in Eb.
    pose proof (Hold 0%nat j eq_refl) as Ho. rewrite Z.add_0_r in Ho.
    destruct (get_idx old idx0) as [o|] eqn:Eo; cbn [bind] in Eb; [|discriminate].
    destruct (get_idx w2 j) as [nw|] eqn:En; cbn [bind] in Eb; [|discriminate].
    destruct (get_idx_nonneg_nth _ _ _ Hj En) as [Hlt Hnw].
    symmetry in Ho. destruct (get_idx_nonneg_nth _ _ _ Hj Ho) as [Hlth Hho].
    assert (Hnwv : nth (Z.to_nat j) w2 0 = nw) by (apply nth_error_nth; exact Hnw).
    cbn [settle fold_left]. fold (settle w2 js (set_nth h (Z.to_nat j) (nth (Z.to_nat j) w2 0))). rewrite Hnwv.
    apply (IH (idx0 + 1)%Z _ Xs1 Xs'); try assumption; try lia.
    + rewrite set_nth_length. exact Hlh.
    + cbn [feqb RNum] in Eb. unfold Reqb in Eb. destruct (Req_EM_T o nw) as [e|ne]; cbn [negb] in Eb.
      * unfold ret in Eb. inversion Eb; subst Xs1 nw. rewrite set_nth_same by exact Hho. exact HC.
      * destruct (mcol X j) as [Xj|] eqn:Ec; cbn [bind] in Eb; [|discriminate]. unfold ret in Eb. inversion Eb; subst Xs1.
        cbn [fadd fmul fsub RNum]. unfold vmap.
        apply (cons_step n X h c Xs j Xj o nw HC HX); try assumption. lia.
    + intros k j' Hk. replace (idx0 + 1 + Z.of_nat k)%Z with (idx0 + Z.of_nat (S k))%Z by lia.
      rewrite (Hold (S k) j' Hk). symmetry. apply get_idx_set_nth_other; try assumption.
      * rewrite Forall_forall in Hnn'. apply Hnn'. eapply nth_error_In; eauto.
      * intro Heq; subst j'. apply Hnotin. eapply nth_error_In; eauto.
Qed.

Lemma settle_eq w2 : forall js h, length h = length w2 ->
  Forall (fun j => (0 <= j)%Z /\ (Z.to_nat j < length w2)%nat) js ->
  (forall i, ~ In (Z.of_nat i) js -> nth i h 0 = nth i w2 0) -> settle w2 js h = w2.
Proof.
  induction js as [|j js IH]; intros h Hl Hr Hout; cbn [settle fold_left].
  - apply nth_ext with (d := 0) (d' := 0); [exact Hl|]. intros i _. apply Hout. intros [].
  - inversion Hr as [|? ? [Hj Hlt] Hr']; subst. apply IH; [rewrite set_nth_length; exact Hl|exact Hr'|].
    intros i Hi. destruct (Nat.eq_dec i (Z.to_nat j)) as [->|Hne].
    + apply nth_set_nth_eq. lia.
    + rewrite nth_set_nth_neq by lia. apply Hout. intros [Heq|Hin]; [apply Hne; lia|contradiction].
Qed.

Variables (y lip : list R) (grp_ptr grp_indices : list Z).
Hypothesis Hnd : NoDup grp_indices.
Hypothesis Hnn : Forall (fun j => (0 <= j)%Z) grp_indices.

Theorem bcd_epoch_preserves_cons ws w Xw w' Xw' :
  length w = length X -> Cons n X w c Xw ->
  @_bcd_epoch R _ grp_ptr grp_indices gg prox_1group X y w Xw lip ws = Ok (w', Xw') ->
  Cons n X w' c Xw' /\ length w' = length w.
Proof.
  intros Hl H0 Hrun. unfold _bcd_epoch in Hrun.
  match type of Hrun with bind (for_each ws ?b _) _ = _ => set (body := b) in Hrun end.
  destruct (for_each ws body (w, Xw)) as [[w1 Xw1]|] eqn:Hloop; cbn [bind] in Hrun; [|discriminate].
  unfold ret in Hrun. inversion Hrun; subst w1 Xw1. clear Hrun.
  pose (Inv := fun s : list R * list R => Cons n X (fst s) c (snd s) /\ length (fst s) = length w).
  apply (for_each_inv' Inv _ _ _ _ Hloop); [split; [exact H0|reflexivity]|].
  intros g [wa Xwa] [wb Xwb] _ [HC HL] Hb. cbn [fst snd] in HC, HL. unfold Inv; cbn [fst snd]. unfold body in Hb.
  destruct (get_idx grp_ptr g) as [t1|]; cbn [bind] in Hb; [|discriminate].
  destruct (get_idx grp_ptr (g + 1)) as [t2|]; cbn [bind] in Hb; [|discriminate].
  destruct (slice grp_indices t1 t2) as [gi|] eqn:Hsl; cbn [bind] in Hb; [|discriminate].
  destruct (gather wa gi) as [old|] eqn:Hga; cbn [bind] in Hb; [|discriminate].
  destruct (get_idx lip g) as [lg|]; cbn [bind] in Hb; [|discriminate].
  destruct (feqb lg (fofZ 0)); [unfold ret in Hb; inversion Hb; subst; split; assumption|].
  destruct (gg X y wa Xwa g) as [gr|]; cbn [bind] in Hb; [|discriminate].
  destruct (vdivs gr lg) as [q|]; cbn [bind] in Hb; [|discriminate].
  destruct (fdiv (fofZ 1) lg) as [st|]; cbn [bind] in Hb; [|discriminate].
  destruct (prox_1group _ st g) as [pv|]; cbn [bind] in Hb; [|discriminate].
  destruct (scatter wa gi pv) as [w2|] eqn:Hsc; cbn [bind] in Hb; [|discriminate].
  match type of Hb with bind (for_enum gi ?b _) _ = _ => change b with (inner_body old w2) in Hb end.
  destruct (for_enum gi (inner_body old w2) Xwa) as [Xw2|] eqn:Hin; cbn [bind] in Hb; [|discriminate].
  unfold ret in Hb. inversion Hb; subst wb Xwb. clear Hb.
  assert (Hgnd : NoDup gi) by (eapply NoDup_slice; eauto).
  assert (Hgnn : Forall (fun j => (0 <= j)%Z) gi).
  { rewrite Forall_forall in *. intros j Hj. apply Hnn. eapply in_slice; eauto. }
  destruct (scatter_spec wa gi pv w2 Hgnn Hsc) as [Hl2 Hout].
  unfold for_enum in Hin.
  pose proof (inner_cons old w2 ltac:(lia) gi 0%Z wa Xwa Xw2 Hgnd Hgnn ltac:(lia) ltac:(lia) HC) as Hic.
  assert (Hsettle : settle w2 gi wa = w2).
  { apply settle_eq; [lia| |intros i Hi; symmetry; apply Hout; exact Hi].
    (* every index of the group was read from w2 successfully? not needed: it was read from wa by gather *)
    rewrite Forall_forall. intros j Hj. rewrite Forall_forall in Hgnn. split; [apply Hgnn; exact Hj|].
    destruct (In_nth_error _ _ Hj) as [k Hk].
    pose proof (gather_nth wa gi old Hga k j Hk) as Hgn.
    assert (Hok : exists v, get_idx wa j = Ok v).
    { clear - Hga Hj. revert old Hga. induction gi as [|x gi IH]; intros old Hga; [contradiction|]. simpl in Hga.
      destruct (get_idx wa x) as [a|] eqn:Ea; cbn [bind] in Hga; [|discriminate].
      destruct (gather wa gi) as [t|] eqn:Et; cbn [bind] in Hga; [|discriminate].
      destruct Hj as [->|Hj]; [eauto|eapply IH; eauto]. }
    destruct Hok as [v Hv]. destruct (get_idx_nonneg_nth _ _ _ (Hgnn j Hj) Hv) as [Hlt _]. lia. }
  rewrite Hsettle in Hic. split; [|lia].
  apply Hic; [|exact Hin]. intros k j Hk. rewrite Z.add_0_l. eapply gather_nth; eauto.
Qed.
End Cons.
