(* C10 for ProxNewton: the REGENERATED sparse descent-direction kernel equals the dense one (no intercept, subdiff strategy) on
   the dense columns the CSC arrays denote, step for step -- any prox, any Hessian, any subdifferential score. *)
From Coq Require Import Reals Lra Lia ZArith List Bool.
Require Import SK.Base.Res SK.Base.Num SK.Base.RInst SK.Lemmas.VecFacts SK.Lemmas.Loops SK.Lemmas.Csc SK.Lemmas.Consistency
               SK.Lemmas.SparseEpoch SK.Lemmas.BcdBase SK.Lemmas.PnSparseHelpers.
Require Import SK.Gen.KernCD SK.Gen.KernPN.
Import ListNotations.
Local Open Scope R_scope.

Lemma set_nth_twice {A} (l : list A) k a b : set_nth (set_nth l k a) k b = set_nth l k b.
Proof. revert k; induction l as [|x l IH]; intros [|k]; simpl; try reflexivity. f_equal. apply IH. Qed.

Lemma set_then_get_set (l l1 : list R) idx a : set_idx l idx a = Ok l1 ->
  get_idx l1 idx = Ok a /\ forall b, set_idx l1 idx b = set_idx l idx b.
Proof.
  unfold set_idx, get_idx. destruct (norm_idx (length l) idx) as [k|] eqn:Hk; [|discriminate]. intros E; inversion E; subst l1.
  rewrite set_nth_length, Hk. split.
  - assert (Hlt : (k < length l)%nat).
    { unfold norm_idx in Hk. set (kk := if (idx <? 0)%Z then (Z.of_nat (length l) + idx)%Z else idx) in Hk.
      destruct ((0 <=? kk)%Z && (kk <? Z.of_nat (length l))%Z) eqn:E1; [|discriminate].
      apply andb_true_iff in E1 as [E1 E2]. apply Z.leb_le in E1. apply Z.ltb_lt in E2. inversion Hk. lia. }
    rewrite nth_error_set_nth_eq by exact Hlt. reflexivity.
  - intros b. rewrite set_nth_twice. reflexivity.
Qed.

Section Dir.
Variable raw_hessian : list R -> list R -> res (list R).
Variable prox_1d : R -> R -> Z -> res R.
Variable subdiff : list R -> list R -> list Z -> res (list (Ext R)).
Variables (n : nat) (M : csc) (X : list (list R)) (y : list R).
Hypothesis Hcols : forall j, (0 <= j < Z.of_nat (length X))%Z ->
  exists lo hi, col_bounds M j lo hi /\ wf_col n M lo hi /\ rows_distinct M lo hi /\ mcol X j = Ok (dense_col n M lo hi).
Hypothesis Hhess : forall Xw h, length Xw = n -> raw_hessian y Xw = Ok h -> length h = n.
Hypothesis Hrows : mrows X = Z.of_nat n.

Ltac same_head := match goal with |- bind ?x _ = bind ?x _ => let v := fresh "v" in destruct x as [v|] eqn:?; cbn [bind]; [|reflexivity] end.

Theorem descent_direction_sparse_eq_dense_subdiff w_epoch Xw_epoch grad_ws ws tol :
  Forall (fun j => (0 <= j < Z.of_nat (length X))%Z) ws -> length Xw_epoch = n ->
  @_descent_direction_s__fit_intercept_False__ws_strategy_subdiff R _ raw_hessian prox_1d subdiff
      (cdata M) (cindptr M) (cindices M) y w_epoch Xw_epoch grad_ws ws tol
  = @_descent_direction__fit_intercept_False__ws_strategy_subdiff R _ raw_hessian prox_1d subdiff X y w_epoch Xw_epoch grad_ws ws tol.
Proof.
  intros Hws HXw. rewrite Forall_forall in Hws.
  unfold _descent_direction_s__fit_intercept_False__ws_strategy_subdiff, _descent_direction__fit_intercept_False__ws_strategy_subdiff.
  cbv zeta. destruct (raw_hessian y Xw_epoch) as [rh|] eqn:Hrh; cbn [bind]; [|reflexivity].
  pose proof (Hhess Xw_epoch rh HXw Hrh) as Hlrh.
  (* the Lipschitz loop *)
  assert (Hlip : for_enum ws (fun idx j lipschitz_ws =>
      bind (_sparse_squared_weighted_norm (cdata M) (cindptr M) (cindices M) j rh) (fun t2 =>
      bind (set_idx lipschitz_ws idx t2) (fun lipschitz_ws => ret lipschitz_ws))) (vzeros (zlen ws))
    = for_enum ws (fun idx j lipschitz_ws =>
      bind (mcol X j) (fun t2 => bind (set_idx lipschitz_ws idx (vdot rh (vmap fsq t2))) (fun lipschitz_ws => ret lipschitz_ws))) (vzeros (zlen ws))).
  { unfold for_enum. apply (for_enum_from_ext_inv (fun _ => True)); [exact I| |trivial].
    intros idx j s Hin _. destruct (Hcols j (Hws j Hin)) as (lo & hi & Hb & Hwf & Hnd & Hc).
    rewrite (sparse_squared_weighted_norm_is_dense n M j lo hi rh Hb Hwf Hnd Hlrh), Hc. reflexivity. }
  rewrite Hlip. clear Hlip. same_head. rename v into lipv.
  replace (zlen Xw_epoch) with (@mrows R X) by (rewrite Hrows; unfold zlen; rewrite HXw; reflexivity).
  same_head. rename v into w0.
  match goal with |- bind ?a _ = bind ?b _ => assert (E : a = b); [|rewrite E; reflexivity] end.
  apply (for_each_ext_inv (fun s : list R * list R * list R * bool => let '(_, _, Xd, _) := s in length Xd = n)).
  - unfold vzeros. rewrite Hrows, Nat2Z.id. apply repeat_length.
  - intros cd [[[pg ww] Xd] b] _ HXd. destruct b; [reflexivity|].
    match goal with |- bind ?a _ = bind ?b _ => assert (E : a = b); [|rewrite E; reflexivity] end.
    unfold for_enum. apply (for_enum_from_ext_inv (fun s : list R * list R * list R => let '(_, _, Xd1) := s in length Xd1 = n)); [exact HXd| |].
    + intros idx j [[pg1 ww1] Xd1] Hin HXd1. destruct (Hcols j (Hws j Hin)) as (lo & hi & Hb & Hwf & Hnd & Hc).
      destruct (get_idx lipv idx) as [l0|]; cbn [bind]; [|reflexivity].
      destruct (feqb l0 (fofZ 0)); [reflexivity|].
      destruct (get_idx grad_ws idx) as [g0|]; cbn [bind]; [|reflexivity].
      rewrite Hc. cbn [bind].
      rewrite (sparse_weighted_dot_is_dense n M j lo hi Xd1 rh Hb Hwf HXd1 Hlrh).
      destruct (set_idx pg1 idx g0) as [pg2|] eqn:Es.
      * destruct (set_then_get_set pg1 pg2 idx g0 Es) as [Hget Hset]. cbn [bind]. rewrite Hget. cbn [bind]. rewrite Hset.
        destruct (set_idx pg1 idx (fadd g0 (vdot (dense_col n M lo hi) (vmap2 fmul rh Xd1)))) as [pg3|]; cbn [bind]; [|reflexivity].
        destruct (get_idx ww1 idx) as [old|]; cbn [bind]; [|reflexivity].
        destruct (fdiv (fofZ 1) l0) as [st|]; cbn [bind]; [|reflexivity].
        destruct (get_idx pg3 idx) as [pgv|]; cbn [bind]; [|reflexivity].
        destruct (prox_1d _ st j) as [nv|]; cbn [bind]; [|reflexivity].
        destruct (set_idx ww1 idx nv) as [ww2|]; cbn [bind]; [|reflexivity].
        destruct (get_idx ww2 idx) as [nv2|]; cbn [bind]; [|reflexivity].
        destruct (negb (feqb nv2 old)); [|reflexivity].
        rewrite (update_X_delta_w_is_dense_axpy n M j lo hi Xd1 (fsub nv2 old) Hb Hwf HXd1). cbn [bind]. reflexivity.
      * (* the store fails in the sparse kernel: the same index fails in the dense one *)
        assert (Hn : norm_idx (length pg1) idx = None) by (unfold set_idx in Es; destruct (norm_idx (length pg1) idx); [discriminate|reflexivity]).
        assert (He : forall b, set_idx pg1 idx b = Err OOB) by (intros b; unfold set_idx; rewrite Hn; reflexivity).
        rewrite He in Es. inversion Es; subst. cbn [bind]. rewrite He. reflexivity.
    + intros idx j [[pg1 ww1] Xd1] [[pg2 ww2] Xd2] Hin HXd1 Hrun. destruct (Hcols j (Hws j Hin)) as (lo & hi & Hb & Hwf & Hnd & Hc).
      destruct (get_idx lipv idx) as [l0|]; cbn [bind] in Hrun; [|discriminate].
      destruct (feqb l0 (fofZ 0)); [unfold ret in Hrun; inversion Hrun; subst; exact HXd1|].
      destruct (get_idx grad_ws idx) as [g0|]; cbn [bind] in Hrun; [|discriminate].
      rewrite Hc in Hrun. cbn [bind] in Hrun.
      destruct (set_idx pg1 idx _) as [pg3|]; cbn [bind] in Hrun; [|discriminate].
      destruct (get_idx ww1 idx) as [old|]; cbn [bind] in Hrun; [|discriminate].
      destruct (fdiv (fofZ 1) l0) as [st|]; cbn [bind] in Hrun; [|discriminate].
      destruct (get_idx pg3 idx) as [pgv|]; cbn [bind] in Hrun; [|discriminate].
      destruct (prox_1d _ st j) as [nv|]; cbn [bind] in Hrun; [|discriminate].
      destruct (set_idx ww1 idx nv) as [ww3|]; cbn [bind] in Hrun; [|discriminate].
      destruct (get_idx ww3 idx) as [nv2|]; cbn [bind] in Hrun; [|discriminate].
      destruct (negb (feqb nv2 old)); unfold ret in Hrun; inversion Hrun; subst; [|exact HXd1].
      cbn [fadd fmul fsub RNum]. unfold vmap. rewrite vmap2_length; rewrite ?map_length, ?dense_col_length; lia.
  - intros cd [[[pg ww] Xd] b] [[[pg' ww'] Xd'] b'] _ HXd Hrun. destruct b; [unfold ret in Hrun; inversion Hrun; subst; exact HXd|].
    destruct (for_enum ws _ (pg, ww, Xd)) as [[[pg1 ww1] Xd1]|] eqn:Hsw; cbn [bind] in Hrun; [|discriminate].
    assert (HXd1 : length Xd1 = n).
    { unfold for_enum in Hsw.
      match type of Hsw with for_enum_from _ _ ?bd _ = _ => set (body := bd) in Hsw end.
      assert (Hbody : forall idx j pa wa Xa pb wb Xb, In j ws -> length Xa = n -> body idx j (pa, wa, Xa) = Ok (pb, wb, Xb) -> length Xb = n).
      { intros idx j pga wwa Xda pgb wwb Xdb Hj HXa Eb. unfold body in Eb.
        destruct (Hcols j (Hws j Hj)) as (lo & hi & Hb & Hwf & Hnd & Hc).
        destruct (get_idx lipv idx) as [l0|]; cbn [bind] in Eb; [|discriminate].
        destruct (feqb l0 (fofZ 0)); [unfold ret in Eb; injection Eb as _ _ E3; rewrite <- E3; exact HXa|].
        destruct (get_idx grad_ws idx) as [g0|]; cbn [bind] in Eb; [|discriminate].
        rewrite Hc in Eb. cbn [bind] in Eb.
        destruct (set_idx pga idx _) as [pg3|]; cbn [bind] in Eb; [|discriminate].
        destruct (get_idx wwa idx) as [old|]; cbn [bind] in Eb; [|discriminate].
        destruct (fdiv (fofZ 1) l0) as [st|]; cbn [bind] in Eb; [|discriminate].
        destruct (get_idx pg3 idx) as [pgv|]; cbn [bind] in Eb; [|discriminate].
        destruct (prox_1d _ st j) as [nv|]; cbn [bind] in Eb; [|discriminate].
        destruct (set_idx wwa idx nv) as [ww3|]; cbn [bind] in Eb; [|discriminate].
        destruct (get_idx ww3 idx) as [nv2|]; cbn [bind] in Eb; [|discriminate].
        destruct (negb (feqb nv2 old)); unfold ret in Eb; injection Eb as _ _ E3; rewrite <- E3; [|exact HXa].
        cbn [fadd fmul fsub RNum]. unfold vmap. rewrite vmap2_length; rewrite ?map_length, ?dense_col_length; lia. }
      clearbody body. clear - Hbody HXd Hsw. revert Hsw. generalize 0%Z as i0. revert HXd. generalize pg ww Xd.
      induction ws as [|j ws' IH]; intros pga wwa Xda HXa i0 Hsw; simpl in Hsw; [injection Hsw as _ _ E3; rewrite <- E3; exact HXa|].
      destruct (body i0 j (pga, wwa, Xda)) as [[[pgb wwb] Xdb]|] eqn:Eb; cbn [bind] in Hsw; [|discriminate].
      apply (IH (fun idx j0 pa wa Xa pb wb Xb Hj0 => Hbody idx j0 pa wa Xa pb wb Xb (or_intror Hj0)) pgb wwb Xdb) with (i0 := (i0 + 1)%Z); [|exact Hsw].
      exact (Hbody i0 j pga wwa Xda pgb wwb Xdb (or_introl eq_refl) HXa Eb). }
    destruct (Z.eqb _ _).
    + destruct (scatter w_epoch ws ww1); cbn [bind] in Hrun; [|discriminate].
      destruct (subdiff _ pg1 ws); cbn [bind] in Hrun; [|discriminate].
      destruct (vemax _); cbn [bind] in Hrun; [|discriminate].
      destruct (eleb _ tol); unfold ret in Hrun; inversion Hrun; subst; exact HXd1.
    + unfold ret in Hrun. inversion Hrun; subst. exact HXd1.
Qed.

Theorem descent_direction_sparse_eq_dense_fixpoint w_epoch Xw_epoch grad_ws ws tol :
  Forall (fun j => (0 <= j < Z.of_nat (length X))%Z) ws -> length Xw_epoch = n ->
  @_descent_direction_s__fit_intercept_False__ws_strategy_fixpoint R _ raw_hessian prox_1d
      (cdata M) (cindptr M) (cindices M) y w_epoch Xw_epoch grad_ws ws tol
  = @_descent_direction__fit_intercept_False__ws_strategy_fixpoint R _ raw_hessian prox_1d X y w_epoch Xw_epoch grad_ws ws tol.
Proof.
  intros Hws HXw. rewrite Forall_forall in Hws.
  unfold _descent_direction_s__fit_intercept_False__ws_strategy_fixpoint, _descent_direction__fit_intercept_False__ws_strategy_fixpoint.
  cbv zeta. destruct (raw_hessian y Xw_epoch) as [rh|] eqn:Hrh; cbn [bind]; [|reflexivity].
  pose proof (Hhess Xw_epoch rh HXw Hrh) as Hlrh.
  (* the Lipschitz loop *)
  assert (Hlip : for_enum ws (fun idx j lipschitz_ws =>
      bind (_sparse_squared_weighted_norm (cdata M) (cindptr M) (cindices M) j rh) (fun t2 =>
      bind (set_idx lipschitz_ws idx t2) (fun lipschitz_ws => ret lipschitz_ws))) (vzeros (zlen ws))
    = for_enum ws (fun idx j lipschitz_ws =>
      bind (mcol X j) (fun t2 => bind (set_idx lipschitz_ws idx (vdot rh (vmap fsq t2))) (fun lipschitz_ws => ret lipschitz_ws))) (vzeros (zlen ws))).
  { unfold for_enum. apply (for_enum_from_ext_inv (fun _ => True)); [exact I| |trivial].
    intros idx j s Hin _. destruct (Hcols j (Hws j Hin)) as (lo & hi & Hb & Hwf & Hnd & Hc).
    rewrite (sparse_squared_weighted_norm_is_dense n M j lo hi rh Hb Hwf Hnd Hlrh), Hc. reflexivity. }
  rewrite Hlip. clear Hlip. same_head. rename v into lipv.
  replace (zlen Xw_epoch) with (@mrows R X) by (rewrite Hrows; unfold zlen; rewrite HXw; reflexivity).
  same_head. rename v into w0.
  match goal with |- bind ?a _ = bind ?b _ => assert (E : a = b); [|rewrite E; reflexivity] end.
  apply (for_each_ext_inv (fun s : list R * list R * list R * bool => let '(_, _, Xd, _) := s in length Xd = n)).
  - unfold vzeros. rewrite Hrows, Nat2Z.id. apply repeat_length.
  - intros cd [[[pg ww] Xd] b] _ HXd. destruct b; [reflexivity|].
    match goal with |- bind ?a _ = bind ?b _ => assert (E : a = b); [|rewrite E; reflexivity] end.
    unfold for_enum. apply (for_enum_from_ext_inv (fun s : list R * list R * list R => let '(_, _, Xd1) := s in length Xd1 = n)); [exact HXd| |].
    + intros idx j [[pg1 ww1] Xd1] Hin HXd1. destruct (Hcols j (Hws j Hin)) as (lo & hi & Hb & Hwf & Hnd & Hc).
      destruct (get_idx lipv idx) as [l0|]; cbn [bind]; [|reflexivity].
      destruct (feqb l0 (fofZ 0)); [reflexivity|].
      destruct (get_idx grad_ws idx) as [g0|]; cbn [bind]; [|reflexivity].
      rewrite Hc. cbn [bind].
      rewrite (sparse_weighted_dot_is_dense n M j lo hi Xd1 rh Hb Hwf HXd1 Hlrh).
      destruct (set_idx pg1 idx g0) as [pg2|] eqn:Es.
      * destruct (set_then_get_set pg1 pg2 idx g0 Es) as [Hget Hset]. cbn [bind]. rewrite Hget. cbn [bind]. rewrite Hset.
        destruct (set_idx pg1 idx (fadd g0 (vdot (dense_col n M lo hi) (vmap2 fmul rh Xd1)))) as [pg3|]; cbn [bind]; [|reflexivity].
        destruct (get_idx ww1 idx) as [old|]; cbn [bind]; [|reflexivity].
        destruct (fdiv (fofZ 1) l0) as [st|]; cbn [bind]; [|reflexivity].
        destruct (get_idx pg3 idx) as [pgv|]; cbn [bind]; [|reflexivity].
        destruct (prox_1d _ st j) as [nv|]; cbn [bind]; [|reflexivity].
        destruct (set_idx ww1 idx nv) as [ww2|]; cbn [bind]; [|reflexivity].
        destruct (get_idx ww2 idx) as [nv2|]; cbn [bind]; [|reflexivity].
        destruct (negb (feqb nv2 old)); [|reflexivity].
        rewrite (update_X_delta_w_is_dense_axpy n M j lo hi Xd1 (fsub nv2 old) Hb Hwf HXd1). cbn [bind]. reflexivity.
      * (* the store fails in the sparse kernel: the same index fails in the dense one *)
        assert (Hn : norm_idx (length pg1) idx = None) by (unfold set_idx in Es; destruct (norm_idx (length pg1) idx); [discriminate|reflexivity]).
        assert (He : forall b, set_idx pg1 idx b = Err OOB) by (intros b; unfold set_idx; rewrite Hn; reflexivity).
        rewrite He in Es. inversion Es; subst. cbn [bind]. rewrite He. reflexivity.
    + intros idx j [[pg1 ww1] Xd1] [[pg2 ww2] Xd2] Hin HXd1 Hrun. destruct (Hcols j (Hws j Hin)) as (lo & hi & Hb & Hwf & Hnd & Hc).
      destruct (get_idx lipv idx) as [l0|]; cbn [bind] in Hrun; [|discriminate].
      destruct (feqb l0 (fofZ 0)); [unfold ret in Hrun; inversion Hrun; subst; exact HXd1|].
      destruct (get_idx grad_ws idx) as [g0|]; cbn [bind] in Hrun; [|discriminate].
      rewrite Hc in Hrun. cbn [bind] in Hrun.
      destruct (set_idx pg1 idx _) as [pg3|]; cbn [bind] in Hrun; [|discriminate].
      destruct (get_idx ww1 idx) as [old|]; cbn [bind] in Hrun; [|discriminate].
      destruct (fdiv (fofZ 1) l0) as [st|]; cbn [bind] in Hrun; [|discriminate].
      destruct (get_idx pg3 idx) as [pgv|]; cbn [bind] in Hrun; [|discriminate].
      destruct (prox_1d _ st j) as [nv|]; cbn [bind] in Hrun; [|discriminate].
      destruct (set_idx ww1 idx nv) as [ww3|]; cbn [bind] in Hrun; [|discriminate].
      destruct (get_idx ww3 idx) as [nv2|]; cbn [bind] in Hrun; [|discriminate].
      destruct (negb (feqb nv2 old)); unfold ret in Hrun; inversion Hrun; subst; [|exact HXd1].
      cbn [fadd fmul fsub RNum]. unfold vmap. rewrite vmap2_length; rewrite ?map_length, ?dense_col_length; lia.
  - intros cd [[[pg ww] Xd] b] [[[pg' ww'] Xd'] b'] _ HXd Hrun. destruct b; [unfold ret in Hrun; inversion Hrun; subst; exact HXd|].
    destruct (for_enum ws _ (pg, ww, Xd)) as [[[pg1 ww1] Xd1]|] eqn:Hsw; cbn [bind] in Hrun; [|discriminate].
    assert (HXd1 : length Xd1 = n).
    { unfold for_enum in Hsw.
      match type of Hsw with for_enum_from _ _ ?bd _ = _ => set (body := bd) in Hsw end.
      assert (Hbody : forall idx j pa wa Xa pb wb Xb, In j ws -> length Xa = n -> body idx j (pa, wa, Xa) = Ok (pb, wb, Xb) -> length Xb = n).
      { intros idx j pga wwa Xda pgb wwb Xdb Hj HXa Eb. unfold body in Eb.
        destruct (Hcols j (Hws j Hj)) as (lo & hi & Hb & Hwf & Hnd & Hc).
        destruct (get_idx lipv idx) as [l0|]; cbn [bind] in Eb; [|discriminate].
        destruct (feqb l0 (fofZ 0)); [unfold ret in Eb; injection Eb as _ _ E3; rewrite <- E3; exact HXa|].
        destruct (get_idx grad_ws idx) as [g0|]; cbn [bind] in Eb; [|discriminate].
        rewrite Hc in Eb. cbn [bind] in Eb.
        destruct (set_idx pga idx _) as [pg3|]; cbn [bind] in Eb; [|discriminate].
        destruct (get_idx wwa idx) as [old|]; cbn [bind] in Eb; [|discriminate].
        destruct (fdiv (fofZ 1) l0) as [st|]; cbn [bind] in Eb; [|discriminate].
        destruct (get_idx pg3 idx) as [pgv|]; cbn [bind] in Eb; [|discriminate].
        destruct (prox_1d _ st j) as [nv|]; cbn [bind] in Eb; [|discriminate].
        destruct (set_idx wwa idx nv) as [ww3|]; cbn [bind] in Eb; [|discriminate].
        destruct (get_idx ww3 idx) as [nv2|]; cbn [bind] in Eb; [|discriminate].
        destruct (negb (feqb nv2 old)); unfold ret in Eb; injection Eb as _ _ E3; rewrite <- E3; [|exact HXa].
        cbn [fadd fmul fsub RNum]. unfold vmap. rewrite vmap2_length; rewrite ?map_length, ?dense_col_length; lia. }
      clearbody body. clear - Hbody HXd Hsw. revert Hsw. generalize 0%Z as i0. revert HXd. generalize pg ww Xd.
      induction ws as [|j ws' IH]; intros pga wwa Xda HXa i0 Hsw; simpl in Hsw; [injection Hsw as _ _ E3; rewrite <- E3; exact HXa|].
      destruct (body i0 j (pga, wwa, Xda)) as [[[pgb wwb] Xdb]|] eqn:Eb; cbn [bind] in Hsw; [|discriminate].
      apply (IH (fun idx j0 pa wa Xa pb wb Xb Hj0 => Hbody idx j0 pa wa Xa pb wb Xb (or_intror Hj0)) pgb wwb Xdb) with (i0 := (i0 + 1)%Z); [|exact Hsw].
      exact (Hbody i0 j pga wwa Xda pgb wwb Xdb (or_introl eq_refl) HXa Eb). }
    destruct (Z.eqb _ _).
    + destruct (scatter w_epoch ws ww1); cbn [bind] in Hrun; [|discriminate].
      destruct (SK.Gen.KernCD.dist_fix_point_cd _ _ _ _ _); cbn [bind] in Hrun; [|discriminate].
      destruct (vmax _); cbn [bind] in Hrun; [|discriminate].
      destruct (fleb _ tol); unfold ret in Hrun; inversion Hrun; subst; exact HXd1.
    + unfold ret in Hrun. inversion Hrun; subst. exact HXd1.
Qed.
End Dir.
