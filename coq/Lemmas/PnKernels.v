(* Facts about the REGENERATED prox-Newton kernels (Gen/KernPN.v, translated from skglm/solvers/prox_newton.py on every run):
   - C05: the backtracking line search (no intercept) keeps the model fit consistent, Xw = X w + c, whatever the penalty,
     the datafit and the step it ends on, provided the direction pair is consistent (X_delta_w = X_ws delta_w);
   - C17 / C01: the gradient it returns is the working-set gradient AT the point it returns (so the inner stopping
     score of ProxNewton is computed at the current iterate). *)
From Coq Require Import Reals Lra Lia ZArith List Bool.
Require Import SK.Base.Res SK.Base.Num SK.Base.RInst SK.Lemmas.VecFacts SK.Lemmas.Loops SK.Lemmas.Csc SK.Lemmas.Consistency
               SK.Lemmas.BcdBase SK.Lemmas.BcdCons.
Require Import SK.Gen.SparseOps SK.Gen.KernPN.
Import ListNotations.
Local Open Scope R_scope.

(* ---------------- line search, fit_intercept = False ---------------- *)
(* the part of X w explained by a direction supported on ws *)
Fixpoint dir_lin (X : list (list R)) (ws : list Z) (delta : list R) (i : nat) : R :=
  match ws, delta with
  | j :: ws', d :: delta' => d * nth i (nth (Z.to_nat j) X []) 0 + dir_lin X ws' delta' i
  | _, _ => 0
  end.

(* w[ws] += t * delta, as the kernel does it: gather, add, scatter *)
Definition bump (w : list R) (ws : list Z) (t : R) (delta : list R) : res (list R) :=
  bind (gather w ws) (fun cur => scatter w ws (vmap2 fadd cur (vmap (fun e => fmul t e) delta))).

Lemma scatter_lin (X : list (list R)) (i : nat) : forall ws (w : list R) vals w',
  length w = length X -> NoDup ws -> Forall (fun j => (0 <= j)%Z) ws ->
  scatter w ws vals = Ok w' ->
  length w' = length w /\
  lin_at X w' i = lin_at X w i + dir_lin X ws (vmap2 Rminus vals (map (fun j => nth (Z.to_nat j) w 0) ws)) i.
Proof.
  induction ws as [|j ws IH]; intros w vals w' Hl Hnd Hnn Hs; destruct vals as [|v vs]; simpl in Hs; try discriminate.
  - inversion Hs; subst. split; [reflexivity|simpl; lra].
  - inversion Hnd as [|? ? Hnotin Hnd']; subst. inversion Hnn as [|? ? Hj Hnn']; subst.
    destruct (set_idx w j v) as [w1|] eqn:E; cbn [bind] in Hs; [|discriminate].
    destruct (set_idx_nonneg _ _ _ _ Hj E) as [-> Hlt].
    destruct (IH _ _ _ ltac:(rewrite set_nth_length; exact Hl) Hnd' Hnn' Hs) as [Hl' Hlin]. split; [rewrite Hl', set_nth_length; reflexivity|].
    rewrite Hlin. rewrite lin_at_set_nth by assumption. cbn [map vmap2 dir_lin].
    assert (Hsame : map (fun j0 => nth (Z.to_nat j0) (set_nth w (Z.to_nat j) v) 0) ws = map (fun j0 => nth (Z.to_nat j0) w 0) ws).
    { apply map_ext_in. intros j0 Hj0. apply nth_set_nth_neq. intro Heq.
      rewrite Forall_forall in Hnn'. pose proof (Hnn' j0 Hj0). apply Hnotin. replace j with j0 by lia. exact Hj0. }
    rewrite Hsame. lra.
Qed.

Lemma gather_map_nth (w : list R) : forall ws cur, Forall (fun j => (0 <= j)%Z) ws -> gather w ws = Ok cur ->
  cur = map (fun j => nth (Z.to_nat j) w 0) ws.
Proof.
  induction ws as [|j ws IH]; intros cur Hnn Hg; simpl in Hg; [inversion Hg; reflexivity|].
  inversion Hnn as [|? ? Hj Hnn']; subst.
  destruct (get_idx w j) as [a|] eqn:Ea; cbn [bind] in Hg; [|discriminate].
  destruct (gather w ws) as [t|] eqn:Et; cbn [bind] in Hg; [|discriminate]. inversion Hg; subst cur. cbn [map]. f_equal.
  - destruct (get_idx_nonneg_nth _ _ _ Hj Ea) as [_ Hn]. symmetry. apply nth_error_nth. exact Hn.
  - apply IH; [exact Hnn'|reflexivity].
Qed.

Lemma dir_lin_scale X ws t : forall delta cur i, length cur = length ws ->
  dir_lin X ws (vmap2 Rminus (vmap2 Rplus cur (map (fun e => t * e) delta)) cur) i = t * dir_lin X ws delta i.
Proof.
  induction ws as [|j ws IH]; intros delta cur i Hl; destruct cur as [|c cur]; try discriminate; simpl.
  - destruct delta; simpl; lra.
  - destruct delta as [|d delta]; simpl; [lra|]. rewrite IH by (simpl in Hl; lia). lra.
Qed.

Lemma gather_length (w : list R) : forall ws cur, gather w ws = Ok cur -> length cur = length ws.
Proof.
  induction ws as [|j ws IH]; intros cur Hg; simpl in Hg; [inversion Hg; reflexivity|].
  destruct (get_idx w j); cbn [bind] in Hg; [|discriminate]. destruct (gather w ws) eqn:E; cbn [bind] in Hg; [|discriminate].
  inversion Hg; subst. simpl. f_equal. apply IH. reflexivity.
Qed.

(* one trial step keeps consistency *)
Lemma bump_cons n X c ws delta Xdelta w Xw t w' :
  wf_X n X -> length w = length X -> NoDup ws -> Forall (fun j => (0 <= j)%Z) ws ->
  length Xdelta = n -> (forall i, (i < n)%nat -> nth i Xdelta 0 = dir_lin X ws delta i) ->
  Cons n X w c Xw -> bump w ws t delta = Ok w' ->
  Cons n X w' c (vmap2 Rplus Xw (map (fun e => t * e) Xdelta)) /\ length w' = length w.
Proof.
  intros HX Hl Hnd Hnn HlX HXd [HlXw HC] Hb. unfold bump in Hb.
  destruct (gather w ws) as [cur|] eqn:Hg; cbn [bind] in Hb; [|discriminate].
  cbn [fadd fmul RNum] in Hb. unfold vmap in Hb.
  pose proof (gather_map_nth w ws cur Hnn Hg) as Hcur. pose proof (gather_length w ws cur Hg) as Hlc.
  split; [split|].
  - rewrite vmap2_length; rewrite ?map_length; lia.
  - intros i Hi. rewrite nth_vmap2 by (rewrite ?map_length; lia). rewrite nth_map_R by lia.
    destruct (scatter_lin X i ws w _ w' Hl Hnd Hnn Hb) as [_ Hlin]. rewrite Hlin, <- Hcur.
    rewrite dir_lin_scale by exact Hlc. rewrite HC by exact Hi. rewrite HXd by exact Hi. lra.
  - destruct (scatter_lin X 0%nat ws w _ w' Hl Hnd Hnn Hb) as [Hl' _]. exact Hl'.
Qed.

Section LineSearch.
Variable pen_value : list R -> res R.
Variable raw_grad : list R -> list R -> res (list R).
Variables (n : nat) (X : list (list R)) (c y : list R).
Hypothesis HX : wf_X n X.

(* the loop body of the regenerated kernel, named *)
Definition ls_body (old_pen : R) (delta Xdelta : list R) (ws : list Z) (s : list R * list R * list R * R * R * bool)
  : res (list R * list R * list R * R * R * bool) :=
  let '(w, Xw, grad_ws, prev_step, step, brk) := s in
  if (brk : bool) then ret (w, Xw, grad_ws, prev_step, step, brk) else
  bind (gather w ws) (fun t3 =>
  bind (scatter w ws (vmap2 fadd t3 (vmap (fun e__ => fmul (fsub step prev_step) e__) delta))) (fun w =>
  let Xw := vmap2 fadd Xw (vmap (fun e__ => fmul (fsub step prev_step) e__) Xdelta) in
  bind (slice w 0%Z (zlen X)) (fun t4 =>
  bind (pn_construct_grad raw_grad X y t4 Xw ws) (fun t5 =>
  let grad_ws := t5 in
  bind (slice w 0%Z (zlen X)) (fun t6 =>
  bind (pen_value t6) (fun t7 =>
  let stop_crit := fsub t7 old_pen in
  bind (slice delta 0%Z (zlen ws)) (fun t8 =>
  let dot := vdot grad_ws t8 in
  let stop_crit := fadd stop_crit (fmul step dot) in
  if fltb stop_crit (fofZ 0) then ret (w, Xw, grad_ws, prev_step, step, true)
  else bind (fdiv step (fofZ 2)) (fun t9 => ret (w, Xw, grad_ws, step, t9, false))))))))).

Lemma line_search_unfold w Xw delta Xdelta ws :
  @_backtrack_line_search__fit_intercept_False R _ pen_value raw_grad X y w Xw delta Xdelta ws
  = bind (slice w 0%Z (zlen X)) (fun t1 => bind (pen_value t1) (fun old_pen =>
    bind (for_each (zrange 0 20) (fun _ s => ls_body old_pen delta Xdelta ws s) (w, Xw, [], fofZ 0, fofZ 1, false))
         (fun '(w, Xw, grad_ws, prev_step, step, brk__) => ret (w, Xw, grad_ws)))).
Proof.
  unfold _backtrack_line_search__fit_intercept_False.
  destruct (slice w 0 (zlen X)) as [t1|]; cbn [bind]; [|reflexivity].
  destruct (pen_value t1) as [op|]; cbn [bind]; [|reflexivity].
  match goal with |- bind ?a _ = bind ?b _ => assert (E : a = b); [|rewrite E; reflexivity] end.
  apply (for_each_ext_inv (fun _ => True)); [exact I| |trivial].
  intros j [[[[[wa Xa] ga] pa] sa] ba] _ _. unfold ls_body. reflexivity.
Qed.

(* the state the loop carries: consistent, and the stored gradient is the gradient at the stored point (once one trial ran) *)
Definition ls_inv (lw : nat) (ws : list Z) (s : list R * list R * list R * R * R * bool) : Prop :=
  let '(w, Xw, g, _, _, _) := s in
  Cons n X w c Xw /\ length w = lw /\
  (g = [] \/ exists wp, slice w 0%Z (zlen X) = Ok wp /\ @pn_construct_grad R _ raw_grad X y wp Xw ws = Ok g).

Theorem line_search_keeps_consistency_and_returns_current_gradient w Xw delta Xdelta ws w' Xw' g :
  length w = length X -> NoDup ws -> Forall (fun j => (0 <= j)%Z) ws ->
  length Xdelta = n -> (forall i, (i < n)%nat -> nth i Xdelta 0 = dir_lin X ws delta i) ->
  Cons n X w c Xw ->
  @_backtrack_line_search__fit_intercept_False R _ pen_value raw_grad X y w Xw delta Xdelta ws = Ok (w', Xw', g) ->
  Cons n X w' c Xw' /\ length w' = length w /\
  (g = [] \/ exists wp, slice w' 0%Z (zlen X) = Ok wp /\ @pn_construct_grad R _ raw_grad X y wp Xw' ws = Ok g).
Proof.
  intros Hl Hnd Hnn HlXd HXd HC Hrun. rewrite line_search_unfold in Hrun.
  destruct (slice w 0 (zlen X)) as [t1|]; cbn [bind] in Hrun; [|discriminate].
  destruct (pen_value t1) as [op|]; cbn [bind] in Hrun; [|discriminate].
  destruct (for_each (zrange 0 20) _ _) as [[[[[[wf Xf] gf] pf] sf] bf]|] eqn:Hloop; cbn [bind] in Hrun; [|discriminate].
  unfold ret in Hrun. inversion Hrun; subst wf Xf gf. clear Hrun.
  assert (Hinv : ls_inv (length w) ws (w', Xw', g, pf, sf, bf)).
  { apply (for_each_inv' (ls_inv (length w) ws) _ _ _ _ Hloop); [exact (conj HC (conj eq_refl (or_introl eq_refl)))|].
    intros j [[[[[wa Xa] ga] pa] sa] ba] s' _ (HCa & Hla & Hga) Hb. unfold ls_body in Hb.
    destruct ba; [unfold ret in Hb; inversion Hb; subst s'; exact (conj HCa (conj Hla Hga))|].
    destruct (gather wa ws) as [t3|] eqn:Hg3; cbn [bind] in Hb; [|discriminate].
    destruct (scatter wa ws _) as [w1|] eqn:Hsc; cbn [bind] in Hb; [|discriminate].
    assert (Hbump : bump wa ws (sa - pa) delta = Ok w1).
    { unfold bump. rewrite Hg3. cbn [bind]. exact Hsc. }
    destruct (bump_cons n X c ws delta Xdelta wa Xa (sa - pa) w1 HX ltac:(lia) Hnd Hnn HlXd HXd HCa Hbump) as [HC1 Hl1].
    destruct (slice w1 0 (zlen X)) as [t4|] eqn:Hs4; cbn [bind] in Hb; [|discriminate].
    destruct (pn_construct_grad raw_grad X y t4 _ ws) as [t5|] eqn:Hg5; cbn [bind] in Hb; [|discriminate].
    destruct (pen_value t4) as [t7|]; cbn [bind] in Hb; [|discriminate].
    destruct (slice delta 0 (zlen ws)) as [t8|]; cbn [bind] in Hb; [|discriminate].
    assert (Hnew : ls_inv (length w) ws (w1, vmap2 Rplus Xa (map (fun e => (sa - pa) * e) Xdelta), t5, pa, sa, true)).
    { exact (conj HC1 (conj (eq_trans Hl1 Hla) (or_intror (ex_intro _ t4 (conj Hs4 Hg5))))). }
    destruct (fltb _ _).
    - unfold ret in Hb. inversion Hb; subst s'. exact Hnew.
    - destruct (fdiv sa (fofZ 2)) as [t9|]; cbn [bind] in Hb; [|discriminate]. unfold ret in Hb. inversion Hb; subst s'.
      unfold ls_inv in *. exact Hnew. }
  destruct Hinv as (H1 & H2 & H3). exact (conj H1 (conj H2 H3)).
Qed.
End LineSearch.
