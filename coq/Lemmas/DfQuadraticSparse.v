(* Quadratic: every *_sparse accessor equals its dense counterpart on the dense columns denoted by the CSC. *)
From Coq Require Import Reals Lra Lia ZArith List.
Require Import SK.Base.Res SK.Base.Num SK.Base.RInst SK.Lemmas.VecFacts SK.Lemmas.Loops SK.Lemmas.Csc.
Require Import SK.Gen.SparseOps SK.Gen.DfSingle.
Import ListNotations.
Local Open Scope R_scope.

Ltac reads Hwf Hi :=
  let H1 := fresh in let H2 := fresh in let H3 := fresh in
  destruct (wf_col_reads _ _ _ _ _ Hwf Hi) as (H1 & H2 & H3); rewrite ?H1, ?H2; cbn [bind].

(* the inner loop  acc += data[i] * u[indices[i]]  *)
Lemma sparse_dot_loop n M lo hi (u : list R) acc0 :
  wf_col n M lo hi -> length u = n ->
  for_each (zrange lo hi) (fun i acc =>
    bind (get_idx (cdata M) i) (fun t3 => bind (get_idx (cindices M) i) (fun t4 => bind (get_idx u t4) (fun t5 =>
      let acc := fadd acc (fmul t3 t5) in ret acc)))) acc0
  = Ok (acc0 + rsum (vmap2 Rmult (dense_col n M lo hi) u)).
Proof.
  intros Hwf Hu. rewrite <- (csc_col_dot n M lo hi u Hwf Hu).
  apply for_each_accum. intros i acc Hin. apply in_zrange in Hin.
  destruct (wf_col_reads _ _ _ _ _ Hwf Hin) as (H1 & H2 & H3). rewrite H1, H2. cbn [bind].
  rewrite (get_idx_nthZ u (row M i) 0) by lia. cbn [bind]. reflexivity.
Qed.

Theorem Quadratic_gradient_scalar_sparse_eq_dense n M (X : list (list R)) Xty y w Xw j lo hi :
  col_bounds M j lo hi -> wf_col n M lo hi -> length Xw = n ->
  mcol X j = Ok (dense_col n M lo hi) ->
  @Quadratic_gradient_scalar_sparse R _ Xty (cdata M) (cindptr M) (cindices M) y Xw j
  = @Quadratic_gradient_scalar R _ Xty X y w Xw j.
Proof.
  intros [Hlo Hhi] Hwf Hn Hc. unfold Quadratic_gradient_scalar_sparse, Quadratic_gradient_scalar.
  rewrite Hlo, Hhi, Hc. cbn [bind]. rewrite (sparse_dot_loop n M lo hi Xw _ Hwf Hn). cbn [bind].
  rewrite vdot_rsum. cbn [fofZ RNum]. replace (0 + rsum (vmap2 Rmult (dense_col n M lo hi) Xw)) with
    (rsum (vmap2 Rmult (dense_col n M lo hi) Xw)) by lra. reflexivity.
Qed.
