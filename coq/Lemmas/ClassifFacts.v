(* C12: facts about the classifier glue model over R. *)
From Coq Require Import Reals Lra Lia ZArith List Bool Psatz.
Require Import SK.Base.Res SK.Base.Num SK.Base.RInst SK.Lemmas.VecFacts SK.Skel.Classif.
Import ListNotations.
Local Open Scope R_scope.

Lemma exp_sum_pos d : 0 < exp (- d) + exp d.
Proof. pose proof (exp_pos d). pose proof (exp_pos (- d)). lra. Qed.

Theorem proba_bin_total_sum1 d : exists p0 p1, @proba_bin R _ d = Ok (p0, p1) /\ p0 + p1 = 1 /\ 0 < p0 /\ 0 < p1.
Proof.
  unfold proba_bin. cbn [fexp fopp fadd fdiv RNum]. pose proof (exp_sum_pos d) as Hs.
  destruct (Req_EM_T (exp (- d) + exp d) 0); [lra|]. cbn [bind]. do 2 eexists. split; [reflexivity|].
  pose proof (exp_pos d). pose proof (exp_pos (- d)). repeat split.
  - field. lra.
  - apply Rdiv_lt_0_compat; lra.
  - apply Rdiv_lt_0_compat; lra.
Qed.

(* the positive-class probability is sigma(2 d): strictly increasing in the decision value *)
Theorem proba_bin_is_sigmoid d p0 p1 : @proba_bin R _ d = Ok (p0, p1) -> p1 = / (1 + exp (- (2 * d))).
Proof.
  unfold proba_bin. cbn [fexp fopp fadd fdiv RNum]. pose proof (exp_sum_pos d) as Hs.
  destruct (Req_EM_T (exp (- d) + exp d) 0); [lra|]. cbn [bind]. intros H0. inversion H0; subst.
  replace (- (2 * d)) with (- d + - d) by ring. rewrite exp_plus.
  pose proof (exp_pos d) as He. pose proof (exp_pos (- d)) as Hm.
  assert (Hinv : exp d * exp (- d) = 1) by (rewrite <- exp_plus; replace (d + - d) with 0 by ring; apply exp_0).
  field_simplify_eq; [|split; nra]. nra.
Qed.

Theorem proba_bin_monotone d d' p0 p1 q0 q1 : d < d' ->
  @proba_bin R _ d = Ok (p0, p1) -> @proba_bin R _ d' = Ok (q0, q1) -> p1 < q1.
Proof.
  intros Hd H1 H2. rewrite (proba_bin_is_sigmoid _ _ _ H1), (proba_bin_is_sigmoid _ _ _ H2).
  assert (He : exp (- (2 * d')) < exp (- (2 * d))) by (apply exp_increasing; lra).
  pose proof (exp_pos (- (2 * d'))). pose proof (exp_pos (- (2 * d))).
  apply Rinv_lt_contravar; [nra|lra].
Qed.

(* prediction agrees with the larger probability *)
Theorem predict_bin_agrees_with_proba d p0 p1 : @proba_bin R _ d = Ok (p0, p1) ->
  (@predict_bin R _ d = 1%Z <-> p0 < p1).
Proof.
  unfold proba_bin, predict_bin. cbn [fexp fopp fadd fdiv fltb fofZ RNum]. pose proof (exp_sum_pos d) as Hs.
  destruct (Req_EM_T (exp (- d) + exp d) 0); [lra|]. cbn [bind]. intros H0. inversion H0; subst. unfold Rltb.
  assert (Hlt : exp (- d) < exp d <-> 0 < d).
  { split; intros Hx; [apply exp_lt_inv in Hx; lra|apply exp_increasing; lra]. }
  assert (Hdiv : exp (- d) / (exp (- d) + exp d) < exp d / (exp (- d) + exp d) <-> exp (- d) < exp d).
  { unfold Rdiv. split; intros Hx.
    - apply (Rmult_lt_reg_r (/ (exp (- d) + exp d))); [apply Rinv_0_lt_compat; lra|exact Hx].
    - apply Rmult_lt_compat_r; [apply Rinv_0_lt_compat; lra|exact Hx]. }
  destruct (Rlt_dec 0 d) as [Hp|Hp]; split; intros Hx; try discriminate; try reflexivity.
  - apply Hdiv, Hlt. exact Hp.
  - exfalso. apply Hp. apply Hlt, Hdiv. exact Hx.
Qed.

(* one-vs-rest normalisation: probabilities sum to one *)
Lemma expit_pos d : exists p, @expit R _ d = Ok p /\ 0 < p < 1.
Proof.
  unfold expit. cbn [fexp fopp fadd fdiv fofZ RNum]. pose proof (exp_pos (- d)) as He.
  destruct (Req_EM_T (1 + exp (- d)) 0); [lra|]. eexists. split; [reflexivity|]. split.
  - apply Rdiv_lt_0_compat; lra.
  - apply (Rmult_lt_reg_r (1 + exp (- d))); [lra|]. unfold Rdiv. rewrite Rmult_assoc, Rinv_l by lra. lra.
Qed.

Lemma mapM_expit ds : exists ps, mapM (@expit R _) ds = Ok ps /\ length ps = length ds /\ Forall (fun p => 0 < p) ps.
Proof.
  induction ds as [|d ds IH]; [exists []; simpl; auto|].
  destruct IH as (ps & Hps & Hl & Hf). destruct (expit_pos d) as (p & Hp & Hpp).
  exists (p :: ps). cbn [mapM]. rewrite Hp. cbn [bind]. rewrite Hps. cbn [bind]. repeat split; [simpl; lia|constructor; [lra|assumption]].
Qed.

Lemma rsum_pos_nonempty ps : ps <> [] -> Forall (fun p => 0 < p) ps -> 0 < rsum ps.
Proof.
  intros Hne Hf. destruct ps as [|p ps]; [congruence|]. inversion Hf; subst. simpl.
  assert (0 <= rsum ps). { apply rsum_nonneg. eapply Forall_impl; [|eassumption]. intros; simpl in *; lra. } lra.
Qed.

Theorem proba_ovr_sum1 ds : ds <> [] -> exists qs, @proba_ovr R _ ds = Ok qs /\ rsum qs = 1 /\ length qs = length ds.
Proof.
  intros Hne. unfold proba_ovr. destruct (mapM_expit ds) as (ps & Hps & Hl & Hf). rewrite Hps. cbn [bind].
  assert (Hpne : ps <> []) by (destruct ps; [destruct ds; [congruence|discriminate]|discriminate]).
  pose proof (rsum_pos_nonempty ps Hpne Hf) as Hs. rewrite vsum_rsum.
  exists (map (fun p => p / rsum ps) ps). split.
  - apply mapM_ok. intros p _. cbn [fdiv RNum]. destruct (Req_EM_T (rsum ps) 0); [lra|reflexivity].
  - split; [rewrite rsum_div; field; lra|rewrite map_length; exact Hl].
Qed.
