(* C16: at the null model the CD update keeps a coefficient at exactly 0 whenever |gradient_j| <= alpha * weight_j,
   i.e. whenever alpha >= alpha_max -- for the regenerated L1 / WeightedL1 / MCP / weighted MCP prox kernels and for
   EVERY step size (any curvature L_j, also 1/L_j > gamma) and every gamma. *)
From Coq Require Import Reals Lra Lia ZArith List Bool.
Require Import SK.Base.Res SK.Base.Num SK.Base.RInst SK.Gen.ProxFuncs SK.Gen.PenSeparable.
Local Open Scope R_scope.

Lemma Rabs_mul_step g s : 0 <= s -> Rabs (0 - s * g) = s * Rabs g.
Proof. intros Hs. replace (0 - s * g) with (- (s * g)) by ring. rewrite Rabs_Ropp, Rabs_mult, (Rabs_pos_eq s Hs). reflexivity. Qed.

(* the generated ST returns 0 on [-u, u] *)
Lemma ST_zero x u pos : Rabs x <= u -> @ST R _ x u pos = Ok 0.
Proof.
  intros Hx. unfold ST. cbn [fltb fopp fsub fadd fofZ RNum].
  destruct (Rltb u x) eqn:H1.
  - apply Rltb_true in H1. pose proof (Rle_abs x). lra.
  - destruct (Rltb x (- u)) eqn:H2.
    + apply Rltb_true in H2. pose proof (Rle_abs (- x)). rewrite Rabs_Ropp in H. lra.
    + simpl. reflexivity.
Qed.

(* the generated prox_MCP returns 0 on [-alpha*weight*step, alpha*weight*step], whatever gamma and the step are *)
Lemma prox_MCP_zero x s alpha gamma pos weight : Rabs x <= alpha * (weight * s) ->
  @prox_MCP R _ x s alpha gamma pos weight = Ok 0.
Proof.
  intros Hx. unfold prox_MCP. cbn [fleb fabs fmul fofZ RNum].
  replace (Rleb (Rabs x) (alpha * (weight * s))) with true; [reflexivity|].
  symmetry. apply Rleb_true. exact Hx.
Qed.

Section Null.
Variables (alpha s g : R).
Hypothesis Hs : 0 <= s.

Theorem L1_null_update pos j : Rabs g <= alpha -> @L1_prox_1d R _ alpha pos (0 - s * g) s j = Ok 0.
Proof.
  intros Hg. unfold L1_prox_1d. cbn [fmul RNum]. rewrite ST_zero; [reflexivity|].
  rewrite Rabs_mul_step by exact Hs. rewrite (Rmult_comm alpha s). apply Rmult_le_compat_l; assumption.
Qed.

Theorem WeightedL1_null_update weights pos j wj : get_idx weights j = Ok wj -> Rabs g <= alpha * wj ->
  @WeightedL1_prox_1d R _ alpha weights pos (0 - s * g) s j = Ok 0.
Proof.
  intros Hw Hg. unfold WeightedL1_prox_1d. rewrite Hw. cbn [bind fmul RNum]. rewrite ST_zero; [reflexivity|].
  rewrite Rabs_mul_step by exact Hs. replace (alpha * s * wj) with (s * (alpha * wj)) by ring. apply Rmult_le_compat_l; assumption.
Qed.

Theorem MCP_null_update gamma pos j : Rabs g <= alpha -> @MCPenalty_prox_1d R _ alpha gamma pos (0 - s * g) s j = Ok 0.
Proof.
  intros Hg. unfold MCPenalty_prox_1d. rewrite prox_MCP_zero; [reflexivity|].
  rewrite Rabs_mul_step by exact Hs. cbn [fofZ RNum]. replace (alpha * (IZR 1 * s)) with (s * alpha) by (simpl; ring).
  apply Rmult_le_compat_l; assumption.
Qed.

Theorem WeightedMCP_null_update gamma weights pos j wj : get_idx weights j = Ok wj -> Rabs g <= alpha * wj ->
  @WeightedMCPenalty_prox_1d R _ alpha gamma weights pos (0 - s * g) s j = Ok 0.
Proof.
  intros Hw Hg. unfold WeightedMCPenalty_prox_1d. rewrite Hw. cbn [bind]. rewrite prox_MCP_zero; [reflexivity|].
  rewrite Rabs_mul_step by exact Hs. replace (alpha * (wj * s)) with (s * (alpha * wj)) by ring. apply Rmult_le_compat_l; assumption.
Qed.
End Null.
