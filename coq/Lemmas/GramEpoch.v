(* GramCD (C01 / C03 / C17 at kernel level): the REGENERATED _gram_cd_epoch keeps the gradient buffer consistent,
   grad = Q w - q, for ANY prox rule and either feature-selection strategy (greedy arg-max or cyclic), skips
   zero-curvature features without dividing, and what it returns is the score of the point it leaves in (w, grad).
   Consistency is the same statement as for the CD epoch with the design X replaced by the Gram matrix Q and the
   model-fit buffer by the gradient buffer:  Cons p Q w (-q) grad. *)
From Coq Require Import Reals Lra Lia ZArith List Bool.
Require Import SK.Base.Res SK.Base.Num SK.Base.RInst SK.Lemmas.VecFacts SK.Lemmas.Loops SK.Lemmas.Consistency.
Require Import SK.Gen.KernGram.
Import ListNotations.
Local Open Scope R_scope.

Section Gram.
Variable score : list R -> list R -> list Z -> res (list (Ext R)).
Variable prox_1d : R -> R -> Z -> res R.

(* the update of one selected coordinate, as generated *)
Definition gram_upd (Q : list (list R)) (j : Z) (w grad : list R) : res (list R * list R) :=
  bind (mget Q j j) (fun t3 =>
  if feqb t3 (fofZ 0) then ret (w, grad)
  else
  bind (get_idx w j) (fun t4 =>
  bind (mget Q j j) (fun t5 =>
  bind (fdiv (fofZ 1) t5) (fun t6 =>
  bind (get_idx grad j) (fun t7 =>
  bind (prox_1d (fsub t4 (fmul t6 t7)) t6 j) (fun t8 =>
  bind (set_idx w j t8) (fun w0 =>
  bind (get_idx w0 j) (fun t9 =>
  if negb (feqb t9 t4) then
    bind (get_idx w0 j) (fun t10 =>
    bind (mcol Q j) (fun t11 =>
    ret (w0, vmap2 fadd grad (vmap (fun e__ => fmul (fsub t10 t4) e__) t11))))
  else ret (w0, grad))))))))).

Definition gram_body (Q : list (list R)) (all : list Z) (greedy : bool) (cd_iter : Z) (s : list R * list R)
  : res (list R * list R) :=
  let '(w, grad) := s in
  if greedy then bind (score w grad all) (fun opt => bind (veargmax opt) (fun j => gram_upd Q j w grad))
  else gram_upd Q cd_iter w grad.

Lemma gram_epoch_unfold Q w grad greedy :
  @_gram_cd_epoch R _ score prox_1d Q w grad greedy =
  bind (for_each (zrange 0 (zlen w)) (gram_body Q (zrange 0 (zlen w)) greedy) (w, grad)) (fun s =>
  let '(w', grad') := s in bind (score w' grad' (zrange 0 (zlen w))) (fun t => ret (w', grad', t))).
Proof.
  unfold _gram_cd_epoch.
  assert (Hb : forall cd_iter s,
     (let '(w0, grad0) := s in
      if greedy then
        bind (score w0 grad0 (zrange 0 (zlen w))) (fun t1 => let opt := t1 in
        bind (veargmax opt) (fun t2 => let j := t2 in gram_upd Q j w0 grad0))
      else let j := cd_iter in gram_upd Q j w0 grad0) = gram_body Q (zrange 0 (zlen w)) greedy cd_iter s).
  { intros cd_iter [w0 grad0]. reflexivity. }
  reflexivity.
Qed.

(* effect of one coordinate update, whatever the prox is *)
Lemma gram_upd_spec Q j wa ga wb gb : (0 <= j)%Z ->
  gram_upd Q j wa ga = Ok (wb, gb) ->
  (wb = wa /\ gb = ga) \/
  exists Qj old v, mcol Q j = Ok Qj /\ get_idx wa j = Ok old /\ (Z.to_nat j < length wa)%nat /\
    wb = set_nth wa (Z.to_nat j) v /\
    (gb = vmap2 Rplus ga (map (fun e => (v - old) * e) Qj) \/ (v = old /\ gb = ga)).
Proof.
  intros Hj H0. unfold gram_upd in H0.
  apply bind_ok in H0 as (t3 & H3 & H0).
  destruct (feqb t3 (fofZ 0)) eqn:Hz.
  - unfold ret in H0. inversion H0. left. auto.
  - right.
    apply bind_ok in H0 as (old & H4 & H0). apply bind_ok in H0 as (t5 & H5 & H0).
    apply bind_ok in H0 as (step & H6 & H0). apply bind_ok in H0 as (g & H7 & H0).
    apply bind_ok in H0 as (v & H8 & H0). apply bind_ok in H0 as (w0 & H9 & H0).
    apply bind_ok in H0 as (t9 & H10 & H0).
    destruct (set_idx_nonneg _ _ _ _ Hj H9) as [-> Hlt].
    pose proof (get_idx_set_nth_same _ _ _ _ Hj Hlt H10) as ->.
    assert (Hcol : exists Qj, mcol Q j = Ok Qj).
    { unfold mget in H3. apply bind_ok in H3 as (c & Hc & _). exists c. exact Hc. }
    destruct Hcol as [Qj Hcol].
    exists Qj, old, v. split; [exact Hcol|]. split; [exact H4|]. split; [exact Hlt|].
    destruct (negb (feqb v old)) eqn:Hb.
    + apply bind_ok in H0 as (t10 & H11 & H0). apply bind_ok in H0 as (t11 & H12 & H0).
      pose proof (get_idx_set_nth_same _ _ _ _ Hj Hlt H11) as ->.
      rewrite Hcol in H12. inversion H12; subst t11. unfold ret in H0. inversion H0. split; [reflexivity|]. left. reflexivity.
    + unfold ret in H0. inversion H0. split; [reflexivity|]. right.
      cbn [feqb RNum] in Hb. apply negb_false_iff, Reqb_true in Hb. split; [assumption|reflexivity].
Qed.

Lemma gram_upd_cons p Q c j wa ga wb gb : (0 <= j)%Z ->
  wf_X p Q -> length wa = length Q -> Cons p Q wa c ga ->
  gram_upd Q j wa ga = Ok (wb, gb) -> Cons p Q wb c gb /\ length wb = length wa.
Proof.
  intros Hj HQ Hl HC Hu.
  destruct (gram_upd_spec _ _ _ _ _ _ Hj Hu) as [[-> ->]|(Qj & old & v & Hcol & Hold & Hlt & -> & Hg)]; [auto|].
  split; [|apply set_nth_length].
  destruct Hg as [->|[-> ->]].
  - apply cons_step; assumption.
  - destruct HC as [HC1 HC2]. split; [assumption|]. intros i Hi. rewrite HC2 by assumption. f_equal.
    rewrite lin_at_set_nth by lia.
    assert (Hn : nth (Z.to_nat j) wa 0 = old).
    { unfold get_idx in Hold. rewrite norm_idx_in_range in Hold by lia.
      destruct (nth_error wa (Z.to_nat j)) eqn:E; inversion Hold; subst. apply nth_error_nth; assumption. }
    rewrite Hn. ring.
Qed.

Lemma eargmax_from_nonneg (best : Ext R) bi i l : (0 <= bi)%Z -> (0 <= i)%Z -> (0 <= eargmax_from best bi i l)%Z.
Proof.
  revert best bi i. induction l as [|x l IH]; intros best bi i Hb Hi; simpl; [assumption|].
  match goal with |- (0 <= if ?b then _ else _)%Z => destruct b end; apply IH; lia.
Qed.
Lemma veargmax_nonneg (l : list (Ext R)) j : veargmax l = Ok j -> (0 <= j)%Z.
Proof. destruct l; simpl; intros H0; inversion H0. apply eargmax_from_nonneg; lia. Qed.

Lemma zrange_from_nonneg lo n j : (0 <= lo)%Z -> In j (zrange_from lo n) -> (0 <= j)%Z.
Proof.
  revert lo. induction n as [|n IHn]; simpl; intros lo Hlo Hin; [contradiction|].
  destruct Hin as [<-|Hin]; [assumption|]. eapply IHn; [|eassumption]. lia.
Qed.

(* THE kernel theorem *)
Theorem gram_epoch_spec p Q c w grad greedy w' grad' opt :
  wf_X p Q -> length w = length Q -> Cons p Q w c grad ->
  @_gram_cd_epoch R _ score prox_1d Q w grad greedy = Ok (w', grad', opt) ->
  Cons p Q w' c grad' /\ length w' = length w /\ score w' grad' (zrange 0 (zlen w')) = Ok opt.
Proof.
  intros HQ Hl HC Hrun. rewrite gram_epoch_unfold in Hrun.
  apply bind_ok in Hrun as ([w1 g1] & Hloop & Hrun).
  apply bind_ok in Hrun as (t & Hs & Hrun). unfold ret in Hrun. inversion Hrun; subst w1 g1 t. clear Hrun.
  pose (Inv := fun s : list R * list R => Cons p Q (fst s) c (snd s) /\ length (fst s) = length w).
  assert (HI : Inv (w', grad')).
  { apply (for_each_inv' Inv _ _ _ _ Hloop); [split; [exact HC|reflexivity]|].
    intros j [wa ga] [wb gb] Hin [HCa HLa] Hb. simpl in HCa, HLa. unfold Inv; simpl.
    unfold gram_body in Hb. destruct greedy.
    - apply bind_ok in Hb as (o & Ho & Hb). apply bind_ok in Hb as (jj & Hj & Hb).
      destruct (gram_upd_cons p Q c jj wa ga wb gb (veargmax_nonneg _ _ Hj) HQ ltac:(lia) HCa Hb) as [H1 H2].
      split; [assumption|lia].
    - assert (Hj0 : (0 <= j)%Z) by (eapply zrange_from_nonneg; [|exact Hin]; lia).
      destruct (gram_upd_cons p Q c j wa ga wb gb Hj0 HQ ltac:(lia) HCa Hb) as [H1 H2].
      split; [assumption|lia]. }
  destruct HI as [HC' HL']. simpl in HC', HL'. split; [exact HC'|]. split; [exact HL'|].
  unfold zlen in *. rewrite HL'. exact Hs.
Qed.

End Gram.
