(* C19 / C20: the regenerated dense CD epoch never fails (no out-of-range index, no division by zero -- a zero
   column takes the step-1000 branch) on well-formed inputs, for any total prox / gradient rule; and on an
   all-zero column a null coefficient stays exactly null. *)
From Coq Require Import Reals Lra Lia ZArith List Bool.
Require Import SK.Base.Res SK.Base.Num SK.Base.RInst SK.Lemmas.VecFacts SK.Lemmas.Loops SK.Lemmas.Csc SK.Lemmas.Consistency.
Require Import SK.Lemmas.DfQuadratic SK.Lemmas.Descent SK.Lemmas.ProxScalar.
Require Import SK.Gen.ProxFuncs SK.Gen.PenSeparable SK.Gen.SparseOps SK.Gen.DfSingle SK.Gen.KernACD.
Import ListNotations.
Local Open Scope R_scope.

Section Total.
Variable prox_1d : R -> R -> Z -> res R.
Variable gradient_scalar : list (list R) -> list R -> list R -> list R -> Z -> res R.
Variables (X : list (list R)) (y lc : list R) (n : nat).
Hypothesis HX : wf_X n X.
Hypothesis Hlc : length lc = length X.
Hypothesis prox_total : forall x s j, exists v, prox_1d x s j = Ok v.
Hypothesis grad_total : forall w Xw j, length w = length X -> length Xw = n -> (0 <= j < Z.of_nat (length X))%Z ->
  exists g, gradient_scalar X y w Xw j = Ok g.

Lemma cd_body_total j wa Xwa : (0 <= j < Z.of_nat (length X))%Z -> length wa = length X -> length Xwa = n ->
  exists wb Xwb, cd_body prox_1d gradient_scalar X y lc j (wa, Xwa) = Ok (wb, Xwb) /\ length wb = length X /\ length Xwb = n.
Proof.
  intros Hj Hlw HlX. unfold cd_body.
  destruct (get_idx_in_range lc j ltac:(lia)) as (lcj & Hl1 & _). rewrite Hl1. cbn [bind].
  cbn [feqb fofZ fdiv RNum]. unfold Reqb.
  assert (Hstep : exists step, (if negb (if Req_EM_T lcj 0 then true else false)
                                then bind (Ok lcj) (fun t2 => bind (if Req_EM_T t2 0 then Err DivZero else Ok (1 / t2)) (fun t3 => ret t3))
                                else ret 1000) = Ok step).
  { destruct (Req_EM_T lcj 0); cbn [negb bind]; [eexists; reflexivity|].
    destruct (Req_EM_T lcj 0); [contradiction|]. cbn [bind]. eexists; reflexivity. }
  destruct Hstep as (step & Hstep).
  match goal with |- context [bind (if negb ?c then ?a else ?b) ?f] => change (if negb c then a else b) with
    (if negb (if Req_EM_T lcj 0 then true else false)
     then bind (Ok lcj) (fun t2 => bind (if Req_EM_T t2 0 then Err DivZero else Ok (1 / t2)) (fun t3 => ret t3)) else ret 1000) end.
  rewrite Hstep. cbn [bind].
  destruct (get_idx_in_range X j ltac:(lia)) as (Xj & HXj & HnX). unfold mcol. rewrite HXj. cbn [bind].
  destruct (get_idx_in_range wa j ltac:(lia)) as (old & Hold & _). rewrite Hold. cbn [bind].
  destruct (grad_total wa Xwa j Hlw HlX Hj) as (g & ->). cbn [bind].
  destruct (prox_total (fsub old (fmul g step)) step j) as (v & ->). cbn [bind].
  unfold set_idx. rewrite norm_idx_in_range by lia. cbn [bind].
  assert (Hre : get_idx (set_nth wa (Z.to_nat j) v) j = Ok v).
  { unfold get_idx. rewrite set_nth_length, norm_idx_in_range by lia. rewrite nth_error_set_nth_eq by lia. reflexivity. }
  assert (HlXj : length Xj = n).
  { unfold wf_X in HX. rewrite Forall_forall in HX. apply HX. eapply nth_error_In; eauto. }
  rewrite Hre. cbn [bind].
  destruct (negb (if Req_EM_T v old then true else false)).
  - cbn [bind]. unfold ret. do 2 eexists. split; [reflexivity|]. split; [rewrite set_nth_length; assumption|].
    rewrite vmap2_length; unfold vmap; rewrite ?map_length; lia.
  - unfold ret. do 2 eexists. split; [reflexivity|]. split; [rewrite set_nth_length; assumption|assumption].
Qed.

Theorem cd_epoch_total ws w Xw : Forall (fun j => (0 <= j < Z.of_nat (length X))%Z) ws ->
  length w = length X -> length Xw = n ->
  exists w' Xw', @_cd_epoch R _ prox_1d gradient_scalar X y w Xw lc ws = Ok (w', Xw') /\ length w' = length X /\ length Xw' = n.
Proof.
  intros Hws Hlw HlX. rewrite cd_epoch_unfold.
  pose (Inv := fun s : list R * list R => length (fst s) = length X /\ length (snd s) = n).
  destruct (for_each_total Inv (cd_body prox_1d gradient_scalar X y lc) ws (w, Xw)) as ([w' Xw'] & Hrun & Hl1 & Hl2).
  - split; assumption.
  - intros j [wa Xwa] Hin [H1 H2]. simpl in H1, H2. rewrite Forall_forall in Hws.
    destruct (cd_body_total j wa Xwa (Hws j Hin) H1 H2) as (wb & Xwb & Hb & H3 & H4).
    exists (wb, Xwb). split; [exact Hb|split; assumption].
  - exists w', Xw'. auto.
Qed.
End Total.

(* the regenerated Quadratic gradient is total on well-formed input (the cached X^T y has one entry per column) *)
Lemma Quadratic_gradient_scalar_total (X : list (list R)) (y w Xw : list R) j (n : nat) :
  (0 < n)%nat -> length Xw = n -> (0 <= j < Z.of_nat (length X))%Z ->
  exists g, @Quadratic_gradient_scalar R _ (mTv X y) X y w Xw j = Ok g.
Proof.
  intros Hn HlX Hj. unfold Quadratic_gradient_scalar.
  destruct (get_idx_in_range X j Hj) as (Xj & HXj & _). unfold mcol. rewrite HXj. cbn [bind].
  unfold mTv. rewrite (get_idx_map (fun c => vdot c y) X j Xj HXj). cbn [bind].
  cbn [fdiv fofZ RNum]. destruct (Req_EM_T (IZR (zlen Xw)) 0) as [e|e].
  - exfalso. unfold zlen in e. rewrite HlX in e. apply eq_IZR in e. lia.
  - cbn [bind]. eexists; reflexivity.
Qed.

(* ST(0, u) = 0: with a null gradient (all-zero column) a null coefficient stays null, whatever the step *)
Lemma L1_prox_zero alpha pos s j : 0 <= alpha -> 0 <= s -> @L1_prox_1d R _ alpha pos 0 s j = Ok 0.
Proof.
  intros Ha Hs. unfold L1_prox_1d, ST. rsimp. assert (0 <= alpha * s) by (apply Rmult_le_pos; lra).
  destruct (Rlt_dec (alpha * s) 0); [lra|]. destruct (Rlt_dec 0 (- (alpha * s))); [lra|]. destruct pos; reflexivity.
Qed.
