(* C14: general components configured to coincide with simpler ones ARE the simpler ones (equalities between
   regenerated functions, for all inputs). *)
From Coq Require Import Reals Lra Lia ZArith QArith List Bool.
Require Import SK.Base.Res SK.Base.Num SK.Base.RInst SK.Lemmas.VecFacts SK.Lemmas.ProxScalar.
Require Import SK.Gen.ProxFuncs SK.Gen.PenSeparable SK.Gen.SparseOps SK.Gen.DfSingle.
Import ListNotations.
Local Open Scope R_scope.

(* ---- unit weights: WeightedL1 = L1 ---- *)
Theorem WeightedL1_unit_prox alpha weights pos x s j :
  get_idx weights j = Ok 1 ->
  @WeightedL1_prox_1d R _ alpha weights pos x s j = @L1_prox_1d R _ alpha pos x s j.
Proof.
  intros Hw. unfold WeightedL1_prox_1d, L1_prox_1d. rewrite Hw. cbn [bind fmul RNum].
  replace (alpha * s * 1) with (alpha * s) by ring. reflexivity.
Qed.

Lemma vmap2_mul_ones (a : list R) : vmap2 Rmult a (repeat 1 (length a)) = a.
Proof. induction a; simpl; [reflexivity|]. f_equal; [ring|assumption]. Qed.

Theorem WeightedL1_unit_value alpha pos (w : list R) :
  @WeightedL1_value R _ alpha (repeat 1 (length w)) pos w = @L1_value R _ alpha pos w.
Proof.
  unfold WeightedL1_value, L1_value. destruct (andb pos _); [reflexivity|]. unfold ret. do 3 f_equal.
  cbn [fmul fabs RNum]. unfold vmap. rewrite <- (map_length Rabs w). rewrite vmap2_mul_ones. reflexivity.
Qed.

(* ---- l1_ratio = 1: L1_plus_L2 = L1 ---- *)
Theorem L1_plus_L2_ratio1_prox alpha pos x s j :
  @L1_plus_L2_prox_1d R _ alpha 1 pos x s j = @L1_prox_1d R _ alpha pos x s j.
Proof.
  unfold L1_plus_L2_prox_1d, L1_prox_1d. cbn [fmul fadd fsub fofZ RNum].
  replace (1 * alpha * s) with (alpha * s) by ring.
  destruct (ST x (alpha * s) pos) as [p0|e]; cbn [bind]; [|reflexivity].
  cbn [fdiv RNum]. replace (1 + s * (1 - 1) * alpha) with 1 by ring.
  destruct (Req_EM_T 1 0); [lra|]. cbn [bind]. unfold ret. f_equal. field.
Qed.

Theorem L1_plus_L2_ratio1_value alpha pos (w : list R) :
  @L1_plus_L2_value R _ alpha 1 pos w = @L1_value R _ alpha pos w.
Proof.
  unfold L1_plus_L2_value, L1_value. destruct (andb pos _); [reflexivity|].
  cbn [fmul fadd fsub fdiv fofZ RNum]. destruct (Req_EM_T 2 0); [lra|]. cbn [bind]. unfold ret. do 2 f_equal.
  cbn [fmul fadd fsub fofZ RNum]. field.
Qed.

(* ---- unit weights: WeightedMCPenalty = MCPenalty ---- *)
Theorem WeightedMCP_unit_prox alpha gamma weights pos x s j :
  get_idx weights j = Ok 1 ->
  @WeightedMCPenalty_prox_1d R _ alpha gamma weights pos x s j = @MCPenalty_prox_1d R _ alpha gamma pos x s j.
Proof. intros Hw. unfold WeightedMCPenalty_prox_1d, MCPenalty_prox_1d. rewrite Hw. reflexivity. Qed.

(* ---- singleton group: block soft-thresholding = soft-thresholding, for every threshold u >= 0 (u = 0 and x = 0 included) ---- *)
Theorem BST_singleton x u : 0 <= u ->
  @BST R _ [x] u false = bind (@ST R _ x u false) (fun p => Ok [p]).
Proof.
  intros Hu. unfold BST, ST. cbn [vnorm vmap vsum fold_left map fsq fmul fadd fsqrt0 f0 fofZ RNum fltb fleb fopp negb andb].
  assert (Hs : sqrt (0 + x * x) = Rabs x) by (rewrite Rplus_0_l; apply sqrt_square_abs || (fold (Rsqr x); apply sqrt_Rsqr_abs)).
  rewrite Hs. unfold Rltb, Rleb. unfold ret. cbn [bind].
  destruct (Rle_dec (Rabs x) u) as [H1|H1].
  - destruct (Rlt_dec u x); [exfalso; revert H1; rabs; lra|]. destruct (Rlt_dec x (- u)); [exfalso; revert H1; rabs; lra|].
    reflexivity.
  - cbn [fdiv RNum]. destruct (Req_EM_T (Rabs x) 0) as [e|e].
    + exfalso. rewrite e in H1. lra.
    + cbn [bind vmap map fmul fsub fofZ RNum].
      destruct (Rlt_dec u x) as [H2|H2].
      * rewrite Rabs_right by lra. cbn [bind]. replace ((1 - u / x) * x) with (x - u) by (field; lra). reflexivity.
      * destruct (Rlt_dec x (- u)) as [H3|H3].
        -- rewrite Rabs_left by lra. cbn [bind]. replace ((1 - u / - x) * x) with (x + u) by (field; lra). reflexivity.
        -- exfalso. apply H1. revert H2 H3; rabs; lra.
Qed.

(* block soft-thresholding never fails (no division by a zero norm) for a non-negative threshold, with or without the
   positivity option, and keeps the length of its input *)
Lemma vnorm_nonneg (x : list R) : 0 <= @vnorm R _ x.
Proof. unfold vnorm. cbn [fsqrt0 RNum]. apply sqrt_pos. Qed.

Theorem BST_plain_total (x : list R) u : 0 <= u -> exists r, @BST__positive_False R _ x u = Ok r /\ length r = length x.
Proof.
  intros Hu. unfold BST__positive_False. cbn [fleb RNum]. unfold Rleb.
  destruct (Rle_dec (@vnorm R _ x) u) as [H1|H1].
  - eexists. split; [reflexivity|]. unfold vzeros_like. apply map_length.
  - cbn [fdiv RNum]. destruct (Req_EM_T (@vnorm R _ x) 0) as [e|e].
    + exfalso. apply H1. rewrite e. exact Hu.
    + cbn [bind]. eexists. split; [reflexivity|]. unfold vmap. apply map_length.
Qed.

(* ---- unit sample weights: WeightedQuadratic = Quadratic ---- *)
Lemma rsum_repeat1 n : rsum (repeat 1 n) = INR n.
Proof. induction n; [reflexivity|]. change (repeat 1 (S n)) with (1 :: repeat 1 n). cbn [rsum]. rewrite IHn, S_INR. ring. Qed.

Theorem WeightedQuadratic_unit_value (y w z : list R) : length y = length z ->
  @WeightedQuadratic_value R _ (repeat 1 (length z)) y w z = @Quadratic_value R _ y w z.
Proof.
  intros Hl. unfold WeightedQuadratic_value, Quadratic_value. cbn [fmul fsub fofZ RNum].
  rewrite !vsum_rsum, rsum_repeat1. unfold zlen. rewrite mult_IZR, <- INR_IZR_INZ.
  assert (Hv : vmap2 Rmult (repeat 1 (length z)) (vmap fsq (vmap2 Rminus y z)) = vmap fsq (vmap2 Rminus y z)).
  { assert (Hlen : length (vmap fsq (vmap2 Rminus y z)) = length z) by (unfold vmap; rewrite map_length, vmap2_length; lia).
    rewrite <- Hlen. generalize (vmap fsq (vmap2 Rminus y z)). clear. induction l; simpl; [reflexivity|].
    f_equal; [ring|assumption]. }
  cbn [fmul RNum] in Hv. rewrite Hv. reflexivity.
Qed.
