(* C03: one regenerated CD epoch on the Quadratic datafit never increases the objective
   F(w) = 1/(2n)||y - Xw||^2 + sum_j pen_j(w_j), for ANY penalty whose prox is no worse than staying put
   (in particular every prox proved globally optimal in C07), every working set, including zero columns. *)
From Coq Require Import Reals Lra Lia ZArith List Bool Psatz.
Require Import SK.Base.Res SK.Base.Num SK.Base.RInst SK.Lemmas.VecFacts SK.Lemmas.Loops SK.Lemmas.Csc.
Require Import SK.Lemmas.DfQuadratic SK.Lemmas.Lipschitz SK.Lemmas.Consistency SK.Lemmas.ProxScalar.
Require Import SK.Gen.SparseOps SK.Gen.DfSingle SK.Gen.KernACD.
Import ListNotations.
Local Open Scope R_scope.

(* sum_j pen_j(w_j) *)
Fixpoint psum (pens : list (R -> R)) (w : list R) : R :=
  match pens, w with f :: ps, x :: ws => f x + psum ps ws | _, _ => 0 end.
Lemma psum_set_nth pens w j v : (j < length w)%nat -> length pens = length w ->
  psum pens (set_nth w j v) = psum pens w - nth j pens (fun _ => 0) (nth j w 0) + nth j pens (fun _ => 0) v.
Proof.
  revert w j; induction pens as [|f ps IH]; intros w j Hj Hl; destruct w as [|x w]; simpl in *; try lia.
  destruct j; simpl; [lra|]. rewrite IH by lia. lra.
Qed.

Lemma sqnorm_zero_all c : sqnorm c = 0 -> Forall (fun x => x = 0) c.
Proof.
  unfold sqnorm. induction c as [|a c IH]; intros H0; constructor; simpl in H0.
  - assert (0 <= rsum (map (fun x => x * x) c)) by (apply rsum_nonneg; apply Forall_forall; intros x Hx; apply in_map_iff in Hx as (t & <- & _); nra). nra.
  - apply IH. assert (0 <= rsum (map (fun x => x * x) c)) by (apply rsum_nonneg; apply Forall_forall; intros x Hx; apply in_map_iff in Hx as (t & <- & _); nra). nra.
Qed.
Lemma sqnorm_nonneg c : 0 <= sqnorm c.
Proof. unfold sqnorm. apply rsum_nonneg. apply Forall_forall. intros x Hx. apply in_map_iff in Hx as (t & <- & _). nra. Qed.

Lemma add_zero_col z c d : Forall (fun x => x = 0) c -> length c = length z -> vmap2 Rplus z (map (fun e => d * e) c) = z.
Proof.
  revert c; induction z as [|z0 z IH]; intros c Hc Hl; destruct c as [|c0 c]; simpl in *; try discriminate; auto.
  inversion Hc; subst. f_equal; [lra|]. apply IH; [assumption|lia].
Qed.
Lemma dot_zero_col c u : Forall (fun x => x = 0) c -> rsum (vmap2 Rmult c u) = 0.
Proof. revert u; induction c as [|c0 c IH]; intros u Hc; destruct u; simpl; auto. inversion Hc; subst. rewrite IH by assumption. lra. Qed.

Section Descent.
Variables (X : list (list R)) (y : list R) (n : nat).
Variable pens : list (R -> R).
Variable prox_1d : R -> R -> Z -> res R.
Hypothesis HX : wf_X n X.
Hypothesis Hy : length y = n.
Hypothesis Hn : (0 < n)%nat.
Hypothesis Hpens : length pens = length X.
(* the prox never does worse than not moving (implied by global optimality, C07) *)
Hypothesis Hprox : forall x s j v, 0 < s -> prox_1d x s j = Ok v ->
  forall u, pobj (nth (Z.to_nat j) pens (fun _ => 0)) s x v <= pobj (nth (Z.to_nat j) pens (fun _ => 0)) s x u.

Definition Fobj (w Xw : list R) : R := quad_doc y Xw + psum pens w.
Notation lcQ := (map (fun col => sqnorm col / INR n) X).
Notation gradQ := (@Quadratic_gradient_scalar R _ (mTv X y)).

Lemma nR_n (z : list R) : length z = n -> nR z = INR n.
Proof. intros Hl. unfold nR, zlen. rewrite Hl. symmetry. apply INR_IZR_INZ. Qed.

Lemma get_idx_map_nth {B C} (f : B -> C) (l : list B) j d v : (0 <= j)%Z ->
  get_idx (map f l) j = Ok v -> v = f (nth (Z.to_nat j) l d) /\ (Z.to_nat j < length l)%nat.
Proof.
  intros Hj H0. unfold get_idx in H0. rewrite map_length in H0.
  destruct (norm_idx (length l) j) as [k|] eqn:Hk; [|discriminate].
  destruct (norm_idx_nonneg _ _ _ Hk Hj) as [-> Hlt]. rewrite nth_error_map in H0.
  destruct (nth_error l (Z.to_nat j)) eqn:E; inversion H0; subst. split; [|assumption].
  f_equal. symmetry. apply nth_error_nth. assumption.
Qed.

Lemma cd_step_descends j wa Xwa wb Xwb :
  (0 <= j)%Z -> length wa = length X -> length Xwa = n ->
  cd_body prox_1d gradQ X y lcQ j (wa, Xwa) = Ok (wb, Xwb) ->
  Fobj wb Xwb <= Fobj wa Xwa /\ length wb = length wa /\ length Xwb = n.
Proof.
  intros Hj Hlw HlX Hb.
  destruct (cd_body_spec _ _ _ _ _ _ _ _ _ _ Hj Hb) as (Xj & old & step & g & v & lcj & Hlc & Hst & Hcol & Hold & Hlt & Hg & Hp & -> & Hx).
  assert (Hn0 : 0 < INR n) by (apply lt_0_INR; exact Hn).
  (* column j and its constant *)
  destruct (get_idx_map_nth (fun col => sqnorm col / INR n) X j [] lcj Hj Hlc) as [HL HjX].
  assert (HXj : Xj = nth (Z.to_nat j) X []).
  { unfold mcol, get_idx in Hcol. rewrite norm_idx_in_range in Hcol by lia.
    destruct (nth_error X (Z.to_nat j)) eqn:E; inversion Hcol; subst. symmetry. apply nth_error_nth. assumption. }
  assert (HlXj : length Xj = n).
  { unfold wf_X in HX. rewrite Forall_forall in HX. apply HX. subst Xj. apply nth_In. assumption. }
  assert (Holdn : nth (Z.to_nat j) wa 0 = old).
  { unfold get_idx in Hold. rewrite norm_idx_in_range in Hold by lia.
    destruct (nth_error wa (Z.to_nat j)) eqn:E; inversion Hold; subst. apply nth_error_nth. assumption. }
  assert (Hznil : Xwa <> []) by (destruct Xwa; [simpl in HlX; lia|discriminate]).
  (* the gradient is the true partial derivative *)
  rewrite (Quadratic_gradient_scalar_spec X y wa Xwa j Xj) in Hg by (try assumption; lia).
  inversion Hg as [Hgv]. clear Hg. rewrite (nR_n Xwa HlX) in Hgv.
  split; [|split; [apply set_nth_length|]].
  2:{ destruct Hx as [->|[_ ->]]; [rewrite vmap2_length; rewrite ?map_length; lia|assumption]. }
  unfold Fobj. rewrite psum_set_nth by lia. rewrite Holdn.
  set (pj := nth (Z.to_nat j) pens (fun _ => 0)) in *.
  set (d := v - old).
  (* datafit change *)
  assert (HD : quad_doc y Xwb = quad_doc y Xwa + d * g + d ^ 2 / 2 * lcj).
  { destruct Hx as [->|[Hv ->]].
    - rewrite quad_step_identity by (try assumption; lia). rewrite (nR_n Xwa HlX). rewrite <- Hgv, HL, <- HXj. reflexivity.
    - unfold d. rewrite Hv. replace (old - old) with 0 by ring. lra. }
  rewrite HD. clear HD.
  assert (HLnn : 0 <= lcj) by (rewrite HL; apply Rmult_le_pos; [apply sqnorm_nonneg|left; apply Rinv_0_lt_compat; assumption]).
  destruct Hst as [[Hne ->]|[He ->]].
  - (* regular step 1/L *)
    assert (HLp : 0 < lcj) by lra.
    assert (Hs : 0 < 1 / lcj) by (apply Rdiv_lt_0_compat; lra).
    pose proof (Hprox _ _ _ _ Hs Hp old) as Ho. unfold pobj in Ho. fold pj in Ho.
    assert (Hk : lcj * (1 / lcj) = 1) by (field; lra).
    set (s := 1 / lcj) in *.
    (* Ho: (v - (old - g s))^2/2 + s pj v <= (old - (old - g s))^2/2 + s pj old *)
    assert (Hm : d ^ 2 / 2 + d * g * s + s * (pj v - pj old) <= 0) by (unfold d; nra).
    assert (Hm2 : lcj * (d ^ 2 / 2 + d * g * s + s * (pj v - pj old)) <= 0) by (apply Rmult_le_0_l_neg || nra).
    replace (lcj * (d ^ 2 / 2 + d * g * s + s * (pj v - pj old)))
      with (lcj * d ^ 2 / 2 + d * g * (lcj * s) + (lcj * s) * (pj v - pj old)) in Hm2 by field.
    rewrite Hk in Hm2. lra.
  - (* zero curvature: the column is null, the datafit does not move, the prox with step 1000 does not
       increase the penalty *)
    assert (Hz : Forall (fun x => x = 0) Xj).
    { apply sqnorm_zero_all. rewrite HXj. apply (Rmult_eq_reg_r (/ INR n)); [|apply Rgt_not_eq, Rinv_0_lt_compat; assumption].
      unfold Rdiv in HL. rewrite <- HL, He. ring. }
    assert (Hg0 : g = 0) by (rewrite <- Hgv, dot_zero_col by assumption; unfold Rdiv; ring).
    assert (Hs : 0 < 1000) by lra.
    pose proof (Hprox _ _ _ _ Hs Hp old) as Ho. unfold pobj in Ho. fold pj in Ho. rewrite Hg0 in Ho.
    rewrite He, Hg0. pose proof (pow2_ge_0 (v - (old - 0 * 1000))). nra.
Qed.

Theorem cd_epoch_descends ws w Xw w' Xw' :
  Forall (fun j => (0 <= j)%Z) ws -> length w = length X -> length Xw = n ->
  @_cd_epoch R _ prox_1d gradQ X y w Xw lcQ ws = Ok (w', Xw') ->
  Fobj w' Xw' <= Fobj w Xw.
Proof.
  intros Hws Hlw HlX Hrun. rewrite cd_epoch_unfold in Hrun.
  pose (Inv := fun s : list R * list R => Fobj (fst s) (snd s) <= Fobj w Xw /\ length (fst s) = length X /\ length (snd s) = n).
  assert (HI : Inv (w', Xw')).
  { apply (for_each_inv' Inv _ _ _ _ Hrun); [unfold Inv; simpl; repeat split; auto; lra|].
    intros j [wa Xwa] [wb Xwb] Hin (H1 & H2 & H3) Hb. unfold Inv in *; simpl in *.
    rewrite Forall_forall in Hws. specialize (Hws j Hin).
    destruct (cd_step_descends j wa Xwa wb Xwb Hws H2 H3 Hb) as (Hd & Hl1 & Hl2).
    repeat split; [lra|lia|assumption]. }
  apply HI.
Qed.
End Descent.
