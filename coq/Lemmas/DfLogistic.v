(* C06, Logistic datafit: the regenerated value is the documented mean of log(1 + exp(-y_i z_i)), it never fails (the argument of
   the logarithm is > 1), and the regenerated raw_grad is its exact derivative w.r.t. the linear predictor; hence (generic
   chain rule) the derivative of the loss along any direction x of the linear predictor is mean_i x_i l'(y_i, z_i). *)
From Coq Require Import Reals Lra Lia ZArith List Bool.
From Coquelicot Require Import Coquelicot.
Require Import SK.Base.Res SK.Base.Num SK.Base.RInst SK.Lemmas.VecFacts SK.Lemmas.Deriv SK.Lemmas.DfQuadratic.
Require Import SK.Gen.SparseOps SK.Gen.DfSingle.
Import ListNotations.
Local Open Scope R_scope.

Definition llog (y z : R) : R := ln (1 + exp (- y * z)).
Definition llog' (y z : R) : R := - y / (1 + exp (y * z)).

Lemma llog_derive y z : is_derive (llog y) z (llog' y z).
Proof.
  unfold llog, llog'. auto_derive.
  - pose proof (exp_pos (- y * z)). lra.
  - pose proof (exp_pos (y * z)) as H2.
    replace (- y * z) with (- (y * z)) by ring. rewrite exp_Ropp.
    assert (He : exp (y * z) <> 0) by lra.
    assert (H3 : 0 < / exp (y * z)) by (apply Rinv_0_lt_compat; exact H2).
    field. split; [lra|exact He].
Qed.

Definition logistic_doc (y z : list R) : R := rsum (vmap2 llog y z) / nR y.

Lemma mapM_flog_pos (l : list R) : List.Forall (fun a => 0 < a) l -> mapM (@flog R _) l = Ok (map ln l).
Proof.
  induction l as [|a l IH]; intros Hp; [reflexivity|]. inversion Hp as [|a' l' Ha Hl]; subst.
  change (mapM (@flog R _) (a :: l)) with (bind (@flog R _ a) (fun b => bind (mapM (@flog R _) l) (fun bs => Ok (b :: bs)))).
  rewrite (IH Hl). cbn [flog RNum]. destruct (Rlt_dec 0 a); [|contradiction]. reflexivity.
Qed.

Theorem Logistic_value_doc y w z : y <> [] -> length y = length z ->
  @Logistic_value R _ y w z = Ok (logistic_doc y z).
Proof.
  intros Hy Hl. unfold Logistic_value, logistic_doc.
  set (args := vmap (fun e__ => fadd (fofZ 1) e__) (vmap fexp (vmap2 fmul (vmap fopp y) z))).
  assert (Hpos : List.Forall (fun a => 0 < a) args).
  { unfold args, vmap. rewrite List.Forall_forall. intros a Ha. apply in_map_iff in Ha as (b & <- & Hb).
    apply in_map_iff in Hb as (c & <- & _). cbn [fadd fofZ fexp RNum]. pose proof (exp_pos c). simpl. lra. }
  rewrite (mapM_flog_pos args Hpos). cbn [bind fdiv fofZ RNum].
  pose proof (nR_pos y Hy) as Hn. unfold nR in *. destruct (Req_EM_T (IZR (zlen y)) 0); [lra|]. cbn [bind]. unfold ret. f_equal.
  rewrite vsum_rsum. f_equal. unfold args, vmap, llog. cbn [fadd fofZ fexp fmul fopp RNum].
  clear. revert z. induction y as [|a y IH]; intros [|b z]; simpl; try reflexivity. rewrite IH. reflexivity.
Qed.

Lemma raw_grad_core (y z : list R) : length y = length z ->
  mapM (fun '(e__, d__) => @fdiv R _ e__ d__) (combine (map Ropp y) (map (fun e => 1 + e) (map exp (vmap2 Rmult y z))))
  = Ok (vmap2 llog' y z).
Proof.
  revert z. induction y as [|a y IH]; intros [|b z] Hl; simpl in Hl; try discriminate; [reflexivity|].
  cbn [map vmap2 combine]. cbn [mapM]. rewrite (IH z) by lia. cbn [fdiv RNum].
  pose proof (exp_pos (a * b)). destruct (Req_EM_T (1 + exp (a * b)) 0) as [e|e]; [lra|]. cbn [bind]. reflexivity.
Qed.

Theorem Logistic_raw_grad_spec y z : y <> [] -> length y = length z ->
  @Logistic_raw_grad R _ y z = Ok (map (fun r => r / nR y) (vmap2 llog' y z)).
Proof.
  intros Hy Hl. unfold Logistic_raw_grad. unfold vmap. cbn [fopp fadd fofZ fexp fmul RNum].
  change (IZR 1) with 1. rewrite (raw_grad_core y z Hl). cbn [bind].
  pose proof (nR_pos y Hy) as Hn. unfold nR in *. rewrite vdivs_ok by lra. cbn [bind]. reflexivity.
Qed.

Theorem Logistic_directional_derivative y z x :
  length y = length z -> length x = length z -> y <> [] ->
  is_derive (fun t => logistic_doc y (zline z x t)) 0 (rsum (vmap2 Rmult x (vmap2 llog' y z)) / nR y).
Proof.
  intros Hy Hx Hn. unfold logistic_doc.
  apply is_derive_loss_mean; try assumption. apply Forall2_all; [assumption|]. intros; apply llog_derive.
Qed.
