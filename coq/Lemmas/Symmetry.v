(* C15: objective identities under the symmetries of the problem (documented objective of the Quadratic
   datafit, regenerated value kernel tied to it by C06): sample permutation, k-fold stacking, joint scaling. *)
From Coq Require Import Reals Lra Lia ZArith List Bool Permutation.
Require Import SK.Base.Res SK.Base.Num SK.Base.RInst SK.Lemmas.VecFacts SK.Lemmas.DfQuadratic SK.Lemmas.ProxScalar.
Import ListNotations.
Local Open Scope R_scope.

Lemma rsum_perm a b : Permutation a b -> rsum a = rsum b.
Proof. induction 1; simpl; lra. Qed.

Lemma vmap2_combine (f : R -> R -> R) a b : vmap2 f a b = map (fun p => f (fst p) (snd p)) (combine a b).
Proof. revert b; induction a; destruct b; simpl; auto. f_equal. apply IHa. Qed.

(* permuting the samples (rows of X, entries of y and of the linear predictor together) leaves the loss unchanged *)
Theorem quad_doc_sample_permutation y z y' z' : length y = length z -> length y' = length z' ->
  Permutation (combine y z) (combine y' z') -> quad_doc y z = quad_doc y' z'.
Proof.
  intros Hl Hl' Hp. unfold quad_doc.
  assert (Hn : length z = length z').
  { pose proof (Permutation_length Hp) as H0. rewrite !combine_length in H0. lia. }
  unfold nR, zlen. rewrite Hn. f_equal. rewrite !vmap2_combine. apply rsum_perm. apply Permutation_map. exact Hp.
Qed.

(* stacking the data set k times: the 1/n normalisation makes the loss identical *)
Fixpoint stack {A} (k : nat) (l : list A) : list A := match k with O => [] | S k' => l ++ stack k' l end.
Lemma stack_length {A} k (l : list A) : length (stack k l) = (k * length l)%nat.
Proof. induction k; simpl; [reflexivity|rewrite app_length, IHk; reflexivity]. Qed.
Lemma vmap2_app (f : R -> R -> R) a b c d : length a = length c -> vmap2 f (a ++ b) (c ++ d) = vmap2 f a c ++ vmap2 f b d.
Proof. revert c; induction a; destruct c; simpl; intros; try discriminate; auto. f_equal. apply IHa. lia. Qed.
Lemma rsum_stack f y z k : length y = length z ->
  rsum (vmap2 f (stack k y) (stack k z)) = INR k * rsum (vmap2 f y z).
Proof.
  intros Hl. induction k as [|k IH]; [simpl; lra|]. cbn [stack]. rewrite vmap2_app by assumption. rewrite rsum_app, IH, S_INR. lra.
Qed.
Theorem quad_doc_stacking y z k : length y = length z -> (0 < k)%nat -> z <> [] ->
  quad_doc (stack k y) (stack k z) = quad_doc y z.
Proof.
  intros Hl Hk Hz. unfold quad_doc. rewrite rsum_stack by assumption.
  unfold nR, zlen. rewrite stack_length, Nat2Z.inj_mul, mult_IZR, <- !INR_IZR_INZ.
  assert (0 < INR k) by (apply lt_0_INR; assumption).
  assert (0 < INR (length z)) by (apply lt_0_INR; destruct z; [congruence|simpl; lia]).
  field. split; lra.
Qed.

(* scaling y and the predictor by c scales the quadratic loss by c^2; an L1 term with alpha scaled by c likewise *)
Theorem quad_doc_scaling c y z : quad_doc (map (fun t => c * t) y) (map (fun t => c * t) z) = c ^ 2 * quad_doc y z.
Proof.
  unfold quad_doc. unfold nR, zlen. rewrite map_length.
  assert (Hs : rsum (vmap2 (fun yi zi => (yi - zi) ^ 2) (map (fun t => c * t) y) (map (fun t => c * t) z))
             = c ^ 2 * rsum (vmap2 (fun yi zi => (yi - zi) ^ 2) y z)).
  { revert z; induction y; destruct z; cbn [map vmap2 rsum]; try lra. rewrite IHy. ring. }
  rewrite Hs. unfold Rdiv. ring.
Qed.
Theorem l1_scaling c alpha v : 0 <= c -> l1pen (c * alpha) (c * v) = c ^ 2 * l1pen alpha v.
Proof. intros Hc. unfold l1pen. rewrite Rabs_mult, (Rabs_right c) by lra. ring. Qed.
