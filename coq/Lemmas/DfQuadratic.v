(* C06 / C09 for the Quadratic datafit: documented value, exact derivatives along any direction of the
   linear predictor, cached X^T y, coordinate Lipschitz constants. *)
From Coq Require Import Reals Lra Lia ZArith List.
From Coquelicot Require Import Coquelicot.
Require Import SK.Base.Res SK.Base.Num SK.Base.RInst SK.Lemmas.VecFacts SK.Lemmas.Deriv.
Require Import SK.Gen.SparseOps SK.Gen.DfSingle.
Import ListNotations.
Local Open Scope R_scope.

Definition nR {A} (l : list A) : R := IZR (zlen l).
Lemma nR_pos {A} (l : list A) : l <> [] -> 0 < nR l.
Proof. destruct l; [congruence|]. intros _. unfold nR, zlen. apply IZR_lt. simpl. lia. Qed.

(* scalar loss and its derivative *)
Definition lq (yi zi : R) : R := (yi - zi) ^ 2 / 2.
Definition lq' (yi zi : R) : R := zi - yi.
Lemma lq_derive yi zi : is_derive (lq yi) zi (lq' yi zi).
Proof. unfold lq, lq'. auto_derive; [exact I|]. field. Qed.

(* documented: 1/(2n) ||y - Xw||^2 *)
Definition quad_doc (y z : list R) : R := rsum (vmap2 (fun yi zi => (yi - zi) ^ 2) y z) / (2 * nR z).

Theorem Quadratic_value_doc y w z : z <> [] -> @Quadratic_value R _ y w z = Ok (quad_doc y z).
Proof.
  intros Hz. unfold Quadratic_value, quad_doc. cbn [fdiv fofZ RNum bind].
  pose proof (nR_pos z Hz) as Hn. unfold nR in *.
  destruct (Req_EM_T (IZR (2 * zlen z)) 0) as [e|e]; [rewrite mult_IZR in e; lra|].
  cbn [bind]. unfold ret. f_equal. rewrite vsum_rsum, mult_IZR.
  replace (rsum (vmap fsq (vmap2 fsub y z))) with (rsum (vmap2 (fun yi zi : R => (yi - zi) ^ 2) y z)); [reflexivity|].
  unfold vmap. rewrite map_vmap2. apply rsum_ext_vmap2. intros. unfold fsq; cbn. ring.
Qed.

Lemma quad_doc_mean y z : quad_doc y z = rsum (vmap2 lq y z) / nR z.
Proof.
  unfold quad_doc, lq. replace (rsum (vmap2 (fun yi zi => (yi - zi) ^ 2 / 2) y z)) with
    (rsum (vmap2 (fun yi zi => (yi - zi) ^ 2) y z) / 2).
  - unfold Rdiv. rewrite Rinv_mult. ring.
  - revert z; induction y; destruct z; cbn [vmap2 rsum]; try lra. rewrite <- IHy. lra.
Qed.

Theorem Quadratic_raw_grad_spec y z : y <> [] ->
  @Quadratic_raw_grad R _ y z = Ok (map (fun r => r / nR y) (vmap2 lq' y z)).
Proof.
  intros Hy. unfold Quadratic_raw_grad. cbn [fofZ RNum].
  rewrite vdivs_ok by (pose proof (nR_pos y Hy); unfold nR in *; lra). cbn [bind]; unfold ret. f_equal.
  unfold nR. f_equal. unfold lq'. revert z; induction y; destruct z; simpl; auto. f_equal; auto.
  destruct y; [destruct z; reflexivity|]. apply IHy. congruence.
Qed.

(* the value along z + t x, as a real function (lengths fixed) *)
Theorem Quadratic_directional_derivative y z x :
  length y = length z -> length x = length z -> z <> [] ->
  is_derive (fun t => quad_doc y (zline z x t)) 0 (rsum (vmap2 Rmult x (vmap2 lq' y z)) / nR z).
Proof.
  intros Hy Hx Hz.
  apply (is_derive_ext (fun t => rsum (vmap2 lq y (zline z x t)) / nR z)).
  - intros t. rewrite quad_doc_mean. unfold nR, zlen, zline. rewrite vmap2_length by lia. reflexivity.
  - apply is_derive_loss_mean; try assumption. apply Forall2_all; [assumption|]. intros; apply lq_derive.
Qed.

(* gradient_scalar with the cached Xty = X^T y is the directional derivative along column j *)
Theorem Quadratic_gradient_scalar_spec X y w z j Xj :
  length y = length z -> length Xj = length z -> z <> [] -> mcol X j = Ok Xj ->
  @Quadratic_gradient_scalar R _ (mTv X y) X y w z j = Ok (rsum (vmap2 Rmult Xj (vmap2 lq' y z)) / nR z).
Proof.
  intros Hy Hx Hz Hc. unfold Quadratic_gradient_scalar. rewrite Hc. cbn [bind].
  unfold mcol in Hc. unfold mTv. rewrite (get_idx_map (fun c => vdot c y) X j Xj Hc). cbn [bind].
  cbn [fdiv fsub fofZ RNum]. pose proof (nR_pos z Hz) as Hn. unfold nR in *.
  destruct (Req_EM_T (IZR (zlen z)) 0); [lra|]. cbn [bind]; unfold ret. f_equal. f_equal.
  rewrite !vdot_rsum. unfold lq'.
  replace (vmap2 (fun yi zi => zi - yi) y z) with (vmap2 Rminus z y).
  - rewrite rsum_vmap2_sub by lia. reflexivity.
  - clear. revert z; induction y; destruct z; simpl; auto. f_equal; auto.
Qed.

Theorem Quadratic_initialize_spec X y : @Quadratic_initialize R _ X y = Ok (mTv X y).
Proof. reflexivity. Qed.

Theorem Quadratic_intercept_step_spec y z : length y = length z -> z <> [] ->
  @Quadratic_intercept_update_step R _ y z = Ok (rsum (vmap2 Rmult (map (fun _ => 1) z) (vmap2 lq' y z)) / nR z).
Proof.
  intros Hy Hz. unfold Quadratic_intercept_update_step. cbn [fdiv fofZ RNum bind].
  pose proof (nR_pos z Hz) as Hn.
  assert (Hl : zlen (vmap2 fsub z y) = zlen z) by (unfold zlen; rewrite vmap2_length by lia; reflexivity).
  cbn [fsub RNum] in *. rewrite Hl. unfold nR in *.
  destruct (Req_EM_T (IZR (zlen z)) 0); [lra|]. cbn [bind]; unfold ret. f_equal. f_equal. rewrite vsum_rsum.
  unfold lq'. clear -Hy. revert z Hy; induction y; destruct z; simpl; intros; try discriminate; auto.
  rewrite IHy by lia. lra.
Qed.
