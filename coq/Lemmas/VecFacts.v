(* Real-number facts about the vector combinators of Base/Num.v. *)
From Coq Require Import Reals Lra Lia ZArith List Bool.
Require Import SK.Base.Res SK.Base.Num SK.Base.RInst.
Import ListNotations.
Local Open Scope R_scope.

Fixpoint rsum (l : list R) : R := match l with [] => 0 | x :: t => x + rsum t end.

Lemma fold_left_Rplus l a : fold_left Rplus l a = a + rsum l.
Proof. revert a; induction l as [|x l IH]; intros a; simpl; [lra|rewrite IH; lra]. Qed.

Lemma vsum_rsum (l : list R) : vsum l = rsum l.
Proof. unfold vsum. cbn [fadd RNum]. rewrite fold_left_Rplus. unfold f0; cbn. lra. Qed.

Lemma rsum_app a b : rsum (a ++ b) = rsum a + rsum b.
Proof. induction a; simpl; lra. Qed.

Lemma rsum_map_scale c l : rsum (map (fun x => c * x) l) = c * rsum l.
Proof. induction l; simpl; lra. Qed.

Lemma rsum_nonneg l : Forall (fun x => 0 <= x) l -> 0 <= rsum l.
Proof. induction 1; simpl; lra. Qed.

Lemma rsum_map2_add (f g : R -> R -> R) a b :
  rsum (vmap2 (fun x y => f x y + g x y) a b) = rsum (vmap2 f a b) + rsum (vmap2 g a b).
Proof. revert b; induction a; destruct b; simpl; try lra. rewrite IHa. lra. Qed.

Lemma vmap2_length (f : R -> R -> R) (a b : list R) : length a = length b -> length (vmap2 f a b) = length a.
Proof. revert b; induction a; destruct b; simpl; intros; try lia. f_equal; apply IHa; lia. Qed.

Lemma vdot_rsum (a b : list R) : vdot a b = rsum (vmap2 Rmult a b).
Proof. unfold vdot. rewrite vsum_rsum. reflexivity. Qed.

(* pointwise: sum over i of f (a_i) (b_i) where position j is special *)
Lemma rsum_vmap2_set_nth (f : R -> R -> R) a b j x :
  (j < length a)%nat -> length a = length b ->
  rsum (vmap2 f (set_nth a j x) b) = rsum (vmap2 f a b) - f (nth j a 0) (nth j b 0) + f x (nth j b 0).
Proof.
  revert b j; induction a as [|a0 a IH]; intros b j Hj Hl; [simpl in Hj; lia|].
  destruct b as [|b0 b]; [discriminate|]. destruct j; simpl.
  - lra.
  - rewrite IH by (simpl in *; lia). lra.
Qed.
