(* Real-number facts about the vector combinators of Base/Num.v. *)
From Coq Require Import Reals Lra Lia ZArith List Bool.
Require Import SK.Base.Res SK.Base.Num SK.Base.RInst.
Import ListNotations.
Local Open Scope R_scope.

Fixpoint rsum (l : list R) : R := match l with [] => 0 | x :: t => x + rsum t end.

Lemma fold_left_Rplus l a : fold_left Rplus l a = a + rsum l.
Proof. revert a; induction l as [|x l IH]; intros a; simpl; [lra|rewrite IH; lra]. Qed.

Lemma vsum_rsum (l : list R) : vsum l = rsum l.
Proof. unfold vsum. cbn [fadd RNum]. rewrite fold_left_Rplus. unfold f0; cbn. lra. Qed.

Lemma rsum_app a b : rsum (a ++ b) = rsum a + rsum b.
Proof. induction a; simpl; lra. Qed.

Lemma rsum_map_scale c l : rsum (map (fun x => c * x) l) = c * rsum l.
Proof. induction l; simpl; lra. Qed.

Lemma rsum_nonneg l : Forall (fun x => 0 <= x) l -> 0 <= rsum l.
Proof. induction 1; simpl; lra. Qed.

Lemma rsum_map2_add (f g : R -> R -> R) a b :
  rsum (vmap2 (fun x y => f x y + g x y) a b) = rsum (vmap2 f a b) + rsum (vmap2 g a b).
Proof. revert b; induction a; destruct b; simpl; try lra. rewrite IHa. lra. Qed.

Lemma vmap2_length (f : R -> R -> R) (a b : list R) : length a = length b -> length (vmap2 f a b) = length a.
Proof. revert b; induction a; destruct b; simpl; intros; try lia. f_equal; apply IHa; lia. Qed.

Lemma vdot_rsum (a b : list R) : vdot a b = rsum (vmap2 Rmult a b).
Proof. unfold vdot. rewrite vsum_rsum. reflexivity. Qed.

(* pointwise: sum over i of f (a_i) (b_i) where position j is special *)
Lemma rsum_vmap2_set_nth (f : R -> R -> R) a b j x :
  (j < length a)%nat -> length a = length b ->
  rsum (vmap2 f (set_nth a j x) b) = rsum (vmap2 f a b) - f (nth j a 0) (nth j b 0) + f x (nth j b 0).
Proof.
  revert b j; induction a as [|a0 a IH]; intros b j Hj Hl; [simpl in Hj; lia|].
  destruct b as [|b0 b]; [discriminate|]. destruct j; simpl.
  - lra.
  - rewrite IH by (simpl in *; lia). lra.
Qed.

Lemma mapM_ok {A B} (f : A -> res B) (g : A -> B) (l : list A) :
  (forall a, In a l -> f a = Ok (g a)) -> mapM f l = Ok (map g l).
Proof.
  induction l as [|a l IH]; intros Hf; simpl; [reflexivity|].
  rewrite (Hf a) by (left; reflexivity). cbn [bind]. rewrite IH by (intros; apply Hf; right; assumption). reflexivity.
Qed.

Lemma vdivs_ok (a : list R) c : c <> 0 -> vdivs a c = Ok (map (fun x => x / c) a).
Proof.
  intros Hc. unfold vdivs. apply mapM_ok. intros x _. cbn [fdiv RNum].
  destruct (Req_EM_T c 0); [contradiction|reflexivity].
Qed.

Lemma rsum_vmap2_sub (a b c : list R) : length b = length c ->
  rsum (vmap2 Rmult a (vmap2 Rminus b c)) = rsum (vmap2 Rmult a b) - rsum (vmap2 Rmult a c).
Proof.
  revert b c; induction a as [|a0 a IH]; intros b c Hl; [simpl; lra|].
  destruct b, c; simpl in *; try discriminate; try lra. rewrite IH by lia. lra.
Qed.

Lemma rsum_div l c : rsum (map (fun x => x / c) l) = rsum l / c.
Proof. induction l; simpl; [unfold Rdiv; lra|rewrite IHl; unfold Rdiv; lra]. Qed.

Lemma vmap2_map_r (f : R -> R -> R) (g : R -> R) a b : vmap2 f a (map g b) = vmap2 (fun x y => f x (g y)) a b.
Proof. revert b; induction a; destruct b; simpl; auto. f_equal. apply IHa. Qed.
Lemma vmap2_map_l (f : R -> R -> R) (g : R -> R) a b : vmap2 f (map g a) b = vmap2 (fun x y => f (g x) y) a b.
Proof. revert b; induction a; destruct b; simpl; auto. f_equal. apply IHa. Qed.
Lemma map_vmap2 (g : R -> R) (f : R -> R -> R) a b : map g (vmap2 f a b) = vmap2 (fun x y => g (f x y)) a b.
Proof. revert b; induction a; destruct b; simpl; auto. f_equal. apply IHa. Qed.
Lemma vmap2_vmap2_r (f h : R -> R -> R) a b c : length b = length c ->
  vmap2 f a (vmap2 h b c) = map (fun p => f (fst p) (h (fst (snd p)) (snd (snd p)))) (combine a (combine b c)).
Proof.
  revert b c; induction a; intros b c Hl; simpl; [reflexivity|]. destruct b, c; simpl in *; try discriminate; auto.
  f_equal. apply IHa. lia.
Qed.
Lemma vmap2_ext (f g : R -> R -> R) a b : (forall x y, f x y = g x y) -> vmap2 f a b = vmap2 g a b.
Proof. intros He. revert b; induction a; destruct b; simpl; auto. rewrite He, IHa. reflexivity. Qed.
Lemma rsum_ext_vmap2 (f g : R -> R -> R) a b : (forall x y, f x y = g x y) -> rsum (vmap2 f a b) = rsum (vmap2 g a b).
Proof. intros. rewrite (vmap2_ext f g); auto. Qed.

(* get_idx through map *)
Lemma get_idx_map {A B} (f : A -> B) (l : list A) i a : get_idx l i = Ok a -> get_idx (map f l) i = Ok (f a).
Proof.
  unfold get_idx. rewrite map_length. destruct (norm_idx (length l) i) as [k|]; [|discriminate].
  rewrite nth_error_map. destruct (nth_error l k); simpl; intros H0; inversion H0; reflexivity.
Qed.
