(* C01-2: the CD epoch kernels keep the model-fit buffer consistent, Xw = X w + c, for ANY coordinate
   update rule (any prox, any gradient) -- by induction over the working set. *)
From Coq Require Import Reals Lra Lia ZArith List Bool.
Require Import SK.Base.Res SK.Base.Num SK.Base.RInst SK.Lemmas.VecFacts SK.Lemmas.Loops SK.Lemmas.Csc.
Require Import SK.Gen.KernACD.
Import ListNotations.
Local Open Scope R_scope.

(* (X w)_i with X a list of columns *)
Definition lin_at (X : list (list R)) (w : list R) (i : nat) : R :=
  rsum (vmap2 Rmult w (map (fun col => nth i col 0) X)).

(* Xw = X w + c   (c: the part not explained by w, e.g. the intercept times 1) *)
Definition Cons (n : nat) (X : list (list R)) (w c Xw : list R) : Prop :=
  length Xw = n /\ forall i, (i < n)%nat -> nth i Xw 0 = lin_at X w i + nth i c 0.

Definition wf_X (n : nat) (X : list (list R)) : Prop := Forall (fun col => length col = n) X.

Lemma nth_vmap2 (f : R -> R -> R) a b i : (i < length a)%nat -> (i < length b)%nat ->
  nth i (vmap2 f a b) 0 = f (nth i a 0) (nth i b 0).
Proof.
  revert b i; induction a as [|x a IH]; intros b i Ha Hb; [simpl in Ha; lia|].
  destruct b as [|y b]; [simpl in Hb; lia|]. destruct i; simpl; [reflexivity|].
  apply IH; simpl in *; lia.
Qed.
Lemma nth_map_R (f : R -> R) a i : (i < length a)%nat -> nth i (map f a) 0 = f (nth i a 0).
Proof. revert i; induction a; intros i Hi; [simpl in Hi; lia|]. destruct i; simpl; auto. apply IHa. simpl in Hi; lia. Qed.

(* one coordinate update *)
Lemma lin_at_set_nth X w j v i : (j < length w)%nat -> length w = length X ->
  lin_at X (set_nth w j v) i = lin_at X w i + (v - nth j w 0) * nth i (nth j X []) 0.
Proof.
  intros Hj Hl. unfold lin_at. rewrite (rsum_vmap2_set_nth Rmult) by (rewrite ?map_length; assumption).
  assert (Hn : nth j (map (fun col => nth i col 0) X) 0 = nth i (nth j X []) 0).
  { rewrite <- (map_nth (fun col => nth i col 0) X [] j). destruct i; reflexivity. }
  rewrite Hn. ring.
Qed.

Lemma cons_step n X w c Xw j Xj wj v :
  Cons n X w c Xw -> wf_X n X -> length w = length X ->
  get_idx w j = Ok wj -> mcol X j = Ok Xj -> (0 <= j)%Z ->
  Cons n X (set_nth w (Z.to_nat j) v) c (vmap2 Rplus Xw (map (fun e => (v - wj) * e) Xj)).
Proof.
  intros [Hlen Hc] HX Hl Hw Hcol Hj0.
  unfold get_idx in Hw. destruct (norm_idx (length w) j) as [k|] eqn:Hk; [|discriminate].
  destruct (norm_idx_nonneg _ _ _ Hk Hj0) as [-> Hkl].
  destruct (nth_error w (Z.to_nat j)) as [wj'|] eqn:Hn; inversion Hw; subst wj'.
  unfold mcol, get_idx in Hcol. rewrite <- Hl, Hk in Hcol.
  destruct (nth_error X (Z.to_nat j)) as [Xj'|] eqn:HnX; inversion Hcol; subst Xj'.
  assert (HXj : length Xj = n). { unfold wf_X in HX. rewrite Forall_forall in HX. apply HX. eapply nth_error_In; eauto. }
  split.
  - rewrite vmap2_length; [assumption|rewrite map_length; lia].
  - intros i Hi. rewrite nth_vmap2 by (rewrite ?map_length; lia). rewrite nth_map_R by lia.
    rewrite lin_at_set_nth by assumption. rewrite Hc by assumption.
    rewrite (nth_error_nth w _ 0 Hn). rewrite (nth_error_nth X _ [] HnX). ring.
Qed.

Lemma set_idx_nonneg {A} (l l' : list A) j v : (0 <= j)%Z -> set_idx l j v = Ok l' ->
  l' = set_nth l (Z.to_nat j) v /\ (Z.to_nat j < length l)%nat.
Proof.
  intros Hj H0. unfold set_idx in H0. destruct (norm_idx (length l) j) as [k|] eqn:Hk; [|discriminate].
  destruct (norm_idx_nonneg _ _ _ Hk Hj) as [-> Hlt]. inversion H0. auto.
Qed.
Lemma get_idx_set_nth_same {A} (l : list A) j v v' : (0 <= j)%Z -> (Z.to_nat j < length l)%nat ->
  get_idx (set_nth l (Z.to_nat j) v) j = Ok v' -> v' = v.
Proof.
  intros Hj Hlt H0. unfold get_idx in H0. rewrite set_nth_length in H0.
  rewrite norm_idx_in_range in H0 by lia. rewrite nth_error_set_nth_eq in H0 by assumption. inversion H0. reflexivity.
Qed.

Section Epoch.
Variable prox_1d : R -> R -> Z -> res R.
Variable gradient_scalar : list (list R) -> list R -> list R -> list R -> Z -> res R.

(* what one iteration of the generated loop body does, whatever the update rule is *)
Definition cd_body X y lc (j : Z) (s : list R * list R) : res (list R * list R) :=
  let '(w, Xw) := s in
  bind (get_idx lc j) (fun t1 =>
  bind (if negb (feqb t1 (fofZ 0)) then bind (get_idx lc j) (fun t2 => bind (fdiv (fofZ 1) t2) (fun t3 => ret t3))
        else ret (fofZ 1000)) (fun t4 =>
  bind (mcol X j) (fun t5 =>
  bind (get_idx w j) (fun t6 =>
  bind (gradient_scalar X y w Xw j) (fun t7 =>
  bind (prox_1d (fsub t6 (fmul t7 t4)) t4 j) (fun t8 =>
  bind (set_idx w j t8) (fun w0 =>
  bind (get_idx w0 j) (fun t9 =>
  if negb (feqb t9 t6)
  then bind (get_idx w0 j) (fun t10 => ret (w0, vmap2 fadd Xw (vmap (fun e__ => fmul (fsub t10 t6) e__) t5)))
  else ret (w0, Xw))))))))).

Lemma cd_epoch_unfold X y w Xw lc ws :
  @_cd_epoch R _ prox_1d gradient_scalar X y w Xw lc ws = for_each ws (cd_body X y lc) (w, Xw).
Proof.
  unfold _cd_epoch.
  change (for_each ws _ (w, Xw)) with (for_each ws (cd_body X y lc) (w, Xw)).
  destruct (for_each ws (cd_body X y lc) (w, Xw)) as [[a b]|]; reflexivity.
Qed.

Lemma cd_body_spec X y lc j wa Xwa wb Xwb : (0 <= j)%Z ->
  cd_body X y lc j (wa, Xwa) = Ok (wb, Xwb) ->
  exists Xj old step g v lcj,
    get_idx lc j = Ok lcj /\ ((lcj <> 0 /\ step = 1 / lcj) \/ (lcj = 0 /\ step = 1000)) /\
    mcol X j = Ok Xj /\ get_idx wa j = Ok old /\ (Z.to_nat j < length wa)%nat /\
    gradient_scalar X y wa Xwa j = Ok g /\ prox_1d (old - g * step) step j = Ok v /\
    wb = set_nth wa (Z.to_nat j) v /\
    (Xwb = vmap2 Rplus Xwa (map (fun e => (v - old) * e) Xj) \/ (v = old /\ Xwb = Xwa)).
Proof.
  intros Hj H0. unfold cd_body in H0.
  apply bind_ok in H0 as (t1 & H1 & H0). apply bind_ok in H0 as (step & H4 & H0).
  apply bind_ok in H0 as (Xj & H5 & H0). apply bind_ok in H0 as (old & H6 & H0).
  apply bind_ok in H0 as (g & H7 & H0). apply bind_ok in H0 as (v & H8 & H0).
  apply bind_ok in H0 as (w0 & H9 & H0). apply bind_ok in H0 as (t9 & H10 & H0).
  destruct (set_idx_nonneg _ _ _ _ Hj H9) as [-> Hlt].
  pose proof (get_idx_set_nth_same _ _ _ _ Hj Hlt H10) as ->.
  exists Xj, old, step, g, v, t1.
  assert (Hst : (t1 <> 0 /\ step = 1 / t1) \/ (t1 = 0 /\ step = 1000)).
  { cbn [feqb fofZ fdiv RNum] in H4. unfold Reqb in H4. destruct (Req_EM_T t1 0) as [e|ne]; cbn [negb] in H4.
    - right. unfold ret in H4. inversion H4. auto.
    - left. rewrite H1 in H4. cbn [bind] in H4. destruct (Req_EM_T t1 0); [contradiction|]. cbn [bind] in H4.
      unfold ret in H4. inversion H4. auto. }
  split; [exact H1|]. split; [exact Hst|]. repeat split; try assumption.
  - destruct (negb (feqb v old)) eqn:Hb.
    + apply bind_ok in H0 as (t10 & H11 & H0). unfold ret in H0. inversion H0. reflexivity.
    + unfold ret in H0. inversion H0. reflexivity.
  - destruct (negb (feqb v old)) eqn:Hb.
    + apply bind_ok in H0 as (t10 & H11 & H0).
      pose proof (get_idx_set_nth_same _ _ _ _ Hj Hlt H11) as ->. unfold ret in H0. inversion H0. left. reflexivity.
    + unfold ret in H0. inversion H0. subst.
      cbn [feqb RNum] in Hb. apply negb_false_iff, Reqb_true in Hb. right. split; [assumption|reflexivity].
Qed.

Theorem cd_epoch_preserves_cons n X y w c Xw lc ws w' Xw' :
  wf_X n X -> length w = length X -> Forall (fun j => (0 <= j)%Z) ws ->
  Cons n X w c Xw ->
  @_cd_epoch R _ prox_1d gradient_scalar X y w Xw lc ws = Ok (w', Xw') ->
  Cons n X w' c Xw' /\ length w' = length w.
Proof.
  intros HX Hl Hws H0 Hrun. rewrite cd_epoch_unfold in Hrun.
  pose (Inv := fun s : list R * list R => Cons n X (fst s) c (snd s) /\ length (fst s) = length w).
  apply (for_each_inv' Inv _ _ _ _ Hrun); [split; [exact H0|reflexivity]|].
  intros j [wa Xwa] [wb Xwb] Hin [HC HL] Hb. simpl in HC, HL. unfold Inv; simpl.
  rewrite Forall_forall in Hws. specialize (Hws j Hin).
  destruct (cd_body_spec _ _ _ _ _ _ _ _ Hws Hb) as (Xj & old & step & g & v & lcj & _ & _ & Hcol & Hold & Hlt & _ & _ & -> & Hx).
  split; [|rewrite set_nth_length; assumption].
  destruct Hx as [->|[-> ->]].
  - apply cons_step; try assumption. lia.
  - (* unchanged value *)
    destruct HC as [HC1 HC2]. split; [assumption|]. intros i Hi. rewrite HC2 by assumption. f_equal.
    rewrite lin_at_set_nth by lia.
    assert (nth (Z.to_nat j) wa 0 = old).
    { unfold get_idx in Hold. rewrite norm_idx_in_range in Hold by lia.
      destruct (nth_error wa (Z.to_nat j)) eqn:E; inversion Hold; subst. apply nth_error_nth; assumption. }
    rewrite H. ring.
Qed.
End Epoch.
