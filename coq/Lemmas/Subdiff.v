(* C08: the generated subdiff_distance kernels compute the Euclidean distance from -grad_j to the
   (regular) subdifferential of the coordinate penalty at w_j -- an interval, half-line, point or the
   empty set -- and +inf exactly where a positivity constraint is violated. *)
From Coq Require Import Reals Lra Lia ZArith QArith List Bool Psatz.
Require Import SK.Base.Res SK.Base.Num SK.Base.RInst.
Require Import SK.Gen.ProxFuncs SK.Gen.PenSeparable SK.Lemmas.ProxScalar SK.Lemmas.Loops.
Import ListNotations.
Local Open Scope R_scope.

(* closed convex subsets of R that occur as subdifferentials here *)
Inductive sdiff := SEmpty | SItv (lo hi : R) | SLe (hi : R) | SGe (lo : R) | SAll.
Definition SPt (v : R) := SItv v v.

Definition In_sd (v : R) (S : sdiff) : Prop :=
  match S with
  | SEmpty => False | SItv lo hi => lo <= v <= hi | SLe hi => v <= hi | SGe lo => lo <= v | SAll => True
  end.
Definition wf_sd (S : sdiff) : Prop := match S with SItv lo hi => lo <= hi | _ => True end.

Definition dist_sd (x : R) (S : sdiff) : Ext R :=
  match S with
  | SEmpty => PInf
  | SItv lo hi => Fin (Rmax 0 (Rmax (lo - x) (x - hi)))
  | SLe hi => Fin (Rmax 0 (x - hi))
  | SGe lo => Fin (Rmax 0 (lo - x))
  | SAll => Fin 0
  end.

Ltac rmax := unfold Rmax in *; repeat match goal with
  | |- context [Rle_dec ?a ?b] => destruct (Rle_dec a b)
  | H : context [Rle_dec ?a ?b] |- _ => destruct (Rle_dec a b) end.

(* dist_sd is the Euclidean distance to S *)
Lemma dist_sd_lower x S v d : dist_sd x S = Fin d -> In_sd v S -> d <= Rabs (x - v).
Proof. destruct S; simpl; intros H0 Hin; inversion H0; subst; try contradiction; rmax; rabs; lra. Qed.
Lemma dist_sd_attained x S d : wf_sd S -> dist_sd x S = Fin d -> exists v, In_sd v S /\ Rabs (x - v) = d.
Proof.
  destruct S; simpl; intros Hwf H0; inversion H0; subst.
  - destruct (Rle_dec x lo); [exists lo|destruct (Rle_dec x hi); [exists x|exists hi]]; split; try lra; rmax; rabs; lra.
  - destruct (Rle_dec x hi); [exists x|exists hi]; split; try lra; rmax; rabs; lra.
  - destruct (Rle_dec lo x); [exists x|exists lo]; split; try lra; rmax; rabs; lra.
  - exists x. split; [exact I|]. rabs; lra.
Qed.
Lemma dist_sd_zero_iff x S : wf_sd S -> (dist_sd x S = Fin 0 <-> In_sd x S).
Proof.
  destruct S; simpl; intros Hwf; split; intros H0; try discriminate; try contradiction; try exact I; try reflexivity.
  all: try (inversion H0 as [H1]; rmax; lra).
  all: f_equal; rmax; lra.
Qed.
Lemma dist_sd_inf_iff x S : dist_sd x S = PInf <-> S = SEmpty.
Proof. destruct S; simpl; split; intros; congruence. Qed.

(* ---------------- subdifferentials of the coordinate penalties (documented formulas) ---------------- *)
Definition subdiff_l1 (thr : R) (pos : bool) (wj : R) : sdiff :=
  if pos then (if Rlt_dec wj 0 then SEmpty else if Req_EM_T wj 0 then SLe thr else SPt thr)
  else if Req_EM_T wj 0 then SItv (- thr) thr else SPt (thr * Rsign wj).

Definition subdiff_en (alpha rho : R) (pos : bool) (wj : R) : sdiff :=
  if pos then (if Rlt_dec wj 0 then SEmpty else if Req_EM_T wj 0 then SLe (alpha * rho)
               else SPt (alpha * (rho + (1 - rho) * wj)))
  else if Req_EM_T wj 0 then SItv (- (alpha * rho)) (alpha * rho)
       else SPt (alpha * (rho * Rsign wj + (1 - rho) * wj)).

(* weighted MCP: weight * (alpha |w| - w^2 / (2 gamma)) inside, constant outside *)
Definition subdiff_mcp (alpha gamma wt : R) (pos : bool) (wj : R) : sdiff :=
  if pos && (if Rlt_dec wj 0 then true else false) then SEmpty
  else if pos && (if Req_EM_T wj 0 then true else false) then SLe (alpha * wt)
  else if Req_EM_T wj 0 then SItv (- (alpha * wt)) (alpha * wt)
  else if Rlt_dec (Rabs wj) (alpha * gamma) then SPt (alpha * wt * Rsign wj - wt * wj / gamma)
  else SPt 0.

Definition subdiff_scad (alpha gamma : R) (wj : R) : sdiff :=
  if Req_EM_T wj 0 then SItv (- alpha) alpha
  else if Rle_dec (Rabs wj) alpha then SPt (alpha * Rsign wj)
  else if Rle_dec (Rabs wj) (alpha * gamma) then SPt ((Rsign wj * alpha * gamma - wj) / (gamma - 1))
  else SPt 0.

(* the subdifferential of the indicator of [0, C]: normal cone at the bounds, {0} inside, EMPTY outside the box *)
Definition subdiff_box (C : R) (wj : R) : sdiff :=
  if Req_EM_T wj 0 then SLe 0 else if Req_EM_T wj C then SGe 0
  else if Rlt_dec wj 0 then SEmpty else if Rlt_dec C wj then SEmpty else SPt 0.

Definition subdiff_posc (wj : R) : sdiff :=
  if Req_EM_T wj 0 then SLe 0 else if Rlt_dec 0 wj then SPt 0 else SEmpty.

Definition subdiff_logsum (alpha eps : R) (wj : R) : sdiff :=
  if Req_EM_T wj 0 then SItv (- (alpha / eps)) (alpha / eps) else SPt (Rsign wj * alpha / (eps + Rabs wj)).

(* ---------------- the generated loops ---------------- *)
Definition score (S : R -> sdiff) (j : Z) (wj g : R) : Ext R := dist_sd (- g) (S wj).

Ltac loop_start :=
  intros;
  match goal with
  | Hga : gather ?w ?ws = Ok ?wvals |- _ =>
      unfold ret; cbn [bind]; rewrite ?bind_ret_r
  end.

Ltac body_step Hw Hg :=
  first [ rewrite Hw | rewrite Hg | progress cbn [bind] | progress rsimp
        | match goal with
          | |- context [Rlt_dec ?a ?b] => destruct (Rlt_dec a b)
          | |- context [Rle_dec ?a ?b] => destruct (Rle_dec a b)
          | |- context [Req_EM_T ?a ?b] => destruct (Req_EM_T a b)
          end ].

Ltac leaf := rewrite ?bind_ret_r; try (exfalso; lra);
  match goal with
  | |- set_idx ?acc ?i ?a = set_idx ?acc ?i ?b => f_equal
  | |- Err _ = _ => fail 1
  end; try reflexivity; try (f_equal; rmax; rabs; lra).

Section L1.
Variables (alpha : R) (pos : bool).
Theorem L1_subdiff_distance_spec w grad ws wvals :
  valid_ws (length w) ws -> gather w ws = Ok wvals -> length grad = length ws ->
  @L1_subdiff_distance R _ alpha pos w grad ws = Ok (fill_vals (score (subdiff_l1 alpha pos)) ws wvals grad).
Proof.
  intros Hv Hga Hlen. unfold L1_subdiff_distance. unfold ret. rewrite bind_ret_r.
  apply (for_enum_fill0 w (score (subdiff_l1 alpha pos)) _ grad); auto; [|unfold vzeros_like; rewrite !map_length; exact Hlen].
  intros idx j acc wj g Hj Hw Hg. unfold score, subdiff_l1, SPt.
  destruct pos; repeat body_step Hw Hg; cbn [dist_sd]; leaf.
  all: unfold Rsign in *; rcases; rmax; rabs; try lra.
Qed.
End L1.

Lemma get_idx_nth {A} (l : list A) j d : (0 <= j < Z.of_nat (length l))%Z -> get_idx l j = Ok (nth (Z.to_nat j) l d).
Proof.
  intros Hj. destruct (get_idx_in_range l j Hj) as (a & Hg & Hn). rewrite Hg. f_equal.
  symmetry. apply nth_error_nth. exact Hn.
Qed.

Definition wt (weights : list R) (j : Z) : R := nth (Z.to_nat j) weights 0.

Section EN.
Variables (alpha rho : R) (pos : bool).
Theorem L1_plus_L2_subdiff_distance_spec w grad ws wvals :
  valid_ws (length w) ws -> gather w ws = Ok wvals -> length grad = length ws ->
  @L1_plus_L2_subdiff_distance R _ alpha rho pos w grad ws
  = Ok (fill_vals (score (subdiff_en alpha rho pos)) ws wvals grad).
Proof.
  intros Hv Hga Hlen. unfold L1_plus_L2_subdiff_distance. unfold ret. rewrite bind_ret_r.
  apply (for_enum_fill0 w (score (subdiff_en alpha rho pos)) _ grad); auto; [|unfold vzeros_like; rewrite !map_length; exact Hlen].
  intros idx j acc wj g Hj Hw Hg. unfold score, subdiff_en, SPt.
  destruct pos; repeat body_step Hw Hg; cbn [dist_sd]; leaf.
  all: unfold Rsign in *; rcases; rmax; rabs; try lra.
Qed.
End EN.

Section WL1.
Variables (alpha : R) (weights : list R) (pos : bool).
Theorem WeightedL1_subdiff_distance_spec w grad ws wvals :
  length weights = length w ->
  valid_ws (length w) ws -> gather w ws = Ok wvals -> length grad = length ws ->
  @WeightedL1_subdiff_distance R _ alpha weights pos w grad ws
  = Ok (fill_vals (fun j => score (subdiff_l1 (alpha * wt weights j) pos) j) ws wvals grad).
Proof.
  intros Hlw Hv Hga Hlen. unfold WeightedL1_subdiff_distance. unfold ret. rewrite bind_ret_r.
  apply (for_enum_fill0 w (fun j => score (subdiff_l1 (alpha * wt weights j) pos) j) _ grad); auto;
    [|unfold vzeros_like; rewrite !map_length; exact Hlen].
  intros idx j acc wj g Hj Hw Hg. unfold score, subdiff_l1, SPt.
  assert (Hwt : get_idx weights j = Ok (wt weights j)) by (apply get_idx_nth; rewrite Hlw; exact Hj).
  destruct pos; repeat (rewrite ?Hwt; body_step Hw Hg); cbn [dist_sd]; leaf.
  all: unfold Rsign in *; rcases; rmax; rabs; try lra.
Qed.
End WL1.

Section MCP.
Variables (alpha gamma : R) (pos : bool).
Hypothesis Hgam : gamma <> 0.
Theorem MCPenalty_subdiff_distance_spec w grad ws wvals :
  valid_ws (length w) ws -> gather w ws = Ok wvals -> length grad = length ws ->
  @MCPenalty_subdiff_distance R _ alpha gamma pos w grad ws
  = Ok (fill_vals (score (subdiff_mcp alpha gamma 1 pos)) ws wvals grad).
Proof.
  intros Hv Hga Hlen. unfold MCPenalty_subdiff_distance. unfold ret. rewrite bind_ret_r.
  apply (for_enum_fill0 w (score (subdiff_mcp alpha gamma 1 pos)) _ grad); auto; [|unfold vzeros_like; rewrite !map_length; exact Hlen].
  intros idx j acc wj g Hj Hw Hg. unfold score, subdiff_mcp, SPt.
  destruct pos; repeat body_step Hw Hg; cbn [dist_sd andb]; leaf.
  all: unfold Rsign in *; rcases; rmax; rabs; try lra.
Qed.
End MCP.

Section WMCP.
Variables (alpha gamma : R) (weights : list R) (pos : bool).
Hypothesis Hgam : gamma <> 0.
Theorem WeightedMCPenalty_subdiff_distance_spec w grad ws wvals :
  length weights = length w ->
  valid_ws (length w) ws -> gather w ws = Ok wvals -> length grad = length ws ->
  @WeightedMCPenalty_subdiff_distance R _ alpha gamma weights pos w grad ws
  = Ok (fill_vals (fun j => score (subdiff_mcp alpha gamma (wt weights j) pos) j) ws wvals grad).
Proof.
  intros Hlw Hv Hga Hlen. unfold WeightedMCPenalty_subdiff_distance. unfold ret. rewrite bind_ret_r.
  apply (for_enum_fill0 w (fun j => score (subdiff_mcp alpha gamma (wt weights j) pos) j) _ grad); auto;
    [|unfold vzeros_like; rewrite !map_length; exact Hlen].
  intros idx j acc wj g Hj Hw Hg. unfold score, subdiff_mcp, SPt.
  assert (Hwt : get_idx weights j = Ok (wt weights j)) by (apply get_idx_nth; rewrite Hlw; exact Hj).
  destruct pos; repeat (rewrite ?Hwt; body_step Hw Hg); cbn [dist_sd andb]; leaf.
  all: unfold Rsign in *; rcases; rmax; rabs; try lra.
Qed.
End WMCP.

Section SCADs.
Variables (alpha gamma : R).
Hypothesis Hgam : gamma - 1 <> 0.
Theorem SCAD_subdiff_distance_spec w grad ws wvals :
  valid_ws (length w) ws -> gather w ws = Ok wvals -> length grad = length ws ->
  @SCAD_subdiff_distance R _ alpha gamma w grad ws
  = Ok (fill_vals (score (subdiff_scad alpha gamma)) ws wvals grad).
Proof.
  intros Hv Hga Hlen. unfold SCAD_subdiff_distance. unfold ret. rewrite bind_ret_r.
  apply (for_enum_fill0 w (score (subdiff_scad alpha gamma)) _ grad); auto; [|unfold vzeros_like; rewrite !map_length; exact Hlen].
  intros idx j acc wj g Hj Hw Hg. unfold score, subdiff_scad, SPt.
  repeat body_step Hw Hg; cbn [dist_sd andb]; leaf.
  all: unfold Rsign in *; rcases; rmax; rabs; try lra.
Qed.
End SCADs.

Theorem IndicatorBox_subdiff_distance_spec C w grad ws wvals :
  valid_ws (length w) ws -> gather w ws = Ok wvals -> length grad = length ws ->
  @IndicatorBox_subdiff_distance R _ C w grad ws
  = Ok (fill_vals (score (subdiff_box C)) ws wvals grad).
Proof.
  intros Hv Hga Hlen. unfold IndicatorBox_subdiff_distance. unfold ret. rewrite bind_ret_r.
  apply (for_enum_fill0 w (score (subdiff_box C)) _ grad); auto; [|unfold vzeros_like; rewrite !map_length; exact Hlen].
  intros idx j acc wj g Hj Hw Hg. unfold score, subdiff_box, SPt.
  repeat body_step Hw Hg; cbn [dist_sd andb]; leaf.
  all: rmax; rabs; try lra.
Qed.

Theorem PositiveConstraint_subdiff_distance_spec w grad ws wvals :
  valid_ws (length w) ws -> gather w ws = Ok wvals -> length grad = length ws ->
  @PositiveConstraint_subdiff_distance R _ w grad ws
  = Ok (fill_vals (score subdiff_posc) ws wvals grad).
Proof.
  intros Hv Hga Hlen. unfold PositiveConstraint_subdiff_distance. unfold ret. rewrite bind_ret_r.
  apply (for_enum_fill0 w (score subdiff_posc) _ grad); auto; [|unfold vzeros_like; rewrite !map_length; exact Hlen].
  intros idx j acc wj g Hj Hw Hg. unfold score, subdiff_posc, SPt.
  repeat body_step Hw Hg; cbn [dist_sd andb]; leaf.
  all: rmax; rabs; try lra.
Qed.

Section LogSum.
Variables (alpha eps : R).
Hypothesis Heps : 0 < eps.
Theorem LogSumPenalty_subdiff_distance_spec w grad ws wvals :
  valid_ws (length w) ws -> gather w ws = Ok wvals -> length grad = length ws ->
  @LogSumPenalty_subdiff_distance R _ alpha eps w grad ws
  = Ok (fill_vals (score (subdiff_logsum alpha eps)) ws wvals grad).
Proof.
  intros Hv Hga Hlen. unfold LogSumPenalty_subdiff_distance. unfold ret. rewrite bind_ret_r.
  apply (for_enum_fill0 w (score (subdiff_logsum alpha eps)) _ grad); auto; [|unfold vzeros_like; rewrite !map_length; exact Hlen].
  intros idx j acc wj g Hj Hw Hg. unfold score, subdiff_logsum, SPt.
  repeat body_step Hw Hg; cbn [dist_sd andb].
  all: try (exfalso; pose proof (Rabs_pos wj); lra).
  all: leaf.
  all: rmax; rabs; try lra.
Qed.
End LogSum.

(* outside the box the score is +inf: no tolerance accepts a box-infeasible coefficient of the working set *)
Lemma box_score_infeasible C j w g : 0 <= C -> (w < 0 \/ C < w) -> score (subdiff_box C) j w g = PInf.
Proof.
  intros HC Hw. unfold score, subdiff_box.
  destruct (Req_EM_T w 0) as [e|_]; [lra|]. destruct (Req_EM_T w C) as [e|_]; [lra|].
  destruct (Rlt_dec w 0) as [_|n0]; [reflexivity|]. destruct (Rlt_dec C w) as [_|n1]; [reflexivity|lra].
Qed.
