(* C10 for ProxNewton: the working-set gradient of the REGENERATED sparse kernel equals the dense one (Gen/KernPN.v). *)
From Coq Require Import Reals Lra Lia ZArith List Bool.
Require Import SK.Base.Res SK.Base.Num SK.Base.RInst SK.Lemmas.VecFacts SK.Lemmas.Loops SK.Lemmas.Csc SK.Lemmas.Consistency
               SK.Lemmas.DfQuadraticSparse SK.Lemmas.BcdBase.
Require Import SK.Gen.SparseOps SK.Gen.KernPN.
Import ListNotations.
Local Open Scope R_scope.

Lemma sparse_xj_dot_eq_dense n M (X : list (list R)) j lo hi (u : list R) :
  col_bounds M j lo hi -> wf_col n M lo hi -> length u = n -> mcol X j = Ok (dense_col n M lo hi) ->
  @_sparse_xj_dot R _ (cdata M) (cindptr M) (cindices M) j u = bind (mcol X j) (fun c => Ok (vdot c u)).
Proof.
  intros [Hlo Hhi] Hwf Hn Hc. unfold _sparse_xj_dot. rewrite Hlo, Hhi, Hc. cbn [bind].
  rewrite (sparse_dot_loop n M lo hi u _ Hwf Hn). cbn [bind]. unfold ret. rewrite vdot_rsum. cbn [fofZ RNum]. f_equal. lra.
Qed.

Section Grad.
Variable raw_grad : list R -> list R -> res (list R).
Variables (n : nat) (M : csc) (X : list (list R)) (y : list R).
Hypothesis Hcols : forall j, (0 <= j < Z.of_nat (length X))%Z ->
  exists lo hi, col_bounds M j lo hi /\ wf_col n M lo hi /\ mcol X j = Ok (dense_col n M lo hi).
Hypothesis Hraw : forall Xw g, length Xw = n -> raw_grad y Xw = Ok g -> length g = n.

Theorem pn_construct_grad_sparse_eq_dense ws w Xw :
  Forall (fun j => (0 <= j < Z.of_nat (length X))%Z) ws -> length Xw = n ->
  @pn_construct_grad_sparse R _ raw_grad (cdata M) (cindptr M) (cindices M) y w Xw ws
  = @pn_construct_grad R _ raw_grad X y w Xw ws.
Proof.
  intros Hws HXw. unfold pn_construct_grad_sparse, pn_construct_grad.
  destruct (raw_grad y Xw) as [g|] eqn:Hg; cbn [bind]; [|reflexivity].
  pose proof (Hraw Xw g HXw Hg) as Hlg. f_equal. unfold for_enum.
  apply (for_enum_from_ext_inv (fun _ => True)); [exact I| |trivial].
  intros idx j s Hin _. rewrite Forall_forall in Hws. destruct (Hcols j (Hws j Hin)) as (lo & hi & Hb & Hwf & Hc).
  rewrite (sparse_xj_dot_eq_dense n M X j lo hi g Hb Hwf Hlg Hc). rewrite Hc. cbn [bind]. reflexivity.
Qed.
End Grad.

