(* C13: model of BaseSolver._validate (custom_checks + check_attrs with the sparse suffix) over the tables
   extracted from the AST, and the callability check: every datafit.m / penalty.m a solver's _solve can reach on
   the path selected by the cell exists on the class. *)
From Coq Require Import String Ascii List Bool.
Require Import SK.Gen.Tables.
Import ListNotations.
Open Scope string_scope.

Definition mem (s : string) (l : list string) : bool := existsb (String.eqb s) l.
Definition has (c : cls) (a : string) : bool := mem a (c_methods c) || mem a (c_attrs c).

(* "a|b" alternatives *)
Fixpoint split_bar (s : string) (acc : string) : list string :=
  match s with
  | EmptyString => [acc]
  | String c r => if Ascii.eqb c "|"%char then acc :: split_bar r "" else split_bar r (acc ++ String c "")
  end.
Definition has_alt (c : cls) (alts : string) (suffix : string) : bool :=
  existsb (fun a => has c (a ++ suffix)) (split_bar alts "").

Record cell := { x_solver : solver; x_datafit : cls; x_penalty : cls; x_sparse : bool; x_intercept : bool; x_subdiff : bool }.

(* None = accepted; Some msg = refused with an explanation naming what is missing *)
Definition validate (x : cell) : option string :=
  let s := x_solver x in let d := x_datafit x in let p := x_penalty x in
  if s_requires_no_datafit s then Some "datafit must be None"
  else if s_refuses_sparse s && x_sparse x then Some "sparse not supported"
  else if s_refuses_group_datafit s && has d "grp_ptr" then Some "block-separable datafit"
  else if s_requires_groups s && negb (has d "grp_ptr" && has d "grp_indices" && has p "grp_ptr" && has p "grp_indices") then Some "not block-separable"
  else if s_checks_sparse_suffix s && x_sparse x && negb (forallb (fun a => has_alt d a "_sparse") (s_req_datafit s)) then Some "missing sparse attr"
  else if s_checks_subdiff s && x_subdiff x && negb (has p "subdiff_distance") then Some "missing subdiff_distance"
  else if negb (forallb (fun a => has_alt d a "") (s_req_datafit s)) then Some "missing datafit attr"
  else if negb (forallb (fun a => has_alt p a "") (s_req_penalty s)) then Some "missing penalty attr"
  else None.

Definition tag_active (x : cell) (t : string) : bool :=
  if String.eqb t "sparse" then x_sparse x
  else if String.eqb t "dense" then negb (x_sparse x)
  else if String.eqb t "intercept" then x_intercept x
  else if String.eqb t "subdiff" then x_subdiff x
  else if String.eqb t "fixpoint" then negb (x_subdiff x)
  else if String.eqb t "guarded" then false          (* call site guarded by hasattr(...) *)
  else true.

(* a call made from inside an njit kernel: a missing method is a numba TypingError, not an explanatory error *)
Definition in_kernel (k : call) : bool := mem "kernel" (k_tags k).

Definition call_ok (x : cell) (k : call) : bool :=
  negb (forallb (tag_active x) (k_tags k))
  || has (if String.eqb (k_obj k) "datafit" then x_datafit x else x_penalty x) (k_attr k).

Definition missing_calls (x : cell) : list string :=
  map (fun k => k_obj k ++ "." ++ k_attr k) (filter (fun k => in_kernel k && negb (call_ok x k)) (s_calls (x_solver x))).

(* methods called from the Python body of _solve that the class lacks: Python raises AttributeError naming them *)
Definition python_level_missing (x : cell) : list string :=
  map (fun k => k_obj k ++ "." ++ k_attr k) (filter (fun k => negb (in_kernel k) && negb (call_ok x k)) (s_calls (x_solver x))).

Definition cell_ok (x : cell) : bool :=
  match validate x with Some _ => true | None => forallb (fun k => negb (in_kernel k) || call_ok x k) (s_calls (x_solver x)) end.

Definition all_cells : list cell :=
  flat_map (fun s => flat_map (fun d => flat_map (fun p => flat_map (fun sp => flat_map (fun ic => map (fun sd =>
    {| x_solver := s; x_datafit := d; x_penalty := p; x_sparse := sp; x_intercept := ic; x_subdiff := sd |})
    [true; false]) [true; false]) [true; false]) penalties) datafits) solvers.

Definition cell_name (x : cell) : string :=
  s_name (x_solver x) ++ "/" ++ c_name (x_datafit x) ++ "/" ++ c_name (x_penalty x) ++ "/"
  ++ (if x_sparse x then "csc" else "dense") ++ "/" ++ (if x_intercept x then "icpt" else "noicpt") ++ "/" ++ (if x_subdiff x then "subdiff" else "fixpoint").

(* coarse description of an accepted-but-uncallable cell: solver + object.method, independent of the rest *)
Fixpoint dedup (l : list string) : list string :=
  match l with [] => [] | a :: t => if mem a t then dedup t else a :: dedup t end.
Definition gaps : list string :=
  dedup (flat_map (fun x => match validate x with
                           | Some _ => []
                           | None => map (fun m => s_name (x_solver x) ++ ":" ++ (if String.eqb (String.substring 0 7 m) "datafit" then c_name (x_datafit x) else c_name (x_penalty x)) ++ ":" ++ m) (missing_calls x)
                           end) all_cells).
