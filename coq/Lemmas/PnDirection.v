(* C05 for ProxNewton: the REGENERATED descent-direction kernel (Gen/KernPN.v, no intercept, both working-set strategies)
   returns a CONSISTENT pair: X_delta_w = sum_k delta_k X[:, ws_k], whatever the prox, the Hessian, the stopping rule and the
   number of coordinate-descent sweeps it makes.  Together with PnKernels.line_search_keeps_consistency... this is the
   hypothesis the line search needs: one prox-Newton iteration keeps Xw = X w + c. *)
From Coq Require Import Reals Lra Lia ZArith List Bool.
Require Import SK.Base.Res SK.Base.Num SK.Base.RInst SK.Lemmas.VecFacts SK.Lemmas.Loops SK.Lemmas.Csc SK.Lemmas.Consistency
               SK.Lemmas.BcdBase SK.Lemmas.BcdCons SK.Lemmas.PnKernels.
Require Import SK.Gen.KernCD SK.Gen.KernPN.
Import ListNotations.
Local Open Scope R_scope.

Lemma for_enum_from_inv_idx {St} (Inv : St -> Prop) (body : Z -> Z -> St -> res St) ws : forall idx0 s0 s',
  (forall k j s s1, nth_error ws k = Some j -> Inv s -> body (idx0 + Z.of_nat k)%Z j s = Ok s1 -> Inv s1) ->
  Inv s0 -> for_enum_from idx0 ws body s0 = Ok s' -> Inv s'.
Proof.
  induction ws as [|j ws IH]; intros idx0 s0 s' Hstep H0 Hrun; simpl in Hrun; [inversion Hrun; subst; exact H0|].
  destruct (body idx0 j s0) as [s1|] eqn:E; cbn [bind] in Hrun; [|discriminate].
  apply (IH (idx0 + 1)%Z s1 s'); [| |exact Hrun].
  - intros k j' s s2 Hk HI Hb. apply (Hstep (S k) j' s s2 Hk HI). replace (idx0 + Z.of_nat (S k))%Z with (idx0 + 1 + Z.of_nat k)%Z by lia. exact Hb.
  - apply (Hstep 0%nat j s0 s1 eq_refl H0). rewrite Z.add_0_r. exact E.
Qed.

Lemma get_idx_nonneg_nth' {A} (l : list A) j v : (0 <= j)%Z -> get_idx l j = Ok v ->
  (Z.to_nat j < length l)%nat /\ nth_error l (Z.to_nat j) = Some v.
Proof.
  intros Hj H0. unfold get_idx in H0. destruct (norm_idx (length l) j) as [k|] eqn:Hk; [|discriminate].
  destruct (norm_idx_nonneg _ _ _ Hk Hj) as [-> Hlt]. split; [exact Hlt|].
  destruct (nth_error l (Z.to_nat j)); inversion H0; reflexivity.
Qed.

Lemma dir_lin_zero X ws : forall v i, dir_lin X ws (vmap2 Rminus v v) i = 0.
Proof.
  induction ws as [|j ws IH]; intros v i; destruct v as [|x v]; simpl; try reflexivity. rewrite IH. lra.
Qed.

Lemma dir_lin_set_nth X ws : forall k j (ww w0 : list R) v i, nth_error ws k = Some j -> length ww = length ws -> length w0 = length ws ->
  dir_lin X ws (vmap2 Rminus (set_nth ww k v) w0) i
  = dir_lin X ws (vmap2 Rminus ww w0) i + (v - nth k ww 0) * nth i (nth (Z.to_nat j) X []) 0.
Proof.
  induction ws as [|j0 ws IH]; intros k j ww w0 v i Hk Hl1 Hl2; [destruct k; discriminate|].
  destruct ww as [|a ww]; [discriminate|]. destruct w0 as [|b w0]; [discriminate|].
  destruct k as [|k]; simpl in Hk |- *.
  - inversion Hk; subst j0. lra.
  - rewrite (IH k j ww w0 v i Hk) by (simpl in *; lia). lra.
Qed.

Ltac step H :=
  match type of H with
  | bind ?x _ = Ok _ => let v := fresh "v" in let E := fresh "E" in destruct x as [v|] eqn:E; cbn [bind] in H; [|discriminate H]
  | (if ?b then _ else _) = Ok _ => let E := fresh "E" in destruct b eqn:E
  end.

Section Direction.
Variable raw_hessian : list R -> list R -> res (list R).
Variable prox_1d : R -> R -> Z -> res R.
Variables (n : nat) (X : list (list R)) (y : list R).
Hypothesis HX : wf_X n X.
Hypothesis Hrows : mrows X = Z.of_nat n.

(* the state the coordinate-descent sweeps carry *)
Definition dd_inv (ws : list Z) (w0 : list R) (s : list R * list R * list R) : Prop :=
  let '(_, ww, Xd) := s in
  length Xd = n /\ length ww = length ws /\ forall i, (i < n)%nat -> nth i Xd 0 = dir_lin X ws (vmap2 Rminus ww w0) i.

(* one coordinate update of the sweep (the body of the inner loop of the regenerated kernel) *)
Definition dd_body (raw_hess lipschitz_ws grad_ws : list R) (idx j : Z) (s : list R * list R * list R) : res (list R * list R * list R) :=
  let '(past_grads, w_ws, X_delta_w_ws) := s in
  bind (get_idx lipschitz_ws idx) (fun t4 =>
  if feqb t4 (fofZ 0) then ret (past_grads, w_ws, X_delta_w_ws) else
  bind (get_idx grad_ws idx) (fun t5 =>
  bind (mcol X j) (fun t6 =>
  bind (set_idx past_grads idx (fadd t5 (vdot t6 (vmap2 fmul raw_hess X_delta_w_ws)))) (fun past_grads =>
  bind (get_idx w_ws idx) (fun t7 =>
  bind (get_idx lipschitz_ws idx) (fun t8 =>
  bind (fdiv (fofZ 1) t8) (fun t9 =>
  bind (get_idx past_grads idx) (fun t10 =>
  bind (prox_1d (fsub t7 (fmul t9 t10)) t9 j) (fun t11 =>
  bind (set_idx w_ws idx t11) (fun w_ws =>
  bind (get_idx w_ws idx) (fun t12 =>
  if negb (feqb t12 t7) then
    bind (get_idx w_ws idx) (fun t13 => bind (mcol X j) (fun t14 =>
    ret (past_grads, w_ws, vmap2 fadd X_delta_w_ws (vmap (fun e__ => fmul (fsub t13 t7) e__) t14))))
  else ret (past_grads, w_ws, X_delta_w_ws)))))))))))).

Lemma dd_body_inv ws w0 rh lip gws k j s s1 :
  Forall (fun j => (0 <= j)%Z) ws -> length w0 = length ws ->
  nth_error ws k = Some j -> dd_inv ws w0 s -> dd_body rh lip gws (0 + Z.of_nat k) j s = Ok s1 -> dd_inv ws w0 s1.
Proof.
  intros Hnn Hl0 Hk Hinv Hb. destruct s as [[pg ww] Xd]. destruct Hinv as (HlX & Hlw & Hlin). unfold dd_body in Hb.
  rewrite Z.add_0_l in Hb. cbv beta iota zeta in Hb.
  step Hb. step Hb; [unfold ret in Hb; inversion Hb; subst; exact (conj HlX (conj Hlw Hlin))|].
  (* a repeated read (lipschitz_ws[idx], X[:, j], w_ws[idx]) is resolved by the first destruct *)
  step Hb. step Hb. step Hb. step Hb. step Hb. step Hb. step Hb. step Hb. step Hb.
  assert (Hj : (0 <= j)%Z) by (rewrite Forall_forall in Hnn; apply Hnn; eapply nth_error_In; eauto).
  (* the store into w_ws at a non-negative index *)
  match goal with H : set_idx ww (Z.of_nat k) ?v = Ok ?w2 |- _ =>
    destruct (set_idx_nonneg _ _ _ _ (Nat2Z.is_nonneg k) H) as [Hw2 Hklt]; rewrite Nat2Z.id in Hw2, Hklt; subst w2 end.
  match goal with H : get_idx (set_nth ww k ?v) (Z.of_nat k) = Ok ?t |- _ =>
    pose proof H as Hget; rewrite <- (Nat2Z.id k) in Hget at 1;
    apply (get_idx_set_nth_same ww (Z.of_nat k) v t (Nat2Z.is_nonneg k)) in Hget; [|rewrite Nat2Z.id; exact Hklt]; subst t end.
  match goal with H : get_idx ww (Z.of_nat k) = Ok ?o |- _ =>
    destruct (get_idx_nonneg_nth _ _ _ (Nat2Z.is_nonneg k) H) as [_ Hold]; rewrite Nat2Z.id in Hold end.
  step Hb.
  - (* changed coordinate *)
    unfold ret in Hb. inversion Hb; subst s1. clear Hb.
    match goal with H : mcol X j = Ok ?c |- _ => rename c into Xj; rename H into HXj end.
    assert (HlXj : length Xj = n /\ forall i, nth i Xj 0 = nth i (nth (Z.to_nat j) X []) 0).
    { unfold mcol in HXj. destruct (get_idx_nonneg_nth' X j Xj Hj HXj) as [Hlt Hn]. split.
      - unfold wf_X in HX. rewrite Forall_forall in HX. apply HX. eapply nth_error_In; eauto.
      - intros i. rewrite (nth_error_nth X _ [] Hn). reflexivity. }
    destruct HlXj as [HlXj HXjn].
    split; [|split].
    + cbn [fadd fmul fsub RNum]. unfold vmap. rewrite vmap2_length; rewrite ?map_length; lia.
    + rewrite set_nth_length. exact Hlw.
    + intros i Hi. cbn [fadd fmul fsub RNum]. unfold vmap. rewrite nth_vmap2 by (rewrite ?map_length; lia). rewrite nth_map_R by lia.
      rewrite (dir_lin_set_nth X ws k j ww w0 _ i Hk Hlw Hl0). rewrite Hlin by exact Hi. rewrite HXjn.
      rewrite (nth_error_nth ww k 0 Hold). lra.
  - (* unchanged coordinate: the stored value equals the old one *)
    unfold ret in Hb. inversion Hb; subst s1. clear Hb.
    match goal with E : negb (feqb ?a ?b) = false |- _ =>
      cbn [feqb RNum] in E; unfold Reqb in E; destruct (Req_EM_T a b) as [e|ne]; cbn [negb] in E; [|discriminate] end.
    subst. rewrite set_nth_same by exact Hold. exact (conj HlX (conj Hlw Hlin)).
Qed.

Variable subdiff : list R -> list R -> list Z -> res (list (Ext R)).

Theorem descent_direction_subdiff_consistent w_epoch Xw_epoch grad_ws ws tol delta Xdelta lipv :
  Forall (fun j => (0 <= j)%Z) ws ->
  @_descent_direction__fit_intercept_False__ws_strategy_subdiff R _ raw_hessian prox_1d subdiff X y w_epoch Xw_epoch grad_ws ws tol
    = Ok (delta, Xdelta, lipv) ->
  length Xdelta = n /\ forall i, (i < n)%nat -> nth i Xdelta 0 = dir_lin X ws delta i.
Proof.
  intros Hnn Hrun. unfold _descent_direction__fit_intercept_False__ws_strategy_subdiff in Hrun. cbv zeta in Hrun.
  step Hrun. step Hrun. step Hrun.
  match goal with H : gather w_epoch ws = Ok ?v |- _ => rename v into w0; rename H into Hg end.
  step Hrun.
  match goal with H : for_each (zrange 0 20) _ _ = Ok ?v |- _ => rename H into Hloop; destruct v as [[[pgf wwf] Xdf] bf] end.
  unfold ret in Hrun. inversion Hrun; subst delta Xdelta lipv. clear Hrun.
  assert (Hl0 : length w0 = length ws) by (eapply gather_length; exact Hg).
  assert (Hfin : dd_inv ws w0 (pgf, wwf, Xdf)).
  { refine (for_each_inv' (fun s : list R * list R * list R * bool => let '(a, b, c, _) := s in dd_inv ws w0 (a, b, c)) _ _ _ _ Hloop _ _).
    - unfold dd_inv, vzeros. rewrite Hrows, Nat2Z.id. split; [apply repeat_length|split; [exact Hl0|]].
      intros i Hi. rewrite dir_lin_zero. apply nth_repeat.
    - intros cd s s' _ HI Hb. destruct s as [[[pg ww] Xd] b].
      destruct b; [unfold ret in Hb; inversion Hb; subst s'; exact HI|].
      step Hb.
      match goal with H : for_enum ws _ _ = Ok ?v |- _ => rename H into Hsw; rename v into sw end.
      assert (HI2 : dd_inv ws w0 sw).
      { unfold for_enum in Hsw. refine (for_enum_from_inv_idx (dd_inv ws w0) _ _ _ _ _ _ HI Hsw).
        intros k j s0 s1 Hk HI0 Hb0. exact (dd_body_inv ws w0 _ _ _ k j s0 s1 Hnn Hl0 Hk HI0 Hb0). }
      destruct sw as [[pg2 ww2] Xd2]. repeat (step Hb); unfold ret in Hb; inversion Hb; subst s'; exact HI2. }
  destruct Hfin as (H1 & _ & H3). split; [exact H1|exact H3].
Qed.

Theorem descent_direction_fixpoint_consistent w_epoch Xw_epoch grad_ws ws tol delta Xdelta lipv :
  Forall (fun j => (0 <= j)%Z) ws ->
  @_descent_direction__fit_intercept_False__ws_strategy_fixpoint R _ raw_hessian prox_1d X y w_epoch Xw_epoch grad_ws ws tol
    = Ok (delta, Xdelta, lipv) ->
  length Xdelta = n /\ forall i, (i < n)%nat -> nth i Xdelta 0 = dir_lin X ws delta i.
Proof.
  intros Hnn Hrun. unfold _descent_direction__fit_intercept_False__ws_strategy_fixpoint in Hrun. cbv zeta in Hrun.
  step Hrun. step Hrun. step Hrun.
  match goal with H : gather w_epoch ws = Ok ?v |- _ => rename v into w0; rename H into Hg end.
  step Hrun.
  match goal with H : for_each (zrange 0 20) _ _ = Ok ?v |- _ => rename H into Hloop; destruct v as [[[pgf wwf] Xdf] bf] end.
  unfold ret in Hrun. inversion Hrun; subst delta Xdelta lipv. clear Hrun.
  assert (Hl0 : length w0 = length ws) by (eapply gather_length; exact Hg).
  assert (Hfin : dd_inv ws w0 (pgf, wwf, Xdf)).
  { refine (for_each_inv' (fun s : list R * list R * list R * bool => let '(a, b, c, _) := s in dd_inv ws w0 (a, b, c)) _ _ _ _ Hloop _ _).
    - unfold dd_inv, vzeros. rewrite Hrows, Nat2Z.id. split; [apply repeat_length|split; [exact Hl0|]].
      intros i Hi. rewrite dir_lin_zero. apply nth_repeat.
    - intros cd s s' _ HI Hb. destruct s as [[[pg ww] Xd] b].
      destruct b; [unfold ret in Hb; inversion Hb; subst s'; exact HI|].
      step Hb.
      match goal with H : for_enum ws _ _ = Ok ?v |- _ => rename H into Hsw; rename v into sw end.
      assert (HI2 : dd_inv ws w0 sw).
      { unfold for_enum in Hsw. refine (for_enum_from_inv_idx (dd_inv ws w0) _ _ _ _ _ _ HI Hsw).
        intros k j s0 s1 Hk HI0 Hb0. exact (dd_body_inv ws w0 _ _ _ k j s0 s1 Hnn Hl0 Hk HI0 Hb0). }
      destruct sw as [[pg2 ww2] Xd2]. repeat (step Hb); unfold ret in Hb; inversion Hb; subst s'; exact HI2. }
  destruct Hfin as (H1 & _ & H3). split; [exact H1|exact H3].
Qed.
End Direction.

(* one prox-Newton iteration (direction, then line search), no intercept, both working-set strategies: consistency is kept *)
Section Iteration.
Variable raw_hessian : list R -> list R -> res (list R).
Variable raw_grad : list R -> list R -> res (list R).
Variable prox_1d : R -> R -> Z -> res R.
Variable pen_value : list R -> res R.
Variable subdiff : list R -> list R -> list Z -> res (list (Ext R)).
Variables (n : nat) (X : list (list R)) (c y : list R).
Hypothesis HX : wf_X n X.
Hypothesis Hrows : mrows X = Z.of_nat n.

Theorem pn_iteration_subdiff_keeps_consistency w Xw grad_ws ws tol delta Xdelta lipv w' Xw' g :
  length w = length X -> NoDup ws -> Forall (fun j => (0 <= j)%Z) ws -> Cons n X w c Xw ->
  @_descent_direction__fit_intercept_False__ws_strategy_subdiff R _ raw_hessian prox_1d subdiff X y w Xw grad_ws ws tol = Ok (delta, Xdelta, lipv) ->
  @_backtrack_line_search__fit_intercept_False R _ pen_value raw_grad X y w Xw delta Xdelta ws = Ok (w', Xw', g) ->
  Cons n X w' c Xw' /\ length w' = length w.
Proof.
  intros Hl Hnd Hnn HC Hd Hls.
  destruct (descent_direction_subdiff_consistent raw_hessian prox_1d n X y HX Hrows subdiff w Xw grad_ws ws tol delta Xdelta lipv Hnn Hd) as [H1 H2].
  destruct (line_search_keeps_consistency_and_returns_current_gradient pen_value raw_grad n X c y HX w Xw delta Xdelta ws w' Xw' g Hl Hnd Hnn H1 H2 HC Hls)
    as (Ha & Hb & _). split; assumption.
Qed.

Theorem pn_iteration_fixpoint_keeps_consistency w Xw grad_ws ws tol delta Xdelta lipv w' Xw' g :
  length w = length X -> NoDup ws -> Forall (fun j => (0 <= j)%Z) ws -> Cons n X w c Xw ->
  @_descent_direction__fit_intercept_False__ws_strategy_fixpoint R _ raw_hessian prox_1d X y w Xw grad_ws ws tol = Ok (delta, Xdelta, lipv) ->
  @_backtrack_line_search__fit_intercept_False R _ pen_value raw_grad X y w Xw delta Xdelta ws = Ok (w', Xw', g) ->
  Cons n X w' c Xw' /\ length w' = length w.
Proof.
  intros Hl Hnd Hnn HC Hd Hls.
  destruct (descent_direction_fixpoint_consistent raw_hessian prox_1d n X y HX Hrows w Xw grad_ws ws tol delta Xdelta lipv Hnn Hd) as [H1 H2].
  destruct (line_search_keeps_consistency_and_returns_current_gradient pen_value raw_grad n X c y HX w Xw delta Xdelta ws w' Xw' g Hl Hnd Hnn H1 H2 HC Hls)
    as (Ha & Hb & _). split; assumption.
Qed.
End Iteration.
