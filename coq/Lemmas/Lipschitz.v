(* C09 (and the descent lemma of C03): coordinate Lipschitz constants of the Quadratic datafit are EXACT
   curvatures; scalar curvature bounds for the logistic and Huber losses; raw_hessian. *)
From Coq Require Import Reals Lra Lia ZArith List Bool Psatz.
Require Import SK.Base.Res SK.Base.Num SK.Base.RInst SK.Lemmas.VecFacts SK.Lemmas.Loops SK.Lemmas.Csc SK.Lemmas.DfQuadratic.
Require Import SK.Gen.SparseOps SK.Gen.DfSingle.
Import ListNotations.
Local Open Scope R_scope.

Definition sqnorm (c : list R) : R := rsum (map (fun x => x * x) c).

Theorem Quadratic_get_lipschitz_spec (X : list (list R)) (y : list R) : y <> [] ->
  @Quadratic_get_lipschitz R _ X y = Ok (map (fun col => sqnorm col / nR y) X).
Proof.
  intros Hy. unfold Quadratic_get_lipschitz. unfold ret. rewrite bind_ret_r.
  pose proof (nR_pos y Hy) as Hn. unfold nR in Hn.
  rewrite (for_range_fill (fun j => bind (mcol X j) (fun c => Ok (sqnorm c / nR y)))
                          (fun j => sqnorm (nth (Z.to_nat j) X []) / nR y)).
  - f_equal. unfold zlen, zrange. rewrite Z.sub_0_r, Nat2Z.id.
    assert (forall (pre l : list (list R)), map (fun j : Z => sqnorm (nth (Z.to_nat j) (pre ++ l) []) / nR y) (zrange_from (Z.of_nat (length pre)) (length l))
                                             = map (fun col => sqnorm col / nR y) l) as Hm.
    { intros pre l. revert pre. induction l as [|c l IH]; intros pre; [reflexivity|]. cbn [length zrange_from map].
      rewrite Nat2Z.id, app_nth2, Nat.sub_diag by lia. cbn [nth]. f_equal.
      replace (Z.of_nat (length pre) + 1)%Z with (Z.of_nat (length (pre ++ [c]))) by (rewrite app_length; simpl; lia).
      replace (pre ++ c :: l) with ((pre ++ [c]) ++ l) by (rewrite <- app_assoc; reflexivity). apply IH. }
    apply (Hm [] X).
  - intros j acc. destruct (mcol X j) as [c|e]; cbn [bind]; [|reflexivity].
    cbn [fdiv fofZ RNum]. destruct (Req_EM_T (IZR (zlen y)) 0); [lra|]. cbn [bind]. rewrite bind_ret_r.
    f_equal. f_equal. rewrite vsum_rsum. unfold sqnorm, vmap, fsq. reflexivity.
  - unfold vzeros. rewrite repeat_length. reflexivity.
  - intros j Hj. unfold mcol. rewrite (get_idx_nthZ X j []) by (unfold zlen in Hj; lia). reflexivity.
Qed.

(* exact second-order expansion of the quadratic loss along a coordinate: the constant is the curvature *)
Theorem quad_step_identity (y z c : list R) (d : R) : length y = length z -> length c = length z -> z <> [] ->
  quad_doc y (vmap2 Rplus z (map (fun e => d * e) c))
  = quad_doc y z + d * (rsum (vmap2 Rmult c (vmap2 lq' y z)) / nR z) + d ^ 2 / 2 * (sqnorm c / nR z).
Proof.
  intros Hy Hc Hz. rewrite !quad_doc_mean.
  assert (Hl : length (vmap2 Rplus z (map (fun e => d * e) c)) = length z) by (rewrite vmap2_length; rewrite ?map_length; lia).
  unfold nR, zlen. rewrite Hl. pose proof (nR_pos z Hz) as Hn. unfold nR, zlen in Hn.
  assert (Hsum : rsum (vmap2 lq y (vmap2 Rplus z (map (fun e => d * e) c)))
               = rsum (vmap2 lq y z) + d * rsum (vmap2 Rmult c (vmap2 lq' y z)) + d ^ 2 / 2 * sqnorm c).
  { clear Hz Hn Hl. revert z c Hy Hc. induction y as [|y0 y IH]; intros z c Hy Hc.
    - destruct z; [|discriminate]. destruct c; [|discriminate]. simpl. unfold sqnorm. simpl. lra.
    - destruct z as [|z0 z]; [discriminate|]. destruct c as [|c0 c]; [discriminate|]. cbn [map vmap2 rsum].
      assert (H1 : length y = length z) by (simpl in Hy; lia). assert (H2 : length c = length z) by (simpl in Hc; lia).
      rewrite (IH z c H1 H2). unfold sqnorm. cbn [map rsum]. unfold lq, lq'. fold (sqnorm c). unfold sqnorm. field. }
  rewrite Hsum. field. lra.
Qed.

(* scalar curvature bounds *)
Lemma logistic_curvature_bound t : 0 < t -> t / (1 + t) ^ 2 <= / 4.
Proof.
  intros Ht. apply (Rmult_le_reg_r ((1 + t) ^ 2)); [nra|].
  unfold Rdiv. rewrite Rmult_assoc, Rinv_l by nra. pose proof (pow2_ge_0 (1 - t)). nra.
Qed.

Theorem Quadratic_raw_hessian_spec (y z : list R) : y <> [] ->
  @Quadratic_raw_hessian R _ y z = Ok (repeat (1 / nR y) (length y)).
Proof.
  intros Hy. unfold Quadratic_raw_hessian. cbn [fofZ RNum].
  pose proof (nR_pos y Hy) as Hn. unfold nR in *. rewrite vdivs_ok by lra. cbn [bind]. unfold ret. f_equal.
  unfold zlen. rewrite Nat2Z.id. generalize (IZR (Z.of_nat (length y))) as c. intros c. clear.
  induction (length y) as [|k IH]; simpl; [reflexivity|f_equal; assumption].
Qed.
