(* C09, further datafits: the regenerated coordinate constants of Huber and Logistic, and why they bound the curvature.
   Huber: same kernel as Quadratic (mean square of the column) and the Huber loss has second derivative <= 1.
   Logistic: ||X_j||^2 / (4 n); the curvature of the mean logistic loss along coordinate j at any point is
   1/n sum_i x_ij^2 s_i (1 - s_i) with s_i in (0, 1), i.e. 1/n sum_i x_ij^2 t_i / (1 + t_i)^2 with t_i = exp(.) > 0. *)
From Coq Require Import Reals Lra Lia ZArith List Bool Psatz.
Require Import SK.Base.Res SK.Base.Num SK.Base.RInst SK.Lemmas.VecFacts SK.Lemmas.DfQuadratic SK.Lemmas.Lipschitz.
Require Import SK.Gen.SparseOps SK.Gen.DfSingle.
Import ListNotations.
Local Open Scope R_scope.

Theorem Huber_get_lipschitz_spec (X : list (list R)) (y : list R) : y <> [] ->
  @Huber_get_lipschitz R _ X y = Ok (map (fun col => sqnorm col / nR y) X).
Proof. intros Hy. change (@Huber_get_lipschitz R _ X y) with (@Quadratic_get_lipschitz R _ X y). apply Quadratic_get_lipschitz_spec. exact Hy. Qed.

Theorem Logistic_get_lipschitz_spec (X : list (list R)) (y : list R) : y <> [] ->
  @Logistic_get_lipschitz R _ X y = Ok (map (fun col => sqnorm col / (4 * nR y)) X).
Proof.
  intros Hy. unfold Logistic_get_lipschitz. pose proof (nR_pos y Hy) as Hn. unfold nR in *.
  cbn [fofZ RNum]. rewrite mult_IZR. rewrite vdivs_ok by lra. cbn [bind]. unfold ret. f_equal.
  rewrite !map_map. apply map_ext. intros col. rewrite vsum_rsum. unfold sqnorm, vmap, fsq. cbn [fmul RNum]. reflexivity.
Qed.

(* the weighted sum of squares with weights in [0, 1/4] is at most a quarter of the sum of squares *)
Lemma weighted_sq_le_quarter (xs ts : list R) : length xs = length ts -> Forall (fun t => 0 < t) ts ->
  rsum (vmap2 (fun x t => x * x * (t / (1 + t) ^ 2)) xs ts) <= sqnorm xs / 4.
Proof.
  revert ts. induction xs as [|x xs IH]; intros [|t ts] Hl Ht; simpl in Hl; try discriminate.
  - unfold sqnorm; simpl. lra.
  - inversion Ht as [|? ? Ht0 Hts]; subst. specialize (IH ts ltac:(lia) Hts).
    cbn [vmap2 rsum]. unfold sqnorm in *. cbn [map rsum].
    pose proof (logistic_curvature_bound t Ht0) as Hb. assert (0 <= x * x) by nra.
    assert (x * x * (t / (1 + t) ^ 2) <= x * x * / 4) by (apply Rmult_le_compat_l; assumption). lra.
Qed.

(* hence the Logistic constant dominates the coordinate curvature at EVERY point (t_i = exp(y_i (Xw)_i) > 0 arbitrary) *)
Theorem Logistic_constant_bounds_curvature (col ts : list R) (n : R) : 0 < n -> length col = length ts ->
  Forall (fun t => 0 < t) ts ->
  rsum (vmap2 (fun x t => x * x * (t / (1 + t) ^ 2)) col ts) / n <= sqnorm col / (4 * n).
Proof.
  intros Hn Hl Ht. pose proof (weighted_sq_le_quarter col ts Hl Ht) as H.
  replace (sqnorm col / (4 * n)) with (sqnorm col / 4 / n) by (field; lra).
  apply Rmult_le_compat_r; [left; apply Rinv_0_lt_compat; exact Hn|exact H].
Qed.
