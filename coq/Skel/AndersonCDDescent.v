(* C03 at solver level (AndersonCD skeleton, over R): if the epoch kernel and the intercept update do not
   increase the objective, then no inner epoch does (an extrapolated point is accepted only when its objective
   is strictly smaller), the returned point is no worse than the start, and the objective of the returned
   point is non-increasing in the outer budget max_iter -- for every max_epochs, p0, tol and start. *)
From Coq Require Import Reals Lra Lia ZArith QArith List Bool.
Require Import SK.Base.Res SK.Base.Num SK.Base.RInst SK.Skel.AndersonCD SK.Skel.AndersonCDProofs.
Import ListNotations.
Local Open Scope R_scope.

Definition ext_le (a b : Ext R) : Prop :=
  match a, b with Fin x, Fin y => x <= y | _, PInf => True | PInf, Fin _ => False end.
Lemma ext_le_refl a : ext_le a a. Proof. destruct a; simpl; auto; lra. Qed.
Lemma ext_le_trans a b c : ext_le a b -> ext_le b c -> ext_le a c.
Proof. destruct a, b, c; simpl; intros; try lra; auto; contradiction. Qed.
Lemma elt_ext_le (a b : Ext R) : elt a b = true -> ext_le a b.
Proof. destruct a, b; simpl; intros H0; try discriminate; auto. apply Rltb_true in H0. lra. Qed.

Section Descent.
Context {A : Type}.
Variables (cfg : @config R) (K : @kernels R A).
Variable E : list R -> list R -> Ext R.
Hypothesis Hobj : forall w Xw, objective cfg K w Xw = Ok (E w Xw).
Hypothesis E_epoch : forall w Xw lip ws w' Xw',
  k_epoch K (wp cfg w) Xw lip ws = Ok (w', Xw') -> ext_le (E (with_wp cfg w w') Xw') (E w Xw).
Hypothesis E_intercept : forall w Xw w' Xw', intercept_update cfg K w Xw = Ok (w', Xw') -> ext_le (E w' Xw') (E w Xw).

Lemma inner_step_descends lip ws ws_size sc epoch w Xw a w' Xw' a' acc brk :
  inner_step cfg K lip ws ws_size sc epoch w Xw a = Ok (w', Xw', a', acc, brk) -> ext_le (E w' Xw') (E w Xw).
Proof.
  intros Hs. unfold inner_step in Hs.
  apply bind_ok in Hs as ([we Xwe] & He & Hs). cbn [fst snd] in Hs.
  apply bind_ok in Hs as ([wi Xwi] & Hi & Hs). cbn [fst snd] in Hs.
  apply bind_ok in Hs as (w_ws & Hg & Hs). apply bind_ok in Hs as ([[[wacc Xwacc] ext] a2] & Hacc & Hs).
  apply bind_ok in Hs as ([[w4 Xw4] accd] & H4 & Hs).
  assert (H1 : ext_le (E (with_wp cfg w we) Xwe) (E w Xw)) by (eapply E_epoch; eauto).
  assert (H2 : ext_le (E wi Xwi) (E (with_wp cfg w we) Xwe)) by (eapply E_intercept; eauto).
  assert (H3 : ext_le (E w4 Xw4) (E wi Xwi)).
  { destruct ext.
    - apply bind_ok in H4 as (pobj & Ho & H4). apply bind_ok in H4 as (w_acc & Hsc & H4).
      apply bind_ok in H4 as (pacc & Hoa & H4). rewrite Hobj in Ho, Hoa. inversion Ho; inversion Hoa; subst.
      destruct (elt (E w_acc Xwacc) (E wi Xwi)) eqn:Hlt; inversion H4; subst.
      + apply elt_ext_le. exact Hlt.
      + apply ext_le_refl.
    - inversion H4; subst. apply ext_le_refl. }
  assert (Hfin : ext_le (E w4 Xw4) (E w Xw)) by (eapply ext_le_trans; [exact H3|eapply ext_le_trans; eauto]).
  destruct (Nat.modulo epoch 10 =? 0)%nat.
  - apply bind_ok in Hs as (optws & Hsw & Hs). apply bind_ok in Hs as (sin & Hm & Hs). inversion Hs; subst. exact Hfin.
  - inversion Hs; subst. exact Hfin.
Qed.

Lemma inner_loop_descends fuel epoch lip ws ws_size sc w Xw a ne na w' Xw' ne' na' :
  inner_loop cfg K fuel epoch lip ws ws_size sc w Xw a ne na = Ok (w', Xw', ne', na') -> ext_le (E w' Xw') (E w Xw).
Proof.
  revert epoch w Xw a ne na. induction fuel as [|fuel IH]; intros epoch w Xw a ne na Hrun; simpl in Hrun.
  - inversion Hrun; subst. apply ext_le_refl.
  - apply bind_ok in Hrun as ([[[[w1 Xw1] a1] acc] brk] & Hs & Hrun).
    pose proof (inner_step_descends _ _ _ _ _ _ _ _ _ _ _ _ _ Hs) as H1.
    destruct brk; [inversion Hrun; subst; exact H1|]. eapply ext_le_trans; [eapply IH; eauto|exact H1].
Qed.

(* the returned point is no worse than the start, for every budget *)
Lemma outer_loop_descends fuel lip w Xw obj stop n_it n_ep n_acc out :
  outer_loop cfg K fuel lip w Xw obj stop n_it n_ep n_acc = Ok out -> ext_le (E (o_w out) (o_Xw out)) (E w Xw).
Proof.
  revert w Xw obj stop n_it n_ep n_acc. induction fuel as [|fuel IH]; intros w Xw obj stop n_it n_ep n_acc Hrun; simpl in Hrun.
  - inversion Hrun; subst; simpl. apply ext_le_refl.
  - apply bind_ok in Hrun as ([opt sc] & Hsc & Hrun). destruct (ele sc (tol cfg)).
    + inversion Hrun; subst; simpl. apply ext_le_refl.
    + apply bind_ok in Hrun as (gs & Hgs & Hrun). apply bind_ok in Hrun as ([[[w1 Xw1] ne1] na1] & Hin & Hrun).
      apply bind_ok in Hrun as (pobj & Hobj' & Hrun).
      eapply ext_le_trans; [eapply IH; eauto|eapply inner_loop_descends; eauto].
Qed.

(* monotone in the outer budget: one more outer iteration never returns a worse point *)
Lemma outer_loop_budget_monotone fuel lip w Xw obj stop n_it n_ep n_acc obj' stop' n_it' n_ep' n_acc' out1 out2 :
  outer_loop cfg K fuel lip w Xw obj stop n_it n_ep n_acc = Ok out1 ->
  outer_loop cfg K (S fuel) lip w Xw obj' stop' n_it' n_ep' n_acc' = Ok out2 ->
  ext_le (E (o_w out2) (o_Xw out2)) (E (o_w out1) (o_Xw out1)).
Proof.
  revert w Xw obj stop n_it n_ep n_acc obj' stop' n_it' n_ep' n_acc' out1 out2.
  induction fuel as [|fuel IH]; intros w Xw obj stop n_it n_ep n_acc obj' stop' n_it' n_ep' n_acc' out1 out2 H1 H2.
  - simpl in H1. inversion H1; subst; simpl. eapply outer_loop_descends; eauto.
  - cbn [outer_loop] in H1. remember (S fuel) as f2. cbn [outer_loop] in H2. subst f2.
    apply bind_ok in H1 as ([opt sc] & Hsc & H1). apply bind_ok in H2 as ([opt2 sc2] & Hsc2 & H2).
    rewrite Hsc in Hsc2. inversion Hsc2; subst opt2 sc2. clear Hsc2.
    destruct (ele sc (tol cfg)).
    + inversion H1; inversion H2; subst; simpl. apply ext_le_refl.
    + apply bind_ok in H1 as (gs & Hgs & H1). apply bind_ok in H2 as (gs2 & Hgs2 & H2).
      rewrite Hgs in Hgs2. inversion Hgs2; subst gs2. clear Hgs2.
      apply bind_ok in H1 as ([[[w1 Xw1] ne1] na1] & Hin1 & H1). apply bind_ok in H2 as ([[[w2 Xw2] ne2] na2] & Hin2 & H2).
      (* the inner loops start from the same point with the same working set: same (w, Xw) (counters differ) *)
      assert (Hsame : w1 = w2 /\ Xw1 = Xw2).
      { clear -Hin1 Hin2. revert Hin1 Hin2. generalize (max_epochs cfg) as fu. generalize 0%nat as ep.
        generalize (k_acc_init K) as a0. revert w Xw n_ep n_acc n_ep' n_acc' ne1 na1 ne2 na2 w1 Xw1 w2 Xw2.
        intros w Xw n_ep n_acc n_ep' n_acc' ne1 na1 ne2 na2 w1 Xw1 w2 Xw2 a0 ep fu.
        revert w Xw a0 ep n_ep n_acc n_ep' n_acc'. induction fu as [|fu IHf]; intros w Xw a0 ep n_ep n_acc n_ep' n_acc' Ha Hb; simpl in Ha, Hb.
        - inversion Ha; inversion Hb; subst; auto.
        - apply bind_ok in Ha as ([[[[wa Xwa] aa] acca] brka] & Hsa & Ha). rewrite Hsa in Hb. cbn [bind] in Hb.
          destruct brka; [inversion Ha; inversion Hb; subst; auto|]. eapply IHf; eauto. }
      destruct Hsame as [-> ->].
      apply bind_ok in H1 as (pobj1 & Ho1 & H1). apply bind_ok in H2 as (pobj2 & Ho2 & H2).
      eapply IH; eauto.
Qed.

Theorem solve_descends w0 Xw0 out :
  solve cfg K (Some w0) (Some Xw0) = Ok out -> ext_le (E (o_w out) (o_Xw out)) (E w0 Xw0).
Proof.
  unfold solve. intros Hrun. apply bind_ok in Hrun as (lip & Hlip & Hrun).
  destruct (negb _); [discriminate|]. eapply outer_loop_descends; eauto.
Qed.
End Descent.
