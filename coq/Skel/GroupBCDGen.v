(* C05 for GroupBCD, closed over the REGENERATED block epoch: the GroupBCD skeleton (Skel/GroupBCD.v) whose epoch kernel is
   the translated `_bcd_epoch` (Gen/KernBCD.v), without intercept, returns a consistent pair Xw = X w + c from any
   consistent start -- for any group-gradient accessor, any block prox, any Lipschitz constants, any working sets, any score
   kernels; the only hypothesis left is on the accelerator (an accepted extrapolation is a consistent pair, which
   Lemmas/Affine.v proves of the modelled AndersonAcceleration). *)
From Coq Require Import Reals Lra Lia ZArith List Bool.
Require Import SK.Base.Res SK.Base.Num SK.Base.RInst SK.Lemmas.Consistency SK.Lemmas.BcdCons.
Require Import SK.Skel.AndersonCD SK.Skel.Generic SK.Skel.GroupBCD SK.Skel.GroupBCDProofs.
Require Import SK.Gen.KernBCD.
Import ListNotations.
Local Open Scope R_scope.

Section Closed.
Context {A : Type}.
Variable prox_1group : list R -> R -> Z -> res (list R).
Variable gg : list (list R) -> list R -> list R -> list R -> Z -> res (list R).
Variables (n : nat) (X : list (list R)) (c y : list R) (grp_ptr grp_indices : list Z).
Variables (cfg : @config R) (K : @kernels R A) (ng : nat).
Hypothesis HX : wf_X n X.
Hypothesis Hnd : NoDup grp_indices.
Hypothesis Hnn : Forall (fun j => (0 <= j)%Z) grp_indices.
Hypothesis Hp : n_features cfg = length X.
Hypothesis Hfi : fit_intercept cfg = false.
(* the epoch kernel of the solver is the regenerated one *)
Hypothesis Hepoch : forall w Xw lip ws,
  k_epoch K w Xw lip ws = @_bcd_epoch R _ grp_ptr grp_indices gg prox_1group X y w Xw lip ws.
(* an accepted extrapolation is a consistent pair of the right length *)
Hypothesis Hacc : forall a w Xw w_acc Xw_acc a',
  Cons n X w c Xw /\ length w = length X -> k_acc_step K a w Xw = Ok (w_acc, Xw_acc, true, a') ->
  Cons n X w_acc c Xw_acc /\ length w_acc = length X.

Theorem group_bcd_returns_consistent_fit w0 Xw0 out :
  length w0 = length X -> Cons n X w0 c Xw0 ->
  bsolve cfg K ng (Some w0) (Some Xw0) = Ok out ->
  Cons n X (b_w (g_s out)) c (b_Xw (g_s out)) /\ length (b_w (g_s out)) = length X.
Proof.
  intros Hl HC Hrun.
  refine (bsolve_preserves cfg K ng (fun w Xw => Cons n X w c Xw /\ length w = length X) w0 Xw0 out _ _ Hacc (conj HC Hl) Hrun).
  - intros lip w Xw ws w' Xw' [HCw Hlw] He. rewrite Hepoch in He.
    unfold wp in He. rewrite Hp, <- Hlw, firstn_all in He.
    destruct (bcd_epoch_preserves_cons prox_1group gg n X c HX y lip grp_ptr grp_indices Hnd Hnn ws w Xw w' Xw' Hlw HCw He) as [H1 H2].
    unfold with_wp. rewrite Hp, <- Hlw, skipn_all, app_nil_r. split; [exact H1|lia].
  - intros w Xw w' Xw' HI Hb. unfold b_intercept_update in Hb. rewrite Hfi in Hb. inversion Hb; subst. exact HI.
Qed.
End Closed.
