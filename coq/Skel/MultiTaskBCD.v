(* Layer S: hand-written model of MultiTaskBCD._solve (skglm/solvers/multitask_bcd.py), instance of the generic outer loop,
   written for ONE task (W is (n_features + fit_intercept) x 1: rows are flattened to scalars; the task axis itself is
   covered by the implementation oracles).  Mirrored decisions: W / XW initialised independently; scores with the FULL W;
   intercept term max |intercept_update_step|; ws_size = min(p, max(2 * #nonzero rows of the FULL W - n_unpen, p0 + n_unpen))
   (the intercept row is counted); opt[unpen] = opt[support] = inf; INLINE Anderson extrapolation: K = 5, the iterate
   restricted to ws (+ intercept) is stored at slot epoch mod 6, every 6th epoch z solves (U U^T) z = 1, c = z / sum z,
   W_acc = sum_{k<5} c_k last[k] on ws (zero elsewhere), XW_acc = X[:, ws] W_acc[ws] + b, accepted iff strictly better;
   LinAlgError skips; inner test only when epoch > 0 and epoch mod 10 = 0: <= tol when the working set is everything,
   strict < 0.3 * stop_crit otherwise; objective appended after the inner loop.
   Tie: mock-kernel trace correspondence with the real _solve (np.linalg.solve replaced by the same dyadic rule). *)
From Coq Require Import ZArith QArith List Bool Lia.
Require Import SK.Base.Res SK.Base.Num SK.Skel.AndersonCD SK.Skel.Generic.
Import ListNotations.

Section Skel.
Context {F : Type} `{Num F}.

Record mt_config := {
  mt_max_iter : nat; mt_max_epochs : nat; mt_p0 : Z; mt_tol : F; mt_fixpoint : bool; mt_fit_intercept : bool; mt_use_acc : bool;
  mt_p : nat; mt_n : nat }.

Record mt_kernels := {
  mtk_lipschitz : res (list F);
  mtk_is_penalized : list bool;
  mtk_grad : list F -> list F -> list Z -> res (list F);                  (* gradient rows of the working set (W full, XW, ws) *)
  mtk_subdiff : list F -> list F -> list Z -> res (list (Ext F));
  mtk_fixpoint : list F -> list F -> list F -> list Z -> res (list F);
  mtk_intercept_step : list F -> res F;
  mtk_topk : list (Ext F) -> nat -> list Z;
  mtk_epoch : list F -> list F -> list F -> list Z -> res (list F * list F);  (* (W FULL, XW, lipschitz, ws) *)
  mtk_df_value : list F -> list F -> res F;
  mtk_pen_value : list F -> res (Ext F);
  mtk_solve_z : list (list F) -> option (list F);                          (* np.linalg.solve(U U^T, ones): None = LinAlgError *)
  mtk_Xcols : list F -> list Z -> list F -> res (list F)                   (* X[:, ws] @ v  (ws, v) + 0, on n samples: (zero XW, ws, v) *)
}.

Record mt_state := { mt_W : list F; mt_XW : list F; mt_epochs : nat }.

Section Run.
Context (cfg : mt_config) (K : mt_kernels) (lip : list F).
Let p := mt_p cfg.
Definition mwp (w : list F) : list F := firstn p w.
Definition mt_all : list Z := zrange 0 (Z.of_nat p).
Definition mt_03 : F := fofQ (5404319552844595 # 18014398509481984)%Q.      (* 0.3, strict test: the binary64 value *)
Definition nonzero_count (w : list F) : Z := count_true (map (fun x => negb (feqb x (fofZ 0))) w).

Definition mt_objective (s : mt_state) : res (Ext F) :=
  bind (mtk_df_value K (mt_W s) (mt_XW s)) (fun d => bind (mtk_pen_value K (mwp (mt_W s))) (fun pv => Ok (eadd (Fin d) pv))).

Definition mt_score (w Xw : list F) (ws : list Z) (lip_ws : list F) : res (list (Ext F)) :=
  bind (mtk_grad K w Xw ws) (fun g =>
  if mt_fixpoint cfg then bind (mtk_fixpoint K w g lip_ws ws) (fun d => Ok (map Fin d)) else mtk_subdiff K w g ws).

Definition mt_crit (s : mt_state) : res (list (Ext F) * Ext F) :=
  bind (mt_score (mt_W s) (mt_XW s) mt_all lip) (fun opt =>
  bind (if mt_fit_intercept cfg then bind (mtk_intercept_step K (mt_XW s)) (fun st => Ok (fabs st)) else Ok (fofZ 0)) (fun iopt =>
  bind (emax_list opt) (fun m => Ok (opt, emax m (Fin iopt))))).

Definition mt_intercept_update (w Xw : list F) : res (list F * list F) :=
  if mt_fit_intercept cfg then
    bind (w_last w) (fun old => bind (mtk_intercept_step K Xw) (fun st =>
    let new := fsub old st in
    bind (set_idx w (-1) new) (fun w' => Ok (w', vmap (fun x => fadd x (fsub new old)) Xw))))
  else Ok (w, Xw).

Definition ws_i (ws : list Z) : list Z := if mt_fit_intercept cfg then ws ++ [(-1)%Z] else ws.

Fixpoint diffs_l (l : list (list F)) : list (list F) :=
  match l with a :: ((b :: _) as t) => vmap2 fsub b a :: diffs_l t | _ => [] end.
Fixpoint comb_l (n : nat) (C : list F) (vs : list (list F)) : list F :=
  match C, vs with c :: C', v :: vs' => vmap2 fadd (vmap (fmul c) v) (comb_l n C' vs') | _, _ => repeat (fofZ 0) n end.

(* inline extrapolation at the end of a 6-epoch cycle; `last` = the 6 stored slots, slot 0 first *)
Definition mt_extrapolate (ws : list Z) (last : list (list F)) (w Xw : list F) : res (list F * list F) :=
  match mtk_solve_z K (diffs_l last) with
  | None => Ok (w, Xw)
  | Some z =>
      let sz := vsum z in
      bind (mapM (fun zk => fdiv zk sz) z) (fun c =>
      let wacc_ws := comb_l (length (ws_i ws)) c (firstn 5 last) in
      bind (scatter (vzeros (zlen w)) (ws_i ws) wacc_ws) (fun w_acc =>
      bind (gather w_acc ws) (fun v =>
      bind (mtk_Xcols K (vzeros (zlen Xw)) ws v) (fun Xv =>
      bind (if mt_fit_intercept cfg then w_last w_acc else Ok (fofZ 0)) (fun b =>
      let Xw_acc := vmap (fun x => fadd x b) Xv in
      bind (mtk_df_value K w Xw) (fun d => bind (mtk_pen_value K (mwp w)) (fun pv =>
      bind (mtk_df_value K w_acc Xw_acc) (fun da => bind (mtk_pen_value K (mwp w_acc)) (fun pva =>
      if elt (eadd (Fin da) pva) (eadd (Fin d) pv) then Ok (w_acc, Xw_acc) else Ok (w, Xw))))))))))
  end.

Definition set_slot (last : list (list F)) (k : nat) (v : list F) : list (list F) := set_nth last k v.

Definition mt_inner_step (ws : list Z) (ws_size : Z) (stop_crit : Ext F) (epoch : nat) (w Xw : list F) (last : list (list F))
  : res (list F * list F * list (list F) * bool) :=
  bind (mtk_epoch K w Xw lip ws) (fun r =>
  let '(w, Xw) := r in
  bind (mt_intercept_update w Xw) (fun r2 =>
  let '(w, Xw) := r2 in
  bind (if mt_use_acc cfg then
          bind (gather w (ws_i ws)) (fun cur =>
          let last := set_slot last (Nat.modulo epoch 6) cur in
          if (Nat.modulo epoch 6 =? 5)%nat then bind (mt_extrapolate ws last w Xw) (fun r3 => Ok (fst r3, snd r3, last))
          else Ok (w, Xw, last))
        else Ok (w, Xw, last)) (fun r4 =>
  let '(w, Xw, last) := r4 in
  if ((0 <? epoch) && (Nat.modulo epoch 10 =? 0))%nat then
    bind (gather lip ws) (fun lip_ws =>
    bind (mt_score w Xw ws lip_ws) (fun opt_ws =>
    bind (emax_list opt_ws) (fun stop_in =>
    let brk := if (ws_size =? Z.of_nat p)%Z then ele stop_in (mt_tol cfg) else elt stop_in (escale mt_03 stop_crit) in
    Ok (w, Xw, last, brk))))
  else Ok (w, Xw, last, false)))).

Fixpoint mt_inner_loop (fuel epoch : nat) (ws : list Z) (ws_size : Z) (stop_crit : Ext F) (w Xw : list F) (last : list (list F)) (n_ep : nat)
  : res (list F * list F * nat) :=
  match fuel with
  | O => Ok (w, Xw, n_ep)
  | S fuel' =>
      bind (mt_inner_step ws ws_size stop_crit epoch w Xw last) (fun r =>
      let '(w, Xw, last, brk) := r in
      if brk then Ok (w, Xw, S n_ep) else mt_inner_loop fuel' (S epoch) ws ws_size stop_crit w Xw last (S n_ep))
  end.

Definition mt_body (s : mt_state) (opt : list (Ext F)) (stop_crit : Ext F) : res mt_state :=
  let w := mt_W s in
  let unpen := map negb (mtk_is_penalized K) in
  let n_unpen := count_true unpen in
  let ws_size := Z.min (Z.of_nat p) (Z.max (2 * nonzero_count w - n_unpen) (mt_p0 cfg + n_unpen)) in
  let supp := map (fun x => negb (feqb x (fofZ 0))) (mwp w) in
  let opt := set_inf (set_inf opt unpen) supp in
  let ws := mtk_topk K opt (Z.to_nat ws_size) in
  let last0 := repeat (vzeros (zlen (ws_i ws))) 6 in
  bind (mt_inner_loop (mt_max_epochs cfg) 0 ws ws_size stop_crit w (mt_XW s) last0 (mt_epochs s)) (fun r =>
  let '(w, Xw, n_ep) := r in Ok {| mt_W := w; mt_XW := Xw; mt_epochs := n_ep |}).
End Run.

Definition mt_solve (cfg : mt_config) (K : mt_kernels) (W_init XW_init : option (list F)) : res (@gout F mt_state) :=
  let fi := if mt_fit_intercept cfg then 1%Z else 0%Z in
  let w0 := match W_init with Some w => w | None => vzeros (Z.of_nat (mt_p cfg) + fi) end in
  let Xw0 := match XW_init with Some x => x | None => vzeros (Z.of_nat (mt_n cfg)) end in
  if negb (zlen w0 =? Z.of_nat (mt_p cfg) + fi)%Z then Err Shape
  else bind (mtk_lipschitz K) (fun lip =>
       grun (mt_tol cfg) (mt_crit cfg K lip) (mt_body cfg K lip) (mt_objective cfg K) (mt_max_iter cfg)
            {| mt_W := w0; mt_XW := Xw0; mt_epochs := 0 |}).
End Skel.
