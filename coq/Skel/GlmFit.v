(* Hand-written model of the start-point construction of skglm/estimators.py:_glm_fit (single-task branch):
     warm start   (solver.warm_start and model.coef_ present):  w = coef_ (++ [intercept_] if fit_intercept),
                                                                Xw = X_ @ w[:p] + fit_intercept * w[-1]
     cold start:                                                 w = 0, Xw = 0
   Tied to the source by executed correspondence: a spy on solver.solve records the (w, Xw) actually handed to the
   solver during real fit / refit histories (tools/harness_glm.py). *)
From Coq Require Import ZArith List Bool.
Require Import SK.Base.Res SK.Base.Num.
Import ListNotations.

Section Model.
Context {F : Type} `{Num F}.

(* previous fit, as stored on the estimator: coef_ (length p) and intercept_ *)
Definition glm_start (fit_intercept warm : bool) (prev : option (list F * F)) (X : list (list F)) (n_samples : nat)
  : list F * list F :=
  let p := length X in
  match warm, prev with
  | true, Some (coef, b) =>
      let w := if fit_intercept then coef ++ [b] else coef in
      let wp := firstn (length w - (if fit_intercept then 1 else 0)) w in
      let b_used := if fit_intercept then last w f0 else f0 in
      (w, vmap (fun x => fadd x b_used) (mv n_samples X wp))
  | _, _ => (vzeros (Z.of_nat p + (if fit_intercept then 1 else 0)), vzeros (Z.of_nat n_samples))
  end.
End Model.
