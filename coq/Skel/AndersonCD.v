(* Layer S: hand-written model of AndersonCD._solve (skglm/solvers/anderson_cd.py), parametric in the
   kernels it calls.  Tied to the source by executed correspondence (tools/harness), not by translation.
   Control decisions mirrored: stop_crit initialisation and placement, working-set size formula,
   opt[unpen] = opt[gsupp] = inf, accelerator re-created each outer iteration, w_acc[:] = 0,
   intercept update, extrapolation accept test, epoch % 10 inner test (with the FULL w passed to
   construct_grad), p_obj appended after the inner loop, break before the append on convergence. *)
From Coq Require Import ZArith QArith List Bool Lia.
Require Import SK.Base.Res SK.Base.Num.
Import ListNotations.

Section Skel.
Context {F : Type} `{Num F} {A : Type}.

Record config := {
  max_iter : nat; max_epochs : nat; p0 : Z; tol : F;
  fixpoint : bool;          (* ws_strategy == "fixpoint" *)
  fit_intercept : bool;
  n_features : nat; n_samples : nat }.

(* kernels as the skeleton sees them: w arguments are w[:n_features] unless stated *)
Record kernels := {
  k_lipschitz : res (list F);                                          (* initialize + get_lipschitz(_sparse) *)
  k_is_penalized : list bool;
  k_full_grad : list F -> list F -> res (list F);                      (* (w, Xw) -> grad over all features *)
  k_subdiff : list F -> list F -> list Z -> res (list (Ext F));        (* penalty.subdiff_distance(w, grad, ws) *)
  k_fixpoint : list F -> list F -> list F -> list Z -> res (list F);   (* dist_fix_point_cd(w, grad, lipschitz_ws, ws) *)
  k_intercept_step : list F -> res F;                                  (* datafit.intercept_update_step(y, Xw) *)
  k_gsupp : list F -> res (list bool);
  k_topk : list (Ext F) -> nat -> list Z;                              (* np.argpartition(opt, -k)[-k:] *)
  k_epoch : list F -> list F -> list F -> list Z -> res (list F * list F);   (* (w, Xw, lipschitz, ws) *)
  k_grad_ws : list F -> list F -> list Z -> res (list F);              (* construct_grad(X, y, w FULL, Xw, ws) *)
  k_df_value : list F -> list F -> res F;
  k_pen_value : list F -> res (Ext F);
  (* accelerator: state A *)
  k_acc_init : A;
  k_acc_step : A -> list F -> list F -> res (list F * list F * bool * A)
}.

Definition eadd (a b : Ext F) : Ext F := match a, b with Fin x, Fin y => Fin (fadd x y) | _, _ => PInf end.
Definition emax_list (l : list (Ext F)) : res (Ext F) :=
  match l with [] => Err Dom | x :: t => Ok (fold_left emax t x) end.
Definition ele (a : Ext F) (b : F) : bool := match a with Fin x => fleb x b | PInf => false end.
Definition elt (a b : Ext F) : bool :=
  match a, b with Fin x, Fin y => fltb x y | Fin _, PInf => true | PInf, _ => false end.
Definition escale (c : F) (a : Ext F) : Ext F := match a with Fin x => Fin (fmul c x) | PInf => PInf end.

Definition count_true (l : list bool) : Z := Z.of_nat (length (filter (fun b => b) l)).
Fixpoint map2b (f : bool -> bool -> bool) (a b : list bool) : list bool :=
  match a, b with x :: a', y :: b' => f x y :: map2b f a' b' | _, _ => [] end.
Fixpoint set_inf (opt : list (Ext F)) (mask : list bool) : list (Ext F) :=
  match opt, mask with
  | o :: opt', m :: mask' => (if m then PInf else o) :: set_inf opt' mask'
  | _, _ => opt
  end.

(* w[idxs] (idxs may contain -1 for the intercept) and w_acc[idxs] = vals *)
Definition w_last (w : list F) : res F := get_idx w (-1).

Record state := { s_w : list F; s_Xw : list F }.

Record out := { o_w : list F; o_Xw : list F; o_obj : list (Ext F); o_stop : Ext F;
                o_iters : nat; o_epochs : nat; o_accepts : nat }.

Section Run.
Context (cfg : config) (K : kernels).

Let p := n_features cfg.
Definition wp (w : list F) : list F := firstn p w.
Definition all_feats : list Z := zrange 0 (Z.of_nat p).

Definition objective (w Xw : list F) : res (Ext F) :=
  bind (k_df_value K (wp w) Xw) (fun d => bind (k_pen_value K (wp w)) (fun pv => Ok (eadd (Fin d) pv))).

Definition score_all (w Xw lip : list F) : res (list (Ext F)) :=
  bind (k_full_grad K (wp w) Xw) (fun grad =>
  if fixpoint cfg then bind (k_fixpoint K (wp w) grad lip all_feats) (fun d => Ok (map Fin d))
  else k_subdiff K (wp w) grad all_feats).

Definition score_ws (w Xw lip : list F) (ws : list Z) : res (list (Ext F)) :=
  bind (k_grad_ws K w Xw ws) (fun grad_ws =>
  if fixpoint cfg then bind (gather lip ws) (fun lip_ws =>
                        bind (k_fixpoint K (wp w) grad_ws lip_ws ws) (fun d => Ok (map Fin d)))
  else k_subdiff K (wp w) grad_ws ws).

(* write the first p entries of w, keep the rest (the intercept) *)
Definition with_wp (w : list F) (w' : list F) : list F := w' ++ skipn p w.

Definition intercept_update (w Xw : list F) : res (list F * list F) :=
  if fit_intercept cfg then
    bind (w_last w) (fun old =>
    bind (k_intercept_step K Xw) (fun st =>
    let new := fsub old st in
    bind (set_idx w (-1) new) (fun w' =>
    Ok (w', vmap (fun x => fadd x (fsub new old)) Xw))))
  else Ok (w, Xw).

Definition ws_intercept (ws : list Z) : list Z := if fit_intercept cfg then ws ++ [(-1)%Z] else ws.

(* one inner epoch; returns (w, Xw, acc state, accepted?, break?) *)
Definition inner_step (lip : list F) (ws : list Z) (ws_size : Z) (stop_crit : Ext F) (epoch : nat)
           (w Xw : list F) (a : A) : res (list F * list F * A * bool * bool) :=
  bind (k_epoch K (wp w) Xw lip ws) (fun r =>
  let w := with_wp w (fst r) in let Xw := snd r in
  bind (intercept_update w Xw) (fun r2 =>
  let w := fst r2 in let Xw := snd r2 in
  bind (gather w (ws_intercept ws)) (fun w_ws =>
  bind (k_acc_step K a w_ws Xw) (fun r3 =>
  let '(wacc_ws, Xw_acc, is_extrap, a') := r3 in
  bind (if is_extrap then
          bind (objective w Xw) (fun p_obj =>
          (* w_acc is zero outside ws_intercept *)
          bind (scatter (vzeros (zlen w)) (ws_intercept ws) wacc_ws) (fun w_acc =>
          bind (objective w_acc Xw_acc) (fun p_obj_acc =>
          if elt p_obj_acc p_obj then Ok (w_acc, Xw_acc, true) else Ok (w, Xw, false))))
        else Ok (w, Xw, false)) (fun r4 =>
  let '(w, Xw, accepted) := r4 in
  if (Nat.modulo epoch 10 =? 0)%nat then
    bind (score_ws w Xw lip ws) (fun opt_ws =>
    bind (emax_list opt_ws) (fun stop_in =>
    let brk := if (ws_size =? Z.of_nat p)%Z then ele stop_in (tol cfg)
               else elt stop_in (escale (fofQ (5404319552844595 # 18014398509481984)%Q) stop_crit) in
    Ok (w, Xw, a', accepted, brk)))
  else Ok (w, Xw, a', accepted, false)))))).

Fixpoint inner_loop (fuel : nat) (epoch : nat) (lip : list F) (ws : list Z) (ws_size : Z) (stop_crit : Ext F)
         (w Xw : list F) (a : A) (n_ep n_acc : nat) : res (list F * list F * nat * nat) :=
  match fuel with
  | O => Ok (w, Xw, n_ep, n_acc)
  | S fuel' =>
      bind (inner_step lip ws ws_size stop_crit epoch w Xw a) (fun r =>
      let '(w, Xw, a', accepted, brk) := r in
      let n_acc := if accepted then S n_acc else n_acc in
      if brk then Ok (w, Xw, S n_ep, n_acc)
      else inner_loop fuel' (S epoch) lip ws ws_size stop_crit w Xw a' (S n_ep) n_acc)
  end.

(* stop criterion of the current point *)
Definition stop_criterion (w Xw lip : list F) : res (list (Ext F) * Ext F) :=
  bind (score_all w Xw lip) (fun opt =>
  bind (if fit_intercept cfg then bind (k_intercept_step K Xw) (fun st => Ok (fabs st)) else Ok (fofZ 0)) (fun iopt =>
  bind (emax_list opt) (fun m => Ok (opt, emax m (Fin iopt))))).

Fixpoint outer_loop (fuel : nat) (lip : list F) (w Xw : list F) (obj : list (Ext F)) (stop : Ext F)
         (n_it n_ep n_acc : nat) : res out :=
  match fuel with
  | O => Ok {| o_w := w; o_Xw := Xw; o_obj := obj; o_stop := stop; o_iters := n_it; o_epochs := n_ep; o_accepts := n_acc |}
  | S fuel' =>
      bind (stop_criterion w Xw lip) (fun r =>
      let '(opt, stop_crit) := r in
      if ele stop_crit (tol cfg) then
        Ok {| o_w := w; o_Xw := Xw; o_obj := obj; o_stop := stop_crit; o_iters := n_it; o_epochs := n_ep; o_accepts := n_acc |}
      else
        bind (k_gsupp K (wp w)) (fun gs =>
        let unpen := map negb (k_is_penalized K) in
        let n_unpen := count_true unpen in
        let n_gsupp_pen := count_true (map2b andb gs (k_is_penalized K)) in      (* np.logical_and(gsupp, ~unpen).sum() *)
        let ws_size := Z.max (Z.min (p0 cfg + n_unpen) (Z.of_nat p)) (Z.min (2 * n_gsupp_pen + n_unpen) (Z.of_nat p)) in
        let opt := set_inf (set_inf opt unpen) gs in
        let ws := k_topk K opt (Z.to_nat ws_size) in
        bind (inner_loop (max_epochs cfg) 0 lip ws ws_size stop_crit w Xw (k_acc_init K) n_ep n_acc) (fun r2 =>
        let '(w, Xw, n_ep, n_acc) := r2 in
        bind (objective w Xw) (fun p_obj =>
        outer_loop fuel' lip w Xw (obj ++ [p_obj]) stop_crit (S n_it) n_ep n_acc))))
  end.

Definition solve (w_init Xw_init : option (list F)) : res out :=
  let w0 := match w_init with Some w => w | None => vzeros (Z.of_nat p + (if fit_intercept cfg then 1 else 0)) end in
  let Xw0 := match Xw_init with Some x => x | None => vzeros (Z.of_nat (n_samples cfg)) end in
  bind (k_lipschitz K) (fun lip =>
  if negb (zlen w0 =? Z.of_nat p + (if fit_intercept cfg then 1 else 0))%Z then Err Shape
  else outer_loop (max_iter cfg) lip w0 Xw0 [] PInf 0 0 0).

End Run.
End Skel.
