(* Layer S: hand-written model of GramCD._solve (skglm/solvers/gram_cd.py), an instance of the generic outer
   loop of Skel/Generic.v.  Mirrored decisions: scaled Gram / X^T y set-up, grad = -q (cold) or Q w_init - q,
   opt computed BEFORE the loop and refreshed by the epoch kernel (its return value), stop_crit = max(opt) at the
   top of each iteration, one accelerator for the whole run, acceptance test on the objective without its constant,
   opt recomputed at an accepted point, p_obj (with the constant) appended every iteration.
   The epoch kernel is the REGENERATED Gen/KernGram.v (_gram_cd_epoch); the tie of this file to the source is the
   executed correspondence tools/harness_solvers.py (real _solve + real compiled kernel and penalties). *)
From Coq Require Import ZArith QArith List Bool Lia.
Require Import SK.Base.Res SK.Base.Num SK.Skel.AndersonCD SK.Skel.Generic.
Import ListNotations.

Section Skel.
Context {F : Type} `{Num F} {A : Type}.

Record gconfig := { gc_max_iter : nat; gc_tol : F; gc_use_acc : bool }.

Record gkernels := {
  gk_score : list F -> list F -> res (list (Ext F));                       (* penalty.subdiff_distance(w, grad, all_features) *)
  gk_epoch : list F -> list F -> res (list F * list F * list (Ext F));     (* _gram_cd_epoch(scaled_gram, w, grad, penalty, greedy) *)
  gk_pen_value : list F -> res (Ext F);
  gk_acc_init : A;
  gk_acc_step : A -> list F -> list F -> res (list F * list F * bool * A) }.

(* problem data after the set-up phase: Q = X^T X / n as a list of columns, q = X^T y / n, ||y||^2 / (2n) *)
Record gdata := { gd_Q : list (list F); gd_q : list F; gd_ynorm2 : F }.

Record gstate := { gs_w : list F; gs_grad : list F; gs_opt : list (Ext F); gs_acc : A }.

Section Run.
Context (cfg : gconfig) (K : gkernels) (D : gdata).

Definition half : F := fofQ (1 # 2)%Q.
(* 0.5 * w @ (Q @ w) - q @ w *)
Definition quad (w : list F) : F :=
  fsub (fmul half (vdot w (mv (length (gd_q D)) (gd_Q D) w))) (vdot (gd_q D) w).

Definition obj_cmp (w : list F) : res (Ext F) :=
  bind (gk_pen_value K w) (fun pv => Ok (eadd (Fin (quad w)) pv)).
Definition gobjective (s : gstate) : res (Ext F) :=
  bind (gk_pen_value K (gs_w s)) (fun pv => Ok (eadd (Fin (fadd (quad (gs_w s)) (gd_ynorm2 D))) pv)).

Definition gcrit (s : gstate) : res (unit * Ext F) :=
  bind (emax_list (gs_opt s)) (fun m => Ok (tt, m)).

Definition gbody (s : gstate) (_ : unit) (_ : Ext F) : res gstate :=
  bind (gk_epoch K (gs_w s) (gs_grad s)) (fun r =>
  let '(w, grad, opt) := r in
  if gc_use_acc cfg then
    bind (gk_acc_step K (gs_acc s) w grad) (fun r2 =>
    let '(w_acc, grad_acc, is_extrap, a') := r2 in
    if is_extrap then
      bind (obj_cmp w_acc) (fun p_obj_acc =>
      bind (obj_cmp w) (fun p_obj =>
      if elt p_obj_acc p_obj then
        bind (gk_score K w_acc grad_acc) (fun opt' =>
        Ok {| gs_w := w_acc; gs_grad := grad_acc; gs_opt := opt'; gs_acc := a' |})
      else Ok {| gs_w := w; gs_grad := grad; gs_opt := opt; gs_acc := a' |}))
    else Ok {| gs_w := w; gs_grad := grad; gs_opt := opt; gs_acc := a' |})
  else Ok {| gs_w := w; gs_grad := grad; gs_opt := opt; gs_acc := gs_acc s |}).

Definition ginit (w_init : option (list F)) : res gstate :=
  let p := length (gd_q D) in
  let w0 := match w_init with Some w => w | None => vzeros (Z.of_nat p) end in
  let grad0 := match w_init with
               | Some w => vmap2 fsub (mv p (gd_Q D) w) (gd_q D)
               | None => vmap fopp (gd_q D)
               end in
  bind (gk_score K w0 grad0) (fun opt =>
  Ok {| gs_w := w0; gs_grad := grad0; gs_opt := opt; gs_acc := gk_acc_init K |}).

Definition gsolve (w_init : option (list F)) : res (@gout F gstate) :=
  bind (ginit w_init) (fun s0 => grun (gc_tol cfg) gcrit gbody gobjective (gc_max_iter cfg) s0).

End Run.

(* set-up phase: Q, q and the constant from (X as list of columns, y) *)
Definition gram_setup (X : list (list F)) (y : list F) : res gdata :=
  let n := fofZ (zlen y) in
  bind (mapM (fun cj => mapM (fun ci => fdiv (vdot ci cj) n) X) X) (fun Qm =>
  bind (mapM (fun cj => fdiv (vdot cj y) n) X) (fun qv =>
  bind (fdiv (vsum (vmap fsq y)) (fmul (fofZ 2) n)) (fun yn =>
  Ok {| gd_Q := Qm; gd_q := qv; gd_ynorm2 := yn |}))).

End Skel.
