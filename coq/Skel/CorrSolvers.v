(* Correspondence glue (not used by any theorem): the solver skeletons of Skel/ instantiated with the REGENERATED
   kernels (Gen/) on the computable QNum instance, plus the dyadic mock accelerator shared with tools/harness_*.py,
   and the comparators against what the real solvers returned. *)
From Coq Require Import ZArith QArith Qabs List Bool.
Require Import SK.Base.Res SK.Base.Num SK.Base.QInst SK.Base.Corr.
Require Import SK.Skel.AndersonCD SK.Skel.Generic SK.Skel.GramCD SK.Gen.KernGram.
Import ListNotations.
Local Open Scope Q_scope.

(* mock accelerator (tools/harness_acd.py: MockAccel): stores up to K+1 pairs, then returns 2*last - previous *)
Definition accst := (nat * list (list Q * list Q))%type.
Definition acc2_step (K : nat) (a : accst) (w Xw : list Q) : res (list Q * list Q * bool * accst) :=
  let '(cnt, hist) := a in
  if (cnt <=? K)%nat then Ok (w, Xw, false, (S cnt, (w, Xw) :: hist))
  else match hist with
       | (w1, x1) :: (w0, x0) :: _ =>
           Ok (map (fun ab => Qred (2 * fst ab - snd ab)) (combine w1 w0),
               map (fun ab => Qred (2 * fst ab - snd ab)) (combine x1 x0), true, (O, hist))
       | _ => Ok (w, Xw, false, (O, hist))
       end.

Definition ext_eqq (a : Ext Q) (b : xq) : bool :=
  match a, b with Fin x, XQ y => qclose x y | PInf, XInf => true | _, _ => false end.

(* ---------------- GramCD: real _solve + real compiled _gram_cd_epoch + real compiled penalty ---------------- *)
Definition gram_case (X : list (list Q)) (y : list Q) (max_iter : nat) (tol : Q) (use_acc greedy : bool)
    (score : list Q -> list Q -> list Z -> res (list (Ext Q))) (prox : Q -> Q -> Z -> res Q)
    (value : list Q -> res (Ext Q)) (w_init : option (list Q)) : res (@gout Q (@gstate Q accst)) :=
  bind (gram_setup X y) (fun D =>
  gsolve {| gc_max_iter := max_iter; gc_tol := tol; gc_use_acc := use_acc |}
         {| gk_score := fun w g => score w g (zrange 0 (zlen w));
            gk_epoch := fun w g => _gram_cd_epoch score prox (gd_Q D) w g greedy;
            gk_pen_value := value; gk_acc_init := (O, []); gk_acc_step := acc2_step 2 |} D w_init).

Record obs_run := { or_err : bool; or_w : list Q; or_obj : list xq; or_stop : xq }.

Definition chk_gram (r : res (@gout Q (@gstate Q accst))) (o : obs_run) : bool :=
  match r with
  | Err _ => or_err o
  | Ok g => negb (or_err o) && all2 qclose (gs_w (g_s g)) (or_w o) && all2 ext_eqq (g_obj g) (or_obj o)
            && ext_eqq (g_stop g) (or_stop o)
  end.

Definition fin_value (f : list Q -> res Q) (w : list Q) : res (Ext Q) := bind (f w) (fun v => Ok (Fin v)).

(* ---------------- GroupBCD: real _solve against the dyadic mock kernels of Skel/MockACD.v ---------------- *)
Require Import SK.Skel.MockACD SK.Skel.GroupBCD.
(* the mock penalty's generalized_support looks at the coefficients only (as the real group penalties do), also when
   it is handed the full vector with the intercept entry *)
Definition mock_kernels_g (m : mock) (p : nat) : @kernels Q MockACD.accst :=
  let K := mock_kernels m in
  {| k_lipschitz := k_lipschitz K; k_is_penalized := k_is_penalized K; k_full_grad := k_full_grad K;
     k_subdiff := k_subdiff K; k_fixpoint := k_fixpoint K; k_intercept_step := k_intercept_step K;
     k_gsupp := fun w => k_gsupp K (firstn p w); k_topk := k_topk K; k_epoch := k_epoch K; k_grad_ws := k_grad_ws K;
     k_df_value := fun w Xw => k_df_value K (firstn p w) Xw; k_pen_value := k_pen_value K;
     k_acc_init := k_acc_init K; k_acc_step := k_acc_step K |}.

Definition chk_bcd (has_buf : bool) (r : res (@gout Q (@bstate Q MockACD.accst))) (o : observed) : bool :=
  match r with
  | Err _ => ob_err o
  | Ok g =>
      negb (ob_err o) && all2 qclose (b_w (g_s g)) (ob_w o) && (negb has_buf || all2 qclose (b_Xw (g_s g)) (ob_Xw o))
      && all2 ext_eqq (g_obj g) (ob_obj o) && ext_eqq (g_stop g) (ob_stop o)
      && (g_iters g =? ob_iters o)%nat && (b_epochs (g_s g) =? ob_epochs o)%nat
  end.

(* ---------------- ProxNewton: real _solve against dyadic mock kernels ---------------- *)
Require Import SK.Skel.ProxNewton.
Definition qsum (l : list Q) : Q := Qred (fold_left Qplus l 0).
Definition pn_thr (m : mock) (old : Q) (j : Z) : Q :=
  let v0 := half (old + nthQ (m_T m) j) in
  if Qltb (Qabs v0) (m_thr m) then 0 else if m_positive m && Qltb v0 0 then 0 else v0.

(* direction: every working-set coordinate moves half way to its target (thresholded); the intercept a quarter of the
   way to m_B; X_delta_w collects the moves on the carrying samples *)
Definition pn_mock_direction (m : mock) (fi : bool) (w Xw grad_ws : list Q) (ws : list Z) (_ : Ext Q)
  : res (list Q * list Q * list Q) :=
  let deltas := map (fun j => Qred (pn_thr m (nthQ w j) j - nthQ w j)) ws in
  let Xd0 := map (fun _ => 0) Xw in
  let Xd := fold_left (fun acc jd => let '(j, d) := jd in upd acc (Z.to_nat (smp Xw j)) (Qred (nthQ acc (smp Xw j) + d)))
                      (combine ws deltas) Xd0 in
  let db := Qred ((m_B m - last w 0) / 4) in
  let deltas' := if fi then deltas ++ [db] else deltas in
  let Xd' := if fi then map (fun x => Qred (x + db)) Xd else Xd in
  Ok (deltas', Xd', map (fun j => nthQ (m_lip m) j) ws).

Definition pn_mock_linesearch (m : mock) (fi : bool) (w Xw delta Xdelta : list Q) (ws : list Z)
  : res (list Q * list Q * list Q) :=
  let w1 := fold_left (fun acc jd => let '(j, d) := jd in upd acc (Z.to_nat j) (Qred (nthQ acc j + d))) (combine ws delta) w in
  let w2 := if fi then upd w1 (length w1 - 1) (Qred (last w1 0 + last delta 0)) else w1 in
  let Xw' := map (fun ab => Qred (fst ab + snd ab)) (combine Xw Xdelta) in
  bind (mk_grad_ws m w2 Xw' ws) (fun g => Ok (w2, Xw', g)).

Definition pn_mock (m : mock) (p : nat) (fi : bool) : @pn_kernels Q :=
  {| pk_grad := fun w Xw ws => mk_grad_ws m w Xw ws;
     pk_subdiff := mk_subdiff m; pk_fixpoint := mk_fixpoint;
     pk_lip_all := fun Xw => Ok (repeat (Qred (qsum (map Qabs Xw) / 4)) p);
     pk_sum_raw_grad := fun Xw => Ok (qsum (map (fun x => (x - m_B m) / 2) Xw));
     pk_gsupp := mk_gsupp; pk_topk := mk_topk;
     pk_direction := pn_mock_direction m fi; pk_linesearch := pn_mock_linesearch m fi;
     pk_df_value := fun w Xw => mk_df_value m (firstn p w) Xw; pk_pen_value := mk_pen_value m |}.

Record obs_pn := { op_err : bool; op_w : list Q; op_Xw : list Q; op_obj : list xq; op_stop : xq; op_iters : nat; op_inner : nat }.
Definition chk_pn (has_buf : bool) (r : res (@gout Q (@pn_state Q))) (o : obs_pn) : bool :=
  match r with
  | Err _ => op_err o
  | Ok g =>
      negb (op_err o) && all2 qclose (pn_w (g_s g)) (op_w o) && (negb has_buf || all2 qclose (pn_Xw (g_s g)) (op_Xw o))
      && all2 ext_eqq (g_obj g) (op_obj o) && ext_eqq (g_stop g) (op_stop o)
      && (g_iters g =? op_iters o)%nat && (pn_inner (g_s g) =? op_inner o)%nat
  end.

(* ---------------- FISTA: real _solve + real compiled Quadratic datafit and penalties (end to end) ---------------- *)
Require Import SK.Skel.Fista SK.Gen.ProxFuncs SK.Gen.DfSingle.
Definition fista_case (X : list (list Q)) (y : list Q) (L : Q) (max_iter : nat) (tol : Q)
    (score : list Q -> list Q -> list Z -> res (list (Ext Q))) (prox : Q -> Q -> Z -> res Q)
    (value : list Q -> res (Ext Q)) (w_init : option (list Q)) :=
  let n := length y in
  fsolve {| fk_grad := fun z => @Quadratic_gradient Q _ X y (mv n X z);
            fk_prox := fun w z step => _prox_vec prox w z step;
            fk_score := fun w g => score w g (zrange 0 (zlen w));
            fk_objective := fun w => bind (@Quadratic_value Q _ y w (mv n X w)) (fun d => bind (value w) (fun pv => Ok (eadd (Fin d) pv))) |}
         L max_iter tol (length X) w_init.

Definition chk_fista (r : res (@fstate Q * list (Ext Q) * Ext Q * nat)) (o : obs_run) : bool :=
  match r with
  | Err _ => or_err o
  | Ok (s, obj, stop, n) => negb (or_err o) && all2 qclose (f_w s) (or_w o) && all2 ext_eqq obj (or_obj o) && ext_eqq stop (or_stop o)
  end.

(* ---------------- AndersonAcceleration: the real class with np.linalg.solve replaced by a dyadic rule ---------------- *)
Require Import SK.Skel.Anderson.
(* LinAlgError when the first difference vector is zero; otherwise z_k = 1 except at the LAST non-zero difference vector,
   which gets 2^ceil(log2 K) - (K - 1): the weights depend on the iterates and sum to a power of two (dyadic coefficients) *)
Definition pow2_ge (n : nat) : Z :=
  (fix go (f : nat) (m : Z) : Z := match f with O => m | S f' => if (m <? Z.of_nat n)%Z then go f' (2 * m)%Z else m end) n 1%Z.
Definition heavy_z (nz : list bool) : list Q :=
  let n := length nz in
  let h := fold_left (fun (acc : nat) (kb : nat * bool) => if snd kb then fst kb else acc) (combine (seq 0 n) nz) O in
  map (fun k => if (k =? h)%nat then (pow2_ge n - (Z.of_nat n - 1))%Z # 1 else 1) (seq 0 n).
Definition mock_solve_z (U : list (list Q)) : option (list Q) :=
  match U with
  | [] => None
  | u0 :: _ => if Qeqb (vdot u0 u0) 0 then None else Some (heavy_z (map (fun u => negb (Qeqb (vdot u u) 0)) U))
  end.

(* run a sequence of calls; outputs per call: (w_out, Xw_out, extrapolated?) *)
Fixpoint aa_run (K : nat) (st : @aa_state Q) (calls : list (list Q * list Q)) : res (list (list Q * list Q * bool)) :=
  match calls with
  | [] => Ok []
  | (w, Xw) :: rest =>
      bind (aa_step K mock_solve_z st w Xw) (fun r => let '(w', Xw', e, st') := r in
      bind (aa_run K st' rest) (fun t => Ok ((w', Xw', e) :: t)))
  end.
Definition chk_aa (r : res (list (list Q * list Q * bool))) (o : list (list Q * list Q * bool)) : bool :=
  match r with
  | Err _ => false
  | Ok l => all2 (fun a b => all2 qclose (fst (fst a)) (fst (fst b)) && all2 qclose (snd (fst a)) (snd (fst b)) && Bool.eqb (snd a) (snd b)) l o
  end.

(* GramCD end to end with the MODELLED accelerator (K = 5 as in the source) *)
Definition gram_case_aa (X : list (list Q)) (y : list Q) (max_iter : nat) (tol : Q) (use_acc greedy : bool)
    (score : list Q -> list Q -> list Z -> res (list (Ext Q))) (prox : Q -> Q -> Z -> res Q)
    (value : list Q -> res (Ext Q)) (w_init : option (list Q)) : res (@gout Q (@gstate Q (@aa_state Q))) :=
  bind (gram_setup X y) (fun D =>
  gsolve {| gc_max_iter := max_iter; gc_tol := tol; gc_use_acc := use_acc |}
         {| gk_score := fun w g => score w g (zrange 0 (zlen w));
            gk_epoch := fun w g => _gram_cd_epoch score prox (gd_Q D) w g greedy;
            gk_pen_value := value; gk_acc_init := aa_init; gk_acc_step := aa_step 5 mock_solve_z |} D w_init).
Definition chk_gram_aa (r : res (@gout Q (@gstate Q (@aa_state Q)))) (o : obs_run) : bool :=
  match r with
  | Err _ => or_err o
  | Ok g => negb (or_err o) && all2 qclose (gs_w (g_s g)) (or_w o) && all2 ext_eqq (g_obj g) (or_obj o)
            && ext_eqq (g_stop g) (or_stop o)
  end.

(* ---------------- MultiTaskBCD (one task): real _solve against dyadic mock kernels ---------------- *)
Require Import SK.Skel.MultiTaskBCD.
Definition mt_mock (m : mock) (p : nat) : @mt_kernels Q :=
  {| mtk_lipschitz := Ok (m_lip m); mtk_is_penalized := m_pen m;
     mtk_grad := fun w Xw ws => mk_grad_ws m w Xw ws;
     mtk_subdiff := mk_subdiff m; mtk_fixpoint := mk_fixpoint;
     mtk_intercept_step := mk_intercept_step m;
     mtk_topk := mk_topk;
     mtk_epoch := fun w Xw lip ws => mk_epoch m w Xw lip ws;
     mtk_df_value := fun w Xw => mk_df_value m (firstn p w) Xw; mtk_pen_value := mk_pen_value m;
     mtk_solve_z := mock_solve_z;
     mtk_Xcols := fun Xw0 ws v =>
       Ok (fold_left (fun acc jd => let '(j, d) := jd in upd acc (Z.to_nat (smp Xw0 j)) (Qred (nthQ acc (smp Xw0 j) + d))) (combine ws v) Xw0) |}.

Record obs_mt := { om_err : bool; om_w : list Q; om_Xw : list Q; om_obj : list xq; om_stop : xq; om_iters : nat; om_epochs : nat }.
Definition chk_mt (has_buf : bool) (r : res (@gout Q (@mt_state Q))) (o : obs_mt) : bool :=
  match r with
  | Err _ => om_err o
  | Ok g =>
      negb (om_err o) && all2 qclose (mt_W (g_s g)) (om_w o) && (negb has_buf || all2 qclose (mt_XW (g_s g)) (om_Xw o))
      && all2 ext_eqq (g_obj g) (om_obj o) && ext_eqq (g_stop g) (om_stop o)
      && (g_iters g =? om_iters o)%nat && (mt_epochs (g_s g) =? om_epochs o)%nat
  end.

(* ---------------- GroupProxNewton: real _solve against the ProxNewton mock kernels (singleton groups) ---------------- *)
Require Import SK.Skel.GroupProxNewton.
Definition gpn_mock (m : mock) (p : nat) (fi : bool) : @pn_kernels Q :=
  let K := pn_mock m p fi in
  {| pk_grad := pk_grad K; pk_subdiff := pk_subdiff K; pk_fixpoint := pk_fixpoint K; pk_lip_all := pk_lip_all K;
     pk_sum_raw_grad := pk_sum_raw_grad K; pk_gsupp := fun w => mk_gsupp (firstn p w); pk_topk := pk_topk K;
     pk_direction := pk_direction K; pk_linesearch := pk_linesearch K; pk_df_value := pk_df_value K; pk_pen_value := pk_pen_value K |}.

(* ---------------- decision-fragile traces: the same end-to-end cases on an explicit Num instance ---------------- *)
Definition mock_solve_z_N (N : Num Q) (U : list (list Q)) : option (list Q) :=
  match U with
  | [] => None
  | u0 :: _ => if @feqb Q N (@vdot Q N u0 u0) 0 then None
               else Some (heavy_z (map (fun u => negb (@feqb Q N (@vdot Q N u u) 0)) U))
  end.
Definition gram_case_aa_N (N : Num Q) (X : list (list Q)) (y : list Q) (max_iter : nat) (tol : Q) (use_acc greedy : bool)
    (score : list Q -> list Q -> list Z -> res (list (Ext Q))) (prox : Q -> Q -> Z -> res Q)
    (value : list Q -> res (Ext Q)) (w_init : option (list Q)) : res (@gout Q (@gstate Q (@aa_state Q))) :=
  bind (@gram_setup Q N X y) (fun D =>
  @gsolve Q N _ {| gc_max_iter := max_iter; gc_tol := tol; gc_use_acc := use_acc |}
         {| gk_score := fun w g => score w g (zrange 0 (zlen w));
            gk_epoch := fun w g => @_gram_cd_epoch Q N score prox (gd_Q D) w g greedy;
            gk_pen_value := value; gk_acc_init := aa_init; gk_acc_step := @aa_step Q N 5 (mock_solve_z_N N) |} D w_init).
Definition fista_case_N (N : Num Q) (X : list (list Q)) (y : list Q) (L : Q) (max_iter : nat) (tol : Q)
    (score : list Q -> list Q -> list Z -> res (list (Ext Q))) (prox : Q -> Q -> Z -> res Q)
    (value : list Q -> res (Ext Q)) (w_init : option (list Q)) :=
  let n := length y in
  @fsolve Q N {| fk_grad := fun z => @Quadratic_gradient Q N X y (@mv Q N n X z);
            fk_prox := fun w z step => _prox_vec prox w z step;
            fk_score := fun w g => score w g (zrange 0 (zlen w));
            fk_objective := fun w => bind (@Quadratic_value Q N y w (@mv Q N n X w)) (fun d => bind (value w) (fun pv => Ok (@eadd Q N (Fin d) pv))) |}
         L max_iter tol (length X) w_init.

(* a trace is decision-fragile when shifting every order / equality test by the margin changes what the MODEL returns *)
Definition ext_same (a b : Ext Q) : bool := match a, b with Fin x, Fin y => Qeqb x y | PInf, PInf => true | _, _ => false end.
Definition same_gram (a b : res (@gout Q (@gstate Q (@aa_state Q)))) : bool :=
  match a, b with
  | Err _, Err _ => true
  | Ok g, Ok h => all2 Qeqb (gs_w (g_s g)) (gs_w (g_s h)) && all2 ext_same (g_obj g) (g_obj h) && ext_same (g_stop g) (g_stop h)
  | _, _ => false
  end.
Definition frag_gram (r : res (@gout Q (@gstate Q (@aa_state Q))) * res (@gout Q (@gstate Q (@aa_state Q))) * res (@gout Q (@gstate Q (@aa_state Q))))
    (o : obs_run) : bool :=
  let '(a, b, c) := r in negb (same_gram a b && same_gram a c).
Definition same_fista (a b : res (@fstate Q * list (Ext Q) * Ext Q * nat)) : bool :=
  match a, b with
  | Err _, Err _ => true
  | Ok (s, obj, stop, n), Ok (s', obj', stop', n') => all2 Qeqb (f_w s) (f_w s') && all2 ext_same obj obj' && ext_same stop stop'
  | _, _ => false
  end.
Definition frag_fista (r : res (@fstate Q * list (Ext Q) * Ext Q * nat) * res (@fstate Q * list (Ext Q) * Ext Q * nat) * res (@fstate Q * list (Ext Q) * Ext Q * nat))
    (o : obs_run) : bool :=
  let '(a, b, c) := r in negb (same_fista a b && same_fista a c).

(* ---------------- ProxNewton END TO END: the skeleton over the REGENERATED kernels (Gen/KernPN.v, Gen/KernCD.v) and the
   regenerated Quadratic datafit / separable penalty; only np.argpartition is replaced (same deterministic rule on both sides) ---- *)
Require Import SK.Gen.KernCD SK.Gen.KernPN.
Require Import SK.Skel.ProxNewtonKernels.
(* the SAME kernel record the theorems of Skel/ProxNewtonGen.v are about, on Q *)
Definition pn_e2e_kernels (N : Num Q) (X : list (list Q)) (y : list Q) (fi fixp : bool)
    (score : list Q -> list Q -> list Z -> res (list (Ext Q))) (prox : Q -> Q -> Z -> res Q)
    (value : list Q -> res (Ext Q)) (gsupp : list Q -> res (list bool)) : @pn_kernels Q :=
  @pn_gen_kernels Q N (@Quadratic_raw_grad Q N) (@Quadratic_raw_hessian Q N) (fun w Xw => @Quadratic_value Q N y w Xw)
                  prox value score gsupp mk_topk X y fi fixp.

Definition pn_case_N (N : Num Q) (X : list (list Q)) (y : list Q) (max_iter max_pn_iter : nat) (p0 : Z) (tol : Q) (fi fixp : bool)
    (score : list Q -> list Q -> list Z -> res (list (Ext Q))) (prox : Q -> Q -> Z -> res Q)
    (value : list Q -> res (Ext Q)) (gsupp : list Q -> res (list bool)) (w_init Xw_init : option (list Q)) : res (@gout Q (@pn_state Q)) :=
  @pn_solve Q N {| pn_max_iter := max_iter; pn_max_pn_iter := max_pn_iter; pn_p0 := p0; pn_tol := tol; pn_fixpoint := fixp;
                   pn_fit_intercept := fi; pn_p := length X; pn_n := length y |}
            (pn_e2e_kernels N X y fi fixp score prox value gsupp) w_init Xw_init.
Definition pn_case := pn_case_N QNum.
Definition chk_pn_e2e (r : res (@gout Q (@pn_state Q))) (o : obs_run) : bool :=
  match r with
  | Err _ => or_err o
  | Ok g => negb (or_err o) && all2 qclose (pn_w (g_s g)) (or_w o) && all2 ext_eqq (g_obj g) (or_obj o) && ext_eqq (g_stop g) (or_stop o)
  end.
Definition same_pn (a b : res (@gout Q (@pn_state Q))) : bool :=
  match a, b with
  | Err _, Err _ => true
  | Ok g, Ok h => all2 Qeqb (pn_w (g_s g)) (pn_w (g_s h)) && all2 ext_same (g_obj g) (g_obj h) && ext_same (g_stop g) (g_stop h)
  | _, _ => false
  end.
Definition frag_pn (r : res (@gout Q (@pn_state Q)) * res (@gout Q (@pn_state Q)) * res (@gout Q (@pn_state Q))) (o : obs_run) : bool :=
  let '(a, b, c) := r in negb (same_pn a b && same_pn a c).

(* ---------------- GroupBCD END TO END: the skeleton over the REGENERATED block kernels (Gen/KernBCD.v, dist_fix_point_bcd of
   Gen/KernCD.v), the regenerated QuadraticGroup datafit and group penalty, and the modelled AndersonAcceleration (K = 5);
   the per-group Lipschitz constants (a spectral norm, not translated) are taken from the real datafit ---------------- *)
Require Import SK.Gen.KernBCD SK.Gen.DfGroup.
Definition bcd_case_N (N : Num Q) (X : list (list Q)) (y lipv : list Q) (grp_ptr grp_indices : list Z)
    (max_iter max_epochs : nat) (p0 : Z) (tol : Q) (fi fixp : bool)
    (score : list Q -> list Q -> list Z -> res (list (Ext Q))) (prox : list Q -> Q -> Z -> res (list Q))
    (value : list Q -> res (Ext Q)) (gsupp : list Q -> res (list bool)) (w_init Xw_init : option (list Q))
    : res (@gout Q (@bstate Q (@aa_state Q))) :=
  let gg := @QuadraticGroup_gradient_g Q N grp_ptr grp_indices in
  @bsolve Q N (@aa_state Q)
    {| max_iter := max_iter; max_epochs := max_epochs; p0 := p0; tol := tol; fixpoint := fixp; fit_intercept := fi;
       n_features := length X; n_samples := length y |}
    {| k_lipschitz := Ok lipv; k_is_penalized := []; k_full_grad := fun _ _ => Err Dom;
       k_subdiff := score;
       k_fixpoint := fun w g lip ws => @dist_fix_point_bcd Q N grp_ptr grp_indices prox w g lip ws;
       k_intercept_step := fun Xw => @QuadraticGroup_intercept_update_step Q N y Xw;
       k_gsupp := gsupp; k_topk := mk_topk;
       k_epoch := fun w Xw lip ws => @_bcd_epoch Q N grp_ptr grp_indices gg prox X y w Xw lip ws;
       k_grad_ws := fun w Xw ws => @bcd_construct_grad Q N grp_ptr gg X y w Xw ws;
       k_df_value := fun w Xw => @QuadraticGroup_value Q N y w Xw; k_pen_value := value;
       k_acc_init := aa_init; k_acc_step := @aa_step Q N 5 (mock_solve_z_N N) |}
    (Nat.pred (length grp_ptr)) w_init Xw_init.
Definition bcd_case := bcd_case_N QNumT.
Definition chk_bcd_e2e (r : res (@gout Q (@bstate Q (@aa_state Q)))) (o : obs_run) : bool :=
  match r with
  | Err _ => or_err o
  | Ok g => negb (or_err o) && all2 qclose (b_w (g_s g)) (or_w o) && all2 ext_eqq (g_obj g) (or_obj o) && ext_eqq (g_stop g) (or_stop o)
  end.
Definition same_bcd (a b : res (@gout Q (@bstate Q (@aa_state Q)))) : bool :=
  match a, b with
  | Err _, Err _ => true
  | Ok g, Ok h => all2 Qeqb (b_w (g_s g)) (b_w (g_s h)) && all2 ext_same (g_obj g) (g_obj h) && ext_same (g_stop g) (g_stop h)
  | _, _ => false
  end.
Definition frag_bcd (r : res (@gout Q (@bstate Q (@aa_state Q))) * res (@gout Q (@bstate Q (@aa_state Q))) * res (@gout Q (@bstate Q (@aa_state Q))))
    (o : obs_run) : bool :=
  let '(a, b, c) := r in negb (same_bcd a b && same_bcd a c).

(* CSC input: QuadraticGroup.get_lipschitz_sparse is a power method started from a RANDOM vector (tolerance 1e-6), so the
   constants the solver used are only known to ~1e-7; such runs are compared to 1e-5 *)
Definition qcloseL (a b : Q) : bool :=
  let d := Qabs (a - b) in let m := if Qltb (Qabs b) 1 then 1 else Qabs b in Qlebb d ((1 # 100000) * m).
Definition ext_eqqL (a : Ext Q) (b : xq) : bool :=
  match a, b with Fin x, XQ y => qcloseL x y | PInf, XInf => true | _, _ => false end.
Definition chk_bcd_e2e_sp (r : res (@gout Q (@bstate Q (@aa_state Q)))) (o : obs_run) : bool :=
  match r with
  | Err _ => or_err o
  | Ok g => negb (or_err o) && all2 qcloseL (b_w (g_s g)) (or_w o) && all2 ext_eqqL (g_obj g) (or_obj o) && ext_eqqL (g_stop g) (or_stop o)
  end.
