(* Correspondence glue (not used by any theorem): the solver skeletons of Skel/ instantiated with the REGENERATED
   kernels (Gen/) on the computable QNum instance, plus the dyadic mock accelerator shared with tools/harness_*.py,
   and the comparators against what the real solvers returned. *)
From Coq Require Import ZArith QArith Qabs List Bool.
Require Import SK.Base.Res SK.Base.Num SK.Base.QInst SK.Base.Corr.
Require Import SK.Skel.AndersonCD SK.Skel.Generic SK.Skel.GramCD SK.Gen.KernGram.
Import ListNotations.
Local Open Scope Q_scope.

(* mock accelerator (tools/harness_acd.py: MockAccel): stores up to K+1 pairs, then returns 2*last - previous *)
Definition accst := (nat * list (list Q * list Q))%type.
Definition acc2_step (K : nat) (a : accst) (w Xw : list Q) : res (list Q * list Q * bool * accst) :=
  let '(cnt, hist) := a in
  if (cnt <=? K)%nat then Ok (w, Xw, false, (S cnt, (w, Xw) :: hist))
  else match hist with
       | (w1, x1) :: (w0, x0) :: _ =>
           Ok (map (fun ab => Qred (2 * fst ab - snd ab)) (combine w1 w0),
               map (fun ab => Qred (2 * fst ab - snd ab)) (combine x1 x0), true, (O, hist))
       | _ => Ok (w, Xw, false, (O, hist))
       end.

Definition ext_eqq (a : Ext Q) (b : xq) : bool :=
  match a, b with Fin x, XQ y => qclose x y | PInf, XInf => true | _, _ => false end.

(* ---------------- GramCD: real _solve + real compiled _gram_cd_epoch + real compiled penalty ---------------- *)
Definition gram_case (X : list (list Q)) (y : list Q) (max_iter : nat) (tol : Q) (use_acc greedy : bool)
    (score : list Q -> list Q -> list Z -> res (list (Ext Q))) (prox : Q -> Q -> Z -> res Q)
    (value : list Q -> res (Ext Q)) (w_init : option (list Q)) : res (@gout Q (@gstate Q accst)) :=
  bind (gram_setup X y) (fun D =>
  gsolve {| gc_max_iter := max_iter; gc_tol := tol; gc_use_acc := use_acc |}
         {| gk_score := fun w g => score w g (zrange 0 (zlen w));
            gk_epoch := fun w g => _gram_cd_epoch score prox (gd_Q D) w g greedy;
            gk_pen_value := value; gk_acc_init := (O, []); gk_acc_step := acc2_step 2 |} D w_init).

Record obs_run := { or_err : bool; or_w : list Q; or_obj : list xq; or_stop : xq }.

Definition chk_gram (r : res (@gout Q (@gstate Q accst))) (o : obs_run) : bool :=
  match r with
  | Err _ => or_err o
  | Ok g => negb (or_err o) && all2 qclose (gs_w (g_s g)) (or_w o) && all2 ext_eqq (g_obj g) (or_obj o)
            && ext_eqq (g_stop g) (or_stop o)
  end.

Definition fin_value (f : list Q -> res Q) (w : list Q) : res (Ext Q) := bind (f w) (fun v => Ok (Fin v)).

(* ---------------- GroupBCD: real _solve against the dyadic mock kernels of Skel/MockACD.v ---------------- *)
Require Import SK.Skel.MockACD SK.Skel.GroupBCD.
(* the mock penalty's generalized_support looks at the coefficients only (as the real group penalties do), also when
   it is handed the full vector with the intercept entry *)
Definition mock_kernels_g (m : mock) (p : nat) : @kernels Q MockACD.accst :=
  let K := mock_kernels m in
  {| k_lipschitz := k_lipschitz K; k_is_penalized := k_is_penalized K; k_full_grad := k_full_grad K;
     k_subdiff := k_subdiff K; k_fixpoint := k_fixpoint K; k_intercept_step := k_intercept_step K;
     k_gsupp := fun w => k_gsupp K (firstn p w); k_topk := k_topk K; k_epoch := k_epoch K; k_grad_ws := k_grad_ws K;
     k_df_value := fun w Xw => k_df_value K (firstn p w) Xw; k_pen_value := k_pen_value K;
     k_acc_init := k_acc_init K; k_acc_step := k_acc_step K |}.

Definition chk_bcd (has_buf : bool) (r : res (@gout Q (@bstate Q MockACD.accst))) (o : observed) : bool :=
  match r with
  | Err _ => ob_err o
  | Ok g =>
      negb (ob_err o) && all2 qclose (b_w (g_s g)) (ob_w o) && (negb has_buf || all2 qclose (b_Xw (g_s g)) (ob_Xw o))
      && all2 ext_eqq (g_obj g) (ob_obj o) && ext_eqq (g_stop g) (ob_stop o)
      && (g_iters g =? ob_iters o)%nat && (b_epochs (g_s g) =? ob_epochs o)%nat
  end.
