(* Model of AndersonCD.path / warm-started sequences of solves (skglm/solvers/anderson_cd.py: path):
   for each alpha of the grid (any order, any length) the penalty's alpha is set, the start is the previous
   solution and the caller's Xw buffer is the one the previous solve left (in-place).
   Theorem: any predicate preserved by a single solve (e.g. consistency Xw = X w + b) holds at the start and
   at the end of EVERY solve of the history, by induction over the grid. *)
From Coq Require Import ZArith List Bool Lia.
Require Import SK.Base.Res SK.Base.Num SK.Skel.AndersonCD.
Import ListNotations.

Section Path.
Context {F : Type} `{Num F} {A : Type}.
Variable cfg_of : Z -> @config F.                (* p0 is updated along the path: max(support size, p0) *)
Variable K_of : F -> @kernels F A.               (* kernels with penalty.alpha := alpha *)
Variable supp_size : list F -> Z.

(* one step: solve at alpha from (w, Xw); returns the outputs and the next start *)
Definition path_step (p0 : Z) (alpha : F) (w Xw : list F) : res (@out F) :=
  solve (cfg_of p0) (K_of alpha) (Some w) (Some Xw).

Fixpoint path_loop (p0 : Z) (alphas : list F) (w Xw : list F) (acc : list (@out F)) : res (list (@out F)) :=
  match alphas with
  | [] => Ok (rev acc)
  | alpha :: rest =>
      bind (path_step p0 alpha w Xw) (fun o =>
      (* coefs[:, t] = sol[0];  next: w = coefs[:, t].copy(), Xw = the buffer left by this solve *)
      path_loop (Z.max (supp_size (o_w o)) p0) rest (o_w o) (o_Xw o) (o :: acc))
  end.

Variable I : list F -> list F -> Prop.
Hypothesis solve_preserves_I : forall p0 alpha w Xw o, I w Xw -> path_step p0 alpha w Xw = Ok o -> I (o_w o) (o_Xw o).

Theorem path_history_invariant p0 alphas w Xw acc outs :
  I w Xw -> Forall (fun o => I (o_w o) (o_Xw o)) acc ->
  path_loop p0 alphas w Xw acc = Ok outs -> Forall (fun o => I (o_w o) (o_Xw o)) outs.
Proof.
  revert p0 w Xw acc. induction alphas as [|a rest IH]; intros p0 w Xw acc HI Hacc Hrun; simpl in Hrun.
  - inversion Hrun; subst. apply Forall_rev. assumption.
  - apply bind_ok in Hrun as (o & Ho & Hrun).
    assert (HIo : I (o_w o) (o_Xw o)) by (eapply solve_preserves_I; eauto).
    eapply IH; [exact HIo| |exact Hrun]. constructor; assumption.
Qed.

(* each solve of the history is called with the alpha of its position in the grid *)
Fixpoint path_alphas (p0 : Z) (alphas : list F) (w Xw : list F) : res (list F) :=
  match alphas with
  | [] => Ok []
  | alpha :: rest => bind (path_step p0 alpha w Xw) (fun o =>
                     bind (path_alphas (Z.max (supp_size (o_w o)) p0) rest (o_w o) (o_Xw o)) (fun l => Ok (alpha :: l)))
  end.
Theorem path_sets_alpha p0 alphas w Xw l : path_alphas p0 alphas w Xw = Ok l -> l = alphas.
Proof.
  revert p0 w Xw l. induction alphas as [|a rest IH]; intros p0 w Xw l Hrun; simpl in Hrun.
  - inversion Hrun; reflexivity.
  - apply bind_ok in Hrun as (o & Ho & Hrun). apply bind_ok in Hrun as (l' & Hl & Hrun). inversion Hrun; subst.
    f_equal. eapply IH; eauto.
Qed.
End Path.
