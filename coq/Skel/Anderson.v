(* Layer S: hand-written model of skglm/utils/anderson.py: AndersonAcceleration.extrapolate.
   The object stores the pairs (w, Xw) it is handed for K + 1 consecutive calls; on the next call it DISCARDS the pair it
   is handed and returns the combination  sum_k C_k (w_k, Xw_k)  of the last K stored pairs, where C = z / sum(z) and z
   solves (U^T U) z = 1 for the differences U of consecutive stored w's; a singular system (LinAlgError) returns the pair
   unchanged; in both cases the counter is reset.  `np.linalg.solve` is abstract (`solve_z`).
   Tie: executed correspondence with the real class (np.linalg.solve replaced by the same dyadic rule on both sides). *)
From Coq Require Import ZArith QArith List Bool Lia.
Require Import SK.Base.Res SK.Base.Num.
Import ListNotations.

Section Anderson.
Context {F : Type} `{Num F}.
Variable K : nat.
(* (U as the list of the K difference vectors w_{k+1} - w_k)  ->  z, or None for LinAlgError *)
Variable solve_z : list (list F) -> option (list F).

(* stored pairs of the current cycle, OLDEST FIRST (column 0 first) *)
Definition aa_state := list (list F * list F).
Definition aa_init : aa_state := [].

Fixpoint diffs (ws : list (list F)) : list (list F) :=
  match ws with
  | a :: ((b :: _) as t) => vmap2 fsub b a :: diffs t
  | _ => []
  end.

(* sum_k C_k v_k, accumulated from the zero vector of length n *)
Fixpoint comb (n : nat) (C : list F) (vs : list (list F)) : list F :=
  match C, vs with
  | c :: C', v :: vs' => vmap2 fadd (vmap (fmul c) v) (comb n C' vs')
  | _, _ => repeat (fofZ 0) n
  end.

Definition aa_step (st : aa_state) (w Xw : list F) : res (list F * list F * bool * aa_state) :=
  if (length st <=? K)%nat then Ok (w, Xw, false, st ++ [(w, Xw)])
  else
    match solve_z (diffs (map fst st)) with
    | None => Ok (w, Xw, false, aa_init)
    | Some z =>
        let s := vsum z in
        bind (mapM (fun zk => fdiv zk s) z) (fun C =>
        let tl_ := tl st in
        Ok (comb (length w) C (map fst tl_), comb (length Xw) C (map snd tl_), true, aa_init))
    end.
End Anderson.
