(* Mock kernels for the trace correspondence of Skel/AndersonCD.v: simple dyadic functions implemented
   identically in tools/harness_acd.py, through which the REAL AndersonCD._solve is run. *)
From Coq Require Import ZArith QArith Qabs List Bool.
Require Import SK.Base.Res SK.Base.Num SK.Base.QInst SK.Skel.AndersonCD.
Import ListNotations.
Local Open Scope Q_scope.

Record mock := {
  m_T : list Q;        (* target per feature *)
  m_a : list Q;        (* curvature per feature *)
  m_lip : list Q;
  m_pen : list bool;   (* is_penalized *)
  m_alpha : Q; m_B : Q; m_positive : bool; m_thr : Q;
  m_accK : nat }.      (* mock accelerator period *)

Definition nthQ (l : list Q) (j : Z) : Q := nth (Z.to_nat j) l 0.
Definition half (x : Q) : Q := Qred (x / 2).

Section M.
Variable m : mock.

(* the mock world is the design X = identity (n_samples = n_features): Xw_j = w_j + intercept, and every
   datafit quantity is a function of Xw only, as in the real code *)
(* feature j is carried by sample j mod n_samples (n_samples may differ from n_features) *)
Definition smp (Xw : list Q) (j : Z) : Z := (j mod (zlen Xw))%Z.
Definition g_at (Xw : list Q) (j : Z) : Q := Qred ((nthQ Xw (smp Xw j) - nthQ (m_T m) j) * nthQ (m_a m) j).
Definition mk_full_grad (w Xw : list Q) : res (list Q) := Ok (map (g_at Xw) (zrange 0 (zlen w))).
Definition mk_grad_ws (w Xw : list Q) (ws : list Z) : res (list Q) := Ok (map (g_at Xw) ws).

Fixpoint zipi {A} (i : Z) (l : list A) : list (Z * A) := match l with [] => [] | x :: t => (i, x) :: zipi (i + 1) t end.

Definition mk_subdiff (w grad : list Q) (ws : list Z) : res (list (Ext Q)) :=
  Ok (map (fun ij => let '(idx, j) := ij in
                     let wj := nthQ w j in let g := nthQ grad idx in
                     if m_positive m && Qltb wj 0 then PInf
                     else if Qeqb wj 0 then Fin (if Qltb (Qabs g) (m_alpha m) then 0 else Qred (Qabs g - m_alpha m))
                     else Fin (Qabs g)) (zipi 0 ws)).
Definition mk_fixpoint (w grad lip_ws : list Q) (ws : list Z) : res (list Q) :=
  Ok (map (fun ij => let '(idx, j) := ij in Qred (Qabs (nthQ grad idx) * nthQ lip_ws idx)) (zipi 0 ws)).
Definition mk_intercept_step (Xw : list Q) : res Q := Ok (half (nthQ Xw 0 - m_B m)).
Definition mk_gsupp (w : list Q) : res (list bool) := Ok (map (fun x => negb (Qeqb x 0)) w).

(* deterministic top-k: indices of the k largest scores, ties broken towards larger index, returned ascending *)
Definition ext_lt (a b : Ext Q * Z) : bool :=
  match fst a, fst b with
  | Fin x, Fin y => Qltb x y || (Qeqb x y && (snd a <? snd b)%Z)
  | Fin _, PInf => true
  | PInf, Fin _ => false
  | PInf, PInf => (snd a <? snd b)%Z
  end.
Fixpoint insert_desc (x : Ext Q * Z) (l : list (Ext Q * Z)) : list (Ext Q * Z) :=
  match l with [] => [x] | y :: t => if ext_lt y x then x :: l else y :: insert_desc x t end.
Fixpoint insert_asc (x : Z) (l : list Z) : list Z :=
  match l with [] => [x] | y :: t => if (x <? y)%Z then x :: l else y :: insert_asc x t end.
Definition mk_topk (opt : list (Ext Q)) (k : nat) : list Z :=
  let sorted := fold_right insert_desc [] (map (fun p => (snd p, fst p)) (zipi 0 opt)) in
  fold_right insert_asc [] (map snd (firstn k sorted)).

Fixpoint upd (w : list Q) (j : nat) (v : Q) : list Q :=
  match w, j with [], _ => [] | _ :: t, O => v :: t | h :: t, S j' => h :: upd t j' v end.
(* epoch: w_j moves half way to its target, thresholded; Xw[j] moves with it *)
Definition mk_epoch (w Xw lip : list Q) (ws : list Z) : res (list Q * list Q) :=
  Ok (fold_left (fun s j =>
        let '(w, Xw) := s in
        let old := nthQ w j in
        let v0 := half (old + nthQ (m_T m) j) in
        let v := if Qltb (Qabs v0) (m_thr m) then 0 else if m_positive m && Qltb v0 0 then 0 else v0 in
        (upd w (Z.to_nat j) v, upd Xw (Z.to_nat (smp Xw j)) (Qred (nthQ Xw (smp Xw j) + (v - old))))) ws (w, Xw)).

Definition mk_df_value (w Xw : list Q) : res Q :=
  Ok (Qred (fold_left Qplus (map (fun j => (nthQ Xw (smp Xw j) - nthQ (m_T m) j) * (nthQ Xw (smp Xw j) - nthQ (m_T m) j) * nthQ (m_a m) j / 2)
                               (zrange 0 (zlen w))) 0)).
Definition mk_pen_value (w : list Q) : res (Ext Q) :=
  if m_positive m && existsb (fun x => Qltb x 0) w then Ok PInf
  else Ok (Fin (Qred (m_alpha m * fold_left Qplus (map Qabs w) 0))).

(* mock accelerator: stores up to K+1 pairs, then returns 2*last - previous and resets *)
Definition accst := (nat * list (list Q * list Q))%type.
Definition mk_acc_step (a : accst) (w Xw : list Q) : res (list Q * list Q * bool * accst) :=
  let '(cnt, hist) := a in
  if (cnt <=? m_accK m)%nat then Ok (w, Xw, false, (S cnt, (w, Xw) :: hist))
  else match hist with
       | (w1, x1) :: (w0, x0) :: _ =>
           Ok (map (fun ab => Qred (2 * fst ab - snd ab)) (combine w1 w0),
               map (fun ab => Qred (2 * fst ab - snd ab)) (combine x1 x0), true, (O, hist))
       | _ => Ok (w, Xw, false, (O, hist))
       end.

Definition mock_kernels : @kernels Q accst := {|
  k_lipschitz := Ok (m_lip m);
  k_is_penalized := m_pen m;
  k_full_grad := mk_full_grad;
  k_subdiff := mk_subdiff;
  k_fixpoint := mk_fixpoint;
  k_intercept_step := mk_intercept_step;
  k_gsupp := mk_gsupp;
  k_topk := mk_topk;
  k_epoch := mk_epoch;
  k_grad_ws := mk_grad_ws;
  k_df_value := mk_df_value;
  k_pen_value := mk_pen_value;
  k_acc_init := (O, []);
  k_acc_step := mk_acc_step |}.
End M.

(* comparison with the observed run *)
Require Import SK.Base.Corr.
Record observed := {
  ob_err : bool;
  ob_w : list Q; ob_Xw : list Q; ob_obj : list xq; ob_stop : xq;
  ob_iters : nat; ob_epochs : nat; ob_accepts : nat }.

Definition ext_eq (a : Ext Q) (b : xq) : bool :=
  match a, b with Fin x, XQ y => qclose x y | PInf, XInf => true | _, _ => false end.

Definition chk_run (r : res (@out Q)) (o : observed) : bool :=
  match r with
  | Err _ => ob_err o
  | Ok r =>
      negb (ob_err o) && all2 qclose (o_w r) (ob_w o) && all2 qclose (o_Xw r) (ob_Xw o)
      && all2 ext_eq (o_obj r) (ob_obj o) && ext_eq (o_stop r) (ob_stop o)
      && (o_iters r =? ob_iters o)%nat && (o_epochs r =? ob_epochs o)%nat && (o_accepts r =? ob_accepts o)%nat
  end.

Definition chk_common (r : @out Q) (o : observed) : bool :=
  negb (ob_err o) && all2 qclose (o_w r) (ob_w o)
  && all2 ext_eq (o_obj r) (ob_obj o) && ext_eq (o_stop r) (ob_stop o)
  && (o_iters r =? ob_iters o)%nat && (o_epochs r =? ob_epochs o)%nat.
(* with the caller's Xw buffer observable (Xw_init given) / not observable *)
Definition chk_run_buf (r : res (@out Q)) (o : observed) : bool :=
  match r with Err _ => ob_err o | Ok r => chk_common r o && all2 qclose (o_Xw r) (ob_Xw o) end.
Definition chk_run_nobuf (r : res (@out Q)) (o : observed) : bool :=
  match r with Err _ => ob_err o | Ok r => chk_common r o end.

(* ---- path(): the mock with penalty.alpha := alpha at each step ---- *)
Require Import SK.Skel.Path.
Definition with_alpha (m : mock) (a : Q) : mock :=
  {| m_T := m_T m; m_a := m_a m; m_lip := m_lip m; m_pen := m_pen m; m_alpha := a; m_B := m_B m;
     m_positive := m_positive m; m_thr := m_thr m; m_accK := m_accK m |}.
Definition mock_path (cfg : @config Q) (m : mock) (alphas : list Q) (w0 Xw0 : list Q) : res (list (@out Q)) :=
  path_loop (fun _ => cfg) (fun a => mock_kernels (with_alpha m a)) (fun _ => 0%Z) 0%Z alphas w0 Xw0 [].
Definition chk_path (r : res (list (@out Q))) (e : option (list (list Q * xq))) : bool :=
  match r, e with
  | Ok outs, Some obs => all2 (fun o ob => all2 qclose (o_w o) (fst ob) && ext_eq (o_stop o) (snd ob)) outs obs
  | Err _, None => true
  | _, _ => false
  end.
