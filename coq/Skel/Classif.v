(* Hand-written model of the classifier glue of skglm/estimators.py (SparseLogisticRegression.predict_proba,
   LinearClassifierMixin.predict): tied to the source by executed correspondence on decision values. *)
From Coq Require Import ZArith List Bool.
Require Import SK.Base.Res SK.Base.Num.
Import ListNotations.

Section Model.
Context {F : Type} `{Num F}.

(* binary: softmax([-d, d]) *)
Definition proba_bin (d : F) : res (F * F) :=
  let a := fexp (fopp d) in let b := fexp d in
  bind (fdiv a (fadd a b)) (fun p0 => bind (fdiv b (fadd a b)) (fun p1 => Ok (p0, p1))).

(* multiclass: expit of every decision value, normalised over the classes *)
Definition expit (d : F) : res F := fdiv (fofZ 1) (fadd (fofZ 1) (fexp (fopp d))).
Definition proba_ovr (ds : list F) : res (list F) :=
  bind (mapM expit ds) (fun ps => let s := vsum ps in mapM (fun p => fdiv p s) ps).

(* predict: binary threshold at 0 / multiclass arg-max (first maximal index) *)
Definition predict_bin (d : F) : Z := if fltb (fofZ 0) d then 1%Z else 0%Z.
Fixpoint argmax_from (best : F) (bi i : Z) (l : list F) : Z :=
  match l with
  | [] => bi
  | x :: t => if fltb best x then argmax_from x i (i + 1)%Z t else argmax_from best bi (i + 1)%Z t
  end.
Definition predict_multi (ds : list F) : res Z := match ds with [] => Err Dom | x :: t => Ok (argmax_from x 0%Z 1%Z t) end.
End Model.
