(* Non-vacuity of the closed solver theorems of Skel/ProxNewtonGen.v and Skel/GroupBCDGen.v:
   (1) their hypotheses on the data are satisfiable (a concrete design, a consistent start, a working-set selection returning
       distinct non-negative indices);
   (2) the run premise `pn_solve ... = Ok out` is met by a NON-TRIVIAL run of the very same kernel record: evaluated on the
       computable instance QNum (the theorems are stated over R, where nothing computes), a regenerated-kernel ProxNewton run
       with at least two outer iterations returns Ok with a non-zero coefficient. *)
From Coq Require Import Reals Lra Lia ZArith QArith List Bool.
Require Import SK.Base.Res SK.Base.Num SK.Base.RInst SK.Base.QInst SK.Lemmas.VecFacts SK.Lemmas.Consistency.
Require Import SK.Skel.AndersonCD SK.Skel.Generic SK.Skel.ProxNewton SK.Skel.ProxNewtonKernels SK.Skel.MockACD.
Require Import SK.Gen.ProxFuncs SK.Gen.PenSeparable SK.Gen.DfSingle.
Import ListNotations.

(* (1) hypotheses over R *)
Section OverR.
Local Open Scope R_scope.
Definition Xex : list (list R) := [[1; 0]; [0; 1]].
Example wf_X_example : wf_X 2 Xex.
Proof. unfold wf_X, Xex. repeat constructor. Qed.
Example mrows_example : @mrows R Xex = Z.of_nat 2.
Proof. reflexivity. Qed.
Example cons_example : Cons 2 Xex [1; 2] [0; 0] [1; 2].
Proof.
  split; [reflexivity|]. intros i Hi. destruct i as [|[|i]]; [| |lia]; unfold lin_at, Xex; simpl; unfold rsum; simpl; lra.
Qed.
End OverR.

Lemma zrange_from_nodup_nonneg n : forall lo, (0 <= lo)%Z ->
  NoDup (zrange_from lo n) /\ Forall (fun j => (lo <= j)%Z) (zrange_from lo n).
Proof.
  induction n as [|n IH]; intros lo Hlo; simpl; [split; constructor|]. destruct (IH (lo + 1)%Z ltac:(lia)) as [H1 H2]. split.
  - constructor; [|exact H1]. intro Hin. rewrite Forall_forall in H2. specialize (H2 _ Hin). lia.
  - constructor; [lia|]. eapply Forall_impl; [|exact H2]. intros a Ha. simpl in Ha. lia.
Qed.
(* "the first k features" is a working-set selection of the kind the theorems ask for *)
Example topk_example : forall (opt : list (Ext R)) (k : nat),
  NoDup (zrange 0 (Z.of_nat k)) /\ Forall (fun j => (0 <= j)%Z) (zrange 0 (Z.of_nat k)).
Proof. intros opt k. unfold zrange. apply zrange_from_nodup_nonneg. lia. Qed.

(* (2) a non-trivial run of the same kernel record, on Q *)
Local Open Scope Q_scope.
Definition Xq : list (list Q) := [[1; 0; 0; 0]; [0; 1; 0; 0]].
Definition yq : list Q := [2; 1; 0; 0].
Definition Kq : @pn_kernels Q :=
  pn_gen_kernels (@Quadratic_raw_grad Q _) (@Quadratic_raw_hessian Q _) (fun w Xw => @Quadratic_value Q _ yq w Xw)
                 (@L1_prox_1d Q _ (1 # 8) false) (@L1_value Q _ (1 # 8) false) (@L1_subdiff_distance Q _ (1 # 8) false)
                 (@L1_generalized_support Q _) mk_topk Xq yq false false.
Definition cfgq : @pn_config Q :=
  {| pn_max_iter := 3; pn_max_pn_iter := 2; pn_p0 := 1; pn_tol := 1 # 1024; pn_fixpoint := false; pn_fit_intercept := false;
     pn_p := 2; pn_n := 4 |}.
Example prox_newton_over_regenerated_kernels_runs :
  match pn_solve cfgq Kq (Some [0; 0]) (Some [0; 0; 0; 0]) with
  | Ok out => (2 <=? g_iters out)%nat && negb (Qeqb (nth 0 (pn_w (g_s out)) 0) 0) && negb (Qeqb (nth 1 (pn_w (g_s out)) 0) 0)
  | Err _ => false
  end = true.
Proof. vm_compute. reflexivity. Qed.
