(* C04 at solver level: with the generated _cd_epoch as epoch kernel, a prox whose outputs are feasible and
   a penalty value that is +inf on infeasible points, every point returned by the AndersonCD skeleton is
   feasible -- whatever the budget, the tolerance, the working sets and the (feasible) start. *)
From Coq Require Import Reals Lra Lia ZArith QArith List Bool.
Require Import SK.Base.Res SK.Base.Num SK.Base.RInst SK.Lemmas.Loops SK.Lemmas.Consistency SK.Lemmas.Feasible.
Require Import SK.Gen.KernACD SK.Skel.AndersonCD SK.Skel.AndersonCDProofs SK.Skel.AndersonCDCons.
Import ListNotations.
Local Open Scope R_scope.

Section Feas.
Context {A : Type}.
Variables (cfg : @config R) (K : @kernels R A).
Variables (X : list (list R)) (y : list R).
Variable prox_1d : R -> R -> Z -> res R.
Variable gradient_scalar : list (list R) -> list R -> list R -> list R -> Z -> res R.
Variable P : R -> Prop.
Notation p := (n_features cfg).

Hypothesis prox_feasible : forall x s j v, prox_1d x s j = Ok v -> P v.
Hypothesis Hepoch : forall w Xw lip ws, k_epoch K w Xw lip ws = @_cd_epoch R _ prox_1d gradient_scalar X y w Xw lip ws.
Hypothesis Hws : forall w Xw lip ws w' Xw', k_epoch K w Xw lip ws = Ok (w', Xw') -> Forall (fun j => (0 <= j)%Z) ws.
Hypothesis Hlen_epoch : forall w Xw lip ws w' Xw', k_epoch K w Xw lip ws = Ok (w', Xw') -> length w' = length w.
(* the penalty value encodes the constraint *)
Hypothesis Hpen : forall w v, k_pen_value K w = Ok (Fin v) -> Forall P w.

Definition feasI (w Xw : list R) : Prop :=
  length w = (p + (if fit_intercept cfg then 1 else 0))%nat /\ Forall P (firstn p w).

Lemma feasI_epoch w Xw lip ws w' Xw' :
  feasI w Xw -> k_epoch K (wp cfg w) Xw lip ws = Ok (w', Xw') -> feasI (with_wp cfg w w') Xw'.
Proof.
  intros [Hl HF] He. pose proof (Hws _ _ _ _ _ _ He) as Hnn. pose proof (Hlen_epoch _ _ _ _ _ _ He) as Hl'.
  rewrite Hepoch in He. unfold wp in *.
  assert (Hfl : length (firstn p w) = p) by (rewrite firstn_length; lia).
  split.
  - unfold with_wp. rewrite app_length, skipn_length. lia.
  - assert (Hfw : firstn p (with_wp cfg w w') = w').
    { unfold with_wp. rewrite firstn_app. replace (p - length w')%nat with O by lia. rewrite firstn_all2 by lia. simpl. apply app_nil_r. }
    rewrite Hfw.
    eapply cd_epoch_preserves_feasible; eauto.
Qed.

Lemma feasI_intercept w Xw w' Xw' : feasI w Xw -> intercept_update cfg K w Xw = Ok (w', Xw') -> feasI w' Xw'.
Proof.
  intros [Hl HF] Hi. unfold intercept_update in Hi. unfold feasI in *.
  destruct (fit_intercept cfg) eqn:Hfi; [|inversion Hi; subst; split; assumption].
  apply bind_ok in Hi as (old & Hold & Hi). apply bind_ok in Hi as (st & Hst & Hi).
  apply bind_ok in Hi as (w1 & Hset & Hi). inversion Hi; subst w' Xw'. clear Hi.
  assert (Hlw : length w = (p + 1)%nat) by lia.
  destruct (split_last w p 0 Hlw) as (b & Hw & _).
  assert (Hfl : length (firstn p w) = p) by (rewrite firstn_length; lia).
  assert (Hw1 : w1 = firstn p w ++ [fsub old st]).
  { unfold set_idx, norm_idx in Hset. simpl in Hset.
    assert (Hk : (Z.of_nat (length w) + -1 = Z.of_nat p)%Z) by lia. rewrite Hk in Hset.
    replace ((0 <=? Z.of_nat p)%Z && (Z.of_nat p <? Z.of_nat (length w))%Z) with true in Hset
      by (symmetry; apply andb_true_iff; split; [apply Z.leb_le|apply Z.ltb_lt]; lia).
    rewrite Nat2Z.id in Hset. inversion Hset. rewrite Hw at 1.
    rewrite <- Hfl at 2. apply set_nth_app_last. }
  subst w1. split; [rewrite app_length, Hfl; simpl; lia|].
  rewrite firstn_app, Hfl, Nat.sub_diag, firstn_all2 by lia. simpl. rewrite app_nil_r. assumption.
Qed.

Lemma feasI_accept w Xw w_acc Xw_acc p_obj p_obj_acc :
  feasI w Xw -> objective cfg K w Xw = Ok p_obj -> objective cfg K w_acc Xw_acc = Ok p_obj_acc ->
  elt p_obj_acc p_obj = true -> length w_acc = length w -> feasI w_acc Xw_acc.
Proof.
  intros [Hl HF] _ Hoa Hlt Hla. split; [lia|].
  unfold objective in Hoa. apply bind_ok in Hoa as (d & Hd & Hoa). apply bind_ok in Hoa as (pv & Hpv & Hoa).
  inversion Hoa; subst p_obj_acc. destruct pv as [v|]; [|simpl in Hlt; discriminate].
  eapply Hpen. exact Hpv.
Qed.
End Feas.

Theorem andersoncd_returns_feasible {A} (cfg : @config R) (K : @kernels R A) X y prox_1d gradient_scalar (P : R -> Prop) :
  (forall x s j v, prox_1d x s j = Ok v -> P v) ->
  (forall w Xw lip ws, k_epoch K w Xw lip ws = @_cd_epoch R _ prox_1d gradient_scalar X y w Xw lip ws) ->
  (forall w Xw lip ws w' Xw', k_epoch K w Xw lip ws = Ok (w', Xw') -> Forall (fun j => (0 <= j)%Z) ws) ->
  (forall w Xw lip ws w' Xw', k_epoch K w Xw lip ws = Ok (w', Xw') -> length w' = length w) ->
  (forall w v, k_pen_value K w = Ok (Fin v) -> Forall P w) ->
  forall w0 Xw0 out, feasI cfg P w0 Xw0 -> solve cfg K (Some w0) (Some Xw0) = Ok out ->
  feasI cfg P (o_w out) (o_Xw out).
Proof.
  intros Hp He Hw Hl Hpen w0 Xw0 out H0 Hrun.
  eapply (solve_preserves cfg K (feasI cfg P)); eauto.
  - intros; eapply feasI_epoch; eauto.
  - intros; eapply feasI_intercept; eauto.
  - intros; eapply feasI_accept; eauto.
Qed.
