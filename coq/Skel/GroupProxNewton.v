(* Layer S: hand-written model of GroupProxNewton._solve (skglm/solvers/group_prox_newton.py), instance of the generic outer
   loop over the kernel record of Skel/ProxNewton.v (mock world: singleton groups).  Differences from ProxNewton that are
   mirrored: no length check on w_init; every score with the FULL w; subdiff strategy only; the inner stopping value also
   contains the intercept term |sum(raw_grad)|; grad_ws = _slice_array(grad, ws, ...) ; the direction returns no constants.
   Tie: mock-kernel trace correspondence with the real _solve. *)
From Coq Require Import ZArith QArith List Bool Lia.
Require Import SK.Base.Res SK.Base.Num SK.Skel.AndersonCD SK.Skel.Generic SK.Skel.ProxNewton.
Import ListNotations.

Section Skel.
Context {F : Type} `{Num F}.
Section Run.
Context (cfg : @pn_config F) (K : @pn_kernels F).
Let p := pn_p cfg.

Definition gpn_objective (s : @pn_state F) : res (Ext F) :=
  bind (pk_df_value K (pn_w s) (pn_Xw s)) (fun d => bind (pk_pen_value K (pwp cfg (pn_w s))) (fun pv => Ok (eadd (Fin d) pv))).

Definition gpn_iopt (Xw : list F) : res F :=
  if pn_fit_intercept cfg then bind (pk_sum_raw_grad K Xw) (fun g => Ok (fabs g)) else Ok (fofZ 0).

Definition gpn_crit (s : @pn_state F) : res ((list (Ext F) * list F) * Ext F) :=
  let w := pn_w s in let Xw := pn_Xw s in
  bind (pk_grad K w Xw (pn_all cfg)) (fun grad =>
  bind (pk_subdiff K w grad (pn_all cfg)) (fun opt =>
  bind (emax_list opt) (fun m =>
  bind (gpn_iopt Xw) (fun iopt => Ok ((opt, grad), emax m (Fin iopt)))))).

Fixpoint gpn_inner_loop (fuel : nat) (ws : list Z) (tol_in : Ext F) (w Xw grad_ws : list F) (n_in : nat)
  : res (list F * list F * nat) :=
  match fuel with
  | O => Ok (w, Xw, n_in)
  | S fuel' =>
      bind (pk_direction K w Xw grad_ws ws (escale (eps_tol) tol_in)) (fun r =>
      let '(delta, Xdelta, _) := r in
      bind (pk_linesearch K w Xw delta Xdelta ws) (fun r2 =>
      let '(w, Xw, grad_ws) := r2 in
      bind (pk_subdiff K w grad_ws ws) (fun opt_in =>
      bind (emax_list opt_in) (fun m =>
      bind (gpn_iopt Xw) (fun iopt =>
      let stop_in := emax m (Fin iopt) in
      if negb (elt tol_in stop_in) then Ok (w, Xw, S n_in)
      else gpn_inner_loop fuel' ws tol_in w Xw grad_ws (S n_in))))))
  end.

Definition gpn_body (s : @pn_state F) (c : list (Ext F) * list F) (stop_crit : Ext F) : res (@pn_state F) :=
  let '(opt, grad) := c in
  bind (pk_gsupp K (pn_w s)) (fun gs =>
  let pz := Z.of_nat p in
  let ws_size := Z.max (Z.min (pn_p0 cfg) pz) (Z.min pz (2 * count_true gs)) in
  let ws := pk_topk K opt (Z.to_nat ws_size) in
  bind (gather grad ws) (fun grad_ws =>
  let tol_in := escale eps_tol stop_crit in
  bind (gpn_inner_loop (pn_max_pn_iter cfg) ws tol_in (pn_w s) (pn_Xw s) grad_ws (pn_inner s)) (fun r =>
  let '(w, Xw, n_in) := r in Ok {| pn_w := w; pn_Xw := Xw; pn_inner := n_in |}))).

Definition gpn_solve (w_init Xw_init : option (list F)) : res (@gout F (@pn_state F)) :=
  let fi := if pn_fit_intercept cfg then 1%Z else 0%Z in
  let w0 := match w_init with Some w => w | None => vzeros (Z.of_nat p + fi) end in
  let Xw0 := match Xw_init with Some x => x | None => vzeros (Z.of_nat (pn_n cfg)) end in
  grun (pn_tol cfg) gpn_crit gpn_body gpn_objective (pn_max_iter cfg) {| pn_w := w0; pn_Xw := Xw0; pn_inner := 0 |}.
End Run.

Theorem gpn_solve_stop_is_criterion (cfg : @pn_config F) (K : @pn_kernels F) w_init Xw_init out :
  gpn_solve cfg K w_init Xw_init = Ok out -> ele (g_stop out) (pn_tol cfg) = true ->
  exists c, gpn_crit cfg K (g_s out) = Ok (c, g_stop out).
Proof. unfold gpn_solve. intros Hrun Hle. exact (grun_stop_is_criterion _ _ _ _ _ _ _ Hrun Hle). Qed.

Theorem gpn_solve_history (cfg : @pn_config F) (K : @pn_kernels F) w_init Xw_init out :
  gpn_solve cfg K w_init Xw_init = Ok out ->
  length (g_obj out) = g_iters out /\ (g_iters out <= pn_max_iter cfg)%nat /\
  (g_obj out = [] \/ gpn_objective cfg K (g_s out) = Ok (last (g_obj out) PInf)).
Proof. unfold gpn_solve. intros Hrun. exact (grun_history _ _ _ _ _ _ _ Hrun). Qed.
End Skel.
