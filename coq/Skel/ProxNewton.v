(* Layer S: hand-written model of ProxNewton._solve (skglm/solvers/prox_newton.py) as an instance of the generic outer
   loop.  Mirrored decisions: Xw = zeros / Xw_init independently of w_init; full gradient and score on w[:n_features];
   fix-point Lipschitz constants recomputed from raw_hessian(Xw) at every outer iteration; intercept term
   |sum(raw_grad)|; ws_size = max(min(p0, p), min(p, 2 * gsupp_size)) (no forced inclusion of the support);
   grad_ws = grad[ws]; tol_in = 0.3 * stop_crit and the direction solver gets 0.3 * tol_in; inner prox-Newton loop:
   direction, in-place line search returning the new grad_ws, inner score with the FULL w, break on
   stop_crit_in <= tol_in; objective appended after the inner loop.
   Tie: mock-kernel trace correspondence with the real _solve (tools/harness_solvers.py). *)
From Coq Require Import ZArith QArith List Bool Lia.
Require Import SK.Base.Res SK.Base.Num SK.Skel.AndersonCD SK.Skel.Generic.
Import ListNotations.

Section Skel.
Context {F : Type} `{Num F}.

Record pn_config := {
  pn_max_iter : nat; pn_max_pn_iter : nat; pn_p0 : Z; pn_tol : F; pn_fixpoint : bool; pn_fit_intercept : bool;
  pn_p : nat; pn_n : nat }.

Record pn_kernels := {
  pk_grad : list F -> list F -> list Z -> res (list F);            (* _construct_grad(X, y, w[:p], Xw, datafit, ws) *)
  pk_subdiff : list F -> list F -> list Z -> res (list (Ext F));
  pk_fixpoint : list F -> list F -> list F -> list Z -> res (list F);
  pk_lip_all : list F -> res (list F);                              (* datafit.raw_hessian(y, Xw) @ X_square *)
  pk_sum_raw_grad : list F -> res F;                                (* np.sum(datafit.raw_grad(y, Xw)) *)
  pk_gsupp : list F -> res (list bool);
  pk_topk : list (Ext F) -> nat -> list Z;
  (* (w FULL, Xw, grad_ws, ws, tol) -> (delta_w_ws, X_delta_w_ws, lipschitz_ws) *)
  pk_direction : list F -> list F -> list F -> list Z -> Ext F -> res (list F * list F * list F);
  (* (w FULL, Xw, delta_w_ws, X_delta_w_ws, ws) -> (w', Xw', grad_ws): the in-place update and the returned gradient *)
  pk_linesearch : list F -> list F -> list F -> list F -> list Z -> res (list F * list F * list F);
  pk_df_value : list F -> list F -> res F;
  pk_pen_value : list F -> res (Ext F) }.

Record pn_state := { pn_w : list F; pn_Xw : list F; pn_inner : nat }.

Section Run.
Context (cfg : pn_config) (K : pn_kernels).
Let p := pn_p cfg.
Definition pwp (w : list F) : list F := firstn p w.
Definition pn_all : list Z := zrange 0 (Z.of_nat p).
(* the literal 0.3: it only occurs in non-strict tests  score <= 0.3 * stop_crit.  Exact arithmetic takes the decision binary64
   takes, also at an exact tie (score = 3/10 * stop_crit with dyadic operands: the double product rounds to the score itself and
   the test succeeds), when 0.3 is read as a rational just above 3/10 *)
Definition eps_tol : F := fofQ ((3 # 10) + (1 # 1152921504606846976))%Q.

Definition pn_objective (s : pn_state) : res (Ext F) :=
  bind (pk_df_value K (pn_w s) (pn_Xw s)) (fun d => bind (pk_pen_value K (pwp (pn_w s))) (fun pv => Ok (eadd (Fin d) pv))).

Definition pn_crit (s : pn_state) : res ((list (Ext F) * list F) * Ext F) :=
  let w := pn_w s in let Xw := pn_Xw s in
  bind (pk_grad K (pwp w) Xw pn_all) (fun grad =>
  bind (if pn_fixpoint cfg then
          bind (pk_lip_all K Xw) (fun lip => bind (pk_fixpoint K (pwp w) grad lip pn_all) (fun d => Ok (map Fin d)))
        else pk_subdiff K (pwp w) grad pn_all) (fun opt =>
  bind (if pn_fit_intercept cfg then bind (pk_sum_raw_grad K Xw) (fun g => Ok (fabs g)) else Ok (fofZ 0)) (fun iopt =>
  bind (emax_list opt) (fun m => Ok ((opt, grad), emax m (Fin iopt)))))).

Fixpoint pn_inner_loop (fuel : nat) (ws : list Z) (tol_in : Ext F) (w Xw grad_ws : list F) (n_in : nat)
  : res (list F * list F * nat) :=
  match fuel with
  | O => Ok (w, Xw, n_in)
  | S fuel' =>
      bind (pk_direction K w Xw grad_ws ws (escale eps_tol tol_in)) (fun r =>
      let '(delta, Xdelta, lip_ws) := r in
      bind (pk_linesearch K w Xw delta Xdelta ws) (fun r2 =>
      let '(w, Xw, grad_ws) := r2 in
      bind (if pn_fixpoint cfg then bind (pk_fixpoint K w grad_ws lip_ws ws) (fun d => Ok (map Fin d))
            else pk_subdiff K w grad_ws ws) (fun opt_in =>
      bind (emax_list opt_in) (fun stop_in =>
      if negb (elt tol_in stop_in) then Ok (w, Xw, S n_in)                     (* stop_crit_in <= tol_in *)
      else pn_inner_loop fuel' ws tol_in w Xw grad_ws (S n_in)))))
  end.

Definition pn_body (s : pn_state) (c : list (Ext F) * list F) (stop_crit : Ext F) : res pn_state :=
  let '(opt, grad) := c in
  bind (pk_gsupp K (pwp (pn_w s))) (fun gs =>
  let pz := Z.of_nat p in
  let ws_size := Z.max (Z.min (pn_p0 cfg) pz) (Z.min pz (2 * count_true gs)) in
  let ws := pk_topk K opt (Z.to_nat ws_size) in
  bind (gather grad ws) (fun grad_ws =>
  let tol_in := escale eps_tol stop_crit in
  bind (pn_inner_loop (pn_max_pn_iter cfg) ws tol_in (pn_w s) (pn_Xw s) grad_ws (pn_inner s)) (fun r =>
  let '(w, Xw, n_in) := r in Ok {| pn_w := w; pn_Xw := Xw; pn_inner := n_in |}))).

Definition pn_solve (w_init Xw_init : option (list F)) : res (@gout F pn_state) :=
  let fi := if pn_fit_intercept cfg then 1%Z else 0%Z in
  let w0 := match w_init with Some w => w | None => vzeros (Z.of_nat p + fi) end in
  let Xw0 := match Xw_init with Some x => x | None => vzeros (Z.of_nat (pn_n cfg)) end in
  if negb (zlen w0 =? Z.of_nat p + fi)%Z then Err Shape
  else grun (pn_tol cfg) pn_crit pn_body pn_objective (pn_max_iter cfg) {| pn_w := w0; pn_Xw := Xw0; pn_inner := 0 |}.
End Run.
End Skel.
