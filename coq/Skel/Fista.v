(* Layer S: hand-written model of FISTA._solve (skglm/solvers/fista.py): second loop shape of Skel/Generic.v
   (update, criterion, append, strict test at the bottom).  Mirrored decisions: t sequence, gradient taken at the
   extrapolated point z, z -= step * grad with step = 1 / L, prox of z, momentum (t_old - 1) / t_new, the criterion is
   computed from the NEW w and the gradient at the PREVIOUS extrapolated point, one history entry per iteration
   (appended before the test), strict comparison stop_crit < tol, no initial value of stop_crit (max_iter = 0 is an
   UnboundLocalError).  Tie: end-to-end correspondence with the real _solve, real datafit / penalty objects. *)
From Coq Require Import ZArith QArith List Bool Lia.
Require Import SK.Base.Res SK.Base.Num SK.Skel.AndersonCD SK.Skel.Generic.
Import ListNotations.

Section Skel.
Context {F : Type} `{Num F}.

Record fkernels := {
  fk_grad : list F -> res (list F);                       (* gradient of the datafit at X @ z, all features *)
  fk_prox : list F -> list F -> F -> res (list F);        (* (w, z, step) -> prox_{step * penalty}(z) *)
  fk_score : list F -> list F -> res (list (Ext F));      (* penalty.subdiff_distance(w, grad, all_features) *)
  fk_objective : list F -> res (Ext F) }.                 (* datafit.value(y, w, X @ w) + penalty.value(w) *)

Record fstate := { f_w : list F; f_z : list F; f_t : F; f_grad : list F }.

Section Run.
Context (K : fkernels) (L : F).

Definition fstep (s : fstate) : res fstate :=
  let t_old := f_t s in
  bind (fsqrt (fadd (fofZ 1) (fmul (fofZ 4) (fmul t_old t_old)))) (fun r =>
  bind (fdiv (fadd (fofZ 1) r) (fofZ 2)) (fun t_new =>
  let w_old := f_w s in
  bind (fk_grad K (f_z s)) (fun grad =>
  bind (fdiv (fofZ 1) L) (fun step =>
  let z1 := vmap2 fsub (f_z s) (vmap (fmul step) grad) in
  bind (fk_prox K (f_w s) z1 step) (fun w =>
  bind (fdiv (fsub t_old (fofZ 1)) t_new) (fun mom =>
  let z2 := vmap2 fadd w (vmap (fmul mom) (vmap2 fsub w w_old)) in
  Ok {| f_w := w; f_z := z2; f_t := t_new; f_grad := grad |})))))).

Definition fcrit (s : fstate) : res (Ext F) :=
  bind (fk_score K (f_w s) (f_grad s)) (fun opt => emax_list opt).
Definition fobjective (s : fstate) : res (Ext F) := fk_objective K (f_w s).

Definition fsolve (max_iter : nat) (tol : F) (p : nat) (w_init : option (list F))
  : res (fstate * list (Ext F) * Ext F * nat) :=
  let w0 := match w_init with Some w => w | None => vzeros (Z.of_nat p) end in
  bind (bouter tol fstep fcrit fobjective max_iter {| f_w := w0; f_z := w0; f_t := fofZ 1; f_grad := [] |} [] None 0) (fun r =>
  let '(s, obj, stop, n) := r in
  match stop with
  | Some sc => Ok (s, obj, sc, n)
  | None => Err Dom                     (* stop_crit referenced before assignment *)
  end).
End Run.
End Skel.
