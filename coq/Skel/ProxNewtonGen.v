(* C05 for ProxNewton, closed over the REGENERATED kernels: the ProxNewton skeleton (Skel/ProxNewton.v, hand-written outer
   and inner loops) instantiated with the translated `_descent_direction` / `_backtrack_line_search` / `_construct_grad`
   (no intercept, both working-set strategies) returns a consistent pair Xw = X w + c from any consistent start, for ANY
   datafit (raw_grad / raw_hessian / value), any penalty (prox / value / subdiff / support) and any working-set selection
   that returns distinct non-negative indices.  No hypothesis on the kernels is left. *)
From Coq Require Import Reals Lra Lia ZArith List Bool.
Require Import SK.Base.Res SK.Base.Num SK.Base.RInst SK.Lemmas.Consistency SK.Lemmas.PnKernels SK.Lemmas.PnDirection.
Require Import SK.Skel.AndersonCD SK.Skel.Generic SK.Skel.ProxNewton SK.Skel.ProxNewtonProofs.
Require Import SK.Gen.KernCD SK.Gen.KernPN SK.Skel.ProxNewtonKernels.
Import ListNotations.
Local Open Scope R_scope.

Section Closed.
Variable raw_grad raw_hessian : list R -> list R -> res (list R).
Variable df_value : list R -> list R -> res R.
Variable prox_1d : R -> R -> Z -> res R.
Variable pen_value : list R -> res (Ext R).
Variable subdiff : list R -> list R -> list Z -> res (list (Ext R)).
Variable gsupp : list R -> res (list bool).
Variable topk : list (Ext R) -> nat -> list Z.
Variables (n : nat) (X : list (list R)) (c y : list R).
Variable fixp : bool.

Hypothesis HX : wf_X n X.
Hypothesis Hrows : mrows X = Z.of_nat n.
Hypothesis Htopk : forall opt k, NoDup (topk opt k) /\ Forall (fun j => (0 <= j)%Z) (topk opt k).

Theorem prox_newton_returns_consistent_fit (cfg : @pn_config R) w0 Xw0 out :
  length w0 = length X -> Cons n X w0 c Xw0 ->
  pn_solve cfg (pn_gen_kernels raw_grad raw_hessian df_value prox_1d pen_value subdiff gsupp topk X y false fixp) (Some w0) (Some Xw0) = Ok out ->
  Cons n X (pn_w (g_s out)) c (pn_Xw (g_s out)) /\ length (pn_w (g_s out)) = length X.
Proof.
  intros Hl HC Hrun.
  refine (pn_solve_preserves_iter cfg (pn_gen_kernels raw_grad raw_hessian df_value prox_1d pen_value subdiff gsupp topk X y false fixp) (fun w Xw => Cons n X w c Xw /\ length w = length X)
            (fun ws => NoDup ws /\ Forall (fun j => (0 <= j)%Z) ws) Htopk _ w0 Xw0 out (conj HC Hl) Hrun).
  intros w Xw g ws t delta Xdelta lipws w' Xw' g' [Hnd Hnn] [HCw Hlw] Hd Hls.
  cbn [pk_direction pk_linesearch pn_gen_kernels] in Hd, Hls.
  destruct (fin_tol t) as [tt|]; cbn [bind] in Hd; [|discriminate].
  destruct fixp.
  - destruct (pn_iteration_fixpoint_keeps_consistency raw_hessian raw_grad prox_1d (fun w => fin_val (pen_value w)) n X c y HX Hrows
                w Xw g ws tt delta Xdelta lipws w' Xw' g' Hlw Hnd Hnn HCw Hd Hls) as [H1 H2]. split; [exact H1|lia].
  - destruct (pn_iteration_subdiff_keeps_consistency raw_hessian raw_grad prox_1d (fun w => fin_val (pen_value w)) subdiff n X c y HX Hrows
                w Xw g ws tt delta Xdelta lipws w' Xw' g' Hlw Hnd Hnn HCw Hd Hls) as [H1 H2]. split; [exact H1|lia].
Qed.
End Closed.
