(* FISTA skeleton: one history entry per iteration (appended before the test), the last entry is the objective of the
   returned w, and the returned stop_crit is the score of the returned w against the gradient stored in the state --
   which is the gradient at the PREVIOUS extrapolated point z, not at w (known finding of C17, here as a theorem). *)
From Coq Require Import ZArith QArith List Bool Lia.
Require Import SK.Base.Res SK.Base.Num SK.Skel.AndersonCD SK.Skel.Generic SK.Skel.Fista.
Import ListNotations.

Section Any.
Context {F : Type} `{Num F}.
Variables (K : @fkernels F) (L : F).

Theorem fsolve_history max_iter tol p w_init s obj stop n :
  fsolve K L max_iter tol p w_init = Ok (s, obj, stop, n) ->
  length obj = n /\ (n <= max_iter)%nat /\ (0 < n)%nat /\
  fobjective K s = Ok (last obj PInf) /\ fcrit K s = Ok stop.
Proof.
  unfold fsolve. intros Hrun. apply bind_ok in Hrun as ([[[s1 obj1] stop1] n1] & Hb & Hrun).
  destruct stop1 as [sc|]; [|discriminate]. inversion Hrun; subst s1 obj1 sc n1. clear Hrun.
  destruct (bouter_history tol (fstep K L) (fcrit K) (fobjective K) _ _ _ _ _ _ _ _ _ Hb eq_refl (or_introl eq_refl) (or_introl eq_refl))
    as (H1 & H2 & H3 & H4).
  destruct H4 as [H4|(sc & Hsc & Hc)]; [discriminate|]. inversion Hsc; subst sc.
  assert (Hn : (0 < n)%nat).
  { destruct (bouter_progress tol (fstep K L) (fcrit K) (fobjective K) _ _ _ _ _ _ _ _ _ Hb) as [(_ & _ & Hst)|Hlt]; [discriminate|lia]. }
  repeat split; try assumption; try lia.
  destruct H3 as [H3|H3]; [|exact H3]. subst obj. simpl in H1. lia.
Qed.
End Any.
