(* GramCD, solver level (over R): the skeleton Skel/GramCD.v instantiated with the REGENERATED epoch kernel.
   For every penalty (score / prox / value functions), budget, tolerance, strategy and start:
     (1) invariant: grad = Q w - q, |w| = p and the cached `opt` is the score of the current (w, grad) -- at the
         start, after every epoch, and after an accepted extrapolation;
     (2) certificate: a returned stop_crit <= tol is the maximum over all features of the score of the RETURNED w
         against the TRUE gradient Q w - q of the (Gram form of the) quadratic datafit;
     (3) history: one entry per iteration, last entry = objective of the returned point;
     (4) descent: if an epoch does not increase the objective, no iteration does (an extrapolated point is accepted
         only when strictly better), the result is no worse than the start and is monotone in max_iter.
   The accelerator is abstract: any state machine that returns consistent pairs when fed consistent pairs
   (affine combinations with coefficients summing to one do: Lemmas/Affine.v). *)
From Coq Require Import Reals Lra Lia ZArith QArith List Bool.
Require Import SK.Base.Res SK.Base.Num SK.Base.RInst SK.Lemmas.VecFacts SK.Lemmas.Loops SK.Lemmas.Consistency.
Require Import SK.Lemmas.MatVec SK.Lemmas.GramEpoch SK.Gen.KernGram.
Require Import SK.Skel.AndersonCD SK.Skel.AndersonCDDescent SK.Skel.Generic SK.Skel.GramCD.
Import ListNotations.
Local Open Scope R_scope.

Section GramProofs.
Context {A : Type}.
Variable score : list R -> list R -> list Z -> res (list (Ext R)).
Variable prox : R -> R -> Z -> res R.
Variable value : list R -> res (Ext R).
Variable greedy : bool.
Variables (cfg : @gconfig R) (D : @gdata R).
Variable acc_init : A.
Variable acc_step : A -> list R -> list R -> res (list R * list R * bool * A).

Let p := length (gd_q D).
Let Qm := gd_Q D.
Let negq := map Ropp (gd_q D).

Hypothesis HQ : wf_X p Qm.
Hypothesis HQl : length Qm = p.

Definition gram_kernels : @gkernels R A :=
  {| gk_score := fun w g => score w g (zrange 0 (zlen w));
     gk_epoch := fun w g => @_gram_cd_epoch R _ score prox Qm w g greedy;
     gk_pen_value := value; gk_acc_init := acc_init; gk_acc_step := acc_step |}.
Notation K := gram_kernels.

(* the accelerator returns consistent pairs when fed consistent pairs *)
Variable AI : A -> Prop.
Hypothesis AI_init : AI acc_init.
Hypothesis AI_step : forall a w g w' g' ext a',
  AI a -> Cons p Qm w negq g -> length w = p -> acc_step a w g = Ok (w', g', ext, a') ->
  AI a' /\ (ext = true -> Cons p Qm w' negq g' /\ length w' = p).

Definition GInv (s : @gstate R A) : Prop :=
  Cons p Qm (gs_w s) negq (gs_grad s) /\ length (gs_w s) = p /\
  gk_score K (gs_w s) (gs_grad s) = Ok (gs_opt s) /\ AI (gs_acc s).

Lemma gbody_inv s c sc s' : GInv s -> gbody cfg K D s c sc = Ok s' -> GInv s'.
Proof.
  intros (HC & HL & HS & HA) Hb. unfold gbody in Hb.
  apply bind_ok in Hb as ([[w g] opt] & He & Hb). cbn [gk_epoch gram_kernels] in He.
  destruct (gram_epoch_spec score prox p Qm negq _ _ _ _ _ _ HQ (eq_trans HL (eq_sym HQl)) HC He) as (HC1 & HL1 & HS1).
  assert (HL1' : length w = p) by (rewrite HL1; exact HL).
  destruct (gc_use_acc cfg).
  - apply bind_ok in Hb as ([[[wa ga] ext] a'] & Ha & Hb). cbn [gk_acc_step gram_kernels] in Ha.
    destruct (AI_step _ _ _ _ _ _ _ HA HC1 HL1' Ha) as [HA' Hext].
    destruct ext.
    + destruct (Hext eq_refl) as [HCa HLa].
      apply bind_ok in Hb as (pa & Hpa & Hb). apply bind_ok in Hb as (po & Hpo & Hb).
      destruct (elt pa po).
      * apply bind_ok in Hb as (opt' & Ho & Hb). inversion Hb; subst s'. unfold GInv; simpl. repeat split; try assumption; apply HCa.
      * inversion Hb; subst s'. unfold GInv; simpl. repeat split; try assumption; apply HC1.
    + inversion Hb; subst s'. unfold GInv; simpl. repeat split; try assumption; apply HC1.
  - inversion Hb; subst s'. unfold GInv; simpl. repeat split; try assumption; apply HC1.
Qed.

Lemma negq_length : length negq = p.
Proof. unfold negq, p. apply map_length. Qed.

Lemma ginit_inv w_init s0 :
  match w_init with Some w => length w = p | None => True end ->
  ginit K D w_init = Ok s0 -> GInv s0.
Proof.
  intros Hw Hi. unfold ginit in Hi. apply bind_ok in Hi as (opt & Ho & Hi). inversion Hi; subst s0. clear Hi.
  unfold GInv; simpl. fold p. destruct w_init as [w|].
  - split; [|split; [exact Hw|split; [exact Ho|exact AI_init]]].
    destruct (mv_spec p Qm w HQ) as [H1 H2]. fold Qm. split.
    + rewrite vmap2_length; [lia|]. rewrite H1. reflexivity.
    + intros i Hi. rewrite nth_vmap2 by (fold p; lia). rewrite H2 by assumption.
      unfold negq. rewrite nth_map_R by (fold p; lia). cbn [fsub RNum]. ring.
  - split; [|split; [|split; [exact Ho|exact AI_init]]].
    + change (Cons p Qm (repeat 0 (Z.to_nat (Z.of_nat p))) negq negq). apply cons_zero. apply negq_length.
    + unfold vzeros. rewrite repeat_length. lia.
Qed.

(* ---------- (2) the certificate ---------- *)
Theorem gram_certificate w_init out :
  match w_init with Some w => length w = p | None => True end ->
  gsolve cfg K D w_init = Ok out -> ele (g_stop out) (gc_tol cfg) = true ->
  let w := gs_w (g_s out) in let g := gs_grad (g_s out) in
  Cons p Qm w negq g /\ length w = p /\
  exists opt, score w g (zrange 0 (zlen w)) = Ok opt /\ emax_list opt = Ok (g_stop out).
Proof.
  intros Hw Hrun Hle. unfold gsolve in Hrun. apply bind_ok in Hrun as (s0 & Hi & Hrun).
  assert (HI0 : GInv s0) by (eapply ginit_inv; eauto).
  assert (HIo : GInv (g_s out)).
  { eapply (grun_inv (gc_tol cfg) (gcrit) (gbody cfg K D) (gobjective K D) GInv); [|exact HI0|exact Hrun].
    intros s c sc s' HIs _ Hb. eapply gbody_inv; eauto. }
  destruct (grun_stop_is_criterion _ _ _ _ _ _ _ Hrun Hle) as [c Hc].
  destruct HIo as (HC & HL & HS & _). cbn zeta. split; [exact HC|]. split; [exact HL|].
  exists (gs_opt (g_s out)). split; [exact HS|].
  unfold gcrit in Hc. apply bind_ok in Hc as (m & Hm & Hc). inversion Hc; subst. exact Hm.
Qed.

(* ---------- (3) history ---------- *)
Theorem gram_history w_init out :
  gsolve cfg K D w_init = Ok out ->
  length (g_obj out) = g_iters out /\ (g_iters out <= gc_max_iter cfg)%nat /\
  (g_obj out = [] \/ gobjective K D (g_s out) = Ok (last (g_obj out) PInf)).
Proof.
  intros Hrun. unfold gsolve in Hrun. apply bind_ok in Hrun as (s0 & Hi & Hrun).
  exact (grun_history _ _ _ _ _ _ _ Hrun).
Qed.

(* ---------- (4) descent ---------- *)
(* the energy: objective value, +inf when the penalty value fails (never happens for the translated penalties) *)
Definition genergy (w : list R) : Ext R :=
  match value w with Ok pv => eadd (Fin (quad D w + gd_ynorm2 D)) pv | Err _ => PInf end.
Definition gE (s : @gstate R A) : Ext R := genergy (gs_w s).

Hypothesis E_epoch : forall w g w' g' opt,
  Cons p Qm w negq g -> length w = p ->
  @_gram_cd_epoch R _ score prox Qm w g greedy = Ok (w', g', opt) -> ext_le (genergy w') (genergy w).

Lemma elt_shift (a b : Ext R) (x y c : R) pa pb :
  a = eadd (Fin x) pa -> b = eadd (Fin y) pb -> elt a b = true ->
  ext_le (eadd (Fin (x + c)) pa) (eadd (Fin (y + c)) pb).
Proof.
  intros -> -> Hlt. destruct pa, pb; simpl in *; try discriminate; auto.
  cbn [fadd RNum] in *. apply Rltb_true in Hlt. lra.
Qed.

Lemma gbody_descends s c sc s' : GInv s -> gbody cfg K D s c sc = Ok s' -> ext_le (gE s') (gE s).
Proof.
  intros (HC & HL & HS & HA) Hb. unfold gbody in Hb.
  apply bind_ok in Hb as ([[w g] opt] & He & Hb). cbn [gk_epoch gram_kernels] in He.
  pose proof (E_epoch _ _ _ _ _ HC HL He) as Hd. unfold gE.
  destruct (gc_use_acc cfg).
  - apply bind_ok in Hb as ([[[wa ga] ext] a'] & Ha & Hb).
    destruct ext.
    + apply bind_ok in Hb as (pa & Hpa & Hb). apply bind_ok in Hb as (po & Hpo & Hb).
      destruct (elt pa po) eqn:Hlt.
      * apply bind_ok in Hb as (opt' & Ho & Hb). inversion Hb; subst s'. simpl.
        eapply ext_le_trans; [|exact Hd].
        unfold obj_cmp in Hpa, Hpo. cbn [gk_pen_value gram_kernels] in Hpa, Hpo.
        apply bind_ok in Hpa as (va & Hva & Hpa). apply bind_ok in Hpo as (vo & Hvo & Hpo).
        inversion Hpa; inversion Hpo; subst pa po. unfold genergy. rewrite Hva, Hvo.
        eapply elt_shift; [reflexivity|reflexivity|exact Hlt].
      * inversion Hb; subst s'. exact Hd.
    + inversion Hb; subst s'. exact Hd.
  - inversion Hb; subst s'. exact Hd.
Qed.

Theorem gram_never_worse_than_start w0 out :
  length w0 = p -> gsolve cfg K D (Some w0) = Ok out -> ext_le (genergy (gs_w (g_s out))) (genergy w0).
Proof.
  intros Hw Hrun. unfold gsolve in Hrun. apply bind_ok in Hrun as (s0 & Hi & Hrun).
  assert (HI0 : GInv s0) by (eapply (ginit_inv (Some w0)); eauto).
  assert (Hs0 : gs_w s0 = w0).
  { unfold ginit in Hi. apply bind_ok in Hi as (o & _ & Hi). inversion Hi. reflexivity. }
  rewrite <- Hs0.
  eapply (grun_descends (gc_tol cfg) gcrit (gbody cfg K D) (gobjective K D) gE ext_le ext_le_refl ext_le_trans GInv);
    [| |exact HI0|exact Hrun].
  - intros s c sc s' HIs _ Hb. eapply gbody_inv; eauto.
  - intros s c sc s' HIs _ Hb. eapply gbody_descends; eauto.
Qed.

Theorem gram_monotone_in_budget w_init k s0 out1 out2 :
  match w_init with Some w => length w = p | None => True end ->
  ginit K D w_init = Ok s0 ->
  grun (gc_tol cfg) gcrit (gbody cfg K D) (gobjective K D) k s0 = Ok out1 ->
  grun (gc_tol cfg) gcrit (gbody cfg K D) (gobjective K D) (S k) s0 = Ok out2 ->
  ext_le (gE (g_s out2)) (gE (g_s out1)).
Proof.
  intros Hw Hi H1 H2.
  assert (HI0 : GInv s0) by (eapply ginit_inv; eauto).
  eapply (grun_budget_monotone (gc_tol cfg) gcrit (gbody cfg K D) (gobjective K D) gE ext_le ext_le_refl ext_le_trans GInv);
    [| |exact HI0|exact H1|exact H2].
  - intros s c sc s' HIs _ Hb. eapply gbody_inv; eauto.
  - intros s c sc s' HIs _ Hb. eapply gbody_descends; eauto.
Qed.

End GramProofs.
