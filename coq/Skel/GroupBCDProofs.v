(* GroupBCD skeleton (Skel/GroupBCD.v): certificate, history, invariant transport and descent, for every kernel
   record, budget, tolerance, strategy and start -- obtained from the generic outer-loop theorems plus an induction over
   the inner epochs (one persistent accelerator; an extrapolated point replaces the iterate only when its objective is
   strictly smaller). *)
From Coq Require Import Reals Lra Lia ZArith QArith List Bool.
Require Import SK.Base.Res SK.Base.Num SK.Base.RInst.
Require Import SK.Skel.AndersonCD SK.Skel.AndersonCDDescent SK.Skel.Generic SK.Skel.GroupBCD.
Import ListNotations.

Section Any.
Context {F : Type} `{Num F} {A : Type}.
Variables (cfg : @config F) (K : @kernels F A) (ng : nat).

(* (1) a returned stop_crit <= tol is the criterion (all groups + intercept) evaluated at the returned (w, Xw) *)
Theorem bsolve_stop_is_criterion w_init Xw_init out :
  bsolve cfg K ng w_init Xw_init = Ok out -> ele (g_stop out) (tol cfg) = true ->
  exists lip opt, k_lipschitz K = Ok lip /\ bcrit cfg K lip ng (g_s out) = Ok (opt, g_stop out).
Proof.
  unfold bsolve. intros Hrun Hle. apply bind_ok in Hrun as ([w0 Xw0] & Hs0 & Hrun).
  destruct (negb _); [discriminate|]. apply bind_ok in Hrun as (lip & Hlip & Hrun).
  destruct (grun_stop_is_criterion _ _ _ _ _ _ _ Hrun Hle) as [opt Hc]. eauto.
Qed.

(* (2) one history entry per outer iteration, the last one is the objective of the returned point *)
Theorem bsolve_history w_init Xw_init out :
  bsolve cfg K ng w_init Xw_init = Ok out ->
  length (g_obj out) = g_iters out /\ (g_iters out <= max_iter cfg)%nat /\
  (g_obj out = [] \/ bobjective cfg K (g_s out) = Ok (last (g_obj out) PInf)).
Proof.
  unfold bsolve. intros Hrun. apply bind_ok in Hrun as ([w0 Xw0] & Hs0 & Hrun).
  destruct (negb _); [discriminate|]. apply bind_ok in Hrun as (lip & Hlip & Hrun).
  exact (grun_history _ _ _ _ _ _ _ Hrun).
Qed.

(* (3) invariant transport through the inner epochs and the whole run *)
Section Inv.
Variable lip : list F.
Variable I : list F -> list F -> Prop.
Hypothesis I_epoch : forall w Xw ws w' Xw',
  I w Xw -> k_epoch K (wp cfg w) Xw lip ws = Ok (w', Xw') -> I (with_wp cfg w w') Xw'.
Hypothesis I_intercept : forall w Xw w' Xw', I w Xw -> b_intercept_update cfg K w Xw = Ok (w', Xw') -> I w' Xw'.
Hypothesis I_accept : forall a w Xw w_acc Xw_acc a',
  I w Xw -> k_acc_step K a w Xw = Ok (w_acc, Xw_acc, true, a') -> I w_acc Xw_acc.

Lemma b_inner_step_I ws sc epoch w Xw a w' Xw' a' brk :
  I w Xw -> b_inner_step cfg K lip ws sc epoch w Xw a = Ok (w', Xw', a', brk) -> I w' Xw'.
Proof.
  intros HI Hs. unfold b_inner_step in Hs.
  apply bind_ok in Hs as ([we Xwe] & He & Hs). cbn [fst snd] in Hs.
  apply bind_ok in Hs as ([wi Xwi] & Hi & Hs). cbn [fst snd] in Hs.
  apply bind_ok in Hs as ([[[wacc Xwacc] ext] a2] & Hacc & Hs).
  apply bind_ok in Hs as ([w4 Xw4] & H4 & Hs).
  assert (HI1 : I (with_wp cfg w we) Xwe) by (eapply I_epoch; eauto).
  assert (HI2 : I wi Xwi) by (eapply I_intercept; eauto).
  assert (HI4 : I w4 Xw4).
  { destruct ext.
    - apply bind_ok in H4 as (d & Hd & H4). apply bind_ok in H4 as (pv & Hpv & H4).
      apply bind_ok in H4 as (da & Hda & H4). apply bind_ok in H4 as (pva & Hpva & H4).
      destruct (elt _ _); inversion H4; subst; [eapply I_accept; eauto|assumption].
    - inversion H4; subst. assumption. }
  destruct (Nat.modulo epoch 10 =? 0)%nat.
  - apply bind_ok in Hs as (gws & Hg & Hs). apply bind_ok in Hs as (ows & Ho & Hs).
    apply bind_ok in Hs as (sin & Hm & Hs). inversion Hs; subst. assumption.
  - inversion Hs; subst. assumption.
Qed.

Lemma b_inner_loop_I fuel epoch ws sc w Xw a ne w' Xw' a' ne' :
  I w Xw -> b_inner_loop cfg K lip fuel epoch ws sc w Xw a ne = Ok (w', Xw', a', ne') -> I w' Xw'.
Proof.
  revert epoch w Xw a ne. induction fuel as [|fuel IH]; intros epoch w Xw a ne HI Hrun; simpl in Hrun.
  - inversion Hrun; subst; assumption.
  - apply bind_ok in Hrun as ([[[w1 Xw1] a1] brk] & Hs & Hrun).
    assert (I w1 Xw1) by (eapply b_inner_step_I; eauto).
    destruct brk; [inversion Hrun; subst; assumption|eapply IH; eauto].
Qed.

Lemma bbody_I s opt sc s' : I (b_w s) (b_Xw s) -> bbody cfg K lip ng s opt sc = Ok s' -> I (b_w s') (b_Xw s').
Proof.
  intros HI Hb. unfold bbody in Hb. apply bind_ok in Hb as (gs & Hgs & Hb).
  apply bind_ok in Hb as ([[[w Xw] a] ne] & Hin & Hb). inversion Hb; subst; simpl.
  eapply b_inner_loop_I; eauto.
Qed.
End Inv.

Theorem bsolve_preserves (I : list F -> list F -> Prop) w0 Xw0 out :
  (forall lip w Xw ws w' Xw', I w Xw -> k_epoch K (wp cfg w) Xw lip ws = Ok (w', Xw') -> I (with_wp cfg w w') Xw') ->
  (forall w Xw w' Xw', I w Xw -> b_intercept_update cfg K w Xw = Ok (w', Xw') -> I w' Xw') ->
  (forall a w Xw w_acc Xw_acc a', I w Xw -> k_acc_step K a w Xw = Ok (w_acc, Xw_acc, true, a') -> I w_acc Xw_acc) ->
  I w0 Xw0 -> bsolve cfg K ng (Some w0) (Some Xw0) = Ok out -> I (b_w (g_s out)) (b_Xw (g_s out)).
Proof.
  intros He Hi Ha HI Hrun. unfold bsolve in Hrun. cbn [bind] in Hrun.
  destruct (negb _); [discriminate|]. apply bind_ok in Hrun as (lip & Hlip & Hrun).
  assert (Hstep : forall s c sc s', I (b_w s) (b_Xw s) -> bcrit cfg K lip ng s = Ok (c, sc) -> bbody cfg K lip ng s c sc = Ok s' -> I (b_w s') (b_Xw s')).
  { intros s c sc s' HIs _ Hb. eapply (bbody_I lip I); eauto. }
  set (s0 := {| b_w := w0; b_Xw := Xw0; b_acc := k_acc_init K; b_epochs := 0 |}) in Hrun.
  assert (HI0 : I (b_w s0) (b_Xw s0)) by exact HI.
  exact (grun_inv (tol cfg) (bcrit cfg K lip ng) (bbody cfg K lip ng) (bobjective cfg K) (fun s => I (b_w s) (b_Xw s)) Hstep _ s0 out HI0 Hrun).
Qed.
End Any.

(* (4) descent (over R) *)
Section Descent.
Context {A : Type}.
Variables (cfg : @config R) (K : @kernels R A) (ng : nat).
Variable E : list R -> list R -> Ext R.
Hypothesis Hobj : forall w Xw, bind (k_df_value K w Xw) (fun d => bind (k_pen_value K (wp cfg w)) (fun pv => Ok (eadd (Fin d) pv))) = Ok (E w Xw).
Hypothesis E_epoch : forall lip w Xw ws w' Xw',
  k_epoch K (wp cfg w) Xw lip ws = Ok (w', Xw') -> ext_le (E (with_wp cfg w w') Xw') (E w Xw).
Hypothesis E_intercept : forall w Xw w' Xw', b_intercept_update cfg K w Xw = Ok (w', Xw') -> ext_le (E w' Xw') (E w Xw).

Lemma b_inner_step_descends lip ws sc epoch w Xw a w' Xw' a' brk :
  b_inner_step cfg K lip ws sc epoch w Xw a = Ok (w', Xw', a', brk) -> ext_le (E w' Xw') (E w Xw).
Proof.
  intros Hs. unfold b_inner_step in Hs.
  apply bind_ok in Hs as ([we Xwe] & He & Hs). cbn [fst snd] in Hs.
  apply bind_ok in Hs as ([wi Xwi] & Hi & Hs). cbn [fst snd] in Hs.
  apply bind_ok in Hs as ([[[wacc Xwacc] ext] a2] & Hacc & Hs).
  apply bind_ok in Hs as ([w4 Xw4] & H4 & Hs).
  assert (H1 : ext_le (E (with_wp cfg w we) Xwe) (E w Xw)) by (eapply E_epoch; eauto).
  assert (H2 : ext_le (E wi Xwi) (E (with_wp cfg w we) Xwe)) by (eapply E_intercept; eauto).
  assert (H3 : ext_le (E w4 Xw4) (E wi Xwi)).
  { destruct ext.
    - pose proof (Hobj wi Xwi) as Ho. pose proof (Hobj wacc Xwacc) as Hoa.
      apply bind_ok in H4 as (d & Hd & H4). rewrite Hd in Ho. cbn [bind] in Ho.
      apply bind_ok in H4 as (pv & Hpv & H4). rewrite Hpv in Ho. cbn [bind] in Ho.
      assert (Ho' : eadd (Fin d) pv = E wi Xwi) by congruence.
      apply bind_ok in H4 as (da & Hda & H4). rewrite Hda in Hoa. cbn [bind] in Hoa.
      apply bind_ok in H4 as (pva & Hpva & H4). rewrite Hpva in Hoa. cbn [bind] in Hoa.
      assert (Hoa' : eadd (Fin da) pva = E wacc Xwacc) by congruence.
      destruct (elt (eadd (Fin da) pva) (eadd (Fin d) pv)) eqn:Hlt; inversion H4; subst w4 Xw4.
      + rewrite <- Ho', <- Hoa'. apply elt_ext_le. exact Hlt.
      + apply ext_le_refl.
    - inversion H4; subst. apply ext_le_refl. }
  assert (Hfin : ext_le (E w4 Xw4) (E w Xw)) by (eapply ext_le_trans; [exact H3|eapply ext_le_trans; eauto]).
  destruct (Nat.modulo epoch 10 =? 0)%nat.
  - apply bind_ok in Hs as (gws & Hg & Hs). apply bind_ok in Hs as (ows & Ho & Hs).
    apply bind_ok in Hs as (sin & Hm & Hs). inversion Hs; subst. exact Hfin.
  - inversion Hs; subst. exact Hfin.
Qed.

Lemma b_inner_loop_descends lip fuel epoch ws sc w Xw a ne w' Xw' a' ne' :
  b_inner_loop cfg K lip fuel epoch ws sc w Xw a ne = Ok (w', Xw', a', ne') -> ext_le (E w' Xw') (E w Xw).
Proof.
  revert epoch w Xw a ne. induction fuel as [|fuel IH]; intros epoch w Xw a ne Hrun; simpl in Hrun.
  - inversion Hrun; subst. apply ext_le_refl.
  - apply bind_ok in Hrun as ([[[w1 Xw1] a1] brk] & Hs & Hrun).
    pose proof (b_inner_step_descends _ _ _ _ _ _ _ _ _ _ _ Hs) as H1.
    destruct brk; [inversion Hrun; subst; exact H1|]. eapply ext_le_trans; [eapply IH; eauto|exact H1].
Qed.

Lemma bbody_descends lip s opt sc s' :
  bbody cfg K lip ng s opt sc = Ok s' -> ext_le (E (b_w s') (b_Xw s')) (E (b_w s) (b_Xw s)).
Proof.
  intros Hb. unfold bbody in Hb. apply bind_ok in Hb as (gs & Hgs & Hb).
  apply bind_ok in Hb as ([[[w Xw] a] ne] & Hin & Hb). inversion Hb; subst; simpl.
  eapply b_inner_loop_descends; eauto.
Qed.

Theorem bsolve_descends w0 Xw0 out :
  bsolve cfg K ng (Some w0) (Some Xw0) = Ok out -> ext_le (E (b_w (g_s out)) (b_Xw (g_s out))) (E w0 Xw0).
Proof.
  intros Hrun. unfold bsolve in Hrun. cbn [bind] in Hrun.
  destruct (negb _); [discriminate|]. apply bind_ok in Hrun as (lip & Hlip & Hrun).
  change (E w0 Xw0) with (E (b_w {| b_w := w0; b_Xw := Xw0; b_acc := k_acc_init K; b_epochs := 0 |})
                            (b_Xw {| b_w := w0; b_Xw := Xw0; b_acc := k_acc_init K; b_epochs := 0 |})).
  eapply (grun_descends (tol cfg) (bcrit cfg K lip ng) (bbody cfg K lip ng) (bobjective cfg K) (fun s => E (b_w s) (b_Xw s))
            ext_le ext_le_refl ext_le_trans (fun _ => True)); [auto| |exact I|exact Hrun].
  intros s c sc s' _ _ Hb. eapply bbody_descends; eauto.
Qed.

Theorem brun_budget_monotone lip k s0 out1 out2 :
  grun (tol cfg) (bcrit cfg K lip ng) (bbody cfg K lip ng) (bobjective cfg K) k s0 = Ok out1 ->
  grun (tol cfg) (bcrit cfg K lip ng) (bbody cfg K lip ng) (bobjective cfg K) (S k) s0 = Ok out2 ->
  ext_le (E (b_w (g_s out2)) (b_Xw (g_s out2))) (E (b_w (g_s out1)) (b_Xw (g_s out1))).
Proof.
  intros H1 H2.
  eapply (grun_budget_monotone (tol cfg) (bcrit cfg K lip ng) (bbody cfg K lip ng) (bobjective cfg K) (fun s => E (b_w s) (b_Xw s))
            ext_le ext_le_refl ext_le_trans (fun _ => True)); [auto| |exact I|exact H1|exact H2].
  intros s c sc s' _ _ Hb. eapply bbody_descends; eauto.
Qed.
End Descent.
