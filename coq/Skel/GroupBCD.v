(* Layer S: hand-written model of GroupBCD._solve (skglm/solvers/group_bcd.py) as an instance of the generic outer
   loop (Skel/Generic.v), over the kernel record of Skel/AndersonCD.v.  Mirrored decisions (they differ from AndersonCD):
   ONE accelerator for the whole run (not re-created per outer iteration); scores computed with the FULL w (intercept
   entry included) except the outer fix-point score (w[:n_features]); generalized_support called on the full w;
   ws_size = max(min(p0, n_groups), min(n_groups, 2 * gsupp_size)) with NO forced inclusion of the support;
   acceptance test on datafit.value(w) + penalty.value(w[:n_features]); inner test every 10 epochs with
   stop_crit_in <= 0.3 * stop_crit (non-strict, no special case when the working set is everything);
   Xw = zeros when w_init is None, else Xw_init (a missing Xw_init with a given w_init is an error).
   Tie: mock-kernel trace correspondence with the real _solve (tools/harness_solvers.py). *)
From Coq Require Import ZArith QArith List Bool Lia.
Require Import SK.Base.Res SK.Base.Num SK.Skel.AndersonCD SK.Skel.Generic.
Import ListNotations.

Section Skel.
Context {F : Type} `{Num F} {A : Type}.

Record bstate := { b_w : list F; b_Xw : list F; b_acc : A; b_epochs : nat }.

Section Run.
Context (cfg : @config F) (K : @kernels F A) (lip : list F) (ng : nat).   (* ng = number of groups = len(penalty.grp_ptr) - 1 *)

Let p := n_features cfg.
Notation wp := (wp cfg).
Definition all_groups : list Z := zrange 0 (Z.of_nat ng).
(* the literal 0.3: it only occurs in non-strict tests  score <= 0.3 * stop_crit.  Exact arithmetic takes the decision binary64
   takes, also at an exact tie (score = 3/10 * stop_crit with dyadic operands: the double product rounds to the score itself and
   the test succeeds), when 0.3 is read as a rational just above 3/10 *)
Definition three_tenths : F := fofQ ((3 # 10) + (1 # 1152921504606846976))%Q.

Definition bobjective (s : bstate) : res (Ext F) :=
  bind (k_df_value K (b_w s) (b_Xw s)) (fun d => bind (k_pen_value K (wp (b_w s))) (fun pv => Ok (eadd (Fin d) pv))).

Definition bcrit (s : bstate) : res (list (Ext F) * Ext F) :=
  let w := b_w s in let Xw := b_Xw s in
  bind (k_grad_ws K w Xw all_groups) (fun grad =>
  bind (if fixpoint cfg then bind (k_fixpoint K (wp w) grad lip all_groups) (fun d => Ok (map Fin d))
        else k_subdiff K w grad all_groups) (fun opt =>
  bind (if fit_intercept cfg then bind (k_intercept_step K Xw) (fun st => Ok (fabs st)) else Ok (fofZ 0)) (fun iopt =>
  bind (emax_list opt) (fun m => Ok (opt, emax m (Fin iopt)))))).

Definition b_intercept_update (w Xw : list F) : res (list F * list F) :=
  if fit_intercept cfg then
    bind (w_last w) (fun old =>
    bind (k_intercept_step K Xw) (fun st =>
    let new := fsub old st in
    bind (set_idx w (-1) new) (fun w' => Ok (w', vmap (fun x => fadd x (fsub new old)) Xw))))
  else Ok (w, Xw).

(* one inner epoch: (w, Xw, acc, break?) *)
Definition b_inner_step (ws : list Z) (stop_crit : Ext F) (epoch : nat) (w Xw : list F) (a : A)
  : res (list F * list F * A * bool) :=
  bind (k_epoch K (wp w) Xw lip ws) (fun r =>
  let w := with_wp cfg w (fst r) in let Xw := snd r in
  bind (b_intercept_update w Xw) (fun r2 =>
  let w := fst r2 in let Xw := snd r2 in
  bind (k_acc_step K a w Xw) (fun r3 =>
  let '(w_acc, Xw_acc, is_extrap, a') := r3 in
  bind (if is_extrap then
          bind (k_df_value K w Xw) (fun d => bind (k_pen_value K (wp w)) (fun pv =>
          bind (k_df_value K w_acc Xw_acc) (fun da => bind (k_pen_value K (wp w_acc)) (fun pva =>
          if elt (eadd (Fin da) pva) (eadd (Fin d) pv) then Ok (w_acc, Xw_acc) else Ok (w, Xw)))))
        else Ok (w, Xw)) (fun r4 =>
  let '(w, Xw) := r4 in
  if (Nat.modulo epoch 10 =? 0)%nat then
    bind (k_grad_ws K w Xw ws) (fun grad_ws =>
    bind (if fixpoint cfg then bind (gather lip ws) (fun lip_ws =>
                               bind (k_fixpoint K w grad_ws lip_ws ws) (fun d => Ok (map Fin d)))
          else k_subdiff K w grad_ws ws) (fun opt_ws =>
    bind (emax_list opt_ws) (fun stop_in =>
    let brk := negb (elt (escale three_tenths stop_crit) stop_in) in       (* stop_crit_in <= 0.3 * stop_crit *)
    Ok (w, Xw, a', brk))))
  else Ok (w, Xw, a', false))))).

Fixpoint b_inner_loop (fuel : nat) (epoch : nat) (ws : list Z) (stop_crit : Ext F) (w Xw : list F) (a : A) (n_ep : nat)
  : res (list F * list F * A * nat) :=
  match fuel with
  | O => Ok (w, Xw, a, n_ep)
  | S fuel' =>
      bind (b_inner_step ws stop_crit epoch w Xw a) (fun r =>
      let '(w, Xw, a', brk) := r in
      if brk then Ok (w, Xw, a', S n_ep) else b_inner_loop fuel' (S epoch) ws stop_crit w Xw a' (S n_ep))
  end.

Definition bbody (s : bstate) (opt : list (Ext F)) (stop_crit : Ext F) : res bstate :=
  bind (k_gsupp K (b_w s)) (fun gs =>
  let n_groups := Z.of_nat ng in
  let ws_size := Z.max (Z.min (p0 cfg) n_groups) (Z.min n_groups (2 * count_true gs)) in
  let ws := k_topk K opt (Z.to_nat ws_size) in
  bind (b_inner_loop (max_epochs cfg) 0 ws stop_crit (b_w s) (b_Xw s) (b_acc s) (b_epochs s)) (fun r =>
  let '(w, Xw, a, n_ep) := r in
  Ok {| b_w := w; b_Xw := Xw; b_acc := a; b_epochs := n_ep |})).

End Run.

Definition bsolve (cfg : @config F) (K : @kernels F A) (ng : nat) (w_init Xw_init : option (list F)) : res (@gout F bstate) :=
  let p := n_features cfg in
  bind (match w_init with
        | None => Ok (vzeros (Z.of_nat p + (if fit_intercept cfg then 1 else 0)), vzeros (Z.of_nat (n_samples cfg)))
        | Some w => match Xw_init with
                    | Some x => Ok (w, x)
                    | None => (* Xw = None: an error at its first use, i.e. as soon as one iteration runs *)
                              match max_iter cfg with O => Ok (w, []) | S _ => Err Shape end
                    end
        end) (fun s0 =>
  let '(w0, Xw0) := s0 in
  if negb (zlen w0 =? Z.of_nat p + (if fit_intercept cfg then 1 else 0))%Z then Err Shape
  else
  bind (k_lipschitz K) (fun lip =>
  grun (tol cfg) (bcrit cfg K lip ng) (bbody cfg K lip ng) (bobjective cfg K) (max_iter cfg)
       {| b_w := w0; b_Xw := Xw0; b_acc := k_acc_init K; b_epochs := 0 |})).

End Skel.
