(* Theorems about the AndersonCD skeleton, for every kernel record, every budget and every start:
   (T1) the returned stop_crit, when <= tol, is the criterion evaluated at the returned (w, Xw);
   (T2) one history entry per outer iteration performed; the last one is the objective of the returned point;
   (T3) any predicate on (w, Xw) preserved by the epoch kernel, the intercept update and by accepted
        extrapolations is preserved by the whole run (instantiated for consistency and feasibility). *)
From Coq Require Import ZArith QArith List Bool Lia.
Require Import SK.Base.Res SK.Base.Num SK.Skel.AndersonCD.
Import ListNotations.

Section Proofs.
Context {F : Type} `{Num F} {A : Type}.
Variables (cfg : @config F) (K : @kernels F A).

Notation outer := (outer_loop cfg K).
Notation inner := (inner_loop cfg K).

(* ---------- T1 ---------- *)
Lemma outer_stop_is_criterion fuel lip w Xw obj stop n_it n_ep n_acc out :
  outer fuel lip w Xw obj stop n_it n_ep n_acc = Ok out ->
  (* either no tolerance stop happened and the value is the one passed in / of an earlier point ... *)
  ele (o_stop out) (tol cfg) = true ->
  ele stop (tol cfg) = false ->
  exists opt, stop_criterion cfg K (o_w out) (o_Xw out) lip = Ok (opt, o_stop out).
Proof.
  revert w Xw obj stop n_it n_ep n_acc. induction fuel as [|fuel IH]; intros w Xw obj stop n_it n_ep n_acc Hrun Hle Hstop.
  - simpl in Hrun. inversion Hrun; subst; simpl in *. congruence.
  - simpl in Hrun. apply bind_ok in Hrun as ([opt sc] & Hsc & Hrun).
    destruct (ele sc (tol cfg)) eqn:Hsct.
    + inversion Hrun; subst; simpl in *. eauto.
    + apply bind_ok in Hrun as (gs & Hgs & Hrun). apply bind_ok in Hrun as ([[[w1 Xw1] ne1] na1] & Hin & Hrun).
      apply bind_ok in Hrun as (pobj & Hobj & Hrun). eapply IH; eauto.
Qed.

Theorem solve_stop_is_criterion w_init Xw_init out :
  solve cfg K w_init Xw_init = Ok out -> ele (o_stop out) (tol cfg) = true ->
  exists lip opt, k_lipschitz K = Ok lip /\ stop_criterion cfg K (o_w out) (o_Xw out) lip = Ok (opt, o_stop out).
Proof.
  unfold solve. intros Hrun Hle. apply bind_ok in Hrun as (lip & Hlip & Hrun).
  destruct (negb _); [discriminate|]. exists lip.
  destruct (outer_stop_is_criterion _ _ _ _ _ _ _ _ _ _ Hrun Hle eq_refl) as [opt Hopt]. eauto.
Qed.

(* ---------- T2 ---------- *)
Lemma outer_history fuel lip w Xw obj stop n_it n_ep n_acc out :
  outer fuel lip w Xw obj stop n_it n_ep n_acc = Ok out ->
  length obj = n_it -> (obj = [] \/ objective cfg K w Xw = Ok (last obj PInf)) ->
  length (o_obj out) = o_iters out /\
  (o_obj out = [] \/ objective cfg K (o_w out) (o_Xw out) = Ok (last (o_obj out) PInf)) /\
  (o_iters out <= n_it + fuel)%nat.
Proof.
  revert w Xw obj stop n_it n_ep n_acc. induction fuel as [|fuel IH]; intros w Xw obj stop n_it n_ep n_acc Hrun Hlen Hlast.
  - simpl in Hrun. inversion Hrun; subst; simpl. repeat split; auto; lia.
  - simpl in Hrun. apply bind_ok in Hrun as ([opt sc] & Hsc & Hrun).
    destruct (ele sc (tol cfg)).
    + inversion Hrun; subst; simpl. repeat split; auto; lia.
    + apply bind_ok in Hrun as (gs & Hgs & Hrun). apply bind_ok in Hrun as ([[[w1 Xw1] ne1] na1] & Hin & Hrun).
      apply bind_ok in Hrun as (pobj & Hobj & Hrun).
      destruct (IH _ _ _ _ _ _ _ Hrun) as (H1 & H2 & H3).
      * rewrite app_length; simpl; lia.
      * right. rewrite last_last. exact Hobj.
      * repeat split; auto; lia.
Qed.

Theorem solve_history w_init Xw_init out :
  solve cfg K w_init Xw_init = Ok out ->
  length (o_obj out) = o_iters out /\ (o_iters out <= max_iter cfg)%nat /\
  (o_obj out = [] \/ objective cfg K (o_w out) (o_Xw out) = Ok (last (o_obj out) PInf)).
Proof.
  unfold solve. intros Hrun. apply bind_ok in Hrun as (lip & Hlip & Hrun).
  destruct (negb _); [discriminate|].
  destruct (outer_history _ _ _ _ _ _ _ _ _ _ Hrun eq_refl (or_introl eq_refl)) as (H1 & H2 & H3). auto.
Qed.

(* ---------- T3: invariant transport ---------- *)
Variable I : list F -> list F -> Prop.
Hypothesis I_epoch : forall w Xw lip ws w' Xw',
  I w Xw -> k_epoch K (wp cfg w) Xw lip ws = Ok (w', Xw') -> I (with_wp cfg w w') Xw'.
Hypothesis I_intercept : forall w Xw w' Xw', I w Xw -> intercept_update cfg K w Xw = Ok (w', Xw') -> I w' Xw'.
(* an accepted extrapolated point: its objective is strictly below the objective of an invariant point *)
Hypothesis I_accept : forall w Xw w_acc Xw_acc p_obj p_obj_acc,
  I w Xw -> objective cfg K w Xw = Ok p_obj -> objective cfg K w_acc Xw_acc = Ok p_obj_acc ->
  elt p_obj_acc p_obj = true -> length w_acc = length w -> I w_acc Xw_acc.

Lemma scatter_length {B} (l : list B) idxs vals l' : scatter l idxs vals = Ok l' -> length l' = length l.
Proof.
  revert l vals. induction idxs as [|i r IH]; intros l vals H0; destruct vals; simpl in H0; try discriminate.
  - inversion H0; reflexivity.
  - apply bind_ok in H0 as (l1 & Hs & H0). rewrite (IH _ _ H0). eapply set_idx_length; eauto.
Qed.

Lemma inner_step_I lip ws ws_size sc epoch w Xw a w' Xw' a' acc brk :
  I w Xw -> inner_step cfg K lip ws ws_size sc epoch w Xw a = Ok (w', Xw', a', acc, brk) -> I w' Xw'.
Proof.
  intros HI Hs. unfold inner_step in Hs.
  apply bind_ok in Hs as ([we Xwe] & He & Hs). cbn [fst snd] in Hs.
  apply bind_ok in Hs as ([wi Xwi] & Hi & Hs). cbn [fst snd] in Hs.
  apply bind_ok in Hs as (w_ws & Hg & Hs). apply bind_ok in Hs as ([[[wacc Xwacc] ext] a2] & Hacc & Hs).
  apply bind_ok in Hs as ([[w4 Xw4] accd] & H4 & Hs).
  assert (HI1 : I (with_wp cfg w we) Xwe) by (eapply I_epoch; eauto).
  assert (HI2 : I wi Xwi) by (eapply I_intercept; eauto).
  assert (HI4 : I w4 Xw4).
  { destruct ext.
    - apply bind_ok in H4 as (pobj & Ho & H4). apply bind_ok in H4 as (w_acc & Hsc & H4).
      apply bind_ok in H4 as (pacc & Hoa & H4). destruct (elt pacc pobj) eqn:Hlt; inversion H4; subst.
      + eapply I_accept; eauto. rewrite (scatter_length _ _ _ _ Hsc). unfold vzeros, zlen. rewrite repeat_length, Nat2Z.id. reflexivity.
      + assumption.
    - inversion H4; subst. assumption. }
  destruct (Nat.modulo epoch 10 =? 0)%nat.
  - apply bind_ok in Hs as (optws & Hsw & Hs). apply bind_ok in Hs as (sin & Hm & Hs). inversion Hs; subst. assumption.
  - inversion Hs; subst. assumption.
Qed.

Lemma inner_loop_I fuel epoch lip ws ws_size sc w Xw a ne na w' Xw' ne' na' :
  I w Xw -> inner fuel epoch lip ws ws_size sc w Xw a ne na = Ok (w', Xw', ne', na') -> I w' Xw'.
Proof.
  revert epoch w Xw a ne na. induction fuel as [|fuel IH]; intros epoch w Xw a ne na HI Hrun; simpl in Hrun.
  - inversion Hrun; subst; assumption.
  - apply bind_ok in Hrun as ([[[[w1 Xw1] a1] acc] brk] & Hs & Hrun).
    assert (I w1 Xw1) by (eapply inner_step_I; eauto).
    destruct brk; [inversion Hrun; subst; assumption|eapply IH; eauto].
Qed.

Lemma outer_loop_I fuel lip w Xw obj stop n_it n_ep n_acc out :
  I w Xw -> outer fuel lip w Xw obj stop n_it n_ep n_acc = Ok out -> I (o_w out) (o_Xw out).
Proof.
  revert w Xw obj stop n_it n_ep n_acc. induction fuel as [|fuel IH]; intros w Xw obj stop n_it n_ep n_acc HI Hrun; simpl in Hrun.
  - inversion Hrun; subst; assumption.
  - apply bind_ok in Hrun as ([opt sc] & Hsc & Hrun). destruct (ele sc (tol cfg)).
    + inversion Hrun; subst; assumption.
    + apply bind_ok in Hrun as (gs & Hgs & Hrun). apply bind_ok in Hrun as ([[[w1 Xw1] ne1] na1] & Hin & Hrun).
      apply bind_ok in Hrun as (pobj & Hobj & Hrun). eapply IH; [|exact Hrun]. eapply inner_loop_I; eauto.
Qed.

Theorem solve_preserves w0 Xw0 out :
  I w0 Xw0 -> solve cfg K (Some w0) (Some Xw0) = Ok out -> I (o_w out) (o_Xw out).
Proof.
  unfold solve. intros HI Hrun. apply bind_ok in Hrun as (lip & Hlip & Hrun).
  destruct (negb _); [discriminate|]. eapply outer_loop_I; eauto.
Qed.

(* monotone history under the accept test: every stored objective ... (C03 at skeleton level) is in Descent *)
End Proofs.
