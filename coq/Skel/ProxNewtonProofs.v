(* ProxNewton skeleton: certificate and history theorems from the generic outer loop; invariant transport through the
   inner prox-Newton iterations (the line search is the only kernel that changes (w, Xw)). *)
From Coq Require Import ZArith QArith List Bool Lia.
Require Import SK.Base.Res SK.Base.Num SK.Skel.AndersonCD SK.Skel.Generic SK.Skel.ProxNewton.
Import ListNotations.

Section Any.
Context {F : Type} `{Num F}.
Variables (cfg : @pn_config F) (K : @pn_kernels F).

Theorem pn_solve_stop_is_criterion w_init Xw_init out :
  pn_solve cfg K w_init Xw_init = Ok out -> ele (g_stop out) (pn_tol cfg) = true ->
  exists c, pn_crit cfg K (g_s out) = Ok (c, g_stop out).
Proof.
  unfold pn_solve. intros Hrun Hle. destruct (negb _); [discriminate|].
  exact (grun_stop_is_criterion _ _ _ _ _ _ _ Hrun Hle).
Qed.

Theorem pn_solve_history w_init Xw_init out :
  pn_solve cfg K w_init Xw_init = Ok out ->
  length (g_obj out) = g_iters out /\ (g_iters out <= pn_max_iter cfg)%nat /\
  (g_obj out = [] \/ pn_objective cfg K (g_s out) = Ok (last (g_obj out) PInf)).
Proof.
  unfold pn_solve. intros Hrun. destruct (negb _); [discriminate|]. exact (grun_history _ _ _ _ _ _ _ Hrun).
Qed.

Section Inv.
Variable I : list F -> list F -> Prop.
Hypothesis I_linesearch : forall w Xw delta Xdelta ws w' Xw' g,
  I w Xw -> pk_linesearch K w Xw delta Xdelta ws = Ok (w', Xw', g) -> I w' Xw'.

Lemma pn_inner_loop_I fuel ws tol_in w Xw g n w' Xw' n' :
  I w Xw -> pn_inner_loop cfg K fuel ws tol_in w Xw g n = Ok (w', Xw', n') -> I w' Xw'.
Proof.
  revert w Xw g n. induction fuel as [|fuel IH]; intros w Xw g n HI Hrun; simpl in Hrun.
  - inversion Hrun; subst; assumption.
  - apply bind_ok in Hrun as ([[delta Xdelta] lipws] & Hd & Hrun).
    apply bind_ok in Hrun as ([[w1 Xw1] g1] & Hl & Hrun).
    apply bind_ok in Hrun as (opt & Ho & Hrun). apply bind_ok in Hrun as (sin & Hm & Hrun).
    assert (HI1 : I w1 Xw1) by (eapply I_linesearch; eauto).
    destruct (negb _); [inversion Hrun; subst; assumption|eapply IH; eauto].
Qed.

Theorem pn_solve_preserves w0 Xw0 out :
  I w0 Xw0 -> pn_solve cfg K (Some w0) (Some Xw0) = Ok out -> I (pn_w (g_s out)) (pn_Xw (g_s out)).
Proof.
  intros HI Hrun. unfold pn_solve in Hrun. destruct (negb _); [discriminate|].
  assert (Hstep : forall s c sc s', I (pn_w s) (pn_Xw s) -> pn_crit cfg K s = Ok (c, sc) -> pn_body cfg K s c sc = Ok s' -> I (pn_w s') (pn_Xw s')).
  { intros s [opt grad] sc s' HIs _ Hb. unfold pn_body in Hb.
    apply bind_ok in Hb as (gs & Hgs & Hb). apply bind_ok in Hb as (gws & Hg & Hb).
    apply bind_ok in Hb as ([[w Xw] n] & Hin & Hb). inversion Hb; subst; simpl. eapply pn_inner_loop_I; eauto. }
  set (s0 := {| pn_w := w0; pn_Xw := Xw0; pn_inner := 0 |}) in Hrun.
  assert (HI0 : I (pn_w s0) (pn_Xw s0)) by exact HI.
  exact (grun_inv (pn_tol cfg) (pn_crit cfg K) (pn_body cfg K) (pn_objective cfg K) (fun s => I (pn_w s) (pn_Xw s)) Hstep _ s0 out HI0 Hrun).
Qed.
End Inv.

(* the same transport when the invariant needs the direction and the line search TOGETHER (the regenerated kernels keep
   Xw = X w + c only along the consistent direction pair the direction kernel returns) *)
Section InvIter.
Variable I : list F -> list F -> Prop.
Variable P : list Z -> Prop.                       (* what every working set satisfies (distinct, in range) *)
Hypothesis P_topk : forall opt k, P (pk_topk K opt k).
Hypothesis I_iteration : forall w Xw g ws t delta Xdelta lipws w' Xw' g',
  P ws -> I w Xw -> pk_direction K w Xw g ws t = Ok (delta, Xdelta, lipws) ->
  pk_linesearch K w Xw delta Xdelta ws = Ok (w', Xw', g') -> I w' Xw'.

Lemma pn_inner_loop_I2 fuel ws tol_in w Xw g n w' Xw' n' :
  P ws -> I w Xw -> pn_inner_loop cfg K fuel ws tol_in w Xw g n = Ok (w', Xw', n') -> I w' Xw'.
Proof.
  intros HP. revert w Xw g n. induction fuel as [|fuel IH]; intros w Xw g n HI Hrun; simpl in Hrun.
  - inversion Hrun; subst; assumption.
  - apply bind_ok in Hrun as ([[delta Xdelta] lipws] & Hd & Hrun).
    apply bind_ok in Hrun as ([[w1 Xw1] g1] & Hl & Hrun).
    apply bind_ok in Hrun as (opt & Ho & Hrun). apply bind_ok in Hrun as (sin & Hm & Hrun).
    assert (HI1 : I w1 Xw1) by (eapply I_iteration; eauto).
    destruct (negb _); [inversion Hrun; subst; assumption|eapply IH; eauto].
Qed.

Theorem pn_solve_preserves_iter w0 Xw0 out :
  I w0 Xw0 -> pn_solve cfg K (Some w0) (Some Xw0) = Ok out -> I (pn_w (g_s out)) (pn_Xw (g_s out)).
Proof.
  intros HI Hrun. unfold pn_solve in Hrun. destruct (negb _); [discriminate|].
  assert (Hstep : forall s c sc s', I (pn_w s) (pn_Xw s) -> pn_crit cfg K s = Ok (c, sc) -> pn_body cfg K s c sc = Ok s' -> I (pn_w s') (pn_Xw s')).
  { intros s [opt grad] sc s' HIs _ Hb. unfold pn_body in Hb.
    apply bind_ok in Hb as (gs & Hgs & Hb). apply bind_ok in Hb as (gws & Hg & Hb).
    apply bind_ok in Hb as ([[w Xw] n] & Hin & Hb). inversion Hb; subst; simpl. eapply pn_inner_loop_I2; [apply P_topk|exact HIs|exact Hin]. }
  set (s0 := {| pn_w := w0; pn_Xw := Xw0; pn_inner := 0 |}) in Hrun.
  assert (HI0 : I (pn_w s0) (pn_Xw s0)) by exact HI.
  exact (grun_inv (pn_tol cfg) (pn_crit cfg K) (pn_body cfg K) (pn_objective cfg K) (fun s => I (pn_w s) (pn_Xw s)) Hstep _ s0 out HI0 Hrun).
Qed.
End InvIter.
End Any.
