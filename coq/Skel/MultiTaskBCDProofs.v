(* MultiTaskBCD skeleton: certificate and history theorems from the generic outer loop. *)
From Coq Require Import ZArith QArith List Bool Lia.
Require Import SK.Base.Res SK.Base.Num SK.Skel.AndersonCD SK.Skel.Generic SK.Skel.MultiTaskBCD.
Import ListNotations.

Section Any.
Context {F : Type} `{Num F}.
Variables (cfg : @mt_config F) (K : @mt_kernels F).

Theorem mt_solve_stop_is_criterion W_init XW_init out :
  mt_solve cfg K W_init XW_init = Ok out -> ele (g_stop out) (mt_tol cfg) = true ->
  exists lip opt, mtk_lipschitz K = Ok lip /\ mt_crit cfg K lip (g_s out) = Ok (opt, g_stop out).
Proof.
  unfold mt_solve. intros Hrun Hle. destruct (negb _); [discriminate|]. apply bind_ok in Hrun as (lip & Hlip & Hrun).
  destruct (grun_stop_is_criterion _ _ _ _ _ _ _ Hrun Hle) as [opt Hc]. eauto.
Qed.

Theorem mt_solve_history W_init XW_init out :
  mt_solve cfg K W_init XW_init = Ok out ->
  length (g_obj out) = g_iters out /\ (g_iters out <= mt_max_iter cfg)%nat /\
  (g_obj out = [] \/ mt_objective cfg K (g_s out) = Ok (last (g_obj out) PInf)).
Proof.
  unfold mt_solve. intros Hrun. destruct (negb _); [discriminate|]. apply bind_ok in Hrun as (lip & Hlip & Hrun).
  exact (grun_history _ _ _ _ _ _ _ Hrun).
Qed.
End Any.
