(* GramCD with the modelled AndersonAcceleration (Skel/Anderson.v) inside: the certificate and descent theorems of
   Skel/GramCDProofs.v hold WITHOUT any hypothesis on the accelerator -- whatever np.linalg.solve returns. *)
From Coq Require Import Reals Lra Lia ZArith QArith List Bool.
Require Import SK.Base.Res SK.Base.Num SK.Base.RInst SK.Lemmas.VecFacts SK.Lemmas.Consistency SK.Lemmas.Affine.
Require Import SK.Skel.AndersonCD SK.Skel.Generic SK.Skel.GramCD SK.Skel.GramCDProofs SK.Skel.Anderson.
Import ListNotations.
Local Open Scope R_scope.

Theorem gram_certificate_with_anderson
  (score : list R -> list R -> list Z -> res (list (Ext R))) (prox : R -> R -> Z -> res R) (value : list R -> res (Ext R))
  (greedy : bool) (cfg : @gconfig R) (D : @gdata R) (K : nat) (solve_z : list (list R) -> option (list R)) :
  let p := length (gd_q D) in let negq := map Ropp (gd_q D) in
  wf_X p (gd_Q D) -> length (gd_Q D) = p ->
  (forall U z, solve_z U = Some z -> length z = length U /\ z <> []) ->
  forall w_init out, match w_init with Some w => length w = p | None => True end ->
  gsolve cfg (gram_kernels score prox value greedy D (@aa_init R) (aa_step K solve_z)) D w_init = Ok out ->
  ele (g_stop out) (gc_tol cfg) = true ->
  let w := gs_w (g_s out) in let g := gs_grad (g_s out) in
  Cons p (gd_Q D) w negq g /\ length w = p /\
  exists opt, score w g (zrange 0 (zlen w)) = Ok opt /\ emax_list opt = Ok (g_stop out).
Proof.
  intros p negq HQ HQl Hsolve w_init out Hw Hrun Hle.
  assert (Hnl : length negq = p) by (unfold negq, p; apply map_length).
  refine (gram_certificate score prox value greedy cfg D (@aa_init R) (aa_step K solve_z) HQ HQl
            (AAI p (gd_Q D) negq) _ _ w_init out Hw Hrun Hle).
  - constructor.
  - intros a w g w' g' ext a' HA HC Hl Hs.
    assert (Hl' : length w = length (gd_Q D)) by (rewrite HQl; exact Hl).
    destruct (aa_step_consistent K solve_z p (gd_Q D) negq HQ Hnl Hsolve a w g w' g' ext a' HA HC Hl' Hs) as [H1 H2].
    split; [exact H1|]. intros He. destruct (H2 He) as [H3 H4]. split; [exact H3|]. rewrite H4. exact HQl.
Qed.
