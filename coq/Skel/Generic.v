(* Layer S, generic part: the outer loop shared by the "test at the top" solvers
   (GramCD, GroupBCD, MultiTaskBCD, ProxNewton, GroupProxNewton; AndersonCD has the same shape and its own file)

       stop_crit = +inf
       for t in range(max_iter):
           (aux, stop_crit) = criterion(state)
           if stop_crit <= tol: break
           state = body(state, aux, stop_crit)
           history.append(objective(state))
       return state, history, stop_crit

   and the theorems every instance inherits, for EVERY criterion / body / objective, budget and start:
     (G1) a returned stop_crit <= tol is the criterion evaluated at the returned state;
     (G2) one history entry per iteration performed, at most max_iter; the last one is the objective of the
          returned state;
     (G3) invariant transport;
     (G4) if the body never increases an energy, the returned state is no worse than the start, and the energy of
          the returned state is non-increasing in max_iter.
   The second loop shape (FISTA: update, append, test at the bottom with a strict comparison) is at the end. *)
From Coq Require Import ZArith QArith List Bool Lia.
Require Import SK.Base.Res SK.Base.Num SK.Skel.AndersonCD.
Import ListNotations.

Section Generic.
Context {F : Type} `{Num F} {St C : Type}.
Variable tol : F.
Variable crit : St -> res (C * Ext F).
Variable body : St -> C -> Ext F -> res St.
Variable objective : St -> res (Ext F).

Record gout := { g_s : St; g_obj : list (Ext F); g_stop : Ext F; g_iters : nat }.

Fixpoint gouter (fuel : nat) (s : St) (obj : list (Ext F)) (stop : Ext F) (n : nat) : res gout :=
  match fuel with
  | O => Ok {| g_s := s; g_obj := obj; g_stop := stop; g_iters := n |}
  | S fuel' =>
      bind (crit s) (fun r =>
      let '(c, sc) := r in
      if ele sc tol then Ok {| g_s := s; g_obj := obj; g_stop := sc; g_iters := n |}
      else bind (body s c sc) (fun s' =>
           bind (objective s') (fun o => gouter fuel' s' (obj ++ [o]) sc (S n))))
  end.

Definition grun (max_iter : nat) (s0 : St) : res gout := gouter max_iter s0 [] PInf 0.

(* ---------- G1 ---------- *)
Lemma gouter_stop_is_criterion fuel s obj stop n out :
  gouter fuel s obj stop n = Ok out -> ele (g_stop out) tol = true -> ele stop tol = false ->
  exists c, crit (g_s out) = Ok (c, g_stop out).
Proof.
  revert s obj stop n. induction fuel as [|fuel IH]; intros s obj stop n Hrun Hle Hstop; simpl in Hrun.
  - inversion Hrun; subst; simpl in *. congruence.
  - apply bind_ok in Hrun as ([c sc] & Hc & Hrun). destruct (ele sc tol) eqn:Hsc.
    + inversion Hrun; subst; simpl in *. eauto.
    + apply bind_ok in Hrun as (s' & Hb & Hrun). apply bind_ok in Hrun as (o & Ho & Hrun). eapply IH; eauto.
Qed.

Theorem grun_stop_is_criterion max_iter s0 out :
  grun max_iter s0 = Ok out -> ele (g_stop out) tol = true -> exists c, crit (g_s out) = Ok (c, g_stop out).
Proof. intros Hrun Hle. eapply gouter_stop_is_criterion; eauto. Qed.

(* with a zero budget no optimality was checked: the value is +inf, never <= tol *)
Theorem grun_zero_budget s0 out : grun 0 s0 = Ok out -> g_stop out = PInf /\ g_obj out = [] /\ g_s out = s0.
Proof. unfold grun; simpl. intros Hr; inversion Hr; subst; auto. Qed.

(* ---------- G2 ---------- *)
Lemma gouter_history fuel s obj stop n out :
  gouter fuel s obj stop n = Ok out -> length obj = n -> (obj = [] \/ objective s = Ok (last obj PInf)) ->
  length (g_obj out) = g_iters out /\ (g_iters out <= n + fuel)%nat /\
  (g_obj out = [] \/ objective (g_s out) = Ok (last (g_obj out) PInf)).
Proof.
  revert s obj stop n. induction fuel as [|fuel IH]; intros s obj stop n Hrun Hlen Hlast; simpl in Hrun.
  - inversion Hrun; subst; simpl. repeat split; auto; lia.
  - apply bind_ok in Hrun as ([c sc] & Hc & Hrun). destruct (ele sc tol).
    + inversion Hrun; subst; simpl. repeat split; auto; lia.
    + apply bind_ok in Hrun as (s' & Hb & Hrun). apply bind_ok in Hrun as (o & Ho & Hrun).
      destruct (IH _ _ _ _ Hrun) as (H1 & H2 & H3).
      * rewrite app_length; simpl; lia.
      * right. rewrite last_last. exact Ho.
      * repeat split; auto; lia.
Qed.

Theorem grun_history max_iter s0 out :
  grun max_iter s0 = Ok out ->
  length (g_obj out) = g_iters out /\ (g_iters out <= max_iter)%nat /\
  (g_obj out = [] \/ objective (g_s out) = Ok (last (g_obj out) PInf)).
Proof. intros Hrun. exact (gouter_history _ _ _ _ _ _ Hrun eq_refl (or_introl eq_refl)). Qed.

(* every history entry is the objective of the state at the end of that iteration: the history is the list
   of objectives of the successive states (stated through a relational trace of states) *)
Inductive gtrace : St -> list St -> St -> Prop :=
| gt_nil s : gtrace s [] s
| gt_cons s c sc s' l s'' : crit s = Ok (c, sc) -> ele sc tol = false -> body s c sc = Ok s' ->
    gtrace s' l s'' -> gtrace s (s' :: l) s''.

Lemma gouter_trace fuel s obj stop n out :
  gouter fuel s obj stop n = Ok out ->
  exists states, gtrace s states (g_s out) /\ length states = (g_iters out - n)%nat /\ (n <= g_iters out)%nat /\
                 exists objs, g_obj out = obj ++ objs /\ Forall2 (fun st o => objective st = Ok o) states objs.
Proof.
  revert s obj stop n. induction fuel as [|fuel IH]; intros s obj stop n Hrun; simpl in Hrun.
  - inversion Hrun; subst; simpl. exists []. split; [constructor|]. split; [simpl; lia|]. split; [lia|].
    exists []. rewrite app_nil_r. split; [reflexivity|constructor].
  - apply bind_ok in Hrun as ([c sc] & Hc & Hrun). destruct (ele sc tol) eqn:Hsc.
    + inversion Hrun; subst; simpl. exists []. split; [constructor|]. split; [simpl; lia|]. split; [lia|].
      exists []. rewrite app_nil_r. split; [reflexivity|constructor].
    + apply bind_ok in Hrun as (s' & Hb & Hrun). apply bind_ok in Hrun as (o & Ho & Hrun).
      destruct (IH _ _ _ _ Hrun) as (states & Htr & Hlen & Hn & objs & Hobjs & Hall).
      exists (s' :: states). split; [econstructor; eauto|]. split; [simpl; lia|]. split; [lia|].
      exists (o :: objs). split; [rewrite Hobjs, <- app_assoc; reflexivity|constructor; auto].
Qed.

Theorem grun_history_entries max_iter s0 out :
  grun max_iter s0 = Ok out ->
  exists states, gtrace s0 states (g_s out) /\ length states = g_iters out /\
                 Forall2 (fun st o => objective st = Ok o) states (g_obj out).
Proof.
  intros Hrun. destruct (gouter_trace _ _ _ _ _ _ Hrun) as (states & Htr & Hlen & _ & objs & Hobjs & Hall).
  exists states. simpl in Hobjs. subst. repeat split; auto. lia.
Qed.

(* ---------- G3 ---------- *)
Section Inv.
Variable I : St -> Prop.
Hypothesis I_body : forall s c sc s', I s -> crit s = Ok (c, sc) -> body s c sc = Ok s' -> I s'.
Lemma gouter_inv fuel s obj stop n out : I s -> gouter fuel s obj stop n = Ok out -> I (g_s out).
Proof.
  revert s obj stop n. induction fuel as [|fuel IH]; intros s obj stop n HI Hrun; simpl in Hrun.
  - inversion Hrun; subst; assumption.
  - apply bind_ok in Hrun as ([c sc] & Hc & Hrun). destruct (ele sc tol).
    + inversion Hrun; subst; assumption.
    + apply bind_ok in Hrun as (s' & Hb & Hrun). apply bind_ok in Hrun as (o & Ho & Hrun).
      eapply IH; [eapply I_body; eassumption|exact Hrun].
Qed.
Theorem grun_inv max_iter s0 out : I s0 -> grun max_iter s0 = Ok out -> I (g_s out).
Proof. intros; eapply gouter_inv; eauto. Qed.
End Inv.

(* ---------- G4 ---------- *)
Section Descent.
Context {V : Type}.
Variable E : St -> V.
Variable le : V -> V -> Prop.
Hypothesis le_refl : forall a, le a a.
Hypothesis le_trans : forall a b c, le a b -> le b c -> le a c.
Variable I : St -> Prop.
Hypothesis I_body : forall s c sc s', I s -> crit s = Ok (c, sc) -> body s c sc = Ok s' -> I s'.
Hypothesis E_body : forall s c sc s', I s -> crit s = Ok (c, sc) -> body s c sc = Ok s' -> le (E s') (E s).

Lemma gouter_descends fuel s obj stop n out : I s -> gouter fuel s obj stop n = Ok out -> le (E (g_s out)) (E s).
Proof.
  revert s obj stop n. induction fuel as [|fuel IH]; intros s obj stop n HI Hrun; simpl in Hrun.
  - inversion Hrun; subst; simpl. apply le_refl.
  - apply bind_ok in Hrun as ([c sc] & Hc & Hrun). destruct (ele sc tol).
    + inversion Hrun; subst; simpl. apply le_refl.
    + apply bind_ok in Hrun as (s' & Hb & Hrun). apply bind_ok in Hrun as (o & Ho & Hrun).
      eapply le_trans; [eapply IH; [eapply I_body; eassumption|exact Hrun]|eapply E_body; eassumption].
Qed.

Lemma gouter_budget_monotone fuel s obj stop n obj' stop' n' out1 out2 :
  I s -> gouter fuel s obj stop n = Ok out1 -> gouter (S fuel) s obj' stop' n' = Ok out2 ->
  le (E (g_s out2)) (E (g_s out1)).
Proof.
  revert s obj stop n obj' stop' n' out1 out2.
  induction fuel as [|fuel IH]; intros s obj stop n obj' stop' n' out1 out2 HI H1 H2.
  - simpl in H1. inversion H1; subst; simpl. eapply gouter_descends; eauto.
  - cbn [gouter] in H1. remember (S fuel) as f2. cbn [gouter] in H2. subst f2.
    apply bind_ok in H1 as ([c sc] & Hc & H1). apply bind_ok in H2 as ([c2 sc2] & Hc2 & H2).
    rewrite Hc in Hc2. inversion Hc2; subst c2 sc2. clear Hc2.
    destruct (ele sc tol).
    + inversion H1; inversion H2; subst; simpl. apply le_refl.
    + apply bind_ok in H1 as (s1 & Hb1 & H1). apply bind_ok in H2 as (s2 & Hb2 & H2).
      rewrite Hb1 in Hb2. inversion Hb2; subst s2. clear Hb2.
      apply bind_ok in H1 as (o1 & Ho1 & H1). apply bind_ok in H2 as (o2 & Ho2 & H2).
      eapply IH; [eapply I_body; eassumption|exact H1|exact H2].
Qed.

Theorem grun_descends max_iter s0 out : I s0 -> grun max_iter s0 = Ok out -> le (E (g_s out)) (E s0).
Proof. intros HI Hrun. unfold grun in Hrun. exact (gouter_descends _ _ _ _ _ _ HI Hrun). Qed.
Theorem grun_budget_monotone k s0 out1 out2 :
  I s0 -> grun k s0 = Ok out1 -> grun (S k) s0 = Ok out2 -> le (E (g_s out2)) (E (g_s out1)).
Proof. intros HI H1 H2. unfold grun in H1, H2. exact (gouter_budget_monotone _ _ _ _ _ _ _ _ _ _ HI H1 H2). Qed.
End Descent.

End Generic.

(* ---------------------------------------------------------------------------------------------------------
   Second shape (FISTA):  for t in range(max_iter): state = step(state); (stop) = criterion'(state);
                          history.append(objective(state)); if stop < tol: break
   criterion' may use quantities cached by the step (FISTA: the gradient at the previous extrapolated point). *)
Section Bottom.
Context {F : Type} `{Num F} {St : Type}.
Variable tol : F.
Variable step : St -> res St.
Variable crit : St -> res (Ext F).
Variable objective : St -> res (Ext F).

Definition elt_tol (a : Ext F) : bool := match a with Fin x => fltb x tol | PInf => false end.

Fixpoint bouter (fuel : nat) (s : St) (obj : list (Ext F)) (stop : option (Ext F)) (n : nat)
  : res (St * list (Ext F) * option (Ext F) * nat) :=
  match fuel with
  | O => Ok (s, obj, stop, n)
  | S fuel' =>
      bind (step s) (fun s' =>
      bind (crit s') (fun sc =>
      bind (objective s') (fun o =>
      if elt_tol sc then Ok (s', obj ++ [o], Some sc, S n)
      else bouter fuel' s' (obj ++ [o]) (Some sc) (S n))))
  end.

Lemma bouter_history fuel s obj stop n s' obj' stop' n' :
  bouter fuel s obj stop n = Ok (s', obj', stop', n') -> length obj = n ->
  (obj = [] \/ objective s = Ok (last obj PInf)) -> (stop = None \/ exists sc, stop = Some sc /\ crit s = Ok sc) ->
  length obj' = n' /\ (n' <= n + fuel)%nat /\ (obj' = [] \/ objective s' = Ok (last obj' PInf)) /\
  (stop' = None \/ exists sc, stop' = Some sc /\ crit s' = Ok sc).
Proof.
  revert s obj stop n. induction fuel as [|fuel IH]; intros s obj stop n Hrun Hlen Hlast Hst; simpl in Hrun.
  - inversion Hrun; subst. repeat split; auto; lia.
  - apply bind_ok in Hrun as (s1 & Hs & Hrun). apply bind_ok in Hrun as (sc & Hc & Hrun).
    apply bind_ok in Hrun as (o & Ho & Hrun). destruct (elt_tol sc).
    + inversion Hrun; subst. rewrite app_length; simpl. repeat split; try lia.
      * right. rewrite last_last. exact Ho.
      * right. eauto.
    + destruct (IH _ _ _ _ Hrun) as (H1 & H2 & H3 & H4).
      * rewrite app_length; simpl; lia.
      * right. rewrite last_last. exact Ho.
      * right; eauto.
      * repeat split; auto; lia.
Qed.
Lemma bouter_mono fuel s obj stop n s' obj' stop' n' :
  bouter fuel s obj stop n = Ok (s', obj', stop', n') -> (n <= n')%nat.
Proof.
  revert s obj stop n. induction fuel as [|fuel IH]; intros s obj stop n Hrun; simpl in Hrun.
  - inversion Hrun; subst. lia.
  - apply bind_ok in Hrun as (s1 & Hs & Hrun). apply bind_ok in Hrun as (sc & Hc & Hrun).
    apply bind_ok in Hrun as (o & Ho & Hrun). destruct (elt_tol sc).
    + inversion Hrun; subst. lia.
    + apply IH in Hrun. lia.
Qed.

(* either nothing ran (zero budget) or at least one iteration was performed *)
Lemma bouter_progress fuel s obj stop n s' obj' stop' n' :
  bouter fuel s obj stop n = Ok (s', obj', stop', n') -> (fuel = O /\ n' = n /\ stop' = stop) \/ (n < n')%nat.
Proof.
  destruct fuel as [|fuel]; intros Hrun; simpl in Hrun.
  - inversion Hrun; subst. left. auto.
  - right. apply bind_ok in Hrun as (s1 & Hs & Hrun). apply bind_ok in Hrun as (sc & Hc & Hrun).
    apply bind_ok in Hrun as (o & Ho & Hrun). destruct (elt_tol sc).
    + inversion Hrun; subst. lia.
    + apply bouter_mono in Hrun. lia.
Qed.
End Bottom.
