(* ProxNewton's kernel record filled with the REGENERATED kernels (Gen/KernPN.v, Gen/KernCD.v), generic in the number type:
   the theorems of Skel/ProxNewtonGen.v use it on R, the end-to-end correspondence (Skel/CorrSolvers.v) runs the very same
   definition on Q against the real ProxNewton._solve. *)
From Coq Require Import ZArith List Bool.
Require Import SK.Base.Res SK.Base.Num SK.Skel.AndersonCD SK.Skel.ProxNewton SK.Gen.KernCD SK.Gen.KernPN.
Import ListNotations.

Section K.
Context {F : Type} `{Num F}.
Definition fin_tol (t : Ext F) : res F := match t with Fin x => Ok x | PInf => Err Dom end.
Definition fin_val (r : res (Ext F)) : res F := match r with Ok (Fin v) => Ok v | Ok PInf => Err Dom | Err e => Err e end.

Definition pn_gen_kernels (raw_grad raw_hessian : list F -> list F -> res (list F)) (df_value : list F -> list F -> res F)
    (prox_1d : F -> F -> Z -> res F) (pen_value : list F -> res (Ext F))
    (subdiff : list F -> list F -> list Z -> res (list (Ext F))) (gsupp : list F -> res (list bool))
    (topk : list (Ext F) -> nat -> list Z) (X : list (list F)) (y : list F) (fi fixp : bool) : pn_kernels :=
  let pv := fun w => fin_val (pen_value w) in
  {| pk_grad := fun w Xw ws => pn_construct_grad raw_grad X y w Xw ws;
     pk_subdiff := subdiff;
     pk_fixpoint := fun w g lip ws => dist_fix_point_cd prox_1d w g lip ws;
     pk_lip_all := fun Xw => bind (raw_hessian y Xw) (fun h => Ok (map (fun col => vdot h (vmap fsq col)) X));
     pk_sum_raw_grad := fun Xw => bind (raw_grad y Xw) (fun g => Ok (vsum g));
     pk_gsupp := gsupp; pk_topk := topk;
     pk_direction := fun w Xw g ws tol => bind (fin_tol tol) (fun t =>
       match fi, fixp with
       | false, false => _descent_direction__fit_intercept_False__ws_strategy_subdiff raw_hessian prox_1d subdiff X y w Xw g ws t
       | false, true => _descent_direction__fit_intercept_False__ws_strategy_fixpoint raw_hessian prox_1d X y w Xw g ws t
       | true, false => _descent_direction__fit_intercept_True__ws_strategy_subdiff raw_hessian raw_grad prox_1d subdiff X y w Xw g ws t
       | true, true => _descent_direction__fit_intercept_True__ws_strategy_fixpoint raw_hessian raw_grad prox_1d X y w Xw g ws t
       end);
     pk_linesearch := fun w Xw d Xd ws =>
       if fi then _backtrack_line_search__fit_intercept_True pv raw_grad X y w Xw d Xd ws
       else _backtrack_line_search__fit_intercept_False pv raw_grad X y w Xw d Xd ws;
     pk_df_value := df_value; pk_pen_value := pen_value |}.
End K.
