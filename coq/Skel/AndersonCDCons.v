(* C01-2 / C05 at solver level: with the GENERATED _cd_epoch as epoch kernel (any prox, any gradient rule),
   the AndersonCD skeleton keeps Xw = X w[:p] + w[-1] * 1 from any consistent start, for every budget. *)
From Coq Require Import Reals Lra Lia ZArith QArith List Bool.
Require Import SK.Base.Res SK.Base.Num SK.Base.RInst SK.Lemmas.VecFacts SK.Lemmas.Loops SK.Lemmas.Consistency.
Require Import SK.Gen.KernACD SK.Skel.AndersonCD SK.Skel.AndersonCDProofs.
Import ListNotations.
Local Open Scope R_scope.

Lemma split_last {B} (w : list B) (p : nat) d : length w = (p + 1)%nat ->
  exists b, w = firstn p w ++ [b] /\ skipn p w = [b] /\ last w d = b /\ nth_error w p = Some b.
Proof.
  intros Hl. assert (Hs : length (skipn p w) = 1%nat) by (rewrite skipn_length; lia).
  destruct (skipn p w) as [|b [|c r]] eqn:E; try discriminate. exists b.
  assert (Hw : w = firstn p w ++ [b]) by (rewrite <- E; symmetry; apply firstn_skipn).
  repeat split; auto.
  - rewrite Hw. apply last_last.
  - rewrite Hw. rewrite nth_error_app2 by (rewrite firstn_length; lia).
    rewrite firstn_length, Nat.min_l, Nat.sub_diag by lia. reflexivity.
Qed.

Lemma set_nth_app_last {B} (l : list B) (b v : B) : set_nth (l ++ [b]) (length l) v = l ++ [v].
Proof. induction l; simpl; [reflexivity|f_equal; assumption]. Qed.

Section Cons.
Context {A : Type}.
Variables (cfg : @config R) (K : @kernels R A).
Variables (X : list (list R)) (y : list R).
Variable prox_1d : R -> R -> Z -> res R.
Variable gradient_scalar : list (list R) -> list R -> list R -> list R -> Z -> res R.

Notation p := (n_features cfg).
Notation n := (n_samples cfg).

Hypothesis HX : wf_X n X.
Hypothesis HpX : length X = p.
(* the epoch kernel of the record IS the generated _cd_epoch, called with working sets of valid indices *)
Hypothesis Hepoch : forall w Xw lip ws, k_epoch K w Xw lip ws = @_cd_epoch R _ prox_1d gradient_scalar X y w Xw lip ws.
Hypothesis Hws : forall w Xw lip ws w' Xw', k_epoch K w Xw lip ws = Ok (w', Xw') -> Forall (fun j => (0 <= j)%Z) ws.

(* intercept = last entry of w when fit_intercept, else 0 *)
Definition icpt (w : list R) : R := if fit_intercept cfg then last w 0 else 0.
Definition consI (w Xw : list R) : Prop :=
  length w = (p + (if fit_intercept cfg then 1 else 0))%nat /\ Cons n X (firstn p w) (repeat (icpt w) n) Xw.

Lemma firstn_with_wp w w' : length w' = p -> firstn p (with_wp cfg w w') = w'.
Proof. intros Hl. unfold with_wp. rewrite firstn_app, Hl, Nat.sub_diag, firstn_all2 by lia. simpl. apply app_nil_r. Qed.

Lemma last_with_wp w w' : length w = (p + 1)%nat -> length w' = p -> last (with_wp cfg w w') 0 = last w 0.
Proof.
  intros Hw Hl. unfold with_wp.
  destruct (split_last w p 0 Hw) as (b & _ & Hs & Hlast & _). rewrite Hs, Hlast. apply last_last.
Qed.

Lemma consI_epoch w Xw lip ws w' Xw' :
  consI w Xw -> k_epoch K (wp cfg w) Xw lip ws = Ok (w', Xw') -> consI (with_wp cfg w w') Xw'.
Proof.
  intros [Hlen HC] He. pose proof (Hws _ _ _ _ _ _ He) as Hnn. rewrite Hepoch in He.
  unfold wp in *.
  assert (Hfl : length (firstn p w) = length X) by (rewrite firstn_length; lia).
  destruct (cd_epoch_preserves_cons prox_1d gradient_scalar n X y _ _ _ lip ws w' Xw' HX Hfl Hnn HC He) as [HC' Hl'].
  assert (Hl : length w' = p) by (rewrite Hl', firstn_length; lia).
  split.
  - unfold with_wp. rewrite app_length, skipn_length. lia.
  - rewrite firstn_with_wp by assumption.
    assert (Hic : icpt (with_wp cfg w w') = icpt w).
    { unfold icpt. destruct (fit_intercept cfg); [|reflexivity]. apply last_with_wp; lia. }
    rewrite Hic. exact HC'.
Qed.

Lemma nth_repeat_R c m i : (i < m)%nat -> nth i (repeat c m) 0 = c.
Proof. revert i; induction m; intros i Hi; [lia|]. destruct i; simpl; auto. apply IHm; lia. Qed.

Lemma consI_intercept w Xw w' Xw' : consI w Xw -> intercept_update cfg K w Xw = Ok (w', Xw') -> consI w' Xw'.
Proof.
  intros [Hlen [HCl HC]] Hi. unfold intercept_update in Hi. unfold consI, icpt in *.
  destruct (fit_intercept cfg) eqn:Hfi; [|inversion Hi; subst; split; [assumption|split; assumption]].
  apply bind_ok in Hi as (old & Hold & Hi). apply bind_ok in Hi as (st & Hst & Hi).
  apply bind_ok in Hi as (w1 & Hset & Hi). inversion Hi; subst w' Xw'. clear Hi.
  assert (Hlw : length w = (p + 1)%nat) by lia.
  destruct (split_last w p 0 Hlw) as (b & Hw & Hs & Hlast & Hnth).
  assert (Hb : b = old).
  { unfold w_last, get_idx, norm_idx in Hold. simpl in Hold.
    assert (Hk : (Z.of_nat (length w) + -1 = Z.of_nat p)%Z) by lia. rewrite Hk in Hold.
    replace ((0 <=? Z.of_nat p)%Z && (Z.of_nat p <? Z.of_nat (length w))%Z) with true in Hold
      by (symmetry; apply andb_true_iff; split; [apply Z.leb_le|apply Z.ltb_lt]; lia).
    rewrite Nat2Z.id, Hnth in Hold. inversion Hold. reflexivity. }
  rewrite Hb in Hw, Hs, Hlast, Hnth. clear Hb.
  assert (Hfl : length (firstn p w) = p) by (rewrite firstn_length; lia).
  assert (Hw1 : w1 = firstn p w ++ [fsub old st]).
  { unfold set_idx, norm_idx in Hset. simpl in Hset.
    assert (Hk : (Z.of_nat (length w) + -1 = Z.of_nat p)%Z) by lia. rewrite Hk in Hset.
    replace ((0 <=? Z.of_nat p)%Z && (Z.of_nat p <? Z.of_nat (length w))%Z) with true in Hset
      by (symmetry; apply andb_true_iff; split; [apply Z.leb_le|apply Z.ltb_lt]; lia).
    rewrite Nat2Z.id in Hset. inversion Hset. rewrite Hw at 1.
    rewrite <- Hfl at 2. apply set_nth_app_last. }
  subst w1. split; [rewrite app_length, firstn_length; simpl; lia|].
  rewrite firstn_app, Hfl, Nat.sub_diag, firstn_all2 by lia. simpl. rewrite app_nil_r, last_last.
  split; [unfold vmap; rewrite map_length; assumption|].
  intros i Hi'. unfold vmap. rewrite nth_map_R by lia. rewrite HC by assumption.
  rewrite !nth_repeat_R by assumption. rewrite Hlast. cbn [fadd fsub RNum]. ring.
Qed.

(* accepted extrapolations: hypothesis (discharged for the Anderson model when the working set contains the
   support: affine combinations of consistent pairs are consistent) *)
Hypothesis Haccept : forall w Xw w_acc Xw_acc p_obj p_obj_acc,
  consI w Xw -> objective cfg K w Xw = Ok p_obj -> objective cfg K w_acc Xw_acc = Ok p_obj_acc ->
  elt p_obj_acc p_obj = true -> length w_acc = length w -> consI w_acc Xw_acc.

Theorem andersoncd_preserves_consistency w0 Xw0 out :
  consI w0 Xw0 -> solve cfg K (Some w0) (Some Xw0) = Ok out -> consI (o_w out) (o_Xw out).
Proof.
  intros H0 Hrun.
  eapply (solve_preserves cfg K consI); eauto.
  - intros; eapply consI_epoch; eauto.
  - intros; eapply consI_intercept; eauto.
Qed.
End Cons.
