(* Rational instance used ONLY to execute the model (vm_compute) in correspondence runs.
   + - * / and comparisons are exact; sqrt is exact on perfect squares and otherwise, like
   exp / log / cos / acos / pow, a ~2^-90-accurate rational approximation (results are then
   compared with the implementation's floats under a tolerance).  No theorem mentions QNum. *)
From Coq Require Import ZArith QArith Qabs Qminmax Qround List Bool.
Require Import SK.Base.Res SK.Base.Num.
Local Open Scope Q_scope.

Definition PREC : positive := (2 ^ 96)%positive.
Definition Qtrunc (q : Q) : Q := Qred (Qfloor (q * (Zpos PREC # 1)) # PREC).
Definition Qsign (q : Q) : Q := match Qnum q with Z0 => 0 | Zpos _ => 1 | Zneg _ => -1 # 1 end.
Definition Qltb (a b : Q) : bool := match a ?= b with Lt => true | _ => false end.
Definition Qlebb (a b : Q) : bool := match a ?= b with Gt => false | _ => true end.
Definition Qeqb (a b : Q) : bool := match a ?= b with Eq => true | _ => false end.

(* floor(sqrt(floor(q * 4^96))) / 2^96: exact on squares of multiples of 2^-96 (all the dyadic grids used by the harnesses),
   2^-96-accurate otherwise; the size of the result does not grow with the size of q *)
Definition Qsqrt_approx (q : Q) : Q :=
  Qred (Z.sqrt (Qfloor (q * (Zpos (PREC * PREC) # 1))) # PREC).

Fixpoint taylor_exp (n : nat) (k : Z) (term acc y : Q) : Q :=
  match n with
  | O => acc
  | S n' => let term' := Qtrunc (term * y / (k # 1)) in taylor_exp n' (k + 1)%Z term' (acc + term') y
  end.
Fixpoint sq_n (n : nat) (x : Q) : Q := match n with O => x | S n' => sq_n n' (Qtrunc (x * x)) end.
Definition Qexp_approx (x : Q) : Q :=
  let y := x / (4096 # 1) in Qred (sq_n 12 (taylor_exp 12 1%Z 1 1 y)).

Definition LN2 : Q := 6931471805599453094172321214581765680755001343602552 # 10000000000000000000000000000000000000000000000000000.
Fixpoint ln_newton (n : nat) (x y : Q) : Q :=
  match n with
  | O => y
  | S n' => let e := Qexp_approx y in ln_newton n' x (Qtrunc (y + (2 # 1) * (x - e) / (x + e)))
  end.
Definition Qln_approx (x : Q) : Q :=
  let y0 := ((Z.log2 (Qnum x) - Z.log2 (Zpos (Qden x))) # 1) * LN2 in ln_newton 6 x y0.

Fixpoint taylor_cos (n : nat) (k : Z) (term acc y2 : Q) : Q :=
  match n with
  | O => acc
  | S n' => let term' := Qtrunc (- term * y2 / ((k * (k + 1))%Z # 1)) in
            taylor_cos n' (k + 2)%Z term' (acc + term') y2
  end.
Definition Qcos_approx (x : Q) : Q := Qred (taylor_cos 30 1%Z 1 1 (x * x)).
Definition HALFPI : Q := 15707963267948966192313216916397514420985846996875529 # 10000000000000000000000000000000000000000000000000000.
Fixpoint acos_newton (n : nat) (x y : Q) : Q :=
  match n with
  | O => y
  | S n' => let c := Qcos_approx y in
            let s := Qsqrt_approx (1 - c * c) in
            if Qeqb s 0 then y else acos_newton n' x (Qtrunc (y + (c - x) / s))
  end.
Definition Qacos_approx (x : Q) : Q := acos_newton 12 x (Qtrunc (HALFPI * (1 - x))).

Definition Qdiv_res (a b : Q) : res Q := if Qeqb b 0 then Err DivZero else Ok (Qred (a / b)).

#[export] Instance QNum : Num Q := {
  fofZ := fun z => z # 1; fofQ := fun q => Qred q;
  fadd := fun a b => Qred (a + b); fsub := fun a b => Qred (a - b); fmul := fun a b => Qred (a * b);
  fopp := Qopp; fabs := Qabs; fsign := Qsign;
  fmax := fun a b => if Qltb a b then b else a;    (* Python max(a, b): b if b > a else a *)
  fmin := fun a b => if Qltb b a then b else a;
  fdiv := Qdiv_res;
  fsqrt := fun a => if Qltb a 0 then Err Dom else Ok (Qsqrt_approx a);
  fsqrt0 := Qsqrt_approx;
  fexp := Qexp_approx;
  flog := fun a => if Qlebb a 0 then Err Dom else Ok (Qln_approx a);
  fpow := fun a b => if Qltb 0 a then Ok (Qexp_approx (Qtrunc (b * Qln_approx a)))
                     else if Qeqb a 0 then (if Qltb 0 b then Ok 0 else Err Dom) else Err Dom;
  fcos := Qcos_approx;
  facos := fun a => if Qlebb (-1 # 1) a then if Qlebb a 1 then Ok (Qacos_approx a) else Err Dom else Err Dom;
  fltb := Qltb; fleb := Qlebb; feqb := Qeqb }.

(* Correspondence only: two copies of QNum whose ORDER / EQUALITY TESTS are shifted by a margin (1e-11, relative above 1).
   The end-to-end float correspondences (GramCD, FISTA) run on non-dyadic numbers: where exact arithmetic has a tie
   (equal scores under np.argmax, an extrapolated objective equal to the current one, a score equal to the tolerance)
   binary64 has rounding noise and may decide either way.  A trace that disagrees with QNum but agrees with one of these
   is reported as decision-fragile, not as a disagreement (tools/harness_solvers.py bounds how many there may be). *)
Definition QMARGIN : Q := 1 # 100000000000.
Definition qmarg (a b : Q) : Q :=
  let m := if Qltb (Qabs a) (Qabs b) then Qabs b else Qabs a in QMARGIN * (if Qltb m 1 then 1 else m).
Definition QNumLoose : Num Q := {|
  fofZ := fun z => z # 1; fofQ := fun q => Qred q;
  fadd := fun a b => Qred (a + b); fsub := fun a b => Qred (a - b); fmul := fun a b => Qred (a * b);
  fopp := Qopp; fabs := Qabs; fsign := Qsign;
  fmax := fun a b => if Qltb a b then b else a; fmin := fun a b => if Qltb b a then b else a;
  fdiv := Qdiv_res;
  fsqrt := fun a => if Qltb a 0 then Err Dom else Ok (Qsqrt_approx a);
  fsqrt0 := Qsqrt_approx; fexp := Qexp_approx;
  flog := fun a => if Qlebb a 0 then Err Dom else Ok (Qln_approx a);
  fpow := fun a b => if Qltb 0 a then Ok (Qexp_approx (Qtrunc (b * Qln_approx a)))
                     else if Qeqb a 0 then (if Qltb 0 b then Ok 0 else Err Dom) else Err Dom;
  fcos := Qcos_approx;
  facos := fun a => if Qlebb (-1 # 1) a then if Qlebb a 1 then Ok (Qacos_approx a) else Err Dom else Err Dom;
  fltb := fun a b => Qltb a (b + qmarg a b); fleb := fun a b => Qlebb a (b + qmarg a b);
  feqb := fun a b => Qlebb (Qabs (a - b)) (qmarg a b) |}.
Definition QNumTight : Num Q := {|
  fofZ := fun z => z # 1; fofQ := fun q => Qred q;
  fadd := fun a b => Qred (a + b); fsub := fun a b => Qred (a - b); fmul := fun a b => Qred (a * b);
  fopp := Qopp; fabs := Qabs; fsign := Qsign;
  fmax := fun a b => if Qltb a b then b else a; fmin := fun a b => if Qltb b a then b else a;
  fdiv := Qdiv_res;
  fsqrt := fun a => if Qltb a 0 then Err Dom else Ok (Qsqrt_approx a);
  fsqrt0 := Qsqrt_approx; fexp := Qexp_approx;
  flog := fun a => if Qlebb a 0 then Err Dom else Ok (Qln_approx a);
  fpow := fun a b => if Qltb 0 a then Ok (Qexp_approx (Qtrunc (b * Qln_approx a)))
                     else if Qeqb a 0 then (if Qltb 0 b then Ok 0 else Err Dom) else Err Dom;
  fcos := Qcos_approx;
  facos := fun a => if Qlebb (-1 # 1) a then if Qlebb a 1 then Ok (Qacos_approx a) else Err Dom else Err Dom;
  fltb := fun a b => Qltb a (b - qmarg a b); fleb := fun a b => Qlebb a (b - qmarg a b);
  feqb := Qeqb |}.

(* Correspondence only: bounded-precision copies of the three instances above for the long end-to-end runs (GroupBCD):
   every arithmetic result whose denominator has grown past 2^140 is truncated to a multiple of 2^-128, so rationals stop
   growing over dozens of epochs (exact where the data are dyadic and small; otherwise accurate to ~1e-38, far below the
   1e-9 at which results are compared).  The rounding is a function of the value, so equal computations stay equal. *)
Definition QBITS : positive := 340282366920938463463374607431768211456.      (* 2^128 *)
Definition qround (q : Q) : Q :=
  if (140 <? Z.pos (Pos.size (Qden q)))%Z then Qred (Qfloor (q * (Zpos QBITS # 1)) # QBITS) else q.
Definition Qdiv_res_r (a b : Q) : res Q := if Qeqb b 0 then Err DivZero else Ok (qround (Qred (a / b))).
Definition mkQNumT (lt le eq : Q -> Q -> bool) : Num Q := {|
  fofZ := fun z => z # 1; fofQ := fun q => Qred q;
  fadd := fun a b => qround (Qred (a + b)); fsub := fun a b => qround (Qred (a - b)); fmul := fun a b => qround (Qred (a * b));
  fopp := Qopp; fabs := Qabs; fsign := Qsign;
  fmax := fun a b => if Qltb a b then b else a; fmin := fun a b => if Qltb b a then b else a;
  fdiv := Qdiv_res_r;
  fsqrt := fun a => if Qltb a 0 then Err Dom else Ok (Qsqrt_approx a);
  fsqrt0 := Qsqrt_approx; fexp := Qexp_approx;
  flog := fun a => if Qlebb a 0 then Err Dom else Ok (Qln_approx a);
  fpow := fun a b => if Qltb 0 a then Ok (Qexp_approx (Qtrunc (b * Qln_approx a)))
                     else if Qeqb a 0 then (if Qltb 0 b then Ok 0 else Err Dom) else Err Dom;
  fcos := Qcos_approx;
  facos := fun a => if Qlebb (-1 # 1) a then if Qlebb a 1 then Ok (Qacos_approx a) else Err Dom else Err Dom;
  fltb := lt; fleb := le; feqb := eq |}.
Definition QNumT : Num Q := mkQNumT Qltb Qlebb Qeqb.
Definition QNumTLoose : Num Q :=
  mkQNumT (fun a b => Qltb a (b + qmarg a b)) (fun a b => Qlebb a (b + qmarg a b)) (fun a b => Qlebb (Qabs (a - b)) (qmarg a b)).
Definition QNumTTight : Num Q :=
  mkQNumT (fun a b => Qltb a (b - qmarg a b)) (fun a b => Qlebb a (b - qmarg a b)) Qeqb.
