(* The number interface the generated code is written over, and its vector combinators.
   Two instances: RNum (Base/RInst.v, what theorems are about) and QNum (Base/QInst.v, what
   the correspondence runs execute with vm_compute). *)
From Coq Require Import ZArith QArith List Bool.
Require Import SK.Base.Res.
Import ListNotations.

Class Num (F : Type) := {
  fofZ : Z -> F; fofQ : Q -> F;
  fadd : F -> F -> F; fsub : F -> F -> F; fmul : F -> F -> F;
  fopp : F -> F; fabs : F -> F; fsign : F -> F;
  fmax : F -> F -> F; fmin : F -> F -> F;
  fdiv : F -> F -> res F;          (* scalar division: ZeroDivisionError when the divisor is 0 *)
  fsqrt : F -> res F;              (* Err Dom on negative input (numpy: nan) *)
  fsqrt0 : F -> F;                 (* total square root, used only by [vnorm] on a sum of squares *)
  fexp : F -> F;
  flog : F -> res F;               (* Err Dom on non-positive input (numpy: -inf / nan) *)
  fpow : F -> F -> res F;          (* x ** y with a non-integer exponent; Err Dom where numpy gives nan/inf *)
  fcos : F -> F;
  facos : F -> res F;              (* Err Dom outside [-1, 1] *)
  fltb : F -> F -> bool; fleb : F -> F -> bool; feqb : F -> F -> bool }.

Section Vec.
Context {F : Type} `{Num F}.

Definition f0 : F := fofZ 0.
Definition f1 : F := fofZ 1.
Definition fsq (x : F) : F := fmul x x.

(* numba's np.sum is a sequential left-to-right accumulation from 0 *)
Definition vsum (l : list F) : F := fold_left fadd l f0.
Definition vmap (f : F -> F) (l : list F) : list F := map f l.
Fixpoint vmap2 (f : F -> F -> F) (a b : list F) : list F :=
  match a, b with
  | x :: a', y :: b' => f x y :: vmap2 f a' b'
  | _, _ => []
  end.
Definition vdot (a b : list F) : F := vsum (vmap2 fmul a b).
Definition vnorm (a : list F) : F := fsqrt0 (vsum (vmap fsq a)).
Definition vzeros_like {A} (l : list A) : list F := map (fun _ => f0) l.
Definition vzeros (n : Z) : list F := repeat f0 (Z.to_nat n).
Definition vfull_like {A} (l : list A) (c : F) : list F := map (fun _ => c) l.
Definition vaxpy (c : F) (x y : list F) : list F := vmap2 (fun xi yi => fadd yi (fmul c xi)) x y.
Definition vscale (c : F) (x : list F) : list F := vmap (fmul c) x.

Fixpoint vmax_from (m : F) (l : list F) : F :=
  match l with [] => m | x :: t => vmax_from (fmax m x) t end.
Definition vmax (l : list F) : res F := match l with [] => Err Dom | x :: t => Ok (vmax_from x t) end.
Fixpoint vmin_from (m : F) (l : list F) : F :=
  match l with [] => m | x :: t => vmin_from (fmin m x) t end.
Definition vmin (l : list F) : res F := match l with [] => Err Dom | x :: t => Ok (vmin_from x t) end.

Fixpoint vfilter (mask : list bool) (v : list F) : list F :=
  match mask, v with
  | m :: mask', x :: v' => if m then x :: vfilter mask' v' else vfilter mask' v'
  | _, _ => []
  end.
(* elementwise: mask ? a : b *)
Fixpoint vselect (mask : list bool) (a b : list F) : list F :=
  match mask, a, b with
  | m :: mask', x :: a', y :: b' => (if m then x else y) :: vselect mask' a' b'
  | _, _, _ => []
  end.

(* a[mask] = vals *)
Fixpoint vscatter_mask (a : list F) (mask : list bool) (vals : list F) : list F :=
  match a, mask with
  | x :: a', m :: mask' =>
      if m then match vals with
                | v :: vs => v :: vscatter_mask a' mask' vs
                | [] => x :: vscatter_mask a' mask' []
                end
      else x :: vscatter_mask a' mask' vals
  | _, _ => a
  end.

Definition vany (p : F -> bool) (l : list F) : bool := existsb p l.
Definition vnonzero (x : F) : bool := negb (feqb x f0).

(* np.argmin: first index of the smallest element *)
Fixpoint argmin_from (best : F) (bi i : Z) (l : list F) : Z :=
  match l with
  | [] => bi
  | x :: t => if fltb x best then argmin_from x i (i + 1)%Z t else argmin_from best bi (i + 1)%Z t
  end.
Definition vargmin (l : list F) : res Z :=
  match l with [] => Err Dom | x :: t => Ok (argmin_from x 0%Z 1%Z t) end.

(* np.argmax on a score array that may hold +inf: first index of the largest element *)
Fixpoint eargmax_from (best : Ext F) (bi i : Z) (l : list (Ext F)) : Z :=
  match l with
  | [] => bi
  | x :: t =>
      let better := match best, x with
                    | Fin a, Fin b => fltb a b
                    | Fin _, PInf => true
                    | PInf, _ => false
                    end in
      if better then eargmax_from x i (i + 1)%Z t else eargmax_from best bi (i + 1)%Z t
  end.
Definition veargmax (l : list (Ext F)) : res Z :=
  match l with [] => Err Dom | x :: t => Ok (eargmax_from x 0%Z 1%Z t) end.

(* division of a vector by a scalar / of a scalar-by-vector uses numpy (inf/nan) semantics in the
   implementation; the model flags a zero divisor as an error (a non-finite result is a failure) *)
Definition vdivs (a : list F) (c : F) : res (list F) := mapM (fun x => fdiv x c) a.

(* Ext-valued arrays *)
Definition emax (a b : Ext F) : Ext F :=
  match a, b with
  | Fin x, Fin y => Fin (fmax x y)
  | _, _ => PInf
  end.
(* np.max of an Ext-valued array (ValueError on an empty one) *)
Definition vemax (l : list (Ext F)) : res (Ext F) :=
  match l with [] => Err Dom | x :: t => Ok (fold_left emax t x) end.
Definition eleb (a : Ext F) (b : F) : bool := match a with Fin x => fleb x b | PInf => false end.
Definition eltb (a : Ext F) (b : Ext F) : bool :=
  match a, b with Fin x, Fin y => fltb x y | Fin _, PInf => true | PInf, _ => false end.

(* dense matrix = list of columns *)
Definition mat := list (list F).
Definition mcol (X : mat) (j : Z) : res (list F) := get_idx X j.
(* X.shape[0] of a matrix stored as a list of columns; a matrix without columns has no recorded row count (0) *)
Definition mrows (X : mat) : Z := match X with [] => 0%Z | c :: _ => Z.of_nat (length c) end.
Definition mget (X : mat) (i j : Z) : res F := bind (get_idx X j) (fun c => get_idx c i).
Definition mTv (X : mat) (v : list F) : list F := map (fun c => vdot c v) X.   (* X.T @ v *)
Fixpoint mv_from (acc : list F) (X : mat) (w : list F) : list F :=            (* X @ w *)
  match X, w with
  | c :: X', wj :: w' => mv_from (vaxpy wj c acc) X' w'
  | _, _ => acc
  end.
Definition mv (n : nat) (X : mat) (w : list F) : list F := mv_from (repeat f0 n) X w.

End Vec.
