(* Comparators used by the generated correspondence files (cases_*.v): the implementation's
   result (written by the harness as exact rationals of the floats it observed) against the
   QNum evaluation of the model.  Not used by any theorem. *)
From Coq Require Import ZArith QArith Qabs List Bool.
Require Import SK.Base.Res SK.Base.Num SK.Base.QInst.
Import ListNotations.
Local Open Scope Q_scope.

Definition TOL : Q := 1 # 1000000000.

Definition qclose (a b : Q) : bool :=
  let d := Qabs (a - b) in
  let m := if Qltb (Qabs b) 1 then 1 else Qabs b in
  Qlebb d (TOL * m).

(* expected value as observed on the implementation: finite number, +inf, or failure
   (exception or nan / -inf) *)
Inductive xq := XQ (q : Q) | XInf | XBad.

Definition chk_F (r : res Q) (e : xq) : bool :=
  match r, e with
  | Ok a, XQ b => qclose a b
  | Err _, XBad => true
  | Err _, XInf => true          (* a non-finite result is a failure in the model *)
  | _, _ => false
  end.
Definition exact_F (r : res Q) (e : xq) : bool :=
  match r, e with Ok a, XQ b => Qeqb a b | Err _, (XBad | XInf) => true | _, _ => false end.

Definition chk_E (r : res (Ext Q)) (e : xq) : bool :=
  match r, e with
  | Ok (Fin a), XQ b => qclose a b
  | Ok PInf, XInf => true
  | Err _, XBad => true
  | _, _ => false
  end.

Fixpoint all2 {A B} (f : A -> B -> bool) (a : list A) (b : list B) : bool :=
  match a, b with
  | [], [] => true
  | x :: a', y :: b' => f x y && all2 f a' b'
  | _, _ => false
  end.

Definition any_bad (l : list xq) : bool := existsb (fun e => match e with XQ _ => false | _ => true end) l.

(* vector results: Some l = the implementation returned l; None = it raised *)
Definition chk_VF (r : res (list Q)) (e : option (list xq)) : bool :=
  match r, e with
  | Ok a, Some b => all2 (fun x y => match y with XQ q => qclose x q | _ => false end) a b
  | Err _, None => true
  | Err _, Some b => any_bad b
  | _, _ => false
  end.
Definition chk_VE (r : res (list (Ext Q))) (e : option (list xq)) : bool :=
  match r, e with
  | Ok a, Some b => all2 (fun x y => match x, y with Fin p, XQ q => qclose p q | PInf, XInf => true | _, _ => false end) a b
  | Err _, None => true
  | Err _, Some b => existsb (fun e => match e with XBad => true | _ => false end) b
  | _, _ => false
  end.
Definition chk_B (r : res bool) (e : option bool) : bool :=
  match r, e with Ok a, Some b => Bool.eqb a b | Err _, None => true | _, _ => false end.
Definition chk_VB (r : res (list bool)) (e : option (list bool)) : bool :=
  match r, e with Ok a, Some b => all2 Bool.eqb a b | Err _, None => true | _, _ => false end.
Definition chk_Z (r : res Z) (e : option Z) : bool :=
  match r, e with Ok a, Some b => Z.eqb a b | Err _, None => true | _, _ => false end.

(* indices of failing cases *)
Fixpoint bad_from (i : Z) (l : list bool) : list Z :=
  match l with [] => [] | b :: t => if b then bad_from (i + 1) t else i :: bad_from (i + 1) t end.
Definition bad (l : list bool) : list Z := bad_from 0 l.
Definition count_true (l : list bool) : Z := Z.of_nat (length (filter (fun b => b) l)).

Definition chk_VF2 (r : res (list Q * list Q)) (e : option (list xq * list xq)) : bool :=
  match r, e with
  | Ok (a1, a2), Some (b1, b2) => chk_VF (Ok a1) (Some b1) && chk_VF (Ok a2) (Some b2)
  | Err _, None => true
  | Err _, Some (b1, b2) => any_bad b1 || any_bad b2
  | _, _ => false
  end.

Definition chk_VF3 (r : res (list Q * list Q * list Q)) (e : option (list xq * list xq * list xq)) : bool :=
  match r, e with
  | Ok (a1, a2, a3), Some (b1, b2, b3) => chk_VF (Ok a1) (Some b1) && chk_VF (Ok a2) (Some b2) && chk_VF (Ok a3) (Some b3)
  | Err _, None => true
  | Err _, Some (b1, b2, b3) => any_bad b1 || any_bad b2 || any_bad b3
  | _, _ => false
  end.
(* a finite-valued view of an Ext-valued penalty value (the prox-Newton line search subtracts penalty values) *)
Definition fin_of (r : res (Ext Q)) : res Q := match r with Ok (Fin v) => Ok v | Ok PInf => Err Dom | Err e => Err e end.

Definition chk_F2 (r : res (Q * Q)) (e : option (xq * xq)) : bool :=
  match r, e with
  | Ok (a, b), Some (x, y) => chk_F (Ok a) x && chk_F (Ok b) y
  | Err _, None => true
  | _, _ => false
  end.
