(* Real-number instance: the reading of the source that theorems are about. *)
From Coq Require Import Reals ZArith QArith Qreals List Bool Lra.
Require Import SK.Base.Res SK.Base.Num.
Local Open Scope R_scope.

Definition Rsign (x : R) : R := if Rlt_dec 0 x then 1 else if Rlt_dec x 0 then -1 else 0.
Definition Rltb (a b : R) : bool := if Rlt_dec a b then true else false.
Definition Rleb (a b : R) : bool := if Rle_dec a b then true else false.
Definition Reqb (a b : R) : bool := if Req_EM_T a b then true else false.

#[export] Instance RNum : Num R := {
  fofZ := IZR; fofQ := Q2R;
  fadd := Rplus; fsub := Rminus; fmul := Rmult; fopp := Ropp; fabs := Rabs; fsign := Rsign;
  fmax := Rmax; fmin := Rmin;
  fdiv := fun a b => if Req_EM_T b 0 then Err DivZero else Ok (a / b);
  fsqrt := fun a => if Rle_dec 0 a then Ok (sqrt a) else Err Dom;
  fsqrt0 := sqrt;
  fexp := exp;
  flog := fun a => if Rlt_dec 0 a then Ok (ln a) else Err Dom;
  fpow := fun a b => if Rlt_dec 0 a then Ok (Rpower a b)
                     else if Req_EM_T a 0 then (if Rlt_dec 0 b then Ok 0 else Err Dom) else Err Dom;
  fcos := cos;
  facos := fun a => if Rle_dec (-1) a then if Rle_dec a 1 then Ok (acos a) else Err Dom else Err Dom;
  fltb := Rltb; fleb := Rleb; feqb := Reqb }.

Lemma Rltb_true a b : Rltb a b = true <-> a < b.
Proof. unfold Rltb; destruct (Rlt_dec a b); split; intros; try discriminate; auto; contradiction. Qed.
Lemma Rltb_false a b : Rltb a b = false <-> ~ a < b.
Proof. unfold Rltb; destruct (Rlt_dec a b); split; intros; try discriminate; auto; contradiction. Qed.
Lemma Rleb_true a b : Rleb a b = true <-> a <= b.
Proof. unfold Rleb; destruct (Rle_dec a b); split; intros; try discriminate; auto; contradiction. Qed.
Lemma Rleb_false a b : Rleb a b = false <-> ~ a <= b.
Proof. unfold Rleb; destruct (Rle_dec a b); split; intros; try discriminate; auto; contradiction. Qed.
Lemma Reqb_true a b : Reqb a b = true <-> a = b.
Proof. unfold Reqb; destruct (Req_EM_T a b); split; intros; try discriminate; auto; contradiction. Qed.
Lemma Reqb_false a b : Reqb a b = false <-> a <> b.
Proof. unfold Reqb; destruct (Req_EM_T a b); split; intros; try discriminate; auto; contradiction. Qed.

Lemma Q2R_0 : Q2R (0 # 1) = 0. Proof. unfold Q2R; simpl; lra. Qed.
Lemma Q2R_1 : Q2R (1 # 1) = 1. Proof. unfold Q2R; simpl; lra. Qed.
Lemma Q2R_half : Q2R (1 # 2) = / 2. Proof. unfold Q2R; simpl; lra. Qed.

Lemma Rsign_pos x : 0 < x -> Rsign x = 1.
Proof. unfold Rsign; intros; destruct (Rlt_dec 0 x); [reflexivity|contradiction]. Qed.
Lemma Rsign_neg x : x < 0 -> Rsign x = -1.
Proof. unfold Rsign; intros; destruct (Rlt_dec 0 x); [lra|destruct (Rlt_dec x 0); [reflexivity|contradiction]]. Qed.
Lemma Rsign_0 : Rsign 0 = 0.
Proof. unfold Rsign; destruct (Rlt_dec 0 0); [lra|destruct (Rlt_dec 0 0); [lra|reflexivity]]. Qed.
Lemma Rsign_mul_abs x : Rsign x * Rabs x = x.
Proof.
  destruct (Rtotal_order x 0) as [H|[H|H]].
  - rewrite Rsign_neg, Rabs_left by lra. lra.
  - subst. rewrite Rsign_0. lra.
  - rewrite Rsign_pos, Rabs_right by lra. lra.
Qed.

(* destruct every comparison produced by the instance *)
Ltac rcases :=
  repeat match goal with
  | |- context [Rlt_dec ?a ?b] => destruct (Rlt_dec a b)
  | |- context [Rle_dec ?a ?b] => destruct (Rle_dec a b)
  | |- context [Req_EM_T ?a ?b] => destruct (Req_EM_T a b)
  | H : context [Rlt_dec ?a ?b] |- _ => destruct (Rlt_dec a b)
  | H : context [Rle_dec ?a ?b] |- _ => destruct (Rle_dec a b)
  | H : context [Req_EM_T ?a ?b] |- _ => destruct (Req_EM_T a b)
  end.
