(* Error monad, extended numbers, Python-style indexing and loop combinators.
   Everything the generated code (coq/Gen) is written in terms of. *)
From Coq Require Import ZArith List Bool Lia.
Import ListNotations.

Inductive err := DivZero | OOB | Dom | Fuel | Fall | Shape.
Inductive res (A : Type) := Ok (a : A) | Err (e : err).
Arguments Ok {A} a. Arguments Err {A} e.
Definition ret {A} (a : A) : res A := Ok a.
Definition bind {A B} (x : res A) (f : A -> res B) : res B :=
  match x with Ok a => f a | Err e => Err e end.
Definition is_ok {A} (x : res A) : bool := match x with Ok _ => true | Err _ => false end.

Lemma bind_ret_r {A} (x : res A) : bind x (fun a => Ok a) = x.
Proof. destruct x; reflexivity. Qed.
Lemma bind_ok {A B} (x : res A) (f : A -> res B) b :
  bind x f = Ok b -> exists a, x = Ok a /\ f a = Ok b.
Proof. destruct x; simpl; intros H; [eauto|discriminate]. Qed.

(* +infinity as a value of its own (np.inf), never a large real *)
Inductive Ext (F : Type) := Fin (x : F) | PInf.
Arguments Fin {F} x. Arguments PInf {F}.

(* ---------- Python indexing: negative indices wrap, out of range is an error ---------- *)
Definition norm_idx (n : nat) (i : Z) : option nat :=
  let k := if (i <? 0)%Z then (Z.of_nat n + i)%Z else i in
  if ((0 <=? k) && (k <? Z.of_nat n))%Z then Some (Z.to_nat k) else None.

Definition get_idx {A} (l : list A) (i : Z) : res A :=
  match norm_idx (length l) i with
  | Some k => match nth_error l k with Some a => Ok a | None => Err OOB end
  | None => Err OOB
  end.

Fixpoint set_nth {A} (l : list A) (j : nat) (v : A) : list A :=
  match l, j with
  | [], _ => []
  | _ :: t, O => v :: t
  | h :: t, S j' => h :: set_nth t j' v
  end.

Definition set_idx {A} (l : list A) (i : Z) (v : A) : res (list A) :=
  match norm_idx (length l) i with
  | Some k => Ok (set_nth l k v)
  | None => Err OOB
  end.

(* a[lo:hi] with 0 <= lo <= hi <= len (the only form the kernels use); anything else is an error,
   which is stricter than Python's clamping and is what bounds-checked reasoning wants *)
Definition slice {A} (l : list A) (lo hi : Z) : res (list A) :=
  if ((0 <=? lo) && (lo <=? hi) && (hi <=? Z.of_nat (length l)))%Z
  then Ok (firstn (Z.to_nat (hi - lo)) (skipn (Z.to_nat lo) l))
  else Err OOB.

(* a[lo:hi] = v with 0 <= lo <= hi <= len and len v = hi - lo (numpy raises on any other length; Python would clamp an
   upper bound past the end, after which the lengths differ and numpy raises as well) *)
Definition set_slice {A} (l : list A) (lo hi : Z) (v : list A) : res (list A) :=
  if ((0 <=? lo) && (lo <=? hi) && (hi <=? Z.of_nat (length l)) && (Z.of_nat (length v) =? hi - lo))%Z
  then Ok (firstn (Z.to_nat lo) l ++ v ++ skipn (Z.to_nat hi) l)
  else Err OOB.

(* fancy indexing a[idxs] *)
Fixpoint gather {A} (l : list A) (idxs : list Z) : res (list A) :=
  match idxs with
  | [] => Ok []
  | i :: r => bind (get_idx l i) (fun a => bind (gather l r) (fun t => Ok (a :: t)))
  end.

(* a[idxs] = vals *)
Fixpoint scatter {A} (l : list A) (idxs : list Z) (vals : list A) : res (list A) :=
  match idxs, vals with
  | [], [] => Ok l
  | i :: r, v :: vs => bind (set_idx l i v) (fun l' => scatter l' r vs)
  | _, _ => Err Shape
  end.

Definition zlen {A} (l : list A) : Z := Z.of_nat (length l).

(* ---------- loops ---------- *)
Fixpoint for_enum_from {S} (idx : Z) (ws : list Z) (body : Z -> Z -> S -> res S) (s : S) : res S :=
  match ws with
  | [] => Ok s
  | j :: ws' => bind (body idx j s) (for_enum_from (idx + 1) ws' body)
  end.
Definition for_enum {S} ws body (s : S) := for_enum_from 0 ws body s.

Fixpoint for_each {S} (ws : list Z) (body : Z -> S -> res S) (s : S) : res S :=
  match ws with
  | [] => Ok s
  | j :: ws' => bind (body j s) (for_each ws' body)
  end.

Fixpoint zrange_from (lo : Z) (n : nat) : list Z :=
  match n with O => [] | S n' => lo :: zrange_from (lo + 1) n' end.
Definition zrange (lo hi : Z) : list Z := zrange_from lo (Z.to_nat (hi - lo)).
(* range(hi-1, lo-1, -1) *)
Definition zrange_rev (lo hi : Z) : list Z := rev (zrange lo hi).

Definition for_range {S} (lo hi : Z) (body : Z -> S -> res S) (s : S) : res S :=
  for_each (zrange lo hi) body s.

(* while-loops: explicit fuel, Err Fuel on exhaustion *)
Fixpoint while_fuel {S} (fuel : nat) (cond : S -> res bool) (body : S -> res S) (s : S) : res S :=
  match fuel with
  | O => Err Fuel
  | S f => bind (cond s) (fun c => if c then bind (body s) (while_fuel f cond body) else Ok s)
  end.

Fixpoint mapM {A B} (f : A -> res B) (l : list A) : res (list B) :=
  match l with
  | [] => Ok []
  | a :: t => bind (f a) (fun b => bind (mapM f t) (fun bs => Ok (b :: bs)))
  end.

(* ---------- basic facts ---------- *)
Lemma zrange_from_length lo n : length (zrange_from lo n) = n.
Proof. revert lo; induction n; simpl; intros; [reflexivity|f_equal; apply IHn]. Qed.

Lemma set_nth_length {A} (l : list A) j v : length (set_nth l j v) = length l.
Proof. revert j; induction l; destruct j; simpl; auto. Qed.

Lemma set_idx_length {A} (l l' : list A) i v : set_idx l i v = Ok l' -> length l' = length l.
Proof. unfold set_idx; destruct (norm_idx _ _); intros H; inversion H; apply set_nth_length. Qed.

Lemma norm_idx_nonneg n i k : norm_idx n i = Some k -> (0 <= i)%Z -> k = Z.to_nat i /\ (k < n)%nat.
Proof.
  unfold norm_idx. intros H Hi.
  replace (i <? 0)%Z with false in H by (symmetry; apply Z.ltb_ge; lia).
  destruct ((0 <=? i)%Z && (i <? Z.of_nat n)%Z) eqn:E; [|discriminate].
  apply andb_true_iff in E as [_ E2]. apply Z.ltb_lt in E2. inversion H. split; lia.
Qed.

Lemma norm_idx_in_range n i : (0 <= i < Z.of_nat n)%Z -> norm_idx n i = Some (Z.to_nat i).
Proof.
  intros [H1 H2]. unfold norm_idx.
  replace (i <? 0)%Z with false by (symmetry; apply Z.ltb_ge; lia).
  replace ((0 <=? i)%Z && (i <? Z.of_nat n)%Z) with true; [reflexivity|].
  symmetry; apply andb_true_iff; split; [apply Z.leb_le|apply Z.ltb_lt]; lia.
Qed.

Lemma get_idx_in_range {A} (l : list A) i :
  (0 <= i < Z.of_nat (length l))%Z -> exists a, get_idx l i = Ok a /\ nth_error l (Z.to_nat i) = Some a.
Proof.
  intros H. unfold get_idx. rewrite norm_idx_in_range by exact H.
  destruct (nth_error l (Z.to_nat i)) eqn:E; [eauto|].
  apply nth_error_None in E. lia.
Qed.

Lemma get_idx_nat {A} (l : list A) (k : nat) a :
  nth_error l k = Some a -> get_idx l (Z.of_nat k) = Ok a.
Proof.
  intros H. unfold get_idx. assert (k < length l)%nat by (apply nth_error_Some; congruence).
  rewrite norm_idx_in_range by lia. rewrite Nat2Z.id, H. reflexivity.
Qed.

Lemma nth_error_set_nth_eq {A} (l : list A) j v : (j < length l)%nat -> nth_error (set_nth l j v) j = Some v.
Proof. revert j; induction l; destruct j; simpl; intros; try lia; auto. apply IHl; lia. Qed.

Lemma nth_error_set_nth_neq {A} (l : list A) j k v : j <> k -> nth_error (set_nth l j v) k = nth_error l k.
Proof. revert j k; induction l; destruct j, k; simpl; intros; try congruence; auto. Qed.
