"""Independent numeric oracles: the DOCUMENTED formulas of penalties / datafits written in plain
numpy (from the docstrings and doc/ pages, not from the code), plus factories for the real compiled objects."""
import math
import numpy as np

VALS = [k / 8 for k in range(-24, 25)]


def _cc():
    from skglm.utils.jit_compilation import compiled_clone
    return compiled_clone


# ------------------------------------------------------------------ documented scalar penalties
def mcp(u, alpha, gamma):
    a = abs(u)
    return alpha * a - a * a / (2 * gamma) if a < gamma * alpha else gamma * alpha ** 2 / 2


def scad(u, alpha, gamma):
    a = abs(u)
    if a <= alpha:
        return alpha * a
    if a <= alpha * gamma:
        return (2 * gamma * alpha * a - a * a - alpha ** 2) / (2 * (gamma - 1))
    return alpha ** 2 * (gamma + 1) / 2


PEN1D = {
    "L1": lambda P: (lambda u, j: P["alpha"] * abs(u)),
    "L1_plus_L2": lambda P: (lambda u, j: P["alpha"] * (P["l1_ratio"] * abs(u) + (1 - P["l1_ratio"]) / 2 * u * u)),
    "WeightedL1": lambda P: (lambda u, j: P["alpha"] * P["weights"][j] * abs(u)),
    "MCPenalty": lambda P: (lambda u, j: mcp(u, P["alpha"], P["gamma"])),
    "WeightedMCPenalty": lambda P: (lambda u, j: P["weights"][j] * mcp(u, P["alpha"], P["gamma"])),
    "SCAD": lambda P: (lambda u, j: scad(u, P["alpha"], P["gamma"])),
    "IndicatorBox": lambda P: (lambda u, j: 0.0),
    "PositiveConstraint": lambda P: (lambda u, j: 0.0),
    "L0_5": lambda P: (lambda u, j: P["alpha"] * abs(u) ** 0.5),
    "L2_3": lambda P: (lambda u, j: P["alpha"] * abs(u) ** (2 / 3)),
    "LogSumPenalty": lambda P: (lambda u, j: P["alpha"] * math.log(1 + abs(u) / P["eps"])),
}


def pen_instances_1d(rng, p=4):
    """(name, compiled object, documented pen(u, j), feasible(u, j), admissible(step, j))"""
    import skglm.penalties.separable as sep
    cc = _cc()
    wts = np.array([rng.choice([0.5, 1.0, 2.0, 0.0]) for _ in range(p)])
    a = rng.choice([0.25, 0.5, 1.0, 2.0])
    g = rng.choice([2.5, 3.0, 4.0])
    rho = rng.choice([0.0, 0.25, 0.5, 1.0])
    eps = rng.choice([1.0, 2.0, 4.0])
    out = []
    for pos in (False, True):
        specs = [
            ("L1", sep.L1(a, pos), dict(alpha=a), lambda s, j: True),
            ("L1_plus_L2", sep.L1_plus_L2(a, rho, pos), dict(alpha=a, l1_ratio=rho), lambda s, j: True),
            ("WeightedL1", sep.WeightedL1(a, wts, pos), dict(alpha=a, weights=list(wts)), lambda s, j: True),
            ("MCPenalty", sep.MCPenalty(a, g, pos), dict(alpha=a, gamma=g), lambda s, j: s < g),
            ("WeightedMCPenalty", sep.WeightedMCPenalty(a, g, wts, pos), dict(alpha=a, gamma=g, weights=list(wts)),
             lambda s, j: s * wts[j] < g),
        ]
        for name, inst, P, adm in specs:
            obj = cc(inst)
            obj_w = _Wrap(obj, p, dict(P, positive=pos))
            feas = (lambda u, j: u >= 0) if pos else (lambda u, j: True)
            out.append((name + ("+pos" if pos else ""), obj_w, PEN1D[name](P), feas, adm))
    for name, inst, P, feas, adm in [
        ("SCAD", sep.SCAD(a, g), dict(alpha=a, gamma=g), lambda u, j: True, lambda s, j: s < g - 1),
        ("IndicatorBox", sep.IndicatorBox(a), dict(alpha=a), lambda u, j: 0 <= u <= a, lambda s, j: True),
        ("PositiveConstraint", sep.PositiveConstraint(), dict(), lambda u, j: u >= 0, lambda s, j: True),
        ("L0_5", sep.L0_5(a), dict(alpha=a), lambda u, j: True, lambda s, j: True),
        ("L2_3", sep.L2_3(a), dict(alpha=a), lambda u, j: True, lambda s, j: True),
        ("LogSumPenalty", sep.LogSumPenalty(a, eps), dict(alpha=a, eps=eps), lambda u, j: True, lambda s, j: True),
    ]:
        out.append((name, _Wrap(cc(inst), p, P), PEN1D[name](P), feas, adm))
    return out


class _Wrap:
    def __init__(self, obj, p, params):
        self._obj, self._p, self._params = obj, p, params

    def __getattr__(self, k):
        return getattr(self._obj, k)


# ------------------------------------------------------------------ block penalties
def block_instances(rng):
    """(name, wrapped object with ._prox(x, s, g), documented block penalty(u, g), admissible(s, g), gen_x)"""
    import skglm.penalties.block_separable as bs
    cc = _cc()
    a = rng.choice([0.25, 0.5, 1.0])
    g_ = rng.choice([2.5, 3.0, 4.0])
    out = []

    def vec(rng, k=3):
        r = rng.random()
        if r < 0.15:
            return [0.0] * k, 0
        return [rng.choice(VALS) for _ in range(k)], 0
    for name, inst, pen, adm in [
        ("L2_1", bs.L2_1(a), lambda u, g: a * np.linalg.norm(u), lambda s, g: True),
        ("L2_05", bs.L2_05(a), lambda u, g: a * np.linalg.norm(u) ** 0.5, lambda s, g: True),
        ("BlockMCPenalty", bs.BlockMCPenalty(a, g_), lambda u, g: mcp(np.linalg.norm(u), a, g_), lambda s, g: s < g_),
        ("BlockSCAD", bs.BlockSCAD(a, g_), lambda u, g: scad(np.linalg.norm(u), a, g_), lambda s, g: s < g_ - 1),
    ]:
        obj = _Wrap(cc(inst), 3, dict(alpha=a, gamma=g_))
        obj._prox = (lambda o: (lambda x, s, g: o.prox_1feat(x, s, g)))(obj._obj)
        out.append((name, obj, pen, adm, vec))
    # group penalties: 2 groups of sizes (2, 3)
    grp_ptr = np.array([0, 2, 5], dtype=np.int32)
    grp_indices = np.array([3, 0, 1, 4, 2], dtype=np.int32)
    wg = np.array([rng.choice([0.0, 0.5, 1.0, 2.0]) for _ in range(2)])     # a zero weight = unpenalised group
    wf = np.array([rng.choice([0.0, 0.5, 1.0, 2.0]) for _ in range(5)])

    def gvec(rng):
        g = rng.randrange(2)
        k = int(grp_ptr[g + 1] - grp_ptr[g])
        if rng.random() < 0.15:
            return [0.0] * k, g
        return [rng.choice(VALS) for _ in range(k)], g
    for pos in (False, True):
        inst = bs.WeightedGroupL2(a, wg, grp_ptr, grp_indices, pos)
        obj = _Wrap(cc(inst), 5, dict(alpha=a, weights=list(wg), positive=pos))
        obj._prox = (lambda o: (lambda x, s, g: o.prox_1group(x, s, g)))(obj._obj)
        pen = (lambda pos_: (lambda u, g: (math.inf if pos_ and np.any(np.asarray(u) < 0)
                                           else a * wg[g] * np.linalg.norm(u))))(pos)
        out.append(("WeightedGroupL2" + ("+pos" if pos else ""), obj, pen, lambda s, g: True, gvec))
    inst = bs.WeightedL1GroupL2(a, wg, wf, grp_ptr, grp_indices)
    obj = _Wrap(cc(inst), 5, dict(alpha=a, weights_groups=list(wg), weights_features=list(wf),
                                  grp_ptr=list(map(int, grp_ptr)), grp_indices=list(map(int, grp_indices))))
    obj._prox = (lambda o: (lambda x, s, g: o.prox_1group(x, s, g)))(obj._obj)

    def sgl(u, g):
        idx = grp_indices[grp_ptr[g]:grp_ptr[g + 1]]
        return a * (wg[g] * np.linalg.norm(u) + float(np.sum(wf[idx] * np.abs(u))))
    out.append(("WeightedL1GroupL2", obj, sgl, lambda s, g: True, gvec))
    return out


def prox_objective_block(pen, x, s, g, p, rng, n=400):
    """None if p is (numerically) a global minimiser among sampled candidates, else the better candidate"""
    x = np.asarray(x, dtype=float)

    def obj(u):
        return 0.5 * float(np.sum((u - x) ** 2)) + s * pen(u, g)
    mine = obj(p)
    if not math.isfinite(mine):
        return dict(objective=mine)
    best, arg = mine, None
    cands = [np.zeros_like(x), x.copy()]
    for t in np.linspace(0, 1.5, 61):
        cands.append(t * x)
        cands.append(t * np.maximum(x, 0))
    for _ in range(n):
        cands.append(p + np.array([rng.gauss(0, 0.3) for _ in x]))
        cands.append(np.array([rng.choice(VALS) for _ in x]))
    for u in cands:
        v = obj(u)
        if v < best - 1e-9 * (1 + abs(best)):
            best, arg = v, u
    if arg is None:
        return None
    return dict(better=list(map(float, arg)), objective=best, prox_objective=mine)


# ------------------------------------------------------------------ documented datafit losses
def cox_nll(y, z, efron):
    """documented negative log partial likelihood / n (doc/tutorials/cox_datafit.rst): Breslow or Efron ties"""
    tm, s = y[:, 0], y[:, 1]
    n = len(z)
    e = np.exp(z)
    out = 0.0
    if not efron:
        for i in range(n):
            if s[i]:
                out += -z[i] + math.log(np.sum(e[tm >= tm[i]]))
        return out / n
    for t in np.unique(tm[s != 0]):
        H = np.where((tm == t) & (s != 0))[0]
        R = np.sum(e[tm >= t])
        SH = np.sum(e[H])
        for l, i in enumerate(H):
            out += -z[i] + math.log(R - l / len(H) * SH)
    return out / n


def doc_loss(name, P, y, z):
    y = np.asarray(y, dtype=float)
    n = len(z)
    if name in ("Quadratic", "QuadraticGroup"):
        return float(np.sum((y - z) ** 2) / (2 * n))
    if name == "WeightedQuadratic":
        sw = P["sample_weights"]
        return float(np.sum(sw * (y - z) ** 2) / (2 * np.sum(sw)))
    if name in ("Logistic", "LogisticGroup"):
        return float(np.sum(np.log1p(np.exp(-y * z))) / n)
    if name == "Huber":
        d = P["delta"]
        r = np.abs(y - z)
        return float(np.sum(np.where(r < d, 0.5 * r ** 2, d * r - 0.5 * d ** 2)) / n)
    if name == "Poisson":
        return float(np.sum(np.exp(z) - y * z) / n)
    if name == "Gamma":
        return float(np.sum(z + y * np.exp(-z) - 1 - np.log(y)) / n)
    if name == "Cox":
        return cox_nll(y, z, False)
    if name == "CoxEfron":
        return cox_nll(y, z, True)
    if name == "SqrtQuadratic":
        return float(np.linalg.norm(y - z))
    raise KeyError(name)


def datafit_instances(rng):
    """(name, make(P) -> compiled datafit, ygen(rng, n), params(n))"""
    import skglm.datafits.single_task as st
    import skglm.datafits.group as gr
    cc = _cc()

    def greal(rng, n):
        return np.array([rng.gauss(0, 1) + 0.5 for _ in range(n)])

    def gsign(rng, n):
        return np.array([rng.choice([-1.0, 1.0]) for _ in range(n)])

    def gcount(rng, n):
        return np.array([float(rng.randint(0, 4)) for _ in range(n)])

    def gpos(rng, n):
        return np.array([rng.choice([0.5, 1.0, 2.0, 3.5]) for _ in range(n)])

    def gsurv(rng, n):
        tm = np.array([float(rng.randint(1, 4)) for _ in range(n)])      # many ties
        s = np.array([1.0 if rng.random() < 0.7 else 0.0 for _ in range(n)])
        if not s.any():
            s[0] = 1.0
        return np.column_stack([tm, s])
    return [
        ("Quadratic", lambda P: cc(st.Quadratic()), greal, lambda n: {}),
        ("WeightedQuadratic", lambda P: cc(st.WeightedQuadratic(P["sample_weights"])), greal,
         lambda n: dict(sample_weights=np.array([rng.choice([0.5, 1.0, 2.0, 3.0]) for _ in range(n)]))),
        ("Logistic", lambda P: cc(st.Logistic()), gsign, lambda n: {}),
        ("Huber", lambda P: cc(st.Huber(P["delta"])), greal, lambda n: dict(delta=rng.choice([0.3, 1.0, 2.5]))),
        ("Poisson", lambda P: cc(st.Poisson()), gcount, lambda n: {}),
        ("Gamma", lambda P: cc(st.Gamma()), gpos, lambda n: {}),
        ("Cox", lambda P: cc(st.Cox(False)), gsurv, lambda n: {}),
        ("CoxEfron", lambda P: cc(st.Cox(True)), gsurv, lambda n: {}),
    ]
