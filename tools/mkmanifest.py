"""Write MANIFEST.json from the per-property registry (tools/props/*.py present = claimed)."""
import json, os, importlib, sys
ROOT = os.path.dirname(os.path.dirname(os.path.abspath(__file__)))
sys.path.insert(0, os.path.join(ROOT, "tools"))
props = [json.loads(l) for l in open(os.path.join(ROOT, "properties.jsonl"))]
LEVEL_TEXT = json.load(open(os.path.join(ROOT, "tools", "levels.json")))
checks, na = [], []
for p in props:
    pid = p["id"]
    if os.path.exists(os.path.join(ROOT, "tools", "props", f"{pid}.py")) and pid in LEVEL_TEXT:
        lt = LEVEL_TEXT[pid]
        checks.append(dict(
            property_id=pid,
            quick_cmd=f"./check {pid} --tier quick",
            thorough_cmd=f"./check {pid} --tier thorough",
            evidence_file=f"/verif/evidence/{pid}.json",
            replay_cmd_template=f"./check {pid} --replay {{path}}",
            engine="coq-proof",
            level_claimed=dict(category="proof", text=lt["text"], design_ref=f"DESIGN.md section 4, {pid}"),
            level_note=lt["note"],
            technique=lt["technique"],
        ))
    else:
        na.append(dict(property_id=pid, reason="check not built yet in this session (planned: DESIGN.md section 4); not claimed until its theorems and tie exist"))
m = dict(
    version=1,
    setup_cmd="cd /verif && ./check setup",
    hooks=dict(guard="SKGLM_VERIF", enable="no source hooks are needed: checks observe /repo through return values, in-place buffers, NUMBA_BOUNDSCHECK and harness-side replacement of module globals",
               baseline_off_cmd="cd /repo && /venv/bin/python -m pytest -ra -q -p no:cacheprovider --timeout=900 --continue-on-collection-errors",
               source_commits=[], add_only=True),
    engines=[dict(name="coq-proof", path="/verif/check", serves_properties=[c["property_id"] for c in checks],
                  kind_free_text="Coq 8.16 theorems over Gallina models regenerated from /repo by tools/py2coq (kernels) or hand-written and tied by executed correspondence (skeletons); QNum vm_compute correspondence; implementation-side theorem-consequence oracles")],
    checks=checks,
    notes="See DESIGN.md. known_findings.json lists genuine defects (known / fixed).",
    not_applicable=na,
)
json.dump(m, open(os.path.join(ROOT, "MANIFEST.json"), "w"), indent=1)
print(len(checks), "checks;", len(na), "not claimed")
