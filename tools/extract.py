"""Layer G: extract finite tables from /repo's AST (regenerated on every run) into coq/Gen/Tables.v:
  * for every datafit / penalty class: the methods it defines (with inheritance) and the attributes it has
    (constructor fields + get_spec),
  * for every solver: _datafit_required_attr / _penalty_required_attr, and from the body of _solve (and of the
    module-level kernels it calls with the datafit / penalty) every `datafit.m` / `penalty.m` it can touch, tagged
    with the condition under which the call site is reached (sparse / dense, fit_intercept, ws strategy),
  * the custom_checks facts that are syntactically evident (refuses sparse, requires group structure, datafit None).
Also writes tables.json for the Python side."""
import ast, os, sys, json

SOLVERS = {
    "AndersonCD": "skglm/solvers/anderson_cd.py", "ProxNewton": "skglm/solvers/prox_newton.py",
    "GroupBCD": "skglm/solvers/group_bcd.py", "GroupProxNewton": "skglm/solvers/group_prox_newton.py",
    "MultiTaskBCD": "skglm/solvers/multitask_bcd.py", "GramCD": "skglm/solvers/gram_cd.py",
    "FISTA": "skglm/solvers/fista.py", "LBFGS": "skglm/solvers/lbfgs.py", "PDCD_WS": "skglm/experimental/pdcd_ws.py",
}
COMMON = "skglm/solvers/common.py"
DATAFIT_FILES = ["skglm/datafits/base.py", "skglm/datafits/single_task.py", "skglm/datafits/group.py", "skglm/datafits/multi_task.py",
                 "skglm/experimental/sqrt_lasso.py", "skglm/experimental/quantile_regression.py"]
PENALTY_FILES = ["skglm/penalties/base.py", "skglm/penalties/separable.py", "skglm/penalties/block_separable.py", "skglm/penalties/non_separable.py"]
DATAFITS = ["Quadratic", "WeightedQuadratic", "Logistic", "QuadraticSVC", "Huber", "Poisson", "Gamma", "Cox",
            "QuadraticGroup", "LogisticGroup", "QuadraticMultiTask", "SqrtQuadratic", "Pinball"]
PENALTIES = ["L1", "L1_plus_L2", "WeightedL1", "MCPenalty", "WeightedMCPenalty", "SCAD", "IndicatorBox", "L0_5", "L2_3",
             "LogSumPenalty", "PositiveConstraint", "L2", "L2_1", "L2_05", "BlockMCPenalty", "BlockSCAD", "WeightedGroupL2",
             "WeightedL1GroupL2", "SLOPE"]


def parse(repo, rel):
    return ast.parse(open(os.path.join(repo, rel)).read())


def class_table(repo, files):
    classes = {}
    for rel in files:
        tree = parse(repo, rel)
        for node in tree.body:
            if isinstance(node, ast.ClassDef):
                methods = [m.name for m in node.body if isinstance(m, ast.FunctionDef)]
                attrs = set()
                for m in node.body:
                    if isinstance(m, ast.FunctionDef) and m.name in ("__init__", "get_spec"):
                        for n in ast.walk(m):
                            if isinstance(n, ast.Attribute) and isinstance(n.value, ast.Name) and n.value.id == "self" and isinstance(n.ctx, ast.Store):
                                attrs.add(n.attr)
                            if isinstance(n, ast.Tuple) and len(n.elts) == 2 and isinstance(n.elts[0], ast.Constant) and isinstance(n.elts[0].value, str):
                                attrs.add(n.elts[0].value)
                uses = set()
                for m in node.body:
                    if isinstance(m, ast.FunctionDef) and m.name not in ("__init__",):
                        for n in ast.walk(m):
                            if isinstance(n, ast.Attribute) and isinstance(n.value, ast.Name) and n.value.id == "self":
                                uses.add(n.attr)
                classes[node.name] = dict(methods=methods, attrs=sorted(attrs), uses=sorted(uses), bases=[ast.unparse(b) for b in node.bases], src=rel)
    # inheritance closure (within the table)
    for name, c in classes.items():
        seen = set()
        stack = list(c["bases"])
        while stack:
            b = stack.pop()
            if b in classes and b not in seen:
                seen.add(b)
                c["methods"] = sorted(set(c["methods"]) | set(classes[b]["methods"]))
                c["attrs"] = sorted(set(c["attrs"]) | set(classes[b]["attrs"]))
                stack += classes[b]["bases"]
    return classes


def cond_tags(test, sparse_names):
    """tags implied by an `if` test being true / false"""
    src = ast.unparse(test)
    if src in sparse_names or "issparse" in src:
        return ("sparse",), ("dense",)
    if src in ("self.fit_intercept", "fit_intercept"):
        return ("intercept",), ()
    if "ws_strategy" in src or "opt_strategy" in src:
        if "'subdiff'" in src or '"subdiff"' in src:
            return ("subdiff",), ("fixpoint",)
        if "fixpoint" in src:
            return ("fixpoint",), ()
    if src.startswith("hasattr("):
        return ("guarded:" + src,), ("guarded:not " + src,)
    return (), ()


def collect_calls(fn, objs, funcs, tags=(), depth=0, out=None, seen=None):
    """attribute uses `datafit.m` / `penalty.m` in fn, with the condition tags of their site; follows calls to
    module-level kernels that receive the objects"""
    out = out if out is not None else []
    seen = seen if seen is not None else set()
    sparse_names = {"is_sparse", "X_is_sparse"}

    def walk(stmts, tags):
        for s in stmts:
            if isinstance(s, ast.If):
                t_true, t_false = cond_tags(s.test, sparse_names)
                if "verbose" in ast.unparse(s.test):
                    continue
                scan_expr(s.test, tags)
                walk(s.body, tags + t_true)
                # elif ws_strategy == "fixpoint" handled by recursion (orelse is an If)
                walk(s.orelse, tags + t_false)
            elif isinstance(s, (ast.For, ast.While)):
                scan_expr(s.iter if isinstance(s, ast.For) else s.test, tags)
                walk(s.body, tags)
                walk(s.orelse, tags)
            elif isinstance(s, ast.Try):
                walk(s.body, tags); walk(s.finalbody, tags)
                for h in s.handlers:
                    walk(h.body, tags)
            elif isinstance(s, ast.FunctionDef):
                extra = ("sparse",) if s.name.startswith("s_") else (("dense",) if s.name.startswith("d_") else ())
                walk(s.body, tags + extra)
            else:
                scan_expr(s, tags)

    def scan_expr(node, tags):
        for n in ast.walk(node):
            if isinstance(n, ast.Attribute) and isinstance(n.value, ast.Name) and n.value.id in objs:
                out.append((objs[n.value.id], n.attr, tags + (("kernel",) if depth > 0 else ())))
            if isinstance(n, ast.Call):
                fname = None
                if isinstance(n.func, ast.Name):
                    fname = n.func.id
                elif isinstance(n.func, ast.Attribute) and isinstance(n.func.value, ast.Name) and n.func.attr.startswith("_"):
                    fname = n.func.attr
                if fname in funcs and (fname, tags) not in seen and depth < 4:
                    callee = funcs[fname]
                    params = [a.arg for a in callee.args.args]
                    m = {}
                    args = list(n.args)
                    if args and isinstance(args[0], ast.Starred):
                        args = [None] * 3 + args[1:]          # *X_bundles = (data, indptr, indices)
                    for pname, a in zip(params, args):
                        if isinstance(a, ast.Name) and a.id in objs:
                            m[pname] = objs[a.id]
                    if m:
                        seen.add((fname, tags))
                        collect_calls(callee, m, funcs, tags, depth + 1, out, seen)
    walk(fn.body, tags)
    return out


def solver_table(repo):
    common = {n.name: n for n in parse(repo, COMMON).body if isinstance(n, ast.FunctionDef)}
    table = {}
    for sname, rel in SOLVERS.items():
        tree = parse(repo, rel)
        funcs = dict(common)
        funcs.update({n.name: n for n in tree.body if isinstance(n, ast.FunctionDef)})
        cls = [n for n in tree.body if isinstance(n, ast.ClassDef) and n.name == sname][0]
        for m in cls.body:
            if isinstance(m, ast.FunctionDef) and m.name.startswith("_") and m.name != "_solve":
                funcs[m.name] = m
        req_d, req_p = [], []
        for n in cls.body:
            if isinstance(n, ast.Assign) and isinstance(n.targets[0], ast.Name):
                if n.targets[0].id == "_datafit_required_attr":
                    req_d = [e.value if isinstance(e, ast.Constant) else "|".join(x.value for x in e.elts) for e in n.value.elts]
                if n.targets[0].id == "_penalty_required_attr":
                    req_p = [e.value if isinstance(e, ast.Constant) else "|".join(x.value for x in e.elts) for e in n.value.elts]
        solve = [m for m in cls.body if isinstance(m, ast.FunctionDef) and m.name == "_solve"][0]
        checks = [m for m in cls.body if isinstance(m, ast.FunctionDef) and m.name == "custom_checks"]
        csrc = ast.unparse(checks[0]) if checks else ""
        objs = {"datafit": "datafit", "penalty": "penalty"}
        calls = sorted(set(collect_calls(solve, objs, funcs)))
        table[sname] = dict(
            req_datafit=req_d, req_penalty=req_p, calls=[dict(obj=o, attr=a, tags=list(t)) for o, a, t in calls],
            refuses_sparse=("issparse(X)" in csrc and "raise ValueError" in csrc and "support_sparse" not in csrc),
            checks_sparse_suffix=("support_sparse" in csrc),
            requires_groups=("check_group_compatible" in csrc),
            refuses_group_datafit=("hasattr(datafit, 'grp_ptr')" in csrc and "raise ValueError" in csrc and "check_group_compatible" not in csrc),
            requires_no_datafit=("datafit is not None" in csrc),
            checks_subdiff=("subdiff_distance" in csrc),
            src=rel)
    return table


def solve_proxy(repo):
    """BaseSolver.solve (skglm/solvers/base.py): under which guards `self._validate` is called, which attributes of `self`
    the proxy stores, whether it ends with `return self._solve(X, y, datafit, penalty, w_init, Xw_init)`, and which solver
    classes override `solve` (none should: validation would be bypassed)."""
    tree = parse(repo, "skglm/solvers/base.py")
    cls = [n for n in tree.body if isinstance(n, ast.ClassDef) and n.name == "BaseSolver"][0]
    fn = [m for m in cls.body if isinstance(m, ast.FunctionDef) and m.name == "solve"][0]
    guards, stores = None, []

    def walk(stmts, conds):
        nonlocal guards
        for s in stmts:
            if isinstance(s, ast.If):
                walk(s.body, conds + [ast.unparse(s.test)])
                walk(s.orelse, conds + ["not (" + ast.unparse(s.test) + ")"])
                continue
            if isinstance(s, (ast.For, ast.While, ast.Try, ast.With)):
                walk(getattr(s, "body", []), conds + ["<" + type(s).__name__ + ">"])
                continue
            for n in ast.walk(s):
                if isinstance(n, ast.Call) and isinstance(n.func, ast.Attribute) and n.func.attr == "_validate":
                    guards = list(conds) if guards is None else guards + ["<second call>"]
            if isinstance(s, (ast.Assign, ast.AugAssign, ast.AnnAssign)):
                tg = s.targets if isinstance(s, ast.Assign) else [s.target]
                for x in tg:
                    for n in ast.walk(x):
                        if isinstance(n, ast.Attribute) and isinstance(n.value, ast.Name) and n.value.id == "self":
                            stores.append(n.attr)
    walk(fn.body, [])
    last = fn.body[-1]
    ret_ok = (isinstance(last, ast.Return) and ast.unparse(last.value) == "self._solve(X, y, datafit, penalty, w_init, Xw_init)")
    overrides = []
    for sname, rel in list(SOLVERS.items()):
        for n in parse(repo, rel).body:
            if isinstance(n, ast.ClassDef):
                for m in n.body:
                    if isinstance(m, ast.FunctionDef) and m.name in ("solve", "_validate"):
                        overrides.append(f"{n.name}.{m.name}")
    return dict(validate_guards=guards if guards is not None else ["<never called>"], self_stores=stores, returns_solve=ret_ok, overrides=overrides)


def coq_str(s):
    return '"' + s + '"'


def coq_list(xs):
    return "[" + "; ".join(xs) + "]"


def main(repo, outdir):
    dfs = class_table(repo, DATAFIT_FILES)
    pens = class_table(repo, PENALTY_FILES)
    sol = solver_table(repo)
    missing = [c for c in DATAFITS if c not in dfs] + [c for c in PENALTIES if c not in pens]
    tables = dict(datafits={k: dfs[k] for k in DATAFITS if k in dfs}, penalties={k: pens[k] for k in PENALTIES if k in pens}, solvers=sol,
                  missing=missing)
    json.dump(tables, open(os.path.join(outdir, "tables.json"), "w"), indent=1)
    lines = ["(* GENERATED by tools/extract.py from /repo's AST -- do not edit. *)",
             "From Coq Require Import String List Bool.", "Import ListNotations.", "Open Scope string_scope.", "",
             "Record cls := { c_name : string; c_methods : list string; c_attrs : list string; c_uses : list string }.",
             "Record call := { k_obj : string; k_attr : string; k_tags : list string }.",
             "Record solver := { s_name : string; s_req_datafit : list string; s_req_penalty : list string; s_calls : list call;",
             "  s_refuses_sparse : bool; s_checks_sparse_suffix : bool; s_requires_groups : bool; s_requires_no_datafit : bool; s_checks_subdiff : bool;",
             "  s_refuses_group_datafit : bool }.", ""]

    def cls(name, c):
        return "{| c_name := %s; c_methods := %s; c_attrs := %s; c_uses := %s |}" % (coq_str(name), coq_list([coq_str(m) for m in c["methods"]]), coq_list([coq_str(a) for a in c["attrs"]]), coq_list([coq_str(a) for a in c["uses"]]))
    lines.append("Definition datafits : list cls := " + coq_list(["\n  " + cls(k, v) for k, v in tables["datafits"].items()]) + ".")
    lines.append("Definition penalties : list cls := " + coq_list(["\n  " + cls(k, v) for k, v in tables["penalties"].items()]) + ".")

    def b(x):
        return "true" if x else "false"
    sl = []
    for k, v in sol.items():
        calls = coq_list(["{| k_obj := %s; k_attr := %s; k_tags := %s |}" % (coq_str(c["obj"]), coq_str(c["attr"]), coq_list([coq_str(t) for t in c["tags"] if not t.startswith("guarded:")] + ([coq_str("guarded")] if any(t.startswith("guarded:") for t in c["tags"]) else []))) for c in v["calls"]])
        sl.append("\n  {| s_name := %s; s_req_datafit := %s; s_req_penalty := %s; s_calls := %s;\n     s_refuses_sparse := %s; s_checks_sparse_suffix := %s; s_requires_groups := %s; s_requires_no_datafit := %s; s_checks_subdiff := %s;\n     s_refuses_group_datafit := %s |}" % (
            coq_str(k), coq_list([coq_str(x) for x in v["req_datafit"]]), coq_list([coq_str(x) for x in v["req_penalty"]]), calls,
            b(v["refuses_sparse"]), b(v["checks_sparse_suffix"]), b(v["requires_groups"]), b(v["requires_no_datafit"]), b(v["checks_subdiff"]), b(v["refuses_group_datafit"])))
    lines.append("Definition solvers : list solver := " + coq_list(sl) + ".")
    sp = solve_proxy(repo)
    tables["solve_proxy"] = sp
    json.dump(tables, open(os.path.join(outdir, "tables.json"), "w"), indent=1)
    lines.append("(* BaseSolver.solve: guards of the self._validate call, attributes of self it stores, final return, overrides *)")
    lines.append("Definition solve_validate_guards : list string := " + coq_list([coq_str(x) for x in sp["validate_guards"]]) + ".")
    lines.append("Definition solve_self_stores : list string := " + coq_list([coq_str(x) for x in sp["self_stores"]]) + ".")
    lines.append("Definition solve_returns_solve : bool := " + b(sp["returns_solve"]) + ".")
    lines.append("Definition solve_overrides : list string := " + coq_list([coq_str(x) for x in sp["overrides"]]) + ".")
    text = "\n".join(lines) + "\n"
    p = os.path.join(outdir, "Tables.v")
    if not os.path.exists(p) or open(p).read() != text:
        open(p, "w").write(text)
    if missing:
        print("EXTRACT-ABORT classes not found:", missing)
        return 2
    return 0


# ------------------------------------------------------------------ write sets (C18)
WRITE_FILES = ["skglm/solvers/anderson_cd.py", "skglm/solvers/prox_newton.py", "skglm/solvers/group_bcd.py",
               "skglm/solvers/group_prox_newton.py", "skglm/solvers/multitask_bcd.py", "skglm/solvers/gram_cd.py", "skglm/solvers/fista.py",
               "skglm/solvers/lbfgs.py", "skglm/solvers/common.py", "skglm/solvers/base.py", "skglm/experimental/pdcd_ws.py",
               "skglm/datafits/single_task.py", "skglm/datafits/group.py", "skglm/datafits/multi_task.py", "skglm/penalties/separable.py",
               "skglm/penalties/block_separable.py", "skglm/penalties/non_separable.py", "skglm/utils/prox_funcs.py", "skglm/utils/sparse_ops.py",
               "skglm/utils/anderson.py", "skglm/estimators.py", "skglm/experimental/sqrt_lasso.py", "skglm/experimental/reweighted.py",
               "skglm/experimental/quantile_regression.py", "skglm/utils/data.py", "skglm/utils/jit_compilation.py"]


def _root_name(node):
    while isinstance(node, (ast.Subscript, ast.Attribute)):
        node = node.value
    return node.id if isinstance(node, ast.Name) else None


def function_writes(repo):
    """qualified function -> (params, directly written params, calls [(callee name, [arg root names])])"""
    funcs = {}
    for rel in WRITE_FILES:
        tree = parse(repo, rel)
        defs = []
        for node in tree.body:
            if isinstance(node, ast.FunctionDef):
                defs.append((node.name, node))
            elif isinstance(node, ast.ClassDef):
                for m in node.body:
                    if isinstance(m, ast.FunctionDef):
                        defs.append((f"{node.name}.{m.name}", m))
        for qname, fn in defs:
            params = [a.arg for a in fn.args.args + fn.args.kwonlyargs]
            PASS = {"check_array", "asarray", "asfortranarray", "ascontiguousarray", "atleast_2d", "atleast_1d", "ravel", "reshape", "view"}

            def alias_roots(e):
                """params the value of e may alias (views and pass-through conversions included)"""
                if isinstance(e, ast.Name):
                    return set(alias.get(e.id, set())) | ({e.id} if e.id in params else set())
                if isinstance(e, ast.IfExp):
                    return alias_roots(e.body) | alias_roots(e.orelse)
                if isinstance(e, ast.Subscript):
                    return alias_roots(e.value)
                if isinstance(e, ast.Attribute) and e.attr in ("T", "data", "indices", "indptr"):
                    return alias_roots(e.value)
                if isinstance(e, ast.Call):
                    fname = e.func.id if isinstance(e.func, ast.Name) else (e.func.attr if isinstance(e.func, ast.Attribute) else "")
                    if fname in PASS:
                        out = set()
                        for a in e.args[:1]:
                            out |= alias_roots(a)
                        if isinstance(e.func, ast.Attribute):
                            out |= alias_roots(e.func.value) if fname in ("ravel", "reshape", "view") else set()
                        return out
                return set()
            alias = {}
            rebound = set()
            direct = set()
            calls = []
            body_nodes = []
            for st in ast.walk(fn):
                body_nodes.append(st)
            # two passes so that aliases defined later in loops are seen
            for _ in range(2):
                for n in body_nodes:
                    if isinstance(n, ast.Assign) and len(n.targets) == 1:
                        tg, vals = n.targets[0], n.value
                        pairs = list(zip(tg.elts, vals.elts)) if isinstance(tg, ast.Tuple) and isinstance(vals, ast.Tuple) and len(tg.elts) == len(vals.elts) else [(tg, vals)]
                        for t, v in pairs:
                            if isinstance(t, ast.Name):
                                r = alias_roots(v) - {t.id}
                                if r:
                                    alias[t.id] = alias.get(t.id, set()) | r

            def roots_of_target(t):
                r = _root_name(t)
                if r is None:
                    return set()
                out = set(alias.get(r, set()))
                if r in params and r not in alias:
                    out.add(r)
                elif r in params:
                    out.add(r)
                return out
            for n in body_nodes:
                if isinstance(n, ast.Assign):
                    for t in n.targets:
                        for tt in (t.elts if isinstance(t, ast.Tuple) else [t]):
                            if isinstance(tt, ast.Name):
                                rebound.add(tt.id)
                            elif isinstance(tt, ast.Subscript):
                                direct |= roots_of_target(tt)
                            elif isinstance(tt, ast.Attribute):
                                r = _root_name(tt)
                                if r in params:
                                    direct.add(f"{r}.{tt.attr}")
                elif isinstance(n, ast.AugAssign):
                    if isinstance(n.target, ast.Name):
                        r = n.target.id
                        if r in alias:
                            direct |= alias[r]
                        elif r in params and r not in rebound:
                            direct.add(r)
                    elif isinstance(n.target, ast.Subscript):
                        direct |= roots_of_target(n.target)
                    elif isinstance(n.target, ast.Attribute):
                        r = _root_name(n.target)
                        if r in params:
                            direct.add(f"{r}.{n.target.attr}")
                elif isinstance(n, ast.Call):
                    cname = n.func.id if isinstance(n.func, ast.Name) else (n.func.attr if isinstance(n.func, ast.Attribute) else None)
                    if cname:
                        calls.append((cname, [sorted(alias_roots(a)) if not isinstance(a, ast.Starred) else [] for a in n.args]))
            funcs[f"{rel}:{qname}"] = dict(params=params, direct=sorted(direct), calls=calls, rebound=sorted(rebound), src=rel)
    # close under calls (by callee simple name; methods resolve to the union over classes)
    byname = {}
    for q, f in funcs.items():
        byname.setdefault(q.split(":")[1].split(".")[-1], []).append(q)
    writes = {q: set(f["direct"]) for q, f in funcs.items()}
    changed = True
    while changed:
        changed = False
        for q, f in funcs.items():
            for cname, args in f["calls"]:
                for callee in byname.get(cname, []):
                    cp = funcs[callee]["params"]
                    cp2 = cp[1:] if cp and cp[0] == "self" else cp
                    for pos, roots in enumerate(args):
                        if pos < len(cp2) and cp2[pos] in writes[callee]:
                            for a in roots:
                                if a in f["params"] and a not in writes[q]:
                                    writes[q].add(a)
                                    changed = True
    return {q: dict(params=f["params"], writes=sorted(writes[q])) for q, f in funcs.items()}


def main_writes(repo, outdir):
    fw = function_writes(repo)
    json.dump(fw, open(os.path.join(outdir, "writes.json"), "w"), indent=1)
    lines = ["(* GENERATED by tools/extract.py (write sets) from /repo's AST -- do not edit. *)",
             "From Coq Require Import String List Bool.", "Import ListNotations.", "Open Scope string_scope.", "",
             "Record fn := { f_name : string; f_params : list string; f_writes : list string }.",
             "Definition functions : list fn := ["]
    items = []
    for q, f in sorted(fw.items()):
        items.append("  {| f_name := %s; f_params := %s; f_writes := %s |}" % (coq_str(q), coq_list([coq_str(p) for p in f["params"]]), coq_list([coq_str(w) for w in f["writes"]])))
    lines.append(";\n".join(items))
    lines.append("].")
    # state that can leak between fits: memoised functions of the compilation helper, and whether compiled_clone builds a
    # NEW instance on every call (its return value is a constructor call on the cached class, never a cached object)
    jt = parse(repo, "skglm/utils/jit_compilation.py")
    cached, fresh, module_state = [], False, []
    for node in jt.body:
        if isinstance(node, ast.FunctionDef):
            if any("cache" in ast.unparse(d) for d in node.decorator_list):
                cached.append(node.name)
            if node.name == "compiled_clone":
                rets = [n for n in ast.walk(node) if isinstance(n, ast.Return)]
                fresh = (len(rets) == 1 and isinstance(rets[0].value, ast.Call) and isinstance(rets[0].value.func, ast.Call)
                         and ast.unparse(rets[0].value.func.func) == "jit_cached_compile"
                         and ast.unparse(rets[0].value) .endswith("(**instance.params_to_dict())"))
        elif isinstance(node, (ast.Assign, ast.AugAssign, ast.AnnAssign)):
            module_state.append(ast.unparse(node)[:60])
    lines.append("Definition cached_functions : list string := " + coq_list([coq_str(x) for x in cached]) + ".")
    lines.append("Definition compiled_clone_builds_fresh_instance : bool := " + ("true" if fresh else "false") + ".")
    lines.append("Definition jit_module_state : list string := " + coq_list([coq_str(x) for x in module_state]) + ".")
    text = "\n".join(lines) + "\n"
    p = os.path.join(outdir, "Writes.v")
    if not os.path.exists(p) or open(p).read() != text:
        open(p, "w").write(text)
    return 0


# ------------------------------------------------------------------ estimator configurations (C11)
EST_FILES = ["skglm/estimators.py", "skglm/experimental/sqrt_lasso.py"]
ESTIMATORS = ["GeneralizedLinearEstimator", "Lasso", "WeightedLasso", "ElasticNet", "MCPRegression", "SparseLogisticRegression",
              "LinearSVC", "CoxEstimator", "MultiTaskLasso", "GroupLasso", "SqrtLasso"]


def ctor_signatures(repo):
    sigs = {}
    for rel in DATAFIT_FILES + PENALTY_FILES + list(SOLVERS.values()):
        for node in parse(repo, rel).body:
            if isinstance(node, ast.ClassDef):
                for m in node.body:
                    if isinstance(m, ast.FunctionDef) and m.name == "__init__":
                        sigs[node.name] = [a.arg for a in m.args.args[1:]]
    return sigs


def estimator_configs(repo):
    sigs = ctor_signatures(repo)
    out = {}
    for rel in EST_FILES:
        for node in parse(repo, rel).body:
            if isinstance(node, ast.ClassDef) and node.name in ESTIMATORS:
                calls = set()
                for m in node.body:
                    if isinstance(m, ast.FunctionDef) and m.name in ("fit",) or (isinstance(m, ast.FunctionDef) and m.name == "path" and node.name == "SqrtLasso"):
                        for n in ast.walk(m):
                            if isinstance(n, ast.Call) and isinstance(n.func, ast.Name) and n.func.id in sigs:
                                names = sigs[n.func.id]
                                kws = {}
                                for i, a in enumerate(n.args):
                                    kws[names[i] if i < len(names) else f"arg{i}"] = ast.unparse(a)
                                for k in n.keywords:
                                    kws[k.arg] = ast.unparse(k.value)
                                kws.pop("verbose", None)
                                calls.add(n.func.id + "(" + ", ".join(f"{k}={v}" for k, v in sorted(kws.items())) + ")")
                out[node.name] = sorted(calls)
    return out


def main_configs(repo, outdir):
    cfg = estimator_configs(repo)
    json.dump(cfg, open(os.path.join(outdir, "configs.json"), "w"), indent=1)
    lines = ["(* GENERATED by tools/extract.py (estimator configurations) from /repo's AST -- do not edit. *)",
             "From Coq Require Import String List.", "Import ListNotations.", "Open Scope string_scope.", "",
             "Definition configs : list (string * list string) := ["]
    lines.append(";\n".join("  (%s, %s)" % (coq_str(k), coq_list(["\n     " + coq_str(c) for c in v])) for k, v in sorted(cfg.items())))
    lines.append("].")
    text = "\n".join(lines) + "\n"
    p = os.path.join(outdir, "Configs.v")
    if not os.path.exists(p) or open(p).read() != text:
        open(p, "w").write(text)
    return 0


if __name__ == "__main__":
    import argparse
    ap = argparse.ArgumentParser()
    ap.add_argument("--repo", default="/repo")
    ap.add_argument("--out", default=os.path.join(os.path.dirname(os.path.abspath(__file__)), "..", "coq", "Gen"))
    a = ap.parse_args()
    rc = main(a.repo, a.out)
    main_writes(a.repo, a.out)
    main_configs(a.repo, a.out)
    sys.exit(rc)




