"""Run the repository test suite (guard off) and compare with /root/.vp/BASELINE.json stable_pass."""
import json, subprocess, sys, xml.etree.ElementTree as ET, os, time
t0 = time.time()
out = "/tmp/skglm_baseline_junit.xml"
subprocess.run(f"cd /repo && /venv/bin/python -m pytest -ra -q -p no:cacheprovider --timeout=900 "
               f"--continue-on-collection-errors --junitxml={out} > /tmp/skglm_baseline.log 2>&1", shell=True)
base = json.load(open("/root/.vp/BASELINE.json"))
want = set(base["stable_pass"])
got = set()
for tc in ET.parse(out).getroot().iter("testcase"):
    if not any(ch.tag in ("failure", "error", "skipped") for ch in tc):
        got.add(f"{tc.get('classname')}::{tc.get('name')}")
missing = sorted(want - got)
print(f"stable_pass expected {len(want)}, passing now {len(want & got)}, missing {len(missing)}; wall {time.time()-t0:.0f}s")
for m in missing[:40]:
    print("  MISSING", m)
sys.exit(1 if missing else 0)
