"""Correspondence for the solver skeletons other than AndersonCD (coq/Skel/{GramCD,...}.v).

GramCD: END-TO-END.  The real GramCD._solve runs with the real compiled `_gram_cd_epoch` and real compiled
penalties on small dyadic problems; only AndersonAcceleration is replaced by the dyadic mock accelerator
(np.linalg.solve is not exact).  The Gallina side is Skel/GramCD.v (hand-written outer loop) instantiated with the
REGENERATED Gen/KernGram.v kernel and the REGENERATED penalty methods on QNum, evaluated by vm_compute; it must
agree on the returned w, on every history entry and on stop_crit.
"""
import math, random
import numpy as np
from scipy import sparse
from tvlib import q, z, b, vq, vz, xq, lst, mat
import kernels
from harness_acd import MockAccel, NpProxy


class AndersonNp:
    """numpy for skglm/utils/anderson.py with a dyadic stand-in for np.linalg.solve (mirrors mock_solve_z of Skel/CorrSolvers.v):
    LinAlgError when the first difference vector is zero; otherwise z_k = 1 except at the LAST non-zero difference vector, which
    gets 2^ceil(log2 K) - (K - 1): the weights still depend on the iterates, and they sum to a power of two, so the extrapolation
    coefficients z / sum(z) are dyadic and the mock traces stay exact in binary64"""
    def __getattr__(self, k): return getattr(np, k)

    class linalg:
        LinAlgError = np.linalg.LinAlgError

        @staticmethod
        def solve(A, b_):
            if A[0, 0] == 0:
                raise np.linalg.LinAlgError("singular")
            n = len(b_)
            m = 1
            while m < n:
                m *= 2
            z = np.ones(n)
            z[max(k for k in range(n) if A[k, k] != 0)] = float(m - (n - 1))
            return z


def patched_anderson():
    """context manager: the REAL AndersonAcceleration class with only np.linalg.solve replaced"""
    import contextlib
    import skglm.utils.anderson as an

    @contextlib.contextmanager
    def cm():
        saved = an.np
        an.np = AndersonNp()
        try:
            yield an.AndersonAcceleration
        finally:
            an.np = saved
    return cm()


def make_aa_cases(rng, n_cases):
    cases = []
    for k in range(n_cases):
        K = rng.choice([1, 2, 3, 5])
        dw, dx = rng.randint(1, 3), rng.randint(1, 3)
        D = [j / 4 for j in range(-8, 9)]
        calls = []
        for c in range(rng.randint(1, 3 * (K + 2))):
            if calls and rng.random() < 0.25:
                calls.append(calls[-1])                       # repeated iterate: a zero difference vector
            else:
                calls.append(([rng.choice(D) for _ in range(dw)], [rng.choice(D) for _ in range(dx)]))
        with patched_anderson() as AA:
            acc = AA(K=K)
            obs = []
            for w, Xw in calls:
                wo, xo, e = acc.extrapolate(np.array(w, dtype=float), np.array(Xw, dtype=float))
                obs.append((list(map(float, wo)), list(map(float, xo)), bool(e)))
        expr = f"aa_run {K} aa_init " + lst([f"({vq(w)}, {vq(x)})" for w, x in calls])
        exp = lst([f"({vq(w)}, {vq(x)}, {b(e)})" for w, x, e in obs])
        cases.append((f"aa#{k} K={K} calls={calls} -> {obs}", expr, "chk_aa", exp))
    return cases


AA_IMPORTS = ["Skel.AndersonCD", "Skel.Generic", "Skel.Anderson", "Skel.CorrSolvers"]


def _pen_lambdas(name, fd):
    """Gallina closures (score, prox, value) of a generated separable penalty on QNum"""
    sig = kernels.gen_sig()

    def part(meth):
        f = f"{name}_{meth}"
        return f"(@{f} Q _ {kernels.fields_of(sig, f, fd)})"
    value = part("value")
    if name in ("SCAD", "L0_5", "L2_3", "LogSumPenalty"):
        value = f"(fin_value {value})"
    return part("subdiff_distance"), part("prox_1d"), value


GRAM_PENS = ["L1", "L1_plus_L2", "WeightedL1", "MCPenalty", "WeightedMCPenalty", "SCAD", "IndicatorBox", "PositiveConstraint"]


def gram_problem(rng):
    n = rng.choice([4, 8])
    p = rng.randint(1, 4)
    X = np.zeros((n, p))
    for j in range(p):
        k = rng.choice([0, 1, 2, 4, 4]) if rng.random() < 0.85 else n
        rows = rng.sample(range(n), min(k, n))
        for i in rows:
            X[i, j] = rng.choice([-1.0, 1.0])
    if p >= 2 and rng.random() < 0.2:
        X[:, 1] = X[:, 0]                                   # duplicated column
    elif p >= 2 and rng.random() < 0.4:
        X[:, 1] = X[:, 0]                                   # strongly correlated pair: equal except one entry
        i = rng.randrange(n)
        X[i, 1] = -X[i, 1] if X[i, 1] != 0 else 1.0
    y = np.array([rng.choice([k / 2 for k in range(-12, 13)]) for _ in range(n)])
    return X, y


def run_real_gram(X, y, pen, cfg, w_init, as_sparse):
    import skglm.solvers.gram_cd as g
    from skglm.utils.jit_compilation import compiled_clone
    import warnings
    import skglm.utils.anderson as an
    saved = an.np
    try:
        an.np = AndersonNp()                        # the REAL AndersonAcceleration runs; only np.linalg.solve is replaced
        solver = g.GramCD(max_iter=cfg["max_iter"], use_acc=cfg["use_acc"], greedy_cd=cfg["greedy"], tol=cfg["tol"],
                          fit_intercept=False)
        Xs = sparse.csc_matrix(X) if as_sparse else np.asfortranarray(X)
        w0 = None if w_init is None else np.array(w_init, dtype=float)
        try:
            with warnings.catch_warnings():
                warnings.simplefilter("ignore")
                w, objs, stop = solver._solve(Xs, y, None, compiled_clone(pen), w0, None)
        except (ValueError, IndexError, TypeError, ZeroDivisionError, UnboundLocalError) as e:
            return dict(err=True, exc=repr(e))
        if not (np.all(np.isfinite(w))):
            return dict(err=True, exc="non-finite w")
        return dict(err=False, w=list(map(float, w)), obj=list(map(float, objs)), stop=float(stop))
    finally:
        an.np = saved


def make_gram_cases(rng, n):
    import skglm.penalties.separable as sep
    cases, dist = [], dict(err=0, iters={}, acc=0, greedy=0, warm=0, sparse=0, penalties={})
    for k in range(n):
        X, y = gram_problem(rng)
        nn, p = X.shape
        insts = {nm: (obj, fd) for nm, obj, _, fd in kernels._pen_instances(rng, sep, p)}
        pname = rng.choice(GRAM_PENS)
        pen, fd = insts[pname]
        # no tol = 0 and no tol below ~1e-6: the Gram arithmetic is not exact in binary64 (a column with 3 non-zeros has the step
        # 4/3), so at stop_crit ~ 1e-16 or objective gaps below one ulp the float run and the exact run may decide differently
        use_acc = rng.random() < 0.6
        cfg = dict(max_iter=rng.choice([7, 8, 9, 14, 15] if use_acc and rng.random() < 0.7 else [0, 1, 2, 3, 5, 8]), use_acc=use_acc,
                   greedy=rng.random() < (0.15 if use_acc else 0.5),
                   tol=rng.choice([2 ** -20, 2 ** -20, 2 ** -12, 2 ** -4, 0.5]))
        w_init = None
        if rng.random() < 0.4:
            w_init = [rng.choice([0.0, 0.0, 0.25, 0.5, -0.5, 1.0]) for _ in range(p)]
            if fd.get("positive") == "true" or pname in ("IndicatorBox", "PositiveConstraint"):
                w_init = [abs(v) for v in w_init]
        sp = rng.random() < 0.3
        obs = run_real_gram(X, y, pen, cfg, w_init, sp)
        score, prox, value = _pen_lambdas(pname, fd)
        wi = "None" if w_init is None else f"(Some {vq(w_init)})"
        expr = (f"gram_case_aa {mat(X)} {vq(y)} {cfg['max_iter']} {q(cfg['tol'])} {b(cfg['use_acc'])} {b(cfg['greedy'])} "
                f"{score} {prox} {value} {wi}")
        if obs["err"]:
            o = "{| or_err := true; or_w := []; or_obj := []; or_stop := XBad |}"
            dist["err"] += 1
        else:
            o = "{| or_err := false; or_w := %s; or_obj := %s; or_stop := %s |}" % (
                vq(obs["w"]), lst([xq(v) for v in obs["obj"]]), xq(obs["stop"]))
            dist["iters"][len(obs["obj"])] = dist["iters"].get(len(obs["obj"]), 0) + 1
        dist["acc"] += cfg["use_acc"]; dist["greedy"] += cfg["greedy"]; dist["warm"] += w_init is not None; dist["sparse"] += sp
        dist["penalties"][pname] = dist["penalties"].get(pname, 0) + 1
        label = f"gram#{k} pen={pname}{fd} cfg={cfg} sparse={sp} X={X.tolist()} y={y.tolist()} w_init={w_init} -> {obs}"
        cases.append((label, expr, "chk_gram_aa", o))
    return cases, dist


GRAM_IMPORTS = ["Gen.ProxFuncs", "Gen.PenSeparable", "Gen.KernGram", "Skel.AndersonCD", "Skel.Generic", "Skel.GramCD", "Skel.Anderson",
                "Skel.CorrSolvers"]


# ------------------------------------------------------------------ GroupBCD against the dyadic mock kernels
import harness_acd as _ha


class _GDatafit(_ha.MockDatafit):
    def value(self, y, w, Xw):                      # receives the full w (intercept entry included): only the p features count
        return sum((Xw[j % len(Xw)] - self.M.T[j]) ** 2 * self.M.a[j] / 2 for j in range(self.M.p))


class _GPenalty(_ha.MockPenalty):
    @property
    def grp_ptr(self): return np.arange(self.M.p + 1)
    @property
    def grp_indices(self): return np.arange(self.M.p)
    def generalized_support(self, w): return np.asarray(w)[:self.M.p] != 0


def run_real_bcd(M, cfg, w_init, Xw_init, sparse_X, n):
    import skglm.solvers.group_bcd as gb
    names = ("_bcd_epoch", "_bcd_epoch_sparse", "_construct_grad", "_construct_grad_sparse", "dist_fix_point_bcd",
             "AndersonAcceleration", "np")
    saved = {k: getattr(gb, k) for k in names}

    def ep_d(X, y, w, Xw, lc, datafit, penalty, ws): M.epoch(w, Xw, ws)
    def ep_s(d, ip, ix, y, w, Xw, lc, datafit, penalty, ws): M.epoch(w, Xw, ws)
    def cg(X, y, w, Xw, datafit, ws): return np.array([M.g_at(Xw, j) for j in ws])
    def cg_s(d, ip, ix, y, w, Xw, datafit, ws): return np.array([M.g_at(Xw, j) for j in ws])
    def fixp(w, grad, lip_ws, datafit, penalty, ws): return np.array([abs(grad[idx]) * lip_ws[idx] for idx, j in enumerate(ws)])
    try:
        gb._bcd_epoch, gb._bcd_epoch_sparse, gb._construct_grad, gb._construct_grad_sparse = ep_d, ep_s, cg, cg_s
        gb.dist_fix_point_bcd, gb.AndersonAcceleration, gb.np = fixp, _ha.MockAccel, _ha.NpProxy()
        p = M.p
        X = np.zeros((n, p))
        if sparse_X:
            X = sparse.csc_matrix(X)
        solver = gb.GroupBCD(max_iter=cfg["max_iter"], max_epochs=cfg["max_epochs"], p0=cfg["p0"], tol=cfg["tol"],
                             ws_strategy="fixpoint" if cfg["fixpoint"] else "subdiff", fit_intercept=cfg["fit_intercept"])
        w0 = None if w_init is None else np.array(w_init, dtype=float)
        x0 = None if Xw_init is None else np.array(Xw_init, dtype=float)
        M.counts = dict(epochs=0, accepts=0)
        try:
            w, obj, stop = solver._solve(X, np.zeros(n), _GDatafit(M), _GPenalty(M), w0, x0)
        except (ValueError, IndexError, TypeError, AttributeError, ZeroDivisionError) as e:
            return dict(err=True, exc=repr(e))
        return dict(err=False, w=list(map(float, w)), Xw=None if x0 is None else list(map(float, x0)), obj=list(map(float, obj)),
                    stop=float(stop), iters=len(obj), epochs=M.counts["epochs"])
    finally:
        for k, v in saved.items():
            setattr(gb, k, v)


def make_bcd_cases(rng, n_cases):
    cases, dist = [], dict(err=0, iters={}, epochs_total=0, sparse=0, warm=0, fixpoint=0, intercept=0, n_ne_p=0)
    for k in range(n_cases):
        M, cfg, w_init, Xw_init, sp, n = _ha.gen_case(rng)
        if rng.random() < 0.5:
            cfg["max_epochs"] = rng.choice([7, 8, 11, 12, 21])          # reach the extrapolation calls of the persistent accelerator
        _ha.cap_budget(cfg)
        if w_init is not None and rng.random() < 0.1:
            Xw_init = None                                             # w_init without Xw_init: the source dereferences None
        obs = run_real_bcd(M, cfg, w_init, Xw_init, sp, n)
        cfgc = ("{| max_iter := %d; max_epochs := %d; p0 := %s; tol := %s; fixpoint := %s; fit_intercept := %s; "
                "n_features := %d; n_samples := %d |}" % (cfg["max_iter"], cfg["max_epochs"], z(cfg["p0"]), q(cfg["tol"]),
                                                          b(cfg["fixpoint"]), b(cfg["fit_intercept"]), M.p, n))
        wi = "None" if w_init is None else f"(Some {vq(w_init)})"
        xi = "None" if Xw_init is None else f"(Some {vq(Xw_init)})"
        expr = f"bsolve {cfgc} (mock_kernels_g {M.coq()} {M.p}) {M.p} {wi} {xi}"
        if obs["err"]:
            o = "{| ob_err := true; ob_w := []; ob_Xw := []; ob_obj := []; ob_stop := XBad; ob_iters := 0; ob_epochs := 0; ob_accepts := 0 |}"
            has_buf = False
            dist["err"] += 1
        else:
            has_buf = obs["Xw"] is not None
            o = ("{| ob_err := false; ob_w := %s; ob_Xw := %s; ob_obj := %s; ob_stop := %s; ob_iters := %d; ob_epochs := %d; "
                 "ob_accepts := 0 |}" % (vq(obs["w"]), vq(obs["Xw"]) if has_buf else "[]", lst([xq(x) for x in obs["obj"]]),
                                         xq(obs["stop"]), obs["iters"], obs["epochs"]))
            dist["iters"][obs["iters"]] = dist["iters"].get(obs["iters"], 0) + 1
            dist["epochs_total"] += obs["epochs"]
        dist["sparse"] += sp; dist["warm"] += w_init is not None; dist["fixpoint"] += cfg["fixpoint"]
        dist["intercept"] += cfg["fit_intercept"]; dist["n_ne_p"] += n != M.p
        label = (f"bcd#{k} n_samples={n} cfg={cfg} sparse={sp} w_init={w_init} Xw_init={Xw_init} T={M.T} a={M.a} lip={M.lip} "
                 f"alpha={M.alpha} B={M.B} pos={M.positive} thr={M.thr} -> {obs}")
        cases.append((label, expr, f"chk_bcd {b(has_buf)}", o))
    return cases, dist


# ------------------------------------------------------------------ FISTA end to end (Quadratic datafit, real penalties)
FISTA_PENS = ["L1", "L1_plus_L2", "WeightedL1", "MCPenalty", "WeightedMCPenalty", "SCAD", "IndicatorBox", "PositiveConstraint"]


def make_fista_cases(rng, n_cases):
    import skglm.penalties.separable as sep
    import skglm.solvers.fista as fi
    from skglm.datafits import Quadratic
    from skglm.utils.jit_compilation import compiled_clone
    cases, dist = [], dict(err=0, iters={}, warm=0, sparse=0, penalties={})
    for k in range(n_cases):
        X, y = gram_problem(rng)
        if not np.any(X):
            X[0, 0] = 1.0
        n, p = X.shape
        insts = {nm: (obj, fd) for nm, obj, _, fd in kernels._pen_instances(rng, sep, p)}
        pname = rng.choice(FISTA_PENS)
        pen, fd = insts[pname]
        cfg = dict(max_iter=rng.choice([0, 1, 2, 3, 5, 8]), tol=rng.choice([2 ** -30, 2 ** -12, 2 ** -4, 0.5]))
        w_init = None
        if rng.random() < 0.4:
            w_init = [rng.choice([0.0, 0.0, 0.25, 0.5, -0.5, 1.0]) for _ in range(p)]
            if fd.get("positive") == "true" or pname in ("IndicatorBox", "PositiveConstraint"):
                w_init = [abs(v) for v in w_init]
        sp = rng.random() < 0.3
        Xs = sparse.csc_matrix(X) if sp else np.asfortranarray(X)
        df = compiled_clone(Quadratic())
        (df.initialize_sparse(Xs.data, Xs.indptr, Xs.indices, y) if sp else df.initialize(Xs, y))
        L = float(df.get_global_lipschitz(np.asfortranarray(X), y))      # data of the model: the dense spectral constant
        solver = fi.FISTA(max_iter=cfg["max_iter"], tol=cfg["tol"])
        try:
            if sp:
                # the sparse constant comes from a randomised power method: give the solver the dense one so that runs are comparable
                df_run = df
                orig = type(df).get_global_lipschitz_sparse if hasattr(type(df), "get_global_lipschitz_sparse") else None
            w, objs, stop = solver._solve(np.asfortranarray(X), y, df, compiled_clone(pen),
                                          None if w_init is None else np.array(w_init, dtype=float), None)
            obs = dict(err=False, w=list(map(float, w)), obj=list(map(float, objs)), stop=float(stop))
            if not np.all(np.isfinite(w)):
                obs = dict(err=True, exc="non-finite")
        except (ValueError, IndexError, TypeError, ZeroDivisionError, UnboundLocalError) as e:
            obs = dict(err=True, exc=repr(e))
        score, prox, value = _pen_lambdas(pname, fd)
        wi = "None" if w_init is None else f"(Some {vq(w_init)})"
        expr = f"fista_case {mat(X)} {vq(y)} {q(L)} {cfg['max_iter']} {q(cfg['tol'])} {score} {prox} {value} {wi}"
        if obs["err"]:
            o = "{| or_err := true; or_w := []; or_obj := []; or_stop := XBad |}"
            dist["err"] += 1
        else:
            o = "{| or_err := false; or_w := %s; or_obj := %s; or_stop := %s |}" % (vq(obs["w"]), lst([xq(v) for v in obs["obj"]]), xq(obs["stop"]))
            dist["iters"][len(obs["obj"])] = dist["iters"].get(len(obs["obj"]), 0) + 1
        dist["warm"] += w_init is not None
        dist["penalties"][pname] = dist["penalties"].get(pname, 0) + 1
        cases.append((f"fista#{k} pen={pname}{fd} cfg={cfg} X={X.tolist()} y={y.tolist()} L={L} w_init={w_init} -> {obs}", expr, "chk_fista", o))
    return cases, dist


FISTA_IMPORTS = ["Gen.ProxFuncs", "Gen.PenSeparable", "Gen.SparseOps", "Gen.DfSingle", "Skel.AndersonCD", "Skel.Generic", "Skel.Fista", "Skel.CorrSolvers"]


# ------------------------------------------------------------------ ProxNewton against dyadic mock kernels
class _PNDatafit:
    def __init__(self, M): self.M = M
    def raw_hessian(self, y, Xw): return np.abs(np.asarray(Xw, dtype=float)) / 4
    def raw_grad(self, y, Xw): return (np.asarray(Xw, dtype=float) - self.M.B) / 2
    def value(self, y, w, Xw):
        return sum((Xw[j % len(Xw)] - self.M.T[j]) ** 2 * self.M.a[j] / 2 for j in range(self.M.p))


def _pn_thr(M, old, j):
    v0 = (old + M.T[j]) / 2
    return 0.0 if abs(v0) < M.thr else (0.0 if (M.positive and v0 < 0) else v0)


def run_real_pn(M, cfg, w_init, Xw_init, sparse_X, n):
    import skglm.solvers.prox_newton as pn
    names = ("_descent_direction", "_descent_direction_s", "_backtrack_line_search", "_backtrack_line_search_s",
             "_construct_grad", "_construct_grad_sparse", "dist_fix_point_cd", "np")
    saved = {k: getattr(pn, k) for k in names}
    counts = dict(inner=0)

    def direction(w, Xw, fit_intercept, ws):
        deltas = [_pn_thr(M, w[j], j) - w[j] for j in ws]
        Xd = np.zeros(len(Xw))
        for j, d in zip(ws, deltas):
            Xd[j % len(Xw)] += d
        if fit_intercept:
            db = (M.B - w[-1]) / 4
            deltas = deltas + [db]
            Xd = Xd + db
        return np.array(deltas, dtype=float), Xd, np.array([M.lip[j] for j in ws], dtype=float)

    def dd(X, y, w, Xw, fit_intercept, grad_ws, datafit, penalty, ws, tol, ws_strategy): return direction(w, Xw, fit_intercept, ws)
    def dd_s(d, ip, ix, y, w, Xw, fit_intercept, grad_ws, datafit, penalty, ws, tol, ws_strategy): return direction(w, Xw, fit_intercept, ws)

    def ls(w, Xw, fit_intercept, delta, Xdelta, ws):
        counts["inner"] += 1
        for idx, j in enumerate(ws):
            w[j] += delta[idx]
        if fit_intercept:
            w[-1] += delta[-1]
        Xw += Xdelta
        return np.array([M.g_at(Xw, j) for j in ws])

    def bl(X, y, w, Xw, fit_intercept, datafit, penalty, delta, Xdelta, ws): return ls(w, Xw, fit_intercept, delta, Xdelta, ws)
    def bl_s(d, ip, ix, y, w, Xw, fit_intercept, datafit, penalty, delta, Xdelta, ws): return ls(w, Xw, fit_intercept, delta, Xdelta, ws)
    def cg(X, y, w, Xw, datafit, ws): return np.array([M.g_at(Xw, j) for j in ws])
    def cg_s(d, ip, ix, y, w, Xw, datafit, ws): return np.array([M.g_at(Xw, j) for j in ws])
    def fixp(w, grad, lip_ws, datafit, penalty, ws): return np.array([abs(grad[idx]) * lip_ws[idx] for idx, j in enumerate(ws)])
    try:
        pn._descent_direction, pn._descent_direction_s = dd, dd_s
        pn._backtrack_line_search, pn._backtrack_line_search_s = bl, bl_s
        pn._construct_grad, pn._construct_grad_sparse, pn.dist_fix_point_cd, pn.np = cg, cg_s, fixp, _ha.NpProxy()
        p = M.p
        X = np.ones((n, p))                      # X ** 2 = ones: the fix-point constants are sum_i raw_hessian_i for every feature
        if sparse_X:
            X = sparse.csc_matrix(X)
        solver = pn.ProxNewton(p0=cfg["p0"], max_iter=cfg["max_iter"], max_pn_iter=cfg["max_pn_iter"], tol=cfg["tol"],
                               ws_strategy="fixpoint" if cfg["fixpoint"] else "subdiff", fit_intercept=cfg["fit_intercept"])
        w0 = None if w_init is None else np.array(w_init, dtype=float)
        x0 = None if Xw_init is None else np.array(Xw_init, dtype=float)
        import warnings
        try:
            with warnings.catch_warnings():
                warnings.simplefilter("ignore")
                w, obj, stop = solver._solve(X, np.zeros(n), _PNDatafit(M), _GPenalty(M), w0, x0)
        except (ValueError, IndexError, TypeError, AttributeError, ZeroDivisionError) as e:
            return dict(err=True, exc=repr(e))
        return dict(err=False, w=list(map(float, w)), Xw=None if x0 is None else list(map(float, x0)), obj=list(map(float, obj)),
                    stop=float(stop), iters=len(obj), inner=counts["inner"])
    finally:
        for k, v in saved.items():
            setattr(pn, k, v)


def make_pn_cases(rng, n_cases):
    cases, dist = [], dict(err=0, iters={}, inner_total=0, sparse=0, warm=0, fixpoint=0, intercept=0, n_ne_p=0)
    for k in range(n_cases):
        M, cfg, w_init, Xw_init, sp, n = _ha.gen_case(rng)
        cfg = dict(max_iter=cfg["max_iter"], max_pn_iter=rng.choice([0, 1, 2, 5]), p0=cfg["p0"], tol=cfg["tol"], fixpoint=cfg["fixpoint"],
                   fit_intercept=cfg["fit_intercept"])
        if w_init is not None and rng.random() < 0.15:
            Xw_init = None                      # w_init without Xw_init: the model fit silently starts at 0
        obs = run_real_pn(M, cfg, w_init, Xw_init, sp, n)
        cfgc = ("{| pn_max_iter := %d; pn_max_pn_iter := %d; pn_p0 := %s; pn_tol := %s; pn_fixpoint := %s; pn_fit_intercept := %s; "
                "pn_p := %d; pn_n := %d |}" % (cfg["max_iter"], cfg["max_pn_iter"], z(cfg["p0"]), q(cfg["tol"]), b(cfg["fixpoint"]),
                                               b(cfg["fit_intercept"]), M.p, n))
        wi = "None" if w_init is None else f"(Some {vq(w_init)})"
        xi = "None" if Xw_init is None else f"(Some {vq(Xw_init)})"
        expr = f"pn_solve {cfgc} (pn_mock {M.coq()} {M.p} {b(cfg['fit_intercept'])}) {wi} {xi}"
        if obs["err"]:
            o = "{| op_err := true; op_w := []; op_Xw := []; op_obj := []; op_stop := XBad; op_iters := 0; op_inner := 0 |}"
            has_buf = False
            dist["err"] += 1
        else:
            has_buf = obs["Xw"] is not None
            o = ("{| op_err := false; op_w := %s; op_Xw := %s; op_obj := %s; op_stop := %s; op_iters := %d; op_inner := %d |}" % (
                vq(obs["w"]), vq(obs["Xw"]) if has_buf else "[]", lst([xq(x) for x in obs["obj"]]), xq(obs["stop"]), obs["iters"], obs["inner"]))
            dist["iters"][obs["iters"]] = dist["iters"].get(obs["iters"], 0) + 1
            dist["inner_total"] += obs["inner"]
        dist["sparse"] += sp; dist["warm"] += w_init is not None; dist["fixpoint"] += cfg["fixpoint"]
        dist["intercept"] += cfg["fit_intercept"]; dist["n_ne_p"] += n != M.p
        label = (f"pn#{k} n_samples={n} cfg={cfg} sparse={sp} w_init={w_init} Xw_init={Xw_init} T={M.T} a={M.a} lip={M.lip} "
                 f"alpha={M.alpha} B={M.B} pos={M.positive} thr={M.thr} -> {obs}")
        cases.append((label, expr, f"chk_pn {b(has_buf)}", o))
    return cases, dist


# ------------------------------------------------------------------ MultiTaskBCD (one task) against dyadic mock kernels
class _MTDatafit:
    def __init__(self, M): self.M = M
    def initialize(self, X, Y): pass
    def initialize_sparse(self, *a): pass
    def get_lipschitz(self, X, Y): return np.array(self.M.lip, dtype=float)
    def get_lipschitz_sparse(self, *a): return np.array(self.M.lip, dtype=float)
    def full_grad_sparse(self, data, indptr, indices, Y, XW):
        return np.array([[self.M.g_at(XW[:, 0], j)] for j in range(self.M.p)])
    def value(self, Y, W, XW):
        return sum((XW[j % XW.shape[0], 0] - self.M.T[j]) ** 2 * self.M.a[j] / 2 for j in range(self.M.p))
    def intercept_update_step(self, Y, XW): return np.array([(XW[0, 0] - self.M.B) / 2])


class _MTPenalty:
    def __init__(self, M): self.M = M
    def is_penalized(self, n): return np.array(self.M.pen, dtype=bool)
    def value(self, W):
        W = np.asarray(W)
        if self.M.positive and np.any(W < 0):
            return np.inf
        return self.M.alpha * float(np.sum(np.abs(W)))
    def subdiff_distance(self, W, grad, ws):
        out = np.zeros(len(ws))
        for idx, j in enumerate(ws):
            g, wj = grad[idx, 0], W[j, 0]
            if self.M.positive and wj < 0:
                out[idx] = np.inf
            elif wj == 0:
                out[idx] = 0.0 if abs(g) < self.M.alpha else abs(g) - self.M.alpha
            else:
                out[idx] = abs(g)
        return out


class _MTNp(AndersonNp):
    @staticmethod
    def argpartition(opt, kth):
        return _ha.NpProxy.argpartition(opt, kth)


def run_real_mt(M, cfg, W_init, XW_init, sparse_X, n):
    import skglm.solvers.multitask_bcd as mt
    names = ("_bcd_epoch", "_bcd_epoch_sparse", "construct_grad", "construct_grad_sparse", "dist_fix_point_bcd", "np")
    saved = {k: getattr(mt, k) for k in names}

    def ep_d(X, Y, W, XW, lc, datafit, penalty, ws): M.epoch(W[:, 0], XW[:, 0], ws)
    def ep_s(d, ip, ix, Y, W, XW, lc, datafit, penalty, ws): M.epoch(W[:, 0], XW[:, 0], ws)
    def cg(X, Y, W, XW, datafit, ws): return np.array([[M.g_at(XW[:, 0], j)] for j in ws]).reshape(len(ws), 1)
    def cg_s(d, ip, ix, Y, XW, datafit, ws): return np.array([[M.g_at(XW[:, 0], j)] for j in ws]).reshape(len(ws), 1)
    def fixp(W, grad, lip_ws, datafit, penalty, ws): return np.array([abs(grad[idx, 0]) * lip_ws[idx] for idx, j in enumerate(ws)])
    try:
        mt._bcd_epoch, mt._bcd_epoch_sparse, mt.construct_grad, mt.construct_grad_sparse = ep_d, ep_s, cg, cg_s
        mt.dist_fix_point_bcd, mt.np = fixp, _MTNp()
        p = M.p
        X = np.zeros((n, p))
        for j in range(p):
            X[j % n, j] = 1.0                       # feature j is carried by sample j mod n: X[:, ws] @ W[ws] is the mock model fit
        if sparse_X:
            X = sparse.csc_matrix(X)
        solver = mt.MultiTaskBCD(max_iter=cfg["max_iter"], max_epochs=cfg["max_epochs"], p0=cfg["p0"], tol=cfg["tol"], use_acc=cfg["use_acc"],
                                 ws_strategy="fixpoint" if cfg["fixpoint"] else "subdiff", fit_intercept=cfg["fit_intercept"])
        W0 = None if W_init is None else np.array(W_init, dtype=float).reshape(-1, 1)
        X0 = None if XW_init is None else np.array(XW_init, dtype=float).reshape(-1, 1)
        M.counts = dict(epochs=0, accepts=0)
        try:
            W, obj, stop = solver._solve(X, np.zeros((n, 1)), _MTDatafit(M), _MTPenalty(M), W0, X0)
        except (ValueError, IndexError, TypeError, AttributeError, ZeroDivisionError, UnboundLocalError) as e:
            return dict(err=True, exc=repr(e))
        return dict(err=False, w=list(map(float, np.asarray(W)[:, 0])), Xw=None if X0 is None else list(map(float, X0[:, 0])),
                    obj=list(map(float, obj)), stop=float(stop), iters=len(obj), epochs=M.counts["epochs"])
    finally:
        for k, v in saved.items():
            setattr(mt, k, v)


def make_mt_cases(rng, n_cases):
    cases, dist = [], dict(err=0, iters={}, epochs_total=0, sparse=0, warm=0, fixpoint=0, intercept=0, acc=0, n_ne_p=0)
    for k in range(n_cases):
        M, cfg, w_init, Xw_init, sp, n = _ha.gen_case(rng)
        cfg = dict(cfg, use_acc=rng.random() < 0.6)
        if rng.random() < 0.6:
            cfg["max_epochs"] = rng.choice([5, 6, 7, 11, 12, 13, 21, 22])       # reach the 6-epoch extrapolation and the 10-epoch test
        _ha.cap_budget(cfg)
        if w_init is not None and rng.random() < 0.15:
            Xw_init = None
        obs = run_real_mt(M, cfg, w_init, Xw_init, sp, n)
        cfgc = ("{| mt_max_iter := %d; mt_max_epochs := %d; mt_p0 := %s; mt_tol := %s; mt_fixpoint := %s; mt_fit_intercept := %s; "
                "mt_use_acc := %s; mt_p := %d; mt_n := %d |}" % (cfg["max_iter"], cfg["max_epochs"], z(cfg["p0"]), q(cfg["tol"]), b(cfg["fixpoint"]),
                                                                  b(cfg["fit_intercept"]), b(cfg["use_acc"]), M.p, n))
        wi = "None" if w_init is None else f"(Some {vq(w_init)})"
        xi = "None" if Xw_init is None else f"(Some {vq(Xw_init)})"
        expr = f"mt_solve {cfgc} (mt_mock {M.coq()} {M.p}) {wi} {xi}"
        if obs["err"]:
            o = "{| om_err := true; om_w := []; om_Xw := []; om_obj := []; om_stop := XBad; om_iters := 0; om_epochs := 0 |}"
            has_buf = False
            dist["err"] += 1
        else:
            has_buf = obs["Xw"] is not None
            o = ("{| om_err := false; om_w := %s; om_Xw := %s; om_obj := %s; om_stop := %s; om_iters := %d; om_epochs := %d |}" % (
                vq(obs["w"]), vq(obs["Xw"]) if has_buf else "[]", lst([xq(x) for x in obs["obj"]]), xq(obs["stop"]), obs["iters"], obs["epochs"]))
            dist["iters"][obs["iters"]] = dist["iters"].get(obs["iters"], 0) + 1
            dist["epochs_total"] += obs["epochs"]
        dist["sparse"] += sp; dist["warm"] += w_init is not None; dist["fixpoint"] += cfg["fixpoint"]; dist["acc"] += cfg["use_acc"]
        dist["intercept"] += cfg["fit_intercept"]; dist["n_ne_p"] += n != M.p
        label = (f"mt#{k} n_samples={n} cfg={cfg} sparse={sp} W_init={w_init} XW_init={Xw_init} T={M.T} a={M.a} lip={M.lip} pen={M.pen} "
                 f"alpha={M.alpha} B={M.B} pos={M.positive} thr={M.thr} -> {obs}")
        cases.append((label, expr, f"chk_mt {b(has_buf)}", o))
    return cases, dist


MT_IMPORTS = ["Skel.AndersonCD", "Skel.MockACD", "Skel.Generic", "Skel.Anderson", "Skel.MultiTaskBCD", "Skel.CorrSolvers"]
# ------------------------------------------------------------------ GroupProxNewton against the ProxNewton mock kernels
def run_real_gpn(M, cfg, w_init, Xw_init, n):
    import skglm.solvers.group_prox_newton as gp
    names = ("_descent_direction", "_backtrack_line_search", "_construct_grad", "_slice_array", "np")
    saved = {k: getattr(gp, k) for k in names}
    counts = dict(inner=0)

    def sl_(arr, ws, grp_ptr, grp_indices, fit_intercept=False):          # singleton groups: the stacked slice is arr[ws]
        return np.array([arr[g] for g in ws], dtype=float)

    def dd(X, y, w, Xw, fit_intercept, grad_ws, datafit, penalty, ws, tol):
        deltas = [_pn_thr(M, w[j], j) - w[j] for j in ws]
        Xd = np.zeros(len(Xw))
        for j, d in zip(ws, deltas):
            Xd[j % len(Xw)] += d
        if fit_intercept:
            db = (M.B - w[-1]) / 4
            deltas = deltas + [db]
            Xd = Xd + db
        return np.array(deltas, dtype=float), Xd

    def bl(X, y, w, Xw, fit_intercept, datafit, penalty, delta, Xdelta, ws):
        counts["inner"] += 1
        for idx, j in enumerate(ws):
            w[j] += delta[idx]
        if fit_intercept:
            w[-1] += delta[-1]
        Xw += Xdelta
        return np.array([M.g_at(Xw, j) for j in ws])

    def cg(X, y, w, Xw, datafit, ws): return np.array([M.g_at(Xw, j) for j in ws])
    try:
        gp._descent_direction, gp._backtrack_line_search, gp._construct_grad, gp._slice_array, gp.np = dd, bl, cg, sl_, _ha.NpProxy()
        p = M.p
        X = np.ones((n, p))
        solver = gp.GroupProxNewton(p0=cfg["p0"], max_iter=cfg["max_iter"], max_pn_iter=cfg["max_pn_iter"], tol=cfg["tol"],
                                    fit_intercept=cfg["fit_intercept"])
        w0 = None if w_init is None else np.array(w_init, dtype=float)
        x0 = None if Xw_init is None else np.array(Xw_init, dtype=float)
        try:
            w, obj, stop = solver._solve(X, np.zeros(n), _PNDatafit(M), _GPenalty(M), w0, x0)
        except (ValueError, IndexError, TypeError, AttributeError, ZeroDivisionError) as e:
            return dict(err=True, exc=repr(e))
        return dict(err=False, w=list(map(float, w)), Xw=None if x0 is None else list(map(float, x0)), obj=list(map(float, obj)),
                    stop=float(stop), iters=len(obj), inner=counts["inner"])
    finally:
        for k, v in saved.items():
            setattr(gp, k, v)


def make_gpn_cases(rng, n_cases):
    cases, dist = [], dict(err=0, iters={}, inner_total=0, warm=0, intercept=0, n_ne_p=0)
    for k in range(n_cases):
        M, cfg, w_init, Xw_init, sp, n = _ha.gen_case(rng)
        cfg = dict(max_iter=cfg["max_iter"], max_pn_iter=rng.choice([0, 1, 2, 5]), p0=cfg["p0"], tol=cfg["tol"], fixpoint=False,
                   fit_intercept=cfg["fit_intercept"])
        if w_init is not None and len(w_init) != M.p + cfg["fit_intercept"]:
            w_init = (w_init + [0.0] * 8)[: M.p + cfg["fit_intercept"]]          # this solver has no length check: keep starts well-formed
            bb = w_init[-1] if cfg["fit_intercept"] else 0.0
            Xw_init = [sum(w_init[j] for j in range(M.p) if j % n == i) + bb for i in range(n)]
        if w_init is not None and rng.random() < 0.15:
            Xw_init = None
        obs = run_real_gpn(M, cfg, w_init, Xw_init, n)
        cfgc = ("{| pn_max_iter := %d; pn_max_pn_iter := %d; pn_p0 := %s; pn_tol := %s; pn_fixpoint := false; pn_fit_intercept := %s; "
                "pn_p := %d; pn_n := %d |}" % (cfg["max_iter"], cfg["max_pn_iter"], z(cfg["p0"]), q(cfg["tol"]), b(cfg["fit_intercept"]), M.p, n))
        wi = "None" if w_init is None else f"(Some {vq(w_init)})"
        xi = "None" if Xw_init is None else f"(Some {vq(Xw_init)})"
        expr = f"gpn_solve {cfgc} (gpn_mock {M.coq()} {M.p} {b(cfg['fit_intercept'])}) {wi} {xi}"
        if obs["err"]:
            o = "{| op_err := true; op_w := []; op_Xw := []; op_obj := []; op_stop := XBad; op_iters := 0; op_inner := 0 |}"
            has_buf = False
            dist["err"] += 1
        else:
            has_buf = obs["Xw"] is not None
            o = ("{| op_err := false; op_w := %s; op_Xw := %s; op_obj := %s; op_stop := %s; op_iters := %d; op_inner := %d |}" % (
                vq(obs["w"]), vq(obs["Xw"]) if has_buf else "[]", lst([xq(x) for x in obs["obj"]]), xq(obs["stop"]), obs["iters"], obs["inner"]))
            dist["iters"][obs["iters"]] = dist["iters"].get(obs["iters"], 0) + 1
            dist["inner_total"] += obs["inner"]
        dist["warm"] += w_init is not None; dist["intercept"] += cfg["fit_intercept"]; dist["n_ne_p"] += n != M.p
        label = (f"gpn#{k} n_samples={n} cfg={cfg} w_init={w_init} Xw_init={Xw_init} T={M.T} a={M.a} lip={M.lip} "
                 f"alpha={M.alpha} B={M.B} pos={M.positive} thr={M.thr} -> {obs}")
        cases.append((label, expr, f"chk_pn {b(has_buf)}", o))
    return cases, dist


GPN_IMPORTS = ["Skel.AndersonCD", "Skel.MockACD", "Skel.Generic", "Skel.ProxNewton", "Skel.GroupProxNewton", "Skel.CorrSolvers"]
PN_IMPORTS = ["Skel.AndersonCD", "Skel.MockACD", "Skel.Generic", "Skel.ProxNewton", "Skel.CorrSolvers"]
BCD_IMPORTS = ["Skel.AndersonCD", "Skel.MockACD", "Skel.Generic", "Skel.GroupBCD", "Skel.CorrSolvers"]

SOLVER_TARGETS = ["Skel/CorrSolvers.vo"]
SOLVER_SOURCES = ["skglm/solvers/gram_cd.py", "skglm/solvers/group_bcd.py", "skglm/solvers/prox_newton.py", "skglm/solvers/fista.py", "skglm/utils/anderson.py", "skglm/solvers/multitask_bcd.py", "skglm/solvers/group_prox_newton.py"]



# ------------------------------------------------------------------ ProxNewton end to end (regenerated kernels)
PN_E2E_IMPORTS = ["Gen.ProxFuncs", "Gen.PenSeparable", "Gen.SparseOps", "Gen.DfSingle", "Gen.KernCD", "Gen.KernPN", "Skel.AndersonCD",
                  "Skel.Generic", "Skel.MockACD", "Skel.ProxNewton", "Skel.CorrSolvers"]


def run_real_pn_e2e(X, y, pen, cfg, w_init, Xw_init, sparse_X):
    """the REAL ProxNewton._solve with the real compiled kernels, Quadratic datafit and penalty; only np.argpartition (an
    unspecified selection among ties) is replaced by the deterministic rule the model uses"""
    import warnings
    import skglm.solvers.prox_newton as pn
    from skglm.datafits import Quadratic
    from skglm.utils.jit_compilation import compiled_clone
    saved = np.argpartition
    try:
        # the compiled kernels capture the module global `np` when numba types them, so numpy itself gets the deterministic
        # selection rule for the duration of the solve (the kernels do not call argpartition)
        np.argpartition = _ha.NpProxy.argpartition
        solver = pn.ProxNewton(p0=cfg["p0"], max_iter=cfg["max_iter"], max_pn_iter=cfg["max_pn_iter"], tol=cfg["tol"],
                               ws_strategy="fixpoint" if cfg["fixpoint"] else "subdiff", fit_intercept=cfg["fit_intercept"])
        Xs = sparse.csc_matrix(X) if sparse_X else X
        w0 = None if w_init is None else np.array(w_init, dtype=float)
        x0 = None if Xw_init is None else np.array(Xw_init, dtype=float)
        try:
            with warnings.catch_warnings():
                warnings.simplefilter("ignore")
                w, objs, stop = solver._solve(Xs, y, compiled_clone(Quadratic()), compiled_clone(pen), w0, x0)
        except (ValueError, IndexError, TypeError, ZeroDivisionError, UnboundLocalError) as e:
            return dict(err=True, exc=repr(e))
        if not np.all(np.isfinite(w)):
            return dict(err=True, exc="non-finite w")
        return dict(err=False, w=list(map(float, w)), obj=list(map(float, objs)), stop=float(stop))
    finally:
        np.argpartition = saved


def make_pn_e2e_cases(rng, n):
    import skglm.penalties.separable as sep
    sig = kernels.gen_sig()
    cases, dist = [], dict(err=0, iters={}, intercept=0, fixpoint=0, warm=0, sparse=0, penalties={})
    vals = [-2.0, -1.0, -0.5, 0.0, 0.0, 0.5, 1.0, 2.0]
    for k in range(n):
        ns, p = 4, rng.randint(1, 4)
        X = np.zeros((ns, p), order="F")
        for j in range(p):
            for i in rng.sample(range(ns), rng.choice([0, 1, 2, 4, 4])):
                X[i, j] = rng.choice([-1.0, 1.0])
        y = np.array([rng.choice([-3.0, -2.0, -1.0, -0.5, 0.5, 1.0, 2.0, 3.0]) for _ in range(ns)])
        fi, fixp = rng.random() < 0.5, rng.random() < 0.5
        a = rng.choice([0.125, 0.25, 0.5, 1.0])
        wts = np.array([rng.choice([0.0, 0.5, 1.0, 2.0]) for _ in range(p)])
        if rng.random() < 0.5:
            pname, pen, fd = "L1", sep.L1(a), dict(alpha=q(a), positive="false")
        else:
            pname, pen, fd = "WeightedL1", sep.WeightedL1(a, wts), dict(alpha=q(a), weights=vq(wts), positive="false")
        cfg = dict(max_iter=rng.choice([0, 1, 2, 3]), max_pn_iter=rng.choice([1, 2, 3]), p0=rng.choice([1, 2, 10]),
                   tol=rng.choice([2.0 ** -12, 2.0 ** -6, 2.0 ** -3, 0.5]), fixpoint=fixp, fit_intercept=fi)
        w_init = Xw_init = None
        if rng.random() < 0.4:
            w_init = [rng.choice(vals) for _ in range(p + fi)]
            Xw_init = list(X @ np.array(w_init[:p]) + (w_init[-1] if fi else 0.0))
        sp = rng.random() < 0.3
        obs = run_real_pn_e2e(X, y, pen, cfg, w_init, Xw_init, sp)

        def meth(m):
            return f"(@{pname}_{m} Q _ {kernels.fields_of(sig, pname + '_' + m, fd)})"
        wi = "None" if w_init is None else f"(Some {vq(w_init)})"
        xi = "None" if Xw_init is None else f"(Some {vq(Xw_init)})"
        expr = (f"pn_case {mat(X)} {vq(y)} {cfg['max_iter']} {cfg['max_pn_iter']} {z(cfg['p0'])} {q(cfg['tol'])} {b(fi)} {b(fixp)} "
                f"{meth('subdiff_distance')} {meth('prox_1d')} {meth('value')} {meth('generalized_support')} {wi} {xi}")
        if obs["err"]:
            o = "{| or_err := true; or_w := []; or_obj := []; or_stop := XBad |}"
            dist["err"] += 1
        else:
            o = "{| or_err := false; or_w := %s; or_obj := %s; or_stop := %s |}" % (vq(obs["w"]), lst([xq(v) for v in obs["obj"]]), xq(obs["stop"]))
            dist["iters"][len(obs["obj"])] = dist["iters"].get(len(obs["obj"]), 0) + 1
        dist["intercept"] += fi; dist["fixpoint"] += fixp; dist["warm"] += w_init is not None; dist["sparse"] += sp
        dist["penalties"][pname] = dist["penalties"].get(pname, 0) + 1
        cases.append((f"pn_e2e#{k} pen={pname}{fd} cfg={cfg} sparse={sp} X={X.tolist()} y={y.tolist()} w_init={w_init} -> {obs}", expr, "chk_pn_e2e", o))
    return cases, dist


# ------------------------------------------------------------------ GroupBCD end to end (regenerated kernels)
BCD_E2E_IMPORTS = ["Gen.ProxFuncs", "Gen.PenBlock", "Gen.SparseOps", "Gen.DfGroup", "Gen.KernCD", "Gen.KernBCD", "Skel.AndersonCD",
                   "Skel.Generic", "Skel.MockACD", "Skel.GroupBCD", "Skel.Anderson", "Skel.CorrSolvers"]


def run_real_bcd_e2e(X, y, pen, grp_ptr, grp_indices, cfg, w_init, Xw_init, sparse_X):
    """the REAL GroupBCD._solve with the real compiled block kernels, QuadraticGroup datafit, group penalty and the real
    AndersonAcceleration; replaced: np.argpartition (deterministic selection) and np.linalg.solve inside the accelerator"""
    import warnings
    import skglm.solvers.group_bcd as gb
    import skglm.utils.anderson as an
    from skglm.datafits import QuadraticGroup
    from skglm.utils.jit_compilation import compiled_clone
    saved, saved_an = np.argpartition, an.np
    try:
        np.argpartition = _ha.NpProxy.argpartition
        an.np = AndersonNp()
        solver = gb.GroupBCD(max_iter=cfg["max_iter"], max_epochs=cfg["max_epochs"], p0=cfg["p0"], tol=cfg["tol"],
                             ws_strategy="fixpoint" if cfg["fixpoint"] else "subdiff", fit_intercept=cfg["fit_intercept"])
        Xs = sparse.csc_matrix(X) if sparse_X else X
        df = compiled_clone(QuadraticGroup(grp_ptr, grp_indices))
        lip = df.get_lipschitz_sparse(Xs.data, Xs.indptr, Xs.indices, y) if sparse_X else df.get_lipschitz(X, y)
        w0 = None if w_init is None else np.array(w_init, dtype=float)
        x0 = None if Xw_init is None else np.array(Xw_init, dtype=float)
        try:
            with warnings.catch_warnings():
                warnings.simplefilter("ignore")
                w, objs, stop = solver._solve(Xs, y, df, compiled_clone(pen), w0, x0)
        except (ValueError, IndexError, TypeError, ZeroDivisionError, UnboundLocalError) as e:
            return dict(err=True, exc=repr(e)), lip
        if not np.all(np.isfinite(w)):
            return dict(err=True, exc="non-finite w"), lip
        return dict(err=False, w=list(map(float, w)), obj=list(map(float, objs)), stop=float(stop)), lip
    finally:
        np.argpartition, an.np = saved, saved_an


def make_bcd_e2e_cases(rng, n):
    import skglm.penalties.block_separable as bs
    sig = kernels.gen_sig()
    cases, dist = [], dict(err=0, iters={}, intercept=0, fixpoint=0, warm=0, sparse=0, shuffled_groups=0)
    vals = [-2.0, -1.0, -0.5, 0.0, 0.0, 0.5, 1.0, 2.0]
    for k in range(n):
        ns, p = 4, rng.randint(2, 5)
        X = np.asfortranarray(np.array([[rng.choice([-1.0, 0.0, 0.0, 1.0, 0.5, 2.0]) for _ in range(p)] for _ in range(ns)]))
        perm = list(range(p))
        shuffled = rng.random() < 0.5
        if shuffled:
            rng.shuffle(perm)
        ng = rng.randint(1, min(3, p))
        cuts = sorted(rng.sample(range(1, p), ng - 1)) if ng > 1 else []
        grp_ptr = np.array([0] + cuts + [p], dtype=np.int32)
        grp_indices = np.array(perm, dtype=np.int32)
        if rng.random() < 0.2:
            g0 = rng.randrange(ng)
            X[:, grp_indices[grp_ptr[g0]:grp_ptr[g0 + 1]]] = 0.0          # all-zero group
        y = np.array([rng.choice([-3.0, -2.0, -1.0, -0.5, 0.5, 1.0, 2.0, 3.0]) for _ in range(ns)])
        fi, fixp = rng.random() < 0.5, rng.random() < 0.5
        a = rng.choice([0.125, 0.25, 0.5, 1.0])
        wg = np.array([rng.choice([0.0, 0.5, 1.0, 2.0]) for _ in range(ng)])
        pen = bs.WeightedGroupL2(a, wg, grp_ptr, grp_indices)
        fd = dict(alpha=q(a), weights=vq(wg), grp_ptr=vz(grp_ptr), grp_indices=vz(grp_indices), positive="false")
        cfg = dict(max_iter=rng.choice([0, 1, 2, 3]), max_epochs=rng.choice([1, 2, 7, 8, 11, 12]), p0=rng.choice([1, 2, 10]),
                   tol=rng.choice([2.0 ** -12, 2.0 ** -6, 2.0 ** -3, 0.5]), fixpoint=fixp, fit_intercept=fi)
        w_init = Xw_init = None
        if rng.random() < 0.4:
            w_init = [rng.choice(vals) for _ in range(p + fi)]
            Xw_init = list(X @ np.array(w_init[:p]) + (w_init[-1] if fi else 0.0))
        # dense only: on CSC input QuadraticGroup.get_lipschitz_sparse is a power method started from a RANDOM vector, so the
        # constants of a run cannot be reproduced (1e-7 noise decides ties between duplicated groups); the sparse kernels are tied
        # by the kernel correspondence and the sparse = dense theorem instead
        sp = False
        obs, lip = run_real_bcd_e2e(X, y, pen, grp_ptr, grp_indices, cfg, w_init, Xw_init, sp)

        def meth(m):
            return f"(@WeightedGroupL2_{m} Q QNumT {kernels.fields_of(sig, 'WeightedGroupL2_' + m, fd)})"
        wi = "None" if w_init is None else f"(Some {vq(w_init)})"
        xi = "None" if Xw_init is None else f"(Some {vq(Xw_init)})"
        expr = (f"bcd_case {mat(X)} {vq(y)} {vq(lip)} {vz(grp_ptr)} {vz(grp_indices)} {cfg['max_iter']} {cfg['max_epochs']} {z(cfg['p0'])} "
                f"{q(cfg['tol'])} {b(fi)} {b(fixp)} {meth('subdiff_distance')} {meth('prox_1group')} {meth('value')} "
                f"{meth('generalized_support')} {wi} {xi}")
        if obs["err"]:
            o = "{| or_err := true; or_w := []; or_obj := []; or_stop := XBad |}"
            dist["err"] += 1
        else:
            o = "{| or_err := false; or_w := %s; or_obj := %s; or_stop := %s |}" % (vq(obs["w"]), lst([xq(v) for v in obs["obj"]]), xq(obs["stop"]))
            dist["iters"][len(obs["obj"])] = dist["iters"].get(len(obs["obj"]), 0) + 1
        dist["intercept"] += fi; dist["fixpoint"] += fixp; dist["warm"] += w_init is not None; dist["sparse"] += sp; dist["shuffled_groups"] += shuffled
        cases.append((f"bcd_e2e#{k} grp_ptr={grp_ptr.tolist()} grp_indices={grp_indices.tolist()} wg={wg.tolist()} a={a} cfg={cfg} sparse={sp} "
                      f"X={X.tolist()} y={y.tolist()} w_init={w_init} -> {obs}", expr, "chk_bcd_e2e_sp" if sp else "chk_bcd_e2e", o))
    return cases, dist


def run_e2e(cases, imports, tag, shard):
    """End-to-end float correspondences (GramCD, FISTA) run on non-dyadic numbers.  Where exact arithmetic has a tie (equal
    scores under np.argmax, an extrapolated objective equal to the current one, a score equal to the tolerance) binary64 has
    rounding noise and may decide either way, so such a trace cannot be compared.  A disagreeing trace is therefore re-evaluated
    on the two margin-shifted instances of Base/QInst.v (every order / equality test moved by 1e-11): if that changes what the
    MODEL returns, the trace is decision-fragile and is set aside.  At most max(2, 0.4 %) of the traces may be set aside; beyond
    that (a changed comparison or tie-break hits ties far more often) they all count as disagreements."""
    import tvlib
    r = tvlib.run_cases(cases, imports, tag, shard=shard, jobs=16)
    r["fragile"] = []
    if r["bad"] and not r["errors"]:
        by = {c[0]: c for c in cases}
        near = []
        for lab in r["bad"]:
            _, expr, chk, exp = by[lab]
            vs = [expr]
            frag = [f for pre, f in (("gram_case_aa ", "frag_gram"), ("fista_case ", "frag_fista"), ("pn_case ", "frag_pn"), ("bcd_case ", "frag_bcd")) if expr.startswith(pre)][0]
            bounded = expr.startswith("bcd_case ")           # long runs use the bounded-precision instances
            for inst in (("QNumTLoose", "QNumTTight") if bounded else ("QNumLoose", "QNumTight")):
                e = expr
                for pre in ("gram_case_aa", "fista_case", "pn_case", "bcd_case"):
                    if e.startswith(pre + " "):
                        e = f"{pre}_N {inst} " + e[len(pre) + 1:]
                vs.append(e.replace(" Q QNumT ", f" Q {inst} ") if bounded else e.replace(" Q _ ", f" Q {inst} "))
            near.append((lab, "(" + ", ".join(vs) + ")", frag, exp))
        rn = tvlib.run_cases(near, imports, tag + "x", shard=2, jobs=16)
        robust = set(rn["bad"])
        fragile = [lab for lab in r["bad"] if lab not in robust]
        if not rn["errors"] and len(fragile) <= max(2, int(0.004 * len(cases))):
            r["bad"] = [lab for lab in r["bad"] if lab not in fragile]
            r["fragile"] = fragile
    return r


def solver_corr(tier, rng, tag):
    """all skeleton correspondences of this module; returns a dict to be merged by `merge_corr`"""
    import tvlib
    n = 300 if tier == "quick" else 3000
    cases, dist = make_gram_cases(rng, n)
    r = run_e2e(cases, GRAM_IMPORTS, tag + "g", 10)
    dist["decision_fragile"] = [x[:300] for x in r["fragile"]]
    nb = 300 if tier == "quick" else 2500
    bc, bdist = make_bcd_cases(rng, nb)
    rb = tvlib.run_cases(bc, BCD_IMPORTS, tag + "b", shard=12, jobs=16)
    pc, pdist = make_pn_cases(rng, nb)
    rp = tvlib.run_cases(pc, PN_IMPORTS, tag + "p", shard=12, jobs=16)
    gc_, gdist_ = make_gpn_cases(rng, nb)
    rg = tvlib.run_cases(gc_, GPN_IMPORTS, tag + "n", shard=12, jobs=16)
    mc, mdist = make_mt_cases(rng, nb)
    rm = tvlib.run_cases(mc, MT_IMPORTS, tag + "m", shard=12, jobs=16)
    ac = make_aa_cases(rng, 200 if tier == "quick" else 2000)
    ra = tvlib.run_cases(ac, AA_IMPORTS, tag + "a", shard=25, jobs=16)
    fc, fdist = make_fista_cases(rng, 40 if tier == "quick" else 400)
    rf = run_e2e(fc, FISTA_IMPORTS, tag + "f", 6)
    fdist["decision_fragile"] = [x[:300] for x in rf["fragile"]]
    pe, pedist = make_pn_e2e_cases(rng, 150 if tier == "quick" else 1500)
    rpe = run_e2e(pe, PN_E2E_IMPORTS, tag + "e", 8)
    pedist["decision_fragile"] = [x[:300] for x in rpe["fragile"]]
    be, bedist = make_bcd_e2e_cases(rng, 100 if tier == "quick" else 1000)
    rbe = run_e2e(be, BCD_E2E_IMPORTS, tag + "h", 8)
    bedist["decision_fragile"] = [x[:300] for x in rbe["fragile"]]
    allc = cases + bc + pc + fc + ac + mc + gc_ + pe + be
    return dict(cases=len(allc), bad=r["bad"] + rb["bad"] + rp["bad"] + rf["bad"] + ra["bad"] + rm["bad"] + rg["bad"] + rpe["bad"] + rbe["bad"],
                errors=r["errors"] + rb["errors"] + rp["errors"] + rf["errors"] + ra["errors"] + rm["errors"] + rg["errors"] + rpe["errors"] + rbe["errors"],
                distribution=dict(gramcd_end_to_end=dist, groupbcd_mock_traces=bdist, proxnewton_mock_traces=pdist, fista_end_to_end=fdist, multitaskbcd_mock_traces=mdist, groupproxnewton_mock_traces=gdist_, proxnewton_end_to_end=pedist, groupbcd_end_to_end=bedist),
                distinct_nontrivial=sum(1 for c in allc if "'obj': []" not in c[0] and "'err': True" not in c[0]),
                samples=[dict(gramcd=cases[0][0][:500]), dict(groupbcd=bc[0][0][:500])])


def merge_corr(a, b_):
    out = dict(a)
    out["cases"] = a.get("cases", 0) + b_.get("cases", 0)
    out["bad"] = (list(a.get("bad", [])) + list(b_.get("bad", [])))[:10]
    out["errors"] = list(a.get("errors", [])) + list(b_.get("errors", []))
    d = dict(a.get("distribution", {})); d.update(b_.get("distribution", {})); out["distribution"] = d
    out["distinct_nontrivial"] = a.get("distinct_nontrivial", a.get("cases", 0)) + b_.get("distinct_nontrivial", 0)
    out["samples"] = list(a.get("samples", [])) + list(b_.get("samples", []))
    return out


if __name__ == "__main__" and len(__import__("sys").argv) > 3 and __import__("sys").argv[3] in ("bcd", "pn", "fista", "aa", "mt", "gpn", "pne2e", "bcde2e"):
    import sys, tvlib
    rng = random.Random(int(sys.argv[1]))
    if sys.argv[3] == "bcde2e":
        cases, dist = make_bcd_e2e_cases(rng, int(sys.argv[2]))
        r = run_e2e(cases, BCD_E2E_IMPORTS, "bcde2e", 8)
    elif sys.argv[3] == "pne2e":
        cases, dist = make_pn_e2e_cases(rng, int(sys.argv[2]))
        r = run_e2e(cases, PN_E2E_IMPORTS, "pne2e", 8)
    elif sys.argv[3] == "pn":
        cases, dist = make_pn_cases(rng, int(sys.argv[2]))
        r = tvlib.run_cases(cases, PN_IMPORTS, "pn", shard=12, jobs=16)
    elif sys.argv[3] == "gpn":
        cases, dist = make_gpn_cases(rng, int(sys.argv[2]))
        r = tvlib.run_cases(cases, GPN_IMPORTS, "gpn", shard=12, jobs=16)
    elif sys.argv[3] == "mt":
        cases, dist = make_mt_cases(rng, int(sys.argv[2]))
        r = tvlib.run_cases(cases, MT_IMPORTS, "mt", shard=12, jobs=16)
    elif sys.argv[3] == "aa":
        cases, dist = make_aa_cases(rng, int(sys.argv[2])), {}
        r = tvlib.run_cases(cases, AA_IMPORTS, "aa", shard=25, jobs=16)
    elif sys.argv[3] == "fista":
        cases, dist = make_fista_cases(rng, int(sys.argv[2]))
        r = run_e2e(cases, FISTA_IMPORTS, "fista", 8)
    else:
        cases, dist = make_bcd_cases(rng, int(sys.argv[2]))
        r = tvlib.run_cases(cases, BCD_IMPORTS, "bcd", shard=12, jobs=16)
    print(dist)
    print({k: v for k, v in r.items() if k != "bad"}, len(r["bad"]))
    for x in r["bad"][:4]:
        print("BAD", x[:1200])
    sys.exit(0)

if __name__ == "__main__":
    import sys, tvlib
    rng = random.Random(int(sys.argv[1]) if len(sys.argv) > 1 else 1)
    cases, dist = make_gram_cases(rng, int(sys.argv[2]) if len(sys.argv) > 2 else 40)
    r = run_e2e(cases, GRAM_IMPORTS, "gram", 10)
    print(dist)
    print({k: v for k, v in r.items() if k != "bad"}, len(r["bad"]))
    for x in r["bad"][:5]:
        print("BAD", x[:1500])

