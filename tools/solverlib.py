"""Implementation-side solver runs: compositions of the REAL solvers / datafits / penalties on small random
problems, and independent recomputation (from X, y and the returned w, b only) of the objective and of the
first-order optimality violation, using the documented formulas of speclib."""
import math, warnings
import numpy as np
from scipy import sparse
import speclib
from speclib import doc_loss, mcp, scad

warnings.filterwarnings("ignore")


def cc(x):
    from skglm.utils.jit_compilation import compiled_clone
    return compiled_clone(x)


# ------------------------------------------------------------------ documented penalties on vectors
def pen_value(kind, P, w):
    w = np.asarray(w, dtype=float)
    a = P.get("alpha", 0.0)
    if kind == "L1":
        return a * np.sum(np.abs(w))
    if kind == "L1_plus_L2":
        r = P["l1_ratio"]
        return a * (r * np.sum(np.abs(w)) + (1 - r) / 2 * np.sum(w ** 2))
    if kind == "WeightedL1":
        return a * np.sum(P["weights"] * np.abs(w))
    if kind == "MCPenalty":
        return sum(mcp(u, a, P["gamma"]) for u in w)
    if kind == "WeightedMCPenalty":
        return sum(wt * mcp(u, a, P["gamma"]) for u, wt in zip(w, P["weights"]))
    if kind == "SCAD":
        return sum(scad(u, a, P["gamma"]) for u in w)
    if kind == "IndicatorBox":
        return 0.0 if np.all((w >= 0) & (w <= a)) else math.inf
    if kind == "PositiveConstraint":
        return 0.0 if np.all(w >= 0) else math.inf
    if kind == "L2":
        return a * np.sum(w ** 2) / 2
    if kind == "WeightedGroupL2":
        gp, gi = P["grp_ptr"], P["grp_indices"]
        return a * sum(P["weights"][g] * np.linalg.norm(w[gi[gp[g]:gp[g + 1]]]) for g in range(len(gp) - 1))
    if kind == "WeightedL1GroupL2":
        gp, gi = P["grp_ptr"], P["grp_indices"]
        return a * (sum(P["weights_groups"][g] * np.linalg.norm(w[gi[gp[g]:gp[g + 1]]]) for g in range(len(gp) - 1))
                    + np.sum(P["weights_features"] * np.abs(w)))
    raise KeyError(kind)


def pen_feasible(kind, P, w):
    w = np.asarray(w)
    if P.get("positive"):
        return bool(np.all(w >= 0))
    if kind == "IndicatorBox":
        return bool(np.all((w >= 0) & (w <= P["alpha"])))
    if kind == "PositiveConstraint":
        return bool(np.all(w >= 0))
    return True


def coord_interval(kind, P, j, wj, h=1e-7):
    """regular subdifferential [lo, hi] of the j-th coordinate penalty at wj (None = empty: infeasible)"""
    def f(u):
        w1 = np.zeros(max(j + 1, 1)); w1[j] = u
        PP = dict(P)
        for k in ("weights",):
            if k in PP:
                PP[k] = np.asarray(PP[k])[: j + 1]
        return pen_value(kind, PP, w1)

    def feas(u):
        if P.get("positive") or kind == "PositiveConstraint":
            return u >= 0
        if kind == "IndicatorBox":
            return 0 <= u <= P["alpha"]
        return True
    if not feas(wj):
        return None
    f0 = f(wj)
    lo = (f0 - f(wj - h)) / h if feas(wj - h) else -math.inf
    hi = (f(wj + h) - f0) / h if feas(wj + h) else math.inf
    return lo, hi


def kkt_violation(dname, DP, pkind, PP, X, y, w, b, fit_intercept):
    """max over features of dist(-grad_j, subdiff_j(w_j)) and |dF/db|, recomputed from X, y, w, b only"""
    X = np.asarray(X.todense()) if sparse.issparse(X) else np.asarray(X)
    z = X @ w + b
    n = len(z)
    h = 1e-6
    rg = np.array([(doc_loss(dname, DP, y, z + h * np.eye(n)[i]) - doc_loss(dname, DP, y, z - h * np.eye(n)[i])) / (2 * h)
                   for i in range(n)])
    grad = X.T @ rg
    viol = 0.0
    worst = None
    if pkind in ("WeightedGroupL2", "WeightedL1GroupL2"):
        gp, gi = PP["grp_ptr"], PP["grp_indices"]
        for g in range(len(gp) - 1):
            idx = gi[gp[g]:gp[g + 1]]
            wg, gg = w[idx], grad[idx]
            if pkind == "WeightedGroupL2" and not PP.get("positive"):
                t = PP["alpha"] * PP["weights"][g]
                nw = np.linalg.norm(wg)
                d = max(0.0, np.linalg.norm(gg) - t) if nw == 0 else np.linalg.norm(gg + t * wg / nw)
            else:
                continue
            if d > viol:
                viol, worst = d, ("group", g)
    else:
        for j in range(len(w)):
            itv = coord_interval(pkind, PP, j, float(w[j]))
            if itv is None:
                return math.inf, ("infeasible", j)
            lo, hi = itv
            if abs(lo) > 1e4: lo = -math.inf
            if abs(hi) > 1e4: hi = math.inf
            x = -grad[j]
            d = max(0.0, lo - x, x - hi)
            if d > viol:
                viol, worst = d, ("feature", j)
    if fit_intercept:
        db = abs(float(np.sum(rg)))
        if db > viol:
            viol, worst = db, ("intercept", None)
    return viol, worst


def objective(dname, DP, pkind, PP, X, y, w, b):
    X = np.asarray(X.todense()) if sparse.issparse(X) else np.asarray(X)
    return doc_loss(dname, DP, y, X @ w + b) + pen_value(pkind, PP, w)


# ------------------------------------------------------------------ problems and compositions
def make_problem(rng, n=None, p=None, kind="real", density=1.0):
    n = n or rng.randint(6, 14)
    p = p or rng.randint(2, 7)
    X = np.array([[rng.gauss(0, 1) if rng.random() < density else 0.0 for _ in range(p)] for _ in range(n)])
    if p > 2 and rng.random() < 0.3:
        X[:, 1] = X[:, 0] * 0.9 + 0.1 * X[:, 1]            # correlated design
    wt = np.array([rng.gauss(0, 1.5) if rng.random() < 0.5 else 0.0 for _ in range(p)])
    lin = X @ wt + rng.choice([0.0, 1.0, -2.0])
    if kind == "real":
        y = lin + np.array([rng.gauss(0, 0.3) for _ in range(n)])
    elif kind == "sign":
        y = np.sign(lin + np.array([rng.gauss(0, 0.5) for _ in range(n)]))
        y[y == 0] = 1.0
        if len(set(y)) < 2:
            y[0] = -y[0]
    elif kind == "count":
        y = np.array([float(min(8, max(0, round(math.exp(min(2.0, v / 3)) + rng.gauss(0, 0.5))))) for v in lin])
    elif kind == "pos":
        y = np.array([math.exp(min(2.0, v / 3)) * rng.choice([0.7, 1.0, 1.4]) for v in lin])
    return X, y


DATAFITS = {
    # name: (ctor(P), target kind, params(rng, n))
    "Quadratic": (lambda P: __import__("skglm").datafits.Quadratic(), "real", lambda rng, n: {}),
    "WeightedQuadratic": (lambda P: __import__("skglm").datafits.WeightedQuadratic(P["sample_weights"]), "real",
                          lambda rng, n: dict(sample_weights=np.array([rng.choice([0.5, 1.0, 2.0]) for _ in range(n)]))),
    "Logistic": (lambda P: __import__("skglm").datafits.Logistic(), "sign", lambda rng, n: {}),
    "Huber": (lambda P: __import__("skglm").datafits.Huber(P["delta"]), "real", lambda rng, n: dict(delta=rng.choice([0.5, 1.0, 2.0]))),
    "Poisson": (lambda P: __import__("skglm").datafits.Poisson(), "count", lambda rng, n: {}),
    "Gamma": (lambda P: __import__("skglm").datafits.Gamma(), "pos", lambda rng, n: {}),
}


def make_penalty(kind, rng, p, alpha, positive=False):
    import skglm.penalties as sp
    wts = np.array([rng.choice([0.0, 0.5, 1.0, 2.0]) for _ in range(p)])
    if kind == "L1":
        return sp.L1(alpha, positive), dict(alpha=alpha, positive=positive)
    if kind == "L1_plus_L2":
        r = rng.choice([0.25, 0.5, 0.9])
        return sp.L1_plus_L2(alpha, r, positive), dict(alpha=alpha, l1_ratio=r, positive=positive)
    if kind == "WeightedL1":
        return sp.WeightedL1(alpha, wts, positive), dict(alpha=alpha, weights=wts, positive=positive)
    if kind == "MCPenalty":
        g = rng.choice([3.0, 4.0, 10.0])
        return sp.MCPenalty(alpha, g, positive), dict(alpha=alpha, gamma=g, positive=positive)
    if kind == "WeightedMCPenalty":
        g = rng.choice([3.0, 4.0, 10.0])
        w2 = np.where(wts == 0, 1.0, wts)
        return sp.WeightedMCPenalty(alpha, g, w2, positive), dict(alpha=alpha, gamma=g, weights=w2, positive=positive)
    if kind == "SCAD":
        g = rng.choice([3.0, 4.0])
        return sp.SCAD(alpha, g), dict(alpha=alpha, gamma=g)
    if kind == "PositiveConstraint":
        return sp.PositiveConstraint(), dict()
    if kind == "L2":
        return sp.L2(alpha), dict(alpha=alpha)
    raise KeyError(kind)


def alpha_max(dname, DP, X, y, fit_intercept):
    """|grad| at the null model (with the loss-minimising intercept found numerically)"""
    n = len(y)
    b = 0.0
    if fit_intercept:
        lo, hi = -10.0, 10.0
        for _ in range(80):
            m1, m2 = lo + (hi - lo) / 3, hi - (hi - lo) / 3
            if doc_loss(dname, DP, y, np.full(n, m1)) < doc_loss(dname, DP, y, np.full(n, m2)):
                hi = m2
            else:
                lo = m1
        b = (lo + hi) / 2
    z = np.full(n, b)
    h = 1e-6
    rg = np.array([(doc_loss(dname, DP, y, z + h * np.eye(n)[i]) - doc_loss(dname, DP, y, z - h * np.eye(n)[i])) / (2 * h)
                   for i in range(n)])
    return float(np.max(np.abs(X.T @ rg))), b


def make_solver(sname, **kw):
    import skglm.solvers as ss
    return getattr(ss, sname)(**kw)


# which (solver, datafit) pairs are accepted, and the penalties each solver can take
CD_DATAFITS = ["Quadratic", "WeightedQuadratic", "Logistic", "Huber"]
PN_DATAFITS = ["Logistic", "Poisson", "Gamma", "Quadratic", "WeightedQuadratic"]
PROX_PENALTIES = ["L1", "L1_plus_L2", "WeightedL1", "MCPenalty", "WeightedMCPenalty", "SCAD"]


def run(solver, X, y, df, pen, w_init=None, Xw_init=None):
    """returns (w, b, objs, stop) with the intercept split off"""
    w, objs, stop = solver.solve(X, y, df, pen, w_init, Xw_init)
    p = X.shape[1]
    b = float(w[-1]) if len(w) == p + 1 else 0.0
    return np.array(w[:p], dtype=float), b, np.asarray(objs, dtype=float), float(stop)


# ------------------------------------------------------------------ groups / multitask
def make_groups(rng, p):
    """random contiguous-or-shuffled partition of range(p) into groups"""
    sizes = []
    left = p
    while left > 0:
        s = min(left, rng.randint(1, 3))
        sizes.append(s)
        left -= s
    idx = list(range(p))
    if rng.random() < 0.5:
        rng.shuffle(idx)
    grp_ptr = np.cumsum([0] + sizes).astype(np.int32)
    return grp_ptr, np.array(idx, dtype=np.int32)


def run_group(sname, rng, X, y, dname, grp_ptr, grp_indices, alpha, weights, positive, knobs, w_init=None, Xw_init=None):
    import skglm.datafits as sd, skglm.penalties as sp, skglm.solvers as ss
    df = sd.QuadraticGroup(grp_ptr, grp_indices) if dname == "Quadratic" else sd.LogisticGroup(grp_ptr, grp_indices)
    pen = sp.WeightedGroupL2(alpha, weights, grp_ptr, grp_indices, positive)
    solver = getattr(ss, sname)(**knobs)
    dfc = cc(df)
    if sname == "GroupProxNewton" and hasattr(dfc, "initialize"):
        dfc.initialize(X, y)
    return run(solver, X, y, dfc, cc(pen), w_init, Xw_init)


def mtl_violation(X, Y, W, b, alpha, fit_intercept):
    n = X.shape[0]
    R = X @ W + b - Y
    G = X.T @ R / n
    viol = 0.0
    for j in range(W.shape[0]):
        nw = np.linalg.norm(W[j])
        d = max(0.0, np.linalg.norm(G[j]) - alpha) if nw == 0 else np.linalg.norm(G[j] + alpha * W[j] / nw)
        viol = max(viol, d)
    if fit_intercept:
        viol = max(viol, float(np.max(np.abs(R.mean(axis=0)))))
    return viol


def mtl_objective(X, Y, W, b, alpha):
    n = X.shape[0]
    return float(np.sum((Y - X @ W - b) ** 2) / (2 * n) + alpha * np.sum(np.linalg.norm(W, axis=1)))


# ------------------------------------------------------------------ harness-side polyfill (trusted base)
def install_polyfill():
    """scikit-learn >= 1.6 removed BaseEstimator._validate_data, which skglm's regressors call with
    validate_separately=(X params, y params). The old method did exactly two check_array calls and recorded
    n_features_in_. Installed by the harness only (not a change to /repo)."""
    from sklearn.base import BaseEstimator
    from sklearn.utils import check_array
    if hasattr(BaseEstimator, "_validate_data"):
        return

    def _validate_data(self, X, y=None, reset=True, validate_separately=False, **kw):
        px, py = validate_separately
        X = check_array(X, input_name="X", **px)
        y = check_array(y, input_name="y", **py)
        if reset:
            self.n_features_in_ = X.shape[1]
        return X, y
    BaseEstimator._validate_data = _validate_data


install_polyfill()


def mtl_path_certificates(rng, site_prefix="certificate-on-path:MultiTaskBCD"):
    """MultiTaskBCD.path over >= 2 alphas (intercept, non-centred targets, dense / CSC, both strategies): every alpha whose
    stop_crit is <= tol must satisfy the multitask KKT conditions recomputed from (X, Y, W, b).  Returns (evaluations, failures)."""
    import skglm.datafits as sd, skglm.penalties as sp, skglm.solvers as ss
    from scipy import sparse
    Xm, _ = make_problem(rng, kind="real")
    n_, p_ = Xm.shape
    T = rng.randint(1, 3)
    Ym = Xm @ np.array([[rng.gauss(0, 1) if rng.random() < 0.5 else 0.0 for _ in range(T)] for _ in range(p_)]) + rng.choice([0.0, 2.0, -3.0]) \
        + np.array([[rng.gauss(0, 0.2) for _ in range(T)] for _ in range(n_)])
    fi_m = rng.random() < 0.7
    am = float(np.max(np.linalg.norm(Xm.T @ (Ym - Ym.mean(axis=0) if fi_m else Ym), axis=1))) / n_
    use_sp = rng.random() < 0.3
    Xin = sparse.csc_matrix(Xm) if use_sp else np.asfortranarray(Xm)
    strat = rng.choice(["subdiff", "fixpoint"])
    alphas = np.array(sorted([am * f for f in rng.sample([0.8, 0.5, 0.2, 0.05], rng.randint(2, 3))], reverse=True))
    res = ss.MultiTaskBCD(tol=1e-8, fit_intercept=fi_m, max_iter=300, ws_strategy=strat).path(
        Xin, np.asfortranarray(Ym), cc(sd.QuadraticMultiTask()), cc(sp.L2_1(1.0)), alphas=alphas)
    coefs, stops = np.asarray(res[1]), np.asarray(res[2])
    ev, failures = 0, []
    for t_, a in enumerate(alphas):
        ev += 1
        Wt = coefs[:, :, t_].T            # path returns (n_tasks, n_features + fit_intercept, n_alphas)
        if stops[t_] <= 1e-8:
            viol = mtl_violation(Xm, Ym, Wt[:p_], Wt[-1] if fi_m else 0.0, a, fi_m)
            if viol > 1e-5:
                failures.append(dict(site=site_prefix, input=dict(X=Xm.tolist(), Y=Ym.tolist(), fit_intercept=fi_m, alphas=alphas.tolist(), t=t_, sparse=use_sp, ws_strategy=strat),
                                     observed=dict(W=Wt.tolist(), stop=float(stops[t_])), expected=dict(violation=viol)))
                break
    return ev, failures
