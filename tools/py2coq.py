"""py2coq: fail-closed Python-ast -> monadic shallow Gallina over `Num F`.

Layer K of DESIGN.md: the numeric kernels of skglm (prox functions, penalty and datafit methods,
njit epoch kernels) are re-translated from /repo's current source on every run.  Any construct the
translator does not know raises `Unsupported` (with file:line) and the run fails closed.

Conventions (see DESIGN.md appendix A):
  * control flow by continuation duplication (early return / elif / continue handled uniformly);
  * partial operations (/, a[i], sqrt, log, calls) are hoisted into `bind`s left-to-right, so the
    first failing operation is Python's;
  * float literals are the exact binary64 value (`fofQ (num # den)`), integer-valued ones `fofZ n`;
  * arrays are lists, indices are Z with Python's negative wrap, out of range = `Err OOB`;
  * in-place kernels return the tuple of the parameters they mutate.
"""
import ast

F, I, B, VF, VI, VB, E, VE, M, MR = "F", "I", "B", "VF", "VI", "VB", "E", "VE", "M", "MR"
TYMAP = {F: "F", I: "Z", B: "bool", VF: "list F", VI: "list Z", VB: "list bool",
         E: "Ext F", VE: "list (Ext F)", M: "list (list F)", MR: "list (list F)"}
ELEM = {VF: F, VI: I, VB: B, VE: E, M: VF, MR: VF}

RESERVED = {"res", "ret", "bind", "fix", "fun", "end", "in", "at", "as", "if", "then", "else",
            "let", "match", "with", "return", "exists", "forall", "Type", "Set", "Prop", "mat",
            "Ok", "Err", "Fin", "PInf", "err", "slice", "gather", "scatter", "f0", "f1", "fsq",
            "where", "using", "by", "do", "mod", "value", "F", "H", "Q", "Z", "R", "S", "O", "I",
            "vsum", "vmap", "vdot", "vnorm", "vmax", "vmin", "for", "is_ok", "mv", "mcol", "mget"}


def mg(name):
    return name + "_" if name in RESERVED else name


def tyname(t):
    if isinstance(t, tuple):
        return "(" + " * ".join(tyname(x) for x in t) + ")"
    return TYMAP[t]


class Unsupported(Exception):
    pass


class Ctx:
    def __init__(self, tr, types, ret, selfname=None, cls=None, local_types=None, objs=None,
                 fuel=None):
        self.tr = tr
        self.types = dict(types)
        self.ret = ret
        self.selfname = selfname
        self.cls = cls
        self.local_types = local_types or {}
        self.objs = objs or {}          # name -> protocol kind ('datafit' / 'penalty')
        self.counter = [0]
        self.used_fields = []
        self.used_protocols = []
        self.fuel = fuel or {}

    def child(self):
        c = Ctx(self.tr, self.types, self.ret, self.selfname, self.cls, self.local_types,
                self.objs, self.fuel)
        c.counter = self.counter
        c.used_fields = self.used_fields
        c.used_protocols = self.used_protocols
        for a in ("fname", "line0", "assigned_fields", "mutates", "break_ret"):
            if hasattr(self, a):
                setattr(c, a, getattr(self, a))
        return c

    def fresh(self):
        self.counter[0] += 1
        return f"t{self.counter[0]}"


def coerce(s, ty, want, node=None):
    if ty == want:
        return s
    if ty == I and want == F:
        return f"(fofZ {s})"
    if ty == F and want == E:
        return f"(Fin {s})"
    if ty == I and want == E:
        return f"(Fin (fofZ {s}))"
    if ty == VF and want == VE:
        return f"(map Fin {s})"
    if ty == B and want == F:
        return f"(if {s} then fofZ 1 else fofZ 0)"
    raise Unsupported(f"cannot coerce {ty} to {want}: {s}")


def const_value(e):
    """Python-level constant folding of numeric literal expressions (the code's own binary64 values)."""
    if isinstance(e, ast.Constant) and isinstance(e.value, (int, float)) and not isinstance(e.value, bool):
        return e.value
    if isinstance(e, ast.UnaryOp) and isinstance(e.op, ast.USub):
        v = const_value(e.operand)
        return None if v is None else -v
    if isinstance(e, ast.BinOp):
        a, b = const_value(e.left), const_value(e.right)
        if a is None or b is None:
            return None
        try:
            if isinstance(e.op, ast.Add): return a + b
            if isinstance(e.op, ast.Sub): return a - b
            if isinstance(e.op, ast.Mult): return a * b
            if isinstance(e.op, ast.Div): return a / b
            if isinstance(e.op, ast.Pow): return a ** b
        except Exception:
            return None
    return None


def lit(v):
    if isinstance(v, int):
        return (f"({v})%Z", I)
    if v == int(v) and abs(v) < 2 ** 53:
        return (f"(fofZ ({int(v)})%Z)", F)
    num, den = v.as_integer_ratio()
    return (f"(fofQ (({num})%Z # {den}))", F)


UN_F = {"abs": "fabs", "sign": "fsign", "exp": "fexp", "cos": "fcos"}
UN_RES = {"sqrt": "fsqrt", "log": "flog", "arccos": "facos"}


class Translator:
    def __init__(self):
        self.funcs = {}       # name -> dict(params=[(name, ty, default)], ret, elementwise, protocols, fields)
        self.classes = {}     # cls -> dict(fields={name: ty}, methods={...})
        self.out = []

    # ------------------------------------------------------------------ expressions
    def expr(self, e, cx, binds):
        try:
            return self._expr(e, cx, binds)
        except Unsupported as u:
            if "line" not in str(u):
                raise Unsupported(f"{u} (line {getattr(e, 'lineno', '?')})")
            raise

    def hoist(self, cx, binds, rhs):
        t = cx.fresh()
        binds.append((t, rhs))
        return t

    def _expr(self, e, cx, binds):
        cv = const_value(e)
        if cv is not None and not isinstance(e, ast.Constant):
            return lit(cv)
        if isinstance(e, ast.Constant):
            if isinstance(e.value, bool):
                return ("true" if e.value else "false", B)
            if isinstance(e.value, (int, float)):
                return lit(e.value)
            raise Unsupported(f"constant {e.value!r}")
        if isinstance(e, ast.Name):
            if e.id not in cx.types:
                raise Unsupported(f"unknown name {e.id}")
            return (mg(e.id), cx.types[e.id])
        if isinstance(e, ast.Attribute):
            return self.attribute(e, cx, binds)
        if isinstance(e, ast.UnaryOp):
            s, t = self.expr(e.operand, cx, binds)
            if isinstance(e.op, ast.USub):
                if t == F: return (f"(fopp {s})", F)
                if t == I: return (f"(- {s})%Z", I)
                if t == VF: return (f"(vmap fopp {s})", VF)
            if isinstance(e.op, ast.Not) and t == B:
                return (f"(negb {s})", B)
            if isinstance(e.op, ast.Invert) and t == VB:
                return (f"(map negb {s})", VB)
            raise Unsupported(f"unary {type(e.op).__name__} on {t}")
        if isinstance(e, ast.BinOp):
            return self.binop(e, cx, binds)
        if isinstance(e, ast.Compare):
            return self.compare(e, cx, binds)
        if isinstance(e, ast.BoolOp):
            # Python short-circuits; operands here are side-effect free but may be partial:
            # hoisted binds would evaluate them eagerly, so refuse partial operands on the right.
            is_and = isinstance(e.op, ast.And)
            acc = None
            for k, v in enumerate(e.values):
                b2 = []
                s, t = self.expr(v, cx, b2)
                if t != B:
                    raise Unsupported("non-bool operand of and/or")
                if k == 0:
                    binds.extend(b2)
                    acc = s
                elif not b2:
                    acc = f"({'andb' if is_and else 'orb'} {acc} {s})"
                else:
                    # partial right operand: keep Python's laziness
                    lazy = wrap(b2, f"ret {s}")
                    if is_and:
                        acc = self.hoist(cx, binds, f"if {acc} then {lazy} else ret false")
                    else:
                        acc = self.hoist(cx, binds, f"if {acc} then ret true else {lazy}")
            return (acc, B)
        if isinstance(e, ast.IfExp):
            c, tc = self.expr(e.test, cx, binds)
            b1, b2 = [], []
            a, ta = self.expr(e.body, cx, b1)
            b, tb = self.expr(e.orelse, cx, b2)
            if tc != B:
                raise Unsupported("non-bool IfExp test")
            ty = E if E in (ta, tb) else (F if F in (ta, tb) else ta)
            a, b = coerce(a, ta, ty), coerce(b, tb, ty)
            if b1 or b2:
                # lazily evaluated partial branches
                ra = wrap(b1, f"ret {a}")
                rb = wrap(b2, f"ret {b}")
                return (self.hoist(cx, binds, f"if {c} then {ra} else {rb}"), ty)
            return (f"(if {c} then {a} else {b})", ty)
        if isinstance(e, ast.Subscript):
            return self.subscript(e, cx, binds)
        if isinstance(e, ast.Call):
            return self.call(e, cx, binds)
        if isinstance(e, ast.List):
            items = [self.expr(x, cx, binds) for x in e.elts]
            return ("[" + "; ".join(coerce(s, t, F) for s, t in items) + "]", VF)
        if isinstance(e, ast.ListComp):
            if len(e.generators) != 1 or e.generators[0].ifs:
                raise Unsupported("list comprehension form")
            g = e.generators[0]
            it, tit = self.expr(g.iter, cx, binds)
            if tit not in (VF, VI) or not isinstance(g.target, ast.Name):
                raise Unsupported("list comprehension over non-vector")
            cxb = cx.child()
            cxb.types[g.target.id] = ELEM[tit]
            b2 = []
            s, t = self.expr(e.elt, cxb, b2)
            if tit == VI and t == I:
                body = wrap(b2, f"ret {s}")
                return (self.hoist(cx, binds, f"mapM (fun {mg(g.target.id)} => {body}) {it}"), VI)
            body = wrap(b2, f"ret {coerce(s, t, F)}")
            return (self.hoist(cx, binds, f"mapM (fun {mg(g.target.id)} => {body}) {it}"), VF)
        raise Unsupported(f"expression {type(e).__name__}")

    def attribute(self, e, cx, binds):
        v = e.value
        if isinstance(v, ast.Name) and v.id == cx.selfname:
            fields = self.classes[cx.cls]["fields"]
            if e.attr in getattr(cx, "assigned_fields", []):
                return (f"self_{e.attr}", fields[e.attr])
            if e.attr not in fields:
                raise Unsupported(f"undeclared attribute self.{e.attr} (not in get_spec of {cx.cls})")
            if e.attr not in cx.used_fields:
                cx.used_fields.append(e.attr)
            return (f"self_{e.attr}", fields[e.attr])
        if isinstance(v, ast.Name) and v.id == "np" and e.attr == "inf":
            return ("PInf", E)
        if isinstance(v, ast.Name) and v.id in cx.objs:
            # attribute of a datafit/penalty object passed to a kernel (e.g. penalty.grp_ptr)
            kind = cx.objs[v.id]
            key = (kind, e.attr)
            if key not in OBJ_ATTRS:
                raise Unsupported(f"unknown object attribute {v.id}.{e.attr}")
            if key not in cx.used_protocols:
                cx.used_protocols.append(key)
            return (f"{kind}_{e.attr}", OBJ_ATTRS[key])
        if e.attr == "T":
            s, t = self.expr(v, cx, binds)
            if t == M:
                return (s, "MT")
            if t == VF:
                return (s, VF)
        if e.attr == "shape":
            s_, t_ = self.expr(v, cx, binds)
            return ((s_, t_), "SHAPE")
        raise Unsupported(f"attribute .{e.attr}")

    def binop(self, e, cx, binds):
        op = type(e.op)
        if op is ast.MatMult:
            a, ta = self.expr(e.left, cx, binds)
            b, tb = self.expr(e.right, cx, binds)
            if ta == VF and tb == VF:
                return (f"(vdot {a} {b})", F)
            if ta == "MT" and tb == VF:
                return (f"(mTv {a} {b})", VF)
            raise Unsupported(f"matmul {ta} @ {tb}")
        if op is ast.Pow:
            a, ta = self.expr(e.left, cx, binds)
            ev = const_value(e.right)
            if ev is not None and float(ev) == int(ev) and 1 <= int(ev) <= 4:
                n = int(ev)
                if ta in (F, I):
                    a = coerce(a, ta, F)
                    if not a.isidentifier():
                        a2 = cx.fresh()
                        binds.append((a2, f"ret {a}"))
                        a = a2
                    s = a
                    for _ in range(n - 1):
                        s = f"(fmul {s} {a})"
                    return (s, F)
                if ta == VF and n == 2:
                    return (f"(vmap fsq {a})", VF)
                if ta in (MR, M) and n == 2:
                    return (f"(map (vmap fsq) {a})", ta)
                raise Unsupported(f"pow on {ta}")
            b, tb = self.expr(e.right, cx, binds)
            b = coerce(b, tb, F)
            if ta in (F, I):
                return (self.hoist(cx, binds, f"fpow {coerce(a, ta, F)} {b}"), F)
            if ta == VF:
                return (self.hoist(cx, binds, f"mapM (fun e__ => fpow e__ {b}) {a}"), VF)
            raise Unsupported(f"pow on {ta}")
        a, ta = self.expr(e.left, cx, binds)
        b, tb = self.expr(e.right, cx, binds)
        if ta == I and tb == I and op is not ast.Div:
            o = {ast.Add: "+", ast.Sub: "-", ast.Mult: "*"}.get(op)
            if op is ast.Mod and isinstance(e.right, ast.Constant) and isinstance(e.right.value, int) and e.right.value > 0:
                return (f"(Z.modulo {a} {b})", I)      # Python's % with a positive modulus = Z.modulo
            if o is None:
                raise Unsupported(f"int op {op.__name__}")
            return (f"({a} {o} {b})%Z", I)
        fn = {ast.Add: "fadd", ast.Sub: "fsub", ast.Mult: "fmul"}.get(op)
        sc = (F, I)
        if ta in sc and tb in sc:
            a, b = coerce(a, ta, F), coerce(b, tb, F)
            if fn:
                return (f"({fn} {a} {b})", F)
            if op is ast.Div:
                return (self.hoist(cx, binds, f"fdiv {a} {b}"), F)
        if ta == VF and tb == VF:
            if fn:
                return (f"(vmap2 {fn} {a} {b})", VF)
            if op is ast.Div:
                return (self.hoist(cx, binds, f"mapM (fun '(e__, d__) => fdiv e__ d__) (combine {a} {b})"), VF)
        if ta == VF and tb in sc:
            b = coerce(b, tb, F)
            if fn:
                return (f"(vmap (fun e__ => {fn} e__ {b}) {a})", VF)
            if op is ast.Div:
                return (self.hoist(cx, binds, f"vdivs {a} {b}"), VF)
        if ta in sc and tb == VF:
            a = coerce(a, ta, F)
            if fn:
                return (f"(vmap (fun e__ => {fn} {a} e__) {b})", VF)
            if op is ast.Div:
                return (self.hoist(cx, binds, f"mapM (fun e__ => fdiv {a} e__) {b}"), VF)
        raise Unsupported(f"binop {op.__name__} on {ta},{tb}")

    def compare(self, e, cx, binds):
        if len(e.ops) != 1:
            raise Unsupported("chained comparison")
        a, ta = self.expr(e.left, cx, binds)
        b, tb = self.expr(e.comparators[0], cx, binds)
        o = type(e.ops[0])
        if ta == I and tb == I:
            tbl = {ast.Lt: f"(Z.ltb {a} {b})", ast.LtE: f"(Z.leb {a} {b})", ast.Eq: f"(Z.eqb {a} {b})",
                   ast.Gt: f"(Z.ltb {b} {a})", ast.GtE: f"(Z.leb {b} {a})",
                   ast.NotEq: f"(negb (Z.eqb {a} {b}))"}
            return (tbl[o], B)

        def cmp(x, y):
            return {ast.Gt: f"(fltb {y} {x})", ast.Lt: f"(fltb {x} {y})", ast.GtE: f"(fleb {y} {x})",
                    ast.LtE: f"(fleb {x} {y})", ast.Eq: f"(feqb {x} {y})",
                    ast.NotEq: f"(negb (feqb {x} {y}))"}[o]
        if ta in (F, I) and tb in (F, I):
            return (cmp(coerce(a, ta, F), coerce(b, tb, F)), B)
        if ta == VF and tb in (F, I):
            return (f"(map (fun e__ => {cmp('e__', coerce(b, tb, F))}) {a})", VB)
        if ta == E and tb in (F, I) and o is ast.LtE:
            return (f"(eleb {a} {coerce(b, tb, F)})", B)
        raise Unsupported(f"compare {ta} vs {tb}")

    def subscript(self, e, cx, binds):
        sl = e.slice
        # X[:, j]  /  X[i, j]
        if isinstance(sl, ast.Tuple) and len(sl.elts) == 2:
            a, ta = self.expr(e.value, cx, binds)
            r, c = sl.elts
            if ta == MR:
                ri, ti = self.expr(r, cx, binds)
                if ti != I:
                    raise Unsupported("row index type")
                if isinstance(c, ast.Slice) and c.lower is None and c.upper is None:
                    return (self.hoist(cx, binds, f"get_idx {a} {ri}"), VF)
                cj, tj = self.expr(c, cx, binds)
                if tj != I:
                    raise Unsupported("column index type")
                row = self.hoist(cx, binds, f"get_idx {a} {ri}")
                return (self.hoist(cx, binds, f"get_idx {row} {cj}"), F)
            if ta != M:
                raise Unsupported(f"2-d subscript on {ta}")
            cj, tj = self.expr(c, cx, binds)
            if tj != I:
                raise Unsupported("matrix column index type")
            if isinstance(r, ast.Slice) and r.lower is None and r.upper is None:
                return (self.hoist(cx, binds, f"mcol {a} {cj}"), VF)
            ri, ti = self.expr(r, cx, binds)
            if ti != I:
                raise Unsupported("matrix row index type")
            return (self.hoist(cx, binds, f"mget {a} {ri} {cj}"), F)
        a, ta = self.expr(e.value, cx, binds)
        if isinstance(sl, ast.Slice):
            if sl.step is not None or ta not in (VF, VI):
                raise Unsupported("slice form")
            lo = self.expr(sl.lower, cx, binds) if sl.lower else ("0%Z", I)
            hi = self.expr(sl.upper, cx, binds) if sl.upper else (f"(zlen {a})", I)
            if lo[1] != I or hi[1] != I:
                raise Unsupported("slice bound type")
            return (self.hoist(cx, binds, f"slice {a} {lo[0]} {hi[0]}"), ta)
        i, ti = self.expr(sl, cx, binds)
        if ta == "SHAPE":
            k = const_value(sl)
            base, bty = a
            if (bty in (VF, VI, MR) and k == 0) or (bty == M and k == 1):
                return (f"(zlen {base})", I)
            if bty == M and k == 0:
                return (f"(mrows {base})", I)          # number of rows = length of the first column (0 for a matrix without columns)
            raise Unsupported(f"shape[{k}] of {bty}")
        if ta in ELEM and ti == I:
            return (self.hoist(cx, binds, f"get_idx {a} {i}"), ELEM[ta])
        if ta in (VF, VI) and ti == VI:
            return (self.hoist(cx, binds, f"gather {a} {i}"), ta)
        if ta == VF and ti == VB:
            return (f"(vfilter {i} {a})", VF)
        raise Unsupported(f"subscript {ta}[{ti}]")

    def call(self, e, cx, binds):
        fn = e.func
        # ---- np.* and norm
        if isinstance(fn, ast.Attribute) and isinstance(fn.value, ast.Name) and fn.value.id == "np":
            return self.np_call(fn.attr, e, cx, binds)
        if isinstance(fn, ast.Name) and fn.id == "norm":
            args = [self.expr(a, cx, binds) for a in e.args]
            kws = {k.arg: const_value(k.value) for k in e.keywords}
            if len(args) == 1 and args[0][1] == VF and kws in ({}, {"ord": 2}):
                return (f"(vnorm {args[0][0]})", F)
            raise Unsupported("norm form")
        if isinstance(fn, ast.Name) and fn.id == "sum" and len(e.args) == 1 and not e.keywords:
            a, ta = self.expr(e.args[0], cx, binds)
            if ta != VI:
                raise Unsupported("builtin sum of a non-integer list")
            return (f"(fold_left Z.add {a} 0%Z)", I)
        if isinstance(fn, ast.Name) and fn.id in ("max", "min", "abs", "len"):
            args = [self.expr(a, cx, binds) for a in e.args]
            if fn.id == "len" and len(args) == 1 and args[0][1] in ELEM:
                return (f"(zlen {args[0][0]})", I)
            if fn.id == "abs" and len(args) == 1 and args[0][1] in (F, I):
                return (f"(fabs {coerce(*args[0], F)})", F)
            if fn.id in ("max", "min") and len(args) == 2:
                (a, ta), (b, tb) = args
                if fn.id == "max" and E in (ta, tb):
                    return (f"(emax {coerce(a, ta, E)} {coerce(b, tb, E)})", E)
                if ta == I and tb == I:
                    return (f"(Z.{fn.id} {a} {b})", I)
                return (f"(f{fn.id} {coerce(a, ta, F)} {coerce(b, tb, F)})", F)
            raise Unsupported(f"builtin {fn.id} form")
        # ---- method on a value: x.sum(), x.any(), x.astype(bool_)
        if isinstance(fn, ast.Attribute) and fn.attr in ("sum", "any", "astype", "copy") and not (
                isinstance(fn.value, ast.Name) and (fn.value.id == cx.selfname or fn.value.id in cx.objs)):
            s, t = self.expr(fn.value, cx, binds)
            if fn.attr == "sum" and t == VF and not e.args and not e.keywords:
                return (f"(vsum {s})", F)
            if fn.attr == "sum" and t == M and [k.arg for k in e.keywords] == ["axis"] and const_value(e.keywords[0].value) == 0:
                return (f"(map vsum {s})", VF)
            if fn.attr == "any" and t == VB:
                return (f"(existsb (fun b => b) {s})", B)
            if fn.attr == "astype" and t == VB:
                return (s, VB)
            if fn.attr == "astype" and t == VF and e.args and "bool" in ast.unparse(e.args[0]):
                return (f"(map vnonzero {s})", VB)
            if fn.attr == "copy":
                return (s, t)
            raise Unsupported(f"method .{fn.attr} on {t}")
        # ---- self.method(...)
        if isinstance(fn, ast.Attribute) and isinstance(fn.value, ast.Name) and fn.value.id == cx.selfname:
            key = f"{cx.cls}_{fn.attr}"
            if key not in self.funcs:
                raise Unsupported(f"call to untranslated method self.{fn.attr}")
            sig = self.funcs[key]
            for f_ in sig["fields"]:
                if f_ not in cx.used_fields:
                    cx.used_fields.append(f_)
            pre = [f"self_{f_}" for f_ in sig["fields"]]
            return self.apply(key, sig, pre, e, cx, binds)
        # ---- datafit.method(...) / penalty.method(...) inside a kernel
        if isinstance(fn, ast.Attribute) and isinstance(fn.value, ast.Name) and fn.value.id in cx.objs:
            kind = cx.objs[fn.value.id]
            key = (kind, fn.attr)
            if key not in PROTOCOLS:
                raise Unsupported(f"unknown protocol method {kind}.{fn.attr}")
            if key not in cx.used_protocols:
                cx.used_protocols.append(key)
            ptys, rty = PROTOCOLS[key]
            args = [self.expr(a, cx, binds) for a in e.args]
            if len(args) != len(ptys) or e.keywords:
                raise Unsupported(f"arity of {kind}.{fn.attr}")
            out = []
            for (s, t), pt in zip(args, ptys):
                if pt is None:
                    continue         # argument the model drops (another object)
                out.append(coerce(s, t, pt))
            return (self.hoist(cx, binds, f"{kind}_{fn.attr} {' '.join(out)}"), rty)
        # ---- call to a constant-specialised copy (e.g. the recursive BST(..., positive=False))
        if isinstance(fn, ast.Name):
            for k in e.keywords:
                if isinstance(k.value, ast.Constant) and isinstance(k.value.value, bool):
                    key = f"{fn.id}__{k.arg}_{k.value.value}"
                    if key in self.funcs:
                        e2 = ast.Call(func=fn, args=e.args, keywords=[kk for kk in e.keywords if kk is not k])
                        return self.apply(key, self.funcs[key], [], e2, cx, binds)
        # ---- plain translated function (with overloads by argument type, e.g. ST_vec(x, scalar | vector))
        if isinstance(fn, ast.Name) and fn.id in self.funcs:
            keys = [fn.id] + [k for k in self.funcs if k.startswith(fn.id + "__ov")]
            err = None
            for key in keys:
                b2 = []
                try:
                    r = self.apply(key, self.funcs[key], [], e, cx, b2)
                    binds.extend(b2)
                    return r
                except Unsupported as u:
                    err = err or u
            raise err
        raise Unsupported(f"call {ast.unparse(fn)}")

    def apply(self, name, sig, pre, e, cx, binds):
        # datafit / penalty objects handed on to another kernel: dropped here, their methods are passed below
        pos_args = [a for a in e.args if not (isinstance(a, ast.Name) and a.id in cx.objs)]
        args = [self.expr(a, cx, binds) for a in pos_args]
        kw = {k.arg: self.expr(k.value, cx, binds) for k in e.keywords}
        out = list(pre)
        lifted = None
        for idx, (pname, pty, default) in enumerate(sig["params"]):
            if idx < len(args):
                s, t = args[idx]
            elif pname in kw:
                s, t = kw[pname]
            elif default is not None:
                s, t = default, pty
            else:
                raise Unsupported(f"missing argument {pname} for {name}")
            if t == VF and pty == F and sig.get("elementwise"):
                if lifted is not None:
                    raise Unsupported("two vector arguments to an elementwise function")
                lifted = s
                out.append("x__")
            else:
                out.append(coerce(s, t, pty))
        callee = mg(sig.get("coqname", name))
        protos = []
        for k, ty in sig.get("protocols", []):
            kind, meth = k.split("_", 1)
            if kind not in cx.objs.values():
                raise Unsupported(f"call to kernel {name} needing a {kind} object")
            key = (kind, meth)
            if key not in cx.used_protocols:
                cx.used_protocols.append(key)
            protos.append(k)
        out = list(pre) + protos + out[len(pre):]
        if lifted is not None:
            return (self.hoist(cx, binds, f"mapM (fun x__ => {callee} {' '.join(out)}) {lifted}"), VF)
        return (self.hoist(cx, binds, f"{callee} {' '.join(out)}"), sig["ret"])

    def np_call(self, name, e, cx, binds):
        nargs = e.args[:1] if name in ("ones", "zeros", "empty") else e.args
        args = [self.expr(a, cx, binds) for a in nargs]
        kws = {k.arg: k.value for k in e.keywords}
        a0 = args[0] if args else None
        if name in UN_F and len(args) == 1:
            if a0[1] in (F, I): return (f"({UN_F[name]} {coerce(*a0, F)})", F)
            if a0[1] == VF: return (f"(vmap {UN_F[name]} {a0[0]})", VF)
        if name in UN_RES and len(args) == 1:
            if a0[1] in (F, I): return (self.hoist(cx, binds, f"{UN_RES[name]} {coerce(*a0, F)}"), F)
            if a0[1] == VF: return (self.hoist(cx, binds, f"mapM {UN_RES[name]} {a0[0]}"), VF)
        if name == "log1p" and len(args) == 1 and a0[1] in (F, I):
            return (self.hoist(cx, binds, f"flog (fadd (fofZ 1) {coerce(*a0, F)})"), F)
        if name == "sum" and len(args) == 1 and not kws:
            if a0[1] == VF: return (f"(vsum {a0[0]})", F)
        if name == "sum" and len(args) == 1 and a0[1] == MR and list(kws) == ["axis"] and const_value(kws["axis"]) == 1:
            return (f"(map vsum {a0[0]})", VF)
        if name == "mean" and len(args) == 1 and a0[1] == VF:
            v = a0[0]
            if not v.isidentifier():
                v = self.hoist(cx, binds, f"ret {a0[0]}")
            return (self.hoist(cx, binds, f"fdiv (vsum {v}) (fofZ (zlen {v}))"), F)
        if name == "max" and len(args) == 1 and a0[1] == VE and not kws:
            return (self.hoist(cx, binds, f"vemax {a0[0]}"), E)
        if name in ("max", "min") and len(args) == 1 and a0[1] == VF:
            return (self.hoist(cx, binds, f"v{name} {a0[0]}"), F)
        if name == "maximum" and len(args) == 2:
            (a, ta), (b, tb) = args
            if ta in (F, I) and tb == VF:
                return (f"(vmap (fun e__ => fmax {coerce(a, ta, F)} e__) {b})", VF)
        if name == "argmin" and len(args) == 1 and a0[1] == VF:
            return (self.hoist(cx, binds, f"vargmin {a0[0]}"), I)
        if name == "argmax" and len(args) == 1 and a0[1] == VE and not kws:
            return (self.hoist(cx, binds, f"veargmax {a0[0]}"), I)
        if name == "arange" and len(args) == 1 and a0[1] == I and not kws:
            return (f"(zrange 0 {a0[0]})", VI)
        if name == "array" and len(args) == 1 and a0[1] == VF:
            return a0
        if name == "zeros_like" and len(args) == 1 and a0[1] in ELEM:
            return (f"(vzeros_like {a0[0]})", VF)
        if name == "full_like" and len(args) == 2 and a0[1] == VF:
            return (f"(vfull_like {a0[0]} {coerce(*args[1], F)})", VF)
        if name == "zeros" and len(args) >= 1 and a0[1] == I:
            dt = kws.get("dtype") or (e.args[1] if len(e.args) > 1 else None)
            if dt is not None and "bool" in ast.unparse(dt):
                return (f"(repeat false (Z.to_nat {a0[0]}))", VB)
            return (f"(vzeros {a0[0]})", VF)
        if name == "ones" and len(args) >= 1 and a0[1] == I:
            dt = kws.get("dtype") or (e.args[1] if len(e.args) > 1 else None)
            if dt is not None and "bool" in ast.unparse(dt):
                return (f"(repeat true (Z.to_nat {a0[0]}))", VB)
            if dt is None:
                return (f"(repeat (fofZ 1) (Z.to_nat {a0[0]}))", VF)
        if name == "append" and len(args) == 2 and a0[1] == VI and args[1][1] == I and not kws:
            return (f"({a0[0]} ++ [{args[1][0]}])", VI)
        if name == "any" and len(args) == 1:
            if a0[1] == VB: return (f"(existsb (fun b => b) {a0[0]})", B)
            if a0[1] == VF: return (f"(vany vnonzero {a0[0]})", B)
        if name == "logical_and" and len(args) == 2 and a0[1] == VB and args[1][1] == VB:
            return (f"(map (fun '(a, b) => andb a b) (combine {a0[0]} {args[1][0]}))", VB)
        raise Unsupported(f"np.{name}({', '.join(t for _, t in args)})")

    # ------------------------------------------------------------------ statements
    def block(self, stmts, cx, final):
        if not stmts:
            return final
        s, rest = stmts[0], stmts[1:]
        try:
            return self._stmt(s, rest, cx, final)
        except Unsupported as u:
            if "line" not in str(u):
                raise Unsupported(f"{u} (line {getattr(s, 'lineno', '?')})")
            raise

    def assign_name(self, name, v, t, cx):
        old = cx.types.get(name)
        if name in cx.local_types:
            want = cx.local_types[name]
            v, t = coerce(v, t, want), want
        elif old is not None and old != t:
            v, t = coerce(v, t, old), old
        cx.types[name] = t
        return v

    def _stmt(self, s, rest, cx, final):
        if isinstance(s, ast.Expr) and isinstance(s.value, ast.Constant):
            return self.block(rest, cx, final)          # docstring
        if isinstance(s, ast.Pass):
            return self.block(rest, cx, final)
        if isinstance(s, ast.Return):
            binds = []
            if s.value is None:
                return final
            if isinstance(s.value, ast.Tuple):
                parts = [self.expr(x, cx, binds) for x in s.value.elts]
                if not isinstance(cx.ret, tuple) or len(cx.ret) != len(parts):
                    raise Unsupported("tuple return arity")
                v = "(" + ", ".join(coerce(p, t, r) for (p, t), r in zip(parts, cx.ret)) + ")"
                return wrap(binds, f"ret {v}")
            v, t = self.expr(s.value, cx, binds)
            if getattr(cx, "mutates", None):
                # an in-place kernel that also returns a value: (mutated parameters..., value)
                if not isinstance(cx.ret, tuple) or len(cx.ret) != len(cx.mutates) + 1:
                    raise Unsupported("return value of a mutating kernel: declared return arity")
                return wrap(binds, "ret (" + ", ".join(mg(m) for m in cx.mutates) + f", {coerce(v, t, cx.ret[-1])})")
            return wrap(binds, f"ret {coerce(v, t, cx.ret)}")
        if isinstance(s, ast.Raise):
            return "Err Dom"
        if isinstance(s, ast.Expr) and isinstance(s.value, ast.Call) and isinstance(s.value.func, ast.Name) \
                and s.value.func.id in self.funcs and self.funcs[s.value.func.id].get("mutates"):
            # call of an in-place kernel for its effect: the mutated arguments are rebound to what it returns
            sig = self.funcs[s.value.func.id]
            pos = [a for a in s.value.args if not (isinstance(a, ast.Name) and a.id in cx.objs)]
            pnames = [p for p, _, _ in sig["params"]]
            targets = []
            for m in sig["mutates"]:
                a = pos[pnames.index(m)]
                if not isinstance(a, ast.Name) or a.id not in cx.types:
                    raise Unsupported("in-place kernel called on a non-variable")
                targets.append(mg(a.id))
            binds = []
            r, _ = self.apply(s.value.func.id, sig, [], s.value, cx, binds)
            pat = targets[0] if len(targets) == 1 else "'(" + ", ".join(targets) + ")"
            return wrap(binds, f"bind (ret {r}) (fun {pat} =>\n{self.block(rest, cx, final)})")
        if isinstance(s, ast.Continue):
            return final
        if isinstance(s, ast.Break):
            if not getattr(cx, "break_ret", None):
                raise Unsupported("break outside a translated for loop")
            return cx.break_ret
        if isinstance(s, ast.Assign) and len(s.targets) == 1:
            tgt = s.targets[0]
            if isinstance(tgt, ast.Tuple) and isinstance(s.value, ast.Tuple) and len(tgt.elts) == len(s.value.elts):
                # a, b = x, y   (no swap semantics needed: checked that targets do not occur on the right)
                names = {t.id for t in tgt.elts if isinstance(t, ast.Name)}
                used = {n.id for v in s.value.elts for n in ast.walk(v) if isinstance(n, ast.Name)}
                if names & used:
                    raise Unsupported("tuple assignment with overlap")
                new = [ast.Assign(targets=[t], value=v, lineno=s.lineno) for t, v in zip(tgt.elts, s.value.elts)]
                return self.block(new + rest, cx, final)
            if isinstance(tgt, ast.Name) and isinstance(s.value, ast.Attribute) and s.value.attr == "dtype":
                return self.block(rest, cx, final)      # dtype = X.dtype: arrays are untyped lists in the model
            if isinstance(tgt, ast.Name):
                binds = []
                v, t = self.expr(s.value, cx, binds)
                v = self.assign_name(tgt.id, v, t, cx)
                return wrap(binds, f"let {mg(tgt.id)} := {v} in\n{self.block(rest, cx, final)}")
            if isinstance(tgt, ast.Attribute) and isinstance(tgt.value, ast.Name) and tgt.value.id == cx.selfname:
                fields = self.classes[cx.cls]["fields"]
                if tgt.attr not in fields:
                    raise Unsupported(f"store to undeclared attribute self.{tgt.attr} (not in get_spec of {cx.cls})")
                binds = []
                v, t = self.expr(s.value, cx, binds)
                v = coerce(v, t, fields[tgt.attr])
                cx.types[f"self_{tgt.attr}"] = fields[tgt.attr]
                if tgt.attr not in cx.assigned_fields:
                    cx.assigned_fields.append(tgt.attr)
                return wrap(binds, f"let self_{tgt.attr} := {v} in\n{self.block(rest, cx, final)}")
            if isinstance(tgt, ast.Subscript):
                return self.store(tgt, s.value, None, rest, cx, final)
        if isinstance(s, ast.AugAssign):
            opn = {ast.Add: ast.Add, ast.Sub: ast.Sub, ast.Mult: ast.Mult, ast.Div: ast.Div}.get(type(s.op))
            if opn is None:
                raise Unsupported("augmented operator")
            if isinstance(s.target, ast.Name):
                new = ast.Assign(targets=[s.target],
                                 value=ast.BinOp(left=ast.Name(id=s.target.id, ctx=ast.Load()), op=s.op, right=s.value),
                                 lineno=s.lineno)
                ast.fix_missing_locations(new)
                return self._stmt(new, rest, cx, final)
            if isinstance(s.target, ast.Subscript):
                return self.store(s.target, s.value, s.op, rest, cx, final)
        if isinstance(s, ast.If):
            if is_verbose_only(s):
                return self.block(rest, cx, final)
            binds = []
            c, tc = self.expr(s.test, cx, binds)
            if tc != B:
                raise Unsupported("non-bool test")
            cx1 = cx.child()
            a = self.block(s.body + rest, cx1, final)
            cx2 = cx.child()
            b = self.block(s.orelse + rest, cx2, final)
            return wrap(binds, f"if {c} then\n{a}\nelse\n{b}")
        if isinstance(s, ast.For):
            return self.loop(s, rest, cx, final)
        if isinstance(s, ast.While):
            return self.while_(s, rest, cx, final)
        raise Unsupported(f"statement {type(s).__name__}")

    def store(self, tgt, value, augop, rest, cx, final):
        if isinstance(tgt.value, ast.Attribute) and isinstance(tgt.value.value, ast.Name) \
                and tgt.value.value.id == cx.selfname and f"self_{tgt.value.attr}" in cx.types:
            tgt = ast.Subscript(value=ast.Name(id=f"self_{tgt.value.attr}", ctx=ast.Load()), slice=tgt.slice, ctx=tgt.ctx)
        if not isinstance(tgt.value, ast.Name):
            raise Unsupported("store target")
        arr = tgt.value.id
        aty = cx.types.get(arr)
        if aty not in ELEM:
            raise Unsupported(f"store into {arr}:{aty}")
        binds = []
        sl = tgt.slice
        if isinstance(sl, ast.Slice):
            if augop is not None or sl.step is not None or sl.lower is None or sl.upper is None or aty != VF:
                raise Unsupported("slice store form")
            lo, tlo = self.expr(sl.lower, cx, binds)
            hi, thi = self.expr(sl.upper, cx, binds)
            v, tv = self.expr(value, cx, binds)
            if tlo != I or thi != I or tv != VF:
                raise Unsupported("slice store types")
            return wrap(binds, f"bind (set_slice {mg(arr)} {lo} {hi} {v}) (fun {mg(arr)} =>\n{self.block(rest, cx, final)})")
        i, ti = self.expr(sl, cx, binds)
        if ti == VI and aty == VF and augop is not None:
            # a[idxs] op= vector: read the selected entries, combine, store them back in order (distinct indices assumed by numpy too)
            cur = self.hoist(cx, binds, f"gather {mg(arr)} {i}")
            node = ast.BinOp(left=ast.Name(id="__curv__", ctx=ast.Load()), op=augop, right=value)
            cxt = cx.child()
            cxt.types["__curv__"] = VF
            v, tv = self.expr(node, cxt, binds)
            if tv != VF:
                raise Unsupported("fancy augmented store of non-vector")
            v = v.replace("__curv__", cur)
            binds[:] = [(n, r.replace("__curv__", cur)) for n, r in binds]
            return wrap(binds, f"bind (scatter {mg(arr)} {i} {v}) (fun {mg(arr)} =>\n{self.block(rest, cx, final)})")
        if ti == VI and aty == VF and augop is None:
            # a[idxs] = vector: one store per index, in order (numpy raises on a length mismatch: Err Shape)
            v, tv = self.expr(value, cx, binds)
            if tv != VF:
                raise Unsupported("fancy store of non-vector")
            return wrap(binds, f"bind (scatter {mg(arr)} {i} {v}) (fun {mg(arr)} =>\n{self.block(rest, cx, final)})")
        if ti == VB and aty == VF and augop is None and any(
                isinstance(n, ast.Call) and isinstance(n.func, ast.Name) and
                (n.func.id in self.funcs or n.func.id == cx.fname.split("__")[0]) for n in ast.walk(value)):
            # a[mask] = f(b[mask], ...): not elementwise -> scatter the result into the masked positions
            v, tv = self.expr(value, cx, binds)
            if tv != VF:
                raise Unsupported("mask scatter of non-vector")
            return wrap(binds, f"let {mg(arr)} := vscatter_mask {mg(arr)} {i} {v} in\n{self.block(rest, cx, final)}")
        if ti == VB and aty == VF and augop is None:
            # value[mask] = <elementwise expression in w[mask]>: evaluate on the whole vector, select by mask
            class R(ast.NodeTransformer):
                def visit_Subscript(self_, n):
                    if isinstance(n.slice, ast.Name) and n.slice.id == sl.id:
                        return n.value
                    return self_.generic_visit(n)
            if not isinstance(sl, ast.Name):
                raise Unsupported("mask store form")
            full = R().visit(ast.parse(ast.unparse(value), mode="eval").body)
            v, tv = self.expr(full, cx, binds)
            if tv != VF:
                raise Unsupported("mask store of non-vector")
            return wrap(binds, f"let {mg(arr)} := vselect {i} {v} {mg(arr)} in\n{self.block(rest, cx, final)}")
        if ti != I:
            raise Unsupported(f"store index type {ti}")
        if augop is not None:
            cur = self.hoist(cx, binds, f"get_idx {mg(arr)} {i}")
            node = ast.BinOp(left=ast.Name(id="__cur__", ctx=ast.Load()), op=augop, right=value)
            cxt = cx.child()
            cxt.types["__cur__"] = ELEM[aty]
            v, tv = self.expr(node, cxt, binds)
            v = v.replace("__cur__", cur)
            binds[:] = [(n, r.replace("__cur__", cur)) for n, r in binds]
        else:
            v, tv = self.expr(value, cx, binds)
        v = coerce(v, tv, ELEM[aty])
        return wrap(binds, f"bind (set_idx {mg(arr)} {i} {v}) (fun {mg(arr)} =>\n{self.block(rest, cx, final)})")

    def loop_state(self, body, cx):
        st = [n for n in assigned(body) if n in cx.types]
        return st

    def loop(self, s, rest, cx, final):
        st = self.loop_state(s.body, cx)
        if not st:
            raise Unsupported("loop without state")
        names = [mg(n) for n in st]
        # `break`: the loop state carries a flag; once set, the remaining iterations return the state unchanged
        has_break = own_break(s.body)
        if has_break:
            names = names + ["brk__"]
        tup = "(" + ", ".join(names) + ")" if len(names) > 1 else names[0]
        pat = "'" + tup if len(names) > 1 else tup
        it = s.iter
        cxb = cx.child()
        if s.orelse and not all(isinstance(x, ast.Pass) for x in s.orelse):
            raise Unsupported("for-else")
        if contains(s.body, (ast.Return,)):
            raise Unsupported("return inside for")
        body_final = f"ret {tup}"
        init = tup
        cxb.break_ret = None
        if has_break:
            body_final = "ret (" + ", ".join(names[:-1] + ["false"]) + ")"
            cxb.break_ret = "ret (" + ", ".join(names[:-1] + ["true"]) + ")"
            init = "(" + ", ".join(names[:-1] + ["false"]) + ")"

        def guard(body):
            return f"if (brk__ : bool) then ret {tup} else\n{body}" if has_break else body
        if isinstance(it, ast.Call) and isinstance(it.func, ast.Name) and it.func.id == "enumerate":
            binds = []
            arr, ta = self.expr(it.args[0], cx, binds)
            if ta != VI:
                raise Unsupported("enumerate over non-index array")
            idx, j = [x.id for x in s.target.elts]
            cxb.types[idx] = I
            cxb.types[j] = I
            body = guard(self.block(s.body, cxb, body_final))
            lp = f"for_enum {arr} (fun {mg(idx)} {mg(j)} {pat} =>\n{body}) {init}"
        elif isinstance(it, ast.Call) and isinstance(it.func, ast.Name) and it.func.id == "range":
            binds = []
            args = [self.expr(a, cx, binds) for a in it.args]
            if any(t != I for _, t in args):
                raise Unsupported("range bounds")
            j = s.target.id
            cxb.types[j] = I
            body = guard(self.block(s.body, cxb, body_final))
            if len(args) == 1:
                rng = f"(zrange 0 {args[0][0]})"
            elif len(args) == 2:
                rng = f"(zrange {args[0][0]} {args[1][0]})"
            elif len(args) == 3 and const_value(it.args[2]) == -1:
                # range(a, b, -1) = reversed(range(b+1, a+1))
                rng = f"(zrange_rev ({args[1][0]} + 1) ({args[0][0]} + 1))"
            else:
                raise Unsupported("range form")
            lp = f"for_each {rng} (fun {mg(j)} {pat} =>\n{body}) {init}"
        elif isinstance(it, ast.Name) and cx.types.get(it.id) == VI:
            binds = []
            j = s.target.id
            cxb.types[j] = I
            body = guard(self.block(s.body, cxb, body_final))
            lp = f"for_each {mg(it.id)} (fun {mg(j)} {pat} =>\n{body}) {init}"
        else:
            raise Unsupported("loop form")
        return wrap(binds, f"bind ({lp}) (fun {pat} =>\n{self.block(rest, cx, final)})")

    def while_(self, s, rest, cx, final):
        st = self.loop_state(s.body, cx)
        if not st or s.orelse or contains(s.body, (ast.Break, ast.Return, ast.Continue)):
            raise Unsupported("while form")
        key = (cx.fname, s.lineno - cx.line0)
        fuel = cx.fuel.get("while")
        if fuel is None:
            raise Unsupported("while loop without declared fuel")
        names = [mg(n) for n in st]
        tup = "(" + ", ".join(names) + ")" if len(st) > 1 else names[0]
        pat = "'" + tup if len(st) > 1 else tup
        cb = []
        c, tc = self.expr(s.test, cx, cb)
        cond = wrap(cb, f"ret {c}")
        cxb = cx.child()
        body = self.block(s.body, cxb, f"ret {tup}")
        lp = f"while_fuel {fuel} (fun {pat} => {cond}) (fun {pat} =>\n{body}) {tup}"
        return f"bind ({lp}) (fun {pat} =>\n{self.block(rest, cx, final)})"

    # ------------------------------------------------------------------ functions
    def function(self, fn, name, params, ret, defaults=None, selfname=None, cls=None, local_types=None,
                 objs=None, mutates=None, elementwise=False, fuel=None, init_locals=None):
        """params: ordered {pyname: type}; returns Gallina text and registers the signature."""
        cx = Ctx(self, params, ret, selfname, cls, local_types, objs, fuel)
        cx.fname = name
        cx.line0 = fn.lineno
        cx.assigned_fields = []
        cx.mutates = list(mutates or [])
        for k, v in (init_locals or {}).items():
            cx.types[k] = v
        if mutates:
            final = "ret (" + ", ".join(mg(m) for m in mutates) + ")" if len(mutates) > 1 else f"ret {mg(mutates[0])}"
        elif ret == "FIELDS":
            final = "@@FIELDS@@"
        else:
            final = "Err Fall"
        body = self.block(fn.body, cx, final)
        if ret == "FIELDS":
            fl = cx.assigned_fields
            if not fl:
                # nothing stored (e.g. Poisson.initialize only validates): return unit-like bool
                body = body.replace("@@FIELDS@@", "ret true")
                ret = B
            else:
                tup = "(" + ", ".join(f"self_{f_}" for f_ in fl) + ")" if len(fl) > 1 else f"self_{fl[0]}"
                body = body.replace("@@FIELDS@@", f"ret {tup}")
                fields = self.classes[cls]["fields"]
                ret = tuple(fields[f_] for f_ in fl) if len(fl) > 1 else fields[fl[0]]
        fields = [f_ for f_ in (self.classes[cls]["fields"] if cls else {}) if f_ in cx.used_fields
                  and f_ not in cx.assigned_fields]
        fparams = " ".join(f"(self_{f_} : {TYMAP[self.classes[cls]['fields'][f_]]})" for f_ in fields)
        protos = []
        for key in cx.used_protocols:
            kind, meth = key
            if key in PROTOCOLS:
                ptys, rty = PROTOCOLS[key]
                ty = " -> ".join([TYMAP[p] for p in ptys if p is not None] + [f"res ({tyname(rty)})"])
            else:
                ty = TYMAP[OBJ_ATTRS[key]]
            protos.append((f"{kind}_{meth}", ty))
        pparams = " ".join(f"({n} : {t})" for n, t in protos)
        ps = " ".join(f"({mg(p)} : {TYMAP[t]})" for p, t in params.items())
        self.funcs[name] = dict(
            params=[(p, t, (defaults or {}).get(p)) for p, t in params.items()], ret=ret,
            fields=fields, elementwise=elementwise, protocols=protos, mutates=list(mutates or []))
        if mutates:
            MUTATING[name] = [list(params).index(m) for m in mutates]
        text = f"Definition {mg(name)} {fparams} {pparams} {ps} : res ({tyname(ret)}) :=\n{body}."
        self.out.append(text)
        return text


def wrap(binds, body):
    for name, rhs in reversed(binds):
        if rhs.startswith("ret "):
            body = f"let {name} := {rhs[4:]} in\n{body}"
        else:
            body = f"bind ({rhs}) (fun {name} =>\n{body})"
    return body


MUTATING = {}      # translated in-place kernels: name -> positions (among the non-object arguments) they mutate


def assigned(stmts):
    out = []

    def add(n):
        if n and n not in out:
            out.append(n)
    for s in stmts:
        if isinstance(s, ast.Assign):
            for t in s.targets:
                for tt in (t.elts if isinstance(t, ast.Tuple) else [t]):
                    if isinstance(tt, ast.Name): add(tt.id)
                    elif isinstance(tt, ast.Subscript) and isinstance(tt.value, ast.Name): add(tt.value.id)
                    elif isinstance(tt, ast.Subscript) and isinstance(tt.value, ast.Attribute) \
                            and isinstance(tt.value.value, ast.Name): add(f"{tt.value.value.id}_{tt.value.attr}")
        elif isinstance(s, ast.Expr) and isinstance(s.value, ast.Call) and isinstance(s.value.func, ast.Name) \
                and s.value.func.id in MUTATING:
            pos = [a for a in s.value.args if not (isinstance(a, ast.Name) and a.id in ("datafit", "penalty"))]
            for k in MUTATING[s.value.func.id]:
                if k < len(pos) and isinstance(pos[k], ast.Name):
                    add(pos[k].id)
        elif isinstance(s, ast.AugAssign):
            t = s.target
            add(t.id if isinstance(t, ast.Name) else (t.value.id if isinstance(t.value, ast.Name) else None))
        elif isinstance(s, ast.If):
            for n in assigned(s.body) + assigned(s.orelse): add(n)
        elif isinstance(s, (ast.For, ast.While)):
            for n in assigned(s.body): add(n)
    return out


def own_break(stmts):
    """a `break` that belongs to the loop whose body is `stmts` (not to a nested loop)"""
    for s in stmts:
        if isinstance(s, ast.Break):
            return True
        if isinstance(s, ast.If) and (own_break(s.body) or own_break(s.orelse)):
            return True
    return False


def contains(stmts, kinds):
    for s in stmts:
        for n in ast.walk(s):
            if isinstance(n, kinds):
                return True
    return False


def is_verbose_only(s):
    """`if self.verbose:` / `if max(self.verbose - 1, 0):` blocks that only print."""
    if "verbose" not in ast.unparse(s.test) or s.orelse:
        return False
    for st in s.body:
        if not (isinstance(st, ast.Expr) and isinstance(st.value, ast.Call)
                and isinstance(st.value.func, ast.Name) and st.value.func.id == "print"):
            return False
    return True


# protocol of datafit / penalty objects as seen from solver kernels: (parameter types, return type).
# A `None` parameter is dropped in the model (it is an object such as `datafit` itself).
PROTOCOLS = {
    ("penalty", "prox_1d"): ([F, F, I], F),
    ("penalty", "prox_1group"): ([VF, F, I], VF),
    ("penalty", "subdiff_distance"): ([VF, VF, VI], VE),
    ("datafit", "gradient_scalar"): ([M, VF, VF, VF, I], F),
    ("datafit", "gradient_scalar_sparse"): ([VF, VI, VI, VF, VF, I], F),
    ("datafit", "raw_grad"): ([VF, VF], VF),
    ("datafit", "raw_hessian"): ([VF, VF], VF),
    ("penalty", "value"): ([VF], F),
    ("datafit", "gradient_g"): ([M, VF, VF, VF, I], VF),
    ("datafit", "gradient_g_sparse"): ([VF, VI, VI, VF, VF, VF, I], VF),
}
OBJ_ATTRS = {
    ("penalty", "grp_ptr"): VI,
    ("penalty", "grp_indices"): VI,
    ("datafit", "grp_ptr"): VI,
}
