"""Model-vs-implementation correspondence plumbing: write cases_*.v, evaluate with vm_compute, collect.

A case = (label, coq_expr_of_model_call, checker, expected_literal).  The implementation's observed
result is embedded as exact rationals; the comparison happens inside Coq (Base/Corr.v) and only the
indices of failing cases are printed.
"""
import math, os, re, subprocess, json, hashlib, time
from fractions import Fraction

COQ = os.path.join(os.path.dirname(os.path.abspath(__file__)), "..", "coq")
COQ = os.path.abspath(COQ)


def q(x):
    """exact Coq Q literal of a Python float / int / Fraction"""
    if isinstance(x, Fraction):
        n, d = x.numerator, x.denominator
    else:
        x = float(x)
        n, d = x.as_integer_ratio()
    return f"(({n})%Z # {d})"


def z(i):
    return f"({int(i)})%Z"


def b(v):
    return "true" if v else "false"


def lst(items):
    return "[" + "; ".join(items) + "]"


def vq(v):
    return lst([q(x) for x in v])


def vz(v):
    return lst([z(x) for x in v])


def mat(X):
    """dense matrix (2-d array) -> list of columns"""
    return lst([vq(X[:, j]) for j in range(X.shape[1])])


def xq(x):
    """expected scalar"""
    if x is None:
        return "XBad"
    x = float(x)
    if math.isnan(x) or x == -math.inf:
        return "XBad"
    if x == math.inf:
        return "XInf"
    return f"(XQ {q(x)})"


def xvec(v):
    if v is None:
        return "None"
    return "(Some " + lst([xq(x) for x in v]) + ")"


def xbool(v):
    return "None" if v is None else f"(Some {b(v)})"


def xvb(v):
    return "None" if v is None else "(Some " + lst([b(x) for x in v]) + ")"


def call_impl(f, *args):
    """run the implementation; exceptions -> None"""
    try:
        return f(*args)
    except (ZeroDivisionError, ValueError, IndexError, FloatingPointError, UnboundLocalError) as e:
        return None


HEADER = """From Coq Require Import ZArith QArith List Bool.
Require Import SK.Base.Res SK.Base.Num SK.Base.QInst SK.Base.Corr.
{imports}
Import ListNotations.
Local Open Scope Q_scope.
Definition results : list bool := [
{body}
].
Eval vm_compute in (bad results).
"""


def run_cases(cases, imports, tag, shard=300, jobs=8, timeout=900):
    """cases: list of (label, model_expr, checker, expected).  Returns dict(n, bad=[labels], wall)."""
    t0 = time.time()
    work = os.path.join(COQ, "Cases")
    os.makedirs(work, exist_ok=True)
    for f in os.listdir(work):
        if f.startswith(tag + "_"):
            os.remove(os.path.join(work, f))
    shards = [cases[i:i + shard] for i in range(0, len(cases), shard)]
    files = []
    for k, sh in enumerate(shards):
        body = ";\n".join(f"  {chk} ({expr}) {exp}" for (_, expr, chk, exp) in sh)
        text = HEADER.format(imports="\n".join(f"Require Import SK.{i}." for i in imports), body=body)
        p = os.path.join(work, f"{tag}_{k}.v")
        open(p, "w").write(text)
        files.append(p)
    procs = []
    bad = []
    errors = []
    pending = list(enumerate(files))
    running = []
    while pending or running:
        while pending and len(running) < jobs:
            k, p = pending.pop(0)
            pr = subprocess.Popen(["timeout", str(timeout), "coqc", "-Q", COQ, "SK", p],
                                  stdout=subprocess.PIPE, stderr=subprocess.STDOUT, text=True, cwd=COQ)
            running.append((k, p, pr))
        k, p, pr = running.pop(0)
        out, _ = pr.communicate()
        if pr.returncode != 0:
            errors.append(f"{os.path.basename(p)}: coqc exit {pr.returncode}: {out[-600:]}")
            continue
        m = re.search(r"=\s*(\[.*?\])\s*(%Z)?\s*:\s*list Z", out, re.S)
        if not m:
            errors.append(f"{os.path.basename(p)}: unparsable output: {out[-300:]}")
            continue
        for i in re.findall(r"-?\d+", m.group(1)):
            bad.append(shards[k][int(i)][0])
    for f in os.listdir(work):
        if f.startswith(tag + "_") and not f.endswith(".v"):
            try:
                os.remove(os.path.join(work, f))
            except OSError:
                pass
    return dict(n=len(cases), bad=bad, errors=errors, wall=time.time() - t0)
