"""Correspondence for coq/Skel/GlmFit.v: real estimators run fit / refit histories (hyper-parameters, warm_start
and fit_intercept changed between fits); a spy on BaseSolver.solve records the start point (w, Xw) the estimator
hands to its solver; the Gallina model `glm_start` must produce the same pair from the attributes (coef_,
intercept_) the estimator carried before the fit."""
import random
import numpy as np
from scipy import sparse
from tvlib import q, b, vq, xq, lst, mat
import solverlib as sl


def _spy():
    import skglm.solvers.base as base
    rec = []
    orig = base.BaseSolver.solve

    def solve(self, X, y, datafit, penalty, w_init=None, Xw_init=None, *a, **k):
        rec.append((None if w_init is None else np.array(w_init, dtype=float).copy(),
                    None if Xw_init is None else np.array(Xw_init, dtype=float).copy(), X))
        return orig(self, X, y, datafit, penalty, w_init, Xw_init, *a, **k)
    base.BaseSolver.solve = solve
    return rec, (base, orig)


def make_cases(rng, n_hist):
    sl.install_polyfill()
    from skglm.estimators import Lasso, ElasticNet, MCPRegression, SparseLogisticRegression, GeneralizedLinearEstimator
    import skglm.datafits as sd, skglm.penalties as sp, skglm.solvers as ss
    cases, dist = [], dict(fits=0, warm_used=0, intercept_flips=0, kinds={})
    rec, (base, orig) = _spy()
    try:
        for h in range(n_hist):
            kind = rng.choice(["Lasso", "ElasticNet", "MCPRegression", "SparseLogisticRegression", "GLE"])
            n, p = rng.randint(3, 6), rng.randint(1, 4)
            X = np.array([[rng.choice([k / 4 for k in range(-6, 7)]) for _ in range(p)] for _ in range(n)])
            if kind == "SparseLogisticRegression":
                y = np.array([1.0 if i % 2 else -1.0 for i in range(n)])
                rng.shuffle(y)
                if len(set(y)) < 2:
                    y[0] = -y[0]
            else:
                y = np.array([rng.choice([k / 2 for k in range(-6, 7)]) for _ in range(n)])
            use_sparse = rng.random() < 0.25
            Xin = sparse.csc_matrix(X) if use_sparse else X
            fi = rng.random() < 0.5
            ws = rng.random() < 0.75
            alpha = rng.choice([0.01, 0.05, 0.2])
            if kind == "GLE":
                est = GeneralizedLinearEstimator(sd.Quadratic(), sp.L1(alpha), ss.AndersonCD(fit_intercept=fi, warm_start=ws, tol=1e-8))
            else:
                Est = dict(Lasso=Lasso, ElasticNet=ElasticNet, MCPRegression=MCPRegression, SparseLogisticRegression=SparseLogisticRegression)[kind]
                est = Est(alpha=alpha, fit_intercept=fi, warm_start=ws, tol=1e-8)
            for step in range(rng.randint(2, 4)):
                # what the estimator carries into this fit
                prev = None
                if hasattr(est, "coef_") and est.coef_ is not None:
                    c = np.asarray(est.coef_, dtype=float)
                    c = c[0] if c.ndim == 2 else c
                    prev = (c.copy(), float(np.ravel(est.intercept_)[0]))
                cur_fi = est.solver.fit_intercept if kind == "GLE" else est.fit_intercept
                cur_ws = est.solver.warm_start if kind == "GLE" else est.warm_start
                del rec[:]
                try:
                    est.fit(Xin, y)
                except Exception as e:                                  # noqa
                    cases.append((f"glm#{h}.{step} {kind} raised {e!r}", "Err Dom", "chk_VF2", "None"))
                    break
                if len(rec) != 1:
                    break
                w_obs, Xw_obs, X_seen = rec[0]
                expr = (f"Ok (glm_start {b(cur_fi)} {b(cur_ws)} "
                        f"{'None' if prev is None else '(Some (' + vq(prev[0]) + ', ' + q(prev[1]) + '))'} {mat(X)} {n})")
                exp = f"(Some ({lst([xq(v) for v in w_obs])}, {lst([xq(v) for v in Xw_obs])}))"
                cases.append((f"glm#{h}.{step} {kind} fi={cur_fi} warm={cur_ws} sparse={use_sparse} prev={None if prev is None else (prev[0].tolist(), prev[1])} "
                              f"X={X.tolist()} y={y.tolist()} -> w={w_obs.tolist()} Xw={Xw_obs.tolist()}", expr, "chk_VF2", exp))
                dist["fits"] += 1
                dist["warm_used"] += bool(cur_ws and prev is not None)
                dist["kinds"][kind] = dist["kinds"].get(kind, 0) + 1
                # change something for the next fit
                ch = rng.choice(["alpha", "fi", "fi", "ws", "none"])
                if ch == "alpha":
                    if kind == "GLE":
                        est.penalty = sp.L1(alpha * rng.choice([0.5, 2.0]))
                    else:
                        est.alpha = alpha * rng.choice([0.5, 2.0])
                elif ch == "fi":
                    dist["intercept_flips"] += 1
                    if kind == "GLE":
                        est.solver.fit_intercept = not est.solver.fit_intercept
                    else:
                        est.fit_intercept = not est.fit_intercept
                elif ch == "ws":
                    if kind == "GLE":
                        est.solver.warm_start = not est.solver.warm_start
                    else:
                        est.warm_start = not est.warm_start
    finally:
        base.BaseSolver.solve = orig
    return cases, dist


IMPORTS = ["Skel.GlmFit"]

if __name__ == "__main__":
    import sys, tvlib
    rng = random.Random(int(sys.argv[1]) if len(sys.argv) > 1 else 1)
    cases, dist = make_cases(rng, int(sys.argv[2]) if len(sys.argv) > 2 else 20)
    r = tvlib.run_cases(cases, IMPORTS, "glm", shard=20, jobs=16)
    print(dist, len(cases), len(r["bad"]), r["errors"][:1])
    for x in r["bad"][:4]:
        print("BAD", x[:700])
