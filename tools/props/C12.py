"""C12 -- classifier outputs are consistent with the fitted linear model(s)."""
import math, random
import numpy as np
import tvlib
from tvlib import q, z, vq, xq, xvec
import solverlib as sl

GEN_SOURCES = []
EXTRA_TARGETS = ["Skel/Classif.vo"]
TRUSTED_BASE = [
    "Coq 8.16.1 kernel (coqc); vm_compute only in correspondence files",
    "axioms: Reals (sig_forall_dec, sig_not_dec), functional_extensionality_dep, Classical_Prop.classic",
    "hand-written glue model coq/Skel/Classif.v (predict / predict_proba), tied by executed correspondence: real fitted-estimator objects "
    "with prescribed coef_ / intercept_ / classes_ vs vm_compute of the model on the same decision values",
    "sklearn LabelEncoder (sorted distinct labels), LinearClassifierMixin.decision_function / predict, OneVsRestClassifier, scipy expit / softmax",
]
ASSUMPTIONS = [
    "label renaming / reordering invariance and 'row k of a multiclass fit is the binary fit of class k (intercept included)': decided by "
    "the refit oracle on the implementation (partial)",
]
RULE = ("correspondence: predict / predict_proba of real SparseLogisticRegression / LinearSVC objects with injected dyadic coef_, intercept_, "
        "classes_ vs the glue model on the decision values; oracle: fits with string / arbitrary-integer / {-1,1} / {0,1} labels, 2-5 classes, "
        "+-intercept: predictions are classes_[argmax / sign], probabilities sum to one and are monotone in the decision value, order-"
        "preserving relabelling changes only labels, multiclass rows (coef_ and intercept_) equal per-class binary refits; non-trivial = every fit")


def correspondence(tier, rng):
    from skglm.estimators import SparseLogisticRegression
    cases = []
    n = 60 if tier == "quick" else 300
    D = [k / 4 for k in range(-12, 13)]
    for _ in range(n):
        p = rng.randint(1, 3)
        K = rng.choice([2, 2, 3, 4])
        clf = SparseLogisticRegression()
        clf.classes_ = np.arange(K)
        X = np.array([[rng.choice(D) for _ in range(p)] for _ in range(1)])
        if K == 2:
            clf.coef_ = np.array([[rng.choice(D) for _ in range(p)]])
            clf.intercept_ = rng.choice(D)
            d = float((X @ clf.coef_.T).ravel()[0] + clf.intercept_)
            clf.n_features_in_ = p
            pr = clf.predict_proba(X)[0]
            cases.append((f"proba_bin({d})", f"proba_bin {q(d)}", "chk_F2", f"(Some ({xq(pr[0])}, {xq(pr[1])}))"))
            pred = int(clf.predict(X)[0])
            cases.append((f"predict_bin({d})", f"Ok (predict_bin {q(d)})", "chk_Z", f"(Some {z(pred)})"))
        else:
            clf.coef_ = np.array([[rng.choice(D) for _ in range(p)] for _ in range(K)])
            clf.intercept_ = np.array([rng.choice(D) for _ in range(K)])
            clf.n_features_in_ = p
            ds = (X @ clf.coef_.T + clf.intercept_)[0]
            pr = clf.predict_proba(X)[0]
            cases.append((f"proba_ovr({list(ds)})", f"proba_ovr {vq(ds)}", "chk_VF", xvec(pr)))
            pred = int(clf.predict(X)[0])
            cases.append((f"predict_multi({list(ds)})", f"predict_multi {vq(ds)}", "chk_Z", f"(Some {z(pred)})"))
    r = tvlib.run_cases(cases, ["Skel.Classif"], "C12", shard=20, jobs=16)
    return dict(cases=len(cases), bad=r["bad"][:10], errors=r["errors"], distribution=dict(cases=len(cases)),
                distinct_nontrivial=len({c[0] for c in cases}), samples=[dict(case=c[0], expected=c[3]) for c in cases[:3]])


def oracle(tier, rng, deep=False):
    from skglm.estimators import SparseLogisticRegression, LinearSVC
    failures = []
    ev = nontriv = 0
    # rows of a batch are independent: predict_proba on a batch that mixes ordinary samples with far-away ones (decision values
    # hundreds apart) equals the row-by-row result, is finite, sums to one, is monotone in the decision and agrees with predict
    for _ in range(6 if tier == "quick" and not deep else 40):
        p = rng.randint(1, 3)
        K = rng.choice([2, 2, 3])
        clf = SparseLogisticRegression()
        clf.classes_ = np.arange(K)
        clf.n_features_in_ = p
        clf.coef_ = np.array([[rng.choice([-2.0, -0.5, 0.5, 1.0, 3.0]) for _ in range(p)] for _ in range(1 if K == 2 else K)])
        clf.intercept_ = rng.choice([-1.0, 0.0, 0.5]) if K == 2 else np.array([rng.choice([-1.0, 0.0, 0.5]) for _ in range(K)])
        Xb = np.array([[rng.gauss(0, 1) for _ in range(p)] for _ in range(rng.randint(2, 5))])
        Xb[rng.randrange(len(Xb))] *= rng.choice([300.0, 1000.0, 5000.0])           # one far-away sample
        inp = dict(coef=np.asarray(clf.coef_).tolist(), intercept=np.asarray(clf.intercept_).tolist(), X=Xb.tolist())
        try:
            pb = np.asarray(clf.predict_proba(Xb), dtype=float)
            rows = np.vstack([np.asarray(clf.predict_proba(Xb[i:i + 1]), dtype=float) for i in range(len(Xb))])
            dec = clf.decision_function(Xb)
            pred = clf.predict(Xb)
        except Exception as e:
            failures.append(dict(site="raises:predict_proba-batch", input=inp, observed=repr(e)[:200]))
            continue
        ev += 1; nontriv += 1
        if not np.all(np.isfinite(pb)) or not np.allclose(pb.sum(axis=1), 1.0, atol=1e-12):
            badrows = [i for i in range(len(Xb)) if not (np.all(np.isfinite(pb[i])) and abs(pb[i].sum() - 1.0) <= 1e-12)]
            underflow = K > 2 and all(np.all(np.asarray(dec)[i] < -700.0) for i in badrows) and np.allclose(pb[[i for i in range(len(Xb)) if i not in badrows]], rows[[i for i in range(len(Xb)) if i not in badrows]], rtol=1e-10, atol=1e-300)
            failures.append(dict(site="predict_proba-batch:not-a-distribution" + (":ovr-all-classes-underflow" if underflow else ""), input=inp, observed=pb.tolist()))
        elif not np.allclose(pb, rows, rtol=1e-10, atol=1e-300):
            failures.append(dict(site="predict_proba-batch:differs-from-row-by-row", input=inp, observed=pb.tolist(), expected=rows.tolist()))
        elif not np.array_equal(clf.classes_[np.argmax(pb, axis=1)], pred) and not np.any(np.isclose(np.sort(pb, axis=1)[:, -1], np.sort(pb, axis=1)[:, -2])):
            failures.append(dict(site="predict_proba-batch:argmax-differs-from-predict", input=inp, observed=pb.tolist(), expected=np.asarray(pred).tolist()))
        elif K == 2:
            o = np.argsort(dec)
            if np.any(np.diff(pb[o, 1]) < -1e-15):
                failures.append(dict(site="predict_proba-batch:not-monotone-in-decision", input=inp, observed=pb.tolist()))
    nrep = 6 if tier == "quick" and not deep else (18 if tier == "quick" else 40)   # quick + broken obligation: 3x the quick search
    for _ in range(nrep):
        K = rng.choice([2, 2, 3, 4, 5])
        n, p = rng.randint(12 * K, 20 * K), rng.randint(2, 5)
        X = np.array([[rng.gauss(0, 1) for _ in range(p)] for _ in range(n)])
        yi = np.array([rng.randrange(K) for _ in range(n)])
        for k in range(K):
            yi[k] = k
            X[yi == k, k % p] += 1.5
        fi = rng.random() < 0.6
        labelings = {
            "int": lambda v: v, "shifted": lambda v: 10 * v - 7, "str": lambda v: np.array(["c%02d" % t for t in v]),
        }
        if K == 2:
            labelings["pm1"] = lambda v: 2 * v - 1
        Est = rng.choice([SparseLogisticRegression, LinearSVC])
        mk = (lambda: SparseLogisticRegression(alpha=0.02, tol=1e-9, fit_intercept=fi)) if Est is SparseLogisticRegression else (lambda: LinearSVC(C=1.0, tol=1e-9))
        inp = dict(estimator=Est.__name__, K=K, fit_intercept=fi, X=X.tolist(), y=yi.tolist())
        try:
            base = mk().fit(X, yi)
            ev += 1
            nontriv += 1
            dec = base.decision_function(X)
            pred = base.predict(X)
            if K == 2:
                exp_pred = base.classes_[(dec > 0).astype(int)]
            else:
                exp_pred = base.classes_[np.argmax(dec, axis=1)]
            if not np.array_equal(pred, exp_pred):
                failures.append(dict(site=f"predict-not-label-of-decision:{Est.__name__}", input=inp, observed=pred.tolist(), expected=exp_pred.tolist()))
            if Est is SparseLogisticRegression:
                pr = base.predict_proba(X)
                if not np.allclose(pr.sum(axis=1), 1.0, atol=1e-12) or np.any(pr < 0):
                    failures.append(dict(site="proba-not-distribution", input=inp, observed=pr.sum(axis=1).tolist()))
                if K == 2:
                    o = np.argsort(dec)
                    if np.any(np.diff(pr[o, 1]) < -1e-15):
                        failures.append(dict(site="proba-not-monotone", input=inp, observed=pr[o, 1].tolist()))
            # relabelling (order preserving) changes nothing but the labels
            for lname, f in labelings.items():
                m2 = mk().fit(X, f(yi))
                ev += 1
                if not (np.allclose(m2.coef_, base.coef_, atol=1e-8) and np.allclose(np.ravel(m2.intercept_), np.ravel(base.intercept_), atol=1e-8)):
                    failures.append(dict(site=f"relabelling-changes-model:{Est.__name__}:{lname}", input=inp, observed=np.ravel(m2.coef_).tolist(), expected=np.ravel(base.coef_).tolist()))
                elif not np.array_equal(m2.predict(X), f(pred)):
                    failures.append(dict(site=f"relabelling-changes-predictions:{Est.__name__}:{lname}", input=inp, observed=list(map(str, m2.predict(X)[:10]))))
            # one-vs-rest rows are the per-class binary fits (intercept included)
            if K > 2:
                for k in range(K):
                    b = mk().fit(X, (yi == k).astype(int))
                    ev += 1
                    if not np.allclose(b.coef_[0], base.coef_[k], atol=1e-7):
                        failures.append(dict(site=f"ovr-row-not-binary-fit:{Est.__name__}:coef", input=dict(inp, k=k), observed=base.coef_[k].tolist(), expected=b.coef_[0].tolist()))
                        break
                    bi = float(np.ravel(b.intercept_)[0])
                    oi = float(np.ravel(base.intercept_)[k]) if np.ndim(base.intercept_) else float(base.intercept_)
                    if abs(bi - oi) > 1e-7:
                        failures.append(dict(site=f"ovr-row-not-binary-fit:{Est.__name__}:intercept", input=dict(inp, k=k), observed=oi, expected=bi))
                        break
        except Exception as e:
            failures.append(dict(site=f"raises:{Est.__name__}", input=inp, observed=f"{type(e).__name__}: {str(e)[:200]}"))
    return dict(evaluations=ev, distinct_nontrivial=nontriv, failures=failures, samples=[dict(fits=ev)])


def replay(payload):
    f = payload.get("failure")
    if not f:
        return dict(fails=False, note="unchecked obligation: " + "; ".join(b.get("what", "") for b in payload.get("broken", [])))
    res = oracle("thorough", random.Random(payload.get("seed", 0) + 1), deep=True)
    same = [x for x in res["failures"] if x["site"] == f["site"]]
    return dict(fails=bool(same), site=f["site"], reproduced=same[:1])
