"""C01 -- reported convergence (stop_crit <= tol) is a valid first-order optimality certificate."""
import math, random
import numpy as np
from scipy import sparse
import kernels, tvlib, harness_acd, harness_solvers
import solverlib as sl

GEN_SOURCES = ["skglm/solvers/common.py", "skglm/solvers/anderson_cd.py", "skglm/penalties/separable.py",
               "skglm/datafits/single_task.py", "skglm/utils/prox_funcs.py", "skglm/solvers/gram_cd.py"]
EXTRA_TARGETS = ["Skel/MockACD.vo", "Gen/KernCD.vo", "Gen/KernACD.vo", "Gen/DfSingle.vo", "Gen/PenSeparable.vo", "Skel/CorrSolvers.vo", "Skel/GramCDProofs.vo", "Skel/GroupBCDProofs.vo", "Skel/ProxNewtonProofs.vo", "Skel/FistaProofs.vo", "Skel/GramCDAnderson.vo", "Skel/MultiTaskBCDProofs.vo", "Skel/GroupProxNewton.vo", "Gen/KernPN.vo", "Gen/KernBCD.vo", "Gen/DfGroup.vo", "Gen/PenBlock.vo", "Gen/SparseOps.vo"]
TRUSTED_BASE = [
    "Coq 8.16.1 kernel (coqc); vm_compute only in correspondence files",
    "axioms: Reals (sig_forall_dec, sig_not_dec), functional_extensionality_dep, Classical_Prop.classic",
    "translator tools/py2coq.py + signature table (epoch / gradient / score kernels regenerated each run)",
    "hand-written skeletons coq/Skel/{AndersonCD,GramCD,GroupBCD,ProxNewton}.v (Skel/Generic.v: shared outer loop), tied by executed correspondence "
    "(tools/harness_solvers.py: GramCD end to end with the real compiled kernel and penalties; GroupBCD / ProxNewton on dyadic mock kernels); "
    "for AndersonCD: the real _solve runs against "
    "mock kernels (tools/harness_acd.py) and must agree with vm_compute of the skeleton on w, Xw buffer, history, stop_crit, counts",
    "assumed behaviour of np.argpartition (some k indices with largest scores; patched to a deterministic rule in correspondence runs), "
    "np.linalg.solve inside AndersonAcceleration (tied separately), numba compilation",
    "real-number reading of float code; tools/speclib.py + tools/solverlib.py documented formulas for the implementation-side oracle",
]
ASSUMPTIONS = [
    "accepted Anderson extrapolations are consistent (hypothesis Haccept of andersoncd_preserves_consistency): holds when the working "
    "set contains the generalized support and the unpenalised features; searched at run time by the oracle",
    "GramCD / GroupBCD / ProxNewton: skeleton theorems (generic outer loop) tied by end-to-end / mock-trace correspondence; the accelerator is abstract "
    "(any state machine returning consistent pairs from consistent pairs); GroupProxNewton, MultiTaskBCD, LBFGS: decided by the certificate oracle on the implementation",
]
RULE = ("correspondence: (a) real AndersonCD._solve vs skeleton on mock kernels: budgets 0-4 x epochs 0-12 (on / around the extrapolation "
        "period), warm / cold / malformed starts, dense / CSC, both ws strategies, +-intercept; (b) real njit epoch / gradient / "
        "fix-point kernels with real compiled datafits+penalties vs regenerated Gallina; oracle: every solver x datafit x penalty, "
        "certificate recomputed from (X, y, w, b) whenever stop_crit <= tol; non-trivial = run that reports convergence with a non-zero solution")


def correspondence(tier, rng):
    n = 400 if tier == "quick" else 3000
    cases, dist = harness_acd.make_cases(rng, n)
    r1 = tvlib.run_cases(cases, ["Skel.AndersonCD", "Skel.MockACD"], "C01a", shard=12, jobs=16)
    kc = kernels.gen_cd_kernels(rng, 60 if tier == "quick" else 300)
    r2 = tvlib.run_cases(kc, ["Gen.ProxFuncs", "Gen.PenSeparable", "Gen.SparseOps", "Gen.DfSingle", "Gen.KernCD", "Gen.KernACD"],
                         "C01b", shard=25, jobs=16)
    base = dict(cases=len(cases) + len(kc), bad=(r1["bad"] + r2["bad"])[:10], errors=r1["errors"] + r2["errors"],
                distribution=dict(skeleton_runs=dist, kernel_cases=len(kc)),
                distinct_nontrivial=len({c[0] for c in cases}) + len({c[0] for c in kc}),
                samples=[dict(trace=cases[0][0][:600])] + [dict(case=kc[0][0][:300])])
    base = kernels.add_pn_kernel_corr(base, rng, 60 if tier == "quick" else 360, "C01p")
    base = kernels.add_bcd_kernel_corr(base, rng, 70 if tier == "quick" else 420, "C01k")
    return harness_solvers.merge_corr(base, harness_solvers.solver_corr(tier, rng, "C01s"))


def _mk_cd(rng):
    """AndersonCD / ProxNewton / GramCD compositions on a random problem"""
    out = []
    sname = rng.choice(["AndersonCD", "AndersonCD", "ProxNewton", "GramCD"])
    if sname == "GramCD":
        dname = "Quadratic"
    elif sname == "ProxNewton":
        dname = rng.choice(sl.PN_DATAFITS)
    else:
        dname = rng.choice(sl.CD_DATAFITS)
    ctor, kind, pgen = sl.DATAFITS[dname]
    X, y = sl.make_problem(rng, kind=kind, density=rng.choice([1.0, 0.5]))
    n, p = X.shape
    DP = pgen(rng, n)
    fi = rng.random() < 0.5 and sname != "GramCD"
    amax, _ = sl.alpha_max(dname, DP, X, y, fi)
    alpha = amax * rng.choice([0.02, 0.1, 0.3, 0.7, 1.2])
    pk = rng.choice(sl.PROX_PENALTIES if dname in ("Quadratic", "WeightedQuadratic", "Huber") else ["L1", "L1_plus_L2", "WeightedL1"])
    pos = rng.random() < 0.2 and pk not in ("SCAD",)
    pen, PP = sl.make_penalty(pk, rng, p, alpha, pos)
    return sname, dname, DP, ctor, X, y, fi, pk, pen, PP


def oracle(tier, rng, deep=False):
    import skglm
    from skglm.solvers import AndersonCD, ProxNewton, GramCD
    failures, samples = [], []
    ev = nontriv = 0
    nrep = 40 if tier == "quick" and not deep else (120 if tier == "quick" else 250)   # quick + broken obligation: 3x the quick search
    for it in range(nrep):
        sname, dname, DP, ctor, X, y, fi, pk, pen, PP = _mk_cd(rng)
        n, p = X.shape
        tol = rng.choice([1e-3, 1e-5, 1e-8])
        strat = rng.choice(["subdiff", "fixpoint"]) if pk not in ("SCAD",) or True else "subdiff"
        use_sparse = rng.random() < 0.35
        Xs = sparse.csc_matrix(X) if use_sparse else np.asfortranarray(X)
        knobs = dict(tol=tol, fit_intercept=fi)
        budget0 = rng.random() < 0.08
        if sname == "AndersonCD":
            knobs.update(max_iter=0 if budget0 else rng.choice([1, 3, 50]), max_epochs=rng.choice([5, 7, 50, 1000]),
                         p0=rng.choice([1, 2, 10]), ws_strategy=strat)
        elif sname == "ProxNewton":
            if use_sparse and dname in ("Quadratic", "WeightedQuadratic"):
                pass
            knobs.update(max_iter=0 if budget0 else rng.choice([1, 5, 30]), p0=rng.choice([1, 2, 10]), ws_strategy=strat)
        else:
            knobs.update(max_iter=0 if budget0 else rng.choice([1, 20, 300]), use_acc=rng.random() < 0.5, greedy_cd=rng.random() < 0.5)
            knobs.pop("fit_intercept")
            fi = False
        # warm start from an arbitrary consistent point
        w_init = Xw_init = None
        if rng.random() < 0.3:
            w_init = np.array([rng.gauss(0, 1) if rng.random() < 0.6 else 0.0 for _ in range(p + fi)])
            if PP.get("positive"):
                w_init[:p] = np.abs(w_init[:p])
            Xw_init = X @ w_init[:p] + (w_init[-1] if fi else 0.0)
        site = f"{sname}:{dname}:{pk}"
        inp = dict(solver=sname, knobs=knobs, datafit=dname, DP={k: np.asarray(v).tolist() for k, v in DP.items()}, penalty=pk,
                   PP={k: (np.asarray(v).tolist() if hasattr(v, "__len__") else v) for k, v in PP.items()}, X=X.tolist(), y=y.tolist(),
                   sparse=use_sparse, w_init=None if w_init is None else w_init.tolist())
        try:
            solver = sl.make_solver(sname, **knobs)
            df = None if sname == "GramCD" else sl.cc(ctor(DP))
            if df is not None and hasattr(df, "initialize") and sname == "ProxNewton":
                (df.initialize_sparse(Xs.data, Xs.indptr, Xs.indices, y) if use_sparse and hasattr(df, "initialize_sparse") else df.initialize(X, y))
            w, b, objs, stop = sl.run(solver, Xs, y, df, sl.cc(pen), w_init, Xw_init)
        except (AttributeError, ValueError) as e:
            if "not compatible" in str(e) or "must implement" in str(e) or "Missing" in str(e) or "positive values" in str(e):
                continue                               # refused with an explanation: not this property's business
            failures.append(dict(site=f"raises:{site}", input=inp, observed=repr(e)[:300]))
            continue
        except Exception as e:
            failures.append(dict(site=f"raises:{site}", input=inp, observed=repr(e)[:300]))
            continue
        ev += 1
        if not stop <= tol:
            continue
        viol, worst = sl.kkt_violation(dname, DP, pk, PP, X, y, w, b, fi)
        if np.any(w != 0):
            nontriv += 1
        if viol > tol * (1 + 1e-3) + 2e-5:
            flags = []
            if knobs.get("max_iter") == 0: flags.append("max_iter=0")
            if knobs.get("use_acc"): flags.append("use_acc")
            if worst and worst[0] == "intercept": flags.append("intercept")
            failures.append(dict(site=f"certificate:{sname}:{'+'.join(flags) or 'generic'}", input=inp,
                                 observed=dict(stop_crit=stop, tol=tol, w=w.tolist(), b=b), expected=dict(violation=viol, worst=worst)))
        elif len(samples) < 3 and np.any(w != 0):
            samples.append(dict(site=site, knobs=knobs, stop_crit=stop, recomputed_violation=viol))
    # ---- group solvers and the multitask solver
    import skglm.datafits as sd, skglm.penalties as sp
    from skglm.solvers import MultiTaskBCD
    for it in range(nrep // 2):
        sname = rng.choice(["GroupBCD", "GroupBCD", "GroupProxNewton", "MultiTaskBCD"])
        fi = rng.random() < 0.5
        tol = rng.choice([1e-3, 1e-6])
        budget0 = rng.random() < 0.1
        if sname == "MultiTaskBCD":
            X, _ = sl.make_problem(rng)
            n, p = X.shape
            T = rng.randint(1, 3)
            Wt = np.array([[rng.gauss(0, 1) if rng.random() < 0.5 else 0.0 for _ in range(T)] for _ in range(p)])
            Y = X @ Wt + rng.choice([0.0, 3.0]) + np.array([[rng.gauss(0, 0.2) for _ in range(T)] for _ in range(n)])
            Yc = Y - Y.mean(axis=0) if fi else Y
            amax = float(np.max(np.linalg.norm(X.T @ Yc, axis=1))) / n
            alpha = amax * rng.choice([0.05, 0.3, 1.1])
            knobs = dict(max_iter=0 if budget0 else rng.choice([1, 5, 100]), max_epochs=rng.choice([4, 12, 1000]), p0=rng.choice([1, 10]),
                         tol=tol, fit_intercept=fi, use_acc=rng.random() < 0.5, ws_strategy=rng.choice(["subdiff", "fixpoint"]))
            inp = dict(solver=sname, knobs=knobs, X=X.tolist(), Y=Y.tolist(), alpha=alpha)
            try:
                use_sparse = rng.random() < 0.3
                Xs = sparse.csc_matrix(X) if use_sparse else np.asfortranarray(X)
                W, objs, stop = MultiTaskBCD(**knobs).solve(Xs, np.asfortranarray(Y), sl.cc(sd.QuadraticMultiTask()), sl.cc(sp.L2_1(alpha)))
            except Exception as e:
                failures.append(dict(site=f"raises:{sname}", input=inp, observed=repr(e)[:300]))
                continue
            ev += 1
            if not stop <= tol:
                continue
            Wc, b = (W[:p], W[-1]) if fi else (W, 0.0)
            viol = sl.mtl_violation(X, Y, Wc, b, alpha, fi)
            if np.any(Wc != 0):
                nontriv += 1
            if viol > tol * (1 + 1e-3) + 1e-7:
                flags = ["max_iter=0"] if budget0 else []
                failures.append(dict(site=f"certificate:{sname}:{'+'.join(flags) or 'generic'}", input=inp,
                                     observed=dict(stop_crit=float(stop), tol=tol, W=np.asarray(W).tolist()), expected=dict(violation=viol)))
            continue
        dname = rng.choice(["Quadratic", "Logistic"]) if sname == "GroupBCD" else "Logistic"
        X, y = sl.make_problem(rng, kind="real" if dname == "Quadratic" else "sign")
        n, p = X.shape
        grp_ptr, grp_indices = sl.make_groups(rng, p)
        ng = len(grp_ptr) - 1
        weights = np.array([rng.choice([0.5, 1.0, 2.0]) for _ in range(ng)])
        amax, _ = sl.alpha_max(dname, {}, X, y, fi)
        alpha = amax * rng.choice([0.05, 0.3, 0.8])
        knobs = dict(max_iter=0 if budget0 else rng.choice([1, 5, 200]), p0=rng.choice([1, 10]), tol=tol, fit_intercept=fi)
        if sname == "GroupBCD":
            knobs.update(max_epochs=rng.choice([5, 7, 100]), ws_strategy=rng.choice(["subdiff", "fixpoint"]))
        PP = dict(alpha=alpha, weights=weights, grp_ptr=grp_ptr, grp_indices=grp_indices, positive=False)
        inp = dict(solver=sname, knobs=knobs, datafit=dname, X=X.tolist(), y=y.tolist(), grp_ptr=grp_ptr.tolist(),
                   grp_indices=grp_indices.tolist(), weights=weights.tolist(), alpha=alpha)
        try:
            use_sparse = sname == "GroupBCD" and dname == "Quadratic" and rng.random() < 0.3
            Xs = sparse.csc_matrix(X) if use_sparse else np.asfortranarray(X)
            w, b, objs, stop = sl.run_group(sname, rng, Xs, y, dname, grp_ptr, grp_indices, alpha, weights, False, knobs)
        except Exception as e:
            failures.append(dict(site=f"raises:{sname}:{dname}", input=inp, observed=repr(e)[:300]))
            continue
        ev += 1
        if not stop <= tol:
            continue
        viol, worst = sl.kkt_violation(dname, {}, "WeightedGroupL2", PP, X, y, w, b, fi)
        if np.any(w != 0):
            nontriv += 1
        if viol > tol * (1 + 1e-3) + 2e-5:
            flags = ["max_iter=0"] if budget0 else []
            failures.append(dict(site=f"certificate:{sname}:{'+'.join(flags) or 'generic'}", input=inp,
                                 observed=dict(stop_crit=stop, tol=tol, w=w.tolist(), b=b), expected=dict(violation=viol, worst=worst)))
    # MultiTaskBCD.path: the model-fit buffer is reused from one alpha to the next
    for _ in range(4 if tier == "quick" and not deep else 25):
        try:
            e_, f_ = sl.mtl_path_certificates(rng, "certificate:MultiTaskBCD:path")
            ev += e_; nontriv += e_
            failures += f_
        except Exception as e:
            failures.append(dict(site="raises:MultiTaskBCD:path", input={}, observed=repr(e)[:300]))
    return dict(evaluations=ev, distinct_nontrivial=nontriv, failures=failures, samples=samples)


def replay(payload):
    f = payload.get("failure")
    if not f:
        return dict(fails=False, note="unchecked obligation: " + "; ".join(b.get("what", "") for b in payload.get("broken", [])))
    res = oracle("thorough", random.Random(payload.get("seed", 0) + 1), deep=True)
    same = [x for x in res["failures"] if x["site"] == f["site"]]
    return dict(fails=bool(same), site=f["site"], reproduced=same[:1])
