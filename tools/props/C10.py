"""C10 -- results do not depend on how X is stored."""
import math, random
import numpy as np
from scipy import sparse
import kernels, tvlib
import solverlib as sl
import compos

GEN_SOURCES = ["skglm/solvers/anderson_cd.py", "skglm/datafits/single_task.py", "skglm/utils/sparse_ops.py", "skglm/solvers/group_bcd.py", "skglm/datafits/group.py", "skglm/solvers/prox_newton.py"]
EXTRA_TARGETS = ["Gen/KernCD.vo", "Gen/KernACD.vo", "Gen/DfSingle.vo", "Gen/PenSeparable.vo", "Gen/SparseOps.vo", "Gen/KernBCD.vo", "Gen/DfGroup.vo", "Gen/PenBlock.vo", "Gen/KernPN.vo"]
TRUSTED_BASE = [
    "Coq 8.16.1 kernel (coqc); vm_compute only in correspondence files",
    "axioms: Reals (sig_forall_dec, sig_not_dec), functional_extensionality_dep, Classical_Prop.classic",
    "translator (dense and sparse kernels regenerated each run); CSC = (data, indptr, indices) lists, duplicates add up",
    "sklearn check_array / scipy conversions (C / F order, CSR, lists) are value preserving; float32 and BLAS summation order not modelled",
]
ASSUMPTIONS = [
    "proved: CSC column dot, Quadratic gradient_scalar_sparse = dense, sparse axpy loop, and the whole CD epoch (any prox, agreeing gradient "
    "accessors); other solvers' sparse paths, layouts, dtypes and refusals: container-sweep oracle (partial)",
]
RULE = ("correspondence: real dense and sparse njit kernels with real compiled objects vs regenerated Gallina on the same (dense / CSC) data; "
        "oracle: every composition of tools/compos.py accepting sparse input solved with X as C-ordered, F-ordered and CSC (and through "
        "estimators as CSR, list, float32): same solution within 10*tol (float32: 1e-3), or an explanatory error; non-trivial = non-zero solution")


def correspondence(tier, rng):
    kc = kernels.gen_cd_kernels(rng, 120 if tier == "quick" else 800)
    kc += [c for c in kernels.gen_datafits(rng, 80 if tier == "quick" else 500) if "sparse" in c[0] or "gradient" in c[0] or "lipschitz" in c[0]]
    r = tvlib.run_cases(kc, ["Gen.ProxFuncs", "Gen.PenSeparable", "Gen.SparseOps", "Gen.DfSingle", "Gen.KernCD", "Gen.KernACD"], "C10", shard=25, jobs=16)
    base = dict(cases=len(kc), bad=r["bad"][:10], errors=r["errors"], distribution=dict(kernel_cases=len(kc), sparse=sum("sparse" in c[0] for c in kc)),
                distinct_nontrivial=len({c[0] for c in kc}), samples=[dict(case=kc[0][0][:300])])
    base = kernels.add_bcd_kernel_corr(base, rng, 140 if tier == "quick" else 840, "C10k")
    return kernels.add_pn_kernel_corr(base, rng, 120 if tier == "quick" else 720, "C10p")


def _same_solution(X, w, wref, rtol, atol):
    """same solution up to tolerance; a design with linearly dependent columns (duplicated or opposite contrast columns) has no
    unique minimiser -- the solution is then determined only through its fit X w, and that is what is compared"""
    w, wref = np.asarray(w, dtype=float), np.asarray(wref, dtype=float)
    if w.shape != wref.shape:
        return False
    if np.allclose(w, wref, rtol=rtol, atol=atol):
        return True
    X = np.asarray(X, dtype=float)
    p = X.shape[1]
    if np.linalg.matrix_rank(X) < p:
        return bool(np.allclose(X @ w[:p], X @ wref[:p], rtol=1e-4, atol=1e-4) and np.allclose(w[p:], wref[p:], rtol=1e-4, atol=1e-4))
    return False


def oracle(tier, rng, deep=False):
    failures = []
    ev = nontriv = 0
    nrep = 1 if tier == "quick" and not deep else (3 if tier == "quick" else 6)   # quick + broken obligation: 3x the quick search
    for _ in range(nrep):
        def structured(rng_, X_, y_, ykind_):
            # half of the problems: balanced +-1 contrast columns (each column sums to zero), as effect-coded factors give
            if rng_.random() < 0.5:
                n_, p_ = X_.shape
                X_ = X_.copy()
                for j in range(p_):
                    idx = list(range(n_)); rng_.shuffle(idx)
                    X_[:, j] = 0.0
                    X_[idx[: n_ // 2], j] = 1.0
                    X_[idx[n_ // 2: 2 * (n_ // 2)], j] = -1.0
                if p_ > 1:
                    X_[:, 0] = X_[:, 0] * 2.0
            return X_, y_
        for spec in compos.menu(rng, structured):
            site = f"{spec['solver']}:{spec['datafit']}:{spec['penalty']}"
            inp = dict(spec)
            try:
                ref = compos.run_composition(spec, False)
            except Exception as e:
                failures.append(dict(site=f"raises-dense:{site}", input=inp, observed=repr(e)[:300]))
                continue
            ev += 1
            wref = np.asarray(ref["w"])
            if np.any(wref != 0):
                nontriv += 1
            # C order
            spec_c = dict(spec)
            try:
                solver, Xin, target, df, pen, DP, PP, fi = compos.build(spec, False)
                Xc = np.ascontiguousarray(np.array(spec["X"], dtype=float))
                dfc = None if spec["solver"] == "GramCD" else sl.cc(df)
                if dfc is not None and spec["solver"] in ("ProxNewton", "FISTA", "GroupProxNewton") and hasattr(dfc, "initialize"):
                    dfc.initialize(Xc, target)
                w, _, _ = solver.solve(Xc, target, dfc, sl.cc(pen))
                ev += 1
                if not _same_solution(spec["X"], w, wref, 1e-6, 10 * spec["tol"]):
                    failures.append(dict(site=f"C-order-differs:{site}", input=inp, observed=np.asarray(w).tolist(), expected=wref.tolist()))
            except Exception as e:
                failures.append(dict(site=f"raises-C-order:{site}", input=inp, observed=repr(e)[:300]))
            # CSC
            try:
                out = compos.run_composition(spec, True)
                ev += 1
                if not _same_solution(spec["X"], out["w"], wref, 1e-5, 50 * spec["tol"]):
                    failures.append(dict(site=f"CSC-differs:{site}", input=inp, observed=out["w"], expected=wref.tolist()))
            except (ValueError, AttributeError) as e:
                msg = str(e)
                if not any(t in msg for t in ("not compatible", "must implement", "Missing", "not yet supported", "Sparse matrices", "sparse")):
                    failures.append(dict(site=f"unexplained-refusal-CSC:{site}", input=inp, observed=repr(e)[:300]))
            except Exception as e:
                failures.append(dict(site=f"raises-CSC:{site}", input=inp, observed=repr(e)[:300]))
    # estimators: CSR, list, float32
    try:
        from skglm.estimators import Lasso, SparseLogisticRegression
        for Est, kind in [(Lasso, "real"), (SparseLogisticRegression, "sign")]:
            X, y = sl.make_problem(rng, kind=kind)
            alpha = 0.05
            ref = Est(alpha=alpha, tol=1e-10).fit(X, y)
            for name, Xv, tolv in [("CSR", sparse.csr_matrix(X), 1e-6), ("list", X.tolist(), 1e-8), ("float32", X.astype(np.float32), 2e-3),
                                   ("C-order", np.ascontiguousarray(X), 1e-8)]:
                # float32: a tolerance that single precision can reach (1e-10 is below the resolution of the float32 criterion:
                # the run then never stops on its tolerance and the comparison is about rounding drift, not about storage)
                est = Est(alpha=alpha, tol=1e-10 if name != "float32" else 1e-5).fit(Xv, y)
                ev += 1
                if not np.allclose(np.ravel(est.coef_), np.ravel(ref.coef_), rtol=tolv, atol=tolv):
                    failures.append(dict(site=f"estimator-{name}-differs:{Est.__name__}", input=dict(X=X.tolist(), y=y.tolist(), alpha=alpha),
                                         observed=np.ravel(est.coef_).tolist(), expected=np.ravel(ref.coef_).tolist()))
    except Exception as e:
        failures.append(dict(site="raises:estimator-containers", input={}, observed=repr(e)[:300]))
    return dict(evaluations=ev, distinct_nontrivial=nontriv, failures=failures, samples=[dict(runs=ev)])


def replay(payload):
    f = payload.get("failure")
    if not f:
        return dict(fails=False, note="unchecked obligation: " + "; ".join(b.get("what", "") for b in payload.get("broken", [])))
    res = oracle("thorough", random.Random(payload.get("seed", 0) + 1), deep=True)
    same = [x for x in res["failures"] if x["site"] == f["site"]]
    return dict(fails=bool(same), site=f["site"], reproduced=same[:1])
