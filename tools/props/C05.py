"""C05 -- warm starts and regularisation paths solve the problem they are asked."""
import math, random
import numpy as np
from scipy import sparse
import tvlib, harness_acd, harness_glm, kernels
import solverlib as sl

GEN_SOURCES = ["skglm/solvers/anderson_cd.py", "skglm/solvers/group_bcd.py", "skglm/datafits/group.py", "skglm/solvers/prox_newton.py"]
EXTRA_TARGETS = ["Skel/MockACD.vo", "Skel/GlmFit.vo", "Lemmas/GlmStart.vo", "Gen/KernBCD.vo", "Gen/DfGroup.vo", "Gen/PenBlock.vo", "Gen/KernCD.vo", "Gen/SparseOps.vo", "Gen/ProxFuncs.vo", "Gen/KernPN.vo", "Gen/PenSeparable.vo", "Gen/DfSingle.vo", "Skel/NonVacuity.vo"]
TRUSTED_BASE = [
    "Coq 8.16.1 kernel (coqc); vm_compute only in correspondence files",
    "axioms: Reals axioms + funext + classic (consistency theorem over R); the path / history theorems are axiom-free",
    "translator (epoch kernel regenerated each run); hand-written skeletons Skel/AndersonCD.v and Skel/Path.v tied by executed "
    "correspondence: the real AndersonCD._solve and AndersonCD.path run on mock kernels and must agree with vm_compute of the models",
    "sklearn check_array is value preserving; np.argpartition assumption",
]
ASSUMPTIONS = [
    "accepted extrapolations are consistent (explicit hypothesis of buffers_hold_result)",
    "MultiTaskBCD.path, estimator warm_start refits and SqrtLasso.path: decided by the implementation oracle (partial)",
]
RULE = ("correspondence: real path() on mock kernels for alpha grids of length 1-4 in any order with repeats, +-w_init (incl. empty support "
        "with non-zero intercept), dense / CSC; real _solve from warm starts; oracle: real solvers from arbitrary consistent w_init with "
        "support larger / smaller than the working set, shuffled alpha grids, warm_start refits after changing alpha: certificate "
        "recomputed from (X, y, w, b) and the caller's buffer compared with X w + b; non-trivial = warm-started or multi-alpha history")


def correspondence(tier, rng):
    n = 200 if tier == "quick" else 1500
    pc = harness_acd.make_path_cases(rng, n)
    r1 = tvlib.run_cases(pc, ["Skel.AndersonCD", "Skel.MockACD"], "C05a", shard=10, jobs=16)
    cases, dist = harness_acd.make_cases(rng, n)
    r2 = tvlib.run_cases(cases, ["Skel.AndersonCD", "Skel.MockACD"], "C05b", shard=12, jobs=16)
    gc, gdist = harness_glm.make_cases(rng, 12 if tier == "quick" else 120)
    r3 = tvlib.run_cases(gc, harness_glm.IMPORTS, "C05c", shard=20, jobs=16)
    base = dict(cases=len(pc) + len(cases) + len(gc), bad=(r1["bad"] + r2["bad"] + r3["bad"])[:10],
                errors=r1["errors"] + r2["errors"] + r3["errors"],
                distribution=dict(path_histories=len(pc), solve_runs=dist, glm_fit_histories=gdist),
                distinct_nontrivial=len({c[0] for c in pc}) + sum(1 for c in cases if "w_init=None" not in c[0]),
                samples=[dict(history=pc[0][0][:600])])
    base = kernels.add_bcd_kernel_corr(base, rng, 70 if tier == "quick" else 420, "C05k", only=["_bcd_epoch", "QuadraticGroup"])
    return kernels.add_pn_kernel_corr(base, rng, 90 if tier == "quick" else 540, "C05p", only=["_backtrack_line_search", "_descent_direction"])


def oracle(tier, rng, deep=False):
    import skglm.datafits as sd, skglm.penalties as sp, skglm.solvers as ss
    failures, samples = [], []
    ev = nontriv = 0
    nrep = 30 if tier == "quick" and not deep else (90 if tier == "quick" else 200)   # quick + broken obligation: 3x the quick search
    for _ in range(nrep):
        mode = rng.choice(["warm", "warm", "path", "refit", "refit", "sqrt_path", "mtl_refit", "mtl_path"])
        dname = rng.choice(["Quadratic", "Logistic", "Huber"])
        ctor, ykind, pgen = sl.DATAFITS[dname]
        X, y = sl.make_problem(rng, kind=ykind)
        n, p = X.shape
        DP = pgen(rng, n)
        fi = rng.random() < 0.5
        amax, _ = sl.alpha_max(dname, DP, X, y, fi)
        tol = rng.choice([1e-4, 1e-7])
        pk = rng.choice(["L1", "L1_plus_L2", "WeightedL1"] + (["MCPenalty"] if dname != "Logistic" else []))
        Xs = sparse.csc_matrix(X) if rng.random() < 0.3 else np.asfortranarray(X)
        try:
            if mode == "warm":
                alpha = amax * rng.choice([0.05, 0.3, 0.8])
                pen, PP = sl.make_penalty(pk, rng, p, alpha, False)
                sname = rng.choice(["AndersonCD", "AndersonCD", "ProxNewton"] if dname != "Huber" else ["AndersonCD"])
                if sname == "ProxNewton" and dname == "Quadratic":
                    sname = "AndersonCD"
                w_init = np.array([rng.gauss(0, 2) if rng.random() < rng.choice([0.2, 0.9]) else 0.0 for _ in range(p + fi)])
                Xw_init = X @ w_init[:p] + (w_init[-1] if fi else 0.0)
                buf_w, buf_Xw = w_init.copy(), Xw_init.copy()
                knobs = dict(tol=tol, fit_intercept=fi, p0=rng.choice([1, 2, 10]), max_iter=rng.choice([2, 50]))
                if sname == "AndersonCD":
                    knobs["max_epochs"] = rng.choice([7, 100, 5000])
                df = sl.cc(ctor(DP))
                if sname == "ProxNewton" and hasattr(df, "initialize"):
                    df.initialize(X, y)
                w, b, objs, stop = sl.run(getattr(ss, sname)(**knobs), Xs, y, df, sl.cc(pen), buf_w, buf_Xw)
                ev += 1
                nontriv += 1
                inp = dict(mode=mode, solver=sname, knobs=knobs, datafit=dname, penalty=pk, X=X.tolist(), y=y.tolist(), w_init=w_init.tolist(),
                           PP={k: np.asarray(v).tolist() for k, v in PP.items()})
                exp_buf = X @ w + b
                if not np.allclose(buf_Xw, exp_buf, rtol=1e-8, atol=1e-9):
                    failures.append(dict(site=f"buffer-not-model-fit:{sname}", input=inp, observed=buf_Xw.tolist(), expected=exp_buf.tolist()))
                    continue
                if stop <= tol:
                    viol, worst = sl.kkt_violation(dname, DP, pk, PP, X, y, w, b, fi)
                    if viol > tol * (1 + 1e-3) + 2e-5:
                        failures.append(dict(site=f"certificate-after-warm-start:{sname}", input=inp, observed=dict(stop=stop, w=w.tolist(), b=b),
                                             expected=dict(violation=viol, worst=worst)))
            elif mode == "path":
                alphas = [amax * f for f in rng.sample([1.2, 0.8, 0.5, 0.2, 0.05, 0.01], rng.randint(2, 5))]
                if rng.random() < 0.5:
                    alphas = sorted(alphas, reverse=True)
                pen, PP = sl.make_penalty(pk, rng, p, alphas[0], False)
                w_init = None
                if rng.random() < 0.4:
                    w_init = np.array([rng.gauss(0, 1) if rng.random() < 0.3 else 0.0 for _ in range(p + fi)])
                    if rng.random() < 0.4:
                        w_init[:p] = 0.0
                solver = ss.AndersonCD(tol=tol, fit_intercept=fi, p0=rng.choice([1, 10]), max_iter=100, max_epochs=5000)
                _, coefs, stops = solver.path(Xs, y, sl.cc(ctor(DP)), sl.cc(pen), alphas=np.array(alphas), w_init=w_init)
                inp = dict(mode=mode, datafit=dname, penalty=pk, alphas=alphas, X=X.tolist(), y=y.tolist(), fit_intercept=fi,
                           w_init=None if w_init is None else w_init.tolist(), PP={k: np.asarray(v).tolist() for k, v in PP.items()})
                for t, a in enumerate(alphas):
                    ev += 1
                    nontriv += 1
                    if stops[t] <= tol:
                        w, b = coefs[:p, t], (coefs[-1, t] if fi else 0.0)
                        viol, worst = sl.kkt_violation(dname, DP, pk, dict(PP, alpha=a), X, y, w, b, fi)
                        if viol > tol * (1 + 1e-3) + 2e-5:
                            failures.append(dict(site="certificate-on-path:AndersonCD", input=dict(inp, t=t), observed=dict(stop=float(stops[t]), w=w.tolist(), b=float(b)),
                                                 expected=dict(violation=viol, worst=worst)))
                            break
            elif mode == "mtl_refit":
                # multitask estimator refitted (warm_start on / off, alpha and fit_intercept changed): every fit that reports
                # convergence must be stationary for ITS OWN problem (non-centred targets)
                from skglm.estimators import MultiTaskLasso
                Xm, _ = sl.make_problem(rng, kind="real")
                n_, p_ = Xm.shape
                T = rng.randint(2, 3)
                Ym = Xm @ np.array([[rng.gauss(0, 1) if rng.random() < 0.5 else 0.0 for _ in range(T)] for _ in range(p_)]) + rng.choice([2.0, -3.0]) \
                    + np.array([[rng.gauss(0, 0.2) for _ in range(T)] for _ in range(n_)])
                am = float(np.max(np.linalg.norm(Xm.T @ (Ym - Ym.mean(axis=0)), axis=1))) / n_
                a_cur, fi_m = am * 0.5, True
                est = MultiTaskLasso(alpha=a_cur, fit_intercept=fi_m, warm_start=rng.random() < 0.8, tol=1e-8, max_iter=200)
                hist = []
                for _step in range(rng.randint(2, 3)):
                    est.fit(Xm, Ym)
                    hist.append(dict(alpha=a_cur, fit_intercept=est.fit_intercept))
                    ev += 1
                    nontriv += 1
                    Wc = np.asarray(est.coef_, dtype=float).T                    # (n_features, n_tasks)
                    bm = np.asarray(est.intercept_, dtype=float) if est.fit_intercept else 0.0
                    viol = sl.mtl_violation(Xm, Ym, Wc, bm, a_cur, est.fit_intercept)
                    if getattr(est, "stop_crit_", 0.0) <= 1e-8 and viol > 1e-5:
                        failures.append(dict(site="certificate-after-refit:MultiTaskLasso", input=dict(mode=mode, X=Xm.tolist(), Y=Ym.tolist(), history=hist, warm_start=est.warm_start),
                                             observed=dict(W=Wc.tolist(), b=np.asarray(bm).tolist()), expected=dict(violation=viol)))
                        break
                    a_cur = am * rng.choice([0.1, 0.3, 0.7])
                    est.alpha = a_cur
            elif mode == "mtl_path":
                # MultiTaskBCD: (a) solve from user-supplied (W, XW): on return the caller's XW buffer is X W + b;
                # (b) path() over >= 2 alphas with an intercept and non-centred targets: certificate at every alpha
                Xm, _ = sl.make_problem(rng, kind="real")
                n_, p_ = Xm.shape
                T = rng.randint(1, 3)
                Ym = Xm @ np.array([[rng.gauss(0, 1) if rng.random() < 0.5 else 0.0 for _ in range(T)] for _ in range(p_)]) + rng.choice([0.0, 2.0, -3.0]) \
                    + np.array([[rng.gauss(0, 0.2) for _ in range(T)] for _ in range(n_)])
                fi_m = rng.random() < 0.7
                am = float(np.max(np.linalg.norm(Xm.T @ (Ym - Ym.mean(axis=0) if fi_m else Ym), axis=1))) / n_
                use_sp = rng.random() < 0.3
                Xin = sparse.csc_matrix(Xm) if use_sp else np.asfortranarray(Xm)
                solver = ss.MultiTaskBCD(tol=1e-8, fit_intercept=fi_m, max_iter=rng.choice([3, 200]), ws_strategy=rng.choice(["subdiff", "fixpoint"]))
                W0 = np.array([[rng.gauss(0, 1) if rng.random() < 0.5 else 0.0 for _ in range(T)] for _ in range(p_ + fi_m)])
                XW0 = np.asfortranarray(Xm @ W0[:p_] + (W0[-1] if fi_m else 0.0))
                a_ = am * rng.choice([0.1, 0.4])
                W, _, stop = solver.solve(Xin, np.asfortranarray(Ym), sl.cc(sd.QuadraticMultiTask()), sl.cc(sp.L2_1(a_)), W0, XW0)
                ev += 1
                nontriv += 1
                W = np.asarray(W)
                expb = Xm @ W[:p_] + (W[-1] if fi_m else 0.0)
                inp = dict(mode=mode, X=Xm.tolist(), Y=Ym.tolist(), fit_intercept=fi_m, alpha=a_, sparse=use_sp)
                if not np.allclose(XW0, expb, rtol=1e-8, atol=1e-9):
                    failures.append(dict(site="buffer-not-model-fit:MultiTaskBCD", input=inp, observed=np.asarray(XW0).tolist(), expected=expb.tolist()))
                    continue
                alphas = np.array(sorted([am * f for f in rng.sample([0.8, 0.5, 0.2, 0.05], rng.randint(2, 3))], reverse=True))
                res = ss.MultiTaskBCD(tol=1e-8, fit_intercept=fi_m, max_iter=300).path(Xin, np.asfortranarray(Ym), sl.cc(sd.QuadraticMultiTask()), sl.cc(sp.L2_1(1.0)), alphas=alphas)
                coefs, stops = np.asarray(res[1]), np.asarray(res[2])
                for t_, a in enumerate(alphas):
                    ev += 1
                    Wt = coefs[:, :, t_].T            # path returns (n_tasks, n_features + fit_intercept, n_alphas)
                    if stops[t_] <= 1e-8:
                        viol = sl.mtl_violation(Xm, Ym, Wt[:p_], Wt[-1] if fi_m else 0.0, a, fi_m)
                        if viol > 1e-5:
                            failures.append(dict(site="certificate-on-path:MultiTaskBCD", input=dict(inp, alphas=alphas.tolist(), t=t_), observed=dict(W=Wt.tolist(), stop=float(stops[t_])),
                                                 expected=dict(violation=viol)))
                            break
            elif mode == "sqrt_path":
                # SqrtLasso.path: every point of the returned path must be stationary for ITS OWN alpha
                from skglm.experimental.sqrt_lasso import SqrtLasso
                Xr, yr = sl.make_problem(rng, kind="real")
                yr = yr + np.array([rng.gauss(0, 0.5) for _ in yr])           # keep the residual away from 0
                amax_sq = float(np.max(np.abs(Xr.T @ yr))) / float(np.linalg.norm(yr))
                alphas = np.array([amax_sq * f for f in rng.sample([0.9, 0.7, 0.5, 0.35, 0.2], rng.randint(2, 4))])
                est = SqrtLasso(tol=1e-9, max_iter=200)
                al_out, coefs = est.path(Xr, yr, alphas=alphas)[:2]
                coefs = np.asarray(coefs)
                if coefs.shape[0] != len(al_out):           # the implementation returns one ROW per alpha (n_alphas, n_features)
                    coefs = coefs.T
                for t_, a in enumerate(al_out):
                    ev += 1
                    nontriv += 1
                    w = coefs[t_]
                    res = yr - Xr @ w
                    nr = float(np.linalg.norm(res))
                    if nr < 2e-2 * float(np.linalg.norm(yr)):
                        continue
                    gq = -Xr.T @ res / nr
                    viol = max(max(0.0, abs(gq[j]) - a) if w[j] == 0 else abs(gq[j] + a * np.sign(w[j])) for j in range(Xr.shape[1]))
                    if viol > 1e-4:
                        failures.append(dict(site="certificate-on-path:SqrtLasso", input=dict(mode=mode, X=Xr.tolist(), y=yr.tolist(), alphas=list(map(float, al_out)), t=t_),
                                             observed=dict(w=w.tolist()), expected=dict(violation=viol, alpha=float(a))))
                        break
            else:
                from skglm.estimators import Lasso, SparseLogisticRegression
                if dname == "Huber":
                    continue
                Est = Lasso if dname == "Quadratic" else SparseLogisticRegression
                a_cur = amax * 0.5
                est = Est(alpha=a_cur, tol=tol, fit_intercept=fi, warm_start=True, max_iter=100)
                est.fit(X, y)
                hist = [dict(alpha=a_cur, fit_intercept=fi)]
                for _step in range(rng.randint(1, 3)):
                    ch = rng.choice(["alpha", "fit_intercept", "both"])
                    if ch in ("alpha", "both"):
                        a_cur = amax * rng.choice([0.05, 0.2, 0.7])
                        est.alpha = a_cur
                    if ch in ("fit_intercept", "both"):
                        est.fit_intercept = not est.fit_intercept
                    hist.append(dict(alpha=a_cur, fit_intercept=est.fit_intercept))
                    est.fit(X, y)
                    ev += 1
                    nontriv += 1
                    fi_now = est.fit_intercept
                    w, b = np.ravel(est.coef_), (float(np.ravel(est.intercept_)[0]) if fi_now else 0.0)
                    if est.stop_crit_ <= tol:
                        viol, worst = sl.kkt_violation(dname, {}, "L1", dict(alpha=a_cur), X, y, w, b, fi_now)
                        if viol > tol * (1 + 1e-3) + 2e-5:
                            failures.append(dict(site=f"certificate-after-refit:{Est.__name__}", input=dict(mode=mode, X=X.tolist(), y=y.tolist(), history=hist),
                                                 observed=dict(stop=float(est.stop_crit_), w=w.tolist(), b=b), expected=dict(violation=viol, worst=worst)))
                            break
        except (AttributeError, ValueError) as e:
            if "not compatible" in str(e) or "must implement" in str(e) or "Missing" in str(e):
                continue
            failures.append(dict(site=f"raises:{mode}", input=dict(mode=mode, datafit=dname, penalty=pk), observed=repr(e)[:300]))
        except Exception as e:
            failures.append(dict(site=f"raises:{mode}", input=dict(mode=mode, datafit=dname, penalty=pk), observed=repr(e)[:300]))
    return dict(evaluations=ev, distinct_nontrivial=nontriv, failures=failures, samples=samples or [dict(note="no sample kept")])


def replay(payload):
    f = payload.get("failure")
    if not f:
        return dict(fails=False, note="unchecked obligation: " + "; ".join(b.get("what", "") for b in payload.get("broken", [])))
    res = oracle("thorough", random.Random(payload.get("seed", 0) + 1), deep=True)
    same = [x for x in res["failures"] if x["site"] == f["site"]]
    return dict(fails=bool(same), site=f["site"], reproduced=same[:1])
