"""C11 -- each ready-made estimator minimises exactly its documented objective."""
import math, random, json, os
import numpy as np
from scipy import sparse
import solverlib as sl
from speclib import cox_nll

GEN_SOURCES = ["extract", "skglm/estimators.py", "skglm/experimental/sqrt_lasso.py"]
EXTRA_TARGETS = []
TRUSTED_BASE = [
    "Coq 8.16.1 kernel (coqc); the table theorem is closed by vm_compute over the 11 estimators (exhaustive, bound stated); no axioms",
    "tools/extract.py: constructor calls in each estimator's fit, positional arguments resolved against the constructors' signatures, "
    "regenerated each run",
    "coq/Spec/EstimatorDocs.v: hand transcription of the docstrings into the expected (datafit, penalty, solver) constructions",
    "C06 / C07 / C08 (components compute the documented formulas) and C01 (certificate) for the step from configuration to objective",
]
ASSUMPTIONS = [
    "the end-to-end statement (coef_ / intercept_ stationary for the documented formula for all data and argument values; LinearSVC primal "
    "image; grp_converter input forms) is decided by the fitted-estimator oracle with formulas written from the docstrings (partial)",
]
RULE = ("correspondence: extracted configuration table vs the classes and arguments actually reaching solver.solve (spied through a wrapper on "
        "BaseSolver.solve) for random constructor arguments; oracle: every estimator fitted on random data with random values of every "
        "documented argument; stationarity recomputed against the DOCUMENTED objective; LinearSVC coef_ = sum_i y_i w_i x_i; Cox breslow vs "
        "efron on tied data; non-trivial = converged fit with non-zero coefficients")


def _spy():
    """context manager recording (datafit class+params, penalty class+params, solver class+fields) at every BaseSolver.solve"""
    import contextlib
    from skglm.solvers.base import BaseSolver
    rec = []

    @contextlib.contextmanager
    def cm():
        orig = BaseSolver.solve

        def solve(self, X, y, datafit, penalty, *a, **k):
            d = type(datafit).__name__
            p = type(penalty).__name__
            pp = {}
            for f in ("alpha", "l1_ratio", "gamma", "positive", "use_efron"):
                for obj in (penalty, datafit):
                    if hasattr(obj, f):
                        pp[f] = float(getattr(obj, f)) if not isinstance(getattr(obj, f), bool) else bool(getattr(obj, f))
            rec.append(dict(datafit=d, penalty=p, params=pp, solver=type(self).__name__,
                            solver_fields={f: getattr(self, f) for f in ("tol", "max_iter", "fit_intercept", "p0", "ws_strategy", "warm_start") if hasattr(self, f)}))
            return orig(self, X, y, datafit, penalty, *a, **k)
        BaseSolver.solve = solve
        try:
            yield rec
        finally:
            BaseSolver.solve = orig
    return cm()


def correspondence(tier, rng):
    from skglm.estimators import Lasso, ElasticNet, MCPRegression, WeightedLasso, SparseLogisticRegression, LinearSVC, GroupLasso, MultiTaskLasso, CoxEstimator
    from skglm.experimental.sqrt_lasso import SqrtLasso
    cfg = json.load(open(os.path.join(os.path.dirname(os.path.dirname(os.path.abspath(__file__))), "..", "coq", "Gen", "configs.json")))
    bad, cases = [], 0
    X, y = sl.make_problem(rng, n=12, p=4)
    ys = np.sign(y - np.median(y)); ys[ys == 0] = 1
    for _ in range(3 if tier == "quick" else 15):
        a = rng.choice([0.01, 0.1, 0.5]); r = rng.choice([0.3, 0.7]); pos = rng.random() < 0.5; fi = rng.random() < 0.5
        tol = rng.choice([1e-3, 1e-6]); p0 = rng.choice([2, 7]); g = rng.choice([2.5, 4.0]); ws = rng.choice(["subdiff", "fixpoint"])
        trials = [
            ("Lasso", Lasso(alpha=a, positive=pos, fit_intercept=fi, tol=tol, p0=p0, ws_strategy=ws), y, dict(datafit="Quadratic", penalty="L1", params=dict(alpha=a, positive=pos), solver="AndersonCD")),
            ("ElasticNet", ElasticNet(alpha=a, l1_ratio=r, positive=pos, fit_intercept=fi, tol=tol, p0=p0, ws_strategy=ws), y, dict(datafit="Quadratic", penalty="L1_plus_L2", params=dict(alpha=a, l1_ratio=r, positive=pos), solver="AndersonCD")),
            ("MCPRegression", MCPRegression(alpha=a, gamma=g, positive=pos, fit_intercept=fi, tol=tol, p0=p0, ws_strategy=ws), y, dict(datafit="Quadratic", penalty="MCPenalty", params=dict(alpha=a, gamma=g, positive=pos), solver="AndersonCD")),
            ("WeightedLasso", WeightedLasso(alpha=a, weights=np.ones(4), positive=pos, fit_intercept=fi, tol=tol, p0=p0, ws_strategy=ws), y, dict(datafit="Quadratic", penalty="WeightedL1", params=dict(alpha=a, positive=pos), solver="AndersonCD")),
            ("SparseLogisticRegression", SparseLogisticRegression(alpha=a, fit_intercept=fi, tol=tol), ys, dict(datafit="Logistic", penalty="L1", params=dict(alpha=a), solver="ProxNewton")),
            ("LinearSVC", LinearSVC(C=a, tol=tol, p0=p0, ws_strategy=ws), ys, dict(datafit="QuadraticSVC", penalty="IndicatorBox", params=dict(alpha=a), solver="AndersonCD")),
            ("GroupLasso", GroupLasso(groups=2, alpha=a, positive=pos, fit_intercept=fi, tol=tol, p0=p0, ws_strategy=ws), y, dict(datafit="QuadraticGroup", penalty="WeightedGroupL2", params=dict(alpha=a, positive=pos), solver="GroupBCD")),
            ("SqrtLasso", SqrtLasso(alpha=a, tol=tol, p0=p0), y, dict(datafit="SqrtQuadratic", penalty="L1", params=dict(alpha=a), solver="ProxNewton")),
        ]
        for name, est, yy, exp in trials:
            with _spy() as rec:
                try:
                    est.fit(X, yy)
                except Exception as e:
                    bad.append(f"{name}: fit raised {type(e).__name__}: {str(e)[:100]}")
                    continue
            cases += 1
            if not rec:
                bad.append(f"{name}: no solver.solve call observed")
                continue
            r0 = rec[-1]
            names_in_table = " ".join(cfg.get(name, []))
            if r0["datafit"] != exp["datafit"] or r0["penalty"] != exp["penalty"] or r0["solver"] != exp["solver"] \
                    or any(c not in names_in_table for c in (r0["datafit"] + "(", r0["penalty"] + "(", r0["solver"] + "(")):
                bad.append(f"{name}: observed {r0['datafit']}/{r0['penalty']}/{r0['solver']}, table {cfg.get(name)}")
                continue
            for k, v in exp["params"].items():
                if k in r0["params"] and not (r0["params"][k] == v or (isinstance(v, float) and abs(r0["params"][k] - v) < 1e-12)):
                    bad.append(f"{name}: argument {k}={v} reached the component as {r0['params'][k]}")
            sf = r0["solver_fields"]
            if abs(sf.get("tol", tol) - tol) > 0:
                bad.append(f"{name}: tol={tol} reached the solver as {sf.get('tol')}")
            if name not in ("SparseLogisticRegression", "SqrtLasso") and "p0" in sf and sf["p0"] != p0:
                bad.append(f"{name}: p0={p0} reached the solver as {sf['p0']}")
            if name in ("Lasso", "ElasticNet", "MCPRegression", "WeightedLasso", "GroupLasso", "LinearSVC") and sf.get("ws_strategy") != ws:
                bad.append(f"{name}: ws_strategy={ws} reached the solver as {sf.get('ws_strategy')}")
            if name in ("Lasso", "ElasticNet", "MCPRegression", "WeightedLasso", "GroupLasso", "SparseLogisticRegression") and sf.get("fit_intercept") != fi:
                bad.append(f"{name}: fit_intercept={fi} reached the solver as {sf.get('fit_intercept')}")
    return dict(cases=cases, bad=bad[:10], errors=[], distribution=dict(fits=cases), distinct_nontrivial=cases,
                samples=[dict(table_entry=dict(Lasso=cfg.get("Lasso")))])


def oracle(tier, rng, deep=False):
    from skglm.estimators import (Lasso, ElasticNet, MCPRegression, WeightedLasso, SparseLogisticRegression, LinearSVC, GroupLasso,
                                  MultiTaskLasso, CoxEstimator, GeneralizedLinearEstimator)
    from skglm.experimental.sqrt_lasso import SqrtLasso
    import skglm.datafits as sd, skglm.penalties as sp, skglm.solvers as ss
    failures = []
    ev = nontriv = 0
    tol = 1e-9
    nrep = 3 if tier == "quick" and not deep else (9 if tier == "quick" else 20)   # quick + broken obligation: 3x the quick search

    def check(name, dname, DP, pk, PP, X, y, w, b, fi, stop, inp):
        nonlocal ev, nontriv
        ev += 1
        if np.any(w != 0):
            nontriv += 1
        if stop > 1e-6:
            return
        viol, worst = sl.kkt_violation(dname, DP, pk, PP, X, y, w, b, fi)
        if viol > 1e-5:
            failures.append(dict(site=f"not-stationary-for-documented-objective:{name}", input=inp, observed=dict(w=w.tolist(), b=b, stop=stop),
                                 expected=dict(violation=viol, worst=worst)))
    for _ in range(nrep):
        X, y = sl.make_problem(rng)
        y = y + rng.choice([0.0, 2.0])
        n, p = X.shape
        a = float(np.max(np.abs(X.T @ (y - y.mean())))) / n * rng.choice([0.05, 0.3])
        fi = rng.random() < 0.6
        pos = rng.random() < 0.3
        r = rng.choice([0.2, 0.5, 0.9])
        g = rng.choice([3.0, 10.0])
        wts = np.array([rng.choice([0.0, 0.5, 1.0, 2.0]) for _ in range(p)])
        inp0 = dict(X=X.tolist(), y=y.tolist(), alpha=a, fit_intercept=fi, positive=pos, l1_ratio=r, gamma=g, weights=wts.tolist())
        try:
            m = Lasso(alpha=a, fit_intercept=fi, positive=pos, tol=tol, max_iter=200).fit(X, y)
            check("Lasso", "Quadratic", {}, "L1", dict(alpha=a, positive=pos), X, y, m.coef_, float(m.intercept_), fi, m.stop_crit_, inp0)
            m = ElasticNet(alpha=a, l1_ratio=r, fit_intercept=fi, positive=pos, tol=tol, max_iter=200).fit(X, y)
            check("ElasticNet", "Quadratic", {}, "L1_plus_L2", dict(alpha=a, l1_ratio=r, positive=pos), X, y, m.coef_, float(m.intercept_), fi, m.stop_crit_, inp0)
            m = WeightedLasso(alpha=a, weights=wts, fit_intercept=fi, positive=pos, tol=tol, max_iter=200).fit(X, y)
            check("WeightedLasso", "Quadratic", {}, "WeightedL1", dict(alpha=a, weights=wts, positive=pos), X, y, m.coef_, float(m.intercept_), fi, m.stop_crit_, inp0)
            m = WeightedLasso(alpha=a, weights=None, fit_intercept=fi, tol=tol, max_iter=200).fit(X, y)
            check("WeightedLasso(None)", "Quadratic", {}, "L1", dict(alpha=a), X, y, m.coef_, float(m.intercept_), fi, m.stop_crit_, inp0)
            m = MCPRegression(alpha=a, gamma=g, fit_intercept=fi, tol=tol, max_iter=200).fit(X, y)
            check("MCPRegression", "Quadratic", {}, "MCPenalty", dict(alpha=a, gamma=g), X, y, m.coef_, float(m.intercept_), fi, m.stop_crit_, inp0)
            m = GeneralizedLinearEstimator(sd.Huber(1.0), sp.L1_plus_L2(a, r), ss.AndersonCD(tol=tol, fit_intercept=fi, max_iter=200)).fit(X, y)
            check("GeneralizedLinearEstimator", "Huber", dict(delta=1.0), "L1_plus_L2", dict(alpha=a, l1_ratio=r), X, y, m.coef_, float(m.intercept_), fi, m.stop_crit_, inp0)
            # group lasso through the three group formats
            gfmt = rng.choice(["int", "sizes", "lists"])
            if gfmt == "int":
                gs = 1 if p % 2 else 2
                groups, gp, gi = gs, np.arange(0, p + 1, gs), np.arange(p)
            elif gfmt == "sizes":
                sizes = [1] * (p - 2) + [2] if p > 2 else [p]
                groups, gp, gi = sizes, np.cumsum([0] + sizes), np.arange(p)
            else:
                perm = list(range(p)); rng.shuffle(perm)
                lists = [perm[: p // 2], perm[p // 2:]] if p > 1 else [perm]
                groups, gp, gi = lists, np.cumsum([0] + [len(l) for l in lists]), np.array([i for l in lists for i in l])
            gw = np.array([rng.choice([0.5, 1.0, 2.0]) for _ in range(len(gp) - 1)])
            m = GroupLasso(groups=groups, alpha=a, weights=gw, fit_intercept=fi, tol=tol, max_iter=500).fit(X, y)
            check(f"GroupLasso[{gfmt}]", "Quadratic", {}, "WeightedGroupL2", dict(alpha=a, weights=gw, grp_ptr=gp, grp_indices=gi), X, y, m.coef_, float(m.intercept_), fi, m.stop_crit_, dict(inp0, groups=str(groups), group_weights=gw.tolist()))
            # multitask
            T = 2
            Y = np.column_stack([y, -0.5 * y + X[:, 0]])
            am = float(np.max(np.linalg.norm(X.T @ (Y - Y.mean(axis=0)), axis=1))) / n * 0.2
            m = MultiTaskLasso(alpha=am, fit_intercept=fi, tol=tol, max_iter=300).fit(X, Y)
            ev += 1
            v = sl.mtl_violation(X, Y, m.coef_.T, m.intercept_, am, fi)
            if v > 1e-5:
                failures.append(dict(site="not-stationary-for-documented-objective:MultiTaskLasso", input=dict(inp0, Y=Y.tolist(), alpha=am), observed=dict(W=m.coef_.tolist()), expected=dict(violation=v)))
            # the documented meaning of the arguments also holds on a refit (warm_start=True, targets not centred, alpha changed)
            Ys = Y + 3.0
            mw = MultiTaskLasso(alpha=am, fit_intercept=fi, warm_start=True, tol=tol, max_iter=300).fit(X, Ys)
            am2 = am * 0.5
            mw.alpha = am2
            mw.fit(X, Ys)
            ev += 1
            v = sl.mtl_violation(X, Ys, mw.coef_.T, mw.intercept_, am2, fi)
            if v > 1e-5:
                failures.append(dict(site="not-stationary-for-documented-objective:MultiTaskLasso:refit", input=dict(inp0, Y=Ys.tolist(), alpha=am2), observed=dict(W=mw.coef_.tolist()), expected=dict(violation=v)))
            # classification
            ys = np.sign(y - np.median(y)); ys[ys == 0] = 1
            al = float(np.max(np.abs(X.T @ ys))) / (2 * n) * 0.2
            m = SparseLogisticRegression(alpha=al, fit_intercept=fi, tol=tol, max_iter=100).fit(X, ys)
            check("SparseLogisticRegression", "Logistic", {}, "L1", dict(alpha=al), X, ys, m.coef_[0], float(np.ravel(m.intercept_)[0]) if fi else 0.0, fi, m.stop_crit_, dict(inp0, y=ys.tolist(), alpha=al))
            C = rng.choice([0.1, 1.0])
            m = LinearSVC(C=C, tol=tol, max_iter=200).fit(X, ys)
            ev += 1
            d = m.dual_coef_.ravel()
            prim = (X * ys[:, None]).T @ d
            if not np.allclose(m.coef_.ravel(), prim, atol=1e-8):
                failures.append(dict(site="svc-coef-not-primal-image", input=dict(inp0, C=C), observed=m.coef_.ravel().tolist(), expected=prim.tolist()))
            gd = (X * ys[:, None]) @ prim - 1.0          # gradient of the dual objective 1/2 ||(yX)^T w||^2 - sum w
            kv = np.where(d <= 0, np.maximum(0, -gd), np.where(d >= C, np.maximum(0, gd), np.abs(gd)))
            if m.stop_crit_ <= 1e-6 and kv.max() > 1e-5:
                failures.append(dict(site="not-stationary-for-documented-objective:LinearSVC", input=dict(inp0, C=C), observed=d.tolist(), expected=dict(violation=float(kv.max()))))
            m1 = LinearSVC(C=C, tol=tol, fit_intercept=True).fit(X + 3.0, ys)
            if float(np.ravel(m1.intercept_)[0]) == 0.0:
                failures.append(dict(site="documented-argument-ignored:LinearSVC:fit_intercept", input=dict(C=C), observed="intercept_ == 0 with fit_intercept=True on shifted data"))
            # Cox: both methods on tied data, stationarity for the documented likelihood
            tm = np.array([float(rng.randint(1, 4)) for _ in range(n)])
            s_ = np.array([1.0 if rng.random() < 0.75 else 0.0 for _ in range(n)]); s_[0] = 1.0
            yc = np.column_stack([tm, s_])
            for method in ("breslow", "efron"):
                ac = 0.02
                m = CoxEstimator(alpha=ac, l1_ratio=1.0, method=method, tol=1e-9, max_iter=100).fit(X, yc)
                ev += 1
                w = m.coef_.ravel()
                h = 1e-6
                F = lambda ww: cox_nll(yc, X @ ww, method == "efron")
                gnum = np.array([(F(w + h * np.eye(p)[j]) - F(w - h * np.eye(p)[j])) / (2 * h) for j in range(p)])
                viol = max(max(0.0, abs(gnum[j]) - ac) if w[j] == 0 else abs(gnum[j] + ac * np.sign(w[j])) for j in range(p))
                if m.stop_crit_ <= 1e-6 and viol > 2e-5:
                    failures.append(dict(site=f"not-stationary-for-documented-objective:CoxEstimator:{method}", input=dict(X=X.tolist(), y=yc.tolist(), alpha=ac), observed=w.tolist(), expected=dict(violation=viol)))
            # SqrtLasso
            asq = float(np.max(np.abs(X.T @ y))) / np.linalg.norm(y) * 0.3
            import warnings as _w
            with _w.catch_warnings(record=True) as _wl:
                _w.simplefilter("always")
                m = SqrtLasso(alpha=asq, tol=1e-9, max_iter=100).fit(X, y)
            # the square-root loss is not differentiable at a zero residual: when the fit is (nearly) exact the solver says so
            # ("Small residuals prevented the solver from converging ...") and makes no claim of stationarity -- an explanation, not a failure
            flagged = any("Small residuals" in str(x.message) for x in _wl)
            ev += 1
            w = m.coef_
            res = y - X @ w
            if np.linalg.norm(res) > 1e-8 and not flagged:
                gq = -X.T @ res / np.linalg.norm(res)
                viol = max(max(0.0, abs(gq[j]) - asq) if w[j] == 0 else abs(gq[j] + asq * np.sign(w[j])) for j in range(p))
                if viol > 1e-5:
                    failures.append(dict(site="not-stationary-for-documented-objective:SqrtLasso", input=dict(X=X.tolist(), y=y.tolist(), alpha=asq), observed=w.tolist(), expected=dict(violation=viol)))
        except Exception as e:
            failures.append(dict(site="raises:estimator", input=inp0, observed=f"{type(e).__name__}: {str(e)[:300]}"))
    return dict(evaluations=ev, distinct_nontrivial=nontriv, failures=failures, samples=[dict(fits=ev)])


def replay(payload):
    f = payload.get("failure")
    if not f:
        return dict(fails=False, note="unchecked obligation: " + "; ".join(b.get("what", "") for b in payload.get("broken", [])))
    res = oracle("thorough", random.Random(payload.get("seed", 0) + 1), deep=True)
    same = [x for x in res["failures"] if x["site"] == f["site"]]
    return dict(fails=bool(same), site=f["site"], reproduced=same[:1])
