"""C08 -- the optimality measure (distance to the subdifferential) is sound."""
import math
import numpy as np
import kernels, tvlib
from speclib import pen_instances_1d, block_instances, VALS

GEN_SOURCES = ["skglm/penalties/separable.py", "skglm/penalties/block_separable.py", "skglm/utils/prox_funcs.py", "skglm/solvers/common.py"]
EXTRA_TARGETS = ["Gen/ProxFuncs.vo", "Gen/PenSeparable.vo", "Gen/PenBlock.vo", "Gen/KernCD.vo", "Gen/KernBCD.vo", "Gen/DfGroup.vo", "Gen/SparseOps.vo"]
TRUSTED_BASE = [
    "Coq 8.16.1 kernel (coqc); vm_compute only in correspondence files",
    "axioms: Reals (sig_forall_dec, sig_not_dec), functional_extensionality_dep, Classical_Prop.classic",
    "translator tools/py2coq.py + signature table tools/gen.py (model regenerated from source each run)",
    "Base/{Res,Num,RInst}.v: meaning given to numpy/Python operations",
    "real-number reading of float code (== on floats read as equality of reals)",
    "tools/speclib.py documented penalty formulas (implementation-side oracle only)",
]
ASSUMPTIONS = [
    "well-formed inputs: ws indexes w, len(grad) == len(ws), len(weights) == len(w); gamma != 0 (MCP), gamma != 1 (SCAD), eps > 0 (log-sum)",
    "subdifferential tables justified against the value functions for the convex family (L1, WeightedL1, L1_plus_L2, +positive); "
    "MCP / SCAD / log-sum / L0.5 / L2/3 / block penalties: table characterised, justification by numeric oracle only (partial)",
]
RULE = ("correspondence: real compiled subdiff_distance / prox_1d / value / generalized_support / is_penalized on dyadic (w, grad, ws) "
        "with w on kinks (0, alpha, C) and region boundaries vs vm_compute of the regenerated Gallina; oracle: score vs distance to "
        "[d-, d+] obtained from one-sided difference quotients of the documented value; non-trivial = w on a kink or score > 0")


def correspondence(tier, rng):
    n = 120 if tier == "quick" else 800
    cases = [c for c in kernels.gen_penalties(rng, n) if "subdiff_distance" in c[0] or "is_penalized" in c[0]
             or "generalized_support" in c[0] or "_value" in c[0]]
    cases += [c for c in kernels.gen_blocks(rng, n // 2) if "subdiff_distance" in c[0] or "_value" in c[0]
              or "generalized_support" in c[0]]
    if tier == "thorough":
        cases += [c for c in kernels.gen_penalties(rng, 80, transcendental=True) if "subdiff_distance" in c[0]]
    r = tvlib.run_cases(cases, ["Gen.ProxFuncs", "Gen.PenSeparable", "Gen.PenBlock"], "C08", shard=60, jobs=16)
    dist = {}
    for lab, *_ in cases:
        k = lab.split("(")[0]
        dist[k] = dist.get(k, 0) + 1
    base = dict(cases=len(cases), bad=r["bad"][:20], errors=r["errors"], distribution=dist,
                distinct_nontrivial=len({c[0] for c in cases}),
                samples=[dict(case=c[0], model=c[1], expected=c[3]) for c in cases[:3]])
    return kernels.add_bcd_kernel_corr(base, rng, 140 if tier == "quick" else 840, "C08k", only=["dist_fix_point_bcd", "bcd_construct_grad"])


def _interval(pen, feas, w, j, h=1e-7):
    if not feas(w, j):
        return None
    f0 = pen(w, j)
    lo = (f0 - pen(w - h, j)) / h if feas(w - h, j) else -math.inf
    hi = (pen(w + h, j) - f0) / h if feas(w + h, j) else math.inf
    if abs(lo) > 1e3:
        lo = -math.inf if lo < 0 else lo
    if abs(hi) > 1e3:
        hi = math.inf if hi > 0 else hi
    return lo, hi


def oracle(tier, rng, deep=False):
    failures, samples = [], []
    ev = nontriv = 0
    nrep = 6 if tier == "quick" and not deep else (18 if tier == "quick" else 30)   # quick + broken obligation: 3x the quick search
    for _ in range(nrep):
        for name, obj, pen, feas, adm in pen_instances_1d(rng):
            P = obj._params
            kinks = [0.0, P.get("alpha", 1.0), -P.get("alpha", 1.0), P.get("alpha", 1.0) * P.get("gamma", 1.0)]
            for _ in range(6):
                p = obj._p
                w = np.array([rng.choice(kinks + VALS[4:45]) for _ in range(p)])
                if name == "IndicatorBox":
                    # the property speaks about feasible points; only a *positivity option* must give +inf outside
                    w = np.array([rng.choice([0.0, P["alpha"], P["alpha"] / 2, P["alpha"] / 4]) for _ in range(p)])
                k = rng.randint(1, p)
                ws = np.array(sorted(rng.sample(range(p), k)), dtype=np.int64)
                grad = np.array([rng.choice(VALS) for _ in range(k)])
                ev += 1
                site = f"subdiff_distance:{name}"
                try:
                    sc = np.asarray(obj.subdiff_distance(w, grad, ws), dtype=float)
                except Exception as e:
                    failures.append(dict(site=site + ":raises", input=dict(w=list(w), grad=list(grad), ws=list(map(int, ws)), params=P),
                                         observed=repr(e)))
                    continue
                for idx, j in enumerate(ws):
                    itv = _interval(pen, feas, float(w[j]), int(j))
                    if itv is None:
                        exp = math.inf
                    else:
                        lo, hi = itv
                        x = -grad[idx]
                        exp = max(0.0, lo - x, x - hi)
                    if w[j] in kinks or exp > 0:
                        nontriv += 1
                    got = float(sc[idx])
                    ok = (got == exp) if math.isinf(exp) or math.isinf(got) else abs(got - exp) <= 1e-5 * (1 + abs(exp))
                    if not ok:
                        failures.append(dict(site=site, input=dict(w=list(w), grad=list(grad), ws=list(map(int, ws)), params=P,
                                                                   idx=idx), observed=got, expected=exp))
                    elif len(samples) < 3 and exp > 0:
                        samples.append(dict(kernel=site, wj=float(w[j]), g=float(grad[idx]), score=got, distance=exp))
                # prox fixed point <=> score zero (convex) / => (non-convex)
                for _ in range(3):
                    j = rng.randrange(p)
                    s = rng.choice([0.25, 0.5, 1.0])
                    if not adm(s, j):
                        continue
                    x = rng.choice(VALS)
                    try:
                        wj = float(obj.prox_1d(x, s, j))
                    except Exception:
                        continue
                    if not math.isfinite(wj):
                        continue
                    g = (wj - x) / s          # then prox(wj - s g, s) = wj
                    ww = np.zeros(p); ww[j] = wj
                    ev += 1
                    sc = float(obj.subdiff_distance(ww, np.array([g]), np.array([j], dtype=np.int64))[0])
                    if not sc <= 1e-9 * (1 + abs(g)):
                        failures.append(dict(site=f"proxfix_score:{name}", input=dict(x=x, s=s, j=j, params=P),
                                             observed=dict(prox=wj, score=sc), expected=0.0))
        for name, obj, bpen, adm, gen_x in block_instances(rng):
            if not hasattr(obj._obj, "subdiff_distance") or name.startswith("WeightedGroupL2"):
                continue
            for _ in range(4):
                T = 3
                W = np.array([gen_x(rng)[0] for _ in range(3)], dtype=float)
                grad = np.array([[rng.choice(VALS) for _ in range(T)] for _ in range(3)])
                ws = np.arange(3, dtype=np.int64)
                ev += 1
                site = f"subdiff_distance:{name}"
                try:
                    sc = np.asarray(obj.subdiff_distance(W, grad, ws), dtype=float)
                except Exception as e:
                    failures.append(dict(site=site + ":raises", input=dict(W=W.tolist(), grad=grad.tolist(), params=obj._params),
                                         observed=repr(e)))
                    continue
                for j in range(3):
                    h = 1e-6
                    if not np.any(W[j]):
                        e0 = np.zeros(T); e0[0] = h
                        r = (bpen(e0, 0) - bpen(np.zeros(T), 0)) / h
                        exp = 0.0 if r > 1e3 else max(0.0, np.linalg.norm(grad[j]) - r)
                    else:
                        gp = np.zeros(T)
                        for t in range(T):
                            e1 = np.zeros(T); e1[t] = h
                            gp[t] = (bpen(W[j] + e1, 0) - bpen(W[j] - e1, 0)) / (2 * h)
                        exp = float(np.linalg.norm(grad[j] + gp))
                        nrm = np.linalg.norm(W[j]); P = obj._params
                        if any(abs(nrm - t) < 1e-4 for t in (P["alpha"], P["alpha"] * P.get("gamma", 1))):
                            continue        # on a region boundary of the radial function: numeric gradient unreliable
                    nontriv += 1
                    if not abs(float(sc[j]) - exp) <= 1e-4 * (1 + abs(exp)):
                        failures.append(dict(site=site, input=dict(W=W.tolist(), grad=grad.tolist(), row=j, params=obj._params),
                                             observed=float(sc[j]), expected=exp))
    return dict(evaluations=ev, distinct_nontrivial=nontriv, failures=failures, samples=samples)


def replay(payload):
    f = payload.get("failure")
    if not f:
        return dict(fails=False, note="unchecked obligation: " + "; ".join(b.get("what", "") for b in payload.get("broken", [])))
    import random
    res = oracle("thorough", random.Random(payload.get("seed", 0) + 1), deep=True)
    same = [x for x in res["failures"] if x["site"] == f["site"]]
    return dict(fails=bool(same), site=f["site"], reproduced=same[:1])
