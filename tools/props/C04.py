"""C04 -- constraints hold and output is finite at every stopping point."""
import math, random
import numpy as np
from scipy import sparse
import kernels, tvlib, harness_acd
import solverlib as sl

GEN_SOURCES = ["skglm/penalties/separable.py", "skglm/utils/prox_funcs.py", "skglm/solvers/anderson_cd.py"]
EXTRA_TARGETS = ["Skel/MockACD.vo", "Gen/KernCD.vo", "Gen/KernACD.vo", "Gen/DfSingle.vo", "Gen/PenSeparable.vo", "Gen/PenBlock.vo"]
TRUSTED_BASE = [
    "Coq 8.16.1 kernel (coqc); vm_compute only in correspondence files",
    "axioms: Reals (sig_forall_dec, sig_not_dec), functional_extensionality_dep, Classical_Prop.classic",
    "translator tools/py2coq.py + signature table (prox, value and epoch kernels regenerated each run)",
    "hand-written skeleton coq/Skel/AndersonCD.v tied by executed mock-kernel correspondence with the real _solve",
    "real-number reading of float code: overflow / NaN propagation not modelled (finiteness is checked by the oracle only)",
]
ASSUMPTIONS = [
    "the start point is feasible (a warm start is a previous feasible iterate); admissible hyper-parameters (alpha >= 0, MCP step < gamma)",
    "GroupBCD / FISTA / ProxNewton / GramCD / estimators (LinearSVC dual in [0, C]): decided by the implementation oracle (partial)",
]
RULE = ("correspondence: mock-kernel traces of the real AndersonCD._solve incl. accepted extrapolations with positive=True mocks, and the real "
        "epoch kernels with positive / box penalties vs regenerated Gallina; oracle: every solver with positive=True / IndicatorBox / "
        "PositiveConstraint / positive group penalty, budgets ending on and around the extrapolation period (max_epochs in 5..8, 11..14), "
        "checks sign / box membership and finiteness of everything returned; non-trivial = budget-exhausted run with a non-zero solution")


def correspondence(tier, rng):
    n = 400 if tier == "quick" else 3000
    cases, dist = harness_acd.make_cases(rng, n)
    r1 = tvlib.run_cases(cases, ["Skel.AndersonCD", "Skel.MockACD"], "C04a", shard=12, jobs=16)
    kc = kernels.gen_cd_kernels(rng, 60 if tier == "quick" else 300)
    kc += [c for c in kernels.gen_penalties(rng, 80 if tier == "quick" else 400) if "_value" in c[0] or "prox_1d" in c[0]]
    r2 = tvlib.run_cases(kc, ["Gen.ProxFuncs", "Gen.PenSeparable", "Gen.SparseOps", "Gen.DfSingle", "Gen.KernCD", "Gen.KernACD"],
                         "C04b", shard=40, jobs=16)
    return dict(cases=len(cases) + len(kc), bad=(r1["bad"] + r2["bad"])[:10], errors=r1["errors"] + r2["errors"],
                distribution=dict(skeleton_runs=dist, kernel_cases=len(kc)),
                distinct_nontrivial=len({c[0] for c in cases}) + len({c[0] for c in kc}),
                samples=[dict(trace=cases[0][0][:500]), dict(case=kc[0][0][:300])])


def oracle(tier, rng, deep=False):
    import skglm.datafits as sd, skglm.penalties as sp, skglm.solvers as ss
    failures, samples = [], []
    ev = nontriv = 0
    nrep = 40 if tier == "quick" and not deep else (120 if tier == "quick" else 300)   # quick + broken obligation: 3x the quick search
    for _ in range(nrep):
        sname = rng.choice(["AndersonCD", "AndersonCD", "AndersonCD", "ProxNewton", "GramCD", "FISTA", "GroupBCD"])
        fi = rng.random() < 0.4 and sname not in ("GramCD", "FISTA")
        try:
            if sname == "GroupBCD":
                X, y = sl.make_problem(rng)
                n, p = X.shape
                X[:, : max(1, p // 2)] *= -1 if rng.random() < 0.5 else 1
                grp_ptr, grp_indices = sl.make_groups(rng, p)
                weights = np.ones(len(grp_ptr) - 1)
                amax, _ = sl.alpha_max("Quadratic", {}, X, y, fi)
                alpha = amax * rng.choice([0.01, 0.1])
                knobs = dict(max_iter=rng.choice([1, 2, 10]), max_epochs=rng.choice([5, 6, 7, 8, 12, 13]), tol=1e-12, fit_intercept=fi, p0=rng.choice([1, 10]))
                w, b, objs, stop = sl.run_group(sname, rng, np.asfortranarray(X), y, "Quadratic", grp_ptr, grp_indices, alpha, weights, True, knobs)
                feas, label = bool(np.all(w >= 0)), "GroupBCD:WeightedGroupL2+pos"
                inp = dict(solver=sname, knobs=knobs, X=X.tolist(), y=y.tolist(), alpha=alpha, grp_ptr=grp_ptr.tolist(), grp_indices=grp_indices.tolist())
            else:
                dname = "Quadratic" if sname in ("GramCD", "FISTA") else rng.choice(["Quadratic", "Logistic", "Huber"] if sname == "AndersonCD" else ["Logistic", "Poisson"])
                ctor, ykind, pgen = sl.DATAFITS[dname]
                X, y = sl.make_problem(rng, kind=ykind)
                n, p = X.shape
                if p > 1:
                    X[:, 1] = -np.abs(X[:, 0]) * 0.8 + 0.3 * X[:, 1]             # correlated: extrapolation overshoots
                DP = pgen(rng, n)
                amax, _ = sl.alpha_max(dname, DP, X, y, fi)
                alpha = amax * rng.choice([0.005, 0.05, 0.3])
                pk = rng.choice(["L1", "L1_plus_L2", "WeightedL1", "MCPenalty", "WeightedMCPenalty", "PositiveConstraint", "IndicatorBox"]
                                if dname in ("Quadratic", "Huber") else ["L1", "L1_plus_L2", "WeightedL1", "PositiveConstraint"])
                if pk == "IndicatorBox":
                    C = rng.choice([0.1, 0.5, 2.0])
                    pen, PP = sp.IndicatorBox(C), dict(alpha=C)
                    feasf = lambda w: bool(np.all((w >= 0) & (w <= C)))
                else:
                    pen, PP = sl.make_penalty(pk, rng, p, alpha, True)
                    feasf = lambda w: bool(np.all(w >= 0))
                knobs = dict(tol=1e-12)
                if sname == "AndersonCD":
                    knobs.update(max_iter=rng.choice([1, 1, 2, 5]), max_epochs=rng.choice([5, 6, 7, 8, 11, 12, 13, 14, 50]), p0=rng.choice([1, 2, 10]),
                                 fit_intercept=fi, ws_strategy=rng.choice(["subdiff", "fixpoint"]))
                elif sname == "ProxNewton":
                    knobs.update(max_iter=rng.choice([1, 2, 5]), max_pn_iter=rng.choice([1, 3, 50]), fit_intercept=fi, p0=rng.choice([1, 10]))
                elif sname == "GramCD":
                    knobs.update(max_iter=rng.choice([1, 6, 7, 8, 13, 30]), use_acc=True, greedy_cd=False)
                else:
                    knobs.update(max_iter=rng.choice([1, 3, 20]))
                w_init = Xw_init = None
                if rng.random() < 0.3 and pk != "IndicatorBox":
                    w_init = np.abs(np.array([rng.gauss(0, 1) for _ in range(p + fi)]))
                    Xw_init = X @ w_init[:p] + (w_init[-1] if fi else 0.0)
                Xs = sparse.csc_matrix(X) if rng.random() < 0.3 else np.asfortranarray(X)
                df = None if sname == "GramCD" else sl.cc(ctor(DP))
                if df is not None and sname in ("ProxNewton", "FISTA") and hasattr(df, "initialize"):
                    df.initialize(X, y)
                w, b, objs, stop = sl.run(getattr(ss, sname)(**knobs), Xs, y, df, sl.cc(pen), w_init, Xw_init)
                feas, label = feasf(w), f"{sname}:{dname}:{pk}"
                inp = dict(solver=sname, knobs=knobs, datafit=dname, penalty=pk, X=X.tolist(), y=y.tolist(), alpha=alpha,
                           PP={k: np.asarray(v).tolist() for k, v in PP.items()}, w_init=None if w_init is None else w_init.tolist())
        except (AttributeError, ValueError) as e:
            if "not compatible" in str(e) or "must implement" in str(e) or "Missing" in str(e) or "positive values" in str(e):
                continue
            failures.append(dict(site=f"raises:{sname}", input=dict(solver=sname), observed=repr(e)[:300]))
            continue
        except Exception as e:
            failures.append(dict(site=f"raises:{sname}", input=dict(solver=sname), observed=repr(e)[:300]))
            continue
        ev += 1
        if np.any(w != 0):
            nontriv += 1
        finite = bool(np.all(np.isfinite(w)) and math.isfinite(b) and np.all(np.isfinite(objs)) and not math.isnan(stop))
        if not feas:
            failures.append(dict(site=f"infeasible:{label.split(':')[0]}:{label.split(':')[-1]}", input=inp, observed=dict(w=w.tolist(), b=b)))
        elif not finite:
            failures.append(dict(site=f"nonfinite:{label}", input=inp, observed=dict(w=w.tolist(), b=b, objs=np.asarray(objs).tolist(), stop=stop)))
        elif len(samples) < 3 and np.any(w != 0):
            samples.append(dict(run=label, knobs=knobs, w=w.tolist()))
    # LinearSVC: dual coefficients in [0, C]
    try:
        from skglm.estimators import LinearSVC
        for _ in range(4 if tier == "quick" else 20):
            X, y = sl.make_problem(rng, kind="sign")
            C = rng.choice([0.1, 1.0, 10.0])
            clf = LinearSVC(C=C, max_iter=rng.choice([1, 2, 20]), max_epochs=rng.choice([5, 7, 50]), tol=1e-12).fit(X, y)
            ev += 1
            d = np.asarray(clf.dual_coef_).ravel()
            if not np.all((d >= 0) & (d <= C)):
                failures.append(dict(site="infeasible:LinearSVC:dual", input=dict(X=X.tolist(), y=y.tolist(), C=C), observed=d.tolist()))
        # warm-started refit after SHRINKING the box: the old dual coefficients sit above the new C; the result must be
        # inside the new box whatever the budget (the out-of-box entries are in the support, hence in the first working set)
        for _ in range(4 if tier == "quick" else 20):
            X, y = sl.make_problem(rng, n=rng.randint(14, 24), p=rng.randint(2, 5), kind="sign")
            C1 = rng.choice([1.0, 5.0])
            C2 = C1 * rng.choice([0.02, 0.1, 0.5])
            clf = LinearSVC(C=C1, tol=1e-10, warm_start=True).fit(X, y)
            clf.C = C2
            clf.max_iter = rng.choice([1, 2, 5])
            clf.fit(X, y)
            ev += 1
            d = np.asarray(clf.dual_coef_).ravel()
            if not np.all((d >= 0) & (d <= C2 * (1 + 1e-12))):
                failures.append(dict(site="infeasible:LinearSVC:dual-after-warm-refit", input=dict(X=X.tolist(), y=y.tolist(), C1=C1, C2=C2, max_iter=clf.max_iter),
                                     observed=dict(max=float(d.max()), n_above=int(np.sum(d > C2)))))
        # the same at solver level: AndersonCD + IndicatorBox started from a point of a larger box
        for _ in range(4 if tier == "quick" else 20):
            X, y = sl.make_problem(rng, n=rng.randint(8, 14), p=rng.randint(12, 20), kind="real")
            n, p = X.shape
            C2 = rng.choice([0.05, 0.2])
            w0 = np.array([rng.choice([0.0, 1.0, 1.0, 0.5]) for _ in range(p)])
            knobs = dict(max_iter=rng.choice([1, 2]), max_epochs=rng.choice([1, 5, 50]), p0=rng.choice([1, 10]), tol=1e-12, fit_intercept=False)
            w, b, objs, stop = sl.run(ss.AndersonCD(**knobs), np.asfortranarray(X), y, sl.cc(sd.Quadratic()), sl.cc(sp.IndicatorBox(C2)), w0.copy(), X @ w0)
            ev += 1
            if not np.all((w >= 0) & (w <= C2 * (1 + 1e-12))):
                failures.append(dict(site="infeasible:AndersonCD:IndicatorBox-after-warm-start-outside-box", input=dict(X=X.tolist(), y=y.tolist(), C=C2, w_init=w0.tolist(), knobs=knobs),
                                     observed=dict(max=float(w.max()))))
    except Exception as e:
        failures.append(dict(site="raises:LinearSVC", input={}, observed=repr(e)[:300]))
    return dict(evaluations=ev, distinct_nontrivial=nontriv, failures=failures, samples=samples)


def replay(payload):
    f = payload.get("failure")
    if not f:
        return dict(fails=False, note="unchecked obligation: " + "; ".join(b.get("what", "") for b in payload.get("broken", [])))
    res = oracle("thorough", random.Random(payload.get("seed", 0) + 1), deep=True)
    same = [x for x in res["failures"] if x["site"] == f["site"]]
    return dict(fails=bool(same), site=f["site"], reproduced=same[:1])
