"""C18 -- fitting is pure: inputs untouched, no state leaks between fits."""
import math, random, json, os, copy
import numpy as np
from scipy import sparse
import solverlib as sl
import compos

GEN_SOURCES = ["extract", "skglm/estimators.py", "skglm/solvers", "skglm/utils/jit_compilation.py"]
EXTRA_TARGETS = []
TRUSTED_BASE = [
    "Coq 8.16.1 kernel (coqc); vm_compute closes the finite call-graph theorems (exhaustive over ~450 functions, bound stated)",
    "no axioms",
    "tools/extract.py write-set analysis: syntactic stores (subscript / slice / augmented / attribute), local aliases and views "
    "(x = p, x = p[...], p.T, check_array / asarray / asfortranarray pass-through), closure under calls resolved by simple name "
    "(methods: union over classes); aliasing created inside numpy / scipy / sklearn beyond these pass-throughs is not modelled",
]
ASSUMPTIONS = [
    "history independence (a fit depends only on its arguments; refit always possible; jitclass cache holds classes not instances): "
    "decided by the byte-compare / fresh-object oracle on the implementation (partial)",
]
RULE = ("correspondence: the extracted write sets vs observed mutation: every solver composition of tools/compos.py and every estimator is run "
        "with byte-copies of X, y, weights, groups, sample weights taken before and compared after (a write the analysis missed = disagreement); "
        "oracle: interleaved fit histories (same estimator twice, after fits on other data / other estimators sharing datafit and penalty "
        "classes, after set_params) vs a fresh object: identical coef_ / intercept_; non-trivial = history of length >= 2")


def _snap(*arrs):
    out = []
    for a in arrs:
        if a is None:
            out.append(None)
        elif sparse.issparse(a):
            out.append((a.data.tobytes(), a.indices.tobytes(), a.indptr.tobytes()))
        else:
            out.append(np.asarray(a).tobytes())
    return out


def correspondence(tier, rng):
    """write-set table vs observed mutation of protected inputs"""
    bad, cases = [], 0
    for spec in compos.menu(rng):
        for sp_ in (False, True):
            if sp_ and spec["solver"] in ("ProxNewton", "GroupProxNewton") and spec["datafit"] in ("Gamma",):
                continue
            try:
                solver, Xin, target, df, pen, DP, PP, fi = compos.build(spec, sp_)
                arrays = [Xin, target] + [v for v in list(DP.values()) + list(PP.values()) if isinstance(v, np.ndarray)]
                before = _snap(*arrays)
                dfc = None if spec["solver"] == "GramCD" else sl.cc(df)
                if dfc is not None and spec["solver"] in ("ProxNewton", "FISTA", "GroupProxNewton") and hasattr(dfc, "initialize"):
                    (dfc.initialize_sparse(Xin.data, Xin.indptr, Xin.indices, target) if sp_ and hasattr(dfc, "initialize_sparse")
                     else dfc.initialize(Xin if not sp_ else np.asarray(Xin.todense()), target))
                solver.solve(Xin, target, dfc, sl.cc(pen))
                cases += 1
                if _snap(*arrays) != before:
                    bad.append(f"inputs mutated by {spec['solver']}/{spec['datafit']}/{spec['penalty']} sparse={sp_} although the write-set table says they are never written")
            except (ValueError, AttributeError):
                continue
    return dict(cases=cases, bad=bad[:10], errors=[], distribution=dict(compositions=cases), distinct_nontrivial=cases,
                samples=[dict(checked="byte-compare of X, y, weights, groups, sample weights around solve()")])


def oracle(tier, rng, deep=False):
    from skglm.estimators import (Lasso, WeightedLasso, ElasticNet, MCPRegression, SparseLogisticRegression, LinearSVC, GroupLasso,
                                  MultiTaskLasso, GeneralizedLinearEstimator, CoxEstimator)
    from skglm.experimental.sqrt_lasso import SqrtLasso
    import skglm.datafits as sd, skglm.penalties as sp, skglm.solvers as ss
    failures = []
    ev = nontriv = 0

    def data(kind, n=None, p=None):
        X, y = sl.make_problem(rng, n=n, p=p, kind=kind)
        return X, y

    def makers(p):
        w = np.array([rng.choice([0.5, 1.0, 2.0]) for _ in range(p)])
        return [
            ("Lasso", lambda: Lasso(alpha=0.05, tol=1e-8), "real"),
            ("WeightedLasso", lambda: WeightedLasso(alpha=0.05, weights=w.copy(), tol=1e-8), "real"),
            ("ElasticNet", lambda: ElasticNet(alpha=0.05, l1_ratio=0.6, tol=1e-8), "real"),
            ("MCPRegression", lambda: MCPRegression(alpha=0.05, gamma=3.0, tol=1e-8), "real"),
            ("SparseLogisticRegression", lambda: SparseLogisticRegression(alpha=0.05, tol=1e-8), "sign"),
            ("LinearSVC", lambda: LinearSVC(C=1.0, tol=1e-8), "sign"),
            ("GroupLasso", lambda: GroupLasso(groups=[list(range(0, p // 2)), list(range(p // 2, p))], alpha=0.05, tol=1e-8), "real"),
            ("GLE", lambda: GeneralizedLinearEstimator(sd.Quadratic(), sp.L1(0.05), ss.AndersonCD(tol=1e-8)), "real"),
            ("SqrtLasso", lambda: SqrtLasso(alpha=0.3, tol=1e-8), "real"),
        ]
    nrep = 2 if tier == "quick" and not deep else (6 if tier == "quick" else 10)   # quick + broken obligation: 3x the quick search
    for _ in range(nrep):
        p = rng.randint(3, 6)
        n = rng.randint(8, 14)
        mk = makers(p)
        for name, ctor, kind in mk:
            X, y = data(kind, n, p)
            X2, y2 = data(kind, n + 2, p + 1 if name not in ("WeightedLasso", "GroupLasso") else p)
            inp = dict(estimator=name, X=X.tolist(), y=y.tolist())
            try:
                fresh = ctor().fit(X, y)
                ref = (np.ravel(fresh.coef_).copy(), np.ravel(fresh.intercept_).copy())
                # history: other data first, another estimator sharing classes, then the target fit
                est = ctor()
                est.fit(X2, y2)
                other = rng.choice([m for m in mk if m[2] == kind and m[0] != name] or [mk[0]])
                try:
                    other[1]().fit(X2 if other[0] not in ("WeightedLasso", "GroupLasso") else X, y2 if other[0] not in ("WeightedLasso", "GroupLasso") else y)
                except Exception:
                    pass
                # ... and regularisation paths / experimental estimators that rewrite hyper-parameters of their compiled penalty
                # (penalty.alpha = ...) run in between, with the same scalar hyper-parameters as the target estimator
                Xr, yr = data("real", n + 1, p)
                grid = np.array([0.5, 0.1, 0.013])
                for disturb in (lambda: Lasso(alpha=0.05, tol=1e-8).path(Xr, yr, alphas=grid),
                                lambda: ElasticNet(alpha=0.05, l1_ratio=0.6, tol=1e-8).path(Xr, yr, alphas=grid),
                                lambda: MCPRegression(alpha=0.05, gamma=3.0, tol=1e-8).path(Xr, yr, alphas=grid),
                                lambda: SqrtLasso(alpha=0.3, tol=1e-8).path(Xr, yr, alphas=np.array([0.2, 0.1])),
                                lambda: ss.AndersonCD(tol=1e-8).path(np.asfortranarray(Xr), yr, sl.cc(sd.Quadratic()), sl.cc(sp.L1(0.05)), alphas=grid)):
                    try:
                        disturb()
                    except Exception:
                        pass
                bX, by = X.tobytes(), y.tobytes()
                est.fit(X, y)
                est.fit(X, y)
                ev += 1
                nontriv += 1
                got = (np.ravel(est.coef_), np.ravel(est.intercept_))
                if X.tobytes() != bX or y.tobytes() != by:
                    failures.append(dict(site=f"inputs-modified:{name}", input=inp, observed="X or y changed by fit"))
                elif not (np.allclose(got[0], ref[0], rtol=1e-7, atol=1e-9) and np.allclose(got[1], ref[1], rtol=1e-7, atol=1e-9)):
                    failures.append(dict(site=f"history-dependent-fit:{name}", input=inp, observed=dict(coef=got[0].tolist(), intercept=got[1].tolist()),
                                         expected=dict(coef=ref[0].tolist(), intercept=ref[1].tolist())))
                elif hasattr(est, "predict"):
                    est.predict(X)                    # a refitted estimator must be usable
                # set_params then refit = fresh object with those params
                if name in ("Lasso", "SqrtLasso", "ElasticNet"):
                    est.set_params(tol=1e-3, max_iter=1)
                    est.fit(X, y)
                    f2 = ctor().set_params(tol=1e-3, max_iter=1).fit(X, y)
                    ev += 1
                    if not np.allclose(np.ravel(est.coef_), np.ravel(f2.coef_), rtol=1e-7, atol=1e-9):
                        failures.append(dict(site=f"set_params-ignored-on-refit:{name}", input=inp, observed=np.ravel(est.coef_).tolist(), expected=np.ravel(f2.coef_).tolist()))
            except Exception as e:
                failures.append(dict(site=f"raises:{name}", input=inp, observed=f"{type(e).__name__}: {str(e)[:200]}"))
    return dict(evaluations=ev, distinct_nontrivial=nontriv, failures=failures, samples=[dict(histories=ev)])


def replay(payload):
    f = payload.get("failure")
    if not f:
        return dict(fails=False, note="unchecked obligation: " + "; ".join(b.get("what", "") for b in payload.get("broken", [])))
    res = oracle("thorough", random.Random(payload.get("seed", 0) + 1), deep=True)
    same = [x for x in res["failures"] if x["site"] == f["site"]]
    return dict(fails=bool(same), site=f["site"], reproduced=same[:1])
