"""C13 -- every composition is either refused with an explanation or solved."""
import math, random, json, os
import numpy as np
from scipy import sparse
import solverlib as sl

GEN_SOURCES = ["skglm/solvers", "skglm/datafits", "skglm/penalties", "skglm/experimental", "extract"]
EXTRA_TARGETS = []
TRUSTED_BASE = [
    "Coq 8.16.1 kernel (coqc); vm_compute closes the finite-matrix theorems (17784 cells, exhaustive, bound stated)",
    "no axioms (closed under the global context)",
    "tools/extract.py: AST extraction of class methods / attributes, solver requirements, call sites of datafit.m / penalty.m with their "
    "path conditions (sparse / dense / intercept / strategy / hasattr guards), regenerated each run; validated against hasattr on the real "
    "compiled objects and against the real BaseSolver._validate on EVERY cell",
    "numba type inference beyond attribute existence, segfaults: not modelled (sampled solves in the oracle)",
]
ASSUMPTIONS = [
    "a method missing at a call made from the Python body of _solve raises Python's AttributeError naming it (explanatory); only calls from "
    "inside njit kernels must be statically present",
    "accepted cells 'run to completion with finite values meeting the certificate': sampled solves (partial): 70 cells in the quick tier, 600 in the thorough tier (each cell compiles fresh numba classes: the full matrix takes hours)",
]
RULE = ("correspondence (exhaustive): for all 17784 cells the model of _validate over the extracted tables vs the real solver._validate on real "
        "compiled objects (refused / accepted must agree), and every extracted method table vs hasattr; oracle: accepted cells are solved on a "
        "6x4 problem (70 sampled cells in quick, 600 in thorough) and must finish with finite values or raise AttributeError / ValueError naming the "
        "missing piece; non-trivial = accepted cell")


def instances(rng, n, p, T=2):
    """name -> (datafit or penalty instance, y-kind)"""
    import skglm.datafits as sd, skglm.penalties as sp
    from skglm.penalties.non_separable import SLOPE
    from skglm.experimental.sqrt_lasso import SqrtQuadratic
    from skglm.experimental.quantile_regression import Pinball
    gp = np.array([0, 2, p], dtype=np.int32)
    gi = np.arange(p, dtype=np.int32)
    D = {
        "Quadratic": (sd.Quadratic(), "real"), "WeightedQuadratic": (sd.WeightedQuadratic(np.ones(n)), "real"), "Logistic": (sd.Logistic(), "sign"),
        "QuadraticSVC": (sd.QuadraticSVC(), "sign"), "Huber": (sd.Huber(1.0), "real"), "Poisson": (sd.Poisson(), "count"), "Gamma": (sd.Gamma(), "pos"),
        "Cox": (sd.Cox(), "surv"), "QuadraticGroup": (sd.QuadraticGroup(gp, gi), "real"), "LogisticGroup": (sd.LogisticGroup(gp, gi), "sign"),
        "QuadraticMultiTask": (sd.QuadraticMultiTask(), "multi"), "SqrtQuadratic": (SqrtQuadratic(), "real"), "Pinball": (Pinball(0.5), "real"),
    }
    a = 0.1
    P = {
        "L1": sp.L1(a), "L1_plus_L2": sp.L1_plus_L2(a, 0.5), "WeightedL1": sp.WeightedL1(a, np.ones(p)), "MCPenalty": sp.MCPenalty(a, 3.0),
        "WeightedMCPenalty": sp.WeightedMCPenalty(a, 3.0, np.ones(p)), "SCAD": sp.SCAD(a, 3.0), "IndicatorBox": sp.IndicatorBox(1.0), "L0_5": sp.L0_5(a),
        "L2_3": sp.L2_3(a), "LogSumPenalty": sp.LogSumPenalty(a, 1.0), "PositiveConstraint": sp.PositiveConstraint(), "L2": sp.L2(a),
        "L2_1": sp.L2_1(a), "L2_05": sp.L2_05(a), "BlockMCPenalty": sp.BlockMCPenalty(a, 3.0), "BlockSCAD": sp.BlockSCAD(a, 3.0),
        "WeightedGroupL2": sp.WeightedGroupL2(a, np.ones(2), gp, gi), "WeightedL1GroupL2": sp.WeightedL1GroupL2(a, np.ones(2), np.ones(p), gp, gi),
        "SLOPE": SLOPE(np.full(p, a)),
    }
    return D, P


def targets(rng, X, kind, T=2):
    n = X.shape[0]
    lin = X @ np.array([1.0, -1.0, 0.5, 0.0][: X.shape[1]])
    if kind == "real":
        return lin + 0.1 * np.arange(n)
    if kind == "sign":
        y = np.sign(lin + 0.05)
        y[0], y[1] = 1.0, -1.0
        return y
    if kind == "count":
        return np.array([float(k % 3) for k in range(n)])
    if kind == "pos":
        return np.array([1.0 + (k % 3) for k in range(n)])
    if kind == "surv":
        return np.column_stack([np.arange(1, n + 1, dtype=float), np.array([1.0, 0.0] * n)[:n]])
    return np.column_stack([lin, -lin])[:, :T]


def make_solver(name, fi, subdiff):
    import skglm.solvers as ss
    from skglm.experimental.pdcd_ws import PDCD_WS
    strat = "subdiff" if subdiff else "fixpoint"
    if name == "AndersonCD": return ss.AndersonCD(max_iter=5, max_epochs=20, fit_intercept=fi, ws_strategy=strat, tol=1e-6)
    if name == "ProxNewton": return ss.ProxNewton(max_iter=5, fit_intercept=fi, ws_strategy=strat, tol=1e-6)
    if name == "GroupBCD": return ss.GroupBCD(max_iter=5, max_epochs=20, fit_intercept=fi, ws_strategy=strat, tol=1e-6)
    if name == "GroupProxNewton": return ss.GroupProxNewton(max_iter=5, fit_intercept=fi, tol=1e-6)
    if name == "MultiTaskBCD": return ss.MultiTaskBCD(max_iter=5, max_epochs=20, fit_intercept=fi, ws_strategy=strat, tol=1e-6)
    if name == "GramCD": return ss.GramCD(max_iter=5, fit_intercept=fi, tol=1e-6)
    if name == "FISTA": return ss.FISTA(max_iter=5, opt_strategy=strat, tol=1e-6)
    if name == "LBFGS": return ss.LBFGS(max_iter=5, tol=1e-6)
    if name == "PDCD_WS": return PDCD_WS(max_iter=5, max_epochs=20, fit_intercept=fi, tol=1e-6)


def model_validate(tab, s, d, pn, sp_, subdiff):
    S, D, P = tab["solvers"][s], tab["datafits"][d], tab["penalties"][pn]
    has = lambda c, a: a in c["methods"] or a in c["attrs"]
    alt = lambda c, alts, suf: any(has(c, a + suf) for a in alts.split("|"))
    if S["requires_no_datafit"]: return "refused"
    if S["refuses_sparse"] and sp_: return "refused"
    if S.get("refuses_group_datafit") and has(D, "grp_ptr"): return "refused"
    if S["requires_groups"] and not all(has(c, a) for c in (D, P) for a in ("grp_ptr", "grp_indices")): return "refused"
    if S["checks_sparse_suffix"] and sp_ and not all(alt(D, a, "_sparse") for a in S["req_datafit"]): return "refused"
    if S["checks_subdiff"] and subdiff and not has(P, "subdiff_distance"): return "refused"
    if not all(alt(D, a, "") for a in S["req_datafit"]): return "refused"
    if not all(alt(P, a, "") for a in S["req_penalty"]): return "refused"
    return "accepted"


def correspondence(tier, rng):
    tab = json.load(open(os.path.join(os.path.dirname(os.path.dirname(os.path.abspath(__file__))), "..", "coq", "Gen", "tables.json")))
    n, p = 6, 4
    X = np.asfortranarray(np.array([[((i * 7 + j * 3) % 5 - 2) / 2 for j in range(p)] for i in range(n)]))
    Xs = sparse.csc_matrix(X)
    D, P = instances(rng, n, p)
    bad, cases = [], 0
    # (a) method tables vs hasattr on the real compiled objects
    for name, (inst, _) in D.items():
        obj = sl.cc(inst)
        for m in tab["datafits"][name]["methods"]:
            cases += 1
            if not m.startswith("__") and not hasattr(obj, m):
                bad.append(f"table says {name}.{m} exists, hasattr says no")
    for name, inst in P.items():
        obj = sl.cc(inst)
        for m in tab["penalties"][name]["methods"]:
            cases += 1
            if not m.startswith("__") and not hasattr(obj, m):
                bad.append(f"table says {name}.{m} exists, hasattr says no")
    # (b) the model of _validate vs the real _validate, on every (solver, datafit, penalty, storage, strategy)
    cd = {k: sl.cc(v[0]) for k, v in D.items()}
    cp = {k: sl.cc(v) for k, v in P.items()}
    for s in tab["solvers"]:
        for d in D:
            y = targets(rng, X, D[d][1])
            for pn in P:
                for sp_ in (False, True):
                    for subdiff in (True, False):
                        cases += 1
                        solver = make_solver(s, False, subdiff)
                        try:
                            solver._validate(Xs if sp_ else X, y, cd[d], cp[pn])
                            real = "accepted"
                        except (AttributeError, ValueError):
                            real = "refused"
                        mod = model_validate(tab, s, d, pn, sp_, subdiff)
                        if mod != real:
                            bad.append(f"_validate {s}/{d}/{pn}/{'csc' if sp_ else 'dense'}/{'subdiff' if subdiff else 'fixpoint'}: model {mod}, implementation {real}")
    return dict(cases=cases, bad=bad[:20], errors=[], distribution=dict(validate_cells=cases), distinct_nontrivial=cases, exhaustive=True,
                samples=[dict(cell="AndersonCD/Quadratic/L1/dense/subdiff", model=model_validate(tab, "AndersonCD", "Quadratic", "L1", False, True))])


def oracle(tier, rng, deep=False):
    tab = json.load(open(os.path.join(os.path.dirname(os.path.dirname(os.path.abspath(__file__))), "..", "coq", "Gen", "tables.json")))
    n, p = 6, 4
    X = np.asfortranarray(np.array([[((i * 7 + j * 3) % 5 - 2) / 2 + 0.1 * ((i + j) % 3) for j in range(p)] for i in range(n)]))
    Xs = sparse.csc_matrix(X)
    D, P = instances(rng, n, p)
    cells = [(s, d, pn, sp_, fi, sd) for s in tab["solvers"] for d in D for pn in P for sp_ in (False, True) for fi in (False, True) for sd in (True, False)
             if model_validate(tab, s, d, pn, sp_, sd) == "accepted"]
    # every cell compiles fresh numba classes (~2 s): the full matrix of accepted cells takes hours, so both tiers sample it
    all_cells = cells
    cells = rng.sample(all_cells, min(len(all_cells), (70 if not deep else 250) if tier == "quick" else 600))
    # plus one cell of every accepted (solver, datafit) pair and of every accepted (solver, penalty) pair: shape mismatches
    # between a solver and a component (per-group vs per-feature constants, ...) live in those interactions, and a uniform
    # sample of 70 cells can miss a whole pair (it did: AndersonCD x block-separable datafits, see DESIGN I.5)
    strata = {}
    for c in all_cells:
        strata.setdefault(("d", c[0], c[1]), []).append(c)
        strata.setdefault(("p", c[0], c[2]), []).append(c)
    extra = [rng.choice(v) for _, v in sorted(strata.items())]
    if tier == "quick" and not deep:
        extra = [rng.choice(v) for k, v in sorted(strata.items()) if k[0] == "d"] + rng.sample(extra, min(len(extra), 20))
    seen = set(cells)
    cells = cells + [c for c in extra if c not in seen]
    failures = []
    ev = 0
    EXPL = ("not compatible", "must implement", "Missing", "positive values", "not supported", "Sparse matrices", "should", "must be", "has no attribute",
            "SmallResidual", "Unknown", "expected")
    for (s, d, pn, sp_, fi, sd) in cells:
        y = targets(rng, X, D[d][1])
        site = f"{s}:{d}:{pn}"
        inp = dict(solver=s, datafit=d, penalty=pn, sparse=sp_, fit_intercept=fi, subdiff=sd)
        try:
            df = sl.cc(D[d][0])
            Xin = Xs if sp_ else X
            if hasattr(df, "initialize"):
                (df.initialize_sparse(Xs.data, Xs.indptr, Xs.indices, y) if sp_ and hasattr(df, "initialize_sparse") else df.initialize(X, y))
            solver = make_solver(s, fi, sd)
            w, objs, stop = solver.solve(Xin, y, None if s == "GramCD" else df, sl.cc(P[pn]))
            ev += 1
            if not (np.all(np.isfinite(np.asarray(w, dtype=float))) and not math.isnan(float(stop))):
                failures.append(dict(site=f"nonfinite:{site}", input=inp, observed=dict(w=np.asarray(w, dtype=float).tolist(), stop=float(stop))))
        except (AttributeError, ValueError) as e:
            ev += 1
            if not any(t in str(e) for t in EXPL):
                failures.append(dict(site=f"unexplained-error:{site}", input=inp, observed=f"{type(e).__name__}: {str(e)[:200]}"))
        except Exception as e:
            ev += 1
            failures.append(dict(site=f"compiled-code-error:{s}:{d if 'datafit' in str(e)[:400] or True else ''}:{pn}", input=inp, observed=f"{type(e).__name__}: {str(e)[:200]}"))
    # histories on ONE solver object: a composition accepted for dense X and refused for CSC must still be refused (with an
    # explanation) when the same solver object has just solved the dense problem -- validation happens on every call
    flips = [(s, d, pn, fi, sd) for s in tab["solvers"] for d in D for pn in P for fi in (False,) for sd in (True, False)
             if model_validate(tab, s, d, pn, False, sd) == "accepted" and model_validate(tab, s, d, pn, True, sd) == "refused"]
    if flips:
        for (s, d, pn, fi, sd) in rng.sample(flips, min(len(flips), (10 if not deep else 40) if tier == "quick" else 120)):
            y = targets(rng, X, D[d][1])
            site = f"{s}:{d}:{pn}"
            inp = dict(solver=s, datafit=d, penalty=pn, history=["dense", "csc"], subdiff=sd)
            solver = make_solver(s, fi, sd)
            try:
                df = sl.cc(D[d][0])
                if hasattr(df, "initialize"):
                    df.initialize(X, y)
                solver.solve(X, y, None if s == "GramCD" else df, sl.cc(P[pn]))
            except Exception:
                continue                      # the dense solve itself is the business of the loop above
            ev += 1
            try:
                solver.solve(Xs, y, None if s == "GramCD" else df, sl.cc(P[pn]))
                failures.append(dict(site=f"unsupported-storage-not-refused-after-reuse:{site}", input=inp, observed="second solve (CSC) returned"))
            except (AttributeError, ValueError) as e:
                if not any(t in str(e) for t in EXPL):
                    failures.append(dict(site=f"unexplained-error-after-reuse:{site}", input=inp, observed=f"{type(e).__name__}: {str(e)[:200]}"))
            except Exception as e:
                failures.append(dict(site=f"compiled-code-error-after-reuse:{s}", input=inp, observed=f"{type(e).__name__}: {str(e)[:200]}"))
    return dict(evaluations=ev, distinct_nontrivial=ev, failures=failures, samples=[dict(accepted_cells_solved=ev)])


def replay(payload):
    f = payload.get("failure")
    if not f:
        return dict(fails=False, note="unchecked obligation: " + "; ".join(b.get("what", "") for b in payload.get("broken", [])))
    res = oracle("thorough", random.Random(payload.get("seed", 0) + 1), deep=True)
    same = [x for x in res["failures"] if x["site"] == f["site"]]
    return dict(fails=bool(same), site=f["site"], reproduced=same[:1])
