"""C19 -- degenerate data is handled: null columns get zero, nothing blows up."""
import math, random
import numpy as np
from scipy import sparse
import kernels, tvlib
import solverlib as sl
import compos

GEN_SOURCES = ["skglm/solvers/anderson_cd.py", "skglm/datafits/single_task.py", "skglm/penalties/separable.py", "skglm/solvers/group_bcd.py", "skglm/datafits/group.py"]
EXTRA_TARGETS = ["Gen/KernCD.vo", "Gen/KernACD.vo", "Gen/DfSingle.vo", "Gen/PenSeparable.vo", "Gen/KernBCD.vo", "Gen/DfGroup.vo", "Gen/PenBlock.vo"]
TRUSTED_BASE = [
    "Coq 8.16.1 kernel (coqc); vm_compute only in correspondence files",
    "axioms: Reals (sig_forall_dec, sig_not_dec), functional_extensionality_dep, Classical_Prop.classic",
    "translator (epoch / gradient / prox kernels regenerated each run); error monad: scalar division by zero, sqrt / log domain, "
    "out-of-range index are Err, never a default value",
    "termination: every loop of the model is structural on its budget (no fuel except the log-sum bisection)",
]
ASSUMPTIONS = [
    "proved for the dense CD epoch (any total prox / gradient), the Quadratic gradient, L1-type prox at 0; block / multitask / Gram / "
    "prox-Newton kernels and solver-level outcomes on degenerate data: implementation oracle (partial)",
]
RULE = ("correspondence: real epoch / gradient kernels on inputs with zero columns vs regenerated Gallina; oracle: every composition of "
        "tools/compos.py on data with all-zero columns / groups, duplicated and constant columns, p > n, one feature, constant or zero "
        "targets, scales 1e-6..1e6: finite outputs, exactly zero penalised coefficient on all-zero columns, or an explanatory "
        "ValueError; non-trivial = degenerate structure actually present")


def correspondence(tier, rng):
    kc = kernels.gen_cd_kernels(rng, 120 if tier == "quick" else 800)
    r = tvlib.run_cases(kc, ["Gen.ProxFuncs", "Gen.PenSeparable", "Gen.SparseOps", "Gen.DfSingle", "Gen.KernCD", "Gen.KernACD"], "C19", shard=25, jobs=16)
    nz = sum(1 for c in kc if "0.0, 0.0" in c[0])
    base = dict(cases=len(kc), bad=r["bad"][:10], errors=r["errors"], distribution=dict(kernel_cases=len(kc), with_zero_entries=nz),
                distinct_nontrivial=len({c[0] for c in kc}), samples=[dict(case=kc[0][0][:300])])
    return kernels.add_bcd_kernel_corr(base, rng, 140 if tier == "quick" else 840, "C19k")


def degenerate(rng, X, y, ykind, kind=None):
    n, p = X.shape
    kind = kind or rng.choice(["zero-col", "dup-col", "const-col", "p>n", "one-feature", "const-y", "zero-y", "scales", "zero-sum-cols", "const+contrasts"])
    X = X.copy()
    if kind == "zero-col":
        X[:, rng.randrange(p)] = 0.0
        if p > 2 and rng.random() < 0.5:
            X[:, :2] = 0.0
    elif kind == "dup-col" and p > 1:
        X[:, 1] = X[:, 0]
    elif kind == "const-col":
        X[:, 0] = 1.0
    elif kind == "p>n":
        X = X[: max(2, p // 2)]
        y = y[: X.shape[0]]
    elif kind == "one-feature":
        X = X[:, :1]
    elif kind == "const-y" and ykind == "real":
        y = np.full_like(y, 3.0)
    elif kind == "zero-y" and ykind == "real":
        y = np.zeros_like(y)
    elif kind in ("zero-sum-cols", "const+contrasts"):
        # balanced +-c contrast columns (every column sums to zero); optionally an intercept-like constant column in front
        for j in range(p):
            idx = list(range(n)); rng.shuffle(idx)
            c = rng.choice([1.0, 30.0, 40.0]) if kind == "const+contrasts" else 1.0
            X[:, j] = 0.0
            X[idx[: n // 2], j] = c
            X[idx[n // 2: 2 * (n // 2)], j] = -c
        if kind == "const+contrasts":
            X[:, 0] = 1.0
    elif kind == "scales":
        X = X * np.array([10.0 ** rng.choice([-6, -3, 0, 3, 6]) for _ in range(p)])
    if ykind == "sign" and len(set(y)) < 2:
        y[0] = -y[0]
    return X, y


def oracle(tier, rng, deep=False):
    failures, samples = [], []
    ev = nontriv = 0
    nrep = 2 if tier == "quick" and not deep else (6 if tier == "quick" else 12)   # quick + broken obligation: 3x the quick search
    sparse_ok = ("AndersonCD", "GroupBCD", "MultiTaskBCD", "GramCD", "FISTA", "ProxNewton")

    def specs():
        for _ in range(nrep):
            for spec in compos.menu(rng, degenerate):
                yield spec, None
        # targeted pass: every composition that accepts CSC input, on a design whose all-zero column is STORED (explicit zeros,
        # as zeroing a column of a CSC matrix in place leaves it; compos.build stores them for even seeds), cold, dense then CSC
        for spec in compos.menu(rng, lambda r, X_, y_, k_: degenerate(r, X_, y_, k_, kind="zero-col")):
            if spec["solver"] in sparse_ok:
                yield dict(spec, seed=spec["seed"] - spec["seed"] % 2), [(False, False), (True, False)]

    for spec, forced in specs():
        if True:
            X = np.array(spec["X"])
            variants = forced or [(sp_, wm_) for sp_ in ([False, True] if spec["solver"] in ("AndersonCD", "GroupBCD", "MultiTaskBCD", "GramCD", "FISTA", "ProxNewton") else [False])
                        for wm_ in ([False, True] if spec["solver"] in ("AndersonCD", "ProxNewton", "GroupBCD", "GramCD", "MultiTaskBCD") else [False])]
            by_variant = {}
            for sp_, wm_ in variants:
                if sp_ and spec["datafit"] == "Logistic" and spec["penalty"] == "WeightedGroupL2":
                    continue
                site = f"{spec['solver']}:{spec['datafit']}:{spec['penalty']}" + (":warm" if wm_ else "")
                inp = {k: v for k, v in spec.items()}
                inp["sparse"] = sp_
                inp["warm"] = wm_
                try:
                    out = compos.run_composition(spec, sp_, wm_)
                except ValueError as e:
                    msg = str(e)
                    if any(t in msg for t in ("positive values", "SmallResidual", "should", "must", "not supported", "Sparse matrices")):
                        continue                      # explanatory refusal
                    failures.append(dict(site=f"raises:{site}", input=inp, observed=repr(e)[:300]))
                    continue
                except AttributeError as e:
                    if "not compatible" in str(e) or "must implement" in str(e) or "Missing" in str(e):
                        continue
                    failures.append(dict(site=f"raises:{site}", input=inp, observed=repr(e)[:300]))
                    continue
                except Exception as e:
                    failures.append(dict(site=f"raises:{site}", input=inp, observed=repr(e)[:300]))
                    continue
                ev += 1
                nontriv += 1
                w = np.asarray(out["w"], dtype=float)
                # AndersonCD treats all-zero columns identically in dense and CSC storage: where the dense run converged with zero
                # coefficients on them, so must the CSC run with the same budget (convex penalties; other coefficients may differ
                # when the minimiser is not unique)
                if spec["solver"] == "AndersonCD" and spec["penalty"] in ("L1", "L1_plus_L2"):
                    zc = [j for j in range(X.shape[1]) if not np.any(X[:, j])]
                    by_variant[(sp_, wm_)] = (w, out["stop"])
                    dn, cs_ = by_variant.get((False, wm_)), by_variant.get((True, wm_))
                    if sp_ and dn is not None and cs_ is not None and zc and dn[1] <= spec["tol"] and np.all(dn[0][zc] == 0) \
                            and np.any(np.abs(cs_[0][zc]) > 1e-6):
                        failures.append(dict(site=f"null-column-dense-vs-csc:{site}", input=inp, observed=cs_[0].tolist(), expected=dn[0].tolist()))
                if not (np.all(np.isfinite(w)) and np.all(np.isfinite(out["objs"])) and not math.isnan(out["stop"])):
                    failures.append(dict(site=f"nonfinite:{site}", input=inp, observed=out))
                    continue
                zero_cols = [j for j in range(X.shape[1]) if not np.any(X[:, j])]
                wc = w if w.ndim == 1 else w
                pfeat = X.shape[1]
                coef = w[:pfeat]
                pen_zero_weight = spec["penalty"] in ("WeightedL1",)       # zero-weight features are unpenalised: exempt
                bad = [j for j in zero_cols if np.any(coef[j] != 0)]
                if wm_:
                    # warm start that is non-zero on a null column (an extension of the property, which is about cold fits): it may
                    # legitimately be returned unconverged (budget); a converged run is only within tol of zero; and for the non-convex
                    # penalties a non-zero coefficient on a null column can be stationary (flat part of MCP / SCAD)
                    if not out["stop"] <= spec["tol"] or spec["penalty"] in ("MCPenalty", "WeightedMCPenalty", "SCAD"):
                        bad = []
                    else:
                        bad = [j for j in zero_cols if np.any(np.abs(coef[j]) > 1e-6)]
                if bad and not pen_zero_weight:
                    failures.append(dict(site=f"nonzero-on-null-column:{site}", input=inp, observed=dict(w=w.tolist(), columns=bad)))
    return dict(evaluations=ev, distinct_nontrivial=nontriv, failures=failures, samples=[dict(runs=ev)])


def replay(payload):
    f = payload.get("failure")
    if not f:
        return dict(fails=False, note="unchecked obligation: " + "; ".join(b.get("what", "") for b in payload.get("broken", [])))
    res = oracle("thorough", random.Random(payload.get("seed", 0) + 1), deep=True)
    same = [x for x in res["failures"] if x["site"] == f["site"]]
    return dict(fails=bool(same), site=f["site"], reproduced=same[:1])
