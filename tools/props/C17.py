"""C17 -- reported diagnostics (objective history, stop_crit, n_iter_) describe the run that happened."""
import math, random
import numpy as np
from scipy import sparse
import tvlib, harness_acd, harness_solvers
import solverlib as sl

GEN_SOURCES = ["skglm/solvers/gram_cd.py"]
EXTRA_TARGETS = ["Skel/MockACD.vo", "Skel/CorrSolvers.vo", "Skel/GramCDProofs.vo", "Skel/GroupBCDProofs.vo", "Skel/ProxNewtonProofs.vo", "Skel/FistaProofs.vo", "Skel/GramCDAnderson.vo", "Skel/MultiTaskBCDProofs.vo", "Skel/GroupProxNewton.vo"]
TRUSTED_BASE = [
    "Coq 8.16.1 kernel (coqc); vm_compute only in correspondence files",
    "no axioms (theorems over an abstract Num type and lists)",
    "hand-written skeleton coq/Skel/AndersonCD.v tied by executed correspondence with the real AndersonCD._solve on mock kernels",
    "tools/solverlib.py / speclib.py documented objective formulas (implementation-side oracle)",
]
ASSUMPTIONS = ["skeletons of GramCD, GroupBCD, ProxNewton, FISTA are hand-written and tied by executed correspondence (every history entry compared); "
               "GroupProxNewton, MultiTaskBCD, LBFGS and estimator n_iter_: decided by the prefix-run oracle on the implementation (partial)"]
RULE = ("correspondence: real AndersonCD._solve vs skeleton on mock kernels (every history entry, stop_crit, #iterations, #epochs compared); "
        "oracle: for budgets k = 1..K the history of the k-budget run has min(k, iterations-to-converge) entries, is a prefix of the "
        "(k+1)-budget history, and its last entry is the documented objective recomputed from (X, y, w, b) of the returned point; "
        "non-trivial = run with >= 2 outer iterations")


def correspondence(tier, rng):
    n = 400 if tier == "quick" else 3000
    cases, dist = harness_acd.make_cases(rng, n)
    r1 = tvlib.run_cases(cases, ["Skel.AndersonCD", "Skel.MockACD"], "C17a", shard=12, jobs=16)
    base = dict(cases=len(cases), bad=r1["bad"][:10], errors=r1["errors"], distribution=dist,
                distinct_nontrivial=sum(1 for c in cases if "'iters': 0" not in c[0]),
                samples=[dict(trace=cases[0][0][:600])])
    return harness_solvers.merge_corr(base, harness_solvers.solver_corr(tier, rng, "C17s"))


def _runs(rng):
    """yield (label, runner(max_iter) -> (w, b, objs, stop), true_objective(w, b), tol)"""
    import skglm.datafits as sd, skglm.penalties as sp, skglm.solvers as ss
    kind = rng.choice(["AndersonCD", "ProxNewton", "GramCD", "GroupBCD", "GroupProxNewton", "MultiTaskBCD", "FISTA", "LBFGS"])
    fi = rng.random() < 0.5
    tol = rng.choice([1e-2, 1e-4, 1e-7])
    if kind in ("AndersonCD", "ProxNewton", "GramCD", "FISTA"):
        dname = "Quadratic" if kind in ("GramCD", "FISTA") else rng.choice(["Quadratic", "Logistic"] if kind == "AndersonCD" else ["Logistic", "Poisson"])
        ctor, ykind, pgen = sl.DATAFITS[dname]
        X, y = sl.make_problem(rng, kind=ykind)
        n, p = X.shape
        if kind in ("GramCD", "FISTA"):
            fi = False
        amax, _ = sl.alpha_max(dname, {}, X, y, fi)
        alpha = amax * rng.choice([0.05, 0.3])
        pk = rng.choice(["L1", "L1_plus_L2", "MCPenalty"] if dname == "Quadratic" else ["L1", "L1_plus_L2"])
        pos = rng.random() < 0.3 and pk != "MCPenalty"
        pen, PP = sl.make_penalty(pk, rng, p, alpha, pos)
        knobs = dict(tol=tol)
        if kind != "FISTA" and kind != "GramCD":
            knobs["fit_intercept"] = fi
        if kind == "AndersonCD":
            knobs.update(max_epochs=rng.choice([3, 7, 50]), p0=rng.choice([1, 10]))
        if kind == "GramCD":
            knobs.update(use_acc=rng.random() < 0.5, greedy_cd=rng.random() < 0.5)
        Xs = sparse.csc_matrix(X) if rng.random() < 0.3 else np.asfortranarray(X)

        def runner(k):
            df = None if kind == "GramCD" else sl.cc(ctor({}))
            if df is not None and kind in ("ProxNewton", "FISTA") and hasattr(df, "initialize"):
                df.initialize(X, y)
            return sl.run(getattr(ss, kind)(max_iter=k, **knobs), Xs, y, df, sl.cc(pen))
        viol = (lambda w, b: sl.kkt_violation(dname, {}, pk, PP, X, y, w, b, fi)[0])
        return f"{kind}:{dname}:{pk}", runner, (lambda w, b: sl.objective(dname, {}, pk, PP, X, y, w, b)), tol, dict(viol=viol, knobs=knobs, X=X.tolist(), y=y.tolist(), alpha=alpha, PP={k: (np.asarray(v).tolist()) for k, v in PP.items()})
    if kind == "LBFGS":
        X, y = sl.make_problem(rng, kind="sign")
        n, p = X.shape
        alpha = rng.choice([0.1, 1.0])

        def runner(k):
            w, objs, stop = ss.LBFGS(max_iter=k, tol=tol).solve(np.asfortranarray(X), y, sl.cc(sd.Logistic()), sl.cc(sp.L2(alpha)))
            return np.asarray(w), 0.0, np.asarray(objs), float(stop)
        return "LBFGS:Logistic:L2", runner, (lambda w, b: sl.objective("Logistic", {}, "L2", dict(alpha=alpha), X, y, w, b)), tol, dict(X=X.tolist(), y=y.tolist(), alpha=alpha)
    if kind == "MultiTaskBCD":
        X, _ = sl.make_problem(rng)
        n, p = X.shape
        T = rng.randint(1, 3)
        Y = X @ np.array([[rng.gauss(0, 1) for _ in range(T)] for _ in range(p)]) + rng.choice([0.0, 2.0])
        alpha = float(np.max(np.linalg.norm(X.T @ Y, axis=1))) / n * rng.choice([0.05, 0.3])
        knobs = dict(tol=tol, fit_intercept=fi, max_epochs=rng.choice([4, 12, 100]), p0=rng.choice([1, 10]), use_acc=rng.random() < 0.5)

        def runner(k):
            W, objs, stop = ss.MultiTaskBCD(max_iter=k, **knobs).solve(np.asfortranarray(X), np.asfortranarray(Y), sl.cc(sd.QuadraticMultiTask()), sl.cc(sp.L2_1(alpha)))
            W = np.asarray(W)
            return (W[:p], W[-1] if fi else 0.0, np.asarray(objs), float(stop))
        return "MultiTaskBCD", runner, (lambda W, b: sl.mtl_objective(X, Y, W, b, alpha)), tol, dict(knobs=knobs, X=X.tolist(), Y=Y.tolist(), alpha=alpha)
    # group solvers
    dname = rng.choice(["Quadratic", "Logistic"]) if kind == "GroupBCD" else "Logistic"
    X, y = sl.make_problem(rng, kind="real" if dname == "Quadratic" else "sign")
    n, p = X.shape
    grp_ptr, grp_indices = sl.make_groups(rng, p)
    weights = np.array([rng.choice([0.5, 1.0, 2.0]) for _ in range(len(grp_ptr) - 1)])
    amax, _ = sl.alpha_max(dname, {}, X, y, fi)
    alpha = amax * rng.choice([0.05, 0.3])
    pos = rng.random() < 0.3
    knobs = dict(tol=tol, fit_intercept=fi, p0=rng.choice([1, 10]))
    if kind == "GroupBCD":
        knobs["max_epochs"] = rng.choice([5, 7, 100])
    PP = dict(alpha=alpha, weights=weights, grp_ptr=grp_ptr, grp_indices=grp_indices)

    def runner(k):
        return sl.run_group(kind, rng, np.asfortranarray(X), y, dname, grp_ptr, grp_indices, alpha, weights, pos, dict(knobs, max_iter=k))
    return f"{kind}:{dname}{'+pos' if pos else ''}", runner, (lambda w, b: sl.objective(dname, {}, "WeightedGroupL2", PP, X, y, w, b)), tol, dict(knobs=knobs, X=X.tolist(), y=y.tolist(), alpha=alpha, grp_ptr=grp_ptr.tolist(), grp_indices=grp_indices.tolist(), weights=weights.tolist(), positive=pos)


def oracle(tier, rng, deep=False):
    failures, samples = [], []
    ev = nontriv = 0
    nrep = 24 if tier == "quick" and not deep else (72 if tier == "quick" else 150)   # quick + broken obligation: 3x the quick search
    for _ in range(nrep):
        label, runner, trueobj, tol, inp = _runs(rng)
        sname = label.split(":")[0]
        prev = None
        try:
            for k in [1, 2, 3, 5]:
                w, b, objs, stop = runner(k)
                ev += 1
                objs = np.asarray(objs, dtype=float)
                site = None
                if len(objs) > k:
                    site, obs = f"history-longer-than-budget:{sname}", dict(k=k, n=len(objs))
                elif stop > tol and len(objs) != k and sname not in ("LBFGS",):
                    site, obs = f"history-length:{sname}", dict(k=k, n=len(objs), stop=stop, tol=tol)
                elif len(objs) and sname != "FISTA" or (len(objs) and sname == "FISTA"):
                    t = trueobj(w, b)
                    if not abs(objs[-1] - t) <= 1e-7 * (1 + abs(t)):
                        site, obs = f"last-entry-not-objective:{sname}", dict(k=k, last=float(objs[-1]), true=float(t), stop=stop)
                if site is None and stop <= tol and "viol" in inp and k > 0:
                    v = inp["viol"](w, b)
                    if not abs(v - stop) <= 1e-4 * (1 + abs(v)) + 1e-9:
                        extra = ":Logistic+intercept" if ("Logistic" in label and inp.get("knobs", {}).get("fit_intercept")) else ""
                        site, obs = f"stop-not-violation-of-returned-point:{sname}{extra}", dict(k=k, stop=stop, recomputed=v, tol=tol)
                if site is None and prev is not None and len(objs) >= len(prev) and sname not in ("LBFGS",):
                    if not np.allclose(objs[:len(prev)], prev, rtol=1e-9, atol=1e-12):
                        site, obs = f"history-not-prefix:{sname}", dict(k=k, prev=prev.tolist(), now=objs.tolist())
                if site:
                    failures.append(dict(site=site, input=dict({kk: vv for kk, vv in inp.items() if kk != 'viol'}, label=label), observed=obs))
                    break
                prev = objs
                if len(objs) >= 2:
                    nontriv += 1
                if stop <= tol:
                    break
            if len(samples) < 3 and prev is not None and len(prev) >= 2:
                samples.append(dict(run=label, history=prev.tolist()))
        except (AttributeError, ValueError) as e:
            if "not compatible" in str(e) or "must implement" in str(e) or "Missing" in str(e):
                continue
            failures.append(dict(site=f"raises:{sname}", input=dict({kk: vv for kk, vv in inp.items() if kk != 'viol'}, label=label), observed=repr(e)[:300]))
        except Exception as e:
            failures.append(dict(site=f"raises:{sname}", input=dict({kk: vv for kk, vv in inp.items() if kk != 'viol'}, label=label), observed=repr(e)[:300]))
    return dict(evaluations=ev, distinct_nontrivial=nontriv, failures=failures, samples=samples)


def replay(payload):
    f = payload.get("failure")
    if not f:
        return dict(fails=False, note="unchecked obligation: " + "; ".join(b.get("what", "") for b in payload.get("broken", [])))
    res = oracle("thorough", random.Random(payload.get("seed", 0) + 1), deep=True)
    same = [x for x in res["failures"] if x["site"] == f["site"]]
    return dict(fails=bool(same), site=f["site"], reproduced=same[:1])
