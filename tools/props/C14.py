"""C14 -- general components reduce to the simpler ones they generalise."""
import math, random
import numpy as np
import kernels, tvlib
import solverlib as sl

GEN_SOURCES = ["skglm/penalties/separable.py", "skglm/utils/prox_funcs.py", "skglm/datafits/single_task.py"]
EXTRA_TARGETS = ["Gen/ProxFuncs.vo", "Gen/PenSeparable.vo", "Gen/PenBlock.vo", "Gen/DfSingle.vo", "Gen/SparseOps.vo"]
TRUSTED_BASE = [
    "Coq 8.16.1 kernel (coqc); vm_compute only in correspondence files",
    "axioms: Reals (sig_forall_dec, sig_not_dec), functional_extensionality_dep, Classical_Prop.classic",
    "translator tools/py2coq.py + signature table (model regenerated from source each run); Base/* meaning of numpy ops",
    "real-number reading of float code",
]
ASSUMPTIONS = [
    "proved pairs: WeightedL1(1) = L1 (prox, value), l1_ratio=1 = L1 (prox, value), WeightedMCP(1) = MCP (prox), singleton BST = ST, "
    "unit sample weights = Quadratic (value); the remaining listed pairs (one task, SLOPE, large gamma / delta, replicated rows, "
    "Efron vs Breslow, GramCD vs CD, estimator vs GeneralizedLinearEstimator) are decided by the paired-run oracle (partial)",
]
RULE = ("correspondence: regenerated kernels vs real compiled objects on dyadic grids; oracle: every listed (general, special) pair "
        "on random inputs through the real objects, equality to 1e-10 for values / prox / gradients and 10*tol for solver solutions; "
        "non-trivial = pair evaluated at a point where the special component is non-zero")


def correspondence(tier, rng):
    n = 100 if tier == "quick" else 600
    cases = kernels.gen_prox_funcs(rng, n // 2) + kernels.gen_penalties(rng, n) + kernels.gen_blocks(rng, n // 2) + kernels.gen_datafits(rng, n // 2)
    r = tvlib.run_cases(cases, ["Gen.ProxFuncs", "Gen.PenSeparable", "Gen.PenBlock", "Gen.SparseOps", "Gen.DfSingle"], "C14", shard=60, jobs=16)
    dist = {}
    for lab, *_ in cases:
        k = lab.split("(")[0]
        dist[k] = dist.get(k, 0) + 1
    return dict(cases=len(cases), bad=r["bad"][:10], errors=r["errors"], distribution=dist, distinct_nontrivial=len({c[0] for c in cases}),
                samples=[dict(case=c[0][:300]) for c in cases[:2]])


def oracle(tier, rng, deep=False):
    import skglm.penalties as sp, skglm.datafits as sd, skglm.solvers as ss
    from skglm.penalties.non_separable import SLOPE
    cc = sl.cc
    failures, samples = [], []
    ev = nontriv = 0
    V = [k / 8 for k in range(-24, 25)]

    def cmp(site, a, b, inp, tol=1e-10):
        nonlocal ev, nontriv
        ev += 1
        a, b = np.asarray(a, dtype=float), np.asarray(b, dtype=float)
        if np.any(b != 0):
            nontriv += 1
        if a.shape != b.shape or not np.allclose(a, b, rtol=tol, atol=tol, equal_nan=False):
            failures.append(dict(site=site, input=inp, observed=a.tolist(), expected=b.tolist()))

    def cmpf(site, fa, fb, inp):
        try:
            a_, b_ = fa(), fb()
        except Exception as e:
            failures.append(dict(site=site + ":raises", input=inp, observed=repr(e)[:200]))
            return
        cmp(site, a_, b_, inp)
    nrep = 8 if tier == "quick" and not deep else (24 if tier == "quick" else 60)   # quick + broken obligation: 3x the quick search
    for _ in range(nrep):
        p = rng.randint(1, 5)
        a, g = rng.choice([0.25, 0.5, 1.0]), rng.choice([3.0, 4.0])
        pos = rng.random() < 0.3
        w = np.array([rng.choice([0.0] + V) for _ in range(p)])
        ws = np.arange(p, dtype=np.int64)
        grad = np.array([rng.choice(V) for _ in range(p)])
        ones = np.ones(p)
        inp = dict(alpha=a, gamma=g, positive=pos, w=w.tolist(), grad=grad.tolist())
        l1, wl1, en = cc(sp.L1(a, pos)), cc(sp.WeightedL1(a, ones, pos)), cc(sp.L1_plus_L2(a, 1.0, pos))
        mcp, wmcp = cc(sp.MCPenalty(a, g, pos)), cc(sp.WeightedMCPenalty(a, g, ones, pos))
        for name, gen, spec in [("WeightedL1(1)=L1", wl1, l1), ("L1_plus_L2(1)=L1", en, l1), ("WeightedMCP(1)=MCP", wmcp, mcp)]:
            cmp(f"value:{name}", gen.value(w), spec.value(w), inp)
            cmp(f"subdiff:{name}", gen.subdiff_distance(w, grad, ws), spec.subdiff_distance(w, grad, ws), inp)
            for _ in range(4):
                x, s, j = rng.choice(V), rng.choice([0.25, 0.5, 1.0]), rng.randrange(p)
                cmp(f"prox:{name}", gen.prox_1d(x, s, j), spec.prox_1d(x, s, j), dict(inp, x=x, s=s, j=j))
        # singleton groups = weighted L1
        gp, gi = np.arange(p + 1, dtype=np.int32), np.arange(p, dtype=np.int32)
        wts = np.array([rng.choice([0.5, 1.0, 2.0]) for _ in range(p)])
        grp = cc(sp.WeightedGroupL2(a, wts, gp, gi, False))
        wl = cc(sp.WeightedL1(a, wts, False))
        cmp("value:singleton-groups=WeightedL1", grp.value(w), wl.value(w), inp)
        cmp("subdiff:singleton-groups=WeightedL1", grp.subdiff_distance(w, grad, ws), wl.subdiff_distance(w, grad, ws), inp)
        for j in range(p):
            x, s = rng.choice([v for v in V if v != 0]), rng.choice([0.25, 1.0])
            cmp("prox:singleton-groups=WeightedL1", grp.prox_1group(np.array([x]), s, j), [wl.prox_1d(x, s, j)], dict(inp, x=x, s=s, j=j))
        # singleton groups listed in ANY order (grp_indices a permutation), sparse-group penalty with zero group weights
        # = weighted L1 with the feature weights; with group weights too = weighted L1 with the summed weights
        perm = list(range(p)); rng.shuffle(perm)
        gi_p = np.array(perm, dtype=np.int32)
        wf = np.array([rng.choice([0.5, 1.0, 2.0, 3.0]) for _ in range(p)])
        wg0 = np.zeros(p)
        wgs = np.array([rng.choice([0.5, 1.0]) for _ in range(p)])
        sgl0 = cc(sp.WeightedL1GroupL2(a, wg0, wf, gp, gi_p))
        sgl1 = cc(sp.WeightedL1GroupL2(a, wgs, wf, gp, gi_p))
        wl_f = cc(sp.WeightedL1(a, wf, False))
        inp_s = dict(inp, grp_indices=perm, weights_features=wf.tolist(), weights_groups=wgs.tolist())
        cmp("value:permuted-singleton-groups WeightedL1GroupL2=WeightedL1", sgl0.value(w), wl_f.value(w), inp_s)
        for g_ in range(p):
            j = perm[g_]
            x, s = rng.choice([v for v in V if v != 0]), rng.choice([0.25, 1.0])
            cmpf("prox:permuted-singleton-groups WeightedL1GroupL2=WeightedL1", lambda: sgl0.prox_1group(np.array([x]), s, g_), lambda: [wl_f.prox_1d(x, s, j)],
                 dict(inp_s, x=x, s=s, g=g_, j=j))
            wsum = cc(sp.WeightedL1(a, wf + wgs[np.argsort(gi_p)], False))     # group g holds feature perm[g]: its group weight belongs to that feature
            cmpf("prox:permuted-singleton-groups WeightedL1GroupL2(+group weights)=WeightedL1(sum)", lambda: sgl1.prox_1group(np.array([x]), s, g_),
                 lambda: [wsum.prox_1d(x, s, j)], dict(inp_s, x=x, s=s, g=g_, j=j))
        grp_p = cc(sp.WeightedGroupL2(a, wts, gp, gi_p, False))
        for g_ in range(p):
            x, s = rng.choice([v for v in V if v != 0]), rng.choice([0.25, 1.0])
            wl_g = cc(sp.WeightedL1(a, np.full(p, wts[g_]), False))
            cmpf("prox:permuted-singleton-groups WeightedGroupL2=WeightedL1", lambda: grp_p.prox_1group(np.array([x]), s, g_), lambda: [wl_g.prox_1d(x, s, 0)], dict(inp_s, x=x, s=s, g=g_))
        # one task: L2_1 = L1 (rows of length 1), QuadraticMultiTask = Quadratic
        l21 = cc(sp.L2_1(a))
        l1n = cc(sp.L1(a, False))
        W = w.reshape(-1, 1)
        cmp("value:one-task L2_1=L1", l21.value(W), l1n.value(w), inp)
        cmp("subdiff:one-task L2_1=L1", l21.subdiff_distance(W, grad.reshape(-1, 1), ws), l1n.subdiff_distance(w, grad, ws), inp)
        x = rng.choice([v for v in V if v != 0])
        cmp("prox:one-task L2_1=L1", l21.prox_1feat(np.array([x]), 0.5, 0), [l1n.prox_1d(x, 0.5, 0)], dict(inp, x=x))
        n = rng.randint(3, 6)
        X = np.asfortranarray(np.array([[rng.gauss(0, 1) for _ in range(p)] for _ in range(n)]))
        y = np.array([rng.gauss(0, 1) for _ in range(n)])
        Xw = X @ w
        qm, qd = cc(sd.QuadraticMultiTask()), cc(sd.Quadratic())
        qm.initialize(X, y.reshape(-1, 1)); qd.initialize(X, y)
        inp2 = dict(X=X.tolist(), y=y.tolist(), w=w.tolist())
        cmp("value:one-task QuadraticMultiTask=Quadratic", qm.value(y.reshape(-1, 1), W, Xw.reshape(-1, 1)), qd.value(y, w, Xw), inp2)
        cmp("lipschitz:one-task QuadraticMultiTask=Quadratic", qm.get_lipschitz(X, y.reshape(-1, 1)), qd.get_lipschitz(X, y), inp2)
        for j in range(p):
            cmp("gradient:one-task QuadraticMultiTask=Quadratic", qm.gradient_j(X, y.reshape(-1, 1), W, Xw.reshape(-1, 1), j), [qd.gradient_scalar(X, y, w, Xw, j)], inp2)
        # constant SLOPE = L1
        sl_ = cc(SLOPE(np.full(p, a)))
        xv = np.array([rng.choice(V) for _ in range(p)])
        cmp("value:constant SLOPE=L1", sl_.value(w), l1n.value(w), inp)
        cmp("prox:constant SLOPE=L1", sl_.prox_vec(xv, 0.5), [l1n.prox_1d(v, 0.5, 0) for v in xv], dict(inp, x=xv.tolist()))
        # very large gamma / delta
        big = cc(sp.MCPenalty(a, 1e12, False))
        for _ in range(3):
            x, s = rng.choice(V), rng.choice([0.25, 1.0])
            cmp("prox:MCP(gamma->inf)=L1", big.prox_1d(x, s, 0), l1n.prox_1d(x, s, 0), dict(inp, x=x, s=s), tol=1e-9)
        hub = cc(sd.Huber(1e6))
        cmp("value:Huber(delta->inf)=Quadratic", hub.value(y, w, Xw), qd.value(y, w, Xw), inp2)
        for j in range(p):
            cmp("gradient:Huber(delta->inf)=Quadratic", hub.gradient_scalar(X, y, w, Xw, j), qd.gradient_scalar(X, y, w, Xw, j), inp2)
        # unit / integer sample weights
        wq = cc(sd.WeightedQuadratic(np.ones(n))); wq.initialize(X, y)
        cmp("value:WeightedQuadratic(1)=Quadratic", wq.value(y, w, Xw), qd.value(y, w, Xw), inp2)
        cmp("lipschitz:WeightedQuadratic(1)=Quadratic", wq.get_lipschitz(X, y), qd.get_lipschitz(X, y), inp2)
        for j in range(p):
            cmp("gradient:WeightedQuadratic(1)=Quadratic", wq.gradient_scalar(X, y, w, Xw, j), qd.gradient_scalar(X, y, w, Xw, j), inp2)
        reps = np.array([rng.randint(1, 3) for _ in range(n)])
        Xr, yr = np.asfortranarray(np.repeat(X, reps, axis=0)), np.repeat(y, reps)
        wqi = cc(sd.WeightedQuadratic(reps.astype(float))); wqi.initialize(X, y)
        qr = cc(sd.Quadratic()); qr.initialize(Xr, yr)
        cmp("value:integer-weights=replicated-rows", wqi.value(y, w, Xw), qr.value(yr, w, Xr @ w), dict(inp2, reps=reps.tolist()))
        cmp("lipschitz:integer-weights=replicated-rows", wqi.get_lipschitz(X, y), qr.get_lipschitz(Xr, yr), dict(inp2, reps=reps.tolist()))
        for j in range(p):
            cmp("gradient:integer-weights=replicated-rows", wqi.gradient_scalar(X, y, w, Xw, j), qr.gradient_scalar(Xr, yr, w, Xr @ w, j), dict(inp2, reps=reps.tolist()))
        # Efron = Breslow without ties
        tm = np.array(rng.sample(range(1, 50), n), dtype=float)
        s_ = np.array([1.0 if rng.random() < 0.7 else 0.0 for _ in range(n)])
        ys = np.column_stack([tm, s_])
        cb, ce = cc(sd.Cox(False)), cc(sd.Cox(True))
        cb.initialize(X, ys); ce.initialize(X, ys)
        cmp("value:Efron=Breslow(no ties)", ce.value(ys, w, Xw), cb.value(ys, w, Xw), dict(inp2, y=ys.tolist()))
        cmp("raw_grad:Efron=Breslow(no ties)", ce.raw_grad(ys, Xw), cb.raw_grad(ys, Xw), dict(inp2, y=ys.tolist()))
        # GramCD vs AndersonCD on the same Lasso
        alpha = 0.1 * float(np.max(np.abs(X.T @ y))) / n
        tol = 1e-10
        wg, _, _ = ss.GramCD(tol=tol, max_iter=2000, fit_intercept=False, greedy_cd=rng.random() < 0.5).solve(X, y, None, cc(sp.L1(alpha)))
        wa, _, _ = ss.AndersonCD(tol=tol, max_iter=200, fit_intercept=False).solve(X, y, cc(sd.Quadratic()), cc(sp.L1(alpha)))
        oa = sl.objective("Quadratic", {}, "L1", dict(alpha=alpha), X, y, np.asarray(wa), 0.0)
        og = sl.objective("Quadratic", {}, "L1", dict(alpha=alpha), X, y, np.asarray(wg), 0.0)
        ev += 1
        if abs(oa - og) > 1e-7 * (1 + abs(oa)):
            failures.append(dict(site="solution:GramCD=AndersonCD", input=dict(inp2, alpha=alpha), observed=og, expected=oa))
    # estimator = equivalent GeneralizedLinearEstimator
    try:
        from skglm.estimators import Lasso, GeneralizedLinearEstimator
        X, y = sl.make_problem(rng)
        alpha = 0.1
        a1 = Lasso(alpha=alpha, tol=1e-10).fit(X, y)
        a2 = GeneralizedLinearEstimator(sd.Quadratic(), sp.L1(alpha), ss.AndersonCD(tol=1e-10)).fit(X, y)
        ev += 1
        if not (np.allclose(a1.coef_, a2.coef_, atol=1e-8) and np.allclose(a1.intercept_, a2.intercept_, atol=1e-8)):
            failures.append(dict(site="solution:Lasso=GeneralizedLinearEstimator", input=dict(X=X.tolist(), y=y.tolist()), observed=np.ravel(a1.coef_).tolist(), expected=np.ravel(a2.coef_).tolist()))
    except Exception as e:
        failures.append(dict(site="raises:estimator-equivalence", input={}, observed=repr(e)[:300]))
    return dict(evaluations=ev, distinct_nontrivial=nontriv, failures=failures, samples=[dict(pairs_checked=ev)])


def replay(payload):
    f = payload.get("failure")
    if not f:
        return dict(fails=False, note="unchecked obligation: " + "; ".join(b.get("what", "") for b in payload.get("broken", [])))
    res = oracle("thorough", random.Random(payload.get("seed", 0) + 1), deep=True)
    same = [x for x in res["failures"] if x["site"] == f["site"]]
    return dict(fails=bool(same), site=f["site"], reproduced=same[:1])
