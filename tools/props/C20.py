"""C20 -- compiled kernels stay inside their arrays."""
import math, random, json, subprocess, sys, os
import numpy as np
import kernels, tvlib
import solverlib as sl
import compos

GEN_SOURCES = ["skglm/solvers/anderson_cd.py", "skglm/solvers/common.py", "skglm/penalties/separable.py", "skglm/datafits/single_task.py", "skglm/solvers/group_bcd.py", "skglm/datafits/group.py", "skglm/solvers/prox_newton.py"]
EXTRA_TARGETS = ["Gen/KernCD.vo", "Gen/KernACD.vo", "Gen/DfSingle.vo", "Gen/PenSeparable.vo", "Gen/PenBlock.vo", "Gen/KernBCD.vo", "Gen/DfGroup.vo", "Gen/KernPN.vo", "Gen/SparseOps.vo"]
TRUSTED_BASE = [
    "Coq 8.16.1 kernel (coqc); vm_compute only in correspondence files",
    "axioms: Reals (sig_forall_dec, sig_not_dec), functional_extensionality_dep, Classical_Prop.classic",
    "translator: every subscript / slice / fancy index of the source becomes get_idx / set_idx / slice / gather, which fail (Err OOB) "
    "out of range with Python's negative wrap; so 'Ok' = bounds-checked execution",
    "numba NUMBA_BOUNDSCHECK=1 as the implementation-side bounds checker (oracle)",
]
ASSUMPTIONS = [
    "proved for the dense CD epoch, the Quadratic gradient and the L1 / WeightedL1 score kernels; group / multitask / prox-Newton kernels "
    "and the shape discipline of every solver: checked-vs-unchecked differential runs (partial)",
]
RULE = ("correspondence: real njit kernels vs regenerated Gallina on shapes with the last feature / sample in the working set; oracle: the "
        "compositions of tools/compos.py (weighted penalties, group layouts, +-intercept, both ws strategies, dense / CSC) run in a "
        "subprocess with NUMBA_BOUNDSCHECK=1 and in-process unchecked: no IndexError / broadcasting error and identical results; "
        "non-trivial = every composition")


def correspondence(tier, rng):
    kc = kernels.gen_cd_kernels(rng, 80 if tier == "quick" else 500) + kernels.gen_blocks(rng, 60 if tier == "quick" else 300)
    kc += [c for c in kernels.gen_penalties(rng, 120 if tier == "quick" else 600) if "subdiff_distance" in c[0]]
    r = tvlib.run_cases(kc, ["Gen.ProxFuncs", "Gen.PenSeparable", "Gen.PenBlock", "Gen.SparseOps", "Gen.DfSingle", "Gen.KernCD", "Gen.KernACD"], "C20", shard=40, jobs=16)
    base = dict(cases=len(kc), bad=r["bad"][:10], errors=r["errors"], distribution=dict(kernel_cases=len(kc)),
                distinct_nontrivial=len({c[0] for c in kc}), samples=[dict(case=kc[0][0][:300])])
    base = kernels.add_bcd_kernel_corr(base, rng, 105 if tier == "quick" else 700, "C20k")
    return kernels.add_pn_kernel_corr(base, rng, 90 if tier == "quick" else 540, "C20p")


def oracle(tier, rng, deep=False):
    failures = []
    specs = compos.menu(rng)
    if tier == "quick" and not deep:
        keep = {"AndersonCD:Quadratic:WeightedL1", "AndersonCD:WeightedQuadratic:WeightedMCPenalty", "ProxNewton:Poisson:WeightedL1",
                "GroupBCD:Quadratic:WeightedGroupL2", "GroupProxNewton:Logistic:WeightedGroupL2", "MultiTaskBCD:QuadraticMultiTask:L2_1",
                "GramCD:Quadratic:L1", "AndersonCD:Logistic:L1_plus_L2", "GroupBCD:Quadratic:WeightedL1GroupL2"}
        specs = [s for s in specs if f"{s['solver']}:{s['datafit']}:{s['penalty']}" in keep]
    jobs = []
    for s in specs:
        for fi in ([False, True] if s["solver"] not in ("GramCD", "FISTA") else [False]):
            s2 = dict(s, fit_intercept=fi)
            jobs.append((s2, False))
            if s["solver"] in ("AndersonCD", "MultiTaskBCD") and s["penalty"] != "WeightedGroupL2" and tier != "quick":
                jobs.append((s2, True))
    env = dict(os.environ, NUMBA_BOUNDSCHECK="1", NUMBA_CACHE_DIR="/tmp/skglm_verif_numba_cache_bc", PYTHONPATH=os.environ.get("SKGLM_REPO", "/repo"))
    p = subprocess.run([sys.executable, os.path.join(os.path.dirname(os.path.dirname(os.path.abspath(__file__))), "bounds_worker.py")],
                       input=json.dumps(jobs), capture_output=True, text=True, env=env, timeout=3000)
    lines = [l for l in p.stdout.splitlines() if l.startswith("{")]
    ev = 0
    if len(lines) != len(jobs):
        failures.append(dict(site="worker-died", input=dict(n_jobs=len(jobs), got=len(lines)), observed=(p.stderr or "")[-500:]))
    for (spec, sp_), line in zip(jobs, lines):
        site = f"{spec['solver']}:{spec['datafit']}:{spec['penalty']}"
        chk = json.loads(line)
        try:
            ref = dict(ok=True, out=compos.run_composition(spec, sp_))
        except Exception as e:
            ref = dict(ok=False, exc=type(e).__name__, msg=str(e)[:300])
        ev += 1
        inp = dict({k: v for k, v in spec.items()}, sparse=sp_)
        if not chk["ok"] and ref["ok"]:
            failures.append(dict(site=f"boundscheck-raises:{site}:intercept={spec['fit_intercept']}", input=inp, observed=chk))
        elif chk["ok"] and ref["ok"]:
            a, b = np.asarray(chk["out"]["w"]), np.asarray(ref["out"]["w"])
            if a.shape != b.shape or not np.allclose(a, b, rtol=1e-9, atol=1e-12, equal_nan=True):
                failures.append(dict(site=f"checked-differs-from-unchecked:{site}", input=inp, observed=chk["out"], expected=ref["out"]))
        elif not chk["ok"] and not ref["ok"]:
            expl = any(t in ref.get("msg", "") for t in ("not compatible", "must implement", "Missing", "positive values", "not supported", "Sparse matrices", "should"))
            if not expl:
                failures.append(dict(site=f"raises:{site}", input=inp, observed=ref))
    return dict(evaluations=ev, distinct_nontrivial=ev, failures=failures, samples=[dict(compositions=ev)])


def replay(payload):
    f = payload.get("failure")
    if not f:
        return dict(fails=False, note="unchecked obligation: " + "; ".join(b.get("what", "") for b in payload.get("broken", [])))
    res = oracle("thorough", random.Random(payload.get("seed", 0) + 1), deep=True)
    same = [x for x in res["failures"] if x["site"] == f["site"]]
    return dict(fails=bool(same), site=f["site"], reproduced=same[:1])
