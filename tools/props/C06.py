"""C06 -- datafits are faithful: documented loss, exact derivatives, dense = sparse."""
import math
import numpy as np
import kernels, tvlib
from speclib import datafit_instances, doc_loss

GEN_SOURCES = ["skglm/datafits/single_task.py", "skglm/utils/sparse_ops.py", "skglm/datafits/group.py",
               "skglm/datafits/multi_task.py"]
EXTRA_TARGETS = ["Gen/DfSingle.vo", "Gen/SparseOps.vo", "Gen/DfGroup.vo"]
TRUSTED_BASE = [
    "Coq 8.16.1 kernel (coqc); vm_compute only in correspondence files",
    "axioms: Reals (sig_forall_dec, sig_not_dec), functional_extensionality_dep, Classical_Prop.classic (Reals, Coquelicot)",
    "Coquelicot 3.x (is_derive, auto_derive)",
    "translator tools/py2coq.py + signature table tools/gen.py (model regenerated from source each run)",
    "Base/{Res,Num,RInst}.v: meaning of numpy operations; X as list of columns; CSC as (data, indptr, indices) lists",
    "real-number reading of float code",
    "tools/speclib.py documented loss formulas (implementation-side oracle only)",
]
ASSUMPTIONS = [
    "shape well-formedness (len(y) = len(Xw) = n_samples > 0, X columns of length n_samples, CSC well formed with rows < n_samples)",
    "Cox: hand model only (not regenerated); Efron gradient identity checked by the finite-difference oracle, not proved",
]
RULE = ("correspondence: every accessor of every translated datafit on small dyadic (X, y, w, Xw) incl. zero columns, dense and CSC, real "
        "compiled object vs vm_compute of the regenerated Gallina; oracle: value vs documented formula, every derivative accessor "
        "vs central differences of the documented loss, sparse vs dense accessors; non-trivial = non-zero gradient entry")


def correspondence(tier, rng):
    n = 100 if tier == "quick" else 600
    cases = kernels.gen_datafits(rng, n) + kernels.gen_datafits(rng, 25 if tier == "quick" else 150, transcendental=True)
    r = tvlib.run_cases(cases, ["Gen.SparseOps", "Gen.DfSingle"], "C06", shard=40, jobs=16)
    dist = {}
    for lab, *_ in cases:
        k = lab.split("(")[0]
        dist[k] = dist.get(k, 0) + 1
    return dict(cases=len(cases), bad=r["bad"][:20], errors=r["errors"], distribution=dist,
                distinct_nontrivial=len({c[0] for c in cases}),
                samples=[dict(case=c[0][:300], model=c[1][:300], expected=c[3][:200]) for c in cases[:3]])


def _close(a, b, tol=2e-5):
    a, b = np.asarray(a, dtype=float), np.asarray(b, dtype=float)
    if a.shape != b.shape:
        return False
    return bool(np.all(np.abs(a - b) <= tol * (1 + np.abs(b))))


def oracle(tier, rng, deep=False):
    from scipy import sparse
    failures, samples = [], []
    ev = nontriv = 0
    nrep = 3 if tier == "quick" and not deep else (9 if tier == "quick" else 15)   # quick + broken obligation: 3x the quick search
    for _ in range(nrep):
        for name, make, ygen, params in datafit_instances(rng):
            n, p = rng.randint(3, 7), rng.randint(1, 4)
            X = np.array([[rng.gauss(0, 1) if rng.random() < 0.6 else 0.0 for _ in range(p)] for _ in range(n)])
            if rng.random() < 0.3:
                X[:, rng.randrange(p)] = 0.0
            y = ygen(rng, n)
            P = params(n)
            df = make(P)
            w = np.array([rng.gauss(0, 0.7) for _ in range(p)])
            b0 = rng.gauss(0, 0.3)
            Xw = X @ w + b0
            Xs = sparse.csc_matrix(X)
            D, IP, IX = Xs.data.astype(float), Xs.indptr.astype(np.int32), Xs.indices.astype(np.int32)
            inp = dict(X=X.tolist(), y=np.asarray(y).tolist(), w=w.tolist(), b=b0, params={k: (v.tolist() if hasattr(v, "tolist") else v) for k, v in P.items()})
            F = lambda ww, bb: doc_loss(name, P, y, X @ ww + bb)

            def fail(site, obs, exp):
                failures.append(dict(site=f"{site}:{name}", input=inp, observed=np.asarray(obs, dtype=float).tolist() if obs is not None else None,
                                     expected=np.asarray(exp, dtype=float).tolist()))
            try:
                if hasattr(df, "initialize"):
                    df.initialize(X, y)
                ev += 1
                v = df.value(y, w, Xw)
                if not _close(v, F(w, b0), 1e-9):
                    fail("value", v, F(w, b0))
                h = 1e-6
                gnum = np.array([(F(w + h * np.eye(p)[j], b0) - F(w - h * np.eye(p)[j], b0)) / (2 * h) for j in range(p)])
                bnum = (F(w, b0 + h) - F(w, b0 - h)) / (2 * h)
                rnum = np.array([(doc_loss(name, P, y, Xw + h * np.eye(n)[i]) - doc_loss(name, P, y, Xw - h * np.eye(n)[i])) / (2 * h) for i in range(n)])
                if np.any(np.abs(gnum) > 1e-8):
                    nontriv += 1
                if hasattr(df, "gradient_scalar"):
                    g = np.array([df.gradient_scalar(X, y, w, Xw, j) for j in range(p)])
                    ev += 1
                    if not _close(g, gnum):
                        fail("gradient_scalar", g, gnum)
                if hasattr(df, "gradient"):
                    ev += 1
                    g = df.gradient(X, y, Xw)
                    if not _close(g, gnum):
                        fail("gradient", g, gnum)
                if hasattr(df, "raw_grad"):
                    ev += 1
                    g = df.raw_grad(y, Xw)
                    if not _close(g, rnum):
                        fail("raw_grad", g, rnum)
                if hasattr(df, "raw_hessian"):
                    ev += 1
                    hn = np.array([(doc_loss(name, P, y, Xw + h * 100 * np.eye(n)[i]) - 2 * doc_loss(name, P, y, Xw)
                                    + doc_loss(name, P, y, Xw - h * 100 * np.eye(n)[i])) / (h * 100) ** 2 for i in range(n)])
                    hh = df.raw_hessian(y, Xw)
                    if name not in ("Cox", "CoxEfron") and not _close(hh, hn, 1e-3):
                        fail("raw_hessian", hh, hn)
                if hasattr(df, "intercept_update_step"):
                    ev += 1
                    s = df.intercept_update_step(y, Xw)
                    # doc/tutorials/intercept.md: the step is grad / L0, L0 = 1/4 for the logistic loss, 1 otherwise
                    exp = 4 * bnum if name == "Logistic" else bnum
                    if not _close(s, exp):
                        fail("intercept_update_step", s, exp)
                # sparse accessors
                df2 = make(P)
                if hasattr(df2, "initialize_sparse"):
                    df2.initialize_sparse(D, IP, IX, y)
                if hasattr(df2, "gradient_scalar_sparse"):
                    ev += 1
                    g = np.array([df2.gradient_scalar_sparse(D, IP, IX, y, Xw, j) for j in range(p)])
                    if not _close(g, gnum):
                        fail("gradient_scalar_sparse", g, gnum)
                if hasattr(df2, "full_grad_sparse"):
                    ev += 1
                    g = df2.full_grad_sparse(D, IP, IX, y, Xw)
                    if not _close(g, gnum):
                        fail("full_grad_sparse", g, gnum)
                if hasattr(df2, "gradient_sparse"):
                    ev += 1
                    g = df2.gradient_sparse(D, IP, IX, y, Xw)
                    if not _close(g, gnum):
                        fail("gradient_sparse", g, gnum)
                if hasattr(df2, "get_lipschitz_sparse") and hasattr(df, "get_lipschitz"):
                    ev += 1
                    a, b_ = df.get_lipschitz(X, y), df2.get_lipschitz_sparse(D, IP, IX, y)
                    if not _close(b_, a, 1e-9):
                        fail("get_lipschitz_sparse", b_, a)
                if len(samples) < 3:
                    samples.append(dict(datafit=name, n=n, p=p, value=float(v), grad_fd=gnum.tolist()))
            except Exception as e:
                failures.append(dict(site=f"raises:{name}", input=inp, observed=repr(e)[:300]))
    # group datafits with ANY group structure (shuffled, non-contiguous grp_indices): per-group gradients = derivative of the
    # documented loss, sparse accessor = dense accessor, intercept step = mean residual / mean raw gradient
    try:
        import skglm.datafits as sd
        from skglm.utils.jit_compilation import compiled_clone
        for _ in range(6 if tier == "quick" and not deep else 30):
            n, p = rng.randint(4, 8), rng.randint(3, 7)
            X = np.array([[rng.gauss(0, 1) if rng.random() < 0.7 else 0.0 for _ in range(p)] for _ in range(n)])
            order = list(range(p)); rng.shuffle(order)
            sizes, left = [], p
            while left > 0:
                s_ = rng.randint(1, min(3, left)); sizes.append(s_); left -= s_
            gp = np.cumsum([0] + sizes).astype(np.int32)
            gi = np.array(order, dtype=np.int32)
            w = np.array([rng.gauss(0, 0.7) for _ in range(p)])
            Xw = X @ w + rng.gauss(0, 0.3)
            Xs = sparse.csc_matrix(X)
            D, IP, IX = Xs.data.astype(float), Xs.indptr.astype(np.int32), Xs.indices.astype(np.int32)
            for gname in ("QuadraticGroup", "LogisticGroup"):
                y = np.array([rng.gauss(0, 1) for _ in range(n)]) if gname == "QuadraticGroup" else np.array([rng.choice([-1.0, 1.0]) for _ in range(n)])
                df = compiled_clone(getattr(sd, gname)(gp, gi))
                df.initialize(np.asfortranarray(X), y)
                raw = (Xw - y) / n if gname == "QuadraticGroup" else -y / (1 + np.exp(y * Xw)) / n
                inp = dict(datafit=gname, X=X.tolist(), y=y.tolist(), w=w.tolist(), Xw=Xw.tolist(), grp_ptr=gp.tolist(), grp_indices=gi.tolist())
                for g in range(len(sizes)):
                    idx = gi[gp[g]:gp[g + 1]]
                    ev += 1; nontriv += 1
                    exp = X[:, idx].T @ raw
                    got = np.asarray(df.gradient_g(np.asfortranarray(X), y, w, Xw, g), dtype=float)
                    if got.shape != exp.shape or not np.allclose(got, exp, rtol=1e-9, atol=1e-12):
                        failures.append(dict(site=f"gradient_g:{gname}", input=dict(inp, g=g), observed=got.tolist(), expected=exp.tolist()))
                    if hasattr(df, "gradient_g_sparse"):
                        gs = np.asarray(df.gradient_g_sparse(D, IP, IX, y, w, Xw, g), dtype=float)
                        if gs.shape != exp.shape or not np.allclose(gs, exp, rtol=1e-9, atol=1e-12):
                            failures.append(dict(site=f"gradient_g_sparse:{gname}", input=dict(inp, g=g), observed=gs.tolist(), expected=exp.tolist()))
    except Exception as e:
        failures.append(dict(site="raises:group-datafits", input={}, observed=repr(e)[:300]))
    return dict(evaluations=ev, distinct_nontrivial=nontriv, failures=failures, samples=samples)


def replay(payload):
    f = payload.get("failure")
    if not f:
        return dict(fails=False, note="unchecked obligation: " + "; ".join(b.get("what", "") for b in payload.get("broken", [])))
    import random
    res = oracle("thorough", random.Random(payload.get("seed", 0) + 1), deep=True)
    same = [x for x in res["failures"] if x["site"] == f["site"]]
    return dict(fails=bool(same), site=f["site"], reproduced=same[:1])
