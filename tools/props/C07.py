"""C07 -- proximal operators return a global minimiser of the prox objective."""
import math, itertools
import numpy as np
import kernels, tvlib
from speclib import PEN1D, pen_instances_1d, block_instances, prox_objective_block

GEN_SOURCES = ["skglm/utils/prox_funcs.py", "skglm/penalties/separable.py", "skglm/penalties/block_separable.py"]
EXTRA_TARGETS = ["Gen/ProxFuncs.vo", "Gen/PenSeparable.vo", "Gen/PenBlock.vo"]
TRUSTED_BASE = [
    "Coq 8.16.1 kernel (coqc); vm_compute used only in correspondence files, no native_compute",
    "axioms: Reals (sig_forall_dec, sig_not_dec), functional_extensionality_dep, Classical_Prop.classic (via Reals/Lra)",
    "translator tools/py2coq.py + signature table tools/gen.py (model regenerated from source each run)",
    "Base/{Res,Num,RInst}.v: meaning given to numpy/Python operations (lists, Z indices, error monad for / sqrt log [])",
    "real-number reading of float code: rounding, overflow, float32 not modelled",
    "numba compiles the Python source to the semantics the translator assumes (validated by QNum-vs-implementation runs)",
    "tools/speclib.py: documented penalty formulas used by the implementation-side prox-objective oracle",
]
ASSUMPTIONS = [
    "admissible ranges as in the theorems: alpha >= 0, step >= 0, MCP: weight*step < gamma, SCAD: step < gamma - 1",
    "prox_05 / prox_2_3 / prox_log_sum / prox_SLOPE: closed forms not proved globally optimal (partial); checked by grid oracle only",
]
RULE = ("correspondence: dyadic grid (k/8 in [-3,3], hyper-parameters in {1/4..4}) through the real compiled numba "
        "objects vs vm_compute of the regenerated Gallina on QNum; oracle: prox output vs brute-force grid "
        "minimisation of 0.5(u-x)^2 + s*pen(u) with the documented penalty formula; a case is non-trivial when "
        "the prox output is non-zero or x is within 1/8 of a threshold; distinct = distinct (kernel, arguments)")


def correspondence(tier, rng):
    n = 60 if tier == "quick" else 400
    cases = kernels.gen_prox_funcs(rng, n) + kernels.gen_penalties(rng, 2 * n)
    cases += kernels.gen_blocks(rng, n)
    if tier == "thorough":
        cases += kernels.gen_prox_transcendental(rng, 60) + kernels.gen_penalties(rng, 80, transcendental=True)
    else:
        cases += kernels.gen_prox_transcendental(rng, 8)
    r = tvlib.run_cases(cases, ["Gen.ProxFuncs", "Gen.PenSeparable", "Gen.PenBlock"], "C07",
                        shard=40 if tier == "quick" else 200, jobs=16)
    dist = {}
    for lab, *_ in cases:
        k = lab.split("(")[0]
        dist[k] = dist.get(k, 0) + 1
    return dict(cases=len(cases), bad=r["bad"][:20], errors=r["errors"], distribution=dist,
                distinct_nontrivial=len({c[0] for c in cases}),
                samples=[dict(case=c[0], model=c[1], expected=c[3]) for c in cases[:3]])


def oracle(tier, rng, deep=False):
    """prox output of the REAL objects vs grid minimisation of the documented prox objective"""
    failures, samples = [], []
    ev = nontriv = 0
    nrep = 6 if tier == "quick" and not deep else (18 if tier == "quick" else 30)   # quick + broken obligation: 3x the quick search
    xs = [k / 8 for k in range(-32, 33)]
    fine = np.linspace(-6, 6, 4801)
    for _ in range(nrep):
        for name, obj, pen, feasible, admissible in pen_instances_1d(rng):
            for x in rng.sample(xs, 12):
                for s in rng.sample([0.125, 0.5, 1.0, 2.0], 2):
                    j = rng.randrange(obj._p)
                    if not admissible(s, j):
                        continue
                    ev += 1
                    site = f"prox_1d:{name}"
                    try:
                        p = float(obj.prox_1d(x, s, j))
                    except Exception as e:
                        failures.append(dict(site=site + ":raises", input=dict(x=x, s=s, j=j, params=obj._params),
                                             observed=repr(e)))
                        continue
                    if not math.isfinite(p):
                        failures.append(dict(site=site + ":nonfinite", input=dict(x=x, s=s, j=j, params=obj._params),
                                             observed=p))
                        continue
                    if p != 0:
                        nontriv += 1
                    if not feasible(p, j):
                        failures.append(dict(site=site + ":infeasible", input=dict(x=x, s=s, j=j, params=obj._params),
                                             observed=p))
                        continue
                    cand = np.concatenate([fine, [0.0, x, p]])
                    cand = cand[[feasible(u, j) for u in cand]]
                    objs = 0.5 * (cand - x) ** 2 + s * np.array([pen(u, j) for u in cand])
                    best = objs.min()
                    mine = 0.5 * (p - x) ** 2 + s * pen(p, j)
                    if mine > best + 1e-9 * (1 + abs(best)):
                        failures.append(dict(site=site, input=dict(x=x, s=s, j=j, params=obj._params),
                                             observed=dict(prox=p, objective=mine),
                                             expected=dict(argmin=float(cand[objs.argmin()]), objective=float(best))))
                    elif len(samples) < 3 and p != 0:
                        samples.append(dict(kernel=site, x=x, s=s, prox=p, objective=mine, grid_min=float(best)))
        for name, obj, blockpen, admissible, gen_x in block_instances(rng):
            for _ in range(8):
                s = rng.choice([0.125, 0.5, 1.0, 2.0])
                x, g = gen_x(rng)
                if not admissible(s, g):
                    continue
                ev += 1
                site = f"prox_block:{name}"
                inp = dict(x=list(map(float, x)), s=s, g=g, params=obj._params)
                try:
                    p = np.asarray(obj._prox(np.array(x, dtype=float), s, g), dtype=float)
                except Exception as e:
                    z = "zero-input" if not np.any(x) else "raises"
                    failures.append(dict(site=f"{site}:{z}", input=inp, observed=repr(e)))
                    continue
                if not np.all(np.isfinite(p)):
                    z = "zero-input" if not np.any(x) else "nonfinite"
                    failures.append(dict(site=f"{site}:{z}", input=inp, observed=list(map(float, p))))
                    continue
                if np.any(p):
                    nontriv += 1
                bad = prox_objective_block(blockpen, x, s, g, p, rng)
                if bad is not None:
                    failures.append(dict(site=site, input=inp, observed=dict(prox=list(map(float, p))), expected=bad))
    return dict(evaluations=ev, distinct_nontrivial=nontriv, failures=failures, samples=samples)


def replay(payload):
    f = payload.get("failure")
    if not f:
        return dict(fails=False, note="no concrete input in this replay (unchecked obligation): " +
                    "; ".join(b.get("what", "") for b in payload.get("broken", [])))
    import random
    res = oracle("thorough", random.Random(payload.get("seed", 0) + 1), deep=True)
    same = [x for x in res["failures"] if x["site"] == f["site"]]
    return dict(fails=bool(same), site=f["site"], reproduced=same[:1])
