"""C16 -- critical regularisation strength: null solution exactly from alpha_max."""
import math, random
import numpy as np
from scipy import sparse
import kernels, tvlib
import solverlib as sl

GEN_SOURCES = ["skglm/penalties/separable.py", "skglm/utils/prox_funcs.py"]
EXTRA_TARGETS = ["Gen/ProxFuncs.vo", "Gen/PenSeparable.vo"]
TRUSTED_BASE = [
    "Coq 8.16.1 kernel (coqc); vm_compute only in correspondence files",
    "axioms: Reals (sig_forall_dec, sig_not_dec), functional_extensionality_dep, Classical_Prop.classic",
    "translator tools/py2coq.py + signature table (alpha_max, subdiff_distance regenerated each run)",
    "C08 (score = distance to the subdifferential) and C06 (gradient kernels) for the meaning of the score",
]
ASSUMPTIONS = [
    "proved at kernel level for L1 / MCP-type (max |g|) and L1_plus_L2 (max |g| / l1_ratio); weighted, group and multitask formulas and "
    "the 'solver returns exactly 0 with the optimal unpenalised part' part: implementation oracle (partial)",
]
RULE = ("correspondence: regenerated alpha_max / subdiff_distance vs real compiled objects; oracle: for each penalty defining alpha_max "
        "(and the group / multitask formulas), solvers and estimators are fitted at alpha_max*(1 + 1e-3) -> coefficients exactly 0 and the "
        "unpenalised part (intercept, zero-weight features) optimal; at alpha_max*(1 - 1e-2) -> some coefficient non-zero; non-centred "
        "targets, zero weights, +-intercept; non-trivial = every fit")


def correspondence(tier, rng):
    n = 200 if tier == "quick" else 1200
    cases = [c for c in kernels.gen_penalties(rng, n) if "alpha_max" in c[0] or "subdiff_distance" in c[0]]
    r = tvlib.run_cases(cases, ["Gen.ProxFuncs", "Gen.PenSeparable"], "C16", shard=60, jobs=16)
    return dict(cases=len(cases), bad=r["bad"][:10], errors=r["errors"], distribution=dict(cases=len(cases)),
                distinct_nontrivial=len({c[0] for c in cases}), samples=[dict(case=c[0][:300]) for c in cases[:2]])


def oracle(tier, rng, deep=False):
    import skglm.datafits as sd, skglm.penalties as sp, skglm.solvers as ss
    from skglm.utils.data import _alpha_max_group_lasso
    cc = sl.cc
    failures, samples = [], []
    ev = nontriv = 0
    nrep = 16 if tier == "quick" and not deep else (48 if tier == "quick" else 120)   # quick + broken obligation: 3x the quick search

    def null_grad(dname, DP, X, y, fi, unpen=None):
        """gradient at the null model with its optimal unpenalised part (intercept and unpenalised features), numerically"""
        n, p = X.shape
        cols = [] if unpen is None else list(np.where(unpen)[0])
        A = np.column_stack([X[:, cols]] + ([np.ones(n)] if fi else [])) if (cols or fi) else np.zeros((n, 0))
        th = np.zeros(A.shape[1])
        if A.shape[1] and dname == "Quadratic":
            th = np.linalg.lstsq(A, y, rcond=None)[0]                 # exact optimal unpenalised part
        elif A.shape[1]:
            assert not cols                                           # non-quadratic: intercept only, 1-d bisection on dF/db
            lo, hi = -30.0, 30.0
            for _ in range(200):
                m = (lo + hi) / 2
                h_ = 1e-6
                d = (sl.doc_loss(dname, DP, y, np.full(n, m + h_)) - sl.doc_loss(dname, DP, y, np.full(n, m - h_))) / (2 * h_)
                if d > 0:
                    hi = m
                else:
                    lo = m
            th = np.array([(lo + hi) / 2])
        z = A @ th if A.shape[1] else np.zeros(n)
        h = 1e-6
        rg = np.array([(sl.doc_loss(dname, DP, y, z + h * np.eye(n)[i]) - sl.doc_loss(dname, DP, y, z - h * np.eye(n)[i])) / (2 * h) for i in range(n)])
        return X.T @ rg, th
    for _ in range(nrep):
        kind = rng.choice(["L1", "L1_plus_L2", "WeightedL1", "MCPenalty", "MCPenalty", "WeightedMCPenalty", "group", "multitask"])
        fi = rng.random() < 0.6
        try:
            if kind == "multitask":
                X, _ = sl.make_problem(rng)
                n, p = X.shape
                T = rng.randint(1, 3)
                Y = X @ np.array([[rng.gauss(0, 1) for _ in range(T)] for _ in range(p)]) + rng.choice([0.0, 5.0, -3.0])
                Yc = Y - Y.mean(axis=0) if fi else Y
                amax = float(np.max(np.linalg.norm(X.T @ Yc, axis=1))) / n
                for f, want_zero in [(1.001, True), (0.98, False)]:
                    W, _, stop = ss.MultiTaskBCD(tol=1e-10, fit_intercept=fi, max_iter=200, max_epochs=2000).solve(
                        np.asfortranarray(X), np.asfortranarray(Y), cc(sd.QuadraticMultiTask()), cc(sp.L2_1(amax * f)))
                    ev += 1; nontriv += 1
                    Wc = np.asarray(W)[:p]
                    inp = dict(kind=kind, X=X.tolist(), Y=Y.tolist(), fit_intercept=fi, alpha=amax * f)
                    if want_zero and np.any(Wc != 0):
                        failures.append(dict(site="nonzero-above-alpha_max:MultiTaskBCD", input=inp, observed=Wc.tolist()))
                    if want_zero and fi and not np.allclose(np.asarray(W)[-1], Y.mean(axis=0), atol=1e-6):
                        failures.append(dict(site="intercept-not-optimal-at-null:MultiTaskBCD", input=inp, observed=np.asarray(W)[-1].tolist(), expected=Y.mean(axis=0).tolist()))
                    if not want_zero and not np.any(Wc != 0):
                        failures.append(dict(site="zero-below-alpha_max:MultiTaskBCD", input=inp, observed=Wc.tolist()))
                continue
            if kind == "group":
                X, y = sl.make_problem(rng)
                y = y + rng.choice([0.0, 4.0])
                n, p = X.shape
                grp_ptr, grp_indices = sl.make_groups(rng, p)
                ng = len(grp_ptr) - 1
                weights = np.array([rng.choice([0.5, 1.0, 2.0]) for _ in range(ng)])
                yc = y - y.mean() if fi else y
                amax = _alpha_max_group_lasso(X, yc, grp_indices, grp_ptr, weights)
                for f, want_zero in [(1.001, True), (0.98, False)]:
                    w, b, _, stop = sl.run_group("GroupBCD", rng, np.asfortranarray(X), y, "Quadratic", grp_ptr, grp_indices, amax * f, weights, False,
                                                 dict(tol=1e-10, fit_intercept=fi, max_iter=500, max_epochs=2000))
                    ev += 1; nontriv += 1
                    inp = dict(kind=kind, X=X.tolist(), y=y.tolist(), fit_intercept=fi, alpha=amax * f, grp_ptr=grp_ptr.tolist(), grp_indices=grp_indices.tolist(), weights=weights.tolist())
                    if want_zero and np.any(w != 0):
                        failures.append(dict(site="nonzero-above-alpha_max:GroupBCD", input=inp, observed=w.tolist()))
                    if want_zero and fi and abs(b - y.mean()) > 1e-6:
                        failures.append(dict(site="intercept-not-optimal-at-null:GroupBCD", input=inp, observed=b, expected=float(y.mean())))
                    if not want_zero and not np.any(w != 0):
                        failures.append(dict(site="zero-below-alpha_max:GroupBCD", input=inp, observed=w.tolist()))
                continue
            dname = rng.choice(["Quadratic", "Logistic"] if kind not in ("MCPenalty", "WeightedMCPenalty") else ["Quadratic"])
            ctor, ykind, pgen = sl.DATAFITS[dname]
            X, y = sl.make_problem(rng, kind=ykind)
            if kind in ("MCPenalty", "WeightedMCPenalty") and rng.random() < 0.6:
                # unnormalised features: the coordinate step 1 / L_j may exceed gamma (the critical strength does not depend on it)
                X = X * np.array([rng.choice([0.3, 0.4, 1.0, 2.0]) for _ in range(X.shape[1])])
            if dname == "Quadratic":
                y = y + rng.choice([0.0, 3.0, -5.0])          # non-centred targets
            n, p = X.shape
            wts = np.array([rng.choice([0.0, 0.5, 1.0, 2.0]) for _ in range(p)])
            if kind == "WeightedL1" and not np.any(wts):
                wts[0] = 1.0
            if kind == "WeightedL1" and dname != "Quadratic":
                wts = np.where(wts == 0, 1.0, wts)              # unpenalised features can diverge on separable logistic data
            if kind == "WeightedMCPenalty":
                wts = np.array([rng.choice([0.5, 1.0, 2.0, 4.0]) for _ in range(p)])      # weights above gamma included
            unpen = (wts == 0) if kind == "WeightedL1" else None
            g0, th = null_grad(dname, {}, X, y, fi, unpen)
            if kind == "L1":
                mk = lambda a: sp.L1(a)
            elif kind == "L1_plus_L2":
                rho = rng.choice([0.25, 0.5, 0.9])
                mk = lambda a: sp.L1_plus_L2(a, rho)
            elif kind == "WeightedL1":
                mk = lambda a: sp.WeightedL1(a, wts)
            elif kind == "WeightedMCPenalty":
                mk = lambda a: sp.WeightedMCPenalty(a, 3.0, wts)
            else:
                mk = lambda a: sp.MCPenalty(a, 3.0)
            amax = float(cc(mk(1.0)).alpha_max(g0))
            sname = rng.choice(["AndersonCD", "ProxNewton"] if dname == "Logistic" else ["AndersonCD"])
            for f, want_zero in [(1.001, True), (0.98, False)]:
                df = cc(ctor({}))
                if sname == "ProxNewton":
                    df.initialize(X, y)
                Xs = sparse.csc_matrix(X) if rng.random() < 0.3 else np.asfortranarray(X)
                w, b, _, stop = sl.run(getattr(ss, sname)(tol=1e-9, fit_intercept=fi, max_iter=200), Xs, y, df, cc(mk(amax * f)))
                ev += 1; nontriv += 1
                pen_mask = np.ones(p, bool) if unpen is None else ~unpen
                inp = dict(kind=kind, solver=sname, datafit=dname, X=X.tolist(), y=y.tolist(), fit_intercept=fi, alpha=amax * f, weights=wts.tolist())
                if want_zero and np.any(w[pen_mask] != 0):
                    # a site of its own for: non-convex penalty, fitted intercept, targets with an offset, cold start
                    qual = ":non-convex+intercept+offset-targets:cold-start" if (kind in ("MCPenalty", "WeightedMCPenalty") and fi and abs(float(np.mean(y))) > 0.5) else ""
                    failures.append(dict(site=f"nonzero-above-alpha_max:{kind}{qual}", input=inp, observed=w.tolist()))
                elif want_zero:
                    viol, worst = sl.kkt_violation(dname, {}, kind, dict(alpha=amax * f, weights=wts, l1_ratio=locals().get("rho", 1.0), gamma=3.0), X, y, w, b, fi)
                    if viol > 1e-5:
                        failures.append(dict(site=f"unpenalised-part-not-optimal-at-null:{kind}", input=inp, observed=dict(w=w.tolist(), b=b), expected=dict(violation=viol, worst=worst)))
                if not want_zero and not np.any(w[pen_mask] != 0):
                    failures.append(dict(site=f"zero-below-alpha_max:{kind}", input=inp, observed=w.tolist()))
        except Exception as e:
            failures.append(dict(site=f"raises:{kind}", input=dict(kind=kind), observed=repr(e)[:300]))
    return dict(evaluations=ev, distinct_nontrivial=nontriv, failures=failures, samples=[dict(fits=ev)])


def replay(payload):
    f = payload.get("failure")
    if not f:
        return dict(fails=False, note="unchecked obligation: " + "; ".join(b.get("what", "") for b in payload.get("broken", [])))
    res = oracle("thorough", random.Random(payload.get("seed", 0) + 1), deep=True)
    same = [x for x in res["failures"] if x["site"] == f["site"]]
    return dict(fails=bool(same), site=f["site"], reproduced=same[:1])
