"""C15 -- solutions transform correctly under symmetries of the problem."""
import math, random
import numpy as np
from scipy import sparse
import kernels, tvlib
import solverlib as sl

GEN_SOURCES = ["skglm/datafits/single_task.py"]
EXTRA_TARGETS = ["Gen/DfSingle.vo", "Gen/SparseOps.vo"]
TRUSTED_BASE = [
    "Coq 8.16.1 kernel (coqc); vm_compute only in correspondence files",
    "axioms: Reals (sig_forall_dec, sig_not_dec), functional_extensionality_dep, Classical_Prop.classic",
    "the identities are about the documented objective (tied to the regenerated Quadratic value kernel by C06)",
]
ASSUMPTIONS = [
    "proved: sample permutation, k-fold stacking, joint (y, alpha) scaling of the quadratic objective. Feature / group / task permutation with "
    "weights and group membership, column rescaling, and equality of the RETURNED solutions (visiting order changes with the storage "
    "order): transformed-problem oracle through the solvers (partial)",
]
RULE = ("correspondence: regenerated Quadratic value / gradient / Lipschitz kernels vs real objects on permuted and stacked data; oracle: each "
        "solver on (original, transformed) problems for feature / sample / group / task permutations, k-fold stacking, (y, alpha) scaling and "
        "column rescaling with its weight: mapped solution within 10*tol and equal objective; non-trivial = non-zero solution")


def correspondence(tier, rng):
    n = 100 if tier == "quick" else 600
    cases = [c for c in kernels.gen_datafits(rng, n) if "Quadratic_" in c[0]]
    r = tvlib.run_cases(cases, ["Gen.SparseOps", "Gen.DfSingle"], "C15", shard=40, jobs=16)
    return dict(cases=len(cases), bad=r["bad"][:10], errors=r["errors"], distribution=dict(cases=len(cases)),
                distinct_nontrivial=len({c[0] for c in cases}), samples=[dict(case=c[0][:300]) for c in cases[:2]])


def oracle(tier, rng, deep=False):
    import skglm.datafits as sd, skglm.penalties as sp, skglm.solvers as ss
    cc = sl.cc
    failures = []
    ev = nontriv = 0
    tol = 1e-10
    nrep = 5 if tier == "quick" and not deep else (15 if tier == "quick" else 30)   # quick + broken obligation: 3x the quick search

    def lasso(X, y, pen, fi, solver="AndersonCD", **kw):
        if solver == "AndersonCD":
            return sl.run(ss.AndersonCD(tol=tol, fit_intercept=fi, max_iter=500, **kw), np.asfortranarray(X), y, cc(sd.Quadratic()), cc(pen))
        df = cc(sd.Quadratic()); df.initialize(np.asfortranarray(X), y)
        return sl.run(ss.ProxNewton(tol=tol, fit_intercept=fi, max_iter=200), np.asfortranarray(X), y, df, cc(pen))

    def cmp(site, a, b, inp, atol=1e-7):
        nonlocal ev, nontriv
        ev += 1
        if np.any(np.asarray(b) != 0):
            nontriv += 1
        if not np.allclose(a, b, rtol=1e-6, atol=atol):
            failures.append(dict(site=site, input=inp, observed=np.asarray(a).tolist(), expected=np.asarray(b).tolist()))
    for _ in range(nrep):
        X, y = sl.make_problem(rng, n=rng.randint(10, 16), p=rng.randint(3, 6))
        n, p = X.shape
        fi = rng.random() < 0.5
        a = float(np.max(np.abs(X.T @ (y - y.mean())))) / n * rng.choice([0.05, 0.3])
        wts = np.array([rng.choice([0.5, 1.0, 2.0]) for _ in range(p)])
        inp = dict(X=X.tolist(), y=y.tolist(), alpha=a, weights=wts.tolist(), fit_intercept=fi)
        try:
            solver = rng.choice(["AndersonCD", "ProxNewton"])
            w0, b0, _, _ = lasso(X, y, sp.WeightedL1(a, wts), fi, solver)
            # feature permutation (with weights)
            perm = list(range(p)); rng.shuffle(perm)
            w1, b1, _, _ = lasso(X[:, perm], y, sp.WeightedL1(a, wts[perm]), fi, solver)
            cmp(f"feature-permutation:{solver}", w1, w0[perm], dict(inp, perm=perm))
            cmp(f"feature-permutation-intercept:{solver}", [b1], [b0], dict(inp, perm=perm))
            # sample permutation
            sperm = list(range(n)); rng.shuffle(sperm)
            w2, b2, _, _ = lasso(X[sperm], y[sperm], sp.WeightedL1(a, wts), fi, solver)
            cmp(f"sample-permutation:{solver}", w2, w0, dict(inp, perm=sperm))
            # stacking k times
            k = rng.choice([2, 3])
            w3, b3, _, _ = lasso(np.vstack([X] * k), np.concatenate([y] * k), sp.WeightedL1(a, wts), fi, solver)
            cmp(f"stacking:{solver}", w3, w0, dict(inp, k=k))
            # scaling (y, alpha) by c
            c = rng.choice([0.5, 3.0, 10.0])
            w4, b4, _, _ = lasso(X, c * y, sp.WeightedL1(c * a, wts), fi, solver)
            cmp(f"scale-y-alpha:{solver}", w4, c * w0, dict(inp, c=c), atol=1e-7 * c)
            # rescaling one column with its weight: X_j -> s X_j, weight_j -> s weight_j: coefficient -> w_j / s
            j, s = rng.randrange(p), rng.choice([0.5, 4.0])
            Xs = X.copy(); Xs[:, j] *= s
            ws2 = wts.copy(); ws2[j] *= s
            w5, b5, _, _ = lasso(Xs, y, sp.WeightedL1(a, ws2), fi, solver)
            exp = w0.copy(); exp[j] /= s
            cmp(f"column-rescaling:{solver}", w5, exp, dict(inp, j=j, s=s))
            # group permutation (GroupBCD): permuting groups (and their features) permutes the solution
            gp, gi = sl.make_groups(rng, p)
            ng = len(gp) - 1
            gw = np.array([rng.choice([0.5, 1.0, 2.0]) for _ in range(ng)])
            wg, bg, _, _ = sl.run_group("GroupBCD", rng, np.asfortranarray(X), y, "Quadratic", gp, gi, a, gw, False, dict(tol=tol, fit_intercept=fi, max_iter=2000, max_epochs=1000))
            gperm = list(range(ng)); rng.shuffle(gperm)
            groups = [gi[gp[g]:gp[g + 1]] for g in gperm]
            gp2 = np.cumsum([0] + [len(x) for x in groups]).astype(np.int32)
            gi2 = np.concatenate(groups).astype(np.int32)
            wg2, bg2, _, _ = sl.run_group("GroupBCD", rng, np.asfortranarray(X), y, "Quadratic", gp2, gi2, a, gw[gperm], False, dict(tol=tol, fit_intercept=fi, max_iter=2000, max_epochs=1000))
            cmp("group-permutation:GroupBCD", wg2, wg, dict(inp, gperm=gperm, grp_ptr=gp.tolist(), grp_indices=gi.tolist()))
            # feature relabelling with scattered groups and feature weights (sparse-group lasso, GroupBCD): relabel the features so
            # that the groups become contiguous; the solution must be the relabelled one
            if p >= 3:
                order = list(range(p)); rng.shuffle(order)                       # order[k] = old index of new feature k
                sizes = []
                left = p
                while left > 0:
                    sz = rng.randint(1, min(3, left)); sizes.append(sz); left -= sz
                gpS = np.cumsum([0] + sizes).astype(np.int32)
                giS = np.array(order, dtype=np.int32)                            # scattered: group g = order[gpS[g]:gpS[g+1]]
                wfS = np.array([rng.choice([0.25, 0.5, 1.0, 2.0]) for _ in range(p)])
                wgS = np.array([rng.choice([0.5, 1.0, 2.0]) for _ in range(len(sizes))])
                aS = a * 0.5

                def sgl_solve(Xm, gi_, wf_):
                    df_ = cc(sd.QuadraticGroup(gpS, gi_)); pen_ = cc(sp.WeightedL1GroupL2(aS, wgS, wf_, gpS, gi_))
                    return ss.GroupBCD(tol=tol, fit_intercept=False, max_iter=2000, max_epochs=1000, ws_strategy="fixpoint").solve(np.asfortranarray(Xm), y, df_, pen_)[0]
                wA = sgl_solve(X, giS, wfS)
                wB = sgl_solve(X[:, order], np.arange(p, dtype=np.int32), wfS[order])
                cmp("feature-relabelling:GroupBCD:WeightedL1GroupL2", wB, wA[order], dict(inp, order=order, sizes=sizes, weights_features=wfS.tolist(), weights_groups=wgS.tolist(), alpha=aS))
            # task permutation (MultiTaskBCD)
            T = 3
            Y = np.column_stack([y, X[:, 0] - y, 0.5 * y + X[:, 1]])
            am = float(np.max(np.linalg.norm(X.T @ (Y - Y.mean(axis=0)), axis=1))) / n * 0.2
            W, _, _ = ss.MultiTaskBCD(tol=tol, fit_intercept=fi, max_iter=500).solve(np.asfortranarray(X), np.asfortranarray(Y), cc(sd.QuadraticMultiTask()), cc(sp.L2_1(am)))
            tperm = [2, 0, 1]
            W2, _, _ = ss.MultiTaskBCD(tol=tol, fit_intercept=fi, max_iter=500).solve(np.asfortranarray(X), np.asfortranarray(Y[:, tperm]), cc(sd.QuadraticMultiTask()), cc(sp.L2_1(am)))
            cmp("task-permutation:MultiTaskBCD", np.asarray(W2), np.asarray(W)[:, tperm], dict(inp, Y=Y.tolist(), alpha=am))
        except Exception as e:
            failures.append(dict(site="raises:symmetry", input=inp, observed=f"{type(e).__name__}: {str(e)[:300]}"))
    return dict(evaluations=ev, distinct_nontrivial=nontriv, failures=failures, samples=[dict(pairs=ev)])


def replay(payload):
    f = payload.get("failure")
    if not f:
        return dict(fails=False, note="unchecked obligation: " + "; ".join(b.get("what", "") for b in payload.get("broken", [])))
    res = oracle("thorough", random.Random(payload.get("seed", 0) + 1), deep=True)
    same = [x for x in res["failures"] if x["site"] == f["site"]]
    return dict(fails=bool(same), site=f["site"], reproduced=same[:1])
